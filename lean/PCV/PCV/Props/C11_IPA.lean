/-
  Property C11 — prover/verifier transcripts stay in lock-step; proofs are bound to them,
  inner-product-argument scheme.  The model threads the sponge squeezes `ξs` and the random-oracle
  outputs `ros` as explicit streams: lock-step = prover and verifier consume the same prefix in the
  same order and leave the same remainder, after every operation of a history (`open`/`check`,
  the trait-default `batch_open` against IPA's `batch_check`).
-/
import PCV.Proofs.IPABatch
import PCV.Proofs.IPABatchErr
import PCV.Proofs.IPALC
import PCV.Props.Examples

set_option linter.unusedSectionVars false

namespace PCV.C11
open PCV
variable {F : Type} [Field F] [DecidableEq F]

/-- `check` together with what it leaves of the two streams (the model's `IPA.check` drops them) -/
def ipaCheckT (vk : IPA.VK F) (cs : List (IPA.LComm F)) (z : F) (vs : List F) (π : IPA.Proof F)
    (ξs ros : List F) : Except Err (Bool × List F × List F) :=
  if IPA.badShape vk π then .error .incorrectInputLength
  else
  match IPA.succinctCheck vk cs z vs π ξs ros with
  | .error e => .error e
  | .ok (o, ξr, ror) => .ok (IPA.finalKeyOk vk π o, ξr, ror)

/-- `ipaCheckT` decides like `check` -/
theorem ipa_checkT_decision (vk : IPA.VK F) (cs : List (IPA.LComm F)) (z : F) (vs : List F)
    (π : IPA.Proof F) (ξs ros : List F) :
    IPA.check vk cs z vs π ξs ros
      = match ipaCheckT vk cs z vs π ξs ros with
        | .error e => .error e
        | .ok x => .ok x.1 := by
  unfold IPA.check ipaCheckT
  cases IPA.badShape vk π with
  | true => rfl
  | false =>
    simp only [Bool.false_eq_true, if_false]
    cases IPA.succinctCheck vk cs z vs π ξs ros with
    | error e => rfl
    | ok x => rfl

/-- **IPA, one operation.** `check` on the true values accepts the prover's proof and leaves the
sponge stream and the random-oracle stream exactly where `open` left them. -/
theorem ipa_open_check_lockstep (ck : IPA.CK F) (k : Nat) (hk : ck.commKey.length = 2 ^ k)
    (polys : List (IPA.LPoly F)) (comms : List (IPA.LComm F)) (sts : List (IPA.Rand F))
    (hall : IPA.AllCommitted ck polys comms sts) (hnf : ∀ p ∈ polys, pnorm p.poly = p.poly)
    (z : F) (ξs ros : List F) (rng : Bool) (draws : List F) (π : IPA.Proof F) (ξr ror dr : List F)
    (ho : IPA.open ck polys comms z sts ξs ros rng draws = .ok (π, ξr, ror, dr)) :
    ipaCheckT ck comms z (polys.map fun p => evalPoly p.poly z) π ξs ros = .ok (true, ξr, ror) := by
  obtain ⟨hshape, ⟨us, hsc, hd2⟩, _, _⟩ := IPA.open_succinct_complete ck k hk polys comms sts hall hnf
    z ξs ros rng draws π ξr ror dr ho
  unfold ipaCheckT
  rw [hshape, hsc]
  simp [IPA.finalKeyOk, hd2]

/-- one `open` operation of a history: committed polynomials (with commitments and states), the
point, whether the caller passes an RNG -/
structure IpaOp (F : Type) where
  polys : List (IPA.LPoly F)
  comms : List (IPA.LComm F)
  sts : List (IPA.Rand F)
  z : F
  rng : Bool

/-- the prover performs the operations in order on one sponge, one random oracle, one RNG -/
def ipaProverRun (ck : IPA.CK F) : List (IpaOp F) → List F → List F → List F →
    Except Err (List (IPA.Proof F) × List F × List F × List F)
  | [], ξs, ros, draws => .ok ([], ξs, ros, draws)
  | op :: ops, ξs, ros, draws =>
    match IPA.open ck op.polys op.comms op.z op.sts ξs ros op.rng draws with
    | .error e => .error e
    | .ok (π, ξs', ros', draws') =>
      match ipaProverRun ck ops ξs' ros' draws' with
      | .error e => .error e
      | .ok (πs, a, b, c) => .ok (π :: πs, a, b, c)

/-- the verifier performs the corresponding checks in the same order on identical streams; returns
the conjunction of the decisions and the remaining streams -/
def ipaVerifierRun (vk : IPA.VK F) : List (IpaOp F) → List (IPA.Proof F) → List F → List F →
    Except Err (Bool × List F × List F)
  | [], _, ξs, ros => .ok (true, ξs, ros)
  | _ :: _, [], _, _ => .error .abort
  | op :: ops, π :: πs, ξs, ros =>
    match ipaCheckT vk op.comms op.z (op.polys.map fun p => evalPoly p.poly op.z) π ξs ros with
    | .error e => .error e
    | .ok (b, ξs', ros') =>
      match ipaVerifierRun vk ops πs ξs' ros' with
      | .error e => .error e
      | .ok (b', a, c) => .ok (b && b', a, c)

/-- **IPA, lock-step over any history.** For every sequence of `open` operations on one sponge and
one random oracle (any polynomials with bounds / hiding, any points): if the prover answers them all,
the verifier — running the corresponding checks in the same order on identically initialised
streams — accepts every proof and ends with exactly the prover's remaining streams. -/
theorem ipa_history_lockstep (ck : IPA.CK F) (k : Nat) (hk : ck.commKey.length = 2 ^ k)
    (ops : List (IpaOp F))
    (hh : ∀ op ∈ ops, IPA.AllCommitted ck op.polys op.comms op.sts ∧
      ∀ p ∈ op.polys, pnorm p.poly = p.poly)
    (ξs ros draws : List F) (πs : List (IPA.Proof F)) (ξr ror dr : List F)
    (hp : ipaProverRun ck ops ξs ros draws = .ok (πs, ξr, ror, dr)) :
    ipaVerifierRun ck ops πs ξs ros = .ok (true, ξr, ror) := by
  induction ops generalizing ξs ros draws πs ξr ror dr with
  | nil =>
    simp only [ipaProverRun] at hp
    injection hp with hp; injection hp with h1 h2; injection h2 with h2 h3; injection h3 with h3 _
    subst h1; subst h2; subst h3; rfl
  | cons op ops ih =>
    simp only [ipaProverRun] at hp
    split at hp
    · cases hp
    · rename_i π ξs' ros' draws' ho
      split at hp
      · cases hp
      · rename_i πs' a b c hrec
        injection hp with hp; injection hp with h1 h2; injection h2 with h2 h3; injection h3 with h3 h4
        subst h1; subst h2; subst h3; subst h4
        have hc := ipa_open_check_lockstep ck k hk op.polys op.comms op.sts (hh op (by simp)).1
          (hh op (by simp)).2 op.z ξs ros op.rng draws π ξs' ros' draws' ho
        have hrest := ih (fun op' hop' => hh op' (by simp [hop'])) ξs' ros' draws' πs' a b c hrec
        simp only [ipaVerifierRun, hc, hrest, Bool.and_self]

/-- `batch_check`'s loop with what it leaves of the two streams (after the last point label it
examined) -/
def ipaBatchSuccinctT (vk : IPA.VK F) (comms : List (IPA.LComm F)) (evals : List ((IPA.Label × F) × F)) :
    List (IPA.Label × (F × List IPA.Label)) → List (IPA.Proof F) → List F → List F →
    Except Err (Option (List (List F)) × List F × List F)
  | g :: gs, π :: πs, ξs, ros =>
    if IPA.badShape vk π then .error .incorrectInputLength
    else
    match IPA.gatherComms comms evals g.2.1 g.2.2 with
    | .error e => .error e
    | .ok (cs, vs) =>
      match IPA.succinctCheck vk cs g.2.1 vs π ξs ros with
      | .error e => .error e
      | .ok (none, ξs', ros') => .ok (none, ξs', ros')
      | .ok (some us, ξs', ros') =>
        match ipaBatchSuccinctT vk comms evals gs πs ξs' ros' with
        | .error e => .error e
        | .ok (none, a, b) => .ok (none, a, b)
        | .ok (some uss, a, b) => .ok (some (us :: uss), a, b)
  | _, _, ξs, ros => .ok (some [], ξs, ros)

/-- `ipaBatchSuccinctT` computes what `batch_check`'s loop computes -/
theorem ipa_batchSuccinctT_result (vk : IPA.VK F) (comms : List (IPA.LComm F))
    (evals : List ((IPA.Label × F) × F)) :
    ∀ (gs : List (IPA.Label × (F × List IPA.Label))) (πs : List (IPA.Proof F)) (ξs ros : List F),
      IPA.batchSuccinct vk comms evals gs πs ξs ros
        = match ipaBatchSuccinctT vk comms evals gs πs ξs ros with
          | .error e => .error e
          | .ok x => .ok x.1 := by
  intro gs
  induction gs with
  | nil => intro πs ξs ros; simp [IPA.batchSuccinct, ipaBatchSuccinctT]
  | cons g gs ih =>
    intro πs ξs ros
    cases πs with
    | nil => simp [IPA.batchSuccinct, ipaBatchSuccinctT]
    | cons π πs =>
      simp only [IPA.batchSuccinct, ipaBatchSuccinctT]
      cases IPA.badShape vk π with
      | true => rfl
      | false =>
        simp only [Bool.false_eq_true, if_false]
        cases IPA.gatherComms comms evals g.2.1 g.2.2 with
        | error e => rfl
        | ok x =>
          obtain ⟨cs, vs⟩ := x
          simp only
          cases IPA.succinctCheck vk cs g.2.1 vs π ξs ros with
          | error e => rfl
          | ok y =>
            obtain ⟨o, ξs', ros'⟩ := y
            cases o with
            | none => rfl
            | some us =>
              simp only
              rw [ih πs ξs' ros']
              cases ipaBatchSuccinctT vk comms evals gs πs ξs' ros' with
              | error e => rfl
              | ok w =>
                obtain ⟨o2, a, b⟩ := w
                cases o2 <;> rfl

/-- **IPA, batch operations.** The loop of `batch_check` on the proofs of the trait-default
`batch_open` (one `open` per point label in sorted order) passes every succinct check and leaves
both streams exactly where the prover left them — for every query set. -/
theorem ipa_batch_lockstep (ck : IPA.CK F) (k : Nat) (hk : ck.commKey.length = 2 ^ k)
    (polys : List (IPA.LPoly F)) (comms : List (IPA.LComm F)) (sts : List (IPA.Rand F))
    (hall : IPA.AllCommitted ck polys comms sts) (hnf : ∀ p ∈ polys, pnorm p.poly = p.poly)
    (evals : List ((IPA.Label × F) × F)) (rng : Bool) :
    ∀ (gs : List (IPA.Label × (F × List IPA.Label))) (ξs ros draws : List F) (πs : List (IPA.Proof F))
      (ξr ror dr : List F), IPA.TrueEvals polys comms sts evals gs →
      IPA.batchOpenGroups ck polys comms sts rng gs ξs ros draws = .ok (πs, ξr, ror, dr) →
      ∃ uss, ipaBatchSuccinctT ck comms evals gs πs ξs ros = .ok (some uss, ξr, ror) := by
  intro gs
  induction gs with
  | nil =>
    intro ξs ros draws πs ξr ror dr _ h
    simp only [IPA.batchOpenGroups] at h
    injection h with h; injection h with h1 h2; injection h2 with h2 h3; injection h3 with h3 _
    subst h1; subst h2; subst h3
    exact ⟨[], by simp [ipaBatchSuccinctT]⟩
  | cons g gs ih =>
    intro ξs ros draws πs ξr ror dr hev h
    simp only [IPA.batchOpenGroups] at h
    split at h
    · cases h
    · rename_i ps cs ss hgather
      split at h
      · cases h
      · rename_i π ξs' ros' draws' hopen
        split at h
        · cases h
        · rename_i πs' a b c hrec
          injection h with h; injection h with h1 h2; injection h2 with h2 h3; injection h3 with h3 _
          subst h1; subst h2; subst h3
          obtain ⟨hg, hall', hnf'⟩ := IPA.gather_agree ck polys comms sts evals g.2.1 hall hnf g.2.2 ps cs ss
            (fun l hl p st c hlook => hev g (by simp) l hl p st c hlook) hgather
          obtain ⟨hshape, ⟨us, hsc, _⟩, _, _⟩ := IPA.open_succinct_complete ck k hk ps cs ss hall' hnf'
            g.2.1 ξs ros rng draws π ξs' ros' draws' hopen
          obtain ⟨uss, hbs⟩ := ih ξs' ros' draws' πs' a b c (fun g' hg' => hev g' (by simp [hg'])) hrec
          exact ⟨us :: uss, by
            simp only [ipaBatchSuccinctT, hshape, Bool.false_eq_true, if_false, hg, hsc, hbs]⟩

/-- **IPA, combination operations.** `check_combinations` hands `batch_check` the combined
commitments and adjusted values; its loop on the proofs of `open_combinations` passes every succinct
check and leaves both streams exactly where the prover left them (the combination phase itself
touches neither the sponge nor the random oracle). -/
theorem ipa_lc_lockstep (ck : IPA.CK F) (k : Nat) (hk : ck.commKey.length = 2 ^ k)
    (polys : List (IPA.LPoly F)) (comms : List (IPA.LComm F)) (sts : List (IPA.Rand F))
    (hall : IPA.AllCommitted ck polys comms sts) (hnf : ∀ p ∈ polys, pnorm p.poly = p.poly)
    (lcs : List (LC.LinComb F)) (qs : List (IPA.Query F)) (evals : List ((IPA.Label × F) × F))
    (hev : ∀ g ∈ Marlin.groupQueries qs, ∀ l ∈ g.2.2, ∀ lc,
      Marlin.lookupLast (fun (lc : LC.LinComb F) => lc.label) l lcs = some lc →
      Marlin.lookupEval evals l g.2.1
        = some (IPA.lcPolyValue (polys.zip (sts.zip comms)) g.2.1 lc.terms + IPA.constSum lcs l))
    (ξs ros : List F) (rng : Bool) (draws : List F) (πs : List (IPA.Proof F)) (ξr ror dr : List F)
    (ho : IPA.openCombinations ck lcs polys comms sts qs ξs ros rng draws = .ok (πs, ξr, ror, dr)) :
    ∃ lcC uss, IPA.verifierComms comms lcs = .ok lcC ∧
      ipaBatchSuccinctT ck lcC (IPA.adjustEvals lcs evals) (Marlin.groupQueries qs) πs ξs ros
        = .ok (some uss, ξr, ror) := by
  obtain ⟨as, h1, h2, h3, h4, h5⟩ := IPA.lc_reduction ck polys comms sts hall hnf lcs qs evals hev
    ξs ros rng draws πs ξr ror dr ho
  unfold IPA.batchOpen at h5
  obtain ⟨uss, hu⟩ := ipa_batch_lockstep ck k hk _ _ _ h2 h3 (IPA.adjustEvals lcs evals) rng
    (Marlin.groupQueries qs) ξs ros draws πs ξr ror dr h4 h5
  exact ⟨_, uss, h1, hu⟩

/-- **IPA, a proof is bound to the sponge challenge.** A transcript accepted at one position of the
sponge stream and presented at another position (other challenges `ξ′, …`), with the random-oracle
outputs held fixed, is accepted iff `(ξ′ − ξ)·(C + ξ₀·h·v) = 0` — one unbounded commitment `C` with
claimed value `v`.  For the hash-derived generators the form `C + ξ₀·h·v = ⟨p,G⟩ + ρ·S + ξ₀·p(z)·h`
vanishes only on a hyperplane of key scalars unless `p = 0`, `ρ = 0`. -/
theorem ipa_displaced_sponge_iff (vk : IPA.VK F) (c : IPA.LComm F) (z v : F) (π : IPA.Proof F)
    (ξ ξ1 ξ2 ξ' ξ1' ξ2' : F) (ξs ξs' ros : List F) (r : IPA.Run F) (ξr ror : List F)
    (hbound : c.bound = none) (hsh : c.comm.shifted = none)
    (hr : IPA.succinctRun vk [c] z [v] π (ξ :: ξ1 :: ξ2 :: ξs) ros = .ok (r, ξr, ror))
    (hacc : IPA.check vk [c] z [v] π (ξ :: ξ1 :: ξ2 :: ξs) ros = .ok true) :
    IPA.check vk [c] z [v] π (ξ' :: ξ1' :: ξ2' :: ξs') ros
      = .ok (decide ((ξ' - ξ) * (c.comm.comm + vk.h * r.ξ₀ * v) = 0)) := by
  obtain ⟨hb, r', ξr', ror', hr', h1, h2⟩ := (IPA.check_iff vk [c] z [v] π _ ros).1 hacc
  rw [hr] at hr'
  injection hr' with hr'; injection hr' with hr' _
  subst hr'
  have hA : IPA.accLoop vk z [c] [v] ξ (ξ1 :: ξ2 :: ξs) 0 0
      = .ok ((0 + c.comm.comm * ξ, 0 + ξ * v), ξs) := by
    rw [IPA.accLoop_single]; simp [IPA.accStep, hbound, hsh]
  have hB : IPA.accLoop vk z [c] [v] ξ' (ξ1' :: ξ2' :: ξs') 0 0
      = .ok ((0 + c.comm.comm * ξ + c.comm.comm * (ξ' - ξ), 0 + ξ * v + (ξ' - ξ) * v), ξs') := by
    rw [IPA.accLoop_single]; simp [IPA.accStep, hbound, hsh]; constructor <;> ring
  have hr2 := IPA.succinctRun_congr_pos vk [c] [c] z [v] [v] π ξ ξ' _ _ ros _ _ _ _ ξs ξs' hA hB r ξr ror hr
  rw [IPA.check_of_run vk [c] z [v] π _ ros _ ξs' ror hb hr2, IPA.defect1_shift, h1, zero_add]
  have e : c.comm.comm * (ξ' - ξ) + vk.h * r.ξ₀ * ((ξ' - ξ) * v)
      = (ξ' - ξ) * (c.comm.comm + vk.h * r.ξ₀ * v) := by ring
  rw [e]
  simp [h2]

/-- … hence rejected whenever the challenges differ and the form does not vanish -/
theorem ipa_displaced_sponge_rejected (vk : IPA.VK F) (c : IPA.LComm F) (z v : F) (π : IPA.Proof F)
    (ξ ξ1 ξ2 ξ' ξ1' ξ2' : F) (ξs ξs' ros : List F) (r : IPA.Run F) (ξr ror : List F)
    (hbound : c.bound = none) (hsh : c.comm.shifted = none)
    (hr : IPA.succinctRun vk [c] z [v] π (ξ :: ξ1 :: ξ2 :: ξs) ros = .ok (r, ξr, ror))
    (hacc : IPA.check vk [c] z [v] π (ξ :: ξ1 :: ξ2 :: ξs) ros = .ok true)
    (hξ : ξ' ≠ ξ) (hform : c.comm.comm + vk.h * r.ξ₀ * v ≠ 0) :
    IPA.check vk [c] z [v] π (ξ' :: ξ1' :: ξ2' :: ξs') ros = .ok false := by
  rw [ipa_displaced_sponge_iff vk c z v π ξ ξ1 ξ2 ξ' ξ1' ξ2' ξs ξs' ros r ξr ror hbound hsh hr hacc]
  have : (ξ' - ξ) * (c.comm.comm + vk.h * r.ξ₀ * v) ≠ 0 :=
    mul_ne_zero (sub_ne_zero.2 hξ) hform
  simp [this]

/-- **IPA, a proof is bound to the round challenges** (any statement, any polynomials, hiding or
not): a transcript accepted with the round challenges `us` and accepted again at another position of
the history, where the random oracle returns the round challenges `us′`, forces
`⟨G, coeffs(h_us′)⟩ = ⟨G, coeffs(h_us)⟩` — a linear relation between the hash-derived generators
whenever `us′ ≠ us`. -/
theorem ipa_displaced_rounds (vk : IPA.VK F) (cs cs' : List (IPA.LComm F)) (z z' : F) (vs vs' : List F)
    (π : IPA.Proof F) (ξs ros ξs' ros' : List F)
    (h1 : IPA.check vk cs z vs π ξs ros = .ok true)
    (h2 : IPA.check vk cs' z' vs' π ξs' ros' = .ok true) :
    ∃ r r' a b a' b', IPA.succinctRun vk cs z vs π ξs ros = .ok (r, a, b) ∧
      IPA.succinctRun vk cs' z' vs' π ξs' ros' = .ok (r', a', b') ∧
      dot vk.commKey (Succinct.computeCoeffs r'.us) = dot vk.commKey (Succinct.computeCoeffs r.us) := by
  obtain ⟨_, r, a, b, hr, _, hd⟩ := (IPA.check_iff vk cs z vs π ξs ros).1 h1
  obtain ⟨_, r', a', b', hr', _, hd'⟩ := (IPA.check_iff vk cs' z' vs' π ξs' ros').1 h2
  refine ⟨r, r', a, b, a', b', hr, hr', ?_⟩
  unfold IPA.defect2 at hd hd'
  linear_combination hd' - hd

/-! non-vacuity over `ZMod 101`: the two-operation history "open `4 + 9X` at 6, then at 7" on one
sponge / oracle stream under the 2-element key: the verifier accepts both and ends where the prover
ends; the first proof presented at the second position is rejected -/
example : ipaProverRun (⟨[3, 5], 13, 17, 3⟩ : IPA.CK K)
    [⟨[⟨[1], [4, 9], none, none⟩], [⟨[1], ⟨57, none⟩, none⟩], [⟨0, none⟩], 6, false⟩,
     ⟨[⟨[1], [4, 9], none, none⟩], [⟨[1], ⟨57, none⟩, none⟩], [⟨0, none⟩], 7, false⟩]
    [2, 3, 4, 5, 6, 7, 1] [8, 9, 10, 4, 3] []
    = .ok ([⟨[7], [83], 48, 10, none, none⟩, ⟨[26], [19], 23, 6, none, none⟩], [1], [3], []) := by
  decide +kernel
example : ipaVerifierRun (⟨[3, 5], 13, 17, 3⟩ : IPA.CK K)
    [⟨[⟨[1], [4, 9], none, none⟩], [⟨[1], ⟨57, none⟩, none⟩], [⟨0, none⟩], 6, false⟩,
     ⟨[⟨[1], [4, 9], none, none⟩], [⟨[1], ⟨57, none⟩, none⟩], [⟨0, none⟩], 7, false⟩]
    [⟨[7], [83], 48, 10, none, none⟩, ⟨[26], [19], 23, 6, none, none⟩]
    [2, 3, 4, 5, 6, 7, 1] [8, 9, 10, 4, 3] = .ok (true, [1], [3]) := by decide +kernel
example : IPA.check (⟨[3, 5], 13, 17, 3⟩ : IPA.CK K) [⟨[1], ⟨57, none⟩, none⟩] 6 [58]
    ⟨[7], [83], 48, 10, none, none⟩ [5, 6, 7, 1] [10, 4, 3] = .ok false := by decide +kernel
example : IPA.check (⟨[3, 5], 13, 17, 3⟩ : IPA.CK K) [⟨[1], ⟨57, none⟩, none⟩] 6 [58]
    ⟨[7], [83], 48, 10, none, none⟩ [5, 6, 7, 1] [8, 9] = .ok false := by decide +kernel

end PCV.C11
