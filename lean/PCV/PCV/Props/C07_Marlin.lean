/-
  Property C07 (MarlinKZG10) — hiding commitments are blinded with fresh, sufficient randomness.
-/
import PCV.Proofs.MarlinMore
import PCV.Props.C01_Marlin
set_option linter.unusedSectionVars false

namespace PCV.C07
open PCV Marlin
variable {F : Type} [Field F] [DecidableEq F]

/-- the blinding polynomial of a hiding KZG commitment is `DensePolynomial::rand(h+1)` on the
caller's draws, and the unused draws are handed on -/
theorem kzg10_commit_draws (pw : KZG.Powers F) (p : List F) (h : Nat) (draws : List F)
    (c : F) (r rest : List F) (hc : KZG.commit pw p (some h) true draws = .ok (c, r, rest)) :
    KZG.randPoly (h + 1) draws = some (r, rest) := by
  unfold KZG.commit at hc
  split at hc
  · cases hc
  · simp only [Bool.not_true, Bool.false_eq_true, if_false] at hc
    split at hc
    · cases hc
    · rename_i r' rest' hr
      split at hc
      · cases hc
      · injection hc with hc; injection hc with _ h2; injection h2 with h2 h3
        subst h2; subst h3; exact hr

/-- **Marlin hiding structure.** With hiding bound `h` and a degree bound, the plain and the
shifted commitment are blinded by two *independent* blinding polynomials of `h+2` coefficients
each: the first from the first draws of the caller's RNG, the second from the draws that follow;
the top coefficients are non-zero. -/
theorem marlin_hiding_structure (ck : CK F) (p : LPoly F) (h b : Nat) (draws : List F)
    (c : Comm F) (r : Rand F) (rest : List F) (hh : p.hb = some h) (hb : p.bound = some b)
    (hc : commitOne ck p true draws = .ok (c, r, rest)) :
    ∃ mid rs, KZG.randPoly (h + 1) draws = some (r.rand, mid) ∧ r.shifted = some rs ∧
      KZG.randPoly (h + 1) mid = some (rs, rest) ∧
      r.rand.length = h + 2 ∧ rs.length = h + 2 ∧
      r.rand.getLast? ≠ some 0 ∧ rs.getLast? ≠ some 0 := by
  unfold commitOne at hc
  split at hc
  · cases hc
  · split at hc
    · cases hc
    · split at hc
      · cases hc
      · rename_i c0 r0 mid hk
        rw [hh] at hk
        have h1 := kzg10_commit_draws _ _ _ _ _ _ _ hk
        rw [hb] at hc
        simp only at hc
        split at hc
        · cases hc
        · rename_i sp hsp
          split at hc
          · cases hc
          · rename_i s rs rest' hk2
            rw [hh] at hk2
            have h2 := kzg10_commit_draws _ _ _ _ _ _ _ hk2
            injection hc with hc; injection hc with e1 e2; injection e2 with e2 e3
            subst e1; subst e2; subst e3
            obtain ⟨l1, n1, _⟩ := KZG.randPoly_length _ _ _ _ h1
            obtain ⟨l2, n2, _⟩ := KZG.randPoly_length _ _ _ _ h2
            exact ⟨mid, rs, h1, rfl, h2, l1, l2, n1, n2⟩

/-- without a hiding bound Marlin's commitment carries no blinding and ignores the RNG -/
theorem marlin_nonhiding_no_blinding (ck : CK F) (p : LPoly F) (rng : Bool) (draws : List F)
    (c : Comm F) (r : Rand F) (rest : List F) (hh : p.hb = none)
    (hc : commitOne ck p rng draws = .ok (c, r, rest)) :
    r.rand = [] ∧ (∀ rs, r.shifted = some rs → rs = []) ∧ rest = draws := by
  unfold commitOne at hc
  split at hc
  · cases hc
  · split at hc
    · cases hc
    · rw [hh] at hc
      have hk : ∀ pw, KZG.commit pw p.poly none true draws = .ok (KZG.msmSkip pw.g p.poly, [], draws) ∨
          ∃ e, KZG.commit pw p.poly none true draws = .error e := by
        intro pw; unfold KZG.commit; split
        · right; exact ⟨_, rfl⟩
        · left; rfl
      rcases hk ⟨ck.powers, ck.gammaPowers⟩ with hk1 | ⟨e, hk1⟩
      · rw [hk1] at hc
        simp only at hc
        cases hbd : p.bound with
        | none =>
          rw [hbd] at hc; simp only at hc
          injection hc with hc; injection hc with _ e2; injection e2 with e2 e3
          subst e2; subst e3
          exact ⟨rfl, (fun rs h => by simp at h), rfl⟩
        | some b =>
          rw [hbd] at hc; simp only at hc
          split at hc
          · cases hc
          · rename_i sp hsp
            rcases hk sp with hk2 | ⟨e, hk2⟩
            · rw [hk2] at hc
              simp only at hc
              injection hc with hc; injection hc with _ e2; injection e2 with e2 e3
              subst e2; subst e3
              exact ⟨rfl, (fun rs h => by simp at h; exact h ▸ rfl), rfl⟩
            · rw [hk2] at hc; cases hc
      · rw [hk1] at hc; cases hc

example : commitOne C01.exCK C01.exPoly true [7, 8, 9, 4, 5, 6]
    = .ok (⟨43, some 90⟩, ⟨[7, 8, 9], some [4, 5, 6]⟩, []) := by decide

end PCV.C07
