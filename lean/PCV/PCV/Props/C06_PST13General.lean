/-
  Property C06 — linear-combination openings prove exactly the stated combinations: MarlinPST13,
  ANY list of combinations and ANY query list (several point labels, several combinations per point
  label, point labels sharing a point).  Generalises the four `…_partial` theorems of
  `PCV/Props/C06_PST13.lean`; lemmas in `PCV/Proofs/PST13LCGeneral.lean`.

  What `check_combinations` decides (`pst13_lc_check_closed`): with `ρ₀ = 1, ρ₁, ρ₂ …` the verifier's
  randomizers and the point-label groups `k = 0, 1, …` of the query list in point-label order,
      Σₖ ρₖ · Δₖ = 0,
      Δₖ = ((Σⱼ C(lₖⱼ)·ξₖⱼ − g·Σⱼ (vₖⱼ − const(lₖⱼ))·ξₖⱼ − γ·rvₖ)·h − Σᵢ Wₖᵢ·(βᵢh − zₖᵢ·h),
  where group `k` asks at the point `zₖ` for the combination labels `lₖ₁ < lₖ₂ < …`, `ξₖⱼ` is the
  opening challenge of that position (the challenges are drawn group after group), `vₖⱼ` the value
  claimed for `(lₖⱼ, zₖ)`, `C(l) = Σ coeff·C_label` over the terms of the LAST combination labelled
  `l`, and `const(l)` the sum of the constant terms of EVERY combination labelled `l`
  (`pst13_lc_point_defect`, `pst13_lc_label_terms`).  Distinct combination labels are NOT needed for
  this closed form; they are what makes `C(l)` and `const(l)` those of one combination.
-/
import PCV.Proofs.PST13LCGeneral
import PCV.Props.C06_PST13

set_option synthInstance.maxSize 512
set_option linter.unusedSectionVars false
set_option linter.unusedVariables false

namespace PCV.C06
open PCV PCV.MV
variable {F : Type} [Field F] [DecidableEq F]

/-! ### the verifier's decision in closed form -/

/-- **What `check_combinations` computes, in general.**  Arbitrary verifier key, arbitrary
(unbounded) commitments, ANY list of combinations (repeated labels allowed), ANY query list, any
proofs; `PST.LCNoRefusal` lists, refusal by refusal, what the code needs to reach its pairing check
(known labels, an evaluation for every (label, point) asked for, one challenge per position, one
proof per point label with one witness per key variable, key and points long enough).  Then the
pairing product is the randomizer-weighted sum over the point-label groups of the per-point defects
`PST.lcGroupDefects` (spelled out in `pst13_lc_point_defect`), and the answer is whether it
vanishes. -/
theorem pst13_lc_check_closed (vk : PST.VK F) (comms : List (PST.LComm F))
    (lcs : List (LC.LinComb F)) (qs : List (PST.Query F)) (evals : PST.Evals F)
    (πs : List (PST.Proof F)) (ξs rs : List F)
    (hn : PST.LCNoRefusal vk comms lcs qs evals πs ξs) :
    PST.checkCombinationsDefect vk comms lcs qs evals πs ξs rs
        = .ok (PST.wsum 1 rs (PST.lcGroupDefects vk comms lcs evals (PST.groupQueries qs) πs ξs))
      ∧ PST.checkCombinations vk comms lcs qs evals πs ξs rs
        = .ok (decide
            (PST.wsum 1 rs (PST.lcGroupDefects vk comms lcs evals (PST.groupQueries qs) πs ξs) = 0)) :=
  PST.lc_general_closed vk comms lcs qs evals πs ξs rs hn

/-- **The per-point defects, position by position.**  The first group `(z, labels)` with its proof
`π` reads the challenges from the front of the list and contributes
`((Σⱼ C(lⱼ)·ξⱼ − g·Σⱼ (vⱼ − const(lⱼ))·ξⱼ − γ·rv)·h − Σᵢ Wᵢ·(βᵢh − zᵢ·h)`; the later groups go on
with the challenges after its `|labels|` ones.  `Σⱼ f(lⱼ)·ξⱼ` is `PST.posSum`: the `j`-th label of
the group meets the `j`-th challenge; the weighted sum gives the first defect the weight `r` and
the next ones the randomizers in order. -/
theorem pst13_lc_point_defect (vk : PST.VK F) (comms : List (PST.LComm F))
    (lcs : List (LC.LinComb F)) (evals : PST.Evals F) (g : PST.Group F) (gs : List (PST.Group F))
    (π : PST.Proof F) (πs : List (PST.Proof F)) (ξs : List F) :
    PST.lcGroupDefects vk comms lcs evals (g :: gs) (π :: πs) ξs
        = ((PST.posSum (PST.lcCommAt comms lcs) g.2.2 ξs
              - vk.g * PST.posSum
                  (fun l => (PST.lookupEval evals l g.2.1).getD 0 - PST.constFor lcs l) g.2.2 ξs
              - vk.gammaG * PST.rvVal π.rv) * vk.h
            - PST.rhsSum vk.h vk.betaH g.2.1 0 π.w)
          :: PST.lcGroupDefects vk comms lcs evals gs πs (ξs.drop g.2.2.length)
      ∧ (∀ (f : PST.Label → F) (l : PST.Label) (ls : List PST.Label) (ξ : F) (ξs' : List F),
          PST.posSum f (l :: ls) (ξ :: ξs') = f l * ξ + PST.posSum f ls ξs')
      ∧ (∀ (f : PST.Label → F) (ξs' : List F), PST.posSum f [] ξs' = 0)
      ∧ (∀ (r d : F) (rs ds : List F),
          PST.wsum r rs (d :: ds) = r * d + PST.wsum (rs.headD 0) rs.tail ds) :=
  ⟨rfl, fun _ _ _ _ _ => rfl, fun _ _ => by simp [PST.posSum], fun _ _ _ _ => rfl⟩

/-- **`C(l)` and `const(l)` in terms of the individual combinations.**
(1) For `lcs = pre ++ lc :: post`: if no LATER combination carries `lc`'s label, the commitment used
for that label is `Σ coeff·C_label` over `lc`'s own terms (`lc_commitments` becomes a map by label:
the last one wins); the constants subtracted from every value claimed for that label are those of
`pre`, of `lc` and of `post` together (each combination subtracts its constants from every
evaluation carrying its label).
(2) With pairwise distinct combination labels — exactly the hypothesis under which a label
determines its combination — both are `lc`'s own. -/
theorem pst13_lc_label_terms (comms : List (PST.LComm F)) :
    (∀ (pre post : List (LC.LinComb F)) (lc : LC.LinComb F), lc.label ∉ post.map (·.label) →
      PST.lcCommAt comms (pre ++ lc :: post) lc.label = PST.lcCommValue comms lc.terms
        ∧ PST.constFor (pre ++ lc :: post) lc.label
            = PST.constFor pre lc.label + PST.lcConst lc.terms + PST.constFor post lc.label)
    ∧ (∀ (lcs : List (LC.LinComb F)), (lcs.map (·.label)).Nodup → ∀ lc ∈ lcs,
      PST.lcCommAt comms lcs lc.label = PST.lcCommValue comms lc.terms
        ∧ PST.constFor lcs lc.label = PST.lcConst lc.terms) := by
  refine ⟨fun pre post lc hlast => ⟨?_, ?_⟩, fun lcs hnd lc hmem =>
    PST.lcCommAt_of_nodup comms lcs hnd lc hmem⟩
  · have := PST.lcCommAt_replace comms pre post lc lc rfl lc.label
    rw [if_pos ⟨rfl, hlast⟩] at this
    exact this
  · simp only [PST.constFor_append, PST.constFor, if_true]
    ring

/-- **One combination under one point label**: the general per-point defect is the `PST.lcDefect`
of `pst13_lc_check_closed_partial`. -/
theorem pst13_lc_check_closed_single (vk : PST.VK F) (comms : List (PST.LComm F))
    (lc : LC.LinComb F) (pl : PST.Label) (z : List F) (v : F) (π : PST.Proof F) (ξ : F)
    (ξs : List F) :
    PST.groupQueries [(lc.label, (pl, z))] = [(pl, (z, [lc.label]))]
      ∧ PST.lcGroupDefects vk comms [lc] [((lc.label, z), v)] [(pl, (z, [lc.label]))] [π] (ξ :: ξs)
        = [PST.lcDefect vk comms lc z v π ξ] :=
  ⟨by simp [PST.groupQueries, PST.groupInsert], PST.lcGroupDefects_single vk comms lc pl z v π ξ ξs⟩

/-- **The no-refusal conditions from the raw query list.**  Point labels that name points
consistently, every query asking for the label of some combination and having its evaluation,
every point long enough (plus the conditions on commitments, challenges, proofs and key): the
hypotheses of the theorems of this file hold.  Moreover every group is made of queries of the
list: its point is the point of a query with its point label, each of its labels comes from a
query with its point label. -/
theorem pst13_lc_no_refusal_of_queries (vk : PST.VK F) (comms : List (PST.LComm F))
    (lcs : List (LC.LinComb F)) (qs : List (PST.Query F)) (evals : PST.Evals F)
    (πs : List (PST.Proof F)) (ξs : List F)
    (hcb : ∀ c ∈ comms, c.bound = none ∧ c.comm.shifted = none)
    (hk : ∀ lc ∈ lcs, PST.AllKnown comms lc.terms)
    (hpl : ∀ q ∈ qs, ∀ q' ∈ qs, q.2.1 = q'.2.1 → q.2.2 = q'.2.2)
    (hq : ∀ q ∈ qs, q.1 ∈ lcs.map (·.label))
    (hev : ∀ q ∈ qs, (PST.lookupEval evals q.1 q.2.2).isSome = true)
    (hξ : PST.numPositions (PST.groupQueries qs) ≤ ξs.length)
    (hlen : πs.length = (PST.groupQueries qs).length)
    (hw : ∀ π ∈ πs, π.w.length = vk.numVars) (hbh : vk.numVars ≤ vk.betaH.length)
    (hz : ∀ q ∈ qs, vk.numVars ≤ q.2.2.length) :
    PST.LCNoRefusal vk comms lcs qs evals πs ξs
      ∧ ∀ gr ∈ PST.groupQueries qs,
          (∃ q ∈ qs, q.2.1 = gr.1 ∧ q.2.2 = gr.2.1)
            ∧ ∀ l ∈ gr.2.2, ∃ q ∈ qs, q.1 = l ∧ q.2.1 = gr.1 :=
  ⟨PST.LCNoRefusal.of_queries vk comms lcs qs evals πs ξs hcb hk hpl hq hev hξ hlen hw hbh hz,
    PST.groupQueries_from qs⟩

/-! ### a changed claimed value -/

/-- **A changed claimed value: the decision.**  The statement `(lcs, qs, evals)` is accepted with
`πs`; the value claimed for the combination label `l₀` at the point `z₀` is moved by `δ`
(`PST.bumpEval`).  The same proofs are then accepted iff
`δ · g · (Σₖ ρₖ·ξₖ(l₀, z₀)) · h = 0`, where `ξₖ(l₀, z₀)` (`PST.evalWeights`) is the opening challenge
of `l₀` in the `k`-th point-label group if that group sits at the point `z₀` and asks for `l₀`, and
`0` otherwise — the claimed value is read once for every point label that names `z₀`. -/
theorem pst13_lc_wrong_value_decision (vk : PST.VK F) (comms : List (PST.LComm F))
    (lcs : List (LC.LinComb F)) (qs : List (PST.Query F)) (evals : PST.Evals F)
    (πs : List (PST.Proof F)) (ξs rs : List F) (hn : PST.LCNoRefusal vk comms lcs qs evals πs ξs)
    (l₀ : PST.Label) (z₀ : List F) (δ : F)
    (hacc : PST.checkCombinations vk comms lcs qs evals πs ξs rs = .ok true) :
    PST.checkCombinations vk comms lcs qs (PST.bumpEval l₀ z₀ δ evals) πs ξs rs
      = .ok (decide (δ * vk.g * PST.wsum 1 rs (PST.evalWeights l₀ z₀ (PST.groupQueries qs) ξs)
          * vk.h = 0)) := by
  rw [(PST.lc_general_closed vk comms lcs qs evals πs ξs rs hn).2] at hacc
  rw [(PST.lc_general_closed vk comms lcs qs _ πs ξs rs (hn.bumpEval l₀ z₀ δ)).2,
    PST.lc_value_shift vk comms lcs qs evals πs ξs rs hn l₀ z₀ δ]
  have h0 : PST.wsum 1 rs (PST.lcGroupDefects vk comms lcs evals (PST.groupQueries qs) πs ξs) = 0 := by
    simpa using hacc
  rw [h0]
  congr 1
  rw [decide_eq_decide]
  constructor <;> intro hx <;> linear_combination -hx

/-- **A changed claimed value is rejected** unless `δ·g·h = 0` or the randomizer-weighted sum of
the opening challenges under which `(l₀, z₀)` is read vanishes. -/
theorem pst13_lc_wrong_value_rejected (vk : PST.VK F) (comms : List (PST.LComm F))
    (lcs : List (LC.LinComb F)) (qs : List (PST.Query F)) (evals : PST.Evals F)
    (πs : List (PST.Proof F)) (ξs rs : List F) (hn : PST.LCNoRefusal vk comms lcs qs evals πs ξs)
    (l₀ : PST.Label) (z₀ : List F) (δ : F)
    (hacc : PST.checkCombinations vk comms lcs qs evals πs ξs rs = .ok true)
    (hne : δ * vk.g * PST.wsum 1 rs (PST.evalWeights l₀ z₀ (PST.groupQueries qs) ξs) * vk.h ≠ 0) :
    PST.checkCombinations vk comms lcs qs (PST.bumpEval l₀ z₀ δ evals) πs ξs rs = .ok false := by
  rw [pst13_lc_wrong_value_decision vk comms lcs qs evals πs ξs rs hn l₀ z₀ δ hacc]
  congr 1
  exact decide_eq_false hne

/-! ### a changed constant -/

/-- **A changed constant: the decision.**  The verifier's list of combinations has the constant
term `a + δ` where the accepted statement had `a`, in the combination labelled `lbl` standing
anywhere in the list (no hypothesis on the other labels).  The same proofs are then accepted iff
`δ · g · (Σₖ ρₖ·ξₖ(lbl)) · h = 0`, where `ξₖ(lbl)` (`PST.labelWeights`) is the opening challenge of
`lbl` in the `k`-th point-label group (`0` if the group does not ask for it): the constant moves
the value at EVERY point where the label is queried. -/
theorem pst13_lc_wrong_constant_decision (vk : PST.VK F) (comms : List (PST.LComm F))
    (pre post : List (LC.LinComb F)) (lbl : PST.Label) (tp tq : List (F × LC.LCTerm)) (a δ : F)
    (qs : List (PST.Query F)) (evals : PST.Evals F) (πs : List (PST.Proof F)) (ξs rs : List F)
    (hn : PST.LCNoRefusal vk comms (pre ++ ⟨lbl, tp ++ (a, .one) :: tq⟩ :: post) qs evals πs ξs)
    (hacc : PST.checkCombinations vk comms (pre ++ ⟨lbl, tp ++ (a, .one) :: tq⟩ :: post) qs evals πs
      ξs rs = .ok true) :
    PST.checkCombinations vk comms (pre ++ ⟨lbl, tp ++ (a + δ, .one) :: tq⟩ :: post) qs evals πs ξs rs
      = .ok (decide (δ * vk.g * PST.wsum 1 rs (PST.labelWeights lbl (PST.groupQueries qs) ξs)
          * vk.h = 0)) := by
  have hn' := hn.replace ⟨lbl, tp ++ (a + δ, .one) :: tq⟩ rfl
    (PST.allKnown_const comms tp tq a (a + δ) (hn.known ⟨lbl, tp ++ (a, .one) :: tq⟩ (by simp)))
  rw [(PST.lc_general_closed vk comms _ qs evals πs ξs rs hn).2] at hacc
  rw [(PST.lc_general_closed vk comms _ qs evals πs ξs rs hn').2,
    PST.lc_constant_shift vk comms pre post lbl tp tq a δ evals (PST.groupQueries qs) πs ξs rs
      hn.proofs]
  have h0 : PST.wsum 1 rs (PST.lcGroupDefects vk comms
      (pre ++ ⟨lbl, tp ++ (a, .one) :: tq⟩ :: post) evals (PST.groupQueries qs) πs ξs) = 0 := by
    simpa using hacc
  rw [h0]
  congr 1
  rw [decide_eq_decide]
  constructor <;> intro hx <;> linear_combination hx

/-- **A changed constant is rejected** unless `δ·g·h = 0` or the randomizer-weighted sum of the
opening challenges of the combination's label vanishes. -/
theorem pst13_lc_wrong_constant_rejected (vk : PST.VK F) (comms : List (PST.LComm F))
    (pre post : List (LC.LinComb F)) (lbl : PST.Label) (tp tq : List (F × LC.LCTerm)) (a δ : F)
    (qs : List (PST.Query F)) (evals : PST.Evals F) (πs : List (PST.Proof F)) (ξs rs : List F)
    (hn : PST.LCNoRefusal vk comms (pre ++ ⟨lbl, tp ++ (a, .one) :: tq⟩ :: post) qs evals πs ξs)
    (hacc : PST.checkCombinations vk comms (pre ++ ⟨lbl, tp ++ (a, .one) :: tq⟩ :: post) qs evals πs
      ξs rs = .ok true)
    (hne : δ * vk.g * PST.wsum 1 rs (PST.labelWeights lbl (PST.groupQueries qs) ξs) * vk.h ≠ 0) :
    PST.checkCombinations vk comms (pre ++ ⟨lbl, tp ++ (a + δ, .one) :: tq⟩ :: post) qs evals πs ξs rs
      = .ok false := by
  rw [pst13_lc_wrong_constant_decision vk comms pre post lbl tp tq a δ qs evals πs ξs rs hn hacc]
  congr 1
  exact decide_eq_false hne

/-! ### a changed coefficient -/

/-- **A changed coefficient: the decision.**  The verifier's list has the coefficient `a + δ` where
the accepted statement had `a`, on the polynomial `m` (commitment `c`) in the combination labelled
`lbl`, and NO LATER combination carries the label `lbl` — the only hypothesis on labels, and a
necessary one: `pst13_lc_shadowed_combination_unchecked`.  The same proofs are then accepted iff
`δ · c · (Σₖ ρₖ·ξₖ(lbl)) · h = 0`. -/
theorem pst13_lc_wrong_coefficient_decision (vk : PST.VK F) (comms : List (PST.LComm F))
    (pre post : List (LC.LinComb F)) (lbl : PST.Label) (hlast : lbl ∉ post.map (·.label))
    (tp tq : List (F × LC.LCTerm)) (a δ : F) (m : PST.Label) (c : PST.LComm F)
    (hm : Marlin.lookupLast (fun (c : PST.LComm F) => c.label) m comms = some c)
    (qs : List (PST.Query F)) (evals : PST.Evals F) (πs : List (PST.Proof F)) (ξs rs : List F)
    (hn : PST.LCNoRefusal vk comms (pre ++ ⟨lbl, tp ++ (a, .poly m) :: tq⟩ :: post) qs evals πs ξs)
    (hacc : PST.checkCombinations vk comms (pre ++ ⟨lbl, tp ++ (a, .poly m) :: tq⟩ :: post) qs evals
      πs ξs rs = .ok true) :
    PST.checkCombinations vk comms (pre ++ ⟨lbl, tp ++ (a + δ, .poly m) :: tq⟩ :: post) qs evals πs
        ξs rs
      = .ok (decide (δ * c.comm.comm
          * PST.wsum 1 rs (PST.labelWeights lbl (PST.groupQueries qs) ξs) * vk.h = 0)) := by
  have hn' := hn.replace ⟨lbl, tp ++ (a + δ, .poly m) :: tq⟩ rfl
    (PST.allKnown_coeff comms tp tq a (a + δ) m
      (hn.known ⟨lbl, tp ++ (a, .poly m) :: tq⟩ (by simp)))
  rw [(PST.lc_general_closed vk comms _ qs evals πs ξs rs hn).2] at hacc
  rw [(PST.lc_general_closed vk comms _ qs evals πs ξs rs hn').2,
    PST.lc_coefficient_shift vk comms pre post lbl hlast tp tq a δ m c hm evals
      (PST.groupQueries qs) πs ξs rs hn.proofs]
  have h0 : PST.wsum 1 rs (PST.lcGroupDefects vk comms
      (pre ++ ⟨lbl, tp ++ (a, .poly m) :: tq⟩ :: post) evals (PST.groupQueries qs) πs ξs) = 0 := by
    simpa using hacc
  rw [h0]
  congr 1
  rw [decide_eq_decide]
  constructor <;> intro hx <;> linear_combination hx

/-- **A changed coefficient is rejected** unless `δ·c·h = 0` or the randomizer-weighted sum of the
opening challenges of the combination's label vanishes. -/
theorem pst13_lc_wrong_coefficient_rejected (vk : PST.VK F) (comms : List (PST.LComm F))
    (pre post : List (LC.LinComb F)) (lbl : PST.Label) (hlast : lbl ∉ post.map (·.label))
    (tp tq : List (F × LC.LCTerm)) (a δ : F) (m : PST.Label) (c : PST.LComm F)
    (hm : Marlin.lookupLast (fun (c : PST.LComm F) => c.label) m comms = some c)
    (qs : List (PST.Query F)) (evals : PST.Evals F) (πs : List (PST.Proof F)) (ξs rs : List F)
    (hn : PST.LCNoRefusal vk comms (pre ++ ⟨lbl, tp ++ (a, .poly m) :: tq⟩ :: post) qs evals πs ξs)
    (hacc : PST.checkCombinations vk comms (pre ++ ⟨lbl, tp ++ (a, .poly m) :: tq⟩ :: post) qs evals
      πs ξs rs = .ok true)
    (hne : δ * c.comm.comm * PST.wsum 1 rs (PST.labelWeights lbl (PST.groupQueries qs) ξs) * vk.h
      ≠ 0) :
    PST.checkCombinations vk comms (pre ++ ⟨lbl, tp ++ (a + δ, .poly m) :: tq⟩ :: post) qs evals πs
      ξs rs = .ok false := by
  rw [pst13_lc_wrong_coefficient_decision vk comms pre post lbl hlast tp tq a δ m c hm qs evals πs ξs
    rs hn hacc]
  congr 1
  exact decide_eq_false hne

/-- **Why "no later combination with the same label" cannot be dropped.**  If a later combination
carries the label of `x`, replacing `x` by ANY combination `x'` of the same label with the same
constants and known terms — other coefficients, other polynomials — leaves the decision of
`check_combinations` unchanged: the terms of a shadowed combination are never checked (the model
mirrors `lc_commitments` being collected into a map by label; the constants of `x` are still
subtracted). -/
theorem pst13_lc_shadowed_combination_unchecked (vk : PST.VK F) (comms : List (PST.LComm F))
    (pre post : List (LC.LinComb F)) (x x' : LC.LinComb F) (hl : x'.label = x.label)
    (hc : PST.lcConst x'.terms = PST.lcConst x.terms) (hk : PST.AllKnown comms x'.terms)
    (hshadow : x.label ∈ post.map (·.label))
    (qs : List (PST.Query F)) (evals : PST.Evals F) (πs : List (PST.Proof F)) (ξs rs : List F)
    (hn : PST.LCNoRefusal vk comms (pre ++ x :: post) qs evals πs ξs) :
    PST.checkCombinations vk comms (pre ++ x' :: post) qs evals πs ξs rs
      = PST.checkCombinations vk comms (pre ++ x :: post) qs evals πs ξs rs := by
  rw [(PST.lc_general_closed vk comms _ qs evals πs ξs rs hn).2,
    (PST.lc_general_closed vk comms _ qs evals πs ξs rs (hn.replace x' hl hk)).2,
    PST.lcGroupDefects_shadowed vk comms pre post x x' hl hc hshadow]

/-! ### non-vacuity over `ZMod 101`

The key, commitments and `exLC a c = a·p − q + c` (label `[108]`) of `PCV/Props/C06_PST13.lean`; a second
combination `q + 0·p − 1` (label `[109]`); three queries: `[108]` and `[109]` under the point label
`[122]`, `[109]` again under `[123]`, both point labels naming the point `(10, 20)`; challenges
`13, 17` for the first group, `19` for the second; one verifier randomizer. -/

def exGLcs (a c d : K) : List (LC.LinComb K) :=
  [exLC a c, ⟨[109], [(1, .poly [113]), (0, .poly [112]), (d, .one)]⟩]
def exGQs : List (PST.Query K) :=
  [([108], ([122], [10, 20])), ([109], ([122], [10, 20])), ([109], ([123], [10, 20]))]
def exGEvals (v w : K) : PST.Evals K := [(([108], [10, 20]), v), (([109], [10, 20]), w)]
def exGProofs : List (PST.Proof K) := [⟨[77, 31], some 85⟩, ⟨[94, 0], none⟩]

/-- the hypotheses of every theorem above hold on the example (also from the raw query list) -/
example : PST.LCNoRefusal exVK exComms (exGLcs 2 5 (-1)) exGQs (exGEvals 50 61) exGProofs [13, 17, 19] :=
  { unbounded := by decide
    known := fun lc hlc => PST.allKnown_of_bool _ _
      ((by decide : ∀ lc ∈ exGLcs 2 5 (-1), PST.allKnownB exComms lc.terms = true) lc hlc)
    queried := by decide
    evaluated := by decide
    challenges := by decide
    proofs := by decide
    witnesses := by decide
    key := by decide
    points := by decide }
example : (∀ q ∈ exGQs, ∀ q' ∈ exGQs, q.2.1 = q'.2.1 → q.2.2 = q'.2.2)
    ∧ (∀ q ∈ exGQs, q.1 ∈ (exGLcs 2 5 (-1)).map (·.label))
    ∧ (∀ q ∈ exGQs, (PST.lookupEval (exGEvals 50 61) q.1 q.2.2).isSome = true)
    ∧ (∀ q ∈ exGQs, exVK.numVars ≤ q.2.2.length) := by decide
example : PST.groupQueries exGQs = [([122], ([10, 20], [[108], [109]])), ([123], ([10, 20], [[109]]))]
    ∧ PST.numPositions (PST.groupQueries exGQs) = 3 := by decide
/-- the accepted statement, its per-point defects (both vanish) and the weights -/
example : PST.checkCombinations exVK exComms (exGLcs 2 5 (-1)) exGQs (exGEvals 50 61) exGProofs
    [13, 17, 19] [5] = .ok true := by decide
example : PST.lcGroupDefects exVK exComms (exGLcs 2 5 (-1)) (exGEvals 50 61) (PST.groupQueries exGQs)
    exGProofs [13, 17, 19] = [0, 0] := by decide
example : PST.evalWeights [109] [10, 20] (PST.groupQueries exGQs) ([13, 17, 19] : List K) = [17, 19]
    ∧ PST.evalWeights [109] [10, 21] (PST.groupQueries exGQs) ([13, 17, 19] : List K) = [0, 0]
    ∧ PST.labelWeights [109] (PST.groupQueries exGQs) ([13, 17, 19] : List K) = [17, 19]
    ∧ PST.labelWeights [108] (PST.groupQueries exGQs) ([13, 17, 19] : List K) = [13, 0] := by decide
/-- a changed value (`61 → 62` for `([109], (10,20))`, read under both point labels): rejected with
the randomizer `5` (`1·3·(17 + 5·19)·11 ≠ 0`), but ACCEPTED with the exceptional randomizer `31`
(`17 + 31·19 = 0`): the exceptional condition of `pst13_lc_wrong_value_decision` is sharp -/
example : PST.bumpEval [109] [10, 20] 1 (exGEvals 50 61) = exGEvals 50 62 := by decide
example : (1 : K) * exVK.g
    * PST.wsum 1 [5] (PST.evalWeights [109] [10, 20] (PST.groupQueries exGQs) [13, 17, 19]) * exVK.h ≠ 0 := by
  decide
example : PST.checkCombinations exVK exComms (exGLcs 2 5 (-1)) exGQs (exGEvals 50 62) exGProofs
    [13, 17, 19] [5] = .ok false := by decide
example : PST.wsum (1 : K) [31] (PST.evalWeights [109] [10, 20] (PST.groupQueries exGQs) [13, 17, 19]) = 0
    ∧ PST.checkCombinations exVK exComms (exGLcs 2 5 (-1)) exGQs (exGEvals 50 61) exGProofs
        [13, 17, 19] [31] = .ok true
    ∧ PST.checkCombinations exVK exComms (exGLcs 2 5 (-1)) exGQs (exGEvals 50 62) exGProofs
        [13, 17, 19] [31] = .ok true := by decide
/-- a changed constant (`−1 → 0` in the combination `[109]`): `pre = [exLC 2 5]`, `post = []` -/
example : exGLcs 2 5 (-1) = [exLC 2 5] ++ ⟨[109], [(1, .poly [113]), (0, .poly [112])] ++ (-1, .one) :: []⟩ :: []
    ∧ exGLcs 2 5 0 = [exLC 2 5] ++ ⟨[109], [(1, .poly [113]), (0, .poly [112])] ++ (-1 + 1, .one) :: []⟩ :: [] := by
  decide
example : (1 : K) * exVK.g
    * PST.wsum 1 [5] (PST.labelWeights [109] (PST.groupQueries exGQs) [13, 17, 19]) * exVK.h ≠ 0 := by
  decide
example : PST.checkCombinations exVK exComms (exGLcs 2 5 0) exGQs (exGEvals 50 61) exGProofs
    [13, 17, 19] [5] = .ok false := by decide
/-- a changed coefficient (`2 → 3` on `[112]`, commitment `27`, in the combination `[108]`):
`pre = []`, `post = [the combination [109]]`, and `[108]` is not a label of `post` -/
example : exGLcs 2 5 (-1) = [] ++ ⟨[108], [] ++ (2, .poly [112]) :: [(-1, .poly [113]), (5, .one)]⟩
      :: [⟨[109], [(1, .poly [113]), (0, .poly [112]), (-1, .one)]⟩]
    ∧ exGLcs 3 5 (-1) = [] ++ ⟨[108], [] ++ (2 + 1, .poly [112]) :: [(-1, .poly [113]), (5, .one)]⟩
      :: [⟨[109], [(1, .poly [113]), (0, .poly [112]), (-1, .one)]⟩]
    ∧ ([108] : PST.Label) ∉ ([⟨[109], [(1, .poly [113]), (0, .poly [112]), (-1, .one)]⟩] :
        List (LC.LinComb K)).map (·.label) := by decide
example : (1 : K) * 27
    * PST.wsum 1 [5] (PST.labelWeights [108] (PST.groupQueries exGQs) [13, 17, 19]) * exVK.h ≠ 0 := by
  decide
example : PST.checkCombinations exVK exComms (exGLcs 3 5 (-1)) exGQs (exGEvals 50 61) exGProofs
    [13, 17, 19] [5] = .ok false := by decide
/-- a shadowed combination: `9·p − q + 5` labelled `[108]` in front of the list is never checked —
only its constant `5` is subtracted once more (claimed value `55` instead of `50`) -/
example : PST.checkCombinations exVK exComms (exLC 9 5 :: exGLcs 2 5 (-1)) exGQs (exGEvals 55 61)
    exGProofs [13, 17, 19] [5] = .ok true
    ∧ PST.checkCombinations exVK exComms (exLC 2 5 :: exGLcs 2 5 (-1)) exGQs (exGEvals 55 61)
        exGProofs [13, 17, 19] [5] = .ok true := by decide
/-- distinct labels on the example -/
example : ((exGLcs 2 5 (-1)).map (·.label)).Nodup := by decide

end PCV.C06
