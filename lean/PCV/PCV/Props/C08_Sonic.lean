/-
  Property C08 — commitments are the key-defined linear map, SonicKZG10: one commitment per
  polynomial, under the plain powers or — for a degree bound `d` — under the shifted windows.
-/
import PCV.Proofs.SonicExamples

namespace PCV.C08
open PCV PCV.Sonic
open PCV.Marlin (Label LPoly Query)
variable {F : Type} [Field F] [DecidableEq F]

/-- **Arbitrary key.**  Whatever `commit` returns for a polynomial is the MSM of its coefficients
with the published `g`-elements it is committed under plus the MSM of the blinding coefficients with
the published `γ`-elements — for any key scalars; no blinding without a hiding bound. -/
theorem sonic_commit_is_msm (ck : CK F) (p : LPoly F) (rng : Bool) (draws : List F) (c : F)
    (r rest : List F) (h : commitOne ck p rng draws = .ok (c, r, rest)) :
    ∃ pw, powersFor ck p.bound = .ok pw ∧ c = dot pw.g p.poly + dot pw.gg r ∧ (p.hb = none → r = []) :=
  commitOne_msm ck p rng draws c r rest h

/-- **Which key elements** (any parameter set): a polynomial with the enforced bound `d` is committed
under `powers_of_g[D-d ..]` and the truncated window of `powers_of_gamma_g` starting at `D-d`
(`min(shb+2, d+2)` entries); an unbounded one under the trimmed plain lists. -/
theorem sonic_shifted_window (pp : UParams F) (s shb : Nat) (l : List Nat) (ck : CK F) (vk : VK F)
    (ht : trim pp s shb (some l) = .ok (ck, vk)) (d : Nat) (hd : d ∈ l) :
    powersFor ck (some d)
      = .ok ⟨pp.powers.drop (pp.powers.length - 1 - d),
             (pp.gammaPowers.drop (pp.powers.length - 1 - d)).take (min (shb + 2) (d + 2))⟩ ∧
    powersFor ck none = .ok ⟨pp.powers.take (s + 1), pp.gammaPowers.take (shb + 2)⟩ := by
  obtain ⟨h1, _, _⟩ := powersFor_general pp s shb l ck vk ht d hd
  obtain ⟨_, _, _, h4, h5, _⟩ := trim_inv pp s shb (some l) ck vk ht
  exact ⟨h1, by simp [powersFor, h4, h5]⟩

/-- **Trapdoor-made key.**  The commitment of a polynomial with bound `d` is
`β^{D-d}·(g·p(β) + γ·r(β))` (exponent `0` without a bound); `r = []` without a hiding bound. -/
theorem sonic_commit_spec (g γ β bi h : F) (D s shb : Nat) (bounds : Option (List Nat))
    (ck : CK F) (vk : VK F) (ht : trim (wfPP g γ β bi h D) s shb bounds = .ok (ck, vk))
    (p : LPoly F) (rng : Bool) (draws : List F) (c : F) (r rest : List F)
    (hc : commitOne ck p rng draws = .ok (c, r, rest)) :
    c = fpow β (kOf D p.bound) * (g * evalPoly p.poly β + γ * evalPoly r β) ∧ (p.hb = none → r = []) := by
  obtain ⟨h1, _, _, h4, _⟩ := commitOne_spec g γ β bi h D s shb bounds ck vk ht p rng draws c r rest hc
  exact ⟨h1, h4⟩

/-- **Additivity and homogeneity** (any key, same bound, no hiding): the commitment of `a·p + q` is
`a·commit(p) + commit(q)`. -/
theorem sonic_commit_linear (ck : CK F) (l₁ l₂ l₃ : Label) (p q : List F) (a : F) (b : Option Nat)
    (rng : Bool) (d₁ d₂ d₃ : List F) (c₁ c₂ c₃ : F) (r₁ r₂ r₃ e₁ e₂ e₃ : List F)
    (h₁ : commitOne ck ⟨l₁, p, b, none⟩ rng d₁ = .ok (c₁, r₁, e₁))
    (h₂ : commitOne ck ⟨l₂, q, b, none⟩ rng d₂ = .ok (c₂, r₂, e₂))
    (h₃ : commitOne ck ⟨l₃, padd (pscale a p) q, b, none⟩ rng d₃ = .ok (c₃, r₃, e₃)) :
    c₃ = a * c₁ + c₂ := by
  obtain ⟨pw₁, hp₁, hc₁, hr₁⟩ := commitOne_msm ck _ rng d₁ c₁ r₁ e₁ h₁
  obtain ⟨pw₂, hp₂, hc₂, hr₂⟩ := commitOne_msm ck _ rng d₂ c₂ r₂ e₂ h₂
  obtain ⟨pw₃, hp₃, hc₃, hr₃⟩ := commitOne_msm ck _ rng d₃ c₃ r₃ e₃ h₃
  simp only at hp₁ hp₂ hp₃ hc₁ hc₂ hc₃
  rw [hp₁] at hp₂ hp₃
  injection hp₂ with e₂'; injection hp₃ with e₃'
  subst e₂'; subst e₃'
  rw [hr₁ rfl] at hc₁; rw [hr₂ rfl] at hc₂; rw [hr₃ rfl] at hc₃
  rw [hc₁, hc₂, hc₃, dot_padd_right, dot_pscale_right]
  simp

/-- the zero polynomial (empty or all-zero coefficient vector) commits to the identity under every
bound; high-order zero coefficients do not change a commitment -/
theorem sonic_commit_zero (ck : CK F) (p : LPoly F) (rng : Bool) (draws : List F) (c : F)
    (r rest : List F) (hz : pnorm p.poly = []) (hh : p.hb = none)
    (h : commitOne ck p rng draws = .ok (c, r, rest)) : c = 0 := by
  obtain ⟨pw, _, hc, hr⟩ := commitOne_msm ck p rng draws c r rest h
  rw [hc, hr hh, dot_comm, ← dot_pnorm, hz]; simp

/-- non-vacuity: the three commitments of the concrete transcript, and their closed forms
(`β = 2`, `D = 4`: bound 3 ↦ shift `2¹`, bound 2 ↦ shift `2²`) -/
example : commitOne Ex.ck ⟨[112, 48], [1, 2, 3], some 3, some 1⟩ true [7, 0, 9, 4]
    = .ok (27, [7, 0, 9], [4]) := by decide
example : (27 : K) = fpow 2 (4 - 3) * (3 * evalPoly [1, 2, 3] 2 + 5 * evalPoly [7, 0, 9] 2) := by decide
example : commitOne Ex.ck ⟨[112, 50], [6, 1], some 2, none⟩ false ([] : List K) = .ok (96, [], []) := by
  decide
example : (96 : K) = fpow 2 (4 - 2) * (3 * evalPoly [6, 1] 2) := by decide
example : powersFor Ex.ck (some 2) = .ok ⟨[12, 24, 48], [20, 40, 80]⟩ := by decide

end PCV.C08
