/-
  PCV.Props.C15Grid — the 36 points of the quantifier grid of property C15 (num_vars, max_degree
  ∈ 1..6), each decided by kernel evaluation of the faithful `Combinations` model: the term list
  `setup` builds equals the specification list `specTerms` (order included), which has
  `C(n+D, D)` entries.  `decide +kernel` on closed terms; no axioms beyond the kernel's own.
-/
import PCV.Proofs.Combinations
import Mathlib.Tactic.IntervalCases

set_option maxRecDepth 100000

namespace PCV.C15Grid
open PCV PCV.MV PCV.C15Spec

/-- what is decided at one grid point -/
def GridPoint (n D : Nat) : Prop :=
  setupTerms n D = .ok (specTerms n D) ∧ (specTerms n D).length = Nat.choose (n + D) D

instance (n D : Nat) : Decidable (GridPoint n D) := by unfold GridPoint; infer_instance

theorem grid_1_1 : GridPoint 1 1 := by decide +kernel
theorem grid_1_2 : GridPoint 1 2 := by decide +kernel
theorem grid_1_3 : GridPoint 1 3 := by decide +kernel
theorem grid_1_4 : GridPoint 1 4 := by decide +kernel
theorem grid_1_5 : GridPoint 1 5 := by decide +kernel
theorem grid_1_6 : GridPoint 1 6 := by decide +kernel
theorem grid_2_1 : GridPoint 2 1 := by decide +kernel
theorem grid_2_2 : GridPoint 2 2 := by decide +kernel
theorem grid_2_3 : GridPoint 2 3 := by decide +kernel
theorem grid_2_4 : GridPoint 2 4 := by decide +kernel
theorem grid_2_5 : GridPoint 2 5 := by decide +kernel
theorem grid_2_6 : GridPoint 2 6 := by decide +kernel
theorem grid_3_1 : GridPoint 3 1 := by decide +kernel
theorem grid_3_2 : GridPoint 3 2 := by decide +kernel
theorem grid_3_3 : GridPoint 3 3 := by decide +kernel
theorem grid_3_4 : GridPoint 3 4 := by decide +kernel
theorem grid_3_5 : GridPoint 3 5 := by decide +kernel
theorem grid_3_6 : GridPoint 3 6 := by decide +kernel
theorem grid_4_1 : GridPoint 4 1 := by decide +kernel
theorem grid_4_2 : GridPoint 4 2 := by decide +kernel
theorem grid_4_3 : GridPoint 4 3 := by decide +kernel
theorem grid_4_4 : GridPoint 4 4 := by decide +kernel
theorem grid_4_5 : GridPoint 4 5 := by decide +kernel
theorem grid_4_6 : GridPoint 4 6 := by decide +kernel
theorem grid_5_1 : GridPoint 5 1 := by decide +kernel
theorem grid_5_2 : GridPoint 5 2 := by decide +kernel
theorem grid_5_3 : GridPoint 5 3 := by decide +kernel
theorem grid_5_4 : GridPoint 5 4 := by decide +kernel
theorem grid_5_5 : GridPoint 5 5 := by decide +kernel
theorem grid_5_6 : GridPoint 5 6 := by decide +kernel
theorem grid_6_1 : GridPoint 6 1 := by decide +kernel
theorem grid_6_2 : GridPoint 6 2 := by decide +kernel
theorem grid_6_3 : GridPoint 6 3 := by decide +kernel
theorem grid_6_4 : GridPoint 6 4 := by decide +kernel
theorem grid_6_5 : GridPoint 6 5 := by decide +kernel
theorem grid_6_6 : GridPoint 6 6 := by decide +kernel

theorem grid (n D : Nat) (hn1 : 1 ≤ n) (hn6 : n ≤ 6) (hD1 : 1 ≤ D) (hD6 : D ≤ 6) : GridPoint n D := by
  interval_cases n <;> interval_cases D

  · exact grid_1_1
  · exact grid_1_2
  · exact grid_1_3
  · exact grid_1_4
  · exact grid_1_5
  · exact grid_1_6
  · exact grid_2_1
  · exact grid_2_2
  · exact grid_2_3
  · exact grid_2_4
  · exact grid_2_5
  · exact grid_2_6
  · exact grid_3_1
  · exact grid_3_2
  · exact grid_3_3
  · exact grid_3_4
  · exact grid_3_5
  · exact grid_3_6
  · exact grid_4_1
  · exact grid_4_2
  · exact grid_4_3
  · exact grid_4_4
  · exact grid_4_5
  · exact grid_4_6
  · exact grid_5_1
  · exact grid_5_2
  · exact grid_5_3
  · exact grid_5_4
  · exact grid_5_5
  · exact grid_5_6
  · exact grid_6_1
  · exact grid_6_2
  · exact grid_6_3
  · exact grid_6_4
  · exact grid_6_5
  · exact grid_6_6

end PCV.C15Grid
