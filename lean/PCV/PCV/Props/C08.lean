/-
  Property C08 — commitments are the key-defined linear map of the polynomial (homomorphic).
-/
import PCV.Proofs.KZG10
import PCV.Props.Examples

namespace PCV.C08
open PCV
variable {F : Type} [Field F] [DecidableEq F]

/-- **KZG10, arbitrary key.** The non-hiding commitment is the dot product of the coefficient
vector with the published key elements — whatever the key scalars are; skipping low-order zero
coefficients is semantically the identity. -/
theorem kzg10_commit_is_msm (pw : KZG.Powers F) (p : List F) (rng : Bool) (draws : List F)
    (c : F) (r rest : List F) (h : KZG.commit pw p none rng draws = .ok (c, r, rest)) :
    c = dot pw.g p ∧ r = [] ∧ rest = draws := by
  unfold KZG.commit at h
  split at h
  · cases h
  · simp only at h
    injection h with h; injection h with h1 h2; injection h2 with h2 h3
    exact ⟨by rw [← h1, KZG.msmSkip_eq], h2.symm, h3.symm⟩

/-- **KZG10, well-formed key.** `commit = g·p(β) + γ·r(β)`; `r = []` without a hiding bound. -/
theorem kzg10_commit_spec (g γ β : F) (n m : Nat) (p : List F) (hb : Option Nat) (rng : Bool)
    (draws : List F) (c : F) (r rest : List F)
    (h : KZG.commit (KZG.wfPowers g γ β n m) p hb rng draws = .ok (c, r, rest)) :
    c = g * evalPoly p β + γ * evalPoly r β ∧ (hb = none → r = []) := by
  obtain ⟨h1, _, _, h4⟩ := KZG.commit_spec g γ β n m p hb rng draws c r rest h
  exact ⟨h1, h4⟩

/-- additivity and homogeneity of the commitment map, for an arbitrary key -/
theorem kzg10_commit_add (b p q : List F) :
    KZG.msmSkip b (padd p q) = KZG.msmSkip b p + KZG.msmSkip b q := KZG.msmSkip_add b p q

theorem kzg10_commit_scale (b p : List F) (c : F) :
    KZG.msmSkip b (pscale c p) = c * KZG.msmSkip b p := KZG.msmSkip_scale b p c

/-- the zero polynomial (empty or all-zero coefficient vector) commits to the identity -/
theorem kzg10_commit_zero (b p : List F) (h : pnorm p = []) : KZG.msmSkip b p = 0 := by
  rw [KZG.msmSkip_eq, dot_comm, ← dot_pnorm, h]; simp

/-- high-order zero coefficients do not change the commitment -/
theorem kzg10_commit_leading_zeros (b p : List F) : KZG.msmSkip b (pnorm p) = KZG.msmSkip b p := by
  rw [KZG.msmSkip_eq, KZG.msmSkip_eq, dot_comm, dot_pnorm, dot_comm]

example : KZG.commit (KZG.wfPowers (3 : K) 5 2 3 4) [0, 2, 3] none false [] = .ok (48, [], []) := by
  decide

end PCV.C08
