/-
  Property C05 — batched verification is as strict as verifying every query on its own,
  inner-product-argument scheme.  `batch_check` runs the shape test and `succinct_check` per point
  label (any failure ends the batch with a refusal / `Ok(false)`, as in the individual `check`) and
  replaces the per-proof final-key tests by one randomized test.
-/
import PCV.Proofs.IPAVerify
import PCV.Props.Examples

set_option linter.unusedSectionVars false

namespace PCV.C05
open PCV
variable {F : Type} [Field F] [DecidableEq F]

/-- **IPA, the batch defect.** Given that all succinct checks pass (with check polynomials
`uss`), the final test of `batch_check` is `Σ ρᵢ·Δ₂,ᵢ = 0` with `ρ₀ = 1`, `ρᵢ` the verifier's
128-bit randomizers and `Δ₂,ᵢ = ⟨coeffs(h_{u,i}), G⟩ − Kᵢ` the final-key defect of the individual
`check` of point `i`. -/
theorem ipa_batch_defect (vk : IPA.VK F) (comms : List (IPA.LComm F)) (qs : List (IPA.Query F))
    (evals : List ((IPA.Label × F) × F)) (πs : List (IPA.Proof F)) (ξs ros rs : List F)
    (uss : List (List F)) (hl : πs.length = (Marlin.groupQueries qs).length)
    (hs : IPA.batchSuccinct vk comms evals (Marlin.groupQueries qs) πs ξs ros = .ok (some uss)) :
    IPA.batchCheck vk comms qs evals πs ξs ros rs
      = .ok (decide (KZG.wsum 1 rs (IPA.defect2s vk uss πs) = 0)) :=
  IPA.batchCheck_of_succinct vk comms qs evals πs ξs ros rs uss hl hs

/-- the individual verifier on one point: once its succinct check passed with check polynomial
`us`, `check` accepts iff the final-key defect vanishes -/
theorem ipa_check_of_succinct (vk : IPA.VK F) (cs : List (IPA.LComm F)) (z : F) (vs : List F)
    (π : IPA.Proof F) (ξs ros : List F) (us ξr ror : List F)
    (hb : IPA.badShape vk π = false)
    (hs : IPA.succinctCheck vk cs z vs π ξs ros = .ok (some us, ξr, ror)) :
    IPA.check vk cs z vs π ξs ros = .ok (decide (IPA.defect2 vk π us = 0)) := by
  unfold IPA.check; rw [hb, hs]; simp [IPA.finalKeyOk]

/-- **IPA.** A failing succinct check anywhere ends the batch with `Ok(false)`, like the
individual check of that point. -/
theorem ipa_batch_succinct_failed (vk : IPA.VK F) (comms : List (IPA.LComm F))
    (qs : List (IPA.Query F)) (evals : List ((IPA.Label × F) × F)) (πs : List (IPA.Proof F))
    (ξs ros rs : List F) (hl : πs.length = (Marlin.groupQueries qs).length)
    (hs : IPA.batchSuccinct vk comms evals (Marlin.groupQueries qs) πs ξs ros = .ok none) :
    IPA.batchCheck vk comms qs evals πs ξs ros rs = .ok false :=
  IPA.batchCheck_of_failed vk comms qs evals πs ξs ros rs hl hs

/-- **IPA, all individual claims verify ⇒ the batch accepts for every randomizer list** (the
outcome on true batches does not depend on the verifier's randomness). -/
theorem ipa_all_true_accepted (vk : IPA.VK F) (comms : List (IPA.LComm F)) (qs : List (IPA.Query F))
    (evals : List ((IPA.Label × F) × F)) (πs : List (IPA.Proof F)) (ξs ros rs : List F)
    (uss : List (List F)) (hl : πs.length = (Marlin.groupQueries qs).length)
    (hs : IPA.batchSuccinct vk comms evals (Marlin.groupQueries qs) πs ξs ros = .ok (some uss))
    (h : ∀ d ∈ IPA.defect2s vk uss πs, d = 0) :
    IPA.batchCheck vk comms qs evals πs ξs ros rs = .ok true := by
  rw [ipa_batch_defect vk comms qs evals πs ξs ros rs uss hl hs, KZG.wsum_zero _ _ _ h]
  simp

/-- **IPA, exactly one failing final-key test**, met by a non-zero randomizer ⇒ the batch
rejects. -/
theorem ipa_single_false_rejected (vk : IPA.VK F) (comms : List (IPA.LComm F))
    (qs : List (IPA.Query F)) (evals : List ((IPA.Label × F) × F)) (πs : List (IPA.Proof F))
    (ξs ros rs : List F) (uss : List (List F))
    (hl : πs.length = (Marlin.groupQueries qs).length)
    (hs : IPA.batchSuccinct vk comms evals (Marlin.groupQueries qs) πs ξs ros = .ok (some uss))
    (j : Nat) (hj : j < (IPA.defect2s vk uss πs).length)
    (hz : ∀ i (hi : i < (IPA.defect2s vk uss πs).length), i ≠ j → (IPA.defect2s vk uss πs)[i] = 0)
    (hne : (IPA.defect2s vk uss πs)[j] ≠ 0) (hr : ((1 : F) :: rs).getD j 0 ≠ 0) :
    IPA.batchCheck vk comms qs evals πs ξs ros rs = .ok false := by
  rw [ipa_batch_defect vk comms qs evals πs ξs ros rs uss hl hs]
  have := KZG.wsum_single 1 rs _ j hj hz hne hr
  simp [this]

/-! non-vacuity over `ZMod 101`: a two-point batch (points 6 and 7 of `4 + 9X` under the
2-element key); all-true accepted for two different randomizer lists; one wrong final key
rejected; one false value rejected -/
example : IPA.batchCheck (⟨[3, 5], 13, 17, 3⟩ : IPA.CK K) [⟨[1], ⟨57, none⟩, none⟩]
    [([1], ([9], 6)), ([1], ([10], 7))] [(([1], 6), 58), (([1], 7), 67)]
    [⟨[7], [83], 48, 10, none, none⟩, ⟨[26], [19], 23, 6, none, none⟩]
    [2, 3, 4, 5, 6, 7] [8, 9, 10, 4] [5, 6] = .ok true := by decide +kernel
example : IPA.batchCheck (⟨[3, 5], 13, 17, 3⟩ : IPA.CK K) [⟨[1], ⟨57, none⟩, none⟩]
    [([1], ([9], 6)), ([1], ([10], 7))] [(([1], 6), 58), (([1], 7), 67)]
    [⟨[7], [83], 48, 10, none, none⟩, ⟨[26], [19], 23, 6, none, none⟩]
    [2, 3, 4, 5, 6, 7] [8, 9, 10, 4] [77, 3] = .ok true := by decide +kernel
example : IPA.batchCheck (⟨[3, 5], 13, 17, 3⟩ : IPA.CK K) [⟨[1], ⟨57, none⟩, none⟩]
    [([1], ([9], 6)), ([1], ([10], 7))] [(([1], 6), 58), (([1], 7), 67)]
    [⟨[7], [83], 48, 10, none, none⟩, ⟨[26], [19], 24, 6, none, none⟩]
    [2, 3, 4, 5, 6, 7] [8, 9, 10, 4] [5, 6] = .ok false := by decide +kernel
example : IPA.batchCheck (⟨[3, 5], 13, 17, 3⟩ : IPA.CK K) [⟨[1], ⟨57, none⟩, none⟩]
    [([1], ([9], 6)), ([1], ([10], 7))] [(([1], 6), 58), (([1], 7), 68)]
    [⟨[7], [83], 48, 10, none, none⟩, ⟨[26], [19], 23, 6, none, none⟩]
    [2, 3, 4, 5, 6, 7] [8, 9, 10, 4] [5, 6] = .ok false := by decide +kernel

end PCV.C05
