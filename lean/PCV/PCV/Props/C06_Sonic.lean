/-
  Property C06 — linear-combination openings prove exactly the stated combinations, SonicKZG10's OWN
  `open_combinations` / `check_combinations` (`sonic_pc/mod.rs`; model `PCV/Model/SonicLC.lean`).
  Only property theorems live here; lemmas are in PCV/Proofs/SonicLC.lean.
-/
import PCV.Proofs.SonicLCExamples

set_option linter.unusedSectionVars false
set_option linter.unusedVariables false

namespace PCV.C06
open PCV PCV.Sonic
open PCV.Marlin (Label LPoly Query groupQueries lookupLast lookupEval)
variable {F : Type} [Field F] [DecidableEq F]

/-! ### honest combinations are accepted -/

/-- **A combination of honest commitments is an honest commitment** (Sonic): whatever
`open_combinations` forms from honest (polynomial, state, commitment) triples — arbitrary
coefficients incl. zero and negative, repeated labels, constants (skipped by the prover), or a single
degree-bounded term with coefficient one, which keeps its bound — is an honest triple under the same
keys, labelled with the combination's label, and its polynomial evaluates to the combination of the
evaluations. -/
theorem sonic_lc_honest (ck : CK F) (vk : VK F) (g γ β h : F) (s shb : Nat) (trips : List (Trip F))
    (htr : TripsGood ck vk g γ β h s shb trips) (lc : LC.LinComb F) (res : Trip F)
    (hc : combineLC trips lc = .ok res) :
    Good ck vk g γ β h s shb res.2.2 res.1 res.2.1 ∧ res.2.2.label = lc.label ∧
      res.1.label = lc.label ∧ ∀ z, evalPoly res.1.poly z = lcPolyValue trips z lc.terms :=
  combineLC_good ck vk g γ β h s shb trips htr lc res hc

/-- what `commit` returns under a trapdoor-made key is such a list of honest triples -/
theorem sonic_lc_base_honest (g γ β bi h : F) (hb : β * bi = 1) (D s shb : Nat)
    (bounds : Option (List Nat)) (ck : CK F) (vk : VK F)
    (ht : trim (wfPP g γ β bi h D) s shb bounds = .ok (ck, vk))
    (ps : List (LPoly F)) (rng : Bool) (draws : List F) (cs : List (LComm F)) (rs : List (List F))
    (drest : List F) (hc : commit ck ps rng draws = .ok (cs, rs, drest)) :
    TripsGood ck vk g γ β h s shb (labelMap ps rs cs) :=
  labelMap_good ck vk g γ β h s shb cs ps rs
    (commit_honest g γ β bi h hb D s shb bounds ck vk ht ps rng draws cs rs drest hc)
    (commit_labels ck ps rng draws cs rs drest hc)

/-- **Prover and verifier form the same combined commitments, or refuse alike.**  On commitments
aligned with the prover's triples, the verifier's pass over the combinations returns exactly the
prover's combined commitments (same bounds) and the claimed evaluations with the constants
subtracted — or the prover's error. -/
theorem sonic_lc_verifier_pass (trips : List (Trip F)) (comms : List (LComm F))
    (hal : Aligned trips comms) (lcs : List (LC.LinComb F)) (evals : List ((Label × F) × F)) :
    combineAllV comms lcs evals = allView lcs evals (combineAll trips lcs) :=
  combineAllV_eq trips comms hal lcs evals

/-- **Completeness of `open_combinations` → `check_combinations`.**  For parameters made by `setup`
from any trapdoor, any `trim` the library accepts, commitments from `commit` (any admissible degree
and hiding bounds), ANY list of combinations the prover answers, any query set over the combination
labels (several combinations per point label, point labels sharing a value), any challenges: if each
claimed value is the combined polynomial's value plus the constants subtracted for its label
(`constSum`: for distinct combination labels, the combination's own constants — see
`sonic_lc_complete_values`), the verifier accepts for EVERY randomizer list and is left with the
prover's unused challenges. -/
theorem sonic_lc_complete (g γ β bi h : F) (hb : β * bi = 1) (D s shb : Nat)
    (bounds : Option (List Nat)) (ck : CK F) (vk : VK F)
    (ht : trim (wfPP g γ β bi h D) s shb bounds = .ok (ck, vk))
    (ps : List (LPoly F)) (rng : Bool) (draws : List F) (cs : List (LComm F)) (rs : List (List F))
    (drest : List F) (hc : commit ck ps rng draws = .ok (cs, rs, drest))
    (lcs : List (LC.LinComb F)) (qs : List (Query F)) (evals : List ((Label × F) × F))
    (hev : ∀ gr ∈ groupQueries qs, ∀ l ∈ gr.2.2, ∀ lc,
      lookupLast (fun (lc : LC.LinComb F) => lc.label) l lcs = some lc →
      lookupEval evals l gr.2.1
        = some (lcPolyValue (labelMap ps rs cs) gr.2.1 lc.terms + constSum lcs l))
    (ξs : List F) (πs : List (KZG.Proof F)) (rest : List F)
    (ho : openCombinations ck ps rs cs lcs qs ξs = .ok (πs, rest)) (vrs : List F) :
    checkCombinationsT vk cs lcs qs evals πs ξs vrs = .ok (true, rest) ∧
    checkCombinations vk cs lcs qs evals πs ξs vrs = .ok true := by
  have h1 := lc_complete g γ β bi h hb D s shb bounds ck vk ht ps rng draws cs rs drest hc lcs qs evals
    hev ξs πs rest ho vrs
  refine ⟨h1, ?_⟩
  rw [checkCombinationsT_fst, h1]; rfl

/-- **Completeness for the true combination values.**  Distinct combination labels, and every
claimed value is `LinearCombination`'s value `Σ cᵢ·pᵢ(z) + Σ constants` under the true evaluations:
the combination proof is accepted. -/
theorem sonic_lc_complete_values (g γ β bi h : F) (hb : β * bi = 1) (D s shb : Nat)
    (bounds : Option (List Nat)) (ck : CK F) (vk : VK F)
    (ht : trim (wfPP g γ β bi h D) s shb bounds = .ok (ck, vk))
    (ps : List (LPoly F)) (rng : Bool) (draws : List F) (cs : List (LComm F)) (rs : List (List F))
    (drest : List F) (hc : commit ck ps rng draws = .ok (cs, rs, drest))
    (lcs : List (LC.LinComb F)) (hnd : (lcs.map (·.label)).Nodup)
    (qs : List (Query F)) (evals : List ((Label × F) × F))
    (hval : ∀ gr ∈ groupQueries qs, ∀ l ∈ gr.2.2, ∀ lc ∈ lcs, lc.label = l →
      lookupEval evals l gr.2.1 = some (LC.value lc (evalAssign (labelMap ps rs cs) gr.2.1)))
    (ξs : List F) (πs : List (KZG.Proof F)) (rest : List F)
    (ho : openCombinations ck ps rs cs lcs qs ξs = .ok (πs, rest)) (vrs : List F) :
    checkCombinations vk cs lcs qs evals πs ξs vrs = .ok true := by
  refine (sonic_lc_complete g γ β bi h hb D s shb bounds ck vk ht ps rng draws cs rs drest hc lcs qs evals
    ?_ ξs πs rest ho vrs).2
  intro gr hgr l hl lc hlc
  obtain ⟨hm, hlab⟩ := Sonic.lookupLast_mem _ l lcs lc hlc
  rw [hval gr hgr l hl lc hm hlab, ← hlab, constSum_of_nodup lcs hnd lc hm]
  unfold LC.value
  rw [lc_value_split]

/-! ### the acceptance condition as an explicit defect -/

/-- **`check_combinations` is `batch_check` on the combined commitments and on `claimed − constants`.**
Whatever commitments and proofs the verifier is given: if its pass over the combinations succeeds with
the commitments `lcComms`, the decision is that of Sonic's `batch_check` (C05: `Σₖ ρₖ·Δₖ = 0`, `Δₖ`
the defect of point label `k`) on `lcComms` and on the evaluation map in which every claimed value
labelled `l` has become `claimed − constSum lcs l`. -/
theorem sonic_lc_check_is_batch_check (vk : VK F) (comms : List (LComm F))
    (lcs : List (LC.LinComb F)) (qs : List (Query F)) (evals : List ((Label × F) × F))
    (πs : List (KZG.Proof F)) (ξs rs : List F) (lcComms : List (LComm F))
    (ev' : List ((Label × F) × F)) (hv : combineAllV comms lcs evals = .ok (lcComms, ev')) :
    checkCombinations vk comms lcs qs evals πs ξs rs = batchCheck vk lcComms qs ev' πs ξs rs ∧
    ∀ l z, lookupEval ev' l z = (lookupEval evals l z).map (· - constSum lcs l) := by
  constructor
  · unfold checkCombinations; rw [hv]
  · intro l z
    rw [combineAllV_evals comms lcs evals lcComms ev' hv, lookupEval_adjust]

/-- **The defect of one point label of a combination proof.**  `sel` the combinations opened at the
point `z` (in the batch's order), `ts` their combined triples, `π` the honest proof: the statement
with the combined commitments changed by `dcs`, the point by `dz` and the values
`claimed − constants` changed by `dvs` from the true `Σ cᵢ·pᵢ(z)` is accepted iff
`Σⱼ ξⱼ·dcⱼ·σ(bⱼ) − g·h·Σⱼ ξⱼ·dvⱼ + W·dz·h = 0`. -/
theorem sonic_lc_defect_iff (g γ β bi h : F) (hb : β * bi = 1) (D s shb : Nat)
    (bounds : Option (List Nat)) (ck : CK F) (vk : VK F)
    (ht : trim (wfPP g γ β bi h D) s shb bounds = .ok (ck, vk))
    (trips : List (Trip F)) (htr : TripsGood ck vk g γ β h s shb trips)
    (sel : List (LC.LinComb F)) (ts : List (Trip F)) (hc : combineAll trips sel = .ok ts)
    (z : F) (ξs : List F) (π : KZG.Proof F) (rest : List F)
    (ho : Sonic.open ck (ts.map (·.1)) z (ts.map (·.2.1)) ξs = .ok (π, rest))
    (dcs dvs : List F) (dz : F) (hcl : dcs.length = sel.length) (hvl : dvs.length = sel.length) :
    check vk (addComms (ts.map (·.2.2)) dcs) (z + dz)
        (addVals (sel.map fun lc => lcPolyValue trips z lc.terms) dvs) π ξs = .ok (true, rest) ↔
      linC vk.shiftD (withComms (ts.map (·.2.2)) dcs) (sel.map fun lc => lcPolyValue trips z lc.terms) ξs
        - g * linV (ts.map (·.2.2)) dvs ξs * h + π.w * dz * h = 0 := by
  obtain ⟨hh, _⟩ := combineAll_good ck vk g γ β h s shb trips htr sel ts hc
  have hcomb := combineAll_combined trips sel ts hc
  have hvals := combined_values ck vk g γ β h s shb trips htr sel ts hcomb z
  have hlen : ts.length = sel.length := by
    have := congrArg List.length hvals
    simpa using this
  have := honest_check_iff g γ β bi h hb D s shb bounds ck vk ht (ts.map (·.2.2)) (ts.map (·.1))
    (ts.map (·.2.1)) hh z ξs π rest ho dcs dvs dz (by simp [hcl, hlen]) (by simp [hvl, hlen])
  rw [hvals] at this
  exact this

/-- **A changed claimed value / constant at position `j`** of a point label (they enter as
`claimed − constants`, so the value handed to the check moves by `δ = δ_claimed − δ_constant ≠ 0`):
not accepted whenever `ξⱼ·δ ≠ 0` and `g, h ≠ 0`. -/
theorem sonic_lc_wrong_value_rejected (g γ β bi h : F) (hb : β * bi = 1) (D s shb : Nat)
    (bounds : Option (List Nat)) (ck : CK F) (vk : VK F)
    (ht : trim (wfPP g γ β bi h D) s shb bounds = .ok (ck, vk))
    (trips : List (Trip F)) (htr : TripsGood ck vk g γ β h s shb trips)
    (sel : List (LC.LinComb F)) (ts : List (Trip F)) (hc : combineAll trips sel = .ok ts)
    (z : F) (ξs : List F) (π : KZG.Proof F) (rest : List F)
    (ho : Sonic.open ck (ts.map (·.1)) z (ts.map (·.2.1)) ξs = .ok (π, rest))
    (j : Nat) (δ : F) (hj : j < sel.length)
    (hne : valTerm δ j (ts.map (·.2.2)) ξs ≠ 0) (hg : g ≠ 0) (hh0 : h ≠ 0) :
    check vk (ts.map (·.2.2)) z
        (addVals (sel.map fun lc => lcPolyValue trips z lc.terms) (spike j δ sel.length)) π ξs
      ≠ .ok (true, rest) := by
  intro hacc
  have hlen : (ts.map (·.2.2)).length = sel.length := by
    have := congrArg List.length (combined_values ck vk g γ β h s shb trips htr sel ts
      (combineAll_combined trips sel ts hc) z)
    simpa using this
  have h0 := (sonic_lc_defect_iff g γ β bi h hb D s shb bounds ck vk ht trips htr sel ts hc z ξs π rest ho
    (List.replicate (ts.map (·.2.2)).length 0) (spike j δ sel.length) 0 (by simp [hlen])
    (spike_length _ _ _)).1
  rw [addComms_zero, add_zero] at h0
  have h1 := h0 hacc
  rw [linC_zero, linV_spike δ j _ sel.length ξs hj] at h1
  have h2 : g * valTerm δ j (ts.map (·.2.2)) ξs * h = 0 := by linear_combination -h1
  rcases mul_eq_zero.1 h2 with h3 | h3
  · rcases mul_eq_zero.1 h3 with h4 | h4
    · exact hg h4
    · exact hne h4
  · exact hh0 h3

/-- **A changed constant term** (verifier's side) of the combination at position `|A|`: the amount
subtracted from the claims labelled with that combination grows by exactly `δ` (so by
`sonic_lc_wrong_value_rejected` the claim is no longer accepted), other labels are untouched. -/
theorem sonic_lc_constant_change (A B : List (LC.LinComb F)) (lbl : Label)
    (pre post : List (F × LC.LCTerm)) (c δ : F) (l : Label) :
    constSum (A ++ ⟨lbl, pre ++ (c + δ, .one) :: post⟩ :: B) l
      = constSum (A ++ ⟨lbl, pre ++ (c, .one) :: post⟩ :: B) l + (if l = lbl then δ else 0) :=
  constSum_change A B lbl pre post c δ l

/-- **A changed coefficient** (verifier's side) of a term naming the unbounded commitment `cl`: same
refusals, same bound, same evaluation map, and the combined commitment moves by exactly `δ·cl` — a
commitment change `dc = δ·cl` in `sonic_lc_defect_iff`, not accepted whenever `ξⱼ·δ·cl·h ≠ 0`. -/
theorem sonic_lc_coefficient_change (comms : List (LComm F)) (evals : List ((Label × F) × F))
    (lbl : Label) (pre post : List (F × LC.LCTerm)) (c δ : F) (l : Label) (cl : LComm F)
    (hl : lookupLast (fun (c : LComm F) => c.label) l comms = some cl) (hb : cl.bound = none) :
    combineLCV comms evals ⟨lbl, pre ++ (c + δ, .poly l) :: post⟩
      = (combineLCV comms evals ⟨lbl, pre ++ (c, .poly l) :: post⟩).map
          fun r => ({ r.1 with comm := r.1.comm + δ * cl.comm }, r.2) :=
  combineLCV_coeff comms evals lbl pre post c δ l cl hl hb

/-- a changed combined commitment at position `j` of a point label is not accepted whenever
`ξⱼ·dc·σ(bⱼ) ≠ 0` -/
theorem sonic_lc_wrong_commitment_rejected (g γ β bi h : F) (hb : β * bi = 1) (D s shb : Nat)
    (bounds : Option (List Nat)) (ck : CK F) (vk : VK F)
    (ht : trim (wfPP g γ β bi h D) s shb bounds = .ok (ck, vk))
    (trips : List (Trip F)) (htr : TripsGood ck vk g γ β h s shb trips)
    (sel : List (LC.LinComb F)) (ts : List (Trip F)) (hc : combineAll trips sel = .ok ts)
    (z : F) (ξs : List F) (π : KZG.Proof F) (rest : List F)
    (ho : Sonic.open ck (ts.map (·.1)) z (ts.map (·.2.1)) ξs = .ok (π, rest))
    (j : Nat) (dc : F) (hj : j < sel.length)
    (hne : commTerm vk.shiftD dc j (ts.map (·.2.2)) (sel.map fun lc => lcPolyValue trips z lc.terms) ξs ≠ 0) :
    check vk (addComms (ts.map (·.2.2)) (spike j dc sel.length)) z
        (sel.map fun lc => lcPolyValue trips z lc.terms) π ξs ≠ .ok (true, rest) := by
  intro hacc
  have h0 := (sonic_lc_defect_iff g γ β bi h hb D s shb bounds ck vk ht trips htr sel ts hc z ξs π rest ho
    (spike j dc sel.length) (List.replicate (sel.map fun lc => lcPolyValue trips z lc.terms).length 0) 0
    (spike_length _ _ _) (by simp)).1
  rw [addVals_zero, add_zero] at h0
  have h1 := h0 hacc
  rw [linV_zero, linC_spike _ dc j _ sel.length _ ξs hj] at h1
  apply hne
  linear_combination h1

/-! ### the degree-bound policy -/

/-- **Refused mixture, prover.**  A combination with `lc.len() ≠ 1` (constants counted) that names a
degree-bounded polynomial — at any position, with any coefficient, next to polynomial terms or to a
constant (even a zero one) — is refused with `EquationHasDegreeBounds` (all labels known). -/
theorem sonic_lc_mixed_refused_prover (trips : List (Trip F)) (lc : LC.LinComb F)
    (hk : lc.terms.length ≠ 1) (hm : Mixed (pBounded trips) lc.terms) :
    combineLC trips lc = .error .equationHasDegreeBounds :=
  combineLC_mixed trips lc hk hm

/-- **Refused mixture, verifier** — for ANY commitment list; the bounds are read off the commitments. -/
theorem sonic_lc_mixed_refused_verifier (comms : List (LComm F)) (evals : List ((Label × F) × F))
    (lc : LC.LinComb F) (hk : lc.terms.length ≠ 1) (hm : Mixed (vBounded comms) lc.terms) :
    combineLCV comms evals lc = .error .equationHasDegreeBounds :=
  combineLCV_mixed comms evals lc hk hm

/-- the refusal of one combination is the answer of `open_combinations` (the combinations before it
having been accepted): no proof is produced, whatever the query set -/
theorem sonic_open_combinations_refuses (ck : CK F) (polys : List (LPoly F)) (sts : List (List F))
    (comms : List (LComm F)) (pre post : List (LC.LinComb F)) (lc : LC.LinComb F) (e : Err)
    (tsp : List (Trip F)) (hp : combineAll (labelMap polys sts comms) pre = .ok tsp)
    (hlc : combineLC (labelMap polys sts comms) lc = .error e) (qs : List (Query F)) (ξs : List F) :
    openCombinations ck polys sts comms (pre ++ lc :: post) qs ξs = .error e := by
  unfold openCombinations
  rw [combineAll_refuses _ pre post lc e tsp hp hlc]

/-- the refusal of one combination is the answer of `check_combinations`, whatever proof is presented -/
theorem sonic_check_combinations_refuses (vk : VK F) (comms : List (LComm F))
    (pre post : List (LC.LinComb F)) (lc : LC.LinComb F) (e : Err) (evals : List ((Label × F) × F))
    (csp : List (LComm F)) (evp : List ((Label × F) × F))
    (hp : combineAllV comms pre evals = .ok (csp, evp))
    (hlc : ∀ ev, combineLCV comms ev lc = .error e) (qs : List (Query F)) (πs : List (KZG.Proof F))
    (ξs rs : List F) :
    checkCombinations vk comms (pre ++ lc :: post) qs evals πs ξs rs = .error e := by
  unfold checkCombinations
  rw [combineAllV_refuses comms pre post lc e evals csp evp hp hlc]

/-- **One term, prover**: a degree-bounded polynomial is refused with `EquationHasDegreeBounds` unless
the combination has exactly one term; alone it must carry coefficient one (the code's `assert!`:
an abort, not an error value). -/
theorem sonic_lc_step_policy_prover (trips : List (Trip F)) (k : Nat) (acc : LCAcc F) (coeff : F)
    (l : Label) (x : Trip F) (hl : lookupLast (fun (t : Trip F) => t.1.label) l trips = some x)
    (hb : x.1.bound.isSome = true) :
    (k ≠ 1 → lcStep trips k acc (coeff, .poly l) = .error .equationHasDegreeBounds) ∧
    (k = 1 → coeff ≠ 1 → lcStep trips k acc (coeff, .poly l) = .error .abort) :=
  lcStep_policy trips k acc coeff l x hl hb

/-- **One term, verifier.** -/
theorem sonic_lc_step_policy_verifier (comms : List (LComm F)) (lbl : Label) (k : Nat) (acc : VAcc F)
    (coeff : F) (l : Label) (c : LComm F)
    (hl : lookupLast (fun (c : LComm F) => c.label) l comms = some c) (hb : c.bound.isSome = true) :
    (k ≠ 1 → lcStepV comms lbl k acc (coeff, .poly l) = .error .equationHasDegreeBounds) ∧
    (k = 1 → coeff ≠ 1 → lcStepV comms lbl k acc (coeff, .poly l) = .error .abort) :=
  lcStepV_policy comms lbl k acc coeff l c hl hb

/-- an unknown label is refused by both sides -/
theorem sonic_lc_unknown_label (trips : List (Trip F)) (comms : List (LComm F)) (lbl : Label)
    (k : Nat) (acc : LCAcc F) (vacc : VAcc F) (coeff : F) (l : Label)
    (hp : lookupLast (fun (t : Trip F) => t.1.label) l trips = none)
    (hv : lookupLast (fun (c : LComm F) => c.label) l comms = none) :
    lcStep trips k acc (coeff, .poly l) = .error .missingPolynomial ∧
    lcStepV comms lbl k vacc (coeff, .poly l) = .error .missingPolynomial :=
  ⟨lcStep_unknown trips k acc coeff l hp, lcStepV_unknown comms lbl k vacc coeff l hv⟩

/-! ### non-vacuity (K = ZMod 101; the transcript of `Sonic.Ex`, combinations of `Sonic.ExLC`) -/

/-- the hypotheses of `sonic_lc_complete` on a concrete instance: trapdoor inverse, `trim`, `commit`,
`open_combinations` (three combinations — repeated label / zero and negative coefficients / constants,
a single bounded hiding term, two constants — at three point labels, two of them sharing the point) -/
example : (2 : K) * 51 = 1 ∧ trim Ex.pp 3 1 (some [3, 2, 3]) = .ok (Ex.ck, Ex.vk) ∧
    commit Ex.ck Ex.polys true [7, 0, 9, 4] = .ok (Ex.comms, Ex.rands, [4]) ∧
    openCombinations Ex.ck Ex.polys Ex.rands Ex.comms ExLC.lcs ExLC.qs ExLC.xis = .ok (ExLC.proofs, [41]) :=
  ⟨Ex.inv, Ex.trim_eq, Ex.commit_eq, ExLC.open_eq⟩
/-- … the claimed values are the true ones (`hev`, via a decidable reformulation), labels distinct -/
example : ∀ gr ∈ groupQueries ExLC.qs, ∀ l ∈ gr.2.2, ∀ lc,
    lookupLast (fun (lc : LC.LinComb K) => lc.label) l ExLC.lcs = some lc →
    lookupEval ExLC.evals l gr.2.1
      = some (lcPolyValue (labelMap Ex.polys Ex.rands Ex.comms) gr.2.1 lc.terms + constSum ExLC.lcs l) := by
  have key : ∀ gr ∈ groupQueries ExLC.qs, ∀ l ∈ gr.2.2,
      (lookupLast (fun (lc : LC.LinComb K) => lc.label) l ExLC.lcs).all (fun lc =>
        decide (lookupEval ExLC.evals l gr.2.1
          = some (lcPolyValue (labelMap Ex.polys Ex.rands Ex.comms) gr.2.1 lc.terms + constSum ExLC.lcs l)))
        = true := by decide
  intro gr hgr l hl lc hlc
  have := key gr hgr l hl
  rw [hlc] at this
  simpa using this
example : (ExLC.lcs.map (·.label)).Nodup := by decide
/-- … and the verifier accepts, leaving the prover's unused challenge -/
example : checkCombinationsT Ex.vk Ex.comms ExLC.lcs ExLC.qs ExLC.evals ExLC.proofs ExLC.xis [7, 8]
    = .ok (true, [41]) := ExLC.check_eq
/-- the combined triples (`combineAll`), e.g. `2·p1 − p1 + 5 + 0·p1 ↦ p1` with commitment 24 -/
example : combineAll ExLC.trips ExLC.lcs = .ok ExLC.combined := ExLC.combine_eq
/-- a changed claimed value, a changed constant, a changed coefficient: rejected -/
example : checkCombinations Ex.vk Ex.comms ExLC.lcs ExLC.qs
    [(([108, 48], 5), 34), (([108, 48], 9), 90 + 1), (([108, 49], 5), 86), (([108, 50], 9), 65),
     (([108, 50], 5), 87)] ExLC.proofs ExLC.xis [7, 8] = .ok false := by decide
example : checkCombinations Ex.vk Ex.comms
    [ExLC.lcA, ExLC.lcB, ⟨[108, 50], [(3, .one), (-4, .poly [112, 49]), (-2 + 1, .one)]⟩] ExLC.qs
    ExLC.evals ExLC.proofs ExLC.xis [7, 8] = .ok false := by decide
example : checkCombinations Ex.vk Ex.comms
    [ExLC.lcA, ExLC.lcB, ⟨[108, 50], [(3, .one), (-4 + 1, .poly [112, 49]), (-2, .one)]⟩] ExLC.qs
    ExLC.evals ExLC.proofs ExLC.xis [7, 8] = .ok false := by decide
/-- claimed value and constant moved together: the same statement, accepted -/
example : checkCombinations Ex.vk Ex.comms
    [ExLC.lcA, ExLC.lcB, ⟨[108, 50], [(3 + 9, .one), (-4, .poly [112, 49]), (-2, .one)]⟩] ExLC.qs
    [(([108, 48], 5), 34), (([108, 48], 9), 90), (([108, 49], 5), 86), (([108, 50], 9), 65 + 9),
     (([108, 50], 5), 87 + 9)] ExLC.proofs ExLC.xis [7, 8] = .ok true := by decide
/-- the side conditions of the rejection theorems hold on the example (first point label) -/
example : valTerm (1 : K) 1 (ExLC.combined.map (·.2.2)) ExLC.xis ≠ 0 ∧ (3 : K) ≠ 0 ∧ (7 : K) ≠ 0 := by
  decide
/-- refused mixtures: hypotheses and conclusions, prover and verifier -/
example : ExLC.lcMixed.terms.length ≠ 1 ∧ Mixed (pBounded ExLC.trips) ExLC.lcMixed.terms ∧
    Mixed (vBounded Ex.comms) ExLC.lcMixed.terms ∧
    Mixed (pBounded ExLC.trips) ExLC.lcMixedConst.terms ∧
    Mixed (vBounded Ex.comms) ExLC.lcMixedConst.terms := by
  unfold Mixed; decide
example : combineLC ExLC.trips ExLC.lcMixed = .error .equationHasDegreeBounds ∧
    combineLCV Ex.comms ExLC.evals ExLC.lcMixed = .error .equationHasDegreeBounds ∧
    combineLC ExLC.trips ExLC.lcMixedConst = .error .equationHasDegreeBounds ∧
    combineLCV Ex.comms ExLC.evals ExLC.lcMixedConst = .error .equationHasDegreeBounds ∧
    combineLC ExLC.trips ExLC.lcScaled = .error .abort ∧
    combineLCV Ex.comms ExLC.evals ExLC.lcScaled = .error .abort :=
  ⟨by decide, by decide, by decide, by decide, by decide, by decide⟩
example : openCombinations Ex.ck Ex.polys Ex.rands Ex.comms [ExLC.lcA, ExLC.lcMixed] ExLC.qs ExLC.xis
      = .error .equationHasDegreeBounds ∧
    checkCombinations Ex.vk Ex.comms [ExLC.lcA, ExLC.lcMixed] ExLC.qs ExLC.evals ExLC.proofs ExLC.xis [7]
      = .error .equationHasDegreeBounds := by decide

/-- the honest-triples hypothesis `TripsGood` (of `sonic_lc_honest`, `sonic_lc_defect_iff`, …) and
the alignment hypothesis of `sonic_lc_verifier_pass` hold on the example: they are what `trim` and
`commit` give -/
example : TripsGood Ex.ck Ex.vk (3 : K) 5 2 7 3 1 ExLC.trips :=
  sonic_lc_base_honest 3 5 2 51 7 Ex.inv 4 3 1 _ Ex.ck Ex.vk Ex.trim_eq Ex.polys true _ Ex.comms Ex.rands _
    Ex.commit_eq
example : Aligned ExLC.trips Ex.comms := by
  have htr := sonic_lc_base_honest (3 : K) 5 2 51 7 Ex.inv 4 3 1 _ Ex.ck Ex.vk Ex.trim_eq Ex.polys true _
    Ex.comms Ex.rands _ Ex.commit_eq
  have := aligned_of_good Ex.ck Ex.vk (3 : K) 5 2 7 3 1 _ htr
  have hc : (labelMap Ex.polys Ex.rands Ex.comms).map (fun (t : Trip K) => t.2.2) = Ex.comms := by decide
  rw [hc] at this
  exact this
/-- the hypotheses of the defect theorems at the first point label (`lcA`, `lcB` at `z = 5`), and of
`sonic_lc_check_is_batch_check` -/
example : combineAll ExLC.trips [ExLC.lcA, ExLC.lcB] = .ok (ExLC.combined.take 2) ∧
    Sonic.open Ex.ck ((ExLC.combined.take 2).map (·.1)) 5 ((ExLC.combined.take 2).map (·.2.1)) ExLC.xis
      = .ok (⟨72, some 87⟩, [19, 23, 29, 31, 37, 41]) := by decide
example : combineAllV Ex.comms ExLC.lcs ExLC.evals
    = .ok (ExLC.combined.map (·.2.2),
        [(([108, 48], 5), 29), (([108, 48], 9), 85), (([108, 49], 5), 86), (([108, 50], 9), 64),
         (([108, 50], 5), 86)]) := by decide
/-- a coefficient change `−4 ↦ −4 + 1` on `p1` (commitment 24, unbounded): the hypotheses of
`sonic_lc_coefficient_change` -/
example : lookupLast (fun (c : LComm K) => c.label) [112, 49] Ex.comms = some ⟨[112, 49], 24, none⟩ := by
  decide
/-- the hypotheses of the two top-level refusal theorems for `[lcA, lcMixed]` -/
example : combineAll ExLC.trips [ExLC.lcA] = .ok (ExLC.combined.take 1) ∧
    combineAllV Ex.comms [ExLC.lcA] ExLC.evals
      = .ok ([⟨[108, 48], 24, none⟩],
          [(([108, 48], 5), 29), (([108, 48], 9), 85), (([108, 49], 5), 86), (([108, 50], 9), 65),
           (([108, 50], 5), 87)]) := ⟨by decide, by decide⟩
example : ∀ ev, combineLCV Ex.comms ev ExLC.lcMixed = .error .equationHasDegreeBounds :=
  fun ev => sonic_lc_mixed_refused_verifier Ex.comms ev ExLC.lcMixed (by decide) (by unfold Mixed; decide)

end PCV.C06
