/-
  Property C17 (out-of-domain requests are refused, never answered with a wrong result) — Hyrax.
  Model: `PCV.Model.Hyrax` (`commit`, `open`, `check`), `PCV.Model.HyraxSetup` (`setup`).
  Every refusal branch of the model: an odd or missing number of variables, a key made for another
  number of variables (too small: `InvalidNumberOfVariables`; otherwise the `pedersen_commit`
  assertion aborts), an evaluation table of the wrong size, mismatched labels, a polynomial whose
  number of variables is not the point's, a wrong number of values / proofs, a commitment of the wrong
  size — and conversely what every ANSWER implies about its request.  In-domain requests never abort:
  `C01.hyrax_honest_total` (commit + open answer) with `C01.hyrax_complete` (check accepts); the
  combined statement is `hyrax_in_domain_answered` below.
-/
import PCV.Proofs.Hyrax
import PCV.Model.HyraxSetup
import PCV.Props.Examples

set_option linter.unusedSectionVars false
set_option linter.unusedVariables false

namespace PCV.C17
open PCV PCV.Hyrax
variable {F : Type} [Field F] [DecidableEq F]

/-! ### `setup` -/

/-- no number of variables, or an odd one: `InvalidNumberOfVariables` -/
theorem hyrax_setup_refuses (gen : Nat → F) (nv : Option Nat) (h : nv = none ∨ ∃ n, nv = some n ∧ n % 2 = 1) :
    setup gen nv = .error .invalidNumVars := by
  rcases h with rfl | ⟨n, rfl, hn⟩
  · rfl
  · simp [setup, hn]

/-! ### `commit` -/

/-- a polynomial with an odd number of variables is refused -/
theorem hyrax_commit_odd_refused (ks : List F) (hh : F) (p : MLPoly F) (ρs : List F)
    (h : p.nv % 2 = 1) : commitOne ks hh p ρs = .error .invalidNumVars := by
  unfold commitOne; simp [h]

/-- more variables than the key has elements: `InvalidNumberOfVariables` -/
theorem hyrax_commit_too_many_vars_refused (ks : List F) (hh : F) (p : MLPoly F) (ρs : List F)
    (hn : p.nv % 2 = 0) (h : ks.length < p.nv) : commitOne ks hh p ρs = .error .invalidNumVars := by
  unfold commitOne
  simp only
  rw [if_neg (by omega), if_pos (by omega)]

/-- **Whatever `commit` answers was in the domain**: an even number of variables, exactly `2^n`
evaluations, a key of exactly `2^(n/2)` generators; and the answer has one row commitment per row.
So a polynomial over another number of variables than the key's, or an evaluation table of another
size, is refused (error or abort) — never answered by a commitment to something else. -/
theorem hyrax_commit_answer_shape (ks : List F) (hh : F) (p : MLPoly F) (ρs c : List F) (st : State F)
    (h : commitOne ks hh p ρs = .ok (c, st)) :
    p.nv % 2 = 0 ∧ p.evals.length = 2 ^ p.nv ∧ ks.length = 2 ^ (p.nv / 2) ∧
      c.length = 2 ^ (p.nv / 2) := by
  obtain ⟨h1, h2, h3, h4, rfl, _⟩ := commitOne_inv ks hh p ρs c st h
  refine ⟨h1, ?_, h2, ?_⟩
  · rw [h3, ← pow_add]; congr 1; omega
  · rw [rowCommits_length, rowsOf_length, List.length_take]; omega

/-- a key for another number of variables is refused -/
theorem hyrax_commit_wrong_key_refused (ks : List F) (hh : F) (p : MLPoly F) (ρs : List F)
    (h : ks.length ≠ 2 ^ (p.nv / 2)) : ∃ e, commitOne ks hh p ρs = .error e := by
  cases hc : commitOne ks hh p ρs with
  | error e => exact ⟨e, rfl⟩
  | ok r => exact absurd (hyrax_commit_answer_shape ks hh p ρs r.1 r.2 hc).2.2.1 h

/-- an evaluation table of the wrong size is refused -/
theorem hyrax_commit_wrong_table_refused (ks : List F) (hh : F) (p : MLPoly F) (ρs : List F)
    (h : p.evals.length ≠ 2 ^ p.nv) : ∃ e, commitOne ks hh p ρs = .error e := by
  cases hc : commitOne ks hh p ρs with
  | error e => exact ⟨e, rfl⟩
  | ok r => exact absurd (hyrax_commit_answer_shape ks hh p ρs r.1 r.2 hc).2.1 h

/-! ### `open` -/

/-- a point with an odd number of coordinates is refused -/
theorem hyrax_open_odd_refused (ks : List F) (hh : F) (items : List (OpenItem F)) (point : List F)
    (draws cs : List F) (h : point.length % 2 = 1) :
    Hyrax.open ks hh items point draws cs = .error .invalidNumVars := by
  unfold Hyrax.open; simp [h]

/-- **Whatever `open` answers was in the domain**: the point has an even number of coordinates,
every (polynomial, commitment) pair carries the same label (`MismatchedLabels` otherwise), every
polynomial has exactly as many variables as the point (`MismatchedNumVars` otherwise), and there is
one proof per item. -/
theorem hyrax_open_answer_shape (ks : List F) (hh : F) (items : List (OpenItem F)) (point : List F)
    (draws cs : List F) (πs : List (Proof F)) (h : Hyrax.open ks hh items point draws cs = .ok πs) :
    point.length % 2 = 0 ∧ πs.length = items.length ∧
      ∀ it ∈ items, it.polyLabel = it.comLabel ∧ it.nv = point.length := by
  unfold Hyrax.open at h
  simp only at h
  by_cases hn : point.length % 2 = 1
  · rw [if_pos hn] at h; cases h
  · rw [if_neg hn] at h
    refine ⟨by omega, ?_⟩
    generalize tensorL point = L at h
    generalize tensorR point = R at h
    generalize 2 ^ (point.length / 2) = dim at h
    induction items generalizing draws cs πs with
    | nil =>
      simp only [openLoop, Except.ok.injEq] at h
      subst h; simp
    | cons it its ih =>
      obtain ⟨c, cs', π, πs', rfl, hl, hnv, _, _, hrest, rfl⟩ :=
        openLoop_cons_inv ks hh L R _ dim it its draws cs πs h
      obtain ⟨i1, i2⟩ := ih _ _ _ hrest
      refine ⟨by simp [i1], ?_⟩
      intro x hx
      rcases List.mem_cons.1 hx with rfl | hx
      · exact ⟨hl, hnv⟩
      · exact i2 x hx

/-- mismatched labels at any position: refused -/
theorem hyrax_open_mismatched_labels_refused (ks : List F) (hh : F) (items : List (OpenItem F))
    (point draws cs : List F) (it : OpenItem F) (hit : it ∈ items) (hl : it.polyLabel ≠ it.comLabel) :
    ∃ e, Hyrax.open ks hh items point draws cs = .error e := by
  cases ho : Hyrax.open ks hh items point draws cs with
  | error e => exact ⟨e, rfl⟩
  | ok πs => exact absurd ((hyrax_open_answer_shape ks hh items point draws cs πs ho).2.2 it hit).1 hl

/-- a polynomial over another number of variables than the point has coordinates: refused -/
theorem hyrax_open_wrong_nv_refused (ks : List F) (hh : F) (items : List (OpenItem F))
    (point draws cs : List F) (it : OpenItem F) (hit : it ∈ items) (hl : it.nv ≠ point.length) :
    ∃ e, Hyrax.open ks hh items point draws cs = .error e := by
  cases ho : Hyrax.open ks hh items point draws cs with
  | error e => exact ⟨e, rfl⟩
  | ok πs => exact absurd ((hyrax_open_answer_shape ks hh items point draws cs πs ho).2.2 it hit).2 hl

/-! ### `check` -/

/-- a point with an odd number of coordinates: `InvalidNumberOfVariables` -/
theorem hyrax_check_odd_refused (ks : List F) (hh : F) (coms : List (List F)) (point vs : List F)
    (πs : List (Proof F)) (cs : List F) (h : point.length % 2 = 1) :
    check ks hh coms point vs πs cs = .error .invalidNumVars := check_odd ks hh coms point vs πs cs h

/-- a missing evaluation or a wrong number of proofs: `IncorrectInputLength` (finding D2: before
the repair the lists were zipped and an empty proof list was accepted) -/
theorem hyrax_check_wrong_counts_refused (ks : List F) (hh : F) (coms : List (List F))
    (point vs : List F) (πs : List (Proof F)) (cs : List F) (hn : point.length % 2 = 0)
    (h : coms.length ≠ πs.length ∨ vs.length ≠ πs.length) :
    check ks hh coms point vs πs cs = .error .incorrectInputLength :=
  check_lengths ks hh coms point vs πs cs hn h

/-- **A positive verification result implies a well-shaped request**: even number of coordinates,
one value and one proof per commitment, every commitment has `2^(n/2)` rows and every `z` has as many
entries as the key. -/
theorem hyrax_accept_shape (ks : List F) (hh : F) (coms : List (List F)) (point vs : List F)
    (πs : List (Proof F)) (cs : List F) (h : check ks hh coms point vs πs cs = .ok true) :
    point.length % 2 = 0 ∧ coms.length = πs.length ∧ vs.length = πs.length ∧
      (∀ c ∈ coms, c.length = 2 ^ (point.length / 2)) ∧ ∀ π ∈ πs, π.z.length = ks.length := by
  obtain ⟨h1, h2, h3, h4, h5⟩ := (check_iff ks hh coms point vs πs cs).1 h
  refine ⟨h1, h2, h3, ?_, ?_⟩
  · intro c hc
    obtain ⟨i, hi, rfl⟩ := List.getElem_of_mem hc
    have hmem : (coms[i], vs[i]'(by omega), πs[i]'(by omega), cs[i]'(by omega)) ∈
        List.zip coms (List.zip vs (List.zip πs cs)) := by
      rw [List.mem_iff_getElem]
      exact ⟨i, by simp; omega, by simp⟩
    obtain ⟨_, _, hl, _⟩ := h5 _ hmem
    exact hl
  · intro π hπ
    obtain ⟨i, hi, rfl⟩ := List.getElem_of_mem hπ
    have hmem : (coms[i]'(by omega), vs[i]'(by omega), πs[i], cs[i]'(by omega)) ∈
        List.zip coms (List.zip vs (List.zip πs cs)) := by
      rw [List.mem_iff_getElem]
      exact ⟨i, by simp; omega, by simp⟩
    obtain ⟨_, _, _, hz, _⟩ := h5 _ hmem
    exact hz.symm

/-! ### in-domain requests never abort -/

/-- **In-domain requests are answered.**  Key of `2^(n/2)` generators, `n` even, polynomials in `n`
variables with `2^n` evaluations, enough draws and challenges: `commit` answers, `open` answers,
`check` answers `Ok(true)`. -/
theorem hyrax_in_domain_answered (ks : List F) (hh : F) (point : List F) (hn : point.length % 2 = 0)
    (hks : ks.length = 2 ^ (point.length / 2)) (polys : List (MLPoly F))
    (ρdraws odraws cs : List F)
    (hp : ∀ p ∈ polys, p.nv = point.length ∧ p.evals.length = 2 ^ p.nv)
    (h1 : polys.length * 2 ^ (point.length / 2) ≤ ρdraws.length)
    (h2 : polys.length * (2 ^ (point.length / 2) + 3) ≤ odraws.length)
    (h3 : polys.length ≤ cs.length) :
    ∃ coms sts rest πs, commit ks hh polys ρdraws = .ok (coms, sts, rest) ∧
      Hyrax.open ks hh (honestItems polys sts) point odraws cs = .ok πs ∧
      check ks hh coms point (polys.map fun p => mleEval p.evals point) πs cs = .ok true := by
  obtain ⟨coms, sts, rest, πs, a, b, c⟩ :=
    honest_loops_total ks hh point hn hks polys ρdraws odraws cs hp h1 h2 h3
  refine ⟨coms, sts, rest, πs, a, ?_, ?_⟩
  · unfold Hyrax.open
    simp only
    rw [if_neg (by omega)]
    exact c
  · obtain ⟨k1, k2, k3, _, _⟩ := loops_complete ks hh point hn polys ρdraws odraws cs coms sts rest
      (honestItems polys sts) πs a (honestItems_st polys sts b) c
    unfold check
    simp only
    rw [if_neg (by omega), if_neg (by simp [k2, k3])]
    exact k1

/-! non-vacuity over `ZMod 101` -/
example : commitOne ([3, 5] : List K) 7 ⟨3, List.replicate 8 1⟩ [1, 2] = .error .invalidNumVars ∧
    commitOne ([3, 5] : List K) 7 ⟨4, List.replicate 16 1⟩ [1, 2, 3, 4] = .error .invalidNumVars ∧
    commitOne ([3, 5, 6, 8] : List K) 7 ⟨2, [1, 2, 3, 4]⟩ [1, 2, 3, 4] = .error .abort ∧
    commitOne ([3, 5] : List K) 7 ⟨2, [1, 2, 3]⟩ [1, 2] = .error .abort := by decide
example : Hyrax.open ([3, 5] : List K) 7 [⟨[1], [2], 2, ⟨[10, 20], ⟨2, 2, [[1, 3], [2, 4]]⟩⟩⟩] [6, 17]
      [1, 2, 3, 4, 5] [11] = .error .mismatchedLabels ∧
    Hyrax.open ([3, 5] : List K) 7 [⟨[1], [1], 4, ⟨[10, 20], ⟨2, 2, [[1, 3], [2, 4]]⟩⟩⟩] [6, 17]
      [1, 2, 3, 4, 5] [11] = .error .invalidNumVars ∧
    Hyrax.open ([3, 5] : List K) 7 [⟨[1], [1], 2, ⟨[10, 20], ⟨2, 2, [[1, 3], [2, 4]]⟩⟩⟩] [6, 17, 3]
      [1, 2, 3, 4, 5] [11] = .error .invalidNumVars := by decide
example : check ([3, 5] : List K) 7 [[88, 65]] [6, 17] [41] [] [11] = .error .incorrectInputLength ∧
    check ([3, 5] : List K) 7 [[88, 65]] [6, 17] [] [⟨29, 49, 92, [79, 1], 67, 16, 1⟩] [11]
      = .error .incorrectInputLength ∧
    check ([3, 5] : List K) 7 [[88, 65, 1]] [6, 17] [41] [⟨29, 49, 92, [79, 1], 67, 16, 1⟩] [11]
      = .error .invalidCommitment ∧
    check ([3, 5] : List K) 7 [[88, 65]] [6, 17] [41] [⟨29, 49, 92, [79, 1], 67, 16, 1⟩] [11]
      = .ok true := by decide
example : ([3, 5] : List K).length = 2 ^ (([6, 17] : List K).length / 2) ∧
    ([6, 17] : List K).length % 2 = 0 := by decide

end PCV.C17
