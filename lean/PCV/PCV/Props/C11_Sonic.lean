/-
  Property C11 — prover/verifier transcripts stay in lock-step; proofs are bound to them, SonicKZG10.
  Sonic's prover and verifier only SQUEEZE challenges (`1 + n` per `open` / `check`, the same per point
  label of a batch, of a combination batch), so the transcript is the list of challenges: lock-step =
  both sides consume the same prefix of the stream and leave the same remainder after every operation
  of a history of `open` / `batch_open` / `open_combinations`.
  Only property theorems live here; lemmas are in PCV/Proofs/SonicHistory.lean.
-/
import PCV.Proofs.SonicLCExamples

set_option linter.unusedSectionVars false
set_option linter.unusedVariables false

namespace PCV.C11
open PCV PCV.Sonic
open PCV.Marlin (Label LPoly Query groupQueries lookupLast lookupEval)
variable {F : Type} [Field F] [DecidableEq F]

/-- **The squeeze schedule of `open`**: whatever it is given, an answered `open` leaves the stream
without its first `1 + n` challenges (`n` polynomials zipped with states). -/
theorem sonic_open_schedule (ck : CK F) (ps : List (LPoly F)) (z : F) (sts : List (List F))
    (ξs : List F) (π : KZG.Proof F) (rest : List F)
    (h : Sonic.open ck ps z sts ξs = .ok (π, rest)) :
    rest = ξs.drop (min ps.length sts.length + 1) :=
  open_rest ck ps z sts ξs π rest h

/-- **The squeeze schedule of `check`**: accepted or rejected, for any (even malformed) statement and
proof, `check` leaves the stream without its first `1 + n` challenges (`n` commitments zipped with
values) — the verifier's consumption never depends on the proof. -/
theorem sonic_check_schedule (vk : VK F) (cs : List (LComm F)) (z : F) (vs : List F)
    (π : KZG.Proof F) (ξs : List F) (b : Bool) (rest : List F)
    (h : check vk cs z vs π ξs = .ok (b, rest)) :
    rest = ξs.drop (min cs.length vs.length + 1) :=
  check_rest vk cs z vs π ξs b rest h

/-- **`open` / `check` in lock-step**: the verifier accepts the honest proof for the true values and
returns the very list of unused challenges the prover returned. -/
theorem sonic_open_check_lockstep (g γ β bi h : F) (hb : β * bi = 1) (D s shb : Nat)
    (bounds : Option (List Nat)) (ck : CK F) (vk : VK F)
    (ht : trim (wfPP g γ β bi h D) s shb bounds = .ok (ck, vk))
    (ps : List (LPoly F)) (rng : Bool) (draws : List F) (cs : List (LComm F)) (rs : List (List F))
    (drest : List F) (hc : commit ck ps rng draws = .ok (cs, rs, drest))
    (z : F) (ξs : List F) (π : KZG.Proof F) (rest : List F)
    (ho : Sonic.open ck ps z rs ξs = .ok (π, rest)) :
    check vk cs z (ps.map fun p => evalPoly p.poly z) π ξs = .ok (true, rest) :=
  open_check_complete g γ β bi h hb D s shb bounds ck vk ht cs ps rs
    (commit_honest g γ β bi h hb D s shb bounds ck vk ht ps rng draws cs rs drest hc) z ξs π rest ho

/-- **`batch_open` / `batch_check` in lock-step**: accepted for every randomizer list, and the
verifier's stream ends where the prover's does. -/
theorem sonic_batch_lockstep (g γ β bi h : F) (hb : β * bi = 1) (D s shb : Nat)
    (bounds : Option (List Nat)) (ck : CK F) (vk : VK F)
    (ht : trim (wfPP g γ β bi h D) s shb bounds = .ok (ck, vk))
    (ps : List (LPoly F)) (rng : Bool) (draws : List F) (cs : List (LComm F)) (rs : List (List F))
    (drest : List F) (hc : commit ck ps rng draws = .ok (cs, rs, drest))
    (qs : List (Query F)) (evals : List ((Label × F) × F))
    (hev : ∀ gr ∈ groupQueries qs, ∀ l ∈ gr.2.2, ∀ x,
      lookupLast (fun (x : LPoly F × List F) => x.1.label) l (ps.zip rs) = some x →
      lookupEval evals l gr.2.1 = some (evalPoly x.1.poly gr.2.1))
    (ξs : List F) (πs : List (KZG.Proof F)) (rest : List F)
    (ho : batchOpen ck ps rs qs ξs = .ok (πs, rest)) (vrs : List F) :
    batchCheckT vk cs qs evals πs ξs vrs = .ok (true, rest) :=
  batch_completeT g γ β bi h hb D s shb bounds ck vk ht ps rng draws cs rs drest hc qs evals hev
    ξs πs rest ho vrs

/-- the stream-returning forms of the batch verifiers make the decisions of the plain forms -/
theorem sonic_threaded_decisions (vk : VK F) (comms : List (LComm F)) (lcs : List (LC.LinComb F))
    (qs : List (Query F)) (evals : List ((Label × F) × F)) (πs : List (KZG.Proof F)) (ξs rs : List F) :
    batchCheck vk comms qs evals πs ξs rs = (batchCheckT vk comms qs evals πs ξs rs).map (·.1) ∧
    checkCombinations vk comms lcs qs evals πs ξs rs
      = (checkCombinationsT vk comms lcs qs evals πs ξs rs).map (·.1) :=
  ⟨batchCheckT_fst vk comms qs evals πs ξs rs, checkCombinationsT_fst vk comms lcs qs evals πs ξs rs⟩

/-- **`open_combinations` / `check_combinations` in lock-step.** -/
theorem sonic_lc_lockstep (g γ β bi h : F) (hb : β * bi = 1) (D s shb : Nat)
    (bounds : Option (List Nat)) (ck : CK F) (vk : VK F)
    (ht : trim (wfPP g γ β bi h D) s shb bounds = .ok (ck, vk))
    (ps : List (LPoly F)) (rng : Bool) (draws : List F) (cs : List (LComm F)) (rs : List (List F))
    (drest : List F) (hc : commit ck ps rng draws = .ok (cs, rs, drest))
    (lcs : List (LC.LinComb F)) (qs : List (Query F)) (evals : List ((Label × F) × F))
    (hev : ∀ gr ∈ groupQueries qs, ∀ l ∈ gr.2.2, ∀ lc,
      lookupLast (fun (lc : LC.LinComb F) => lc.label) l lcs = some lc →
      lookupEval evals l gr.2.1
        = some (lcPolyValue (labelMap ps rs cs) gr.2.1 lc.terms + constSum lcs l))
    (ξs : List F) (πs : List (KZG.Proof F)) (rest : List F)
    (ho : openCombinations ck ps rs cs lcs qs ξs = .ok (πs, rest)) (vrs : List F) :
    checkCombinationsT vk cs lcs qs evals πs ξs vrs = .ok (true, rest) :=
  lc_complete g γ β bi h hb D s shb bounds ck vk ht ps rng draws cs rs drest hc lcs qs evals hev
    ξs πs rest ho vrs

/-- **Lock-step over any history.**  For every sequence of `open` (of honest triples), `batch_open`
and `open_combinations` operations with true claims on one challenge stream: if the prover answers
them all, the verifier — running the corresponding checks in the same order on an identically
initialised stream, with ANY randomizers — accepts every proof and ends with exactly the prover's
remaining stream. -/
theorem sonic_history_lockstep (g γ β bi h : F) (hb : β * bi = 1) (D s shb : Nat)
    (bounds : Option (List Nat)) (ck : CK F) (vk : VK F)
    (ht : trim (wfPP g γ β bi h D) s shb bounds = .ok (ck, vk))
    (ps : List (LPoly F)) (rng : Bool) (draws : List F) (cs : List (LComm F)) (rs : List (List F))
    (drest : List F) (hc : commit ck ps rng draws = .ok (cs, rs, drest))
    (ops : List (Op F)) (htrue : ∀ op ∈ ops, Truthful ck vk g γ β h s shb ps rs cs op)
    (ξs : List F) (πss : List (List (KZG.Proof F))) (rest : List F)
    (hp : proverRun ck ps rs cs ops ξs = .ok (πss, rest)) (vrss : List (List F)) :
    verifierRun vk cs ops πss vrss ξs = .ok (true, rest) :=
  history_lockstep g γ β bi h hb D s shb bounds ck vk ht ps rng draws cs rs drest hc ops htrue
    ξs πss rest hp vrss

/-- **A proof is bound to the challenges it was made under.**  The honest proof for `(ps, z)` made
under the challenges `ξs`, verified — same commitments, same true values — under the challenges
`ξs'` of another sponge state or another position of a history, is accepted iff
`h·(T(ξs') − T(ξs)) = 0`, `T(ξ) = Σⱼ ξⱼ·(g·(pⱼ(β) − pⱼ(z)) + γ·rⱼ(β))`. -/
theorem sonic_displaced_iff (g γ β bi h : F) (hb : β * bi = 1) (D s shb : Nat)
    (bounds : Option (List Nat)) (ck : CK F) (vk : VK F)
    (ht : trim (wfPP g γ β bi h D) s shb bounds = .ok (ck, vk))
    (ps : List (LPoly F)) (rng : Bool) (draws : List F) (cs : List (LComm F)) (rs : List (List F))
    (drest : List F) (hc : commit ck ps rng draws = .ok (cs, rs, drest))
    (z : F) (ξs : List F) (π : KZG.Proof F) (rest : List F)
    (ho : Sonic.open ck ps z rs ξs = .ok (π, rest))
    (ξs' rest' : List F) (hr : restOf cs (ps.map fun p => evalPoly p.poly z) ξs' = some rest') :
    check vk cs z (ps.map fun p => evalPoly p.poly z) π ξs' = .ok (true, rest') ↔
      h * (dispT g γ β z ps rs ξs' - dispT g γ β z ps rs ξs) = 0 :=
  displaced_iff g γ β bi h hb D s shb bounds ck vk ht cs ps rs
    (commit_honest g γ β bi h hb D s shb bounds ck vk ht ps rng draws cs rs drest hc) z ξs π rest ho
    ξs' rest' hr

/-- **One non-hiding polynomial, displaced**: made under `ξ`, verified under `ξ' ≠ ξ`, never accepted
unless the trapdoor is a root of `p(X) − p(z)` — impossible for a constant `p` only, where the claim
is transcript-independent. -/
theorem sonic_displaced_rejected (g γ β bi h : F) (hb : β * bi = 1) (D s shb : Nat)
    (bounds : Option (List Nat)) (ck : CK F) (vk : VK F)
    (ht : trim (wfPP g γ β bi h D) s shb bounds = .ok (ck, vk))
    (c : LComm F) (p : LPoly F) (hh : Honest ck vk g γ β h s shb [c] [p] [[]])
    (z ξ ξ' : F) (ξs ξs' : List F) (π : KZG.Proof F) (rest : List F)
    (ho : Sonic.open ck [p] z [[]] (ξ :: ξs) = .ok (π, rest))
    (hg : g ≠ 0) (hh0 : h ≠ 0) (hξ : ξ' ≠ ξ) (hp : evalPoly p.poly β ≠ evalPoly p.poly z)
    (ξ2 : F) (rest' : List F) :
    check vk [c] z [evalPoly p.poly z] π (ξ' :: ξ2 :: ξs') ≠ .ok (true, rest') :=
  displaced_single_rejected g γ β bi h hb D s shb bounds ck vk ht c p hh z ξ ξ' ξs ξs' π rest ho
    hg hh0 hξ hp ξ2 rest'

/-! ### non-vacuity (K = ZMod 101) -/

/-- a three-operation history (combination opening, plain opening, batch opening) on one stream: the
prover consumes 9 + 3 + 5 challenges … -/
example : proverRun Ex.ck Ex.polys Ex.rands Ex.comms ExLC.ops ExLC.stream
    = .ok (ExLC.histProofs, [79, 83]) := ExLC.prover_eq
/-- … and the verifier, replaying, accepts everything and is left with the same two -/
example : verifierRun Ex.vk Ex.comms ExLC.ops ExLC.histProofs [[7, 8], [], [9]] ExLC.stream
    = .ok (true, [79, 83]) := ExLC.verifier_eq
/-- every operation of that history is truthful (the hypothesis `htrue` of `sonic_history_lockstep`):
the plain opening is over honest triples, the claimed evaluations / combination values are the true ones -/
example : ∀ op ∈ ExLC.ops, Truthful Ex.ck Ex.vk (3 : K) 5 2 7 3 1 Ex.polys Ex.rands Ex.comms op := by
  have hh := commit_honest (3 : K) 5 2 51 7 Ex.inv 4 3 1 _ Ex.ck Ex.vk Ex.trim_eq Ex.polys true _ Ex.comms
    Ex.rands _ Ex.commit_eq
  intro op hop
  simp only [ExLC.ops, List.mem_cons, List.not_mem_nil, or_false] at hop
  rcases hop with rfl | rfl | rfl
  · -- the combination opening
    have key : ∀ gr ∈ groupQueries ExLC.qs, ∀ l ∈ gr.2.2,
        (lookupLast (fun (lc : LC.LinComb K) => lc.label) l ExLC.lcs).all (fun lc =>
          decide (lookupEval ExLC.evals l gr.2.1
            = some (lcPolyValue (labelMap Ex.polys Ex.rands Ex.comms) gr.2.1 lc.terms + constSum ExLC.lcs l)))
          = true := by decide
    intro gr hgr l hl lc hlc
    have := key gr hgr l hl
    rw [hlc] at this
    simpa using this
  · -- the plain opening of the first two committed polynomials
    exact ⟨hh.1, hh.2.1, trivial⟩
  · -- the batch opening
    have key : ∀ gr ∈ groupQueries ExLC.bqs, ∀ l ∈ gr.2.2,
        (lookupLast (fun (x : LPoly K × List K) => x.1.label) l (Ex.polys.zip Ex.rands)).all (fun x =>
          decide (lookupEval ExLC.bevals l gr.2.1 = some (evalPoly x.1.poly gr.2.1))) = true := by decide
    intro gr hgr l hl x hx
    have := key gr hgr l hl
    rw [hx] at this
    simpa using this
/-- the proof of the second operation verified first (other challenges) is rejected; the verifier
still squeezes its `1 + 2` challenges -/
example : verifyOp Ex.vk Ex.comms (.single (ExLC.trips.take 2) 6) [⟨2, some 37⟩] [] ExLC.stream
    = .ok (false, ExLC.stream.drop 3) := by decide
/-- the single-operation schedule on the transcript of C01's example: 1 + 3 challenges -/
example : Sonic.open Ex.ck Ex.polys 5 Ex.rands Ex.xis = .ok (Ex.proof, Ex.xis.drop 4) ∧
    check Ex.vk Ex.comms 5 Ex.vals Ex.proof Ex.xis = .ok (true, Ex.xis.drop 4) := by decide

/-- the hypotheses of `sonic_displaced_rejected` on a concrete instance: the unbounded non-hiding
`p1 = 4 + X²` of the example, its commitment `24`, a proof made under `ξ = 11`; verified under
`ξ' = 13` it is rejected -/
example : Honest Ex.ck Ex.vk (3 : K) 5 2 7 3 1 [⟨[112, 49], 24, none⟩]
    [⟨[112, 49], [4, 0, 1], none, none⟩] [[]] :=
  ⟨⟨rfl, ⟨7, by decide, by decide⟩, by decide, by decide, by decide⟩, trivial⟩
example : Sonic.open Ex.ck [⟨[112, 49], [4, 0, 1], none, none⟩] 5 [[]] [11, 13] = .ok (⟨29, none⟩, []) ∧
    (3 : K) ≠ 0 ∧ (7 : K) ≠ 0 ∧ (13 : K) ≠ 11 ∧ evalPoly ([4, 0, 1] : List K) 2 ≠ evalPoly [4, 0, 1] 5 ∧
    check Ex.vk [⟨[112, 49], 24, none⟩] 5 [evalPoly [4, 0, 1] 5] ⟨29, none⟩ [13, 17, 19]
      = .ok (false, [19]) ∧
    check Ex.vk [⟨[112, 49], 24, none⟩] 5 [evalPoly [4, 0, 1] 5] ⟨29, none⟩ [11, 17, 19]
      = .ok (true, [19]) := by decide

end PCV.C11
