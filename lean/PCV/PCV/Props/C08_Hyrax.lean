/-
  Property C08 (commitments are the key-defined linear map) — Hyrax: every row commitment is the
  Pedersen commitment `⟨M_r, com_key⟩ + ρ_r·h` of row `r` of the column-major coefficient matrix,
  for an arbitrary key; the map is additive.
-/
import PCV.Proofs.Hyrax
import PCV.Props.Examples

namespace PCV.C08
open PCV
variable {F : Type} [Field F]

/-- **Hyrax, row commitments.** If `commit` returns `(T, st)` for a polynomial in `nv` variables
(`dim = 2^(nv/2)`) with blinding draws `ρs`, then `T` has `dim` entries and
`T[r] = ⟨(evals[col·dim + r])_{col < dim}, com_key⟩ + ρs[r]·h` for every row `r`; the state holds
exactly the first `dim` draws and the matrix of `flat_to_matrix_column_major`. -/
theorem hyrax_row_commitment (ks : List F) (hh : F) (p : Hyrax.MLPoly F) (ρs T : List F)
    (st : Hyrax.State F) (hc : Hyrax.commitOne ks hh p ρs = .ok (T, st)) :
    T.length = 2 ^ (p.nv / 2) ∧ st.randomness = ρs.take (2 ^ (p.nv / 2)) ∧
    Hyrax.flatToMatrixColumnMajor p.evals (2 ^ (p.nv / 2)) (2 ^ (p.nv / 2)) = .ok st.mat.entries ∧
    ∀ r, r < 2 ^ (p.nv / 2) →
      getD' T r 0 = dot ks ((List.range (2 ^ (p.nv / 2))).map fun col =>
          getD' p.evals (col * 2 ^ (p.nv / 2) + r) 0) + hh * getD' ρs r 0 := by
  obtain ⟨_, _, hlen, hρ, rfl, rfl⟩ := Hyrax.commitOne_inv ks hh p ρs T st hc
  have hl : (ρs.take (2 ^ (p.nv / 2))).length = 2 ^ (p.nv / 2) := by rw [List.length_take]; omega
  refine ⟨by rw [Hyrax.rowCommits_length, Hyrax.rowsOf_length, hl, Nat.min_self], rfl,
    Hyrax.flatToMatrix_ok _ _ _ hlen, ?_⟩
  intro r hr
  rw [Hyrax.getD'_rowCommits ks hh p.evals _ _ r hr (by omega)]
  congr 2
  simp [getD', hr]

/-- **Pedersen commitments are linear** (arbitrary key): additivity and homogeneity of
`⟨·, com_key⟩ + ·h`. -/
theorem hyrax_pedersen_linear (ks : List F) (hh : F) (a b : List F) (ρ σ s : F)
    (h : a.length = b.length) :
    dot ks (Hyrax.vectorSum a b) + hh * (ρ + σ) = (dot ks a + hh * ρ) + (dot ks b + hh * σ) ∧
    dot ks (Hyrax.scalarByVector s a) + hh * (ρ * s) = (dot ks a + hh * ρ) * s := by
  constructor
  · unfold Hyrax.vectorSum
    rw [Hyrax.dot_zipWith_add _ _ _ h]; ring
  · unfold Hyrax.scalarByVector
    rw [Hyrax.dot_map_mul_right]; ring

/-- **Hyrax commitments are additive.** If `p` and `q` (same number of variables) commit to `T₁`
with blindings `ρ` and to `T₂` with blindings `σ`, then `p + q` with blindings `ρ + σ` commits to
`T₁ + T₂` (row by row). -/
theorem hyrax_commit_additive (ks : List F) (hh : F) (n : Nat) (e₁ e₂ ρ σ T₁ T₂ : List F)
    (st₁ st₂ : Hyrax.State F)
    (h₁ : Hyrax.commitOne ks hh ⟨n, e₁⟩ ρ = .ok (T₁, st₁))
    (h₂ : Hyrax.commitOne ks hh ⟨n, e₂⟩ σ = .ok (T₂, st₂)) :
    ∃ st, Hyrax.commitOne ks hh ⟨n, Hyrax.vectorSum e₁ e₂⟩ (Hyrax.vectorSum ρ σ)
        = .ok (Hyrax.vectorSum T₁ T₂, st) ∧
      st.randomness = Hyrax.vectorSum st₁.randomness st₂.randomness := by
  obtain ⟨hn, hks, hl1, hρ, rfl, rfl⟩ := Hyrax.commitOne_inv ks hh _ ρ T₁ st₁ h₁
  obtain ⟨_, _, hl2, hσ, rfl, rfl⟩ := Hyrax.commitOne_inv ks hh _ σ T₂ st₂ h₂
  simp only at hn hks hl1 hl2 hρ hσ ⊢
  have hpow : 2 ^ (n / 2) * 2 ^ (n / 2) = 2 ^ n := by rw [← pow_add]; congr 1; omega
  have hlen : (Hyrax.vectorSum e₁ e₂).length = 2 ^ n := by
    simp [Hyrax.vectorSum, hl1, hl2, hpow]
  have hdr : 2 ^ (n / 2) ≤ (Hyrax.vectorSum ρ σ).length := by
    simp only [Hyrax.vectorSum, List.length_zipWith]; omega
  have hc := Hyrax.commitOne_ok ks hh ⟨n, Hyrax.vectorSum e₁ e₂⟩ (Hyrax.vectorSum ρ σ) hn hks hlen hdr
  simp only at hc
  have htake : (Hyrax.vectorSum ρ σ).take (2 ^ (n / 2))
      = Hyrax.vectorSum (ρ.take (2 ^ (n / 2))) (σ.take (2 ^ (n / 2))) := by
    simp [Hyrax.vectorSum, List.take_zipWith]
  refine ⟨⟨(Hyrax.vectorSum ρ σ).take (2 ^ (n / 2)), ⟨2 ^ (n / 2), 2 ^ (n / 2),
    Hyrax.rowsOf (Hyrax.vectorSum e₁ e₂) (2 ^ (n / 2)) (2 ^ (n / 2))⟩⟩, ?_, htake⟩
  rw [hc, ← Hyrax.rowCommits_add ks hh e₁ e₂ _ _ _ (by rw [hl1, hl2])
    (by rw [List.length_take]; omega) (by rw [List.length_take]; omega), ← htake]

/-! non-vacuity over `ZMod 101` -/
example : Hyrax.commitOne ([3, 5] : List K) 7 ⟨2, [1, 2, 3, 4]⟩ [10, 20]
    = .ok ([88, 65], ⟨[10, 20], ⟨2, 2, [[1, 3], [2, 4]]⟩⟩) ∧
    Hyrax.commitOne ([3, 5] : List K) 7 ⟨2, [0, 0, 9, 0]⟩ [2, 4]
    = .ok ([59, 28], ⟨[2, 4], ⟨2, 2, [[0, 9], [0, 0]]⟩⟩) ∧
    Hyrax.commitOne ([3, 5] : List K) 7 ⟨2, [1, 2, 12, 4]⟩ [12, 24]
    = .ok ([88 + 59, 65 + 28], ⟨[12, 24], ⟨2, 2, [[1, 12], [2, 4]]⟩⟩) := by decide
/-- refusals: odd number of variables, key shorter than `dim`, key longer than `dim` (the
`pedersen_commit` length assertion) -/
example : Hyrax.commitOne ([3, 5] : List K) 7 ⟨1, [1, 2]⟩ [10, 20] = .error .invalidNumVars ∧
    Hyrax.commitOne ([3] : List K) 7 ⟨2, [1, 2, 3, 4]⟩ [10, 20] = .error .invalidNumVars ∧
    Hyrax.commitOne ([3, 5, 8, 9] : List K) 7 ⟨2, [1, 2, 3, 4]⟩ [10, 20] = .error .abort := by decide

end PCV.C08
