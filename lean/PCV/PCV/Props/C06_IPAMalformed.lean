/-
  Property C06 — linear-combination openings prove exactly the stated combinations,
  inner-product-argument scheme, malformed commitments (D26).

  `InnerProductArgPC::open_combinations` / `check_combinations` collect the combined commitments in
  ONE flat vector (one element per combination, two for a single degree-bounded term) that
  `construct_labeled_commitments` reads back by position, one element per unbounded combination.
  A commitment WITHOUT degree bound that carried a stray `shifted_comm = Some(_)` made the term loop
  push a second element: every later combination was paired with the wrong element and
  `check_combinations` accepted a false value for an honestly committed polynomial.  Both term loops
  now refuse a term whose commitment has a shifted part without a degree bound (or a degree bound
  without a shifted part) with `InvalidCommitment`, right after the label lookup
  (`MissingPolynomial`) and before the degree-bound policy.
  Model PCV/Model/IPALC.lean (`lcStepP`, `lcStepV`), lemmas PCV/Proofs/IPALC.lean.
-/
import PCV.Proofs.IPALC
import PCV.Props.Examples

set_option linter.unusedSectionVars false

namespace PCV.C06
open PCV
variable {F : Type} [Field F] [DecidableEq F]

/-- **IPA, one term naming a malformed commitment** is refused with `InvalidCommitment` by the
prover's and by the verifier's term loop, whatever the number of terms of the combination and the
coefficient are — the test comes before the degree-bound policy (which would have answered with the
coefficient assertion or `EquationHasDegreeBounds`), and after the label lookup
(`ipa_lc_bound_policy`: an unknown label is `MissingPolynomial`).  The prover compares the
polynomial's degree bound with the shifted part of the commitment found under the same label, the
verifier the commitment's own bound. -/
theorem ipa_lc_malformed_term_refused (trips : List (IPA.Trip F)) (comms : List (IPA.LComm F))
    (k : Nat) (coeff : F) (l : IPA.Label) :
    (∀ (acc : IPA.LCAcc F) x,
      Marlin.lookupLast (fun (t : IPA.Trip F) => t.1.label) l trips = some x →
      x.1.bound.isSome ≠ x.2.2.comm.shifted.isSome →
      IPA.lcStepP trips k acc (coeff, .poly l) = .error .invalidCommitment) ∧
    (∀ (st : IPA.LCAccV F × List ((IPA.Label × F) × F)) c,
      Marlin.lookupLast (fun (c : IPA.LComm F) => c.label) l comms = some c →
      c.bound.isSome ≠ c.comm.shifted.isSome →
      IPA.lcStepV comms k st (coeff, .poly l) = .error .invalidCommitment) :=
  ⟨fun acc x hl hbad => IPA.lcStepP_malformed trips k acc coeff l x hl hbad,
   fun st c hl hbad => IPA.lcStepV_malformed comms k st coeff l c hl hbad⟩

/-- **IPA, `check_combinations` refuses a malformed commitment.** The combinations `pre` pass the
combination loop, the terms `t1` of the next combination pass, and the next term names a commitment
`cm` whose shifted part does not go with its degree bound (`shifted_comm = Some(_)` without bound, or
a bound without `shifted_comm`): the call ends in `Err(InvalidCommitment)` — whatever follows in this
combination and in the combinations `post`, whatever values are claimed and whatever proofs, oracle
outputs and randomizers are presented. -/
theorem ipa_lc_check_malformed_commitment_refused (vk : IPA.VK F) (comms : List (IPA.LComm F))
    (pre post : List (LC.LinComb F)) (l : IPA.Label) (t1 t2 : List (F × LC.LCTerm))
    (coeff : F) (m : IPA.Label) (cm : IPA.LComm F)
    (hm : Marlin.lookupLast (fun (c : IPA.LComm F) => c.label) m comms = some cm)
    (hbad : cm.bound.isSome ≠ cm.comm.shifted.isSome)
    (qs : List (IPA.Query F)) (evals : List ((IPA.Label × F) × F)) (πs : List (IPA.Proof F))
    (ξs ros rs : List F) (as : List (IPA.LCAccV F)) (evals' : List ((IPA.Label × F) × F))
    (hpre : IPA.combineAllV comms pre evals = .ok (as, evals'))
    (st : IPA.LCAccV F × List ((IPA.Label × F) × F))
    (ht1 : IPA.lcLoopV comms (t1 ++ (coeff, .poly m) :: t2).length (IPA.LCAccV.init l, evals') t1 = .ok st) :
    IPA.checkCombinations vk (pre ++ ⟨l, t1 ++ (coeff, .poly m) :: t2⟩ :: post) comms qs evals πs ξs ros rs
      = .error .invalidCommitment :=
  IPA.checkCombinations_malformed vk comms pre post l t1 t2 coeff m cm hm hbad qs evals πs ξs ros rs
    as evals' hpre st ht1

/-- **IPA, `open_combinations` refuses a malformed commitment.** The combinations `pre` pass, the
terms `t1` of the next combination pass, and the next term names an entry of `label_poly_map` whose
commitment has a shifted part although the polynomial has no degree bound (or the reverse): the call
ends in `Err(InvalidCommitment)`, whatever the query set, the oracles and the RNG are. -/
theorem ipa_lc_open_malformed_commitment_refused (ck : IPA.CK F) (polys : List (IPA.LPoly F))
    (comms : List (IPA.LComm F)) (sts : List (IPA.Rand F)) (pre post : List (LC.LinComb F))
    (l : IPA.Label) (t1 t2 : List (F × LC.LCTerm)) (coeff : F) (m : IPA.Label) (x : IPA.Trip F)
    (hm : Marlin.lookupLast (fun (t : IPA.Trip F) => t.1.label) m (polys.zip (sts.zip comms)) = some x)
    (hbad : x.1.bound.isSome ≠ x.2.2.comm.shifted.isSome)
    (as : List (IPA.LCAcc F)) (hpre : IPA.combineAllP (polys.zip (sts.zip comms)) pre = .ok as)
    (a : IPA.LCAcc F)
    (ht1 : IPA.lcLoopP (polys.zip (sts.zip comms)) (t1 ++ (coeff, .poly m) :: t2).length
      (IPA.LCAcc.init l) t1 = .ok a)
    (qs : List (IPA.Query F)) (ξs ros : List F) (rng : Bool) (draws : List F) :
    IPA.openCombinations ck (pre ++ ⟨l, t1 ++ (coeff, .poly m) :: t2⟩ :: post) polys comms sts qs ξs ros
      rng draws = .error .invalidCommitment :=
  IPA.openCombinations_malformed ck polys comms sts pre post l t1 t2 coeff m x hm hbad as hpre a ht1
    qs ξs ros rng draws

/-- **IPA, no decision over a malformed commitment.** If ANY term of ANY combination names a
commitment whose shifted part does not go with its degree bound, `check_combinations` ends in an
error (the first refusal met in the code's order) — it neither accepts nor rejects, for all claimed
values, proofs, oracle outputs and randomizers.  No side condition on the other terms. -/
theorem ipa_lc_check_malformed_commitment_never_decided (vk : IPA.VK F) (lcs : List (LC.LinComb F))
    (comms : List (IPA.LComm F)) (qs : List (IPA.Query F)) (evals : List ((IPA.Label × F) × F))
    (πs : List (IPA.Proof F)) (ξs ros rs : List F)
    (hex : ∃ lc ∈ lcs, ∃ t ∈ lc.terms, IPA.MalformedTermV comms t) :
    ∃ e, IPA.checkCombinations vk lcs comms qs evals πs ξs ros rs = .error e :=
  IPA.checkCombinations_malformed_err vk lcs comms qs evals πs ξs ros rs hex

/-- **IPA, no proof over a malformed commitment**: the prover's counterpart -/
theorem ipa_lc_open_malformed_commitment_never_answered (ck : IPA.CK F) (lcs : List (LC.LinComb F))
    (polys : List (IPA.LPoly F)) (comms : List (IPA.LComm F)) (sts : List (IPA.Rand F))
    (qs : List (IPA.Query F)) (ξs ros : List F) (rng : Bool) (draws : List F)
    (hex : ∃ lc ∈ lcs, ∃ t ∈ lc.terms, IPA.MalformedTermP (polys.zip (sts.zip comms)) t) :
    ∃ e, IPA.openCombinations ck lcs polys comms sts qs ξs ros rng draws = .error e :=
  IPA.openCombinations_malformed_err ck lcs polys comms sts qs ξs ros rng draws hex

/-- **what the refusal prevents.** Without it the per-combination variables `⟨l1, None, c1, Some(s)⟩`
(an unbounded single term whose commitment carries the stray element `s`) and `⟨l2, None, c2, None⟩`
give the flat vector `[c1, s, c2]`; `construct_labeled_commitments` reads one element per unbounded
combination and pairs `l2` with `s` — an element chosen by whoever supplied the commitment — instead
of `c2`. -/
theorem ipa_lc_stray_shifted_would_misalign (l1 l2 : IPA.Label) (c1 s c2 : F) :
    IPA.constructLabeledCommitments
        (IPA.lcInfoV [(⟨l1, none, c1, some s⟩ : IPA.LCAccV F), ⟨l2, none, c2, none⟩])
        (IPA.lcFlatV [(⟨l1, none, c1, some s⟩ : IPA.LCAccV F), ⟨l2, none, c2, none⟩])
      = .ok [⟨l1, ⟨c1, none⟩, none⟩, ⟨l2, ⟨s, none⟩, none⟩] :=
  IPA.construct_misaligned l1 l2 c1 s c2

/-! non-vacuity over `ZMod 101`: the 4-element key of `C06_IPA`, two unbounded non-hiding polynomials
`p₁ = 1 + 2X + 3X²` (commitment 34) and `p₂ = 4 + 9X³` (commitment 10), the combinations
`lc₁ = 1·p₁` and `lc₂ = 1·p₂`, both queried at 6.  `bad`: `p₁`'s commitment has no degree bound but
carries `shifted = some 22`.  Prover and verifier refuse with `InvalidCommitment`; over the honest
commitments the verifier combines to `[34, 10]`; the accumulation WITHOUT the test would have handed
`batch_check` the commitment `22` under `lc₂`'s label.  `bad'`: a bound without shifted part (before
D26 the index walk of `construct_labeled_commitments` panicked on it). -/
namespace ExIPAMalformed
def ck : IPA.CK K := ⟨[3, 5, 7, 11], 13, 17, 7⟩
def polys : List (IPA.LPoly K) := [⟨[1], [1, 2, 3], none, none⟩, ⟨[2], [4, 0, 0, 9], none, none⟩]
def sts : List (IPA.Rand K) := [⟨0, none⟩, ⟨0, none⟩]
def good : List (IPA.LComm K) := [⟨[1], ⟨34, none⟩, none⟩, ⟨[2], ⟨10, none⟩, none⟩]
def bad : List (IPA.LComm K) := [⟨[1], ⟨34, some 22⟩, none⟩, ⟨[2], ⟨10, none⟩, none⟩]
def bad' : List (IPA.LComm K) := [⟨[1], ⟨34, none⟩, some 2⟩, ⟨[2], ⟨10, none⟩, none⟩]
def lcs : List (LC.LinComb K) := [⟨[65], [(1, .poly [1])]⟩, ⟨[66], [(1, .poly [2])]⟩]
def qs : List (IPA.Query K) := [([65], ([9], 6)), ([66], ([9], 6))]
def evals : List ((IPA.Label × K) × K) := [(([65], 6), 20), (([66], 6), 29)]
def ξs : List K := [2, 3, 4, 5, 6, 7, 8, 9, 10, 11]
def ros : List K := [7, 8, 9, 10, 11, 12, 13, 14, 15, 16]
end ExIPAMalformed

open ExIPAMalformed in
example : IPA.commit ck polys false [] = .ok (good, sts, []) := by decide
open ExIPAMalformed in
example : IPA.verifierComms good lcs = .ok [⟨[65], ⟨34, none⟩, none⟩, ⟨[66], ⟨10, none⟩, none⟩] := by decide
open ExIPAMalformed in
example : IPA.checkCombinations ck lcs bad qs evals [] ξs ros [5] = .error .invalidCommitment := by decide
open ExIPAMalformed in
example : IPA.openCombinations ck lcs polys bad sts qs ξs ros false [] = .error .invalidCommitment := by
  decide
open ExIPAMalformed in
example : IPA.checkCombinations ck lcs bad' qs evals [] ξs ros [5] = .error .invalidCommitment := by decide
/-- the hypotheses of `ipa_lc_check_malformed_commitment_refused` on `bad` (`pre = []`, `t1 = []`) -/
example : Marlin.lookupLast (fun (c : IPA.LComm K) => c.label) [1] ExIPAMalformed.bad
      = some ⟨[1], ⟨34, some 22⟩, none⟩ ∧
    (⟨[1], ⟨34, some 22⟩, none⟩ : IPA.LComm K).bound.isSome
      ≠ (⟨[1], ⟨34, some 22⟩, none⟩ : IPA.LComm K).comm.shifted.isSome ∧
    IPA.combineAllV ExIPAMalformed.bad [] ExIPAMalformed.evals = .ok ([], ExIPAMalformed.evals) ∧
    IPA.lcLoopV ExIPAMalformed.bad 1 (IPA.LCAccV.init [65], ExIPAMalformed.evals) []
      = .ok (IPA.LCAccV.init [65], ExIPAMalformed.evals) := ⟨by decide, by decide, rfl, rfl⟩
/-- … and of `ipa_lc_open_malformed_commitment_refused` -/
example : Marlin.lookupLast (fun (t : IPA.Trip K) => t.1.label) [1]
        (ExIPAMalformed.polys.zip (ExIPAMalformed.sts.zip ExIPAMalformed.bad))
      = some (⟨[1], [1, 2, 3], none, none⟩, ⟨0, none⟩, ⟨[1], ⟨34, some 22⟩, none⟩) ∧
    IPA.combineAllP (ExIPAMalformed.polys.zip (ExIPAMalformed.sts.zip ExIPAMalformed.bad)) [] = .ok [] := by
  decide
/-- … and of the two `never` statements: the malformed commitment is named by the SECOND combination -/
example : ∃ lc ∈ [(⟨[66], [(1, .poly [2])]⟩ : LC.LinComb K), ⟨[65], [(1, .poly [1])]⟩],
    ∃ t ∈ lc.terms, IPA.MalformedTermV ExIPAMalformed.bad t :=
  ⟨⟨[65], [(1, .poly [1])]⟩, by simp, (1, .poly [1]), by simp, [1], ⟨[1], ⟨34, some 22⟩, none⟩, rfl,
    by decide, by decide⟩
open ExIPAMalformed in
example : IPA.checkCombinations ck [⟨[66], [(1, .poly [2])]⟩, ⟨[65], [(1, .poly [1])]⟩] bad qs evals [] ξs ros [5]
    = .error .invalidCommitment := by decide
/-- the accumulation of the two term loops without the test: `lc₂` is paired with the stray `22` -/
example : IPA.constructLabeledCommitments
      (IPA.lcInfoV [(IPA.LCAccV.init [65] : IPA.LCAccV K).addTerm 1 ⟨[1], ⟨34, some 22⟩, none⟩,
        (IPA.LCAccV.init [66]).addTerm 1 ⟨[2], ⟨10, none⟩, none⟩])
      (IPA.lcFlatV [(IPA.LCAccV.init [65] : IPA.LCAccV K).addTerm 1 ⟨[1], ⟨34, some 22⟩, none⟩,
        (IPA.LCAccV.init [66]).addTerm 1 ⟨[2], ⟨10, none⟩, none⟩])
    = .ok [⟨[65], ⟨34, none⟩, none⟩, ⟨[66], ⟨22, none⟩, none⟩] := by decide

end PCV.C06
