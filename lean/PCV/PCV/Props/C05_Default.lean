/-
  Property C05 (batched verification = conjunction of the per-point verifications) — the trait-default
  `PolynomialCommitment::batch_check` of `poly-commit/src/lib.rs`, used unchanged by Hyrax and the
  linear-code schemes.  Model: `PCV.Model.TraitDefault`, generic in the scheme's own `check`
  (`checkF`, any state `σ` threaded through the calls).
  Only property theorems live here; lemmas are in PCV/Proofs/TraitDefault*.lean.
-/
import PCV.Proofs.TraitDefaultBatch
import PCV.Proofs.TraitDefaultToy
set_option linter.unusedSectionVars false

namespace PCV.C05
open PCV TraitDefault
variable {Pt : Type} [DecidableEq Pt] {C V PF σ : Type}

/-- **The default batch verifier, exactly.** `batch_check` answers `r` and leaves the state `s'` iff the
number of proofs equals the number of point labels and there is a run of the scheme's `check` over the
point-label groups — in map order, each group with the commitments and claimed values found for its
labels, each call starting in the state the previous one left — in which no call refuses; `r` is the
conjunction of the verdicts `bs` of that run. -/
theorem default_batch_check_iff (ltP : Pt → Pt → Bool) (lblC : C → Label)
    (checkF : List C → Pt → List V → PF → σ → Except Err (Bool × σ))
    (comms : List C) (qs : List (Query Pt)) (evals : List ((Label × Pt) × V)) (πs : List PF)
    (s : σ) (r : Bool) (s' : σ) :
    batchCheck ltP lblC checkF comms qs evals πs s = .ok (r, s') ↔
      πs.length = (groups (querySet ltP qs)).length ∧
      ∃ bs, Chain lblC checkF comms evals (groups (querySet ltP qs)) πs bs s s' ∧ r = bs.all id :=
  batchCheckSet_ok_iff lblC checkF comms (querySet ltP qs) evals πs s r s'

/-- **Accepts iff every per-group check accepts** (and the proof count is right). -/
theorem default_batch_accepts_iff (ltP : Pt → Pt → Bool) (lblC : C → Label)
    (checkF : List C → Pt → List V → PF → σ → Except Err (Bool × σ))
    (comms : List C) (qs : List (Query Pt)) (evals : List ((Label × Pt) × V)) (πs : List PF)
    (s s' : σ) :
    batchCheck ltP lblC checkF comms qs evals πs s = .ok (true, s') ↔
      πs.length = (groups (querySet ltP qs)).length ∧
      ∃ bs, Chain lblC checkF comms evals (groups (querySet ltP qs)) πs bs s s' ∧
        ∀ b ∈ bs, b = true := by
  rw [default_batch_check_iff]
  constructor
  · rintro ⟨hl, bs, hc, hr⟩; exact ⟨hl, bs, hc, (chain_all_true bs).1 hr.symm⟩
  · rintro ⟨hl, bs, hc, hr⟩; exact ⟨hl, bs, hc, ((chain_all_true bs).2 hr).symm⟩

/-- **Answers `false` iff no per-group check refuses and at least one answers `false`** — wherever it
sits: the loop goes on after a `false` (so the state is the one after ALL groups). -/
theorem default_batch_rejects_iff (ltP : Pt → Pt → Bool) (lblC : C → Label)
    (checkF : List C → Pt → List V → PF → σ → Except Err (Bool × σ))
    (comms : List C) (qs : List (Query Pt)) (evals : List ((Label × Pt) × V)) (πs : List PF)
    (s s' : σ) :
    batchCheck ltP lblC checkF comms qs evals πs s = .ok (false, s') ↔
      πs.length = (groups (querySet ltP qs)).length ∧
      ∃ bs, Chain lblC checkF comms evals (groups (querySet ltP qs)) πs bs s s' ∧ false ∈ bs := by
  rw [default_batch_check_iff]
  constructor
  · rintro ⟨hl, bs, hc, hr⟩; exact ⟨hl, bs, hc, (chain_false_mem bs).1 hr.symm⟩
  · rintro ⟨hl, bs, hc, hr⟩; exact ⟨hl, bs, hc, ((chain_false_mem bs).2 hr).symm⟩

/-- **Missing or surplus proofs**: any proof list whose length is not the number of point labels is
refused (the `assert_eq!`), whatever the scheme's `check` would say. -/
theorem default_batch_wrong_proof_count (ltP : Pt → Pt → Bool) (lblC : C → Label)
    (checkF : List C → Pt → List V → PF → σ → Except Err (Bool × σ))
    (comms : List C) (qs : List (Query Pt)) (evals : List ((Label × Pt) × V)) (πs : List PF) (s : σ)
    (hl : πs.length ≠ (groups (querySet ltP qs)).length) :
    batchCheck ltP lblC checkF comms qs evals πs s = .error .abort :=
  batchCheckSet_wrong_count lblC checkF comms (querySet ltP qs) evals πs s hl

/-- **Refusals, exactly**: with the right number of proofs the batch refuses with `e` iff, going through
the groups in map order, the first thing that is not an answer is `e` — an absent commitment
(`MissingPolynomial`), an absent claimed value (`MissingEvaluation`) or a refusal of the scheme's `check`. -/
theorem default_batch_refuses_iff (ltP : Pt → Pt → Bool) (lblC : C → Label)
    (checkF : List C → Pt → List V → PF → σ → Except Err (Bool × σ))
    (comms : List C) (qs : List (Query Pt)) (evals : List ((Label × Pt) × V)) (πs : List PF) (s : σ)
    (e : Err) (hl : πs.length = (groups (querySet ltP qs)).length) :
    batchCheck ltP lblC checkF comms qs evals πs s = .error e ↔
      Refuses lblC checkF comms evals (groups (querySet ltP qs)) πs s e := by
  unfold batchCheck batchCheckSet
  rw [if_neg (by simpa using hl)]
  exact loop_error_iff lblC checkF comms evals _ πs true s e

/-! non-vacuity over `ZMod 101` (`PCV.TraitDefault.Toy`): three point labels, two of them sharing the
point value 4; all-true claims are accepted, one wrong value makes the batch answer `false` (with the
state after all three groups), a short proof list is refused -/
example : batchCheck Toy.ltK Toy.lbl Toy.checkF Toy.polys Toy.qs Toy.evals [0, 1, 2] 0 = .ok (true, 3) := by
  decide
example : groups (querySet Toy.ltK Toy.qs) =
    [([120], 4, [[97], [98]]), ([121], 4, [[97], [99]]), ([122], 7, [[98]])] := by decide
example : batchCheck Toy.ltK Toy.lbl Toy.checkF Toy.polys Toy.qs
    [(([97], 4), 9), (([98], 4), 12), (([99], 4), 20), (([98], 7), 21)] [0, 1, 2] 0 = .ok (false, 3) := by
  decide
example : batchCheck Toy.ltK Toy.lbl Toy.checkF Toy.polys Toy.qs Toy.evals [0, 1] 0 = .error .abort := by
  decide
example : batchCheck Toy.ltK Toy.lbl Toy.checkF Toy.polys Toy.qs
    [(([97], 4), 8), (([98], 4), 12), (([98], 7), 21)] [0, 1, 2] 0 = .error .missingEvaluation := by
  decide

end PCV.C05
