/-
  Property C06 — linear-combination openings prove exactly the stated combinations
  (the `Marlin::open_combinations` / `check_combinations` construction used by MarlinKZG10 and
  MarlinPST13; the value-level laws of `LinearCombination` are in C16).
-/
import PCV.Proofs.MarlinLC
import PCV.Props.C01_Marlin
set_option linter.unusedSectionVars false

namespace PCV.C06
open PCV Marlin
variable {F : Type} [Field F] [DecidableEq F]

/-- **A combination of honest commitments is an honest commitment** of the combined polynomial
(arbitrary coefficients — zero, negative, repeated labels — and constants, which the prover
skips), so the completeness theorem `C01.marlin_complete`/`C04.marlin_bounded_complete` applies to
combination openings verbatim; and the combined polynomial evaluates to the combination of the
evaluations. -/
theorem marlin_lc_honest {g γ β : F} {D : Nat} (trips : List (Trip' F))
    (hh : ∀ t ∈ trips, Honest g γ β D t ∧ t.1.bound = none) (lc : LC.LinComb F)
    (res : Trip' F) (hc : combineLC trips lc = .ok res) (z : F) :
    Honest g γ β D res ∧ res.1.bound = none ∧
      evalPoly res.1.poly z = lcPolyValue trips z lc.terms :=
  combineLC_honest trips hh lc res hc z

/-- the claimed value of a combination that the verifier checks the opening against
(`claimed − constants`) is the polynomial part of `LinearCombination`'s value: the combination
proved is exactly the stated one -/
theorem marlin_lc_value (trips : List (Trip' F)) (z : F) (lc : LC.LinComb F)
    (hall : ∀ t ∈ lc.terms, ∀ l, t.2 = .poly l →
      (lookupLast (fun (t : Trip' F) => t.1.label) l trips).isSome) :
    LC.value lc (evalAssign trips z) - lcConstant lc = lcPolyValue trips z lc.terms := by
  rw [lc_value_split trips z lc hall]; ring

/-- **Any change of a claimed value, coefficient, constant or evaluation** shows up as a change
`δ` of the value the combined opening is checked against; by `C02.marlin_values_iff` the
verifier then accepts iff `h·⟨κ, ds⟩ = 0` (restated here for a single combination). -/
theorem marlin_lc_wrong_value_rejected (vk : VK F) (l : Label) (c z v δ ξ : F) (ξs : List F)
    (π : KZG.Proof F) (hδ : δ ≠ 0) (hξ : ξ ≠ 0) (hg : vk.vk.g ≠ 0) (hh : vk.vk.h ≠ 0)
    (hacc : check vk [⟨l, ⟨c, none⟩, none⟩] z [v] π (ξ :: ξs) = .ok (true, ξs)) :
    check vk [⟨l, ⟨c, none⟩, none⟩] z [v + δ] π (ξ :: ξs) ≠ .ok (true, ξs) := by
  intro hx
  have := (check_perturbed_iff vk [⟨l, ⟨c, none⟩, none⟩] z [v] [δ] (ξ :: ξs) π ξs rfl hacc).1
    (by simpa using hx)
  simp only [kappa, dot_cons, dot_nil_left, add_zero, mul_eq_zero] at this
  rcases this with h1 | (h1 | h1) | h1 <;> contradiction

/-- **Degree-bound policy.** A degree-bounded polynomial mixed with other terms (any second term,
constants included) is refused with `EquationHasDegreeBounds`; alone it must carry coefficient one. -/
theorem marlin_lc_bound_policy (trips : List (Trip' F)) (k : Nat) (acc : LCAcc F) (coeff : F)
    (l : Label) (x : Trip' F)
    (hl : lookupLast (fun (t : Trip' F) => t.1.label) l trips = some x)
    (hb : x.1.bound.isSome = true) :
    (k ≠ 1 → lcStep trips k acc (coeff, .poly l) = .error .equationHasDegreeBounds) ∧
    (k = 1 → coeff ≠ 1 → lcStep trips k acc (coeff, .poly l) = .error .abort) :=
  lcStep_policy trips k acc coeff l x hl hb

/-- an unknown label in a combination is refused -/
theorem marlin_lc_unknown_label (trips : List (Trip' F)) (k : Nat) (acc : LCAcc F) (coeff : F)
    (l : Label) (hl : lookupLast (fun (t : Trip' F) => t.1.label) l trips = none) :
    lcStep trips k acc (coeff, .poly l) = .error .missingPolynomial := by
  unfold lcStep; simp only [hl]

/-- non-vacuity: `2·p − 1·p + 5` over the honest unbounded commitment of `p = 1 + 2X + 3X²`
(`g = 3, β = 2`: commitment `3·p(2) = 51`) combines to the commitment of `p` -/
example : combineLC [((⟨[112], [1, 2, 3], none, none⟩ : LPoly K), ⟨[], none⟩, ⟨[112], ⟨51, none⟩, none⟩)]
    ⟨[108], [(2, .poly [112]), (-1, .poly [112]), (5, .one)]⟩
    = .ok (⟨[108], [1, 2, 3], none, none⟩, ⟨[], none⟩, ⟨[108], ⟨51, none⟩, none⟩) := by decide
example : lcStep [((⟨[112], [1, 2, 3], some 2, none⟩ : LPoly K), ⟨[], some []⟩, ⟨[112], ⟨51, some 0⟩, some 2⟩)]
    2 ⟨[], ⟨[], none⟩, 0, none, none, none⟩ (1, .poly [112]) = .error .equationHasDegreeBounds := by
  decide

end PCV.C06
