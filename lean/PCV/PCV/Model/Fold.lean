/-
  PCV.Model.Fold — `poly-commit/src/streaming_kzg/data_structures.rs`: the folded-polynomial
  iterators (`FoldedPolynomialTree`, `FoldedPolynomialStream`, `init_stack`) as the stack machine the
  code implements, the naive folding they are compared with, and `commit_folding` / `open_folding`
  of `space.rs`.  Core Lean only.

  A stack is a list whose *head is the top* (`self.stack[len - 1]`); the coefficient iterator is the
  big-endian stream as a list.
-/
import PCV.Model.StreamKZG
namespace PCV
namespace Fold

variable {F : Type} [Add F] [Mul F] [Sub F] [Neg F] [Zero F] [One F]

/-! ### specification: naive folding of a little-endian coefficient vector -/

/-- `fold cs u`: `cs[2i] + u·cs[2i+1]` (an unpaired top coefficient is kept). -/
def fold : List F → F → List F
  | a :: b :: rest, u => (a + u * b) :: fold rest u
  | [a], _ => [a]
  | [], _ => []

/-- the successive foldings `fold (… (fold cs u₀) …) u_{k-1}` -/
def foldAll : List F → List F → List F
  | cs, [] => cs
  | cs, u :: us => foldAll (fold cs u) us

/-- `[fold¹ cs, fold² cs, …, fold^d cs]` -/
def foldings : List F → List F → List (List F)
  | _, [] => []
  | cs, u :: us => fold cs u :: foldings (fold cs u) us

/-! ### `init_stack` -/

/-- the `for i in (0..challenges_len).rev()` loop: `if delta >= 1 << i { push (i, 0); delta -= 1 << i }` -/
def initStackLoop : Nat → Nat → List (Nat × F) → List (Nat × F)
  | 0, _, st => st
  | i+1, delta, st =>
    if delta ≥ 2 ^ i then initStackLoop i (delta - 2 ^ i) ((i, 0) :: st) else initStackLoop i delta st

/-- `init_stack(n, challenges_len)` -/
def initStack (n depth : Nat) : List (Nat × F) :=
  if n % 2 ^ depth ≠ 0 then initStackLoop depth (2 ^ depth - n % 2 ^ depth) [] else []

/-! ### the shared stack step -/

/-- `if len > 1 && stack[len-1].0 == stack[len-2].0`: pop both, fold with `challenges[level]`
(`rhs * challenges[level] + lhs`, `rhs` the deeper entry).  The index is in range because entries
of level `challenges.len()` are never pushed. -/
def foldTop (chal : List F) : List (Nat × F) → Option ((Nat × F) × List (Nat × F))
  | lhs :: rhs :: st =>
    if lhs.1 = rhs.1 then some ((rhs.1 + 1, rhs.2 * chal.getD rhs.1 0 + lhs.2), st) else none
  | _ => none

/-- `if item.0 != challenges.len() { stack.push(item) }` -/
def pushItem (depth : Nat) (item : Nat × F) (st : List (Nat × F)) : List (Nat × F) :=
  if item.1 ≠ depth then item :: st else st

/-! ### `FoldedPolynomialTreeIter` -/
namespace Tree

/-- `FoldedPolynomialTreeIter::next`: fold the two top entries if they have the same level and
return the folded item; otherwise read a level-0 item, push it and call `next` again (the base
polynomial is skipped).  Returns the item, the remaining iterator and the new stack. -/
def next (chal : List F) : List (Nat × F) → List F →
    Option ((Nat × F) × List F × List (Nat × F))
  | st, it =>
    match foldTop chal st with
    | some (item, st') => some (item, it, pushItem chal.length item st')
    | none =>
      match it with
      | [] => none
      | x :: it' => next chal (pushItem chal.length (0, x) st) it'

/-- `fuel` calls of `next`, collecting the items (`iter().collect()`). -/
def collect (chal : List F) : Nat → List (Nat × F) → List F → List (Nat × F)
  | 0, _, _ => []
  | f+1, st, it =>
    match next chal st it with
    | none => []
    | some (item, it', st') => item :: collect chal f st' it'

/-- `FoldedPolynomialTree::new(coefficients, challenges).iter().collect()`; every call of `next`
that returns an item removes an entry from the stack or the stream, so `|stream| + |stack| + 1`
calls exhaust the iterator. -/
def toList (csBE chal : List F) : List (Nat × F) :=
  let st : List (Nat × F) := initStack csBE.length chal.length
  collect chal (csBE.length + st.length + 1) st csBE

/-- the items of one level, in stream order -/
def level (items : List (Nat × F)) (i : Nat) : List F :=
  (items.filter (fun it => it.1 == i)).map (·.2)

end Tree

/-! ### `FoldedPolynomialStreamIter` -/
namespace Stream

/-- `len == 0 || stack[len-1].0 != 0` -/
def fastPath : List (Nat × F) → Bool
  | [] => true
  | top :: _ => top.1 != 0

/-- the `let (level, element) = if … else if … else …` of the loop body: fold the two top entries,
or (target level > 0 and no level-0 entry on top) read two items and fold them with
`challenges[0] * rhs + lhs`, or read one level-0 item; `?` ends the iteration. -/
def stepItem (chal : List F) (st : List (Nat × F)) (it : List F) :
    Option ((Nat × F) × List (Nat × F) × List F) :=
  match foldTop chal st with
  | some (item, st') => some (item, st', it)
  | none =>
    if chal.length > 0 && fastPath st then
      match it with
      | rhs :: lhs :: it' => some ((1, chal.getD 0 0 * rhs + lhs), st, it')
      | _ => none
    else
      match it with
      | x :: it' => some ((0, x), st, it')
      | [] => none

/-- `FoldedPolynomialStreamIter::next`: the `loop` with explicit fuel (one unit per round). -/
def next (chal : List F) : Nat → List (Nat × F) → List F → Option (F × List F × List (Nat × F))
  | 0, _, _ => none
  | f+1, st, it =>
    match stepItem chal st it with
    | none => none
    | some (item, st', it') =>
      if item.1 ≠ chal.length then next chal f (item :: st') it' else some (item.2, it', st')

def collect (chal : List F) : Nat → List (Nat × F) → List F → List F
  | 0, _, _ => []
  | f+1, st, it =>
    match next chal (2 * it.length + st.length + 1) st it with
    | none => []
    | some (x, it', st') => x :: collect chal f st' it'

/-- `FoldedPolynomialStream::new(coefficients, challenges).iter().collect()` -/
def toList (csBE chal : List F) : List F :=
  collect chal (csBE.length + 1) (initStack csBE.length chal.length) csBE

/-- `FoldedPolynomialStream::len`: `ceil_div(n, 1 << depth)` -/
def len (n depth : Nat) : Nat := (n + 2 ^ depth - 1) / 2 ^ depth

end Stream

/-! ### `commit_folding`, `open_folding` (`space.rs`) -/

/-- `utils::ceil_div` -/
def ceilDiv (x y : Nat) : Nat := (x + y - 1) / y

/-- feed the items of level `i` to the `i`-th base iterator: `folded_bases[i-1].next().unwrap()` -/
def msmStrict : List F → List F → F → Except Err F
  | _, [], acc => .ok acc
  | [], _ :: _, _ => .error .abort
  | b :: bs, c :: cs, acc => msmStrict bs cs (acc + b * c)

def mapExcept {α β : Type} (f : α → Except Err β) : List α → Except Err (List β)
  | [] => .ok []
  | a :: as =>
    match f a with
    | .error e => .error e
    | .ok b => match mapExcept f as with
      | .error e => .error e
      | .ok bs => .ok (b :: bs)

/-- `CommitterKeyStream::commit_folding`: for every level `i = 1..depth` the items of that level are
multiplied with the base stream skipped by `len(srs) - ceil_div(n, 2^i)` (underflow aborts). -/
def commitFolding (ck : SKZG.CKS F) (csBE chal : List F) : Except Err (List F) :=
  let items := Tree.toList csBE chal
  mapExcept (fun i =>
      let k := ceilDiv csBE.length (2 ^ i)
      if ck.powersOfG.length < k then Except.error Err.abort
      else msmStrict (ck.powersOfG.drop (ck.powersOfG.length - k)) (Tree.level items i) 0)
    ((List.range chal.length).map (· + 1))

/-- the per-level loop of `open_folding`: the window starts as `m` zeros, *every* coefficient is
pushed through it; the popped quotient coefficient is scaled by `etas[i-1]` and multiplied with the
next base. Returns `(remainder window, accumulator)`. -/
def ofLoop (zsBE : List F) (η : F) : List F → List F → List F → F → Except Err (List F × F)
  | state, [], _, acc => .ok (state, acc)
  | state, c :: cs, bases, acc =>
    match bases with
    | [] => .error .abort
    | b :: bs =>
      match state with
      | [] => .error .abort
      | q :: st => ofLoop zsBE η (SKZG.Time.subPrefix q (st ++ [c]) zsBE) cs bs (acc + b * (η * q))

/-- `CommitterKeyStream::open_folding`: remainders per level (big-endian, `m` entries) and the
single batched proof `Σᵢ etas[i-1]·⟨qᵢ, bases⟩`.  `etas[i-1]` out of range aborts (only when the
level has an item). -/
def openFolding (ck : SKZG.CKS F) (csBE chal pts etas : List F) : Except Err (List (List F) × F) :=
  let items := Tree.toList csBE chal
  let zeros := SKZG.vanishing pts
  let perLevel := mapExcept (fun i =>
      let k := ceilDiv csBE.length (2 ^ i)
      let cs := Tree.level items i
      if ck.powersOfG.length < k then Except.error Err.abort
      else if !cs.isEmpty && decide (etas.length < i) then Except.error Err.abort
      else ofLoop zeros.reverse.tail (etas.getD (i - 1) 0) (List.replicate pts.length 0) cs
            (ck.powersOfG.drop (ck.powersOfG.length - k)) 0)
    ((List.range chal.length).map (· + 1))
  match perLevel with
  | .error e => .error e
  | .ok rs => .ok (rs.map (·.1), lsum (rs.map (·.2)))

end Fold
end PCV
