/-
  PCV.Model.Succinct — `poly-commit/src/ipa_pc/data_structures.rs`, `SuccinctCheckPolynomial`:
  `compute_coeffs` and `evaluate`, loop by loop.  Core Lean only.
-/
import PCV.Model.Poly
namespace PCV
namespace Succinct

variable {F : Type} [Add F] [Mul F] [Sub F] [Neg F] [Zero F] [One F]

/-- The two inner loops of `compute_coeffs` for one challenge:
```
for start in (elem_degree..coeffs.len()).step_by(elem_degree * 2) {
    for offset in 0..elem_degree { coeffs[start + offset] *= challenge; } }
```
The index `j = start + offset` runs over exactly the positions whose block number `j / elem_degree`
is odd (`start = (2m+1)·elem_degree`, `offset < elem_degree`); `j` is the index of the head of the
list.  (`coeffs.len() = 2^log_d` is a multiple of `2·elem_degree`, so no index is out of range.) -/
def scalePass (ed : Nat) (u : F) : Nat → List F → List F
  | _, [] => []
  | j, c :: cs => (if (j / ed) % 2 = 1 then c * u else c) :: scalePass ed u (j + 1) cs

/-- the outer loop `for (i, challenge) in challenges.iter().enumerate()` with
`elem_degree = 1 << (log_d - (i + 1))`; `i` is the 0-based index of the head of the list -/
def coeffsLoop (logD : Nat) : Nat → List F → List F → List F
  | _, [], coeffs => coeffs
  | i, u :: us, coeffs => coeffsLoop logD (i + 1) us (scalePass (2 ^ (logD - (i + 1))) u 0 coeffs)

/-- `SuccinctCheckPolynomial::compute_coeffs`: `vec![F::one(); 1 << log_d]`, then the loops. -/
def computeCoeffs (us : List F) : List F :=
  coeffsLoop us.length 0 us (List.replicate (2 ^ us.length) 1)

/-- the loop of `evaluate`: `product *= 1 + point.pow([1 << (log_d - (i+1))]) * challenge` -/
def evalLoop (logD : Nat) (z : F) : Nat → List F → F → F
  | _, [], product => product
  | i, u :: us, product =>
    evalLoop logD z (i + 1) us (product * (1 + fpow z (2 ^ (logD - (i + 1))) * u))

/-- `SuccinctCheckPolynomial::evaluate(point)` -/
def evaluate (us : List F) (z : F) : F := evalLoop us.length z 0 us 1

end Succinct
end PCV
