/-
  PCV.Model.Wire — the line protocol between the Rust harness and the model driver
  (DESIGN Appendix C).  `op k=v k=v …`; values: decimal naturals, `[v,…]`, `none`, `some(v)`.
-/
import PCV.Model.Basic
namespace PCV

inductive Val
  | n (x : Nat)
  | l (xs : List Val)
  | none
  | some (v : Val)
  deriving Inhabited, Repr

namespace Val

partial def render : Val → String
  | .n x => toString x
  | .l xs => "[" ++ ",".intercalate (xs.map render) ++ "]"
  | .none => "none"
  | .some v => "some(" ++ render v ++ ")"

private def isDigit (c : Char) : Bool := c.isDigit

private def parseNat : List Char → Nat → Nat × List Char
  | c :: cs, acc => if c.isDigit then parseNat cs (acc * 10 + (c.toNat - 48)) else (acc, c :: cs)
  | [], acc => (acc, [])

mutual
partial def parseVal : List Char → Option (Val × List Char)
  | 'n' :: 'o' :: 'n' :: 'e' :: rest => Option.some (.none, rest)
  | 's' :: 'o' :: 'm' :: 'e' :: '(' :: rest =>
    match parseVal rest with
    | Option.some (v, ')' :: rest') => Option.some (.some v, rest')
    | _ => Option.none
  | '[' :: ']' :: rest => Option.some (.l [], rest)
  | '[' :: rest => parseList rest []
  | c :: rest =>
    if c.isDigit then
      let (x, rest') := parseNat (c :: rest) 0
      Option.some (.n x, rest')
    else Option.none
  | [] => Option.none
partial def parseList : List Char → List Val → Option (Val × List Char)
  | cs, acc =>
    match parseVal cs with
    | Option.some (v, ',' :: rest) => parseList rest (v :: acc)
    | Option.some (v, ']' :: rest) => Option.some (.l (v :: acc).reverse, rest)
    | _ => Option.none
end

def parse (s : String) : Option Val :=
  match parseVal s.toList with
  | Option.some (v, []) => Option.some v
  | _ => Option.none

def toNat? : Val → Option Nat
  | .n x => Option.some x
  | _ => Option.none

def toList? : Val → Option (List Val)
  | .l xs => Option.some xs
  | _ => Option.none

def toNatList? (v : Val) : Option (List Nat) :=
  match v with
  | .l xs => xs.mapM toNat?
  | _ => Option.none

def toOpt? : Val → Option (Option Val)
  | .none => Option.some Option.none
  | .some v => Option.some (Option.some v)
  | _ => Option.none

end Val

/-- A parsed request: operation name and its key/value arguments. -/
structure Req where
  op : String
  args : List (String × Val)

def Req.get? (r : Req) (k : String) : Option Val := (r.args.find? (·.1 == k)).map (·.2)

def parseReq (line : String) : Option Req :=
  match (line.trimAscii.toString.splitOn " ").filter (· ≠ "") with
  | [] => none
  | op :: kvs =>
    let args := kvs.mapM fun kv =>
      match kv.splitOn "=" with
      | [k, v] => (Val.parse v).map (fun x => (k, x))
      | _ => none
    args.map (fun a => ⟨op, a⟩)

end PCV
