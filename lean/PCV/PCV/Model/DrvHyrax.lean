/-
  PCV.Model.DrvHyrax — driver requests of the Hyrax scheme model (op names start with "hyrax.").
  Everything is in scalar form: key scalars `ks`, `h`; hypercube evaluations; point; RNG draws;
  squeezed challenges; proof components.
-/
import PCV.Model.Wire
import PCV.Model.DrvUtil
import PCV.Model.Hyrax
namespace PCV
namespace DrvHyrax
open Driver Hyrax

variable {p : Nat}

def asFesss (v : Val) : R (List (List (List (Fp p)))) := do let xs ← asList v; xs.mapM asFess
def asLabels (v : Val) : R (List (List Nat)) := do let xs ← asList v; xs.mapM asNats
def vFess (xs : List (List (Fp p))) : Val := .l (xs.map vFes)

/-- `nvs=[..] evals=[[..],..]` -/
def getPolys (r : Req) : R (List (MLPoly (Fp p))) := do
  let nvs ← asNats (← need r "nvs")
  let evals ← asFess (← need r "evals")
  pure (List.zipWith (fun n e => ⟨n, e⟩) nvs evals)

/-- states: `rands=[[..],..] mat_n=[..] mat_m=[..] mats=[[[..],..],..]` -/
def getStates (r : Req) : R (List (State (Fp p))) := do
  let rands ← asFess (← need r "rands")
  let ns ← asNats (← need r "mat_n")
  let ms ← asNats (← need r "mat_m")
  let mats ← asFesss (← need r "mats")
  pure <| (rands.zip (ns.zip (ms.zip mats))).map fun (ρ, (n, (m, e))) => ⟨ρ, ⟨n, m, e⟩⟩

/-- proofs by component: `com_eval com_d com_b z_d z_b r_eval` (lists of scalars), `zs` (list of lists) -/
def getProofs (r : Req) : R (List (Proof (Fp p))) := do
  let ce ← asFes (← need r "com_eval")
  let cd ← asFes (← need r "com_d")
  let cb ← asFes (← need r "com_b")
  let zs ← asFess (← need r "zs")
  let zd ← asFes (← need r "z_d")
  let zb ← asFes (← need r "z_b")
  let re ← asFes (← need r "r_eval")
  pure <| (ce.zip (cd.zip (cb.zip (zs.zip (zd.zip (zb.zip re)))))).map
    fun (a, (b, (c, (z, (d, (e, f)))))) => ⟨a, b, c, z, d, e, f⟩

def vProofs (πs : List (Proof (Fp p))) : List (String × Val) :=
  [("com_eval", vFes (πs.map (·.comEval))), ("com_d", vFes (πs.map (·.comD))),
   ("com_b", vFes (πs.map (·.comB))), ("zs", vFess (πs.map (·.z))),
   ("z_d", vFes (πs.map (·.zD))), ("z_b", vFes (πs.map (·.zB))),
   ("r_eval", vFes (πs.map (·.rEval)))]

/-- `none` = not an op of this module -/
def handle (p : Nat) (r : Req) : Option (Except String String) :=
  if !r.op.startsWith "hyrax." then none else some do
  match r.op with
  | "hyrax.tensor_prime" =>
    let vs ← asFes (p := p) (← need r "values")
    pure <| okReply [("t", vFes (tensorPrime vs))]
  | "hyrax.flat_to_matrix" =>
    let flat ← asFes (p := p) (← need r "flat")
    let n ← asNat (← need r "n")
    let m ← asNat (← need r "m")
    pure <| exceptReply (flatToMatrixColumnMajor flat n m) fun rows => [("rows", vFess rows)]
  | "hyrax.mle_eval" =>
    let evals ← asFes (p := p) (← need r "evals")
    let point ← asFes (p := p) (← need r "point")
    pure <| okReply [("v", vFe (mleEval evals point))]
  | "hyrax.commit" =>
    let ks ← asFes (p := p) (← need r "ks")
    let hh ← asFe (p := p) (← need r "h")
    let polys ← getPolys (p := p) r
    let draws ← asFes (p := p) (← need r "draws")
    pure <| exceptReply (commit ks hh polys draws) fun (cs, sts, rest) =>
      [("rows", vFes cs.flatten), ("lens", vNats (cs.map (·.length))),
       ("rands", vFess (sts.map (·.randomness))),
       ("mat_n", vNats (sts.map (·.mat.n))), ("mat_m", vNats (sts.map (·.mat.m))),
       ("mats", .l (sts.map fun s => vFess s.mat.entries)),
       ("used", .n (draws.length - rest.length))]
  | "hyrax.open" =>
    let ks ← asFes (p := p) (← need r "ks")
    let hh ← asFe (p := p) (← need r "h")
    let pl ← asLabels (← need r "plabels")
    let cl ← asLabels (← need r "clabels")
    let nvs ← asNats (← need r "nvs")
    let sts ← getStates (p := p) r
    let point ← asFes (p := p) (← need r "point")
    let draws ← asFes (p := p) (← need r "draws")
    let cs ← asFes (p := p) (← need r "cs")
    let items : List (OpenItem (Fp p)) :=
      (pl.zip (cl.zip (nvs.zip sts))).map fun (a, (b, (n, s))) => ⟨a, b, n, s⟩
    pure <| exceptReply (Hyrax.open ks hh items point draws cs) fun πs =>
      vProofs πs ++ [("k", .n πs.length)]
  | "hyrax.check" =>
    let ks ← asFes (p := p) (← need r "ks")
    let hh ← asFe (p := p) (← need r "h")
    let coms ← asFess (p := p) (← need r "coms")
    let point ← asFes (p := p) (← need r "point")
    let values ← asFes (p := p) (← need r "values")
    let πs ← getProofs (p := p) r
    let cs ← asFes (p := p) (← need r "cs")
    pure <| exceptReply (check ks hh coms point values πs cs) fun b => [("b", vBool b)]
  | _ => .error "unknown-op"

end DrvHyrax
end PCV
