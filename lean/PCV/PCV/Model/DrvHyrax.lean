/-
  PCV.Model.DrvHyrax — driver requests of the Hyrax scheme model (op names start with "hyrax.").
  Everything is in scalar form: key scalars `ks`, `h`; hypercube evaluations; point; RNG draws;
  squeezed challenges; proof components.
-/
import PCV.Model.Wire
import PCV.Model.DrvUtil
import PCV.Model.Hyrax
import PCV.Model.HyraxTranscript
import PCV.Model.HyraxSetup
namespace PCV
namespace DrvHyrax
open Driver Hyrax

variable {p : Nat}

def asFesss (v : Val) : R (List (List (List (Fp p)))) := do let xs ← asList v; xs.mapM asFess
def asLabels (v : Val) : R (List (List Nat)) := do let xs ← asList v; xs.mapM asNats
def vFess (xs : List (List (Fp p))) : Val := .l (xs.map vFes)

/-- `nvs=[..] evals=[[..],..]` -/
def getPolys (r : Req) : R (List (MLPoly (Fp p))) := do
  let nvs ← asNats (← need r "nvs")
  let evals ← asFess (← need r "evals")
  pure (List.zipWith (fun n e => ⟨n, e⟩) nvs evals)

/-- states: `rands=[[..],..] mat_n=[..] mat_m=[..] mats=[[[..],..],..]` -/
def getStates (r : Req) : R (List (State (Fp p))) := do
  let rands ← asFess (← need r "rands")
  let ns ← asNats (← need r "mat_n")
  let ms ← asNats (← need r "mat_m")
  let mats ← asFesss (← need r "mats")
  pure <| (rands.zip (ns.zip (ms.zip mats))).map fun (ρ, (n, (m, e))) => ⟨ρ, ⟨n, m, e⟩⟩

/-- proofs by component: `com_eval com_d com_b z_d z_b r_eval` (lists of scalars), `zs` (list of lists) -/
def getProofs (r : Req) : R (List (Proof (Fp p))) := do
  let ce ← asFes (← need r "com_eval")
  let cd ← asFes (← need r "com_d")
  let cb ← asFes (← need r "com_b")
  let zs ← asFess (← need r "zs")
  let zd ← asFes (← need r "z_d")
  let zb ← asFes (← need r "z_b")
  let re ← asFes (← need r "r_eval")
  pure <| (ce.zip (cd.zip (cb.zip (zs.zip (zd.zip (zb.zip re)))))).map
    fun (a, (b, (c, (z, (d, (e, f)))))) => ⟨a, b, c, z, d, e, f⟩

def vProofs (πs : List (Proof (Fp p))) : List (String × Val) :=
  [("com_eval", vFes (πs.map (·.comEval))), ("com_d", vFes (πs.map (·.comD))),
   ("com_b", vFes (πs.map (·.comB))), ("zs", vFess (πs.map (·.z))),
   ("z_d", vFes (πs.map (·.zD))), ("z_b", vFes (πs.map (·.zB))),
   ("r_eval", vFes (πs.map (·.rEval)))]


/-! ### `hyrax.transcript`: the event log of `open` / `check` / default `batch_open` / `batch_check`

  `hyrax.transcript side=0 ks= h= plabels= clabels= nvs= rands= mat_n= mat_m= mats= coms=[[..],..] point= draws= sq=[[..],..]`
        → `log`, `k`, proof components            (`HyraxPC::open`)
  `side=1 ks= h= coms= point= values= <proof components> sq=`       → `b`, `log`      (`check`)
  `side=2 ks= h= labels= nvs= rands= mat_n= mat_m= mats= clabels= coms= qs=[[label,plabel,point],..] draws= sq=`
        → `log`, `groups` (proofs per point label)                   (default `batch_open`)
  `side=3 ks= h= clabels= coms= qs= evals=[[label,point,value],..] pk=[..] <proof components> sq=`
        → `b`, `log`                                                 (default `batch_check`)
  `sq` are the recorded answers of the squeezes, in order; the oracle replays them by squeeze count.
  Events: `[3,ks,h]` key, `[2,T]` row commitments, `[4,pt]` point, `[1,x]` one group element,
  `[10,n]` `squeeze_field_elements(n)`, `[11,n]` `squeeze_bytes(n)`. -/

def vItem : Item (Fp p) → Val
  | .key ks h => .l [.n 3, vFes ks, vFe h]
  | .rowComs T => .l [.n 2, vFes T]
  | .point pt => .l [.n 4, vFes pt]
  | .comEval x => .l [.n 1, vFe x]
  | .comD x => .l [.n 1, vFe x]
  | .comB x => .l [.n 1, vFe x]

def vEv : SpongeEv (Item (Fp p)) → Val
  | .absorb a => vItem a
  | .squeezeField n => .l [.n 10, .n n]
  | .squeezeBytes n => .l [.n 11, .n n]

def vLog (s : Log (Fp p)) : Val := .l (s.map vEv)

/-- `Vec<F>: Ord` — lexicographic on canonical representatives -/
def ltVec : List (Fp p) → List (Fp p) → Bool
  | [], [] => false
  | [], _ :: _ => true
  | _ :: _, [] => false
  | a :: as, b :: bs => decide (a.v < b.v) || (decide (a.v = b.v) && ltVec as bs)

def getQueries (v : Val) : R (List (TraitDefault.Query (List (Fp p)))) := do
  let xs ← asList v
  xs.mapM fun q => do
    match ← asList q with
    | [l, pl, pt] => pure (← asNats l, (← asNats pl, ← asFes pt))
    | _ => .error "query-must-be-[label,point_label,point]"

def getEvals (v : Val) : R (List ((List Nat × List (Fp p)) × Fp p)) := do
  let xs ← asList v
  xs.mapM fun e => do
    match ← asList e with
    | [l, pt, x] => pure ((← asNats l, ← asFes pt), ← asFe x)
    | _ => .error "evaluation-must-be-[label,point,value]"

/-- split a flat list into consecutive chunks of the given sizes -/
def chunksBy {α : Type} : List Nat → List α → List (List α)
  | [], _ => []
  | k :: ks, l => l.take k :: chunksBy ks (l.drop k)

def replay (r : Req) : R (RO (Fp p)) := do
  let sq ← asFess (p := p) (← need r "sq")
  pure (Sponge.replayRO 0 sq [])

/-- `none` = not an op of this module -/
def handle (p : Nat) (r : Req) : Option (Except String String) :=
  if !r.op.startsWith "hyrax." then none else some do
  match r.op with
  | "hyrax.tensor_prime" =>
    let vs ← asFes (p := p) (← need r "values")
    pure <| okReply [("t", vFes (tensorPrime vs))]
  | "hyrax.flat_to_matrix" =>
    let flat ← asFes (p := p) (← need r "flat")
    let n ← asNat (← need r "n")
    let m ← asNat (← need r "m")
    pure <| exceptReply (flatToMatrixColumnMajor flat n m) fun rows => [("rows", vFess rows)]
  | "hyrax.mle_eval" =>
    let evals ← asFes (p := p) (← need r "evals")
    let point ← asFes (p := p) (← need r "point")
    pure <| okReply [("v", vFe (mleEval evals point))]
  | "hyrax.commit" =>
    let ks ← asFes (p := p) (← need r "ks")
    let hh ← asFe (p := p) (← need r "h")
    let polys ← getPolys (p := p) r
    let draws ← asFes (p := p) (← need r "draws")
    pure <| exceptReply (commit ks hh polys draws) fun (cs, sts, rest) =>
      [("rows", vFes cs.flatten), ("lens", vNats (cs.map (·.length))),
       ("rands", vFess (sts.map (·.randomness))),
       ("mat_n", vNats (sts.map (·.mat.n))), ("mat_m", vNats (sts.map (·.mat.m))),
       ("mats", .l (sts.map fun s => vFess s.mat.entries)),
       ("used", .n (draws.length - rest.length))]
  | "hyrax.open" =>
    let ks ← asFes (p := p) (← need r "ks")
    let hh ← asFe (p := p) (← need r "h")
    let pl ← asLabels (← need r "plabels")
    let cl ← asLabels (← need r "clabels")
    let nvs ← asNats (← need r "nvs")
    let sts ← getStates (p := p) r
    let point ← asFes (p := p) (← need r "point")
    let draws ← asFes (p := p) (← need r "draws")
    let cs ← asFes (p := p) (← need r "cs")
    let items : List (OpenItem (Fp p)) :=
      (pl.zip (cl.zip (nvs.zip sts))).map fun (a, (b, (n, s))) => ⟨a, b, n, s⟩
    pure <| exceptReply (Hyrax.open ks hh items point draws cs) fun πs =>
      vProofs πs ++ [("k", .n πs.length)]
  | "hyrax.check" =>
    let ks ← asFes (p := p) (← need r "ks")
    let hh ← asFe (p := p) (← need r "h")
    let coms ← asFess (p := p) (← need r "coms")
    let point ← asFes (p := p) (← need r "point")
    let values ← asFes (p := p) (← need r "values")
    let πs ← getProofs (p := p) r
    let cs ← asFes (p := p) (← need r "cs")
    pure <| exceptReply (check ks hh coms point values πs cs) fun b => [("b", vBool b)]
  | "hyrax.setup" =>
    -- `nv=none|some(n)`: which hash counter every key element comes from (`gen` = identity on ℕ)
    let nv ← asOptNat (← need r "nv")
    pure <| exceptReply (Hyrax.setup (F := Nat) id nv) fun pp =>
      [("n", .n pp.comKey.length), ("counters", vNats pp.comKey), ("hcounter", .n pp.h)]
  | "hyrax.transcript" =>
    let side ← asNat (← need r "side")
    let ks ← asFes (p := p) (← need r "ks")
    let hh ← asFe (p := p) (← need r "h")
    let ro ← replay (p := p) r
    match side with
    | 0 =>
      let pl ← asLabels (← need r "plabels")
      let cl ← asLabels (← need r "clabels")
      let nvs ← asNats (← need r "nvs")
      let sts ← getStates (p := p) r
      let coms ← asFess (p := p) (← need r "coms")
      let point ← asFes (p := p) (← need r "point")
      let draws ← asFes (p := p) (← need r "draws")
      let items : List (OpenItem (Fp p) × List (Fp p)) :=
        ((pl.zip (cl.zip (nvs.zip sts))).zip coms).map fun ((a, (b, (n, s))), T) => (⟨a, b, n, s⟩, T)
      pure <| exceptReply (openT ro ks hh items point draws []) fun (πs, rest, s) =>
        vProofs πs ++ [("k", .n πs.length), ("used", .n (draws.length - rest.length)), ("log", vLog s)]
    | 1 =>
      let coms ← asFess (p := p) (← need r "coms")
      let point ← asFes (p := p) (← need r "point")
      let values ← asFes (p := p) (← need r "values")
      let πs ← getProofs (p := p) r
      pure <| exceptReply (checkT ro ks hh coms point values πs []) fun (b, s) =>
        [("b", vBool b), ("log", vLog s)]
    | 2 =>
      let labels ← asLabels (← need r "labels")
      let nvs ← asNats (← need r "nvs")
      let sts ← getStates (p := p) r
      let cl ← asLabels (← need r "clabels")
      let coms ← asFess (p := p) (← need r "coms")
      let qs ← getQueries (p := p) (← need r "qs")
      let draws ← asFes (p := p) (← need r "draws")
      let polys : List (LPoly (Fp p)) := (labels.zip nvs).map fun (l, n) => ⟨l, ⟨n, []⟩⟩
      let comms : List (LComm (Fp p)) := (cl.zip coms).map fun (l, T) => ⟨l, T⟩
      pure <| exceptReply
        (TraitDefault.batchOpen ltVec (fun (x : LPoly (Fp p)) => x.label) (openF ro ks hh) polys sts comms
          qs (([] : Log (Fp p)), draws)) fun (πss, (s, rest)) =>
        vProofs πss.flatten ++ [("groups", vNats (πss.map (·.length))),
          ("used", .n (draws.length - rest.length)), ("log", vLog s)]
    | 3 =>
      let cl ← asLabels (← need r "clabels")
      let coms ← asFess (p := p) (← need r "coms")
      let qs ← getQueries (p := p) (← need r "qs")
      let evals ← getEvals (p := p) (← need r "evals")
      let pk ← asNats (← need r "pk")
      let πs ← getProofs (p := p) r
      let comms : List (LComm (Fp p)) := (cl.zip coms).map fun (l, T) => ⟨l, T⟩
      pure <| exceptReply
        (TraitDefault.batchCheck ltVec (fun (c : LComm (Fp p)) => c.label) (checkF ro ks hh) comms qs evals
          (chunksBy pk πs) ([] : Log (Fp p))) fun (b, s) => [("b", vBool b), ("log", vLog s)]
    | _ => .error "unknown-side"
  | _ => .error "unknown-op"

end DrvHyrax
end PCV
