/-
  PCV.Model.DrvHyrax — driver requests of the Hyrax scheme model (op names start with "hyrax.").
-/
import PCV.Model.Wire
import PCV.Model.DrvUtil
namespace PCV
namespace DrvHyrax

/-- `none` = not an op of this module -/
def handle (p : Nat) (r : Req) : Option (Except String String) :=
  let _ := p
  let _ := r
  none

end DrvHyrax
end PCV
