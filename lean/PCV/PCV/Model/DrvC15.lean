/-
  PCV.Model.DrvC15 — driver requests of property C15 (op names start with "c15.").

  Wire forms: a term is `[[var,pow],…]`, a polynomial `[[coeff,term],…]` (the `terms` vector of the
  `SparsePolynomial`).  Keys are not sent element by element: the request carries the trapdoor
  scalars (`betas g gamma h`) and the sizes (`nv d s`), and the model derives the committer /
  verifier key with its own `setup` and `trim`.
-/
import PCV.Model.Wire
import PCV.Model.DrvUtil
import PCV.Model.PST13
import PCV.Model.PST13LC
namespace PCV
namespace DrvC15
open Driver

variable {p : Nat}

def asPair (v : Val) : R (Nat × Nat) := do
  match ← asNats v with
  | [a, b] => pure (a, b)
  | _ => .error "expected-pair"

def asTerm (v : Val) : R Term := do (← asList v).mapM asPair

def asMono (v : Val) : R (Fp p × Term) := do
  match ← asList v with
  | [c, t] => pure (← asFe c, ← asTerm t)
  | _ => .error "expected-monomial"

def asPoly (v : Val) : R (MVPoly (Fp p)) := do (← asList v).mapM asMono
def asPolys (v : Val) : R (List (MVPoly (Fp p))) := do (← asList v).mapM asPoly

def vTerm (t : Term) : Val := .l (t.map fun q => .l [.n q.1, .n q.2])
def vTerms (ts : List Term) : Val := .l (ts.map vTerm)
def vPoly (q : MVPoly (Fp p)) : Val := .l (q.map fun ct => .l [vFe ct.1, vTerm ct.2])
def vPolys (qs : List (MVPoly (Fp p))) : Val := .l (qs.map vPoly)
def vNatss (xs : List (List Nat)) : Val := .l (xs.map vNats)

/-- the keys of a request: `setup` from the given scalars, then `trim` -/
def keys (r : Req) : R (Except Err (PST.CK (Fp p) × PST.VK (Fp p))) := do
  let nv ← asNat (← need r "nv")
  let d ← asNat (← need r "d")
  let s ← asNat (← need r "s")
  let betas ← asFes (p := p) (← need r "betas")
  let g ← asFe (← need r "g")
  let gamma ← asFe (← need r "gamma")
  let h ← asFe (← need r "h")
  pure <| match PST.setup d nv betas g gamma h with
    | .error e => .error e
    | .ok pp => PST.trim pp s

def handleC15 (r : Req) : R String := do
  match r.op with
  | "c15.combinations" =>
    let orig ← asNats (← need r "orig")
    let k ← asNat (← need r "k")
    pure <| exceptReply (combinations orig k) fun outs => [("outs", vNatss outs)]
  | "c15.setup_terms" =>
    -- terms in the code's order; the BTreeMap (keys, values with g = 1 ⇒ the monomials at β⃗);
    -- the γ-rows with γ = 1; beta_h with h = 1
    let nv ← asNat (← need r "nv")
    let d ← asNat (← need r "d")
    let betas ← asFes (p := p) (← need r "betas")
    pure <| match setupTerms nv d, PST.setup d nv betas 1 1 1 with
      | .ok ts, .ok pp =>
        okReply [("terms", vTerms ts), ("count", .n pp.powersOfG.length),
                 ("keys", vTerms (pp.powersOfG.map (·.1))), ("vals", vFes (pp.powersOfG.map (·.2))),
                 ("grows", .l (pp.powersOfGammaG.map vFes)), ("bh", vFes pp.betaH)]
      | .error e, _ => errReply e
      | _, .error e => errReply e
  | "c15.trim" =>
    match ← keys (p := p) r with
    | .error e => pure (errReply e)
    | .ok (ck, vk) =>
      pure <| okReply [("keys", vTerms (ck.powersOfG.map (·.1))), ("vals", vFes (ck.powersOfG.map (·.2))),
                       ("grows", .l (ck.powersOfGammaG.map vFes)), ("g", vFe vk.g),
                       ("gamma_g", vFe vk.gammaG), ("h", vFe vk.h), ("bh", vFes vk.betaH)]
  | "c15.divide" =>
    let nv ← asNat (← need r "nv")
    let q ← asPoly (p := p) (← need r "p")
    let z ← asFes (← need r "z")
    pure <| okReply [("qs", vPolys (PST.divideAtPoint nv q z))]
  | "c15.eval" =>
    let q ← asPoly (p := p) (← need r "p")
    let z ← asFes (← need r "z")
    pure <| okReply [("v", vFe (evalMV q z)), ("deg", .n (degreeMV q))]
  | "c15.commit" =>
    match ← keys (p := p) r with
    | .error e => pure (errReply e)
    | .ok (ck, _) =>
      let q ← asPoly (p := p) (← need r "p")
      let hb ← asOptNat (← need r "hb")
      let rng ← asBool (← need r "rng")
      let draws ← asFes (← need r "draws")
      pure <| exceptReply (PST.commit ck q hb rng draws) fun (c, b, rest) =>
        [("c", vFe c), ("blind", vPoly b), ("used", .n (draws.length - rest.length))]
  | "c15.open" =>
    match ← keys (p := p) r with
    | .error e => pure (errReply e)
    | .ok (ck, _) =>
      let nvp ← asNat (← need r "nvp")
      let nvr ← asNat (← need r "nvr")
      let ps ← asPolys (p := p) (← need r "ps")
      let z ← asFes (← need r "z")
      let rs ← asPolys (p := p) (← need r "rs")
      let xis ← asFes (← need r "xis")
      pure <| exceptReply (PST.open ck nvp nvr ps z rs xis) fun π =>
        [("w", vFes π.w), ("rv", vOptFe π.rv)]
  | "c15.check" =>
    match ← keys (p := p) r with
    | .error e => pure (errReply e)
    | .ok (_, vk) =>
      let cs ← asFes (p := p) (← need r "cs")
      let z ← asFes (← need r "z")
      let vs ← asFes (← need r "vs")
      let w ← asFes (← need r "w")
      let rv ← asOptFe (← need r "rv")
      let xis ← asFes (← need r "xis")
      pure <| exceptReply (PST.check vk cs z vs ⟨w, rv⟩ xis) fun b =>
        [("b", vBool b), ("defect", vFe (PST.defect vk cs z vs ⟨w, rv⟩ xis))]
  | "c15.batch_check" =>
    match ← keys (p := p) r with
    | .error e => pure (errReply e)
    | .ok (_, vk) =>
      let cs ← asFes (p := p) (← need r "cs")
      let zs ← asFess (← need r "zs")
      let vs ← asFes (← need r "vs")
      let ws ← asFess (← need r "ws")
      let rvs ← (← asList (← need r "rvs")).mapM asOptFe
      let rs ← asFes (← need r "rs")
      let πs := List.zipWith (fun w rv => (⟨w, rv⟩ : PST.Proof (Fp p))) ws rvs
      pure <| exceptReply (PST.batchCheck vk cs zs vs πs rs) fun b => [("b", vBool b)]
  | "c15.batch_check_q" =>
    -- grouped form: per point label (sorted) the commitments `css[k]` and values `vss[k]`
    match ← keys (p := p) r with
    | .error e => pure (errReply e)
    | .ok (_, vk) =>
      let css ← asFess (p := p) (← need r "css")
      let vss ← asFess (p := p) (← need r "vss")
      let zs ← asFess (← need r "zs")
      let ws ← asFess (← need r "ws")
      let rvs ← (← asList (← need r "rvs")).mapM asOptFe
      let xis ← asFes (← need r "xis")
      let rs ← asFes (← need r "rs")
      let πs := List.zipWith (fun w rv => (⟨w, rv⟩ : PST.Proof (Fp p))) ws rvs
      pure <| exceptReply (PST.batchCheckGroups vk (List.zip css vss) zs πs xis rs) fun b =>
        [("b", vBool b)]
  | _ => .error "unknown-op"

/-! ### `pst13.*`: labelled polynomials / commitments / combinations / query sets -/

def asLabel (v : Val) : R PST.Label := asNats v
def asLabels (v : Val) : R (List PST.Label) := do (← asList v).mapM asLabel
def asLabelss (v : Val) : R (List (List PST.Label)) := do (← asList v).mapM asLabels
def asOptNats (v : Val) : R (List (Option Nat)) := do (← asList v).mapM asOptNat
def asOptFes (v : Val) : R (List (Option (Fp p))) := do (← asList v).mapM asOptFe
def asNatss (v : Val) : R (List (List Nat)) := do (← asList v).mapM asNats

/-- `labels polys pnvs bounds hbs`: the labelled polynomials -/
def getLPolys (r : Req) : R (List (PST.LPoly (Fp p))) := do
  let labels ← asLabels (← need r "labels")
  let polys ← asPolys (p := p) (← need r "polys")
  let nvs ← asNats (← need r "pnvs")
  let bounds ← asOptNats (← need r "bounds")
  let hbs ← asOptNats (← need r "hbs")
  pure <| (labels.zip (polys.zip (nvs.zip (bounds.zip hbs)))).map
    fun (l, (q, (n, (b, h)))) => ⟨l, q, n, b, h⟩

/-- `rands rnvs`: the commitment states -/
def getRands (r : Req) : R (List (PST.Rand (Fp p))) := do
  let rs ← asPolys (p := p) (← need r "rands")
  let nvs ← asNats (← need r "rnvs")
  pure <| (rs.zip nvs).map fun (b, n) => ⟨b, n⟩

/-- `clabels cs ss cbounds`: the labelled commitments -/
def getLComms (r : Req) : R (List (PST.LComm (Fp p))) := do
  let labels ← asLabels (← need r "clabels")
  let cs ← asFes (p := p) (← need r "cs")
  let ss ← asOptFes (p := p) (← need r "ss")
  let bounds ← asOptNats (← need r "cbounds")
  pure <| (labels.zip (cs.zip (ss.zip bounds))).map fun (l, (c, (s, b))) => ⟨l, ⟨c, s⟩, b⟩

/-- `lclabels lccoeffs lcone lcterms` (as for `marlin.*`) -/
def getLCs (r : Req) : R (List (LC.LinComb (Fp p))) := do
  let labels ← asLabels (← need r "lclabels")
  let coeffs ← asFess (p := p) (← need r "lccoeffs")
  let ones ← asNatss (← need r "lcone")
  let terms ← asLabelss (← need r "lcterms")
  pure <| (labels.zip (coeffs.zip (ones.zip terms))).map fun (l, (cs, (os, ts))) =>
    ⟨l, (cs.zip (os.zip ts)).map fun (c, (o, t)) =>
      (c, if o != 0 then LC.LCTerm.one else LC.LCTerm.poly t)⟩

/-- `qlabels qplabels qpoints`: the query set in its iteration order -/
def getQueries (r : Req) : R (List (PST.Query (Fp p))) := do
  let ql ← asLabels (← need r "qlabels")
  let pl ← asLabels (← need r "qplabels")
  let pts ← asFess (p := p) (← need r "qpoints")
  pure (ql.zip (pl.zip pts))

/-- `elabels epoints evals`: the evaluations map -/
def getEvals (r : Req) : R (PST.Evals (Fp p)) := do
  let el ← asLabels (← need r "elabels")
  let pts ← asFess (p := p) (← need r "epoints")
  let vs ← asFes (p := p) (← need r "evals")
  pure <| (el.zip (pts.zip vs)).map fun (l, (z, v)) => ((l, z), v)

def getProofs (r : Req) : R (List (PST.Proof (Fp p))) := do
  let ws ← asFess (p := p) (← need r "ws")
  let rvs ← asOptFes (p := p) (← need r "rvs")
  pure (List.zipWith (fun w rv => ⟨w, rv⟩) ws rvs)

def vProofs (πs : List (PST.Proof (Fp p))) : List (String × Val) :=
  [("ws", vFes (πs.flatMap (·.w))), ("wlens", vNats (πs.map (·.w.length))),
   ("rvs", .l (πs.map fun π => vOptFe π.rv))]

/-- the outcome class of a model run as a label: `[]` = answered, else the bytes of the error
name (for the cases whose property names the error) -/
def kindReply {α : Type} (x : Except Err α) : String :=
  match x with
  | .ok _ => okReply [("kind", vNats [])]
  | .error e => okReply [("kind", vNats (e.name.toList.map (·.toNat)))]

def handlePST (r : Req) : R String := do
  match ← keys (p := p) r with
  | .error e => pure (errReply e)
  | .ok (ck, vk) =>
  match r.op with
  | "pst13.open_combinations" | "pst13.open_combinations.kind" =>
    let polys ← getLPolys (p := p) r
    let rands ← getRands (p := p) r
    let comms ← getLComms (p := p) r
    let lcs ← getLCs (p := p) r
    let qs ← getQueries (p := p) r
    let ξs ← asFes (← need r "xis")
    let out := PST.openCombinations ck polys rands comms lcs qs ξs
    if r.op.endsWith ".kind" then pure (kindReply out) else
    pure <| exceptReply out fun (πs, rest) =>
      vProofs πs ++ [("used", .n (ξs.length - rest.length))]
  | "pst13.batch_open" =>
    let polys ← getLPolys (p := p) r
    let rands ← getRands (p := p) r
    let comms ← getLComms (p := p) r
    let qs ← getQueries (p := p) r
    let ξs ← asFes (← need r "xis")
    pure <| exceptReply (PST.batchOpen ck (polys.zip (rands.zip comms)) qs ξs) fun (πs, rest) =>
      vProofs πs ++ [("used", .n (ξs.length - rest.length))]
  | "pst13.check_combinations" | "pst13.check_combinations.kind" =>
    let comms ← getLComms (p := p) r
    let lcs ← getLCs (p := p) r
    let qs ← getQueries (p := p) r
    let evals ← getEvals (p := p) r
    let πs ← getProofs (p := p) r
    let ξs ← asFes (← need r "xis")
    let rs ← asFes (← need r "rs")
    let out := PST.checkCombinations vk comms lcs qs evals πs ξs rs
    if r.op.endsWith ".kind" then pure (kindReply out) else
    pure <| match out, PST.checkCombinationsDefect vk comms lcs qs evals πs ξs rs with
      | .ok b, .ok d => okReply [("b", vBool b), ("defect", vFe d)]
      | .error e, _ => errReply e
      | _, .error e => errReply e
  | "pst13.batch_check" =>
    let comms ← getLComms (p := p) r
    let qs ← getQueries (p := p) r
    let evals ← getEvals (p := p) r
    let πs ← getProofs (p := p) r
    let ξs ← asFes (← need r "xis")
    let rs ← asFes (← need r "rs")
    pure <| exceptReply (PST.batchCheckQ vk comms qs evals πs ξs rs) fun b => [("b", vBool b)]
  | _ => .error "unknown-op"

/-- `pst13.check_vk`: `MarlinPST13::check` under an explicitly given verifier key (`vg vgamma vh vbh
nv`: the scalars of `g`, `gamma_g`, `h`, `beta_h`), so that single key elements can be replaced -/
def handleVK (r : Req) : R String := do
  let vk : PST.VK (Fp p) :=
    { g := ← asFe (← need r "vg"), gammaG := ← asFe (← need r "vgamma"), h := ← asFe (← need r "vh"),
      betaH := ← asFes (← need r "vbh"), numVars := ← asNat (← need r "nv"),
      supportedDegree := 0, maxDegree := 0 }
  let cs ← asFes (p := p) (← need r "cs")
  let z ← asFes (← need r "z")
  let vs ← asFes (← need r "vs")
  let w ← asFes (← need r "w")
  let rv ← asOptFe (← need r "rv")
  let xis ← asFes (← need r "xis")
  match r.op with
  | "pst13.check_vk" =>
    pure <| exceptReply (PST.check vk cs z vs ⟨w, rv⟩ xis) fun b =>
      [("b", vBool b), ("defect", vFe (PST.defect vk cs z vs ⟨w, rv⟩ xis))]
  | "pst13.batch_check_vk" =>
    -- one point label: the same claim through `batch_check` (`rs`: the verifier's randomizers)
    let rs ← asFes (← need r "rs")
    pure <| exceptReply (PST.batchCheckGroups vk [(cs, vs)] [z] [⟨w, rv⟩] xis rs) fun b =>
      [("b", vBool b)]
  | _ => .error "unknown-op"

/-- `none` = not an op of this module -/
def handle (p : Nat) (r : Req) : Option (Except String String) :=
  if r.op.startsWith "c15." then some (handleC15 (p := p) r)
  else if r.op == "pst13.check_vk" || r.op == "pst13.batch_check_vk" then some (handleVK (p := p) r)
  else if r.op.startsWith "pst13." then some (handlePST (p := p) r)
  else none

end DrvC15
end PCV
