/-
  PCV.Model.DrvC15 — driver requests of property C15 (op names start with "c15.").
-/
import PCV.Model.Wire
import PCV.Model.DrvUtil
namespace PCV
namespace DrvC15

/-- `none` = not an op of this module -/
def handle (p : Nat) (r : Req) : Option (Except String String) :=
  let _ := p
  let _ := r
  none

end DrvC15
end PCV
