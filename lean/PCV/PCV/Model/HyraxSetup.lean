/-
  PCV.Model.HyraxSetup — `HyraxPC::setup` and `HyraxPC::trim` (`poly-commit/src/hyrax/mod.rs`).

  `setup(_max_degree, num_vars, _rng)` derives `2^(n/2) + 1` group elements by hashing
  `PROTOCOL_NAME ‖ i` (Blake2s, `from_random_bytes`, a retry counter, cofactor clearing); neither the
  degree argument nor the RNG is read.  In exponent form the hash-to-curve map is an unknown function
  `gen : ℕ → F` of the counter `i` (DESIGN §2.1: the theorems hold for every such function, so for the
  real one); the model records WHICH counter every key element comes from.  `trim` clones the
  parameters, whatever it is asked.  Core Lean only.
-/
import PCV.Model.Hyrax
namespace PCV
namespace Hyrax

variable {F : Type}

/-- `HyraxUniversalParams { com_key, h }` -/
structure UParams (F : Type) where
  comKey : List F
  h : F
  deriving DecidableEq, Repr

/-- the counters hashed for the key of `n` variables: `0 … dim−1` for `com_key`, `dim` for `h`
(`points.pop()` takes the LAST of the `dim + 1` derived points) -/
def setupCounters (n : Nat) : List Nat × Nat := (List.range (2 ^ (n / 2)), 2 ^ (n / 2))

/-- `HyraxPC::setup`: `num_vars = None` and an odd `num_vars` are `InvalidNumberOfVariables`. -/
def setup (gen : Nat → F) (numVars : Option Nat) : Except Err (UParams F) :=
  match numVars with
  | none => .error .invalidNumVars
  | some n =>
    if n % 2 = 1 then .error .invalidNumVars
    else .ok ⟨(setupCounters n).1.map gen, gen (setupCounters n).2⟩

/-- `HyraxPC::trim(pp, _, _, _)`: `Ok((pp.clone(), pp.clone()))` -/
def trim (pp : UParams F) (_supportedDegree _hidingBound : Nat) (_bounds : Option (List Nat)) :
    Except Err (UParams F × UParams F) := .ok (pp, pp)

end Hyrax
end PCV
