/-
  PCV.Model.MLPC — `poly-commit/src/multilinear_pc/{mod.rs,data_structures.rs}` (the multilinear
  PST / XZZPD19 commitment, API `MultilinearPC::{setup, trim, commit, open, check}`) in exponent
  form (DESIGN §2.1, Appendix A "Multilinear PST").  A group element of G1, G2 or GT is its discrete
  log in `F`; `e(A,B)` is `A*B`; `multi_pairing` is a sum of products; an MSM is `dot`
  (`msm_bigint` truncates to the shorter operand).  A multilinear polynomial is its number of
  variables `nv` together with its `2^nv` hypercube evaluations (`to_evaluations()`, index bit `j` =
  variable `j`).  Core Lean only.
-/
import PCV.Model.Poly
namespace PCV
namespace MLPC

variable {F : Type} [Add F] [Mul F] [Sub F] [Neg F] [Zero F] [One F]

/-- `multilinear_pc::data_structures::UniversalParams` -/
structure UParams (F : Type) where
  numVars : Nat
  powersOfG : List (List F)
  powersOfH : List (List F)
  g : F
  h : F
  gMask : List F
  deriving DecidableEq, Repr

/-- `multilinear_pc::data_structures::CommitterKey` -/
structure CK (F : Type) where
  nv : Nat
  powersOfG : List (List F)
  powersOfH : List (List F)
  g : F
  h : F
  deriving DecidableEq, Repr

/-- `multilinear_pc::data_structures::VerifierKey` -/
structure VK (F : Type) where
  nv : Nat
  g : F
  h : F
  gMaskRandom : List F
  deriving DecidableEq, Repr

/-- `multilinear_pc::data_structures::Commitment` -/
structure Commitment (F : Type) where
  nv : Nat
  gProduct : F
  deriving DecidableEq, Repr

/-! ### `eq_extension`, `remove_dummy_variable` -/

/-- one entry of `eq_extension`: `ti*xi + ti*xi - xi - ti + 1` with `xi = 1` iff the bit is set -/
def eqEntry (ti : F) (bit : Bool) : F :=
  let xi : F := if bit then 1 else 0
  let tiXi := ti * xi
  tiXi + tiXi - xi - ti + 1

/-- row `i` of `eq_extension` for a `dim`-variate table: `x ↦ eq(tᵢ, bitᵢ(x))`, `x = 0 .. 2^dim − 1`
(`x >> i & 1 == 1` is `Nat.testBit x i`) -/
def eqRow (dim i : Nat) (ti : F) : List F :=
  (List.range (2 ^ dim)).map fun x => eqEntry ti (Nat.testBit x i)

/-- the `for i in 0..dim` loop of `eq_extension`, from index `i` on -/
def eqExtensionFrom (dim : Nat) : Nat → List F → List (List F)
  | _, [] => []
  | i, ti :: rest => eqRow dim i ti :: eqExtensionFrom dim (i + 1) rest

/-- `eq_extension(t)`: one `dim`-variate evaluation table per variable -/
def eqExtension (t : List F) : List (List F) := eqExtensionFrom t.length 0 t

/-- `remove_dummy_variable(poly, pad)`: `table[x] = poly[x << pad]` for `x < 2^(log2 len − pad)`;
panics if the length is not a power of two (or `pad` exceeds its logarithm: `usize` underflow). -/
def removeDummyVariable (poly : List F) (pad : Nat) : Except Err (List F) :=
  if pad = 0 then .ok poly
  else if poly.length ≠ 2 ^ Nat.log2 poly.length then .error .abort
  else if Nat.log2 poly.length < pad then .error .abort
  else
    let nv := Nat.log2 poly.length - pad
    .ok ((List.range (2 ^ nv)).map fun x => getD' poly (x <<< pad) 0)

/-! ### `setup` -/

/-- The loop `for i in (0..num_vars).rev()` of `setup`, entered with `cnt = i + 1`: `eqRev` is the
linked list `eq` read from the back (`pop_back`), `base` the running product, `eqArr` the list
built by `push_front`. -/
def eqArrLoop : Nat → List (List F) → List F → List (List F) → Except Err (List (List F))
  | 0, _, _, eqArr => .ok eqArr
  | i + 1, eqRev, base, eqArr =>
    match removeDummyVariable base i with
    | .error e => .error e
    | .ok tbl =>
      if i ≠ 0 then
        match eqRev with
        | [] => .error .abort                      -- `pop_back().unwrap()`
        | mul :: rest => eqArrLoop i rest (List.zipWith (· * ·) base mul) (tbl :: eqArr)
      else eqArrLoop i eqRev base (tbl :: eqArr)

/-- `for i in 0..num_vars { let eq = eq_arr.pop_front().unwrap();
pp_powers.extend((0..(1 << (num_vars - i))).map(|x| eq[x])) }`, entered with `cnt = num_vars − i`. -/
def flattenLoop (numVars : Nat) : Nat → Nat → List (List F) → Except Err (List F)
  | 0, _, _ => .ok []
  | cnt + 1, i, eqArr =>
    match eqArr with
    | [] => .error .abort                          -- `pop_front().unwrap()`
    | eq :: rest =>
      if eq.length < 2 ^ (numVars - i) then .error .abort   -- `eq[x]` out of bounds
      else
        match flattenLoop numVars cnt (i + 1) rest with
        | .error e => .error e
        | .ok tl => .ok ((List.range (2 ^ (numVars - i))).map (fun x => getD' eq x 0) ++ tl)

/-- `for i in 0..num_vars { let size = 1 << (num_vars - i); pp[start..start+size]; start += size }`,
entered with `cnt = num_vars − i`. -/
def resliceLoop (numVars : Nat) (pp : List F) : Nat → Nat → Nat → Except Err (List (List F))
  | 0, _, _ => .ok []
  | cnt + 1, i, start =>
    let size := 2 ^ (numVars - i)
    if start + size > pp.length then .error .abort         -- slice out of range
    else
      match resliceLoop numVars pp cnt (i + 1) (start + size) with
      | .error e => .error e
      | .ok tl => .ok (slice pp start (start + size) :: tl)

/-- `batch_mul`: every scalar times one base -/
def batchMul (b : F) (ss : List F) : List F := ss.map (b * ·)

/-- `MultilinearPC::setup(num_vars, rng)`.  `g`, `h` are the scalars of the two random generators
and `t` the `num_vars` field draws that follow them (draw order: `g`, `h`, `t₀ … t_{nv−1}`). -/
def setup (numVars : Nat) (g h : F) (t : List F) : Except Err (UParams F) :=
  if numVars = 0 then .error .abort                  -- `assert!(num_vars > 0)`
  else if t.length ≠ numVars then .error .abort      -- (model only: `t` must be the `num_vars` draws)
  else
    match (eqExtension t).reverse with
    | [] => .error .abort                            -- `eq.pop_back().unwrap()`
    | base :: eqRev =>
      match eqArrLoop numVars eqRev base [] with
      | .error e => .error e
      | .ok eqArr =>
        match flattenLoop numVars numVars 0 eqArr with
        | .error e => .error e
        | .ok ppPowers =>
          let ppG := batchMul g ppPowers
          let ppH := batchMul h ppPowers
          match resliceLoop numVars ppG numVars 0 0 with
          | .error e => .error e
          | .ok powersOfG =>
            match resliceLoop numVars ppH numVars 0 0 with
            | .error e => .error e
            | .ok powersOfH => .ok ⟨numVars, powersOfG, powersOfH, g, h, batchMul g t⟩

/-! ### `trim` -/

/-- `MultilinearPC::trim(params, supported_num_vars)`: `assert!(supported ≤ params.num_vars)`, then
the slices `[to_reduce..]` of the three tables (a slice start beyond the length panics). -/
def trim (pp : UParams F) (supported : Nat) : Except Err (CK F × VK F) :=
  if ¬ supported ≤ pp.numVars then .error .abort
  else
    let toReduce := pp.numVars - supported
    if toReduce > pp.powersOfH.length ∨ toReduce > pp.powersOfG.length ∨ toReduce > pp.gMask.length
    then .error .abort
    else .ok (⟨supported, pp.powersOfG.drop toReduce, pp.powersOfH.drop toReduce, pp.g, pp.h⟩,
              ⟨supported, pp.g, pp.h, pp.gMask.drop toReduce⟩)

/-! ### `commit` -/

/-- `MultilinearPC::commit(ck, polynomial)`: `assert_eq!(polynomial.num_vars(), ck.nv)`, then
`msm_bigint(&ck.powers_of_g[0], evaluations)` (an empty table list panics on the index). -/
def commit (ck : CK F) (nv : Nat) (evals : List F) : Except Err (Commitment F) :=
  if nv ≠ ck.nv then .error .abort
  else
    match ck.powersOfG with
    | [] => .error .abort                            -- `ck.powers_of_g[0]`
    | p0 :: _ => .ok ⟨nv, dot p0 evals⟩

/-! ### `open` -/

/-- One iteration of the inner `for b in 0..(1 << (k-1))` loop of `open`:
`q[b] = r[2b+1] − r[2b]`, `r'[b] = r[2b]·(1 − point_k) + r[2b+1]·point_k`.  Returns `(q, r')`. -/
def foldStep (z : F) : List F → List F × List F
  | a :: b :: rest =>
    let (q, r') := foldStep z rest
    ((b - a) :: q, (a * (1 - z) + b * z) :: r')
  | _ => ([], [])

/-- `(0..(1 << k)).map(|x| q[k][x >> 1])`: every quotient evaluation twice -/
def dup : List F → List F
  | [] => []
  | a :: as => a :: a :: dup as

/-- The loop `for i in 0..nv` of `open`, entered with `cnt = nv − i`, `hs = ck.powers_of_h[i..]`,
`r = r[nv − i]`, `point = point[i..]`.  `point[i]` and `ck.powers_of_h[i]` panic when out of range. -/
def openLoop : Nat → List (List F) → List F → List F → Except Err (List F)
  | 0, _, _, _ => .ok []
  | cnt + 1, hs, r, point =>
    match point with
    | [] => .error .abort                            -- `point[i]`
    | z :: zs =>
      let qr := foldStep z r
      match hs with
      | [] => .error .abort                          -- `ck.powers_of_h[i]`
      | hi :: hs' =>
        let pi := dot hi (dup qr.1)
        match openLoop cnt hs' qr.2 zs with
        | .error e => .error e
        | .ok ps => .ok (pi :: ps)

/-- `MultilinearPC::open(ck, polynomial, point)`: `assert_eq!(polynomial.num_vars(), ck.nv)`,
`assert_eq!(point.len(), ck.nv)`; the evaluation vector of a `DenseMultilinearExtension` has length
`2^nv` by construction (`from_evaluations_vec` asserts it), which the model checks here. -/
def «open» (ck : CK F) (nv : Nat) (evals : List F) (point : List F) : Except Err (List F) :=
  if nv ≠ ck.nv then .error .abort
  else if point.length ≠ ck.nv then .error .abort
  else if evals.length ≠ 2 ^ nv then .error .abort
  else openLoop nv ck.powersOfH evals point

/-! ### `check` -/

/-- `(0..vk.nv).map(|i| vk.g_mask_random[i] − g_mul[i])` with `g_mul = g.batch_mul(point)`
(the caller has checked that both lists have at least `nv` entries) -/
def pairingLefts (vk : VK F) (point : List F) : List F :=
  List.zipWith (· - ·) (vk.gMaskRandom.take vk.nv) ((batchMul vk.g point).take vk.nv)

/-- The defect of `MultilinearPC::check`: `left − right` with
`left = e(C − v·g, h)`, `right = ∏ᵢ e(g_mask[i] − zᵢ·g, πᵢ)`. -/
def defect (vk : VK F) (c : Commitment F) (point : List F) (v : F) (proofs : List F) : F :=
  (c.gProduct - vk.g * v) * vk.h - dot (pairingLefts vk point) proofs

/-- `MultilinearPC::check`: `assert_eq!(point.len(), vk.nv)`; aborts when `g_mask_random` has fewer
than `vk.nv` entries (index out of bounds) and when `proof.proofs.len() ≠ vk.nv`
(`multi_miller_loop` uses `zip_eq`).  `commitment.nv` is never read. -/
def check [DecidableEq F] (vk : VK F) (c : Commitment F) (point : List F) (v : F)
    (proofs : List F) : Except Err Bool :=
  if point.length ≠ vk.nv then .error .abort
  else if vk.gMaskRandom.length < vk.nv then .error .abort
  else if proofs.length ≠ vk.nv then .error .abort
  else .ok (decide (defect vk c point v proofs = 0))

/-! ### specifications -/

/-- `DenseMultilinearExtension::fix_variables` for one variable:
`poly[b] = poly[2b] + r·(poly[2b+1] − poly[2b])` -/
def fixVar (r : F) : List F → List F
  | a :: b :: rest => (a + r * (b - a)) :: fixVar r rest
  | _ => []

/-- `DenseMultilinearExtension::evaluate(point)` = `fix_variables(point)[0]`: the lowest variable
(index bit 0) is fixed first, at `point[0]`. -/
def mleEval (evals : List F) : List F → F
  | [] => evals.headD 0
  | z :: zs => mleEval (fixVar z evals) zs

/-- interleave: `[(1−a)·e₀, a·e₀, (1−a)·e₁, a·e₁, …]` -/
def weave (a : F) : List F → List F
  | [] => []
  | e :: es => ((1 - a) * e) :: (a * e) :: weave a es

/-- the `eq`-tensor of `t`: entry `x` is `∏ⱼ eq(tⱼ, bitⱼ(x))`, `2^|t|` entries -/
def eqTable : List F → List F
  | [] => [1]
  | a :: ts => weave a (eqTable ts)

/-- `[c·eqTable t, c·eqTable (t.drop 1), …]` (`|t|` tables): a well-formed `powers_of_g` / `powers_of_h` -/
def tables (c : F) : List F → List (List F)
  | [] => []
  | a :: ts => batchMul c (eqTable (a :: ts)) :: tables c ts

/-- the parameters `setup` makes from the trapdoor `t` and generators `g`, `h` (theorem
`setup_eq`, C09) -/
def wfParams (g h : F) (t : List F) : UParams F :=
  ⟨t.length, tables g t, tables h t, g, h, batchMul g t⟩

end MLPC
end PCV
