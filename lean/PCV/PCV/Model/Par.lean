/-
  PCV.Model.Par — schedule-explicit models of the parallel iterator shapes that the crate uses
  under its `parallel` feature (`ark_std::cfg_iter!`, `cfg_into_iter!`, `cfg_iter_mut!` expand to
  rayon's `par_iter()`, `into_par_iter()`, `par_iter_mut()`; without the feature to the sequential
  `iter()`, `into_iter()`, `iter_mut()`).

  rayon drives an indexed producer by recursively splitting it in two (`Producer::split_at`) until
  its adaptive splitter (which depends on the number of worker threads and on work stealing)
  decides to stop; every leaf is folded sequentially and the partial results are combined pairwise
  on the way up (`bridge_producer_consumer::helper`, `Reducer::reduce(left, right)`).  Which tree
  arises is a run-time matter; a `Shape` is an arbitrary such tree with arbitrary split indices, so
  a statement quantified over all shapes covers every thread count and every steal pattern, and
  `Shape.leaf` is the sequential build (no `parallel` feature) or a pool with one worker.

  Core only (no Mathlib import).
-/
namespace PCV
namespace Par

/-- A work-splitting tree: `leaf` = this piece is processed sequentially by one worker;
`node k l r` = the piece is split at index `k` (`split_at(k)`), the left part is handled according
to `l`, the right part according to `r`, and the two results are combined left-then-right. -/
inductive Shape where
  | leaf : Shape
  | node (k : Nat) (l r : Shape) : Shape
  deriving Repr, DecidableEq

variable {α β γ : Type}

/-- `ParallelIterator::sum / product / reduce(identity, op)` (terminals of
`utils.rs inner_product`, `hyrax/mod.rs open: r_lt`, `marlin_pst13_pc batch_check: temp`):
each leaf folds its piece from the identity `e` (`Folder::consume_iter`), a node combines
`f left right` (`Reducer::reduce`). -/
def parReduce : Shape → (α → α → α) → α → List α → α
  | .leaf, f, e, xs => xs.foldl f e
  | .node k l r, f, e, xs => f (parReduce l f e (xs.take k)) (parReduce r f e (xs.drop k))

/-- `par_iter().map(g).collect::<Vec<_>>()` (and `zip`, `chain` adapters, which only change the
element type): indexed collection writes the image of element `i` into slot `i`; a node's result is
the left result followed by the right result. -/
def parMap : Shape → (α → β) → List α → List β
  | .leaf, g, xs => xs.map g
  | .node k l r, g, xs => parMap l g (xs.take k) ++ parMap r g (xs.drop k)

/-- sequential reference of `iter().enumerate().map(|(i, x)| g i x)` on a piece that starts at
global index `off` -/
def mapIdxFrom (g : Nat → α → β) : Nat → List α → List β
  | _, [] => []
  | off, x :: xs => g off x :: mapIdxFrom g (off + 1) xs

/-- `par_iter().enumerate().map(|(i, x)| g i x).collect()` (`marlin_pst13_pc check`): `split_at(k)`
of an `Enumerate` producer gives the right half the base index `off + k'` where `k'` is the number
of elements that went left. -/
def parMapIdx : Shape → (Nat → α → β) → Nat → List α → List β
  | .leaf, g, off, xs => mapIdxFrom g off xs
  | .node k l r, g, off, xs =>
      parMapIdx l g off (xs.take k) ++ parMapIdx r g (off + (xs.take k).length) (xs.drop k)

/-- componentwise concatenation of two pairs of lists (the reducer of rayon's `unzip`) -/
def appendPair (a b : List β × List γ) : List β × List γ := (a.1 ++ b.1, a.2 ++ b.2)

/-- `par_iter().map(g).unzip()` (`hyrax/mod.rs commit`, `marlin_pst13_pc check`): each leaf
produces its pair of vectors, a node appends them componentwise. -/
def parUnzip : Shape → (α → β × γ) → List α → List β × List γ
  | .leaf, g, xs => (xs.map g).unzip
  | .node k l r, g, xs => appendPair (parUnzip l g (xs.take k)) (parUnzip r g (xs.drop k))

/-- One closure call of `par_iter_mut().enumerate().for_each(|(i, x)| *x = u i *x)`: cell `i` of
the vector is replaced by `u i` of its old content; no other cell is read or written.
An index outside the vector touches nothing. -/
def applyAt (u : Nat → α → α) (v : List α) (i : Nat) : List α :=
  (v[i]?).elim v (fun x => v.set i (u i x))

/-- `for_each` over disjoint `iter_mut` cells executed in the global order `order` (any
interleaving of the workers' closure calls is such an order because each call is atomic with
respect to its own cell). -/
def forEachDisjoint (u : Nat → α → α) (order : List Nat) (v : List α) : List α :=
  order.foldl (applyAt u) v

/-- the sequential `iter_mut().enumerate().for_each(..)`: indices `0, 1, …, n-1` in order -/
def forEachSeq (u : Nat → α → α) (v : List α) : List α :=
  forEachDisjoint u (List.range v.length) v

end Par
end PCV
