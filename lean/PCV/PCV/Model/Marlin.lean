/-
  PCV.Model.Marlin — `poly-commit/src/marlin/marlin_pc/mod.rs` (MarlinKZG10) and the shared helpers
  of `poly-commit/src/marlin/mod.rs`, in exponent form (DESIGN Appendix A).
  Sponge challenges are an explicit list consumed in order (one per polynomial, one more per
  degree-bounded polynomial); RNG draws likewise.
-/
import PCV.Model.KZG10
import PCV.Model.QuerySet
namespace PCV
namespace Marlin

variable {F : Type} [Add F] [Mul F] [Sub F] [Neg F] [Zero F] [One F] [DecidableEq F]

abbrev Label := LC.Label

/-- `kzg10::UniversalParams` (`powers_of_gamma_g` is a dense map `0..=D+1`) -/
structure UParams (F : Type) where
  powers : List F
  gammaPowers : List F
  h : F
  betaH : F
  deriving DecidableEq, Repr

/-- `marlin_pc::CommitterKey` -/
structure CK (F : Type) where
  powers : List F
  shiftedPowers : Option (List F)
  gammaPowers : List F
  bounds : Option (List Nat)
  maxDegree : Nat
  deriving DecidableEq, Repr

/-- `marlin_pc::VerifierKey` -/
structure VK (F : Type) where
  vk : KZG.VK F
  shifts : Option (List (Nat × F))
  maxDegree : Nat
  supported : Nat
  deriving DecidableEq, Repr

/-- `marlin_pc::Commitment` -/
structure Comm (F : Type) where
  comm : F
  shifted : Option F
  deriving DecidableEq, Repr

/-- `marlin_pc::Randomness`: blinding polynomials (`[]` = empty) -/
structure Rand (F : Type) where
  rand : List F
  shifted : Option (List F)
  deriving DecidableEq, Repr

/-- a `LabeledPolynomial` -/
structure LPoly (F : Type) where
  label : Label
  poly : List F
  bound : Option Nat
  hb : Option Nat
  deriving DecidableEq, Repr

/-- a `LabeledCommitment` -/
structure LComm (F : Type) where
  label : Label
  comm : Comm F
  bound : Option Nat
  deriving DecidableEq, Repr

/-! ### trim -/

def insertSorted (x : Nat) : List Nat → List Nat
  | [] => [x]
  | y :: ys => if x < y then x :: y :: ys else if x = y then y :: ys else y :: insertSorted x ys

/-- `v.sort(); v.dedup()` -/
def sortDedup : List Nat → List Nat
  | [] => []
  | x :: xs => insertSorted x (sortDedup xs)

/-- `MarlinKZG10::trim` -/
def trim (pp : UParams F) (supported hidingB : Nat) (bounds : Option (List Nat)) :
    Except Err (CK F × VK F) :=
  match pp.powers, pp.gammaPowers with
  | [], _ => .error .abort
  | _, [] => .error .abort
  | g :: _, gg :: _ =>
    let maxDegree := pp.powers.length - 1
    if supported > maxDegree then .error .trimTooLarge
    else if hidingB + 2 > pp.gammaPowers.length then .error .abort   -- `powers_of_gamma_g[&i]` panics
    else
      let powers := pp.powers.take (supported + 1)
      let gp := pp.gammaPowers.take (hidingB + 2)
      let kvk : KZG.VK F := ⟨g, gg, pp.h, pp.betaH⟩
      match bounds.map sortDedup with
      | none => .ok (⟨powers, none, gp, none, maxDegree⟩, ⟨kvk, none, maxDegree, supported⟩)
      | some [] => .ok (⟨powers, none, gp, some [], maxDegree⟩, ⟨kvk, none, maxDegree, supported⟩)
      | some (b :: bs) =>
        let last := (b :: bs).getLastD 0
        if last > maxDegree then .error .abort     -- usize underflow / slice out of range
        else
          let shifted := pp.powers.drop (maxDegree - last)
          let shifts := (b :: bs).map fun d => (d, getD' pp.powers (maxDegree - d) 0)
          .ok (⟨powers, some shifted, gp, some (b :: bs), maxDegree⟩,
               ⟨kvk, some shifts, maxDegree, supported⟩)

/-- `VerifierKey::get_shift_power` -/
def VK.shiftPower (vk : VK F) (bound : Nat) : Option F :=
  match vk.shifts with
  | none => none
  | some l => (l.find? (·.1 = bound)).map (·.2)

/-! ### commit -/

/-- `KZG10::check_degrees_and_bounds` -/
def checkDegreesAndBounds (maxDegree : Nat) (bounds : Option (List Nat)) (p : List F)
    (bound : Option Nat) : Except Err Unit :=
  match bound with
  | none => .ok ()
  | some b =>
    match bounds with
    | none => .error .unsupportedBound
    | some bs =>
      if ¬ bs.contains b then .error .unsupportedBound
      else if b < pdeg p ∨ b > maxDegree then .error .incorrectBound
      else .ok ()

/-- `CommitterKey::shifted_powers(Some(bound))` as a `kzg10::Powers` -/
def shiftedPowersFor (ck : CK F) (bound : Nat) : Option (KZG.Powers F) :=
  match ck.shiftedPowers, ck.bounds with
  | some sp, some bs => some ⟨sp.drop (bs.getLastD 0 - bound), ck.gammaPowers⟩
  | _, _ => none

/-- one polynomial of `MarlinKZG10::commit` -/
def commitOne (ck : CK F) (p : LPoly F) (rng : Bool) (draws : List F) :
    Except Err (Comm F × Rand F × List F) :=
  match checkDegreesAndBounds ck.maxDegree ck.bounds p.poly p.bound with
  | .error e => .error e
  | .ok () =>
    if p.hb.isSome ∧ rng = false then .error .abort     -- `OptionalRng` panics when drawn from
    else
    match KZG.commit ⟨ck.powers, ck.gammaPowers⟩ p.poly p.hb true draws with
    | .error e => .error e
    | .ok (c, r, draws') =>
      match p.bound with
      | none => .ok (⟨c, none⟩, ⟨r, none⟩, draws')
      | some b =>
        match shiftedPowersFor ck b with
        | none => .error .unsupportedBound
        | some sp =>
          match KZG.commit sp p.poly p.hb true draws' with
          | .error e => .error e
          | .ok (s, rs, draws'') => .ok (⟨c, some s⟩, ⟨r, some rs⟩, draws'')

/-- `MarlinKZG10::commit` -/
def commit (ck : CK F) : List (LPoly F) → Bool → List F →
    Except Err (List (LComm F) × List (Rand F) × List F)
  | [], _, draws => .ok ([], [], draws)
  | p :: ps, rng, draws =>
    match commitOne ck p rng draws with
    | .error e => .error e
    | .ok (c, r, draws') =>
      match commit ck ps rng draws' with
      | .error e => .error e
      | .ok (cs, rs, d) => .ok (⟨p.label, c, p.bound⟩ :: cs, r :: rs, d)

/-! ### open -/

/-- accumulators of the prover's loop:
`p`, `r`, `shifted_w`, `shifted_r`, `shifted_r_witness`, `enforce_degree_bound` -/
structure OpenAcc (F : Type) where
  p : List F
  r : List F
  sw : List F
  sr : List F
  srw : List F
  enforce : Bool

/-- `shift_polynomial`: zero stays zero, otherwise prepend `largest_bound - bound` zeros -/
def shiftPoly (ck : CK F) (w : List F) (bound : Nat) : List F :=
  if isZeroPoly w then [] else pshift ((ck.bounds.getD []).getLastD 0 - bound) w

/-- the loop of `MarlinKZG10::open`; returns the accumulators and the unused challenges -/
def openLoop (ck : CK F) (z : F) : List (LPoly F) → List (Rand F) → List F → OpenAcc F →
    Except Err (OpenAcc F × List F)
  | p :: ps, st :: sts, ξs, acc =>
    if p.bound.isSome ≠ st.shifted.isSome then .error .abort      -- assert_eq!
    else
    match checkDegreesAndBounds ck.maxDegree ck.bounds p.poly p.bound with
    | .error e => .error e
    | .ok () =>
      match ξs with
      | [] => .error .abort                      -- the model's challenge list ran out
      | ξ :: ξs' =>
        let acc1 : OpenAcc F := { acc with p := padd acc.p (pscale ξ p.poly),
                                           r := padd acc.r (pscale ξ st.rand) }
        match p.bound, st.shifted with
        | some b, some rs =>
          match ξs' with
          | [] => .error .abort
          | ξ' :: ξs'' =>
            let w := (divLin p.poly z).1
            let wr := if isZeroPoly rs then [] else (divLin rs z).1
            let acc2 : OpenAcc F := { acc1 with
              sw := padd acc1.sw (pscale ξ' (shiftPoly ck w b)),
              sr := padd acc1.sr (pscale ξ' rs),
              srw := padd acc1.srw (pscale ξ' wr),
              enforce := true }
            openLoop ck z ps sts ξs'' acc2
        | _, _ => openLoop ck z ps sts ξs' acc1
  | _, _, ξs, acc => .ok (acc, ξs)

/-- `MarlinKZG10::open` -/
def «open» (ck : CK F) (ps : List (LPoly F)) (z : F) (sts : List (Rand F)) (ξs : List F) :
    Except Err (KZG.Proof F × List F) :=
  match openLoop ck z ps sts ξs ⟨[], [], [], [], [], false⟩ with
  | .error e => .error e
  | .ok (acc, rest) =>
    match KZG.open ⟨ck.powers, ck.gammaPowers⟩ acc.p z acc.r with
    | .error e => .error e
    | .ok π =>
      if acc.enforce then
        match ck.shiftedPowers with
        | none => .error .abort                 -- `.unwrap()` on `None`
        | some sp =>
          match KZG.openWith ⟨sp, ck.gammaPowers⟩ z acc.sr acc.sw (some acc.srw) with
          | .error e => .error e
          | .ok πs =>
            .ok (⟨π.w + πs.w, match π.rv with
                               | none => none
                               | some v => some (v + KZG.rvVal πs.rv)⟩, rest)
      else .ok (π, rest)

/-! ### check -/

/-- `Marlin::accumulate_commitments_and_values`; returns `(Ĉ, v̂)` and the unused challenges -/
def accumulate (vk : VK F) : List (LComm F) → List F → List F → Except Err ((F × F) × List F)
  | c :: cs, v :: vs, ξs =>
    if c.bound.isSome ≠ c.comm.shifted.isSome then .error .abort     -- assert_eq!
    else
    match ξs with
    | [] => .error .abort
    | ξ :: ξs' =>
      match c.bound, c.comm.shifted with
      | some b, some s =>
        match ξs' with
        | [] => .error .abort
        | ξ' :: ξs'' =>
          match vk.shiftPower b with
          | none => .error .unsupportedBound
          | some sp =>
            match accumulate vk cs vs ξs'' with
            | .error e => .error e
            | .ok ((C, V), rest) => .ok ((ξ * c.comm.comm + ξ' * (s - v * sp) + C, ξ * v + V), rest)
      | _, _ =>
        match accumulate vk cs vs ξs' with
        | .error e => .error e
        | .ok ((C, V), rest) => .ok ((ξ * c.comm.comm + C, ξ * v + V), rest)
  | _, _, ξs => .ok ((0, 0), ξs)

/-- `MarlinKZG10::check` -/
def check (vk : VK F) (cs : List (LComm F)) (z : F) (vs : List F) (π : KZG.Proof F) (ξs : List F) :
    Except Err (Bool × List F) :=
  match accumulate vk cs vs ξs with
  | .error e => .error e
  | .ok ((C, V), rest) => .ok (KZG.check vk.vk C z V π, rest)

/-! ### batch_open / batch_check (grouping by point label, BTreeMap/BTreeSet order) -/

/-- a query: (polynomial label, (point label, point)) -/
abbrev Query (F : Type) := Label × (Label × F)

/-- insert `l` into a sorted, duplicate-free label list (`BTreeSet::insert`) -/
def insertLabel (l : Label) : List Label → List Label
  | [] => [l]
  | y :: ys => if QS.ltLabel l y then l :: y :: ys else if l = y then y :: ys else y :: insertLabel l ys

/-- `query_to_labels_map`: groups in point-label order; the point of a group is the point of the
first query (in iteration order of the query *set*) carrying that point label -/
def groupInsert (q : Query F) : List (Label × (F × List Label)) → List (Label × (F × List Label))
  | [] => [(q.2.1, (q.2.2, [q.1]))]
  | g :: gs =>
    if QS.ltLabel q.2.1 g.1 then (q.2.1, (q.2.2, [q.1])) :: g :: gs
    else if q.2.1 = g.1 then (g.1, (g.2.1, insertLabel q.1 g.2.2)) :: gs
    else g :: groupInsert q gs

def groupQueries (qs : List (Query F)) : List (Label × (F × List Label)) :=
  qs.foldl (fun acc q => groupInsert q acc) []

/-- last-write-wins lookup of a label in a list (the `BTreeMap::collect` of labelled items) -/
def lookupLast {α : Type} (lbl : α → Label) (l : Label) (xs : List α) : Option α :=
  xs.foldl (fun acc x => if lbl x = l then some x else acc) none

def lookupEval (evals : List ((Label × F) × F)) (l : Label) (z : F) : Option F :=
  (evals.foldl (fun acc e => if e.1 = (l, z) then some e.2 else acc) none)

/-- gather the polynomials / states of one group -/
def gatherPolys (polys : List (LPoly F)) (sts : List (Rand F)) : List Label →
    Except Err (List (LPoly F) × List (Rand F))
  | [] => .ok ([], [])
  | l :: ls =>
    match lookupLast (fun (x : LPoly F × Rand F) => x.1.label) l (polys.zip sts) with
    | none => .error .missingPolynomial
    | some (p, st) =>
      match gatherPolys polys sts ls with
      | .error e => .error e
      | .ok (ps, ss) => .ok (p :: ps, st :: ss)

/-- `MarlinKZG10::batch_open` over an already-sorted query *set* given as a list -/
def batchOpenGroups (ck : CK F) (polys : List (LPoly F)) (sts : List (Rand F)) :
    List (Label × (F × List Label)) → List F → Except Err (List (KZG.Proof F) × List F)
  | [], ξs => .ok ([], ξs)
  | g :: gs, ξs =>
    match gatherPolys polys sts g.2.2 with
    | .error e => .error e
    | .ok (ps, ss) =>
      match Marlin.open ck ps g.2.1 ss ξs with
      | .error e => .error e
      | .ok (π, ξs') =>
        match batchOpenGroups ck polys sts gs ξs' with
        | .error e => .error e
        | .ok (πs, rest) => .ok (π :: πs, rest)

def batchOpen (ck : CK F) (polys : List (LPoly F)) (sts : List (Rand F)) (qs : List (Query F))
    (ξs : List F) : Except Err (List (KZG.Proof F) × List F) :=
  batchOpenGroups ck polys sts (groupQueries qs) ξs

def gatherComms (comms : List (LComm F)) (evals : List ((Label × F) × F)) (z : F) : List Label →
    Except Err (List (LComm F) × List F)
  | [] => .ok ([], [])
  | l :: ls =>
    match lookupLast (fun (c : LComm F) => c.label) l comms with
    | none => .error .missingPolynomial
    | some c =>
      if c.bound.isSome ≠ c.comm.shifted.isSome then .error .abort else
      match lookupEval evals l z with
      | none => .error .missingEvaluation
      | some v =>
        match gatherComms comms evals z ls with
        | .error e => .error e
        | .ok (cs, vs) => .ok (c :: cs, v :: vs)

/-- `Marlin::combine_and_normalize` -/
def combineGroups (vk : VK F) (comms : List (LComm F)) (evals : List ((Label × F) × F)) :
    List (Label × (F × List Label)) → List F → Except Err (List (F × F × F) × List F)
  | [], ξs => .ok ([], ξs)
  | g :: gs, ξs =>
    match gatherComms comms evals g.2.1 g.2.2 with
    | .error e => .error e
    | .ok (cs, vs) =>
      match accumulate vk cs vs ξs with
      | .error e => .error e
      | .ok ((C, V), ξs') =>
        match combineGroups vk comms evals gs ξs' with
        | .error e => .error e
        | .ok (rest, r) => .ok ((C, g.2.1, V) :: rest, r)

/-- `MarlinKZG10::batch_check` -/
def batchCheck (vk : VK F) (comms : List (LComm F)) (qs : List (Query F))
    (evals : List ((Label × F) × F)) (πs : List (KZG.Proof F)) (ξs rs : List F) :
    Except Err Bool :=
  match combineGroups vk comms evals (groupQueries qs) ξs with
  | .error e => .error e
  | .ok (trip, _) =>
    if πs.length ≠ trip.length then .error .abort      -- assert_eq!(proof.len(), combined_queries.len())
    else KZG.batchCheck vk.vk (trip.map (·.1)) (trip.map (·.2.1)) (trip.map (·.2.2)) πs rs

end Marlin
end PCV
