/-
  PCV.Model.PST13LC — `MarlinPST13::open_combinations` / `check_combinations`
  (`poly-commit/src/marlin/marlin_pst13_pc/mod.rs`), which forward to the generic helpers
  `Marlin::open_combinations` / `Marlin::check_combinations` of `poly-commit/src/marlin/mod.rs`
  with `PC = MarlinPST13`.  Underneath sit the trait-default `batch_open` of `lib.rs` (PST13 has no
  override) and `MarlinPST13::batch_check` with `Marlin::combine_and_normalize(.., vk = None)`.

  Exponent form as in `PCV.Model.PST13`; labels are byte lists; a `BTreeMap` built by `collect` is a
  list with last-write-wins lookup (`Marlin.lookupLast`); the query *set* is handed over in its
  iteration order and grouped here (`groupQueries`).  A polynomial carries the `num_vars` it was
  declared over (`&p + &q` takes the maximum; `P::zero()` is declared over `0` variables).
  Core Lean only.
-/
import PCV.Model.PST13
import PCV.Model.MarlinLC
namespace PCV
namespace PST

variable {F : Type} [Add F] [Mul F] [Sub F] [Neg F] [Zero F] [One F] [DecidableEq F]

abbrev Label := LC.Label

/-- `LabeledPolynomial<F, SparsePolynomial<F, SparseTerm>>`; `nv` is `polynomial.num_vars()`.
(`MarlinPST13::commit`/`open` never read `degree_bound`, the combination code does.) -/
structure LPoly (F : Type) where
  label : Label
  poly : MVPoly F
  nv : Nat
  bound : Option Nat
  hb : Option Nat
  deriving DecidableEq, Repr

/-- `marlin_pst13_pc::Randomness`: the blinding polynomial and the `num_vars` it is declared over
(`Randomness::empty()` is `⟨[], 0⟩`) -/
structure Rand (F : Type) where
  blind : MVPoly F
  nv : Nat
  deriving DecidableEq, Repr

/-- `LabeledCommitment<marlin_pc::Commitment<E>>` (the commitment type of MarlinPST13) -/
abbrev LComm (F : Type) := Marlin.LComm F

/-- `Randomness += (f, &other)`: `self.blinding_polynomial += (f, &other.blinding_polynomial)` -/
def Rand.addScaled (a : Rand F) (f : F) (b : Rand F) : Rand F :=
  ⟨addScaledMV a.blind f b.blind, max a.nv b.nv⟩

/-! ### `Marlin::open_combinations`: the per-combination loop -/

/-- accumulators of one pass of the `for lc in lc_s` loop: `poly` (with its `num_vars`),
`randomness`, `combine_commitments(coeffs_and_comms)`, `degree_bound`, `hiding_bound` -/
structure LCAcc (F : Type) where
  poly : MVPoly F
  nv : Nat
  rand : Rand F
  comm : F
  shifted : Option F
  bound : Option Nat
  hb : Option Nat
  deriving DecidableEq, Repr

/-- one `(coeff, comm)` of `Marlin::combine_commitments` -/
def addShifted (sh : Option F) (coeff : F) (cs : Option F) : Option F :=
  match cs with
  | none => sh
  | some s => some (sh.getD 0 + coeff * s)

/-- `poly += (coeff, cur_poly)`, `randomness += (coeff, cur_state)`,
`coeffs_and_comms.push((coeff, cur_comm))`, `hiding_bound = max(..)` -/
def LCAcc.add (a : LCAcc F) (coeff : F) (p : LPoly F) (st : Rand F) (c : LComm F) : LCAcc F :=
  { a with poly := addScaledMV a.poly coeff p.poly, nv := max a.nv p.nv,
           rand := a.rand.addScaled coeff st,
           comm := a.comm + coeff * c.comm.comm,
           shifted := addShifted a.shifted coeff c.comm.shifted,
           hb := Marlin.maxHiding a.hb p.hb }

/-- polynomial, its state, its commitment: a value of `label_map` -/
abbrev Trip (F : Type) := LPoly F × Rand F × LComm F

/-- the decision of the degree-bound policy for a named polynomial whose `degree_bound()` is
`bound`, in a combination of `numTerms = lc.len()` terms (constants counted) with coefficient
`coeff`: `none` = the term is added, otherwise the refusal -/
def policy (numTerms : Nat) (bound : Option Nat) (coeff : F) : Option Err :=
  if numTerms = 1 ∧ bound.isSome then
    (if coeff ≠ 1 then some .abort else none)            -- assert!(coeff.is_one())
  else if bound.isSome then some .equationHasDegreeBounds
  else none

/-- one term of a combination on the prover's side (`lc.iter().filter(|(_, l)| !l.is_one())`:
constants are skipped) -/
def lcStep (trips : List (Trip F)) (numTerms : Nat) (acc : LCAcc F) (term : F × LC.LCTerm) :
    Except Err (LCAcc F) :=
  match term.2 with
  | .one => .ok acc
  | .poly l =>
    match Marlin.lookupLast (fun (t : Trip F) => t.1.label) l trips with
    | none => .error .missingPolynomial
    | some t =>
      match policy numTerms t.1.bound term.1 with
      | some e => .error e
      | none =>
        .ok ((if numTerms = 1 ∧ t.1.bound.isSome then { acc with bound := t.1.bound } else acc).add
              term.1 t.1 t.2.1 t.2.2)

/-- the terms of one combination, in order -/
def lcTerms (trips : List (Trip F)) (numTerms : Nat) (acc : LCAcc F) :
    List (F × LC.LCTerm) → Except Err (LCAcc F)
  | [] => .ok acc
  | t :: ts =>
    match lcStep trips numTerms acc t with
    | .error e => .error e
    | .ok acc' => lcTerms trips numTerms acc' ts

/-- `P::zero()`, `Randomness::empty()`, no commitments yet -/
def LCAcc.init : LCAcc F := ⟨[], 0, ⟨[], 0⟩, 0, none, none, none⟩

/-- one combination as a (labelled polynomial, state, labelled commitment) triple:
`LabeledPolynomial::new(lc_label, poly, degree_bound, hiding_bound)`, `randomness`,
`LabeledCommitment::new(lc_label, combine_commitments(..), degree_bound)` -/
def combineLC (trips : List (Trip F)) (lc : LC.LinComb F) : Except Err (Trip F) :=
  match lcTerms trips lc.terms.length LCAcc.init lc.terms with
  | .error e => .error e
  | .ok a => .ok (⟨lc.label, a.poly, a.nv, a.bound, a.hb⟩, a.rand,
                  ⟨lc.label, ⟨a.comm, a.shifted⟩, a.bound⟩)

/-- `lc_polynomials`, `lc_states`, `lc_commitments` -/
def combineAll (trips : List (Trip F)) : List (LC.LinComb F) → Except Err (List (Trip F))
  | [] => .ok []
  | lc :: lcs =>
    match combineLC trips lc with
    | .error e => .error e
    | .ok t =>
      match combineAll trips lcs with
      | .error e => .error e
      | .ok ts => .ok (t :: ts)

/-! ### the trait-default `batch_open` (`lib.rs`) over multivariate points -/

/-- a query: (polynomial label, (point label, point)) -/
abbrev Query (F : Type) := Label × (Label × List F)

/-- a `query_to_labels_map` entry: point label ↦ (point, sorted set of polynomial labels) -/
abbrev Group (F : Type) := Label × (List F × List Label)

/-- `query_to_labels_map.entry(point_label).or_insert((point, BTreeSet::new())).1.insert(label)`:
the groups stay sorted by point label; the point of a group is that of the first query with the
point label -/
def groupInsert (q : Query F) : List (Group F) → List (Group F)
  | [] => [(q.2.1, (q.2.2, [q.1]))]
  | g :: gs =>
    if QS.ltLabel q.2.1 g.1 then (q.2.1, (q.2.2, [q.1])) :: g :: gs
    else if q.2.1 = g.1 then (g.1, (g.2.1, Marlin.insertLabel q.1 g.2.2)) :: gs
    else g :: groupInsert q gs

/-- `for (label, (point_label, point)) in query_set.iter()` (the set's iteration order) -/
def groupQueries (qs : List (Query F)) : List (Group F) :=
  qs.foldl (fun acc q => groupInsert q acc) []

/-- `poly_st_comm.get(label)` for every label of one group -/
def gatherTrips (trips : List (Trip F)) : List Label → Except Err (List (Trip F))
  | [] => .ok []
  | l :: ls =>
    match Marlin.lookupLast (fun (t : Trip F) => t.1.label) l trips with
    | none => .error .missingPolynomial
    | some t =>
      match gatherTrips trips ls with
      | .error e => .error e
      | .ok ts => .ok (t :: ts)

/-- `num_vars` of `P::zero() += (ξ, p₁) += (ξ, p₂) …` -/
def maxNv (l : List Nat) : Nat := l.foldl max 0

/-- `MarlinPST13::open` returning also the unused challenges (`PST.open` drops them) -/
def openRest (ck : CK F) (nvp nvr : Nat) (ps : List (MVPoly F)) (z : List F) (rs : List (MVPoly F))
    (ξs : List F) : Except Err (Proof F × List F) :=
  match combine ck.supportedDegree [] [] ps rs ξs with
  | .error e => .error e
  | .ok c =>
    match openCombined ck nvp nvr c.1 c.2.1 z with
    | .error e => .error e
    | .ok π => .ok (π, c.2.2)

/-- `MarlinPST13::open` on labelled polynomials and states (the commitments are not read) -/
def openL (ck : CK F) (ts : List (Trip F)) (z : List F) (ξs : List F) :
    Except Err (Proof F × List F) :=
  openRest ck (maxNv (ts.map (·.1.nv))) (maxNv (ts.map (·.2.1.nv))) (ts.map (·.1.poly)) z
    (ts.map (·.2.1.blind)) ξs

/-- the `for (_point_label, (point, labels)) in query_to_labels_map` loop of `batch_open` -/
def batchOpenGroups (ck : CK F) (trips : List (Trip F)) :
    List (Group F) → List F → Except Err (List (Proof F) × List F)
  | [], ξs => .ok ([], ξs)
  | g :: gs, ξs =>
    match gatherTrips trips g.2.2 with
    | .error e => .error e
    | .ok ts =>
      match openL ck ts g.2.1 ξs with
      | .error e => .error e
      | .ok r =>
        match batchOpenGroups ck trips gs r.2 with
        | .error e => .error e
        | .ok rr => .ok (r.1 :: rr.1, rr.2)

/-- `PolynomialCommitment::batch_open` (default); `trips` is
`labeled_polynomials.zip(states).zip(commitments)` -/
def batchOpen (ck : CK F) (trips : List (Trip F)) (qs : List (Query F)) (ξs : List F) :
    Except Err (List (Proof F) × List F) :=
  batchOpenGroups ck trips (groupQueries qs) ξs

/-- `Marlin::open_combinations` with `PC = MarlinPST13` -/
def openCombinations (ck : CK F) (polys : List (LPoly F)) (sts : List (Rand F))
    (comms : List (LComm F)) (lcs : List (LC.LinComb F)) (qs : List (Query F)) (ξs : List F) :
    Except Err (List (Proof F) × List F) :=
  match combineAll (polys.zip (sts.zip comms)) lcs with
  | .error e => .error e
  | .ok ts => batchOpen ck ts qs ξs

/-! ### `Marlin::check_combinations` -/

/-- the verifier's accumulators of one combination: `combine_commitments(..)`, `degree_bound` -/
structure VAcc (F : Type) where
  comm : F
  shifted : Option F
  bound : Option Nat
  deriving DecidableEq, Repr

/-- one non-constant term on the verifier's side (the policy reads the COMMITMENT's
`degree_bound()`) -/
def lcStepV (comms : List (LComm F)) (numTerms : Nat) (acc : VAcc F) (term : F × LC.LCTerm) :
    Except Err (VAcc F) :=
  match term.2 with
  | .one => .ok acc                      -- the constant is subtracted from the evaluations
  | .poly l =>
    match Marlin.lookupLast (fun (c : LComm F) => c.label) l comms with
    | none => .error .missingPolynomial
    | some c =>
      match policy numTerms c.bound term.1 with
      | some e => .error e
      | none =>
        .ok ⟨acc.comm + term.1 * c.comm.comm, addShifted acc.shifted term.1 c.comm.shifted,
             if numTerms = 1 ∧ c.bound.isSome then c.bound else acc.bound⟩

def lcTermsV (comms : List (LComm F)) (numTerms : Nat) (acc : VAcc F) :
    List (F × LC.LCTerm) → Except Err (VAcc F)
  | [] => .ok acc
  | t :: ts =>
    match lcStepV comms numTerms acc t with
    | .error e => .error e
    | .ok acc' => lcTermsV comms numTerms acc' ts

/-- `LabeledCommitment::new(lc_label, combine_commitments(coeffs_and_comms), degree_bound)` -/
def combineLCComm (comms : List (LComm F)) (lc : LC.LinComb F) : Except Err (LComm F) :=
  match lcTermsV comms lc.terms.length ⟨0, none, none⟩ lc.terms with
  | .error e => .error e
  | .ok a => .ok ⟨lc.label, ⟨a.comm, a.shifted⟩, a.bound⟩

def combineAllComm (comms : List (LComm F)) : List (LC.LinComb F) → Except Err (List (LComm F))
  | [] => .ok []
  | lc :: lcs =>
    match combineLCComm comms lc with
    | .error e => .error e
    | .ok t =>
      match combineAllComm comms lcs with
      | .error e => .error e
      | .ok ts => .ok (t :: ts)

/-- `Evaluations<Vec<F>, F>` as a list of `((label, point), value)` -/
abbrev Evals (F : Type) := List ((Label × List F) × F)

/-- `for (&(ref label, _), ref mut eval) in evaluations.iter_mut() { if label == &lc_label
{ **eval -= coeff } }` -/
def subConst (lbl : Label) (c : F) (evals : Evals F) : Evals F :=
  evals.map fun e => if e.1.1 = lbl then (e.1, e.2 - c) else e

/-- the constant terms of one combination, in order -/
def adjustTerms (lbl : Label) : List (F × LC.LCTerm) → Evals F → Evals F
  | [], evals => evals
  | t :: ts, evals =>
    adjustTerms lbl ts (if t.2.isOne then subConst lbl t.1 evals else evals)

/-- all combinations, in order (every evaluation carrying the combination's label is moved) -/
def adjustEvals : List (LC.LinComb F) → Evals F → Evals F
  | [], evals => evals
  | lc :: lcs, evals => adjustEvals lcs (adjustTerms lc.label lc.terms evals)

/-! ### `MarlinPST13::batch_check` from the query set -/

/-- `evaluations.get(&(label, point))` -/
def lookupEval (evals : Evals F) (l : Label) (z : List F) : Option F :=
  match evals with
  | [] => none
  | e :: es => if e.1 = (l, z) then some e.2 else lookupEval es l z

/-- the inner `for label in labels` loop of `Marlin::combine_and_normalize` -/
def gatherComms (comms : List (LComm F)) (evals : Evals F) (z : List F) :
    List Label → Except Err (List (LComm F) × List F)
  | [] => .ok ([], [])
  | l :: ls =>
    match Marlin.lookupLast (fun (c : LComm F) => c.label) l comms with
    | none => .error .missingPolynomial
    | some c =>
      if c.bound.isSome ≠ c.comm.shifted.isSome then .error .abort else     -- assert_eq!
      match lookupEval evals l z with
      | none => .error .missingEvaluation
      | some v =>
        match gatherComms comms evals z ls with
        | .error e => .error e
        | .ok r => .ok (c :: r.1, v :: r.2)

/-- `Marlin::accumulate_commitments_and_values(.., vk = None)` on labelled commitments: a
commitment with a degree bound reaches `vk.unwrap()` on `None` -/
def accumulateL : F → F → List (LComm F) → List F → List F → Except Err (F × F × List F)
  | ca, va, c :: cs, v :: vs, ξs =>
    if c.bound.isSome ≠ c.comm.shifted.isSome then .error .abort        -- assert_eq!
    else
      match ξs with
      | [] => .error .abort
      | ξ :: ξs' =>
        if c.bound.isSome then .error .abort                             -- `vk.unwrap()`
        else accumulateL (ca + c.comm.comm * ξ) (va + v * ξ) cs vs ξs'
  | ca, va, _, _, ξs => .ok (ca, va, ξs)

/-- `Marlin::combine_and_normalize`: per point label `(combined commitment, point, combined
value)`, and the unused challenges -/
def combineAndNormalize (comms : List (LComm F)) (evals : Evals F) :
    List (Group F) → List F → Except Err (List (F × List F × F) × List F)
  | [], ξs => .ok ([], ξs)
  | g :: gs, ξs =>
    match gatherComms comms evals g.2.1 g.2.2 with
    | .error e => .error e
    | .ok cv =>
      match accumulateL 0 0 cv.1 cv.2 ξs with
      | .error e => .error e
      | .ok a =>
        match combineAndNormalize comms evals gs a.2.2 with
        | .error e => .error e
        | .ok r => .ok ((a.1, g.2.1, a.2.1) :: r.1, r.2)

/-- `MarlinPST13::batch_check` -/
def batchCheckQ (vk : VK F) (comms : List (LComm F)) (qs : List (Query F)) (evals : Evals F)
    (πs : List (Proof F)) (ξs rs : List F) : Except Err Bool :=
  match combineAndNormalize comms evals (groupQueries qs) ξs with
  | .error e => .error e
  | .ok t => batchCheck vk (t.1.map (·.1)) (t.1.map (·.2.1)) (t.1.map (·.2.2)) πs rs

/-- the pairing product of `batch_check` before the comparison with one -/
def batchDefectQ (vk : VK F) (comms : List (LComm F)) (qs : List (Query F)) (evals : Evals F)
    (πs : List (Proof F)) (ξs rs : List F) : Except Err F :=
  match combineAndNormalize comms evals (groupQueries qs) ξs with
  | .error e => .error e
  | .ok t => batchDefect vk (t.1.map (·.1)) (t.1.map (·.2.1)) (t.1.map (·.2.2)) πs rs

/-- `Marlin::check_combinations` with `PC = MarlinPST13` -/
def checkCombinations (vk : VK F) (comms : List (LComm F)) (lcs : List (LC.LinComb F))
    (qs : List (Query F)) (evals : Evals F) (πs : List (Proof F)) (ξs rs : List F) :
    Except Err Bool :=
  match combineAllComm comms lcs with
  | .error e => .error e
  | .ok lcComms => batchCheckQ vk lcComms qs (adjustEvals lcs evals) πs ξs rs

/-- the defect `check_combinations` compares with zero (same refusals) -/
def checkCombinationsDefect (vk : VK F) (comms : List (LComm F)) (lcs : List (LC.LinComb F))
    (qs : List (Query F)) (evals : Evals F) (πs : List (Proof F)) (ξs rs : List F) :
    Except Err F :=
  match combineAllComm comms lcs with
  | .error e => .error e
  | .ok lcComms => batchDefectQ vk lcComms qs (adjustEvals lcs evals) πs ξs rs

end PST
end PCV
