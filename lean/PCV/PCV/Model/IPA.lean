/-
  PCV.Model.IPA — `poly-commit/src/ipa_pc/{mod.rs,data_structures.rs}` (the inner-product-argument
  scheme of BCMS20) in exponent form (DESIGN §2.1, Appendix A).

  * A group element is its discrete log; the key `comm_key = G_0..G_s`, `h`, `s` are arbitrary
    scalars; an MSM is `dot`.
  * Oracles are explicit inputs, consumed in order:
      `ξs`   — the sponge squeezes (`squeeze_field_elements_with_sizes(&[CHALLENGE_SIZE])[0]`):
               one before the loop, two per polynomial (the last one is squeezed and never used);
      `ros`  — the outputs of `compute_random_oracle_challenge`: the hiding challenge (only if
               hiding), the seed `ξ₀` of the round challenges, one challenge per round;
      `draws`— field elements drawn from the RNG (`commit`: `rand`, `shifted_rand` per hiding
               polynomial; `open`: the hiding polynomial `P::rand(d)` and `hiding_rand`);
      `rs`   — the 128-bit randomizers of `batch_check`.
  Keys are assumed non-empty (`supported_degree() = comm_key.len() - 1`; `trim` never produces an
  empty key and refuses empty parameters).
-/
import PCV.Model.Succinct
import PCV.Model.Marlin
namespace PCV
namespace IPA

variable {F : Type} [Add F] [Mul F] [Sub F] [Neg F] [Zero F] [One F] [Inv F] [DecidableEq F]

abbrev Label := LC.Label
/-- `LabeledPolynomial` (label, coefficients, degree bound, hiding bound) -/
abbrev LPoly := Marlin.LPoly
/-- `ipa_pc::Commitment { comm, shifted_comm }` -/
abbrev Comm := Marlin.Comm
/-- `LabeledCommitment` -/
abbrev LComm := Marlin.LComm

/-- `ipa_pc::UniversalParams` -/
structure UParams (F : Type) where
  commKey : List F
  h : F
  s : F
  deriving DecidableEq, Repr

/-- `ipa_pc::CommitterKey` (= `VerifierKey`) -/
structure CK (F : Type) where
  commKey : List F
  h : F
  s : F
  maxDegree : Nat
  deriving DecidableEq, Repr

abbrev VK := CK

/-- `ipa_pc::Randomness` -/
structure Rand (F : Type) where
  rand : F
  shifted : Option F
  deriving DecidableEq, Repr

/-- `ipa_pc::Proof` -/
structure Proof (F : Type) where
  lVec : List F
  rVec : List F
  finalCommKey : F
  c : F
  hidingComm : Option F
  rand : Option F
  deriving DecidableEq, Repr

/-! ### sizes -/

def nextPow2Aux (n : Nat) : Nat → Nat → Nat
  | 0, p => p
  | fuel + 1, p => if n ≤ p then p else nextPow2Aux n fuel (2 * p)

/-- `usize::next_power_of_two` (`0 ↦ 1`) -/
def nextPow2 (n : Nat) : Nat := nextPow2Aux n n 1

def clog2Aux (n : Nat) : Nat → Nat → Nat → Nat
  | 0, _, k => k
  | fuel + 1, p, k => if n ≤ p then k else clog2Aux n fuel (2 * p) (k + 1)

/-- `ark_std::log2`: `⌈log₂ n⌉` (`0` for `n ≤ 1`) -/
def clog2 (n : Nat) : Nat := clog2Aux n n 1 0

/-- `CommitterKey::supported_degree` -/
def supportedDegree (ck : CK F) : Nat := ck.commKey.length - 1

/-! ### trim -/

/-- `InnerProductArgPC::trim`: the supported degree is rounded up to `2^k − 1`; both keys are the
key prefix of that length. (`pp.max_degree()` underflows on empty parameters: abort.) -/
def trim (pp : UParams F) (supported : Nat) : Except Err (CK F × VK F) :=
  if pp.commKey.isEmpty then .error .abort
  else
    let sd := nextPow2 (supported + 1) - 1
    if sd > pp.commKey.length - 1 then .error .trimTooLarge
    else
      let k : CK F := ⟨pp.commKey.take (sd + 1), pp.h, pp.s, pp.commKey.length - 1⟩
      .ok (k, k)

/-! ### commit -/

/-- `cm_commit(comm_key, scalars, hiding_generator, randomizer)`; every call site passes
`Some(ck.s)` or `(None, None)`, so the `assert!(hiding_generator.is_some())` never fires. -/
def cmCommit (key scalars : List F) (hidingGen randomizer : Option F) : F :=
  match randomizer, hidingGen with
  | some r, some g => dot key scalars + g * r
  | _, _ => dot key scalars

/-- `check_degrees_and_bounds(supported_degree, p)` -/
def checkDegreesAndBounds (supported : Nat) (p : List F) (bound : Option Nat) : Except Err Unit :=
  if pdeg p > supported then .error .tooManyCoefficients
  else match bound with
    | none => .ok ()
    | some b => if b < pdeg p ∨ b > supported then .error .incorrectBound else .ok ()

/-- `Randomness::rand(h, has_degree_bound, None, rng)` / `Randomness::empty()`.
`rng = false` models `rng: None` (`OptionalRng` panics when drawn from). -/
def drawRand (hid bounded rng : Bool) (draws : List F) : Except Err (Rand F × List F) :=
  if !hid then .ok (⟨0, none⟩, draws)
  else if !rng then .error .abort
  else match draws with
    | [] => .error .abort            -- the model's draw list ran out
    | ρ :: ds =>
      if !bounded then .ok (⟨ρ, none⟩, ds)
      else match ds with
        | [] => .error .abort
        | ρs :: ds' => .ok (⟨ρ, some ρs⟩, ds')

/-- the plain commitment `cm_commit(&ck.comm_key[..deg+1], coeffs, Some(s), Some(state.rand))` -/
def plainComm (ck : CK F) (p : List F) (ρ : F) : F :=
  cmCommit (ck.commKey.take (pdeg p + 1)) p (some ck.s) (some ρ)

/-- the shifted commitment `cm_commit(&ck.comm_key[(supported − d)..], coeffs, Some(s), shifted_rand)` -/
def shiftedComm (ck : CK F) (p : List F) (d : Nat) (ρs : Option F) : F :=
  cmCommit (ck.commKey.drop (supportedDegree ck - d)) p (some ck.s) ρs

/-- one polynomial of `InnerProductArgPC::commit` -/
def commitOne (ck : CK F) (p : LPoly F) (rng : Bool) (draws : List F) :
    Except Err (Comm F × Rand F × List F) :=
  match checkDegreesAndBounds (supportedDegree ck) p.poly p.bound with
  | .error e => .error e
  | .ok () =>
    match drawRand p.hb.isSome p.bound.isSome rng draws with
    | .error e => .error e
    | .ok (st, draws') =>
      .ok (⟨plainComm ck p.poly st.rand, p.bound.map fun d => shiftedComm ck p.poly d st.shifted⟩,
           st, draws')

/-- `InnerProductArgPC::commit` -/
def commit (ck : CK F) : List (LPoly F) → Bool → List F →
    Except Err (List (LComm F) × List (Rand F) × List F)
  | [], _, draws => .ok ([], [], draws)
  | p :: ps, rng, draws =>
    match commitOne ck p rng draws with
    | .error e => .error e
    | .ok (c, st, draws') =>
      match commit ck ps rng draws' with
      | .error e => .error e
      | .ok (cs, sts, d) => .ok (⟨p.label, c, p.bound⟩ :: cs, st :: sts, d)

/-! ### open -/

/-- accumulators of the prover's combining loop: `combined_polynomial`,
`combined_commitment_proj`, `combined_rand`, `has_hiding` -/
structure OpenAcc (F : Type) where
  p : List F
  c : F
  r : F
  hid : Bool
  deriving DecidableEq, Repr

/-- `shift_polynomial(ck, p, degree_bound)` -/
def shiftPoly (ck : CK F) (p : List F) (bound : Nat) : List F :=
  if isZeroPoly p then [] else pshift (supportedDegree ck - bound) p

/-- `combined_rand += ξ * shifted_rand.unwrap()` with the `assert!(shifted_rand.is_some())` -/
def addShiftedRand (r ξ : F) (hid : Bool) (ρs : Option F) : Except Err F :=
  if !hid then .ok r
  else match ρs with
    | none => .error .abort
    | some x => .ok (r + ξ * x)

/-- one iteration of the combining loop of `open`; `ξ` is `cur_challenge` on entry, `ξ'` the
challenge squeezed in the middle of the iteration -/
def openStep (ck : CK F) (p : LPoly F) (c : LComm F) (st : Rand F) (ξ ξ' : F) (acc : OpenAcc F) :
    Except Err (OpenAcc F) :=
  if p.label ≠ c.label then .error .abort                       -- assert_eq!(labels)
  else
  match checkDegreesAndBounds (supportedDegree ck) p.poly p.bound with
  | .error e => .error e
  | .ok () =>
    let acc1 : OpenAcc F :=
      ⟨padd acc.p (pscale ξ p.poly), acc.c + c.comm.comm * ξ,
       if p.hb.isSome then acc.r + ξ * st.rand else acc.r, acc.hid || p.hb.isSome⟩
    if p.bound.isSome ≠ c.comm.shifted.isSome then .error .abort    -- "shifted_comm mismatch"
    else if p.bound ≠ c.bound then .error .abort                    -- "degree bound mismatch"
    else
    match p.bound, c.comm.shifted with
    | some d, some sc =>
      match addShiftedRand acc1.r ξ' p.hb.isSome st.shifted with
      | .error e => .error e
      | .ok r2 =>
        .ok ⟨padd acc1.p (pscale ξ' (shiftPoly ck p.poly d)), acc1.c + sc * ξ', r2, acc1.hid⟩
    | _, _ => .ok acc1

/-- the combining loop of `open` (`polys.zip(comms.zip(states))`); `cur` is `cur_challenge`, `ξs`
the squeezes still to come.  Returns the accumulators and the squeezes left over (the last
squeezed challenge is discarded, as in the code). -/
def openLoop (ck : CK F) : List (LPoly F) → List (LComm F) → List (Rand F) → F → List F →
    OpenAcc F → Except Err (OpenAcc F × List F)
  | p :: ps, c :: cs, st :: sts, cur, ξs, acc =>
    match ξs with
    | ξ' :: ξ'' :: rest =>
      match openStep ck p c st cur ξ' acc with
      | .error e => .error e
      | .ok acc' => openLoop ck ps cs sts ξ'' rest acc'
    | _ => .error .abort                                        -- the model's challenge list ran out
  | _, _, _, _, ξs, acc => .ok (acc, ξs)

/-- `hiding_polynomial -= &P::from_coefficients_slice(&[hiding_polynomial.evaluate(point)])` -/
def subConst (p : List F) (v : F) : List F :=
  match p with
  | [] => []
  | c :: cs => (c - v) :: cs

/-- the `if has_hiding { … }` block of `open`: returns the adjusted accumulators, the hiding
commitment, and the unused oracle outputs / draws -/
def hidingStep (ck : CK F) (z : F) (acc : OpenAcc F) (rng : Bool) (draws ros : List F) :
    Except Err (OpenAcc F × Option F × List F × List F) :=
  if !acc.hid then .ok (acc, none, ros, draws)
  else if !rng then .error .abort                               -- `rng.expect(..)`
  else
  match KZG.randPoly (supportedDegree ck) draws with
  | none => .error .abort
  | some (hp, rest) =>
    match rest with
    | [] => .error .abort
    | ω :: rest' =>
      let hp' := subConst hp (evalPoly hp z)
      let hc := cmCommit ck.commKey hp' (some ck.s) (some ω)
      match ros with
      | [] => .error .abort
      | α :: ros' =>
        let r' := acc.r + α * ω
        .ok (⟨padd acc.p (pscale α hp'), acc.c + (hc * α - ck.s * r'), r', true⟩, some hc, ros', rest')

/-- pad with zeros to `n` coefficients -/
def padTo (n : Nat) (l : List F) : List F := l ++ List.replicate (n - l.length) 0

/-- `for (l, r) in l.iter_mut().zip(r) { *l += u * r }` -/
def foldAdd (u : F) : List F → List F → List F
  | a :: as, b :: bs => (a + u * b) :: foldAdd u as bs
  | as, _ => as

/-- the `while n > 1` loop of `open`: coefficients, powers of `z` and key are split at `n/2`,
`L = ⟨c_R, G_L⟩ + h′⟨c_R, z_L⟩`, `R = ⟨c_L, G_R⟩ + h′⟨c_L, z_R⟩`, the round challenge `u` is the next
random-oracle output, and `c ← c_L + u⁻¹c_R`, `z ← z_L + u·z_R`, `G ← G_L + u·G_R`.
Returns `(l_vec, r_vec)`, the final `(coeffs, z, comm_key)` and the unused oracle outputs.
The first argument is fuel (`n` suffices). -/
def rounds (h' : F) : Nat → Nat → List F → List F → List F → List F →
    Except Err ((List F × List F) × (List F × List F × List F) × List F)
  | 0, _, cs, zs, key, ros => .ok (([], []), (cs, zs, key), ros)
  | fuel + 1, n, cs, zs, key, ros =>
    if n ≤ 1 then .ok (([], []), (cs, zs, key), ros)
    else
    match ros with
    | [] => .error .abort
    | u :: ros' =>
      if u = 0 then .error .abort                               -- `inverse().unwrap()`
      else
      let m := n / 2
      let l := dot (key.take m) (cs.drop m) + h' * dot (cs.drop m) (zs.take m)
      let r := dot (key.drop m) (cs.take m) + h' * dot (cs.take m) (zs.drop m)
      match rounds h' fuel m (foldAdd u⁻¹ (cs.take m) (cs.drop m)) (foldAdd u (zs.take m) (zs.drop m))
          (foldAdd u (key.take m) (key.drop m)) ros' with
      | .error e => .error e
      | .ok ((ls, rs), fin, rest) => .ok ((l :: ls, r :: rs), fin, rest)

/-- assemble the proof from the final state of the rounds (`comm_key[0]`, `coeffs[0]`) -/
def mkProof (ls rs : List F) (fin : List F × List F × List F) (hc : Option F) (rand : Option F) :
    Except Err (Proof F) :=
  match fin.2.2, fin.1 with
  | K :: _, c :: _ => .ok ⟨ls, rs, K, c, hc, rand⟩
  | _, _ => .error .abort

/-- `InnerProductArgPC::open`.  Returns the proof and the unused `ξs`, `ros`, `draws`. -/
def «open» (ck : CK F) (polys : List (LPoly F)) (comms : List (LComm F)) (z : F)
    (sts : List (Rand F)) (ξs ros : List F) (rng : Bool) (draws : List F) :
    Except Err (Proof F × List F × List F × List F) :=
  match ξs with
  | [] => .error .abort
  | cur :: ξs' =>
    match openLoop ck polys comms sts cur ξs' ⟨[], 0, 0, false⟩ with
    | .error e => .error e
    | .ok (acc, ξrest) =>
      match hidingStep ck z acc rng draws ros with
      | .error e => .error e
      | .ok (acc', hc, ros1, draws') =>
        match ros1 with
        | [] => .error .abort
        | ξ₀ :: ros2 =>
          let n := supportedDegree ck + 1
          match rounds (ck.h * ξ₀) n n (padTo n acc'.p) (powers 1 z n) ck.commKey ros2 with
          | .error e => .error e
          | .ok ((ls, rs), fin, ros3) =>
            match mkProof ls rs fin hc (if acc.hid then some acc'.r else none) with
            | .error e => .error e
            | .ok π => .ok (π, ξrest, ros3, draws')

/-! ### succinct_check / check -/

/-- one iteration of the verifier's combining loop (`commitments.zip(values)`) -/
def accStep (vk : VK F) (z : F) (c : LComm F) (v ξ ξ' : F) (C V : F) : Except Err (F × F) :=
  if c.bound.isSome ≠ c.comm.shifted.isSome then .error .abort     -- assert_eq!
  else
  match c.bound, c.comm.shifted with
  | some b, some sc =>
    if b > supportedDegree vk then .error .abort                   -- usize underflow
    else .ok (C + c.comm.comm * ξ + sc * ξ', V + ξ * v + ξ' * v * fpow z (supportedDegree vk - b))
  | _, _ => .ok (C + c.comm.comm * ξ, V + ξ * v)

/-- the verifier's combining loop; returns `(Ĉ, v̂)` and the squeezes left over -/
def accLoop (vk : VK F) (z : F) : List (LComm F) → List F → F → List F → F → F →
    Except Err ((F × F) × List F)
  | c :: cs, v :: vs, cur, ξs, C, V =>
    match ξs with
    | ξ' :: ξ'' :: rest =>
      match accStep vk z c v cur ξ' C V with
      | .error e => .error e
      | .ok (C', V') => accLoop vk z cs vs ξ'' rest C' V'
    | _ => .error .abort
  | _, _, _, ξs, C, V => .ok ((C, V), ξs)

/-- the `if proof.hiding_comm.is_some()` block of `succinct_check` -/
def hidingAdjust (vk : VK F) (π : Proof F) (C : F) (ros : List F) : Except Err (F × List F) :=
  if π.hidingComm.isSome ≠ π.rand.isSome then .error .abort        -- assert_eq!
  else
  match π.hidingComm, π.rand with
  | some hc, some r =>
    match ros with
    | [] => .error .abort
    | α :: ros' => .ok (C + (hc * α - vk.s * r), ros')
  | _, _ => .ok (C, ros)

/-- the loop `for (l, r) in l_vec.zip(r_vec)`: round challenges and `Σ (u⁻¹·L + u·R)` -/
def verifyRounds : List F → List F → List F → Except Err (List F × F × List F)
  | l :: ls, r :: rs, ros =>
    match ros with
    | [] => .error .abort
    | u :: ros' =>
      if u = 0 then .error .abort
      else
      match verifyRounds ls rs ros' with
      | .error e => .error e
      | .ok (us, sum, rest) => .ok (u :: us, l * u⁻¹ + r * u + sum, rest)
  | _, _, ros => .ok ([], 0, ros)

/-- everything `succinct_check` computes before its final comparison -/
structure Run (F : Type) where
  /-- the combined commitment (after the hiding adjustment) -/
  C : F
  /-- the combined value -/
  V : F
  /-- the seed of the round challenges (`h′ = ξ₀·h`) -/
  ξ₀ : F
  /-- the round challenges = the succinct check polynomial -/
  us : List F
  /-- `Σ (u⁻¹·L + u·R)` -/
  lr : F
  deriving DecidableEq, Repr

/-- `succinct_check` up to the comparison -/
def succinctRun (vk : VK F) (cs : List (LComm F)) (z : F) (vs : List F) (π : Proof F)
    (ξs ros : List F) : Except Err (Run F × List F × List F) :=
  match ξs with
  | [] => .error .abort
  | cur :: ξs' =>
    match accLoop vk z cs vs cur ξs' 0 0 with
    | .error e => .error e
    | .ok ((C, V), ξrest) =>
      match hidingAdjust vk π C ros with
      | .error e => .error e
      | .ok (C', ros1) =>
        match ros1 with
        | [] => .error .abort
        | ξ₀ :: ros2 =>
          match verifyRounds π.lVec π.rVec ros2 with
          | .error e => .error e
          | .ok (us, lr, ros3) => .ok (⟨C', V, ξ₀, us, lr⟩, ξrest, ros3)

/-- **defect 1**, the equation of `succinct_check`:
`Ĉ + v̂·h′ + Σ(u⁻¹L + uR) − (c·K + c·h_u(z)·h′)` with `h′ = ξ₀·h`, `K = final_comm_key` -/
def defect1 (vk : VK F) (z : F) (π : Proof F) (r : Run F) : F :=
  (r.C + vk.h * r.ξ₀ * r.V + r.lr)
    - (π.finalCommKey * π.c + vk.h * r.ξ₀ * (Succinct.evaluate r.us z * π.c))

/-- **defect 2**, the final-key test of `check`: `⟨coeffs(h_u), G⟩ − K` -/
def defect2 (vk : VK F) (π : Proof F) (us : List F) : F :=
  dot vk.commKey (Succinct.computeCoeffs us) - π.finalCommKey

/-- `succinct_check`: the check polynomial's challenges, or `none` -/
def succinctCheck (vk : VK F) (cs : List (LComm F)) (z : F) (vs : List F) (π : Proof F)
    (ξs ros : List F) : Except Err (Option (List F) × List F × List F) :=
  match succinctRun vk cs z vs π ξs ros with
  | .error e => .error e
  | .ok (r, ξrest, rorest) =>
    .ok (if defect1 vk z π r = 0 then some r.us else none, ξrest, rorest)

/-- the shape test of `check` / `batch_check`: one `(L, R)` pair per halving round -/
def badShape (vk : VK F) (π : Proof F) : Bool :=
  decide (π.lVec.length ≠ π.rVec.length ∨ π.lVec.length ≠ clog2 (supportedDegree vk + 1))

/-- the final-key decision, given the result of `succinct_check` -/
def finalKeyOk (vk : VK F) (π : Proof F) (o : Option (List F)) : Bool :=
  match o with
  | none => false
  | some us => decide (defect2 vk π us = 0)

/-- `InnerProductArgPC::check` -/
def check (vk : VK F) (cs : List (LComm F)) (z : F) (vs : List F) (π : Proof F)
    (ξs ros : List F) : Except Err Bool :=
  if badShape vk π then .error .incorrectInputLength
  else
  match succinctCheck vk cs z vs π ξs ros with
  | .error e => .error e
  | .ok (o, _, _) => .ok (finalKeyOk vk π o)

/-! ### batch_open (trait default) / batch_check -/

abbrev Query (F : Type) := Marlin.Query F

def gatherPolys (polys : List (LPoly F)) (comms : List (LComm F)) (sts : List (Rand F)) :
    List Label → Except Err (List (LPoly F) × List (LComm F) × List (Rand F))
  | [] => .ok ([], [], [])
  | l :: ls =>
    match Marlin.lookupLast (fun (x : LPoly F × (Rand F × LComm F)) => x.1.label) l
        (polys.zip (sts.zip comms)) with
    | none => .error .missingPolynomial
    | some (p, st, c) =>
      match gatherPolys polys comms sts ls with
      | .error e => .error e
      | .ok (ps, cs, ss) => .ok (p :: ps, c :: cs, st :: ss)

/-- the trait-default `batch_open` (one `open` per point label, in sorted order, on one sponge) -/
def batchOpenGroups (ck : CK F) (polys : List (LPoly F)) (comms : List (LComm F))
    (sts : List (Rand F)) (rng : Bool) :
    List (Label × (F × List Label)) → List F → List F → List F →
    Except Err (List (Proof F) × List F × List F × List F)
  | [], ξs, ros, draws => .ok ([], ξs, ros, draws)
  | g :: gs, ξs, ros, draws =>
    match gatherPolys polys comms sts g.2.2 with
    | .error e => .error e
    | .ok (ps, cs, ss) =>
      match IPA.open ck ps cs g.2.1 ss ξs ros rng draws with
      | .error e => .error e
      | .ok (π, ξs', ros', draws') =>
        match batchOpenGroups ck polys comms sts rng gs ξs' ros' draws' with
        | .error e => .error e
        | .ok (πs, a, b, c) => .ok (π :: πs, a, b, c)

def batchOpen (ck : CK F) (polys : List (LPoly F)) (comms : List (LComm F)) (sts : List (Rand F))
    (qs : List (Query F)) (ξs ros : List F) (rng : Bool) (draws : List F) :
    Except Err (List (Proof F) × List F × List F × List F) :=
  batchOpenGroups ck polys comms sts rng (Marlin.groupQueries qs) ξs ros draws

/-- the commitments and values of one point label, in label order -/
def gatherComms (comms : List (LComm F)) (evals : List ((Label × F) × F)) (z : F) :
    List Label → Except Err (List (LComm F) × List F)
  | [] => .ok ([], [])
  | l :: ls =>
    match Marlin.lookupLast (fun (c : LComm F) => c.label) l comms with
    | none => .error .missingPolynomial
    | some c =>
      match Marlin.lookupEval evals l z with
      | none => .error .missingEvaluation
      | some v =>
        match gatherComms comms evals z ls with
        | .error e => .error e
        | .ok (cs, vs) => .ok (c :: cs, v :: vs)

/-- the loop of `batch_check` up to the randomized combination: per point label the shape test,
then `succinct_check`; `ok none` = some succinct check failed (`return Ok(false)`), otherwise the
check polynomials in order -/
def batchSuccinct (vk : VK F) (comms : List (LComm F)) (evals : List ((Label × F) × F)) :
    List (Label × (F × List Label)) → List (Proof F) → List F → List F →
    Except Err (Option (List (List F)))
  | g :: gs, π :: πs, ξs, ros =>
    if badShape vk π then .error .incorrectInputLength
    else
    match gatherComms comms evals g.2.1 g.2.2 with
    | .error e => .error e
    | .ok (cs, vs) =>
      match succinctCheck vk cs g.2.1 vs π ξs ros with
      | .error e => .error e
      | .ok (none, _, _) => .ok none
      | .ok (some us, ξs', ros') =>
        match batchSuccinct vk comms evals gs πs ξs' ros' with
        | .error e => .error e
        | .ok none => .ok none
        | .ok (some uss) => .ok (some (us :: uss))
  | _, _, _, _ => .ok (some [])

/-- `combined_check_poly += (randomizer, check_poly)`, `combined_final_key += K·randomizer`;
the first randomizer is `r`, the later ones the `u128` draws `rs` -/
def combine : F → List F → List (List F) → List (Proof F) → List F × F
  | r, rs, us :: uss, π :: πs =>
    let pk := combine (rs.headD 0) rs.tail uss πs
    (padd (pscale r (Succinct.computeCoeffs us)) pk.1, π.finalCommKey * r + pk.2)
  | _, _, _, _ => ([], 0)

/-- the final test of `batch_check` -/
def batchDefect (vk : VK F) (rs : List F) (uss : List (List F)) (πs : List (Proof F)) : F :=
  dot vk.commKey (combine 1 rs uss πs).1 - (combine 1 rs uss πs).2

def batchDecide (vk : VK F) (rs : List F) (πs : List (Proof F)) (o : Option (List (List F))) : Bool :=
  match o with
  | none => false
  | some uss => decide (batchDefect vk rs uss πs = 0)

/-- `InnerProductArgPC::batch_check` -/
def batchCheck (vk : VK F) (comms : List (LComm F)) (qs : List (Query F))
    (evals : List ((Label × F) × F)) (πs : List (Proof F)) (ξs ros rs : List F) :
    Except Err Bool :=
  if πs.length ≠ (Marlin.groupQueries qs).length then .error .abort      -- assert_eq!
  else
  match batchSuccinct vk comms evals (Marlin.groupQueries qs) πs ξs ros with
  | .error e => .error e
  | .ok o => .ok (batchDecide vk rs πs o)

end IPA
end PCV
