/-
  PCV.Model.LinCode — the linear-code polynomial commitment scheme of
  `poly-commit/src/linear_codes/mod.rs` (`LinearCodePCS::{commit, open, check}`, `compute_matrices`,
  `generate_proof`), `poly-commit/src/utils.rs` (`Matrix`, `inner_product`) and the `tensor`
  functions of `univariate_ligero`, `multilinear_ligero`, `multilinear_brakedown`.

  The row encoder, the column hash and the Merkle hashes are parameters; the sponge outputs (the
  well-formedness coefficients `r` and the opened column positions) are explicit oracle inputs
  (DESIGN §2.2).  `calculate_t` / `get_indices_from_sponge` are modelled in `Model/CalcT.lean`; here
  the positions arrive already reduced mod `n_ext_cols`, one per opened column.  Core Lean only.
-/
import PCV.Model.Poly
import PCV.Model.Merkle
import PCV.Model.CalcT
namespace PCV
namespace LinCode
open Merkle

variable {F : Type} [Add F] [Mul F] [Sub F] [Neg F] [Zero F] [One F]
variable {D : Type}

/-! ### `utils.rs::Matrix` -/

/-- `Matrix { n, m, entries }`: `n` rows of `m` entries -/
structure Mat (F : Type) where
  n : Nat
  m : Nat
  rows : List (List F)
  deriving DecidableEq, Repr

/-- `Vec::resize(k, 0)`: truncate or pad with zeros -/
def resize (k : Nat) (l : List F) : List F := l.take k ++ List.replicate (k - l.length) 0

/-- `n` consecutive chunks of `m` entries -/
def chunks (m : Nat) : Nat → List F → List (List F)
  | 0, _ => []
  | n + 1, l => l.take m :: chunks m n (l.drop m)

/-- `Matrix::new_from_flat(n, m, entries)` (row-major; the caller passes `n·m` entries) -/
def Mat.ofFlat (n m : Nat) (flat : List F) : Mat F := ⟨n, m, chunks m n flat⟩

/-- column `j` of a list of rows -/
def colOf (rows : List (List F)) (j : Nat) : List F := rows.map (fun r => getD' r j 0)

/-- `Matrix::cols` -/
def Mat.cols (M : Mat F) : List (List F) := (List.range M.m).map (colOf M.rows)

/-- `v · M`: entry `j` is `inner_product(v, column j)` -/
def vecMat (v : List F) (rows : List (List F)) (m : Nat) : List F :=
  (List.range m).map (fun j => dot v (colOf rows j))

/-- `Matrix::row_mul` (asserts `v.len() == self.n`) -/
def Mat.rowMul (M : Mat F) (v : List F) : Except Err (List F) :=
  if v.length = M.n then .ok (vecMat v M.rows M.m) else .error .abort

/-- `Matrix::new_from_rows` (indexes row 0; asserts equal row lengths) -/
def Mat.ofRows (rows : List (List F)) : Except Err (Mat F) :=
  match rows with
  | [] => .error .abort
  | r0 :: rest =>
    if rest.all (fun r => r.length == r0.length) then .ok ⟨rows.length, r0.length, rows⟩
    else .error .abort

/-! ### parameters, commitments, proofs -/

/-- What the scheme is generic in: the row encoder `L::encode` (may refuse, as Brakedown does for a
message of the wrong length), `compute_dimensions`, the column hash `H`, the Merkle hashes, and the
`check_well_formedness` flag. -/
structure Params (F D : Type) where
  enc : List F → Except Err (List F)
  dims : Nat → Nat × Nat
  colHash : List F → D
  hs : Hashes D
  checkWf : Bool

/-- `LinCodePCCommitment` (`Metadata` + root) -/
structure Comm (D : Type) where
  nRows : Nat
  nCols : Nat
  nExtCols : Nat
  root : D
  deriving DecidableEq, Repr

/-- `LinCodePCCommitmentState` -/
structure State (F D : Type) where
  mat : Mat F
  extMat : Mat F
  leaves : List D
  deriving DecidableEq, Repr

/-- `LinCodePCProofSingle` -/
structure Opening (F D : Type) where
  paths : List (Path D)
  v : List F
  columns : List (List F)
  deriving DecidableEq, Repr

/-- `LinCodePCProof` -/
structure Proof (F D : Type) where
  opening : Opening F D
  wf : Option (List F)
  deriving DecidableEq, Repr

/-- The sponge outputs used for one polynomial: `r = squeeze_field_elements(n_rows)` (consumed only
when well-formedness is checked) and the `t` column positions of `get_indices_from_sponge`. -/
structure Oracle (F : Type) where
  r : List F
  indices : List Nat
  deriving DecidableEq, Repr

/-! ### `compute_matrices`, `commit` -/

/-- `rows.map(|r| L::encode(r).unwrap())` -/
def encodeRows (enc : List F → Except Err (List F)) : List (List F) → Except Err (List (List F))
  | [] => .ok []
  | r :: rs =>
    match enc r with
    | .error _ => .error .abort
    | .ok w =>
      match encodeRows enc rs with
      | .error e => .error e
      | .ok ws => .ok (w :: ws)

/-- the coefficient vector that is committed: an empty one is `[0]` -/
def coeffsOrZero (coeffs : List F) : List F := if coeffs.isEmpty then [0] else coeffs

/-- the coefficient matrix of `compute_matrices`: row-major, `dims` rows × columns, zero padded -/
def coeffMat (dims : Nat → Nat × Nat) (coeffs : List F) : Mat F :=
  let cs := coeffsOrZero coeffs
  let nm := dims cs.length
  Mat.ofFlat nm.1 nm.2 (resize (nm.1 * nm.2) cs)

/-- the coefficient vector fits the matrix of `compute_dimensions`: with `(n, m) = dims len` it has at
most `n·m` entries (fix D21) and `m = ceil_div(len, n)` (fix D25: the assertion of
`BrakedownPCParams::compute_dimensions`, whose shape `(n, m)` is a constant of the parameters — a
polynomial of another size than they were made for is refused instead of being zero-padded into a
different polynomial).  Always true for Ligero's shape law, where `m` is `ceil_div(len, n)` by
definition (`Model/Dimensions.lean`, `Proofs/LinCodeProto.lean: fitsDims_of_ceilDiv`). -/
def fitsDims (dims : Nat → Nat × Nat) (coeffs : List F) : Bool :=
  decide ((coeffsOrZero coeffs).length
      ≤ (dims (coeffsOrZero coeffs).length).1 * (dims (coeffsOrZero coeffs).length).2 ∧
    ceilDiv (coeffsOrZero coeffs).length (dims (coeffsOrZero coeffs).length).1
      = (dims (coeffsOrZero coeffs).length).2)

/-- `compute_matrices` after its size assertion: arrange, encode row by row -/
def computeMatricesCore (pp : Params F D) (coeffs : List F) : Except Err (Mat F × Mat F) :=
  let mat := coeffMat pp.dims coeffs
  match encodeRows pp.enc mat.rows with
  | .error e => .error e
  | .ok ws =>
    match Mat.ofRows ws with
    | .error e => .error e
    | .ok ext => .ok (mat, ext)

/-- `LinearEncode::compute_matrices`: `(mat, ext_mat)`; `assert!(coeffs.len() <= n_rows * n_cols)`
(fix D21: `resize` would otherwise drop the surplus coefficients silently) and the assertion inside
`compute_dimensions` (fix D25: `ceil_div(len, n) == m` for Brakedown's fixed shape) -/
def computeMatrices (pp : Params F D) (coeffs : List F) : Except Err (Mat F × Mat F) :=
  if fitsDims pp.dims coeffs = false then .error .abort else computeMatricesCore pp coeffs

/-- the Merkle leaves of a commitment: column hashes of the encoded matrix -/
def leavesOf (pp : Params F D) (ext : Mat F) : List D := ext.cols.map pp.colHash

/-- `LinearCodePCS::commit` for one polynomial (`MerkleTree::new` asserts ≥ 2 padded leaves) -/
def commit (pp : Params F D) (coeffs : List F) : Except Err (Comm D × State F D) :=
  match computeMatrices pp coeffs with
  | .error e => .error e
  | .ok (mat, ext) =>
    let leaves := leavesOf pp ext
    if depth leaves = 0 then .error .abort
    else .ok (⟨mat.n, mat.m, ext.m, merkleRoot pp.hs leaves⟩, ⟨mat, ext, leaves⟩)

/-- `commit` for a list of polynomials -/
def commitAll (pp : Params F D) : List (List F) → Except Err (List (Comm D × State F D))
  | [] => .ok []
  | p :: ps =>
    match commit pp p with
    | .error e => .error e
    | .ok cs =>
      match commitAll pp ps with
      | .error e => .error e
      | .ok rest => .ok (cs :: rest)

/-! ### `tensor` -/

/-- `utils.rs::tensor_vec`: start from `[1]`; each value `v` maps the layer to
`layer·(1−v) ++ layer·v` -/
def tensorStep (layer : List F) (v : F) : List F :=
  layer.map (fun x => x * (1 - v)) ++ layer.map (fun x => x * v)

def tensorVec (values : List F) : List F := values.foldl tensorStep [1]

/-- the evaluation point: a field element (univariate) or a vector (multilinear) -/
inductive Point (F : Type)
  | uni (z : F)
  | ml (pt : List F)
  deriving DecidableEq, Repr

/-- `point_to_vec` -/
def Point.toVec : Point F → List F
  | .uni z => [z]
  | .ml pt => pt

/-- `UnivariateLigero::tensor(z, left, right)`: `((1, z, …, z^(left−1)), (1, z^left, z^(2·left), …))` -/
def tensorUni (z : F) (left right : Nat) : List F × List F :=
  (powers 1 z left, powers 1 (fpow z left) right)

/-- `Multilinear{Ligero,Brakedown}::tensor(point, left_len, _)`: split at `log2(left_len)`
(slicing beyond the point panics) -/
def tensorML (pt : List F) (left : Nat) : Except Err (List F × List F) :=
  let split := ceilLog2 left
  if split ≤ pt.length then .ok (tensorVec (pt.take split), tensorVec (pt.drop split))
  else .error .abort

/-- `L::tensor(point, n_cols, n_rows)` = `(a, b)` -/
def tensor (point : Point F) (nCols nRows : Nat) : Except Err (List F × List F) :=
  match point with
  | .uni z => .ok (tensorUni z nCols nRows)
  | .ml pt => tensorML pt nCols

/-- `DenseMultilinearExtension::fix_variables`, one variable: `p[b] = p[2b] + r·(p[2b+1] − p[2b])` -/
def fixVar (r : F) : List F → List F
  | a :: b :: rest => (a + r * (b - a)) :: fixVar r rest
  | _ => []

/-- `MultilinearExtension::evaluate` on the hypercube evaluations (index bit `i` ↔ variable `i`) -/
def evalMLE (evals : List F) (pt : List F) : F := (pt.foldl (fun e r => fixVar r e) evals).headD 0

/-! ### `open` -/

/-- the columns and Merkle paths of `generate_proof` for the transcript positions -/
def openColumns (hs : Hashes D) (ext : Mat F) (leaves : List D) :
    List Nat → Except Err (List (List F) × List (Path D))
  | [] => .ok ([], [])
  | i :: is =>
    if i < ext.m ∧ sibIdx i < 2 ^ depth leaves then
      match openColumns hs ext leaves is with
      | .error e => .error e
      | .ok (cols, paths) => .ok (colOf ext.rows i :: cols, merklePath hs leaves i :: paths)
    else .error .abort

/-- the optional well-formedness vector `r·M` -/
def wfVector (checkWf : Bool) (mat : Mat F) (r : List F) : Except Err (Option (List F)) :=
  if checkWf then
    match mat.rowMul r with
    | .error e => .error e
    | .ok v => .ok (some v)
  else .ok none

/-- `LinearCodePCS::open`, one (commitment, state) pair. -/
def openOne (pp : Params F D) (point : Point F) (c : Comm D) (st : State F D) (o : Oracle F) :
    Except Err (Proof F D) :=
  if depth st.leaves = 0 then .error .abort else
  match tensor point c.nCols c.nRows with
  | .error e => .error e
  | .ok ab =>
    match wfVector pp.checkWf st.mat o.r with
    | .error e => .error e
    | .ok wf =>
      match st.mat.rowMul ab.2 with
      | .error e => .error e
      | .ok v =>
        match openColumns pp.hs st.extMat st.leaves o.indices with
        | .error e => .error e
        | .ok cp => .ok ⟨⟨cp.2, v, cp.1⟩, wf⟩

/-- `LinearCodePCS::open`: `commitments.zip(states)`, one oracle per pair -/
def openAll (pp : Params F D) (point : Point F) :
    List (Comm D) → List (State F D) → List (Oracle F) → Except Err (List (Proof F D))
  | c :: cs, st :: sts, o :: os =>
    match openOne pp point c st o with
    | .error e => .error e
    | .ok π =>
      match openAll pp point cs sts os with
      | .error e => .error e
      | .ok πs => .ok (π :: πs)
  | _, _, _ => .ok []

/-! ### `check` -/

section Check
variable [DecidableEq F] [DecidableEq D]

/-- step 4 of `check`: `for (j, (leaf, q_j)) in col_hashes.zip(indices).enumerate()`:
`paths[j]` (index panic), `leaf_index == q_j`, `path.verify(..)` -/
def checkPaths (pp : Params F D) (root : D) :
    List (List F) → List Nat → List (Path D) → Except Err Unit
  | col :: cols, q :: qs, ps =>
    match ps with
    | [] => .error .abort
    | p :: ps' =>
      if p.leafIndex ≠ q then .error .invalidCommitment
      else if verifyPath pp.hs root (pp.colHash col) p = false then .error .invalidCommitment
      else checkPaths pp root cols qs ps'
  | _, _, _ => .ok ()

/-- `check_inner_product(a, col, w[idx])` with the index panic of `w[idx]` -/
def checkEntry (a col w : List F) (idx : Nat) : Except Err Unit :=
  match w[idx]? with
  | none => .error .abort
  | some x => if dot a col = x then .ok () else .error .invalidCommitment

/-- the well-formedness half of one iteration of step 7 (absent when the flag is off) -/
def checkWfEntry (rw : Option (List F × List F)) (col : List F) (q : Nat) : Except Err Unit :=
  match rw with
  | none => .ok ()
  | some rww => checkEntry rww.1 col rww.2 q

/-- step 7 of `check`: `for (transcript_index, matrix_index) in indices.iter().enumerate()`;
`rw = some (r, E(wf))` when well-formedness is checked -/
def checkCols (rw : Option (List F × List F)) (b w : List F) :
    List Nat → List (List F) → Except Err Unit
  | [], _ => .ok ()
  | q :: qs, cols =>
    match cols with
    | [] => .error .abort
    | col :: cols' =>
      match checkWfEntry rw col q with
      | .error e => .error e
      | .ok () =>
        match checkEntry b col w q with
        | .error e => .error e
        | .ok () => checkCols rw b w qs cols'

/-- the well-formedness part of the proof as the verifier reads it -/
def readWf (checkWf : Bool) (nCols : Nat) (wf : Option (List F)) : Except Err (Option (List F)) :=
  if checkWf then
    match wf with
    | none => .error .invalidCommitment
    | some w => if w.length ≠ nCols then .error .invalidCommitment else .ok (some w)
  else .ok none

/-- `E(wf)` together with `r` -/
def encodeWf (enc : List F → Except Err (List F)) (r : List F) (wf : Option (List F)) :
    Except Err (Option (List F × List F)) :=
  match wf with
  | none => .ok none
  | some w =>
    match enc w with
    | .error e => .error e
    | .ok ww => .ok (some (r, ww))

/-- Everything one iteration of the loop of `LinearCodePCS::check` does before it looks at the
claimed value, in the order of the code: length of `v`, presence / length of the well-formedness
vector, leaf positions and Merkle paths, `E(v)` and its length against the announced `n_ext_cols`,
`tensor` and the lengths of its two vectors against the announced shape (fix D23: a point with the
wrong number of coordinates is refused — `inner_product` would truncate the longer operand), `E(wf)`,
the inner-product tests on the opened columns.  Returns the vector `a` of `tensor`. -/
def checkPre (pp : Params F D) (point : Point F) (c : Comm D) (π : Proof F D) (o : Oracle F) :
    Except Err (List F) :=
  if π.opening.v.length ≠ c.nCols then .error .invalidCommitment else
  match readWf pp.checkWf c.nCols π.wf with
  | .error e => .error e
  | .ok wf =>
    match checkPaths pp c.root π.opening.columns o.indices π.opening.paths with
    | .error e => .error e
    | .ok () =>
      match pp.enc π.opening.v with
      | .error e => .error e
      | .ok w =>
        if w.length ≠ c.nExtCols then .error .invalidCommitment else
        match tensor point c.nCols c.nRows with
        | .error e => .error e
        | .ok ab =>
          if ab.1.length ≠ c.nCols ∨ ab.2.length ≠ c.nRows then .error .invalidCommitment else
          match encodeWf pp.enc o.r wf with
          | .error e => .error e
          | .ok rw =>
            match checkCols rw ab.2 w o.indices π.opening.columns with
            | .error e => .error e
            | .ok () => .ok ab.1

/-- One iteration of the loop of `LinearCodePCS::check`: `.ok true` = continue with the next
polynomial, `.ok false` = `return Ok(false)` (`⟨v, a⟩ ≠ value`), `.error` = `return Err(..)` / panic. -/
def checkOne (pp : Params F D) (point : Point F) (c : Comm D) (value : F) (π : Proof F D)
    (o : Oracle F) : Except Err Bool :=
  match checkPre pp point c π o with
  | .error e => .error e
  | .ok a => .ok (decide (dot π.opening.v a = value))

/-- `LinearCodePCS::check`: `commitments.zip(values).enumerate()`, `proof_array[i]` (index panic),
first failure returns. -/
def checkAll (pp : Params F D) (point : Point F) :
    List (Comm D) → List F → List (Proof F D) → List (Oracle F) → Except Err Bool
  | c :: cs, val :: vals, πs, os =>
    match πs, os with
    | π :: πs', o :: os' =>
      match checkOne pp point c val π o with
      | .error e => .error e
      | .ok false => .ok false
      | .ok true => checkAll pp point cs vals πs' os'
    | _, _ => .error .abort
  | _, _, _, _ => .ok true

end Check

end LinCode
end PCV
