/-
  PCV.Model.LinCodeSetup — `LinearCodePCS::setup` / `trim` (`poly-commit/src/linear_codes/mod.rs`), the
  Ligero default parameters (`univariate_ligero/mod.rs`, `multilinear_ligero/mod.rs`: `setup`) and
  the degree reports of `linear_codes/ligero.rs` and `brakedown.rs`.  Core Lean only.
-/
import PCV.Model.CalcT
namespace PCV
namespace LinCode

/-- `usize::MAX` on the 64-bit targets the crate is built for -/
def usizeMax : Nat := 2 ^ 64 - 1

/-- what the properties read of `LigeroPCParams` -/
structure LigeroParams where
  secParam : Nat
  rhoInv : Nat
  checkWf : Bool
  deriving DecidableEq, Repr

/-- `UnivariateLigero::setup`: `LigeroPCParams::new(128, 4, true, ..)`; degree, number of variables
and RNG are not read, the hash parameters are passed through -/
def ligeroSetup : LigeroParams := ⟨128, 4, true⟩

/-- `MultilinearLigero::setup`: `LigeroPCParams::new(128, 2, true, ..)` (inverse rate 2) -/
def ligeroSetupML : LigeroParams := ⟨128, 2, true⟩

/-- `LinCodeParametersInfo::distance` of Ligero: `(rho_inv − 1, rho_inv)` -/
def LigeroParams.distance (pp : LigeroParams) : Nat × Nat := (pp.rhoInv - 1, pp.rhoInv)

/-- `PCUniversalParams::max_degree` of `LigeroPCParams` over a field of two-adicity `s`:
`0` if `s < rho_inv`, else `2^(2·(s − rho_inv))` if that fits below `2^64`, else `usize::MAX` -/
def ligeroMaxDegree (s : Nat) (pp : LigeroParams) : Nat :=
  if s < pp.rhoInv then 0
  else if (s - pp.rhoInv) * 2 < 64 then 2 ^ ((s - pp.rhoInv) * 2)
  else usizeMax

/-- `PCUniversalParams::max_degree` of `BrakedownPCParams` -/
def brakedownMaxDegree : Nat := usizeMax

/-- the tests of `LinearCodePCS::setup` after `L::setup`: `InvalidParameters` when the requested degree
exceeds the reported maximum or the maximum is `0` (field not suitable) -/
def pcsSetup (realMax maxDegree : Nat) : Except Err Unit :=
  if maxDegree > realMax ∨ realMax = 0 then .error .invalidParameters else .ok ()

/-- `LinearCodePCS::trim`: `InvalidParameters` when `max_degree(pp) = 0`, otherwise
`(pp.clone(), pp.clone())` whatever is requested -/
def pcsTrim {P : Type} (realMax : Nat) (pp : P) : Except Err (P × P) :=
  if realMax = 0 then .error .invalidParameters else .ok (pp, pp)

end LinCode
end PCV
