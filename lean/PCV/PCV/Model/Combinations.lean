/-
  PCV.Model.Combinations — `poly-commit/src/marlin/marlin_pst13_pc/combinations.rs` (the
  `Combinations` iterator) and the way `MarlinPST13::setup` uses it to enumerate the monomials of
  every total degree.  Core Lean only.  Vector reads use a default where the Rust code indexes
  (`Proofs/Combinations.lean` shows the indices stay in range for every valid iterator state).
-/
import PCV.Model.MVPoly
namespace PCV

/-- `struct Combinations<usize>` (field `possition` of the source spelled `position`) -/
structure Comb where
  original : List Nat
  position : List Nat
  len : Nat
  started : Bool
  deriving DecidableEq, Repr

def insertNat (a : Nat) : List Nat → List Nat
  | [] => [a]
  | b :: l => if b < a then b :: insertNat a l else a :: b :: l

/-- `original.sort_unstable()` -/
def sortNat : List Nat → List Nat
  | [] => []
  | a :: l => insertNat a (sortNat l)

namespace Comb

/-- `Combinations::new`; the `panic!` is `Err.abort`. -/
def new (original : List Nat) (len : Nat) : Except Err Comb :=
  if original.length > len ∧ len ≥ 1 then
    .ok ⟨sortNat original, List.range len, len, false⟩
  else .error .abort

/-- `Combinations::insert`: the values at the current positions -/
def insert (c : Comb) : List Nat := c.position.map (fun n => getD' c.original n 0)

/-- `while current == next { i += 1; next = &self.original[i]; }` — returns the final `i`;
`fuel` bounds the loop by the vector length (an out-of-range read stops it: the code would panic). -/
def skipEqual (orig : List Nat) (current : Nat) : Nat → Nat → Nat
  | 0, i => i + 1
  | f + 1, i => if orig[i + 1]? = some current then skipEqual orig current f (i + 1) else i + 1

/-- `for j in lastpos + 1..org_len { if *val < self.original[j] { … return } }`: the first such
`j` (`fuel` = number of remaining indices) -/
def findGreater (orig : List Nat) (val : Nat) : Nat → Nat → Option Nat
  | 0, _ => none
  | f + 1, j => if val < getD' orig j 0 then some j else findGreater orig val f (j + 1)

/-- `for k in 0..i { self.possition[start + k] = j + k; }` -/
def setRun (pos : List Nat) (start j : Nat) : Nat → List Nat
  | 0 => pos
  | i + 1 => (setRun pos start j i).set (start + i) (j + i)

/-- `for i in 2..=self.len { … }` of the reset branch: the new position vector, or `none` when the
loop runs out (the iterator is exhausted).  `fuel` = remaining values of `i`. -/
def resetLoop (c : Comb) : Nat → Nat → Option (List Nat)
  | 0, _ => none
  | f + 1, i =>
    let orgLen := c.original.length
    let lastpos := getD' c.position (c.len - i) 0
    let val := getD' c.original lastpos 0
    if val < getD' c.original (orgLen - i) 0 then
      match findGreater c.original val (orgLen - (lastpos + 1)) (lastpos + 1) with
      | some j => some (setRun c.position (c.len - i) j i)
      | none => resetLoop c f (i + 1)
    else resetLoop c f (i + 1)

/-- the positions after the "bump the back number" branch -/
def bump (c : Comb) : List Nat :=
  let last := getD' c.position (c.len - 1) 0
  c.position.set (c.len - 1) (skipEqual c.original (getD' c.original last 0) c.original.length last)

/-- is the back number at the largest value? (`original[possition[len-1]] == original[org_len-1]`) -/
def backAtMax (c : Comb) : Bool :=
  getD' c.original (getD' c.position (c.len - 1) 0) 0 = getD' c.original (c.original.length - 1) 0

/-- `next_combination` + `Iterator::next`: the produced vector (if any) and the new state. -/
def next (c : Comb) : Option (List Nat) × Comb :=
  if !c.started then
    let c' := { c with started := true }
    (some c'.insert, c')
  else if backAtMax c then
    match resetLoop c (c.len - 1) 2 with
    | some pos => let c' := { c with position := pos }; (some c'.insert, c')
    | none => (none, c)
  else
    let c' := { c with position := bump c }
    (some c'.insert, c')

/-- `.collect()`; `fuel` bounds the number of outputs. -/
def collect : Nat → Comb → List (List Nat)
  | 0, _ => []
  | f + 1, c =>
    let r := c.next
    match r.1 with
    | some v => v :: collect f r.2
    | none => []

end Comb

/-- `Combinations::new(original, len).collect()`; at most `2^|original|` sub-multisets exist. -/
def combinations (original : List Nat) (len : Nat) : Except Err (List (List Nat)) :=
  match Comb.new original len with
  | .error e => .error e
  | .ok c => .ok (Comb.collect (2 ^ original.length) c)

/-! ### `MarlinPST13::setup`: the monomials -/

/-- `(0..num_vars).flat_map(|var| vec![var; max_degree])` -/
def variableSet (nv D : Nat) : List Nat := (List.range nv).flatMap (fun v => List.replicate D v)

/-- the `P::Term` built from one multiset: `(var, count of var)` for every variable -/
def termOfMultiset (nv : Nat) (m : List Nat) : Term :=
  Term.new ((List.range nv).map (fun v => (v, m.count v)))

/-- the multisets of one `degree` (`if variable_set.len() == degree { vec![variable_set] } else
{ Combinations::new(variable_set, degree).collect() }`) -/
def degreeMultisets (nv D degree : Nat) : Except Err (List (List Nat)) :=
  let vs := variableSet nv D
  if vs.length = degree then .ok [vs] else combinations vs degree

/-- `(1..=max_degree).flat_map(…)`: `k` further degrees starting at `degree` -/
def multisetsFrom (nv D : Nat) : Nat → Nat → Except Err (List (List Nat))
  | 0, _ => .ok []
  | k + 1, degree =>
    match degreeMultisets nv D degree with
    | .error e => .error e
    | .ok ms =>
      match multisetsFrom nv D k (degree + 1) with
      | .error e => .error e
      | .ok rest => .ok (ms ++ rest)

/-- all multisets in the order `setup` produces them -/
def setupMultisets (nv D : Nat) : Except Err (List (List Nat)) := multisetsFrom nv D D 1

/-- `powers_of_beta_terms` of `setup` (after the final `push(P::Term::new(vec![]))`), in the
code's order -/
def setupTerms (nv D : Nat) : Except Err (List Term) :=
  match setupMultisets nv D with
  | .error e => .error e
  | .ok ms => .ok (ms.map (termOfMultiset nv) ++ [Term.new []])

/-- the same, reading a refusal as the empty list (for statements about the successful case) -/
def setupTermsL (nv D : Nat) : List Term :=
  match setupTerms nv D with
  | .ok l => l
  | .error _ => []

end PCV
