/-
  PCV.Model.IPALC — `InnerProductArgPC::open_combinations` / `check_combinations`
  (`poly-commit/src/ipa_pc/mod.rs`, the last two trait methods) with their helpers
  `combine_shifted_rand`, `combine_shifted_comm`, `construct_labeled_commitments`.

  A labelled linear combination of committed polynomials is turned into one labelled polynomial,
  one `Randomness` and one commitment (with a shifted part only for a single term of coefficient
  one), the commitments are collected in ONE flat vector that `construct_labeled_commitments`
  walks again with an index, and the result is handed to the trait-default `batch_open` /
  IPA's own `batch_check`.  The verifier subtracts every constant term from every claimed value that
  carries the combination's label.  `BatchLCProof.evals` is `None`: no polynomial evaluation is
  transmitted.
-/
import PCV.Model.IPA
import PCV.Model.LC
namespace PCV
namespace IPA

variable {F : Type} [Add F] [Mul F] [Sub F] [Neg F] [Zero F] [One F] [Inv F] [DecidableEq F]

/-- `combine_shifted_rand(combined_rand, new_rand, coeff)` -/
def combineShiftedRand (combined new : Option F) (coeff : F) : Option F :=
  match new with
  | some r =>
    match combined with
    | none => some (r * coeff)
    | some c => some (c + r * coeff)
  | none => combined

/-- `combine_shifted_comm(combined_comm, new_comm, coeff)` -/
def combineShiftedComm (combined new : Option F) (coeff : F) : Option F :=
  match new with
  | some s =>
    match combined with
    | none => some (s * coeff)
    | some c => some (c + s * coeff)
  | none => combined

/-- `core::cmp::max` on `Option<usize>` (`Some(_) > None`) -/
def maxHb : Option Nat → Option Nat → Option Nat
  | none, b => b
  | a, none => a
  | some a, some b => some (max a b)

/-- `poly += (coeff, cur_poly.polynomial())` on `DensePolynomial`: the sum is stored without
trailing zero coefficients.  (When the accumulator is zero the code stores `coeff·p` as it is, so
for `coeff = 0` it keeps an all-zero coefficient vector; `is_zero`, `degree`, `evaluate`, `+=` and
the commitment treat that vector as the zero polynomial, which is what `pnorm` returns.) -/
def lcAddPoly (acc : List F) (coeff : F) (p : List F) : List F := pnorm (padd acc (pscale coeff p))

/-- the per-combination variables of `open_combinations`: `lc_label`, `poly`, `degree_bound`,
`hiding_bound`, `combined_comm`, `combined_shifted_comm`, `combined_rand`, `combined_shifted_rand`
(`check_combinations` has the same without polynomial / randomness, see `lcStepV`) -/
structure LCAcc (F : Type) where
  label : Label
  poly : List F
  bound : Option Nat
  hb : Option Nat
  comm : F
  shifted : Option F
  rand : F
  srand : Option F
  deriving DecidableEq, Repr

/-- the variables at the start of one combination -/
def LCAcc.init (l : Label) : LCAcc F := ⟨l, [], none, none, 0, none, 0, none⟩

/-- an entry of `label_poly_map`: polynomial, state, commitment (the map is collected from
`polynomials.zip(states).zip(commitments)` keyed by the polynomial's label: last one wins) -/
abbrev Trip (F : Type) := LPoly F × (Rand F × LComm F)

/-- the accumulation part of one iteration of the prover's term loop (after the degree-bound
policy): hiding bound, polynomial, randomness, commitments -/
def LCAcc.addTerm (a : LCAcc F) (coeff : F) (t : Trip F) : LCAcc F :=
  { a with hb := maxHb a.hb t.1.hb,
           poly := lcAddPoly a.poly coeff t.1.poly,
           rand := a.rand + t.2.1.rand * coeff,
           srand := combineShiftedRand a.srand t.2.1.shifted coeff,
           comm := a.comm + t.2.2.comm.comm * coeff,
           shifted := combineShiftedComm a.shifted t.2.2.comm.shifted coeff }

/-- one term of a combination in `open_combinations`.  `numPolys = lc.len()` counts the constant
terms too; constants are skipped (`filter(|(_, l)| !l.is_one())`).  Order of the refusals: unknown
label (`MissingPolynomial`), then a commitment whose shifted part does not go with the polynomial's
degree bound (`InvalidCommitment`: it would shift the positions at which
`construct_labeled_commitments` reads the flat vector back), then the degree-bound policy. -/
def lcStepP (trips : List (Trip F)) (numPolys : Nat) (acc : LCAcc F) (term : F × LC.LCTerm) :
    Except Err (LCAcc F) :=
  match term.2 with
  | .one => .ok acc
  | .poly l =>
    match Marlin.lookupLast (fun (t : Trip F) => t.1.label) l trips with
    | none => .error .missingPolynomial
    | some t =>
      -- `cur_poly.degree_bound().is_some() != cur_comm.commitment().shifted_comm.is_some()`
      if t.1.bound.isSome ≠ t.2.2.comm.shifted.isSome then .error .invalidCommitment
      else if numPolys = 1 ∧ t.1.bound.isSome then
        if term.1 ≠ 1 then .error .abort                 -- assert!(coeff.is_one())
        else .ok ({ acc with bound := t.1.bound }.addTerm term.1 t)
      else if t.1.bound.isSome then .error .equationHasDegreeBounds
      else .ok (acc.addTerm term.1 t)

/-- the term loop of one combination -/
def lcLoopP (trips : List (Trip F)) (numPolys : Nat) :
    LCAcc F → List (F × LC.LCTerm) → Except Err (LCAcc F)
  | acc, [] => .ok acc
  | acc, t :: ts =>
    match lcStepP trips numPolys acc t with
    | .error e => .error e
    | .ok acc' => lcLoopP trips numPolys acc' ts

/-- one combination on the prover's side -/
def combineOneP (trips : List (Trip F)) (lc : LC.LinComb F) : Except Err (LCAcc F) :=
  lcLoopP trips lc.terms.length (LCAcc.init lc.label) lc.terms

/-- the loop `for lc in linear_combinations` of `open_combinations` -/
def combineAllP (trips : List (Trip F)) : List (LC.LinComb F) → Except Err (List (LCAcc F))
  | [] => .ok []
  | lc :: lcs =>
    match combineOneP trips lc with
    | .error e => .error e
    | .ok a =>
      match combineAllP trips lcs with
      | .error e => .error e
      | .ok as => .ok (a :: as)

/-- what one combination pushes on the flat vector `lc_commitments` -/
def LCAcc.flat (a : LCAcc F) : List F := a.comm :: a.shifted.toList

/-- `construct_labeled_commitments(lc_info, elements)`: the index walk over the flat vector
(`comms[i]`, `comms[i + 1]` panic when the vector is too short); `normalize_batch` is the identity
on scalars -/
def constructLabeledCommitments : List (Label × Option Nat) → List F → Except Err (List (LComm F))
  | [], _ => .ok []
  | (l, some d) :: info, c :: s :: es =>
    match constructLabeledCommitments info es with
    | .error e => .error e
    | .ok cs => .ok (⟨l, ⟨c, some s⟩, some d⟩ :: cs)
  | (l, none) :: info, c :: es =>
    match constructLabeledCommitments info es with
    | .error e => .error e
    | .ok cs => .ok (⟨l, ⟨c, none⟩, none⟩ :: cs)
  | _ :: _, _ => .error .abort

/-- `lc_polynomials` -/
def lcPolys (as : List (LCAcc F)) : List (LPoly F) := as.map fun a => ⟨a.label, a.poly, a.bound, a.hb⟩
/-- `lc_states` -/
def lcStates (as : List (LCAcc F)) : List (Rand F) := as.map fun a => ⟨a.rand, a.srand⟩
/-- `lc_info` -/
def lcInfo (as : List (LCAcc F)) : List (Label × Option Nat) := as.map fun a => (a.label, a.bound)
/-- the flat vector `lc_commitments` -/
def lcFlat : List (LCAcc F) → List F
  | [] => []
  | a :: as => a.flat ++ lcFlat as

/-- `InnerProductArgPC::open_combinations`; returns the proofs of the trait-default `batch_open` and
the unused `ξs`, `ros`, `draws` (`BatchLCProof { proof, evals: None }`) -/
def openCombinations (ck : CK F) (lcs : List (LC.LinComb F)) (polys : List (LPoly F))
    (comms : List (LComm F)) (sts : List (Rand F)) (qs : List (Query F)) (ξs ros : List F)
    (rng : Bool) (draws : List F) : Except Err (List (Proof F) × List F × List F × List F) :=
  match combineAllP (polys.zip (sts.zip comms)) lcs with
  | .error e => .error e
  | .ok as =>
    match constructLabeledCommitments (lcInfo as) (lcFlat as) with
    | .error e => .error e
    | .ok lcComms => batchOpen ck (lcPolys as) lcComms (lcStates as) qs ξs ros rng draws

/-! ### verifier -/

/-- the per-combination variables of `check_combinations` -/
structure LCAccV (F : Type) where
  label : Label
  bound : Option Nat
  comm : F
  shifted : Option F
  deriving DecidableEq, Repr

def LCAccV.init (l : Label) : LCAccV F := ⟨l, none, 0, none⟩

def LCAccV.flat (a : LCAccV F) : List F := a.comm :: a.shifted.toList

/-- `for (&(ref label, _), ref mut eval) in evaluations.iter_mut() { if label == &lc_label { **eval -= coeff } }` -/
def subConstant (lcLabel : Label) (coeff : F) (evals : List ((Label × F) × F)) :
    List ((Label × F) × F) :=
  evals.map fun e => if e.1.1 = lcLabel then (e.1, e.2 - coeff) else e

/-- the accumulation part of one iteration of the verifier's term loop -/
def LCAccV.addTerm (a : LCAccV F) (coeff : F) (c : LComm F) : LCAccV F :=
  { a with comm := a.comm + c.comm.comm * coeff,
           shifted := combineShiftedComm a.shifted c.comm.shifted coeff }

/-- one term of a combination in `check_combinations`: a constant is subtracted from the claimed
values of this combination, a polynomial term is looked up (`MissingPolynomial`), its commitment
must carry a shifted part exactly when its label has a degree bound (`InvalidCommitment`), it
passes the degree-bound policy (read off the commitment's label) and is accumulated -/
def lcStepV (comms : List (LComm F)) (numPolys : Nat) (st : LCAccV F × List ((Label × F) × F))
    (term : F × LC.LCTerm) : Except Err (LCAccV F × List ((Label × F) × F)) :=
  match term.2 with
  | .one => .ok (st.1, subConstant st.1.label term.1 st.2)
  | .poly l =>
    match Marlin.lookupLast (fun (c : LComm F) => c.label) l comms with
    | none => .error .missingPolynomial
    | some c =>
      -- `cur_comm.degree_bound().is_some() != cur_comm.commitment().shifted_comm.is_some()`
      if c.bound.isSome ≠ c.comm.shifted.isSome then .error .invalidCommitment
      else if numPolys = 1 ∧ c.bound.isSome then
        if term.1 ≠ 1 then .error .abort                 -- assert!(coeff.is_one())
        else .ok ({ st.1 with bound := c.bound }.addTerm term.1 c, st.2)
      else if c.bound.isSome then .error .equationHasDegreeBounds
      else .ok (st.1.addTerm term.1 c, st.2)

def lcLoopV (comms : List (LComm F)) (numPolys : Nat) :
    LCAccV F × List ((Label × F) × F) → List (F × LC.LCTerm) →
    Except Err (LCAccV F × List ((Label × F) × F))
  | st, [] => .ok st
  | st, t :: ts =>
    match lcStepV comms numPolys st t with
    | .error e => .error e
    | .ok st' => lcLoopV comms numPolys st' ts

/-- the loop `for lc in linear_combinations` of `check_combinations`; the evaluations are threaded
through all combinations -/
def combineAllV (comms : List (LComm F)) : List (LC.LinComb F) → List ((Label × F) × F) →
    Except Err (List (LCAccV F) × List ((Label × F) × F))
  | [], evals => .ok ([], evals)
  | lc :: lcs, evals =>
    match lcLoopV comms lc.terms.length (LCAccV.init lc.label, evals) lc.terms with
    | .error e => .error e
    | .ok (a, evals') =>
      match combineAllV comms lcs evals' with
      | .error e => .error e
      | .ok (as, evals'') => .ok (a :: as, evals'')

def lcInfoV (as : List (LCAccV F)) : List (Label × Option Nat) := as.map fun a => (a.label, a.bound)
def lcFlatV : List (LCAccV F) → List F
  | [] => []
  | a :: as => a.flat ++ lcFlatV as

/-- `InnerProductArgPC::check_combinations` -/
def checkCombinations (vk : VK F) (lcs : List (LC.LinComb F)) (comms : List (LComm F))
    (qs : List (Query F)) (evals : List ((Label × F) × F)) (πs : List (Proof F))
    (ξs ros rs : List F) : Except Err Bool :=
  match combineAllV comms lcs evals with
  | .error e => .error e
  | .ok (as, evals') =>
    match constructLabeledCommitments (lcInfoV as) (lcFlatV as) with
    | .error e => .error e
    | .ok lcComms => batchCheck vk lcComms qs evals' πs ξs ros rs

end IPA
end PCV
