/-
  PCV.Model.Poly — dense univariate polynomials as little-endian coefficient lists, dot products
  (= multi-scalar multiplications in exponent form), synthetic division.  Core Lean only.
-/
import PCV.Model.Basic
namespace PCV

variable {F : Type} [Add F] [Mul F] [Sub F] [Neg F] [Zero F] [One F]

/-- Horner evaluation, `ark_poly::Polynomial::evaluate`. -/
def evalPoly (p : List F) (x : F) : F := p.foldr (fun c acc => c + x * acc) 0

/-- Synthetic division by `X - z`: quotient (same length as `p`, top coefficient padded) and
remainder `p(z)`.  `p / (X - z)` of `ark-poly` is `normalize (divLin p z).1`. -/
def divLin : List F → F → List F × F
  | [], _ => ([], 0)
  | c :: cs, z => let (q, r) := divLin cs z; (r :: q, c + z * r)

/-- `ark_ec::VariableBaseMSM::msm` in exponent form: truncates to the shorter operand. -/
def dot : List F → List F → F
  | a :: as, b :: bs => a * b + dot as bs
  | _, _ => 0

def padd : List F → List F → List F
  | [], q => q
  | p, [] => p
  | a :: p, b :: q => (a + b) :: padd p q

def pscale (c : F) (p : List F) : List F := p.map (c * ·)

def psub (p q : List F) : List F := padd p (pscale (-1) q)

/-- `g, βg, β²g, …` (`n` entries): a well-formed KZG power list. -/
def powers (g β : F) : Nat → List F
  | 0 => []
  | n+1 => g :: powers (β * g) β n

/-- `x^n` by repeated multiplication (specification-level; the driver never needs big `n`). -/
def fpow (x : F) : Nat → F
  | 0 => 1
  | n+1 => x * fpow x n

/-- `X^k · p` -/
def pshift (k : Nat) (p : List F) : List F := List.replicate k 0 ++ p

section Dec
variable [DecidableEq F]

/-- Remove high-degree zero coefficients (`DensePolynomial::truncate_leading_zeros`). -/
def pnorm : List F → List F
  | [] => []
  | c :: cs => match pnorm cs with
    | [] => if c = 0 then [] else [c]
    | cs' => c :: cs'

def isZeroPoly (p : List F) : Bool := (pnorm p).isEmpty

/-- `ark_poly` `degree()`: `0` for the zero polynomial. -/
def pdeg (p : List F) : Nat := (pnorm p).length - 1

/-- low-order zero coefficients skipped by `skip_leading_zeros_and_convert_to_bigints` -/
def skipLowZeros : List F → Nat × List F
  | [] => (0, [])
  | c :: cs => if c = 0 then let (n, r) := skipLowZeros cs; (n + 1, r) else (0, c :: cs)

end Dec

/-- sum of a list -/
def lsum : List F → F
  | [] => 0
  | a :: as => a + lsum as

end PCV
