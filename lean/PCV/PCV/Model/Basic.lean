/-
  PCV.Model.Basic — error type, executable prime field, list helpers.
  Core Lean only (no Mathlib): everything under PCV/Model is linked into the native driver.
-/
namespace PCV

/-- Outcome classes of the Rust code. `abort` = panic / assert / index out of bounds. -/
inductive Err
  | missingRng | tooManyCoefficients | hidingBoundZero | hidingBoundTooLarge | unsupportedBound
  | incorrectBound | equationHasDegreeBounds | missingPolynomial | missingEvaluation
  | incorrectInputLength | invalidNumVars | mismatchedLabels | invalidCommitment | trimTooLarge
  | degreeIsZero | invalidParameters | encodingError | emptyDegreeBounds | abort
  deriving DecidableEq, Repr, Inhabited

def Err.name : Err → String
  | .missingRng => "missingRng" | .tooManyCoefficients => "tooManyCoefficients"
  | .hidingBoundZero => "hidingBoundZero" | .hidingBoundTooLarge => "hidingBoundTooLarge"
  | .unsupportedBound => "unsupportedBound" | .incorrectBound => "incorrectBound"
  | .equationHasDegreeBounds => "equationHasDegreeBounds" | .missingPolynomial => "missingPolynomial"
  | .missingEvaluation => "missingEvaluation" | .incorrectInputLength => "incorrectInputLength"
  | .invalidNumVars => "invalidNumVars" | .mismatchedLabels => "mismatchedLabels"
  | .invalidCommitment => "invalidCommitment" | .trimTooLarge => "trimTooLarge"
  | .degreeIsZero => "degreeIsZero" | .invalidParameters => "invalidParameters"
  | .encodingError => "encodingError" | .emptyDegreeBounds => "emptyDegreeBounds" | .abort => "abort"

/-- Executable prime field: canonical representative `v < p` is maintained by every operation. -/
structure Fp (p : Nat) where
  v : Nat
  deriving DecidableEq, Repr

namespace Fp
variable {p : Nat}
def ofNat (n : Nat) : Fp p := ⟨n % p⟩
instance : Add (Fp p) := ⟨fun a b => ⟨(a.v + b.v) % p⟩⟩
instance : Mul (Fp p) := ⟨fun a b => ⟨(a.v * b.v) % p⟩⟩
instance : Neg (Fp p) := ⟨fun a => ⟨(p - a.v % p) % p⟩⟩
instance : Sub (Fp p) := ⟨fun a b => ⟨(a.v + (p - b.v % p)) % p⟩⟩
instance : Zero (Fp p) := ⟨⟨0⟩⟩
instance : One (Fp p) := ⟨⟨1 % p⟩⟩
instance : Inhabited (Fp p) := ⟨⟨0⟩⟩

/-- modular exponentiation by squaring -/
def powNat (b : Nat) (e : Nat) (m : Nat) : Nat :=
  if h : e = 0 then 1 % m
  else
    let half := powNat b (e / 2) m
    let sq := (half * half) % m
    if e % 2 = 1 then (sq * b) % m else sq
termination_by e
decreasing_by omega

/-- Fermat inverse (`0⁻¹ = 0`, like `Field.inv`). -/
instance : Inv (Fp p) := ⟨fun a => ⟨powNat (a.v % p) (p - 2) p⟩⟩
end Fp

section ListHelpers
variable {α : Type}

def getD' (l : List α) (i : Nat) (d : α) : α := (l[i]?).getD d

/-- `l.drop a |>.take (b - a)`: the Rust slice `l[a..b]`; the caller checks the range. -/
def slice (l : List α) (a b : Nat) : List α := (l.drop a).take (b - a)

end ListHelpers

end PCV
