/-
  PCV.Model.DrvDefault — driver requests of the model of the trait-default methods of
  `PolynomialCommitment` (`poly-commit/src/lib.rs`): op names start with "dflt.".
-/
import PCV.Model.Wire
import PCV.Model.DrvUtil
namespace PCV
namespace DrvDefault
open Driver

def handle (p : Nat) (r : Req) : Option (R String) :=
  if !r.op.startsWith "dflt." then none else some do
  match r.op with
  | _ => .error "unknown-op"

end DrvDefault
end PCV
