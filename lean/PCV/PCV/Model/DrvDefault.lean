/-
  PCV.Model.DrvDefault — driver requests of the model of the trait-default methods of
  `PolynomialCommitment` (`poly-commit/src/lib.rs`): op names start with "dflt.".

  The generic model `PCV.TraitDefault` is instantiated with a LOGGING toy scheme (the harness runs the
  library's default methods on the same toy, `props_default.rs::ToyPC`):
  * state = (number of calls so far, call log, squeezed challenges still to come);
  * `open` looks its outcome up in a script by call index (1 = answer, 4/5/9 = refuse), takes the next
    challenge, logs (polynomial labels, state ids, commitment labels, commitment ids, point) and
    returns the proof (call index, challenge);
  * `check` looks its outcome up in a script by call index (0 = false, 1 = true exactly when the next
    challenge equals the one in the proof, 6 = true, 4/5/9 = refuse) and logs (commitment labels,
    commitment ids, point, values, proof tag, proof challenge, challenges-agree flag).
  Replies carry `res` (1/0 or `[error code]`), the call log and the produced proofs / evaluations.
-/
import PCV.Model.Wire
import PCV.Model.DrvUtil
import PCV.Model.TraitDefault
namespace PCV
namespace DrvDefault
open Driver TraitDefault

variable {p : Nat}

structure TPoly (p : Nat) where
  label : List Nat
  coeffs : List (Fp p)

structure TComm where
  label : List Nat
  id : Nat

structure TProof (p : Nat) where
  tag : Nat
  chal : Fp p

structure TState (p : Nat) where
  n : Nat
  log : List Val
  chals : List (Fp p)

/-- `Ord for Fp`: by canonical representative -/
def ltFp (a b : Fp p) : Bool := decide (a.v < b.v)

def errCode : Err → Nat
  | .missingPolynomial => 2
  | .missingEvaluation => 3
  | .incorrectInputLength => 4
  | .invalidCommitment => 5
  | .abort => 9
  | _ => 99

def scriptErr (code : Nat) : Err :=
  if code = 4 then .incorrectInputLength else if code = 5 then .invalidCommitment else .abort

def vLabels (ls : List (List Nat)) : Val := .l (ls.map vNats)

def toyOpen (script : List Nat) (ts : List ((TPoly p × Nat) × TComm)) (z : Fp p) (s : TState p) :
    Except Err (TProof p × TState p) :=
  let code := script.getD s.n 1
  if code ≠ 1 then .error (scriptErr code)
  else
    let c := s.chals.headD 0
    let entry : Val := .l [vLabels (ts.map (·.1.1.label)), vNats (ts.map (·.1.2)),
      vLabels (ts.map (·.2.label)), vNats (ts.map (·.2.id)), vFe z]
    .ok (⟨s.n, c⟩, ⟨s.n + 1, s.log ++ [entry], s.chals.drop 1⟩)

def toyCheck (script : List Nat) (cs : List TComm) (z : Fp p) (vs : List (Fp p)) (π : TProof p)
    (s : TState p) : Except Err (Bool × TState p) :=
  let code := script.getD s.n 1
  if code ≠ 0 ∧ code ≠ 1 ∧ code ≠ 6 then .error (scriptErr code)
  else
    let c := s.chals.headD 0
    let agree := decide (c = π.chal)
    let entry : Val := .l [vLabels (cs.map (·.label)), vNats (cs.map (·.id)), vFe z, vFes vs,
      .n π.tag, vFe π.chal, vBool agree]
    let b := if code = 0 then false else if code = 6 then true else agree
    .ok (b, ⟨s.n + 1, s.log ++ [entry], s.chals.drop 1⟩)

def asLabels (v : Val) : R (List (List Nat)) := do let xs ← asList v; xs.mapM asNats

/-- `plabels=[[..],..] pcoeffs=[[..],..]` -/
def getPolys (r : Req) : R (List (TPoly p)) := do
  let ls ← asLabels (← need r "plabels")
  let cs ← asFess (p := p) (← need r "pcoeffs")
  pure (List.zipWith (fun l c => ⟨l, c⟩) ls cs)

/-- `clabels=[[..],..] cids=[..]` -/
def getComms (r : Req) : R (List TComm) := do
  let ls ← asLabels (← need r "clabels")
  let ids ← asNats (← need r "cids")
  pure (List.zipWith (fun l i => ⟨l, i⟩) ls ids)

/-- a query `[label, point_label, point]` -/
def asQuery (v : Val) : R (Query (Fp p)) := do
  match ← asList v with
  | [a, b, c] => do
    let l ← asNats a
    let pl ← asNats b
    let z ← asFe (p := p) c
    pure (l, (pl, z))
  | _ => .error "expected-query"

def getQueries (r : Req) (k : String) : R (List (Query (Fp p))) := do
  let xs ← asList (← need r k); xs.mapM asQuery

/-- an evaluation `[label, point, value]` -/
def asEval (v : Val) : R ((Label × Fp p) × Fp p) := do
  match ← asList v with
  | [a, b, c] => do
    let l ← asNats a
    let z ← asFe (p := p) b
    let x ← asFe (p := p) c
    pure ((l, z), x)
  | _ => .error "expected-evaluation"

def getEvals (r : Req) (k : String) : R (List ((Label × Fp p) × Fp p)) := do
  let xs ← asList (← need r k); xs.mapM asEval

/-- a proof `[tag, challenge]` -/
def asProof (v : Val) : R (TProof p) := do
  match ← asList v with
  | [a, b] => do
    let t ← asNat a
    let c ← asFe (p := p) b
    pure ⟨t, c⟩
  | _ => .error "expected-proof"

def getProofs (r : Req) : R (List (TProof p)) := do
  let xs ← asList (← need r "proofs"); xs.mapM asProof

/-- a term `[coeff, none | some(label)]` -/
def asTerm (v : Val) : R (Fp p × LC.LCTerm) := do
  match ← asList v with
  | [a, b] => do
    let c ← asFe (p := p) a
    match ← asOpt b with
    | none => pure (c, .one)
    | some l => do let l ← asNats l; pure (c, .poly l)
  | _ => .error "expected-term"

/-- an equation `[label, [term,..]]` -/
def asLC (v : Val) : R (LC.LinComb (Fp p)) := do
  match ← asList v with
  | [a, b] => do
    let l ← asNats a
    let ts ← asList b
    let ts ← ts.mapM asTerm
    pure ⟨l, ts⟩
  | _ => .error "expected-equation"

def getLCs (r : Req) : R (List (LC.LinComb (Fp p))) := do
  let xs ← asList (← need r "lcs"); xs.mapM asLC

def vQuery (q : Query (Fp p)) : Val := .l [vNats q.1, vNats q.2.1, vFe q.2.2]
def vProofs (πs : List (TProof p)) : Val := .l (πs.map fun π => .l [.n π.tag, vFe π.chal])
def vOptFes (x : Option (List (Fp p))) : Val := match x with | none => .none | some l => .some (vFes l)
def vRes (b : Bool) : Val := vBool b
def vErr (e : Err) : Val := .l [.n (errCode e)]

def handle (p : Nat) (r : Req) : Option (R String) :=
  if !r.op.startsWith "dflt." then none else some do
  match r.op with
  | "dflt.query_set" =>
    -- the iteration order of the `BTreeSet` holding these queries
    let qs ← getQueries (p := p) r "qs"
    pure <| okReply [("set", .l ((querySet ltFp qs).map vQuery))]
  | "dflt.groups" =>
    -- `query_to_labels_map`: `[point_label, point, [labels]]` in map order
    let qs ← getQueries (p := p) r "qs"
    pure <| okReply [("groups", .l ((groups (querySet ltFp qs)).map fun g =>
      .l [vNats g.1, vFe g.2.1, vLabels g.2.2]))]
  | "dflt.batch_open" =>
    let polys ← getPolys (p := p) r
    let sts ← asNats (← need r "sts")
    let comms ← getComms r
    let qs ← getQueries (p := p) r "qs"
    let script ← asNats (← need r "script")
    let chals ← asFes (p := p) (← need r "chals")
    match batchOpen ltFp (fun (x : TPoly p) => x.label) (toyOpen script) polys sts comms qs
        (⟨0, [], chals⟩ : TState p) with
    | .error e => pure <| okReply [("res", vErr e)]
    | .ok (πs, s) => pure <| okReply [("res", .n 1), ("proofs", vProofs πs), ("log", .l s.log)]
  | "dflt.batch_check" =>
    let comms ← getComms r
    let qs ← getQueries (p := p) r "qs"
    let evals ← getEvals (p := p) r "evals"
    let proofs ← getProofs (p := p) r
    let script ← asNats (← need r "script")
    let chals ← asFes (p := p) (← need r "chals")
    match batchCheck ltFp (fun (c : TComm) => c.label) (toyCheck script) comms qs evals proofs
        (⟨0, [], chals⟩ : TState p) with
    | .error e => pure <| okReply [("res", vErr e)]
    | .ok (b, s) => pure <| okReply [("res", vRes b), ("log", .l s.log)]
  | "dflt.open_combinations" =>
    let lcs ← getLCs (p := p) r
    let polys ← getPolys (p := p) r
    let sts ← asNats (← need r "sts")
    let comms ← getComms r
    let qs ← getQueries (p := p) r "qs"
    let script ← asNats (← need r "script")
    let chals ← asFes (p := p) (← need r "chals")
    match openCombinations ltFp (fun (x : TPoly p) => x.label) (fun (x : TPoly p) z => evalPoly x.coeffs z)
        (toyOpen script) lcs polys sts comms qs (⟨0, [], chals⟩ : TState p) with
    | .error e => pure <| okReply [("res", vErr e)]
    | .ok ((πs, evs), s) =>
      pure <| okReply [("res", .n 1), ("proofs", vProofs πs), ("evals", vOptFes evs), ("log", .l s.log)]
  | "dflt.check_combinations" =>
    let lcs ← getLCs (p := p) r
    let comms ← getComms r
    let qs ← getQueries (p := p) r "qs"
    let eqEvals ← getEvals (p := p) r "evals"
    let proofs ← getProofs (p := p) r
    let pevs ← asOpt (← need r "pevals")
    let pevs ← match pevs with
      | none => pure none
      | some v => do let l ← asFes (p := p) v; pure (some l)
    let script ← asNats (← need r "script")
    let chals ← asFes (p := p) (← need r "chals")
    match checkCombinations ltFp (fun (c : TComm) => c.label) (toyCheck script) lcs comms qs eqEvals
        proofs pevs (⟨0, [], chals⟩ : TState p) with
    | .error e => pure <| okReply [("res", vErr e)]
    | .ok (b, s) => pure <| okReply [("res", vRes b), ("log", .l s.log)]
  | "dflt.poly_query_set" =>
    -- `lc_query_set_to_poly_query_set` as `open_combinations` calls it
    let lcs ← getLCs (p := p) r
    let qs ← getQueries (p := p) r "qs"
    pure <| okReply [("set", .l ((lcToPolyQuerySet ltFp lcs (querySet ltFp qs)).map vQuery))]
  | _ => .error "unknown-op"

end DrvDefault
end PCV
