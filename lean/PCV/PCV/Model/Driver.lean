/-
  PCV.Model.Driver — request dispatch for the native driver `pcvdrv`.  One reply per request line.
-/
import PCV.Model.Wire
import PCV.Model.KZG10
namespace PCV
namespace Driver

variable {p : Nat}

abbrev R := Except String

def need (r : Req) (k : String) : R Val :=
  match r.get? k with
  | some v => .ok v
  | none => .error s!"missing-arg:{k}"

def asNat (v : Val) : R Nat := match v with | .n x => .ok x | _ => .error "expected-nat"
def asFe (v : Val) : R (Fp p) := match v with | .n x => .ok (Fp.ofNat x) | _ => .error "expected-fe"
def asList (v : Val) : R (List Val) := match v with | .l xs => .ok xs | _ => .error "expected-list"
def asFes (v : Val) : R (List (Fp p)) := do let xs ← asList v; xs.mapM asFe
def asNats (v : Val) : R (List Nat) := do let xs ← asList v; xs.mapM asNat
def asOpt (v : Val) : R (Option Val) :=
  match v with | .none => .ok none | .some x => .ok (some x) | _ => .error "expected-option"
def asOptNat (v : Val) : R (Option Nat) := do
  match ← asOpt v with | none => pure none | some x => do let n ← asNat x; pure (some n)
def asOptFe (v : Val) : R (Option (Fp p)) := do
  match ← asOpt v with | none => pure none | some x => do let n ← asFe x; pure (some n)
def asBool (v : Val) : R Bool := do let n ← asNat v; pure (n != 0)
def asFess (v : Val) : R (List (List (Fp p))) := do let xs ← asList v; xs.mapM asFes

def vFe (x : Fp p) : Val := .n x.v
def vFes (xs : List (Fp p)) : Val := .l (xs.map vFe)
def vOptFe (x : Option (Fp p)) : Val := match x with | none => .none | some y => .some (vFe y)
def vBool (b : Bool) : Val := .n (if b then 1 else 0)
def vNats (xs : List Nat) : Val := .l (xs.map .n)

def okReply (kvs : List (String × Val)) : String :=
  " ".intercalate ("ok" :: kvs.map fun (k, v) => k ++ "=" ++ v.render)

def errReply (e : Err) : String := "err " ++ e.name

def exceptReply {α} (x : Except Err α) (f : α → List (String × Val)) : String :=
  match x with
  | .ok a => okReply (f a)
  | .error e => errReply e

/-! ### KZG10 -/

def asProof (w rv : Val) : R (KZG.Proof (Fp p)) := do
  pure ⟨← asFe w, ← asOptFe rv⟩

def kzgPowers (r : Req) : R (KZG.Powers (Fp p)) := do
  pure ⟨← asFes (← need r "pg"), ← asFes (← need r "pgg")⟩

def kzgVK (r : Req) : R (KZG.VK (Fp p)) := do
  pure ⟨← asFe (← need r "g"), ← asFe (← need r "gamma_g"), ← asFe (← need r "h"),
        ← asFe (← need r "beta_h")⟩

def kzgProofs (r : Req) : R (List (KZG.Proof (Fp p))) := do
  let ws ← asFes (← need r "ws")
  let rvs ← (← asList (← need r "rvs")).mapM asOptFe
  pure (List.zipWith (fun w rv => ⟨w, rv⟩) ws rvs)

def handleKZG (r : Req) : R String := do
  match r.op with
  | "kzg.commit" =>
    let pw ← kzgPowers (p := p) r
    let poly ← asFes (← need r "p")
    let hb ← asOptNat (← need r "hb")
    let rng ← asBool (← need r "rng")
    let draws ← asFes (← need r "draws")
    pure <| exceptReply (KZG.commit pw poly hb rng draws) fun (c, b, rest) =>
      [("c", vFe c), ("blind", vFes b), ("used", .n (draws.length - rest.length))]
  | "kzg.open" =>
    let pw ← kzgPowers (p := p) r
    let poly ← asFes (← need r "p")
    let z ← asFe (← need r "z")
    let blind ← asFes (← need r "blind")
    pure <| exceptReply (KZG.open pw poly z blind) fun π => [("w", vFe π.w), ("rv", vOptFe π.rv)]
  | "kzg.check" =>
    let vk ← kzgVK (p := p) r
    let c ← asFe (← need r "c")
    let z ← asFe (← need r "z")
    let v ← asFe (← need r "v")
    let π ← asProof (← need r "w") (← need r "rv")
    pure <| okReply [("b", vBool (KZG.check vk c z v π))]
  | "kzg.batch_check" =>
    let vk ← kzgVK (p := p) r
    let cs ← asFes (← need r "cs")
    let zs ← asFes (← need r "zs")
    let vs ← asFes (← need r "vs")
    let πs ← kzgProofs r
    let rs ← asFes (← need r "rs")
    pure <| okReply [("b", vBool (KZG.batchCheck vk cs zs vs πs rs))]
  | _ => .error "unknown-op"

def handle (p : Nat) (r : Req) : String :=
  let res : R String :=
    if r.op.startsWith "kzg." then handleKZG (p := p) r
    else .error "unknown-op"
  match res with
  | .ok s => s
  | .error e => "bad " ++ e

end Driver
end PCV
