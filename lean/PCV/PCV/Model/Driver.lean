/-
  PCV.Model.Driver — request dispatch for the native driver `pcvdrv`.  One reply per request line.
-/
import PCV.Model.Wire
import PCV.Model.DrvUtil
import PCV.Model.KZG10
import PCV.Model.DrvMarlin
import PCV.Model.DrvSonic
import PCV.Model.DrvIPA
import PCV.Model.DrvHyrax
import PCV.Model.DrvLinCode
import PCV.Model.DrvMLPC
import PCV.Model.DrvC12
import PCV.Model.DrvC13
import PCV.Model.DrvC14
import PCV.Model.DrvC15
import PCV.Model.DrvC16
import PCV.Model.DrvC18
import PCV.Model.DrvC19
import PCV.Model.DrvDefault
namespace PCV
namespace Driver

variable {p : Nat}

/-! ### KZG10 -/

def asProof (w rv : Val) : R (KZG.Proof (Fp p)) := do
  pure ⟨← asFe w, ← asOptFe rv⟩

def kzgPowers (r : Req) : R (KZG.Powers (Fp p)) := do
  pure ⟨← asFes (← need r "pg"), ← asFes (← need r "pgg")⟩

def kzgVK (r : Req) : R (KZG.VK (Fp p)) := do
  pure ⟨← asFe (← need r "g"), ← asFe (← need r "gamma_g"), ← asFe (← need r "h"),
        ← asFe (← need r "beta_h")⟩

def kzgProofs (r : Req) : R (List (KZG.Proof (Fp p))) := do
  let ws ← asFes (← need r "ws")
  let rvs ← (← asList (← need r "rvs")).mapM asOptFe
  pure (List.zipWith (fun w rv => ⟨w, rv⟩) ws rvs)

def handleKZG (r : Req) : R String := do
  match r.op with
  | "kzg.commit" =>
    let pw ← kzgPowers (p := p) r
    let poly ← asFes (← need r "p")
    let hb ← asOptNat (← need r "hb")
    let rng ← asBool (← need r "rng")
    let draws ← asFes (← need r "draws")
    pure <| exceptReply (KZG.commit pw poly hb rng draws) fun (c, b, rest) =>
      [("c", vFe c), ("blind", vFes b), ("used", .n (draws.length - rest.length))]
  | "kzg.open" =>
    let pw ← kzgPowers (p := p) r
    let poly ← asFes (← need r "p")
    let z ← asFe (← need r "z")
    let blind ← asFes (← need r "blind")
    pure <| exceptReply (KZG.open pw poly z blind) fun π => [("w", vFe π.w), ("rv", vOptFe π.rv)]
  | "kzg.check" =>
    let vk ← kzgVK (p := p) r
    let c ← asFe (← need r "c")
    let z ← asFe (← need r "z")
    let v ← asFe (← need r "v")
    let π ← asProof (← need r "w") (← need r "rv")
    pure <| okReply [("b", vBool (KZG.check vk c z v π))]
  | "kzg.batch_check" =>
    let vk ← kzgVK (p := p) r
    let cs ← asFes (← need r "cs")
    let zs ← asFes (← need r "zs")
    let vs ← asFes (← need r "vs")
    let πs ← kzgProofs r
    let rs ← asFes (← need r "rs")
    pure <| exceptReply (KZG.batchCheck vk cs zs vs πs rs) fun b => [("b", vBool b)]
  | _ => .error "unknown-op"

def handle (p : Nat) (r : Req) : String :=
  let res : R String :=
    if r.op.startsWith "kzg." then handleKZG (p := p) r
    else
      let ext : List (Option (Except String String)) :=
        [DrvMarlin.handle p r, DrvSonic.handle p r, DrvIPA.handle p r, DrvHyrax.handle p r,
         DrvLinCode.handle p r, DrvMLPC.handle p r, DrvC12.handle p r, DrvC13.handle p r, DrvC14.handle p r, DrvC15.handle p r,
         DrvC16.handle p r, DrvC18.handle p r, DrvC19.handle p r, DrvDefault.handle p r]
      match ext.findSome? id with
      | some x => x
      | none => .error "unknown-op"
  match res with
  | .ok s => s
  | .error e => "bad " ++ e

end Driver
end PCV
