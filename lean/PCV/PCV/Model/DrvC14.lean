/-
  PCV.Model.DrvC14 — driver requests of property C14 (op names start with "c14.").

  Keys are sent as `g g2 tau D mep` and rebuilt with `SKZG.CK.new` (the harness sends `g = g2 = 1`:
  it compares group elements relative to the library's own generators).  Polynomials are
  little-endian coefficient lists; the model reverses them where the code takes a big-endian stream.
-/
import PCV.Model.Wire
import PCV.Model.DrvUtil
import PCV.Model.Fold
namespace PCV
namespace DrvC14
open Driver

variable {p : Nat}

def key (r : Req) : R (SKZG.CK (Fp p)) := do
  let g ← asFe (← need r "g")
  let g2 ← asFe (← need r "g2")
  let τ ← asFe (← need r "tau")
  let D ← asNat (← need r "D")
  let mep ← asNat (← need r "mep")
  pure (SKZG.CK.new g g2 τ D mep)

def vkOf (r : Req) (ck : SKZG.CK (Fp p)) : R (Except Err (SKZG.VK (Fp p))) := do
  let from_ ← asNat (← need r "vkfrom")
  pure (if from_ = 0 then SKZG.VK.ofTime ck else SKZG.VK.ofSpace (SKZG.CKS.ofTime ck))

def vFess (xs : List (List (Fp p))) : Val := .l (xs.map vFes)

def handleOp (r : Req) : R String := do
  match r.op with
  | "c14.time_open" =>
    let ck ← key (p := p) r
    let f ← asFes (← need r "p")
    let α ← asFe (← need r "alpha")
    -- `commit` then `open`, as the harness calls them; either aborts on an oversize polynomial (D24)
    let res : Except Err (Fp p × Fp p × Fp p) :=
      match SKZG.Time.commit ck f with
      | .error e => .error e
      | .ok c => match SKZG.Time.open ck f α with
        | .error e => .error e
        | .ok o => .ok (c, o.1, o.2)
    pure <| exceptReply res fun (c, v, π) => [("c", vFe c), ("v", vFe v), ("pi", vFe π)]
  | "c14.space_open" =>
    let ck ← key (p := p) r
    let f ← asFes (← need r "p")
    let α ← asFe (← need r "alpha")
    let cks := SKZG.CKS.ofTime ck
    let res : Except Err (Fp p × Fp p × Fp p) :=
      match SKZG.Space.commit cks f.reverse with
      | .error e => .error e
      | .ok c => match SKZG.Space.open cks f.reverse α with
        | .error e => .error e
        | .ok o => .ok (c, o.1, o.2)
    pure <| exceptReply res fun (c, v, π) => [("c", vFe c), ("v", vFe v), ("pi", vFe π)]
  | "c14.verify" =>
    let ck ← key (p := p) r
    let vk ← vkOf r ck
    let c ← asFe (← need r "c")
    let α ← asFe (← need r "alpha")
    let v ← asFe (← need r "v")
    let π ← asFe (← need r "pi")
    let res := match vk with
      | .error e => .error e
      | .ok vk => SKZG.verify vk c α v π
    pure <| exceptReply res fun b => [("b", vBool b)]
  | "c14.time_multi" =>
    let ck ← key (p := p) r
    let fs ← asFess (← need r "polys")
    let pts ← asFes (← need r "pts")
    let η ← asFe (← need r "eta")
    -- `batch_commit`, `batch_open_multi_points`, then `open_multi_points` per polynomial, as the
    -- harness calls them; each aborts on an oversize polynomial (D24)
    let res : Except Err (Fp p × List (Fp p) × List (Fp p)) :=
      match SKZG.Time.batchCommit ck fs with
      | .error e => .error e
      | .ok cs => match SKZG.Time.batchOpenMultiPoints ck fs pts η with
        | .error e => .error e
        | .ok π => match Fold.mapExcept (fun f => SKZG.Time.openMultiPoints ck f pts) fs with
          | .error e => .error e
          | .ok πs => .ok (π, πs, cs)
    pure <| exceptReply res fun (π, πs, cs) =>
      [("pi", vFe π), ("pis", vFes πs), ("cs", vFes cs)]
  | "c14.space_multi" =>
    let ck ← key (p := p) r
    let f ← asFes (← need r "p")
    let pts ← asFes (← need r "pts")
    pure <| exceptReply (SKZG.Space.openMultiPoints (SKZG.CKS.ofTime ck) f.reverse pts)
      fun (rem, π) => [("rem", vFes rem), ("pi", vFe π)]
  | "c14.verify_multi" =>
    let ck ← key (p := p) r
    let vk ← vkOf r ck
    let cs ← asFes (← need r "cs")
    let pts ← asFes (← need r "pts")
    let evals ← asFess (← need r "evals")
    let π ← asFe (← need r "pi")
    let η ← asFe (← need r "eta")
    let res := match vk with
      | .error e => .error e
      | .ok vk => SKZG.verifyMultiPoints vk cs pts evals π η
    pure <| exceptReply res fun b => [("b", vBool b)]
  | "c14.fold" =>
    let cs ← asFes (p := p) (← need r "cs")
    let chal ← asFes (← need r "chal")
    let items := Fold.Tree.toList cs.reverse chal
    pure <| okReply
      [("foldings", vFess ((Fold.foldings cs chal).map List.reverse)),
       ("tree_levels", vNats (items.map (·.1))),
       ("tree_values", vFes (items.map (·.2))),
       ("stream", vFes (Fold.Stream.toList cs.reverse chal)),
       ("stream_len", .n (Fold.Stream.len cs.length chal.length)),
       ("init_stack", vNats ((Fold.initStack cs.length chal.length : List (Nat × Fp p)).map (·.1)))]
  | "c14.commit_folding" =>
    let ck ← key (p := p) r
    let cs ← asFes (← need r "cs")
    let chal ← asFes (← need r "chal")
    pure <| exceptReply (Fold.commitFolding (SKZG.CKS.ofTime ck) cs.reverse chal)
      fun cms => [("cs", vFes cms)]
  | "c14.open_folding" =>
    let ck ← key (p := p) r
    let cs ← asFes (← need r "cs")
    let chal ← asFes (← need r "chal")
    let pts ← asFes (← need r "pts")
    let etas ← asFes (← need r "etas")
    pure <| exceptReply (Fold.openFolding (SKZG.CKS.ofTime ck) cs.reverse chal pts etas)
      fun (rems, π) => [("rems", vFess rems), ("pi", vFe π)]
  | _ => .error "unknown-op"

/-- `none` = not an op of this module -/
def handle (p : Nat) (r : Req) : Option (Except String String) :=
  if r.op.startsWith "c14." then some (handleOp (p := p) r) else none

end DrvC14
end PCV
