/-
  PCV.Model.DrvC14 — driver requests of property C14 (op names start with "c14.").
-/
import PCV.Model.Wire
import PCV.Model.DrvUtil
namespace PCV
namespace DrvC14

/-- `none` = not an op of this module -/
def handle (p : Nat) (r : Req) : Option (Except String String) :=
  let _ := p
  let _ := r
  none

end DrvC14
end PCV
