/-
  PCV.Model.PST13 — `poly-commit/src/marlin/marlin_pst13_pc/mod.rs` in exponent form
  (DESIGN §2.1, Appendix A "MarlinPST13").  A group element is its discrete log; the pairing
  equation `e(A,B) = ∏ e(Cⱼ,Dⱼ)` is `A·B = Σ Cⱼ·Dⱼ`.  Sponge challenges are an explicit list
  consumed in order (one squeeze per polynomial in `open` / per commitment in `check`).
  Core Lean only.
-/
import PCV.Model.MVPoly
import PCV.Model.Combinations
namespace PCV
namespace PST

variable {F : Type} [Add F] [Mul F] [Sub F] [Neg F] [Zero F] [One F]

/-- `marlin_pst13_pc::UniversalParams` (`powers_of_g` in `BTreeMap` key order; the prepared
elements are functions of `h`, `beta_h`) -/
structure UParams (F : Type) where
  powersOfG : List (Term × F)
  gammaG : F
  powersOfGammaG : List (List F)
  h : F
  betaH : List F
  numVars : Nat
  maxDegree : Nat
  deriving DecidableEq, Repr

/-- `marlin_pst13_pc::CommitterKey` -/
structure CK (F : Type) where
  powersOfG : List (Term × F)
  gammaG : F
  powersOfGammaG : List (List F)
  numVars : Nat
  supportedDegree : Nat
  maxDegree : Nat
  deriving DecidableEq, Repr

/-- `marlin_pst13_pc::VerifierKey` -/
structure VK (F : Type) where
  g : F
  gammaG : F
  h : F
  betaH : List F
  numVars : Nat
  supportedDegree : Nat
  maxDegree : Nat
  deriving DecidableEq, Repr

/-- `marlin_pst13_pc::Proof` -/
structure Proof (F : Type) where
  w : List F
  rv : Option F
  deriving DecidableEq, Repr

/-! ### the monomial-indexed key -/

/-- `BTreeMap::insert` on the sorted association list (an equal key keeps its place, the value is
replaced) -/
def mapInsert (k : Term) (v : F) : List (Term × F) → List (Term × F)
  | [] => [(k, v)]
  | kv :: m =>
    if Term.cmp k kv.1 = .lt then (k, v) :: kv :: m
    else if Term.cmp k kv.1 = .eq then (kv.1, v) :: m
    else kv :: mapInsert k v m

/-- `iter.collect::<BTreeMap<_,_>>()` -/
def mapOfList (l : List (Term × F)) : List (Term × F) :=
  l.foldl (fun m kv => mapInsert kv.1 kv.2 m) []

/-- `powers_of_g.get(term)`.  The map compares keys with `SparseTerm::cmp`; on the terms made by
`SparseTerm::new` that is `Equal` exactly for identical terms, which is what this lookup tests. -/
def mapGet (m : List (Term × F)) (t : Term) : Option F :=
  match m with
  | [] => none
  | kv :: m' => if kv.1 = t then some kv.2 else mapGet m' t

/-- `term.iter().map(|e| betas[*e]).product()` -/
def prodBetas (betas : List F) : List Nat → F
  | [] => 1
  | e :: m => getD' betas e 0 * prodBetas betas m

/-- `cur *= betas[i]` pushed `n` times: `β, β², …, βⁿ`, each times `γ` (`gamma_g_table.batch_mul`) -/
def gammaRow (γ β : F) : Nat → F → List F
  | 0, _ => []
  | n + 1, cur => (γ * (cur * β)) :: gammaRow γ β n (cur * β)

/-- `MarlinPST13::setup` with the RNG draws (`betas`, and the scalars of `g`, `gamma_g`, `h`)
given. -/
def setup (D nv : Nat) (betas : List F) (g γ h : F) : Except Err (UParams F) :=
  if nv < 1 then .error .invalidNumVars
  else if D < 1 then .error .degreeIsZero
  else
    match setupMultisets nv D with
    | .error e => .error e
    | .ok ms =>
      let pg := ms.map (fun m => (termOfMultiset nv m, g * prodBetas betas m)) ++ [(Term.new [], g)]
      .ok { powersOfG := mapOfList pg
            gammaG := γ
            powersOfGammaG := (List.range nv).map (fun i => gammaRow γ (getD' betas i 0) (D + 1) 1)
            h := h
            betaH := (betas.take nv).map (fun b => h * b)
            numVars := nv
            maxDegree := D }

/-- `e[..=supported_degree].to_vec()` for every row; a short row is a slice panic -/
def trimRows (s : Nat) : List (List F) → Except Err (List (List F))
  | [] => .ok []
  | row :: rows =>
    if row.length < s + 1 then .error .abort
    else match trimRows s rows with
      | .error e => .error e
      | .ok rs => .ok (row.take (s + 1) :: rs)

/-- the `filter(|(k, _)| k.degree() <= supported_degree)` of `trim` -/
def trimPowers (s : Nat) (m : List (Term × F)) : List (Term × F) :=
  m.filter (fun kv => decide (Term.degree kv.1 ≤ s))

/-- `MarlinPST13::trim` -/
def trim (pp : UParams F) (s : Nat) : Except Err (CK F × VK F) :=
  if s > pp.maxDegree then .error .trimTooLarge
  else
    match trimRows s pp.powersOfGammaG with
    | .error e => .error e
    | .ok rows =>
      match mapGet pp.powersOfG (Term.new []) with
      | none => .error .abort
      | some g =>
        .ok ({ powersOfG := trimPowers s pp.powersOfG, gammaG := pp.gammaG, powersOfGammaG := rows,
               numVars := pp.numVars, supportedDegree := s, maxDegree := pp.maxDegree },
             { g := g, gammaG := pp.gammaG, h := pp.h, betaH := pp.betaH, numVars := pp.numVars,
               supportedDegree := s, maxDegree := pp.maxDegree })

/-! ### `divide_at_point` -/

/-- the `while term_vec[idx].1 > 1` loop on a term whose `X_i` power is `k`: the pushed quotient
terms and the final coefficient -/
def divPowers (i : Nat) (zi : F) (t : Term) : Nat → F → MVPoly F × F
  | k + 2, c =>
    let r := divPowers i zi t (k + 1) (c * zi)
    ((c, Term.new (Term.setPow i (k + 1) t)) :: r.1, r.2)
  | _, c => ([], c)

/-- one `(coeff, term)` of `cur` divided by `X_i - z_i`: (quotient terms, remainder terms) -/
def divTerm (i : Nat) (zi : F) (ct : F × Term) : MVPoly F × MVPoly F :=
  if Term.isConstant ct.2 then ([], [])
  else
    match Term.find? i ct.2 with
    | none => ([], [ct])
    | some k =>
      let r := divPowers i zi ct.2 k ct.1
      let t' := Term.new (Term.erase i ct.2)
      (r.1 ++ [(r.2, t')], [(zi * r.2, t')])

/-- all terms of `cur`: the two vectors `quotient_terms`, `remainder_terms` -/
def divTerms (i : Nat) (zi : F) : MVPoly F → MVPoly F × MVPoly F
  | [] => ([], [])
  | ct :: p =>
    let a := divTerm i zi ct
    let b := divTerms i zi p
    (a.1 ++ b.1, a.2 ++ b.2)

section Dec
variable [DecidableEq F]

/-- `for i in 0..num_vars`: `n` further variables starting at `i` -/
def divLoop (z : List F) : Nat → Nat → MVPoly F → List (MVPoly F)
  | 0, _, _ => []
  | n + 1, i, cur =>
    let qr := divTerms i (getD' z i 0) cur
    fromCoeffs qr.1 :: divLoop z n (i + 1) (fromCoeffs qr.2)

/-- `MarlinPST13::divide_at_point`; `nv = p.num_vars()`. -/
def divideAtPoint (nv : Nat) (p : MVPoly F) (z : List F) : List (MVPoly F) :=
  if isZeroMV p then List.replicate nv [] else divLoop z nv 0 p

/-- does the term contain `X_i` (the `Ok(idx)` arm of the `binary_search_by`; constant terms are
skipped before) -/
def termReads (i : Nat) (ct : F × Term) : Bool :=
  !Term.isConstant ct.2 && (Term.find? i ct.2).isSome

/-- the index expressions `point[i]` of `divide_at_point` stay in range: the `Ok(idx)` arm reads
`point[i]`, so a dividend that still contains `X_i` at a step `i ≥ point.len()` is a panic
(`divLoop` itself reads a missing coordinate as `0`) -/
def divIndexOk (z : List F) : Nat → Nat → MVPoly F → Bool
  | 0, _, _ => true
  | n + 1, i, cur =>
    (decide (i < z.length) || !(cur.any (termReads i)))
      && divIndexOk z n (i + 1) (fromCoeffs (divTerms i (getD' z i 0) cur).2)

/-- `divide_at_point(p, point)` does not index `point` out of range (`nv = p.num_vars()`) -/
def divideOk (nv : Nat) (p : MVPoly F) (z : List F) : Bool :=
  isZeroMV p || divIndexOk z nv 0 p

/-! ### commit -/

/-- the MSM over the bases looked up term by term (`….get(term).unwrap()`: a missing term is a
panic) -/
def msmBy (look : Term → Except Err F) : MVPoly F → Except Err F
  | [] => .ok 0
  | ct :: p =>
    match look ct.2 with
    | .error e => .error e
    | .ok b =>
      match msmBy look p with
      | .error e => .error e
      | .ok acc => .ok (ct.1 * b + acc)

def lookG (m : List (Term × F)) (t : Term) : Except Err F :=
  match mapGet m t with
  | none => .error .abort
  | some b => .ok b

/-- the base of a blinding term: `gamma_g` for the constant, else
`powers_of_gamma_g[vars[0]][degree - 1]` ("each monomial in `rand` is univariate") -/
def gammaBase (gammaG : F) (pgg : List (List F)) (t : Term) : Except Err F :=
  if Term.isConstant t then .ok gammaG
  else
    match (Term.vars t)[0]? with
    | none => .error .abort
    | some v =>
      match pgg[v]? with
      | none => .error .abort
      | some row =>
        match row[Term.degree t - 1]? with
        | none => .error .abort
        | some b => .ok b

/-- the term list of `SparsePolynomial::rand(d, l, rng)` in drawing order -/
def randTerms (d l : Nat) : List Term :=
  Term.new [] :: (List.range l).flatMap (fun v => (List.range d).map (fun j => Term.new [(v, j + 1)]))

/-- `SparsePolynomial::rand(d, l, rng)`: `1 + l·d` draws; returns the polynomial and the unused
draws (`none`: the model's draw list is too short). -/
def randMV (d l : Nat) (draws : List F) : Option (MVPoly F × List F) :=
  if draws.length < 1 + l * d then none
  else some (fromCoeffs (List.zip (draws.take (1 + l * d)) (randTerms d l)), draws.drop (1 + l * d))

/-- `MarlinPST13::check_hiding_bound` -/
def checkHidingBound (hidingPolyDegree numPowers : Nat) : Except Err Unit :=
  if hidingPolyDegree = 0 then .error .hidingBoundZero
  else if hidingPolyDegree ≥ numPowers then .error .hidingBoundTooLarge
  else .ok ()

/-- `check_degrees_and_bounds` (`PolynomialDegreeTooLarge`; the shared error type has no such
constructor, the harness compares refusal against refusal) -/
def checkDegree (s : Nat) (p : MVPoly F) : Except Err Unit :=
  if degreeMV p > s then .error .tooManyCoefficients else .ok ()

/-- `MarlinPST13::commit` for one polynomial: commitment, blinding polynomial (`[]` =
`Randomness::empty()`), unused draws.  `rng = false` is `rng: None`: drawing then panics
(`OptionalRng`), it is not `Error::MissingRng`. -/
def commit (ck : CK F) (p : MVPoly F) (hb : Option Nat) (rng : Bool) (draws : List F) :
    Except Err (F × MVPoly F × List F) :=
  match checkDegree ck.supportedDegree p with
  | .error e => .error e
  | .ok () =>
    match msmBy (lookG ck.powersOfG) p with
    | .error e => .error e
    | .ok c =>
      match hb with
      | none => .ok (c, [], draws)
      | some hbv =>
        if !rng then .error .abort
        else
          match randMV (hbv + 1) ck.numVars draws with
          | none => .error .abort
          | some rr =>
            match checkHidingBound hbv (ck.supportedDegree + 1) with
            | .error e => .error e
            | .ok () =>
              match msmBy (gammaBase ck.gammaG ck.powersOfGammaG) rr.1 with
              | .error e => .error e
              | .ok rc => .ok (c + rc, rr.1, rr.2)

/-- the `for p in polynomials` loop of `commit` (the RNG stream runs through) -/
def commitList (ck : CK F) : List (MVPoly F × Option Nat) → Bool → List F →
    Except Err (List F × List (MVPoly F) × List F)
  | [], _, draws => .ok ([], [], draws)
  | ph :: ps, rng, draws =>
    match commit ck ph.1 ph.2 rng draws with
    | .error e => .error e
    | .ok r =>
      match commitList ck ps rng r.2.2 with
      | .error e => .error e
      | .ok rs => .ok (r.1 :: rs.1, r.2.1 :: rs.2.1, rs.2.2)

/-! ### open -/

/-- the loop `for (polynomial, state) in labeled_polynomials.zip(states)` of `open`:
`p += (ξ, polynomial)`, `r += (ξ, state)`; returns the unused challenges (`abort`: the model's
challenge list ran out). -/
def combine (s : Nat) : MVPoly F → MVPoly F → List (MVPoly F) → List (MVPoly F) → List F →
    Except Err (MVPoly F × MVPoly F × List F)
  | pa, ra, p :: ps, r :: rs, ξs =>
    match checkDegree s p with
    | .error e => .error e
    | .ok () =>
      match ξs with
      | [] => .error .abort
      | ξ :: ξs' => combine s (addScaledMV pa ξ p) (addScaledMV ra ξ r) ps rs ξs'
  | pa, ra, _, _, ξs => .ok (pa, ra, ξs)

/-- the MSMs of a list of witness polynomials -/
def msmAll (look : Term → Except Err F) : List (MVPoly F) → Except Err (List F)
  | [] => .ok []
  | w :: ws =>
    match msmBy look w with
    | .error e => .error e
    | .ok x =>
      match msmAll look ws with
      | .error e => .error e
      | .ok xs => .ok (x :: xs)

/-- `*witness += msm(hiding_witnesses[i])` for every `i < w.len()` (`hiding_witnesses[i]` out of
range is a panic) -/
def addHiding (look : Term → Except Err F) : List F → List (MVPoly F) → Except Err (List F)
  | [], _ => .ok []
  | _ :: _, [] => .error .abort
  | w :: ws, hw :: hws =>
    match msmBy look hw with
    | .error e => .error e
    | .ok x =>
      match addHiding look ws hws with
      | .error e => .error e
      | .ok xs => .ok ((w + x) :: xs)

/-- `witnesses.resize(ck.num_vars, P::zero())`: truncate or pad with zero polynomials -/
def resizeTo (n : Nat) (ws : List (MVPoly F)) : List (MVPoly F) :=
  ws.take n ++ List.replicate (n - ws.length) []

/-- the part of `open` after the challenge combination; `nvp`, `nvr` are `p.num_vars()` and
`r.blinding_polynomial.num_vars()` of the combined polynomials.  Both quotient lists are resized to
one entry per variable of the key (a polynomial declared over fewer variables has zero quotients
for the remaining ones).  A point with too few coordinates for the variables that actually occur is
an index panic. -/
def openCore (ck : CK F) (nvp nvr : Nat) (p r : MVPoly F) (z : List F) :
    Except Err (Proof F) :=
  match msmAll (lookG ck.powersOfG) (resizeTo ck.numVars (divideAtPoint nvp p z)) with
  | .error e => .error e
  | .ok w =>
    if isZeroMV r then .ok ⟨w, none⟩
    else
      match addHiding (gammaBase ck.gammaG ck.powersOfGammaG) w
          (resizeTo ck.numVars (divideAtPoint nvr r z)) with
      | .error e => .error e
      | .ok w' =>
        if z.length < nvr then .error .abort   -- `evaluate` asserts `point.len() >= num_vars`
        else .ok ⟨w', some (evalMV r z)⟩

/-- `open` after the challenge combination: the two `divide_at_point` calls must not index the
point out of range (the second one is made only for a hiding state), then `openCore`. -/
def openCombined (ck : CK F) (nvp nvr : Nat) (p r : MVPoly F) (z : List F) :
    Except Err (Proof F) :=
  if !divideOk nvp p z then .error .abort
  else if !isZeroMV r && !divideOk nvr r z then .error .abort
  else openCore ck nvp nvr p r z

/-- `MarlinPST13::open` -/
def «open» (ck : CK F) (nvp nvr : Nat) (ps : List (MVPoly F)) (z : List F) (rs : List (MVPoly F))
    (ξs : List F) : Except Err (Proof F) :=
  match combine ck.supportedDegree [] [] ps rs ξs with
  | .error e => .error e
  | .ok c => openCombined ck nvp nvr c.1 c.2.1 z

/-! ### check -/

/-- `Marlin::accumulate_commitments_and_values` without degree bounds (`vk = None`):
`(Σ ξⱼCⱼ, Σ ξⱼvⱼ)`, zip-truncating, and the unused challenges -/
def accumulate : F → F → List F → List F → List F → Except Err (F × F × List F)
  | ca, va, c :: cs, v :: vs, ξs =>
    match ξs with
    | [] => .error .abort
    | ξ :: ξs' => accumulate (ca + c * ξ) (va + v * ξ) cs vs ξs'
  | ca, va, _, _, ξs => .ok (ca, va, ξs)

def rvVal (rv : Option F) : F := match rv with | none => 0 | some x => x

/-- `Σⱼ wⱼ·(βⱼh − zⱼ·h)`: the right-hand multi-pairing, `j` counting from `i` -/
def rhsSum (h : F) (betaH z : List F) : Nat → List F → F
  | _, [] => 0
  | j, w :: ws => w * (getD' betaH j 0 - h * getD' z j 0) + rhsSum h betaH z (j + 1) ws

/-- lhs − rhs of the pairing equation of `check` for accumulated `(C, V)` -/
def defectCombined (vk : VK F) (C V : F) (z : List F) (π : Proof F) : F :=
  (C - vk.g * V - vk.gammaG * rvVal π.rv) * vk.h - rhsSum vk.h vk.betaH z 0 π.w

/-- the defect of `MarlinPST13::check` on the claim `(cs, z, vs, π)` under challenges `ξs`
(`0` where `check` aborts) -/
def defect (vk : VK F) (cs : List F) (z : List F) (vs : List F) (π : Proof F) (ξs : List F) : F :=
  match accumulate 0 0 cs vs ξs with
  | .error _ => 0
  | .ok a => defectCombined vk a.1 a.2.1 z π

/-- `MarlinPST13::check`: a proof whose witness list has not exactly `vk.num_vars` elements is
refused (`IncorrectInputLength`) before anything is squeezed; `vk.beta_h[j]` / `point[j]` out of
range is a panic. -/
def check (vk : VK F) (cs : List F) (z : List F) (vs : List F) (π : Proof F) (ξs : List F) :
    Except Err Bool :=
  if π.w.length ≠ vk.numVars then .error .incorrectInputLength
  else
  match accumulate 0 0 cs vs ξs with
  | .error e => .error e
  | .ok a =>
    if π.w.length > vk.betaH.length ∨ π.w.length > z.length then .error .abort
    else .ok (decide (defectCombined vk a.1 a.2.1 z π = 0))

/-! ### batch_check (after `combine_and_normalize`) -/

/-- `Σⱼ wⱼ·z[j]` -/
def wz (z : List F) : Nat → List F → F
  | _, [] => 0
  | j, w :: ws => w * getD' z j 0 + wz z (j + 1) ws

/-- `total_w[i] += w[i]·randomizer` for `i < num_vars` -/
def addW (ρ : F) (tw w : List F) : List F := List.zipWith (fun t x => t + x * ρ) tw w

/-- the accumulation loop of `batch_check`: `(total_c, total_w, g_multiplier, gamma_g_multiplier)`;
`ρ` is the current randomizer, `rs` the later ones -/
def batchAcc (nv : Nat) : List F → List (List F) → List F → List (Proof F) → List F → F →
    (F × List F × F × F) → Except Err (F × List F × F × F)
  | c :: cs, z :: zs, v :: vs, π :: πs, rs, ρ, (tc, tw, gm, ggm) =>
    if π.w.length < nv ∨ π.w.length > z.length then .error .abort
    else
      batchAcc nv cs zs vs πs rs.tail (rs.headD 0)
        (tc + (wz z 0 π.w + c) * ρ, addW ρ tw π.w, gm + ρ * v, ggm + ρ * rvVal π.rv)
  | _, _, _, _, _, _, acc => .ok acc

/-- `Σⱼ (−total_w[j])·beta_h[j]` -/
def twSum (betaH : List F) : Nat → List F → F
  | _, [] => 0
  | j, w :: ws => (-w) * getD' betaH j 0 + twSum betaH (j + 1) ws

def batchDefect (vk : VK F) (cs : List F) (zs : List (List F)) (vs : List F) (πs : List (Proof F))
    (rs : List F) : Except Err F :=
  if πs.length ≠ zs.length then .error .abort      -- assert_eq!(proof.len(), combined_queries.len())
  else if πs.any (fun π => decide (π.w.length ≠ vk.numVars)) then .error .incorrectInputLength
  else if vk.betaH.length < vk.numVars then .error .abort
  else
    match batchAcc vk.numVars cs zs vs πs rs 1 (0, List.replicate vk.numVars 0, 0, 0) with
    | .error e => .error e
    | .ok (tc, tw, gm, ggm) =>
      .ok (twSum vk.betaH 0 tw + (tc - vk.g * gm - vk.gammaG * ggm) * vk.h)

/-- `Marlin::combine_and_normalize` in scalar form, the grouping by point label (sorted) already
done: for each group `(commitments, values)` in order, one `accumulate` on the shared sponge.
Returns the combined commitments, the combined values and the unused challenges. -/
def combineGroups : List (List F × List F) → List F → Except Err (List F × List F × List F)
  | [], ξs => .ok ([], [], ξs)
  | grp :: gs, ξs =>
    match accumulate 0 0 grp.1 grp.2 ξs with
    | .error e => .error e
    | .ok a =>
      match combineGroups gs a.2.2 with
      | .error e => .error e
      | .ok r => .ok (a.1 :: r.1, a.2.1 :: r.2.1, r.2.2)

/-- `MarlinPST13::batch_check` on the per-point combined commitments / values;
`rs` = the verifier's 128-bit randomizers (the first proof uses 1). -/
def batchCheck (vk : VK F) (cs : List F) (zs : List (List F)) (vs : List F) (πs : List (Proof F))
    (rs : List F) : Except Err Bool :=
  match batchDefect vk cs zs vs πs rs with
  | .error e => .error e
  | .ok d => .ok (decide (d = 0))

/-- `MarlinPST13::batch_check` from the grouped query set: combine per point label, then the
randomizer-weighted pairing check. -/
def batchCheckGroups (vk : VK F) (groups : List (List F × List F)) (zs : List (List F))
    (πs : List (Proof F)) (ξs rs : List F) : Except Err Bool :=
  match combineGroups groups ξs with
  | .error e => .error e
  | .ok c => batchCheck vk c.1 zs c.2.1 πs rs

end Dec
end PST
end PCV
