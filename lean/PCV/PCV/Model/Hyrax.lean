/-
  PCV.Model.Hyrax — `poly-commit/src/hyrax/{mod.rs,utils.rs,data_structures.rs}` and the `Matrix`,
  `inner_product`, `scalar_by_vector`, `vector_sum` helpers of `poly-commit/src/utils.rs`, in exponent
  form (DESIGN §2.1, Appendix A "Hyrax").

  A group element is its discrete log in the scalar field `F`; the Pedersen key is an arbitrary list
  of scalars `ks` (`com_key`) and a scalar `hh` (`h`); an MSM is `dot`.  The Poseidon challenge `c`
  (one `squeeze_field_elements(1)` per polynomial) and all RNG draws are explicit inputs.
  Core Lean only.
-/
import PCV.Model.Poly
namespace PCV
namespace Hyrax

variable {F : Type} [Add F] [Mul F] [Sub F] [Neg F] [Zero F] [One F]

/-! ### `hyrax/utils.rs` -/

/-- `flat_to_matrix_column_major(flat, n, m)`: the list of the `n` rows of the `n × m` matrix whose
entry `(row, col)` is `flat[col * n + row]`; the `assert_eq!(flat.len(), n * m)` is `abort`. -/
def flatToMatrixColumnMajor (flat : List F) (n m : Nat) : Except Err (List (List F)) :=
  if flat.length ≠ n * m then .error .abort
  else .ok ((List.range n).map fun row => (List.range m).map fun col => getD' flat (col * n + row) 0)

/-- `tensor_prime(values)`: all evaluations of `eq(i, values)`, `values[0]` selecting the HIGHEST
bit of the index `i` (first the half multiplied by `1 - values[0]`, then the half multiplied by
`values[0]`). -/
def tensorPrime : List F → List F
  | [] => [1]
  | v :: vs => (tensorPrime vs).map (· * (1 - v)) ++ (tensorPrime vs).map (· * v)

/-! ### `ark_poly::DenseMultilinearExtension` (specification of the claimed value) -/

/-- One round of `fix_variables`: `poly[b] = poly[2b] + r * (poly[2b+1] - poly[2b])`. -/
def fixFirst (r : F) : List F → List F
  | a :: b :: t => (a + r * (b - a)) :: fixFirst r t
  | _ => []

/-- `DenseMultilinearExtension::evaluate` = `fix_variables(point)[0]`: the FIRST coordinate of the
point binds the LOWEST bit of the evaluation index (little-endian variable order). -/
def mleEval : List F → List F → F
  | evals, [] => getD' evals 0 0
  | evals, r :: rest => mleEval (fixFirst r evals) rest

/-! ### `utils.rs`: vectors and `Matrix` -/

/-- `inner_product` (zip, truncating) is `dot`. -/
def innerProduct (a b : List F) : F := dot a b

/-- `scalar_by_vector(s, v)`: `x * s` for every entry -/
def scalarByVector (s : F) (v : List F) : List F := v.map (· * s)

/-- `vector_sum` (zip, truncating) -/
def vectorSum (a b : List F) : List F := List.zipWith (· + ·) a b

/-- `utils::Matrix` -/
structure Matrix (F : Type) where
  n : Nat
  m : Nat
  entries : List (List F)
  deriving DecidableEq, Repr

/-- `Matrix::new_from_rows`: `row_list[0]` aborts on an empty list; all rows must have the length
of the first one. -/
def Matrix.newFromRows (rows : List (List F)) : Except Err (Matrix F) :=
  match rows with
  | [] => .error .abort
  | r0 :: rest =>
    if rest.all (fun r => r.length == r0.length) then .ok ⟨rows.length, r0.length, rows⟩
    else .error .abort

/-- column `col` of the matrix, `(0..n).map(|row| entries[row][col])` -/
def Matrix.col (t : Matrix F) (col : Nat) : List F :=
  (List.range t.n).map fun row => getD' (getD' t.entries row []) col 0

/-- `Matrix::row_mul(v)` = `v · M` (a linear combination of the rows); aborts unless
`v.len() == n`. -/
def Matrix.rowMul (t : Matrix F) (v : List F) : Except Err (List F) :=
  if v.length ≠ t.n then .error .abort
  else .ok ((List.range t.m).map fun col => innerProduct v (t.col col))

/-! ### data structures -/

/-- `HyraxCommitmentState`: one blinding scalar per row, and the coefficient matrix -/
structure State (F : Type) where
  randomness : List F
  mat : Matrix F
  deriving DecidableEq, Repr

/-- `HyraxProof` (with `r_eval`, the blinding of `com_eval`, revealed) -/
structure Proof (F : Type) where
  comEval : F
  comD : F
  comB : F
  z : List F
  zD : F
  zB : F
  rEval : F
  deriving DecidableEq, Repr

/-- a multilinear polynomial: number of variables and the `2^nv` hypercube evaluations -/
structure MLPoly (F : Type) where
  nv : Nat
  evals : List F
  deriving DecidableEq, Repr

/-- `vk.com_key[0]` (indexing an empty key aborts) -/
def key0 (ks : List F) : Option F := ks.head?

/-! ### `commit` -/

/-- `pedersen_commit(key, scalars) + h * r` for every row.  The `assert_eq!(key.len(), scalars.len())`
of `pedersen_commit` is the same test for every row (all rows have `dim` entries), so it is made
once. -/
def rowCommits (ks : List F) (hh : F) (rows : List (List F)) (rhos : List F) : List F :=
  List.zipWith (fun row ρ => dot ks row + hh * ρ) rows rhos

/-- One iteration of the loop of `HyraxPC::commit`; `rhos` are the blinding scalars of the rows
(`dim` of them; under the `parallel` feature they come from `thread_rng`, so the harness reads them
back from the returned state). Returns `row_coms` and the state. -/
def commitOne (ks : List F) (hh : F) (p : MLPoly F) (rhos : List F) :
    Except Err (List F × State F) :=
  let n := p.nv
  let dim := 2 ^ (n / 2)
  if n % 2 = 1 then .error .invalidNumVars
  else if n > ks.length then .error .invalidNumVars
  else match flatToMatrixColumnMajor p.evals dim dim with
    | .error e => .error e
    | .ok rows =>
      if ks.length ≠ dim then .error .abort          -- `pedersen_commit` assert
      else if rhos.length < dim then .error .abort   -- the model's draw list ran out
      else match Matrix.newFromRows rows with
        | .error e => .error e
        | .ok mat => .ok (rowCommits ks hh rows (rhos.take dim), ⟨rhos.take dim, mat⟩)

/-- `HyraxPC::commit` over a list of polynomials; the draws are consumed `dim` per polynomial. -/
def commit (ks : List F) (hh : F) : List (MLPoly F) → List F →
    Except Err (List (List F) × List (State F) × List F)
  | [], draws => .ok ([], [], draws)
  | p :: ps, draws =>
    match commitOne ks hh p draws with
    | .error e => .error e
    | .ok (c, st) =>
      match commit ks hh ps (draws.drop (2 ^ (p.nv / 2))) with
      | .error e => .error e
      | .ok (cs, sts, rest) => .ok (c :: cs, st :: sts, rest)

/-! ### `open` -/

/-- `L = tensor_prime(point_rev[n/2..])`, `R = tensor_prime(point_rev[..n/2])` -/
def tensorL (point : List F) : List F := tensorPrime (point.reverse.drop (point.length / 2))
def tensorR (point : List F) : List F := tensorPrime (point.reverse.take (point.length / 2))

/-- What `open` reads of one (polynomial, commitment, state) triple: the two labels, the number of
variables of the polynomial, and the state (the prover computes from `state.mat`, not from the
polynomial). -/
structure OpenItem (F : Type) where
  polyLabel : List Nat
  comLabel : List Nat
  nv : Nat
  st : State F
  deriving DecidableEq, Repr

/-- The body of the loop of `HyraxPC::open` for one polynomial, given its draws
`r_eval, d, r_d, r_b` and the squeezed challenge `c`. -/
def openOne (ks : List F) (hh : F) (L R : List F) (st : State F) (rEval : F) (d : List F)
    (rD rB c : F) : Except Err (Proof F) :=
  match st.mat.rowMul L with
  | .error e => .error e
  | .ok lt =>
    match key0 ks with
    | none => .error .abort                               -- `ck.com_key[0]`
    | some k0 =>
      if ks.length ≠ d.length then .error .abort          -- `pedersen_commit(&ck.com_key, &d)`
      else
        let rLt := dot L st.randomness
        let eval := innerProduct lt R
        let comEval := k0 * eval + hh * rEval
        let b := innerProduct R d
        let comD := dot ks d + hh * rD
        let comB := k0 * b + hh * rB
        let z := vectorSum d (scalarByVector c lt)
        .ok ⟨comEval, comD, comB, z, c * rLt + rD, c * rEval + rB, rEval⟩

/-- the draws of one polynomial, in the order `r_eval, d_0 … d_{dim-1}, r_d, r_b` -/
def drawREval (draws : List F) : F := getD' draws 0 0
def drawD (dim : Nat) (draws : List F) : List F := (draws.drop 1).take dim
def drawRD (dim : Nat) (draws : List F) : F := getD' draws (dim + 1) 0
def drawRB (dim : Nat) (draws : List F) : F := getD' draws (dim + 2) 0

/-- the loop of `HyraxPC::open` (the caller zips polynomials, commitments and states) -/
def openLoop (ks : List F) (hh : F) (L R : List F) (n dim : Nat) :
    List (OpenItem F) → List F → List F → Except Err (List (Proof F))
  | [], _, _ => .ok []
  | it :: its, draws, cs =>
    if it.polyLabel ≠ it.comLabel then .error .mismatchedLabels
    else if it.nv ≠ n then .error .invalidNumVars          -- `MismatchedNumVars`
    else if draws.length < dim + 3 then .error .abort       -- the model's draw list ran out
    else match cs with
      | [] => .error .abort                                 -- the model's challenge list ran out
      | c :: cs' =>
        match openOne ks hh L R it.st (drawREval draws) (drawD dim draws) (drawRD dim draws)
            (drawRB dim draws) c with
        | .error e => .error e
        | .ok π =>
          match openLoop ks hh L R n dim its (draws.drop (dim + 3)) cs' with
          | .error e => .error e
          | .ok πs => .ok (π :: πs)

/-- `HyraxPC::open`. -/
def «open» (ks : List F) (hh : F) (items : List (OpenItem F)) (point : List F)
    (draws cs : List F) : Except Err (List (Proof F)) :=
  let n := point.length
  if n % 2 = 1 then .error .invalidNumVars
  else openLoop ks hh (tensorL point) (tensorR point) n (2 ^ (n / 2)) items draws cs

/-! ### `check` -/

/-- `com_eval − (value·com_key[0] + r_eval·h)` -/
def defectEval (k0 hh value : F) (π : Proof F) : F :=
  π.comEval - (k0 * value + hh * π.rEval)

/-- equation (14): `⟨R,z⟩·com_key[0] + z_b·h − (c·com_eval + com_b)` -/
def defect14 (k0 hh : F) (R : List F) (π : Proof F) (c : F) : F :=
  k0 * innerProduct R π.z + hh * π.zB - (π.comEval * c + π.comB)

/-- equation (13): `⟨z,com_key⟩ + z_d·h − (c·⟨L,row_coms⟩ + com_d)` -/
def defect13 (ks : List F) (hh : F) (L : List F) (rowComs : List F) (π : Proof F) (c : F) : F :=
  dot ks π.z + hh * π.zD - (dot rowComs L * c + π.comD)

section Dec
variable [DecidableEq F]

/-- The part of one iteration of `check` before the challenge is squeezed: the evaluation
commitment test (`Ok(false)`), then the `row_coms` length test (`IncorrectCommitmentSize`,
reported as `invalidCommitment`). `ok true` = go on. -/
def preCheck (ks : List F) (hh : F) (dim : Nat) (rowComs : List F) (value : F) (π : Proof F) :
    Except Err Bool :=
  match key0 ks with
  | none => .error .abort
  | some k0 =>
    if defectEval k0 hh value π ≠ 0 then .ok false
    else if rowComs.length ≠ dim then .error .invalidCommitment
    else .ok true

/-- The part after the squeeze: equation (14), the `pedersen_commit(&vk.com_key, z)` length
assertion, equation (13). -/
def postCheck (ks : List F) (hh : F) (L R : List F) (rowComs : List F) (π : Proof F) (c : F) :
    Except Err Bool :=
  match key0 ks with
  | none => .error .abort
  | some k0 =>
    if defect14 k0 hh R π c ≠ 0 then .ok false
    else if ks.length ≠ π.z.length then .error .abort
    else if defect13 ks hh L rowComs π c ≠ 0 then .ok false
    else .ok true

/-- the loop of `HyraxPC::check` over `commitments.zip(values).zip(proof)`; a challenge is taken
from `cs` only when an iteration reaches its squeeze. -/
def checkLoop (ks : List F) (hh : F) (L R : List F) (dim : Nat) :
    List (List F) → List F → List (Proof F) → List F → Except Err Bool
  | com :: coms, v :: vs, π :: πs, cs =>
    match preCheck ks hh dim com v π with
    | .error e => .error e
    | .ok false => .ok false
    | .ok true =>
      match cs with
      | [] => .error .abort                                 -- the model's challenge list ran out
      | c :: cs' =>
        match postCheck ks hh L R com π c with
        | .error e => .error e
        | .ok false => .ok false
        | .ok true => checkLoop ks hh L R dim coms vs πs cs'
  | _, _, _, _ => .ok true

/-- `HyraxPC::check`. `coms` are the `row_coms` of the commitments. -/
def check (ks : List F) (hh : F) (coms : List (List F)) (point : List F) (values : List F)
    (proofs : List (Proof F)) (cs : List F) : Except Err Bool :=
  let n := point.length
  if n % 2 = 1 then .error .invalidNumVars
  else if coms.length ≠ proofs.length ∨ values.length ≠ proofs.length then
    .error .incorrectInputLength
  else checkLoop ks hh (tensorL point) (tensorR point) (2 ^ (n / 2)) coms values proofs cs

end Dec

end Hyrax
end PCV
