/-
  PCV.Model.SpongeEv — the transcript view of a `CryptographicSponge` (DESIGN §2.2): a sponge is the
  list of the calls made on it so far (its event history), oldest first; an `absorb` appends the
  description of the absorbed data, a squeeze appends the request and RETURNS the value of a random
  oracle `ro` at the history — an arbitrary function of everything absorbed and squeezed before.
  Two sponges with the same history are in the same state and answer every later call identically;
  that is all the lock-step statements of C11 use.

  `A` is the type of absorbed items; each scheme chooses it so that it distinguishes everything the
  code distinguishes (which object, which values, in which order).  Core Lean only.
-/
import PCV.Model.Basic
namespace PCV

/-- one call on the sponge -/
inductive SpongeEv (A : Type)
  /-- `sponge.absorb(&x)`, `a` describing `x` -/
  | absorb (a : A)
  /-- `sponge.squeeze_field_elements(n)` -/
  | squeezeField (n : Nat)
  /-- `sponge.squeeze_bytes(n)` -/
  | squeezeBytes (n : Nat)
  deriving DecidableEq, Repr

/-- The random oracle behind the squeezes: entry `i` of the answer to a squeeze made at history `h`.
(`fe`: `squeeze_field_elements`, `byte`: `squeeze_bytes`.)  Answers have the requested length by
construction. -/
structure SpongeRO (A F : Type) where
  fe : List (SpongeEv A) → Nat → F
  byte : List (SpongeEv A) → Nat → Nat

namespace Sponge
variable {A F : Type}

/-- the state of a sponge = its history -/
abbrev Log (A : Type) := List (SpongeEv A)

/-- `sponge.absorb(&x)` -/
def absorb (s : Log A) (a : A) : Log A := s ++ [.absorb a]

/-- `sponge.squeeze_field_elements(n)`: the answer and the new state -/
def squeezeField (ro : SpongeRO A F) (s : Log A) (n : Nat) : List F × Log A :=
  ((List.range n).map (ro.fe s), s ++ [.squeezeField n])

/-- `sponge.squeeze_field_elements(1)[0]` -/
def squeezeOne (ro : SpongeRO A F) (s : Log A) : F × Log A := (ro.fe s 0, s ++ [.squeezeField 1])

/-- `sponge.squeeze_bytes(n)` -/
def squeezeBytes (ro : SpongeRO A F) (s : Log A) (n : Nat) : List Nat × Log A :=
  ((List.range n).map (ro.byte s), s ++ [.squeezeBytes n])

/-- number of squeeze events in a history (the driver's replayed oracle is indexed by it) -/
def squeezeCount : Log A → Nat
  | [] => 0
  | .absorb _ :: t => squeezeCount t
  | _ :: t => squeezeCount t + 1

/-- the oracle that replays recorded squeeze outputs: the `k`-th squeeze of a run (whatever its
kind) returns the `k`-th recorded answer -/
def replayRO (zero : F) (fes : List (List F)) (bytes : List (List Nat)) : SpongeRO A F where
  fe h i := getD' (getD' fes (squeezeCount h) []) i zero
  byte h i := getD' (getD' bytes (squeezeCount h) []) i 0

end Sponge
end PCV
