/-
  PCV.Model.Dimensions — exact-integer model of the coefficient-matrix shape
  (`linear_codes/ligero.rs::compute_dimensions`, `brakedown.rs::BrakedownPCParams::default`):
    `n = 1 << log2(ceil(sqrt(ceil_div(2·N, t) as f64)))`, `m = ceil_div(N, n)`.
  `ark_std::log2` is the ceiling logarithm; `ceil(sqrt(c as f64))` is the least `s` with `s² ≥ c`
  for every `c < 2^52` (the f64 square root is correctly rounded; tied to the code by the
  correspondence run).  Core Lean only.
-/
import PCV.Model.CalcT
namespace PCV
namespace LinCode

/-- least `s` with `c ≤ s·s` -/
def ceilSqrt (c : Nat) : Nat := (findFrom (fun s => decide (c ≤ s * s)) (c + 1) 0).getD c

/-- `ark_std::log2`: least `k` with `x ≤ 2^k` -/
def clog2 (x : Nat) : Nat := (findFrom (fun k => decide (x ≤ 2 ^ k)) (x + 1) 0).getD x

/-- number of rows `n` (entries per opened column) chosen for `N` coefficients and `t` openings -/
def dimN (N t : Nat) : Nat := 2 ^ clog2 (ceilSqrt (ceilDiv (2 * N) t))

/-- `compute_dimensions(N) = (n, m)` given `t = calculate_t(λ, d, N)`; the matrix is `n × m` -/
def computeDimensions (N t : Nat) : Nat × Nat := (dimN N t, ceilDiv N (dimN N t))

/-- dominant part of the proof size for an `n′`-row matrix: `t` columns of `n′` entries and `c` row
combinations (`c = 2` with the well-formedness vector, `1` without) of `⌈N/n′⌉` entries -/
def proofCost (N t c n' : Nat) : Nat := t * n' + c * ceilDiv N n'

end LinCode
end PCV
