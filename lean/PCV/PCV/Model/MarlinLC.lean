/-
  PCV.Model.MarlinLC — `Marlin::open_combinations` / `check_combinations`
  (`poly-commit/src/marlin/mod.rs`): a labelled linear combination of committed polynomials is turned
  into one labelled polynomial, one state and one commitment, then batch-opened / batch-checked.
-/
import PCV.Model.Marlin
import PCV.Model.LC
namespace PCV
namespace Marlin

variable {F : Type} [Add F] [Mul F] [Sub F] [Neg F] [Zero F] [One F] [DecidableEq F]

/-- `Randomness += (f, other)` of `marlin_pc::Randomness` -/
def Rand.addScaled (a : Rand F) (f : F) (b : Rand F) : Rand F :=
  ⟨padd a.rand (pscale f b.rand),
   match a.shifted with
   | some r1 => some (padd r1 (pscale f (b.shifted.getD [])))
   | none => b.shifted.map fun r => padd [] (pscale f r)⟩

/-- `max` on `Option<usize>` with `Some(_) > None` -/
def maxHiding : Option Nat → Option Nat → Option Nat
  | none, b => b
  | a, none => a
  | some a, some b => some (max a b)

/-- accumulators of the per-combination loop of `open_combinations` -/
structure LCAcc (F : Type) where
  poly : List F
  rand : Rand F
  comm : F
  shifted : Option F
  bound : Option Nat
  hb : Option Nat
  deriving DecidableEq, Repr

/-- `combine_commitments`: add `coeff · comm` (and the shifted part if present) -/
def LCAcc.addComm (a : LCAcc F) (coeff : F) (c : Comm F) : LCAcc F :=
  { a with comm := a.comm + coeff * c.comm,
           shifted := match c.shifted with
             | none => a.shifted
             | some s => some ((a.shifted.getD 0) + coeff * s) }

/-- polynomial, its state, its commitment -/
abbrev Trip' (F : Type) := LPoly F × Rand F × LComm F

/-- one term of a combination on the prover's side.  `numTerms = lc.len()` counts constants too. -/
def lcStep (trips : List (Trip' F)) (numTerms : Nat) (acc : LCAcc F) (term : F × LC.LCTerm) :
    Except Err (LCAcc F) :=
  match term.2 with
  | .one => .ok acc                                  -- constants are skipped by the prover
  | .poly l =>
    match lookupLast (fun (t : Trip' F) => t.1.label) l trips with
    | none => .error .missingPolynomial
    | some (p, st, c) =>
      if numTerms = 1 ∧ p.bound.isSome then
        if term.1 ≠ 1 then .error .abort             -- assert!(coeff.is_one())
        else .ok ({ acc with bound := p.bound, hb := maxHiding acc.hb p.hb,
                              poly := padd acc.poly (pscale term.1 p.poly),
                              rand := acc.rand.addScaled term.1 st }.addComm term.1 c.comm)
      else if p.bound.isSome then .error .equationHasDegreeBounds
      else .ok ({ acc with hb := maxHiding acc.hb p.hb,
                            poly := padd acc.poly (pscale term.1 p.poly),
                            rand := acc.rand.addScaled term.1 st }.addComm term.1 c.comm)

/-- the combination as one (polynomial, state, commitment) triple -/
def combineLC (trips : List (LPoly F × Rand F × LComm F)) (lc : LC.LinComb F) :
    Except Err (LPoly F × Rand F × LComm F) :=
  let rec go (acc : LCAcc F) : List (F × LC.LCTerm) → Except Err (LCAcc F)
    | [] => .ok acc
    | t :: ts =>
      match lcStep trips lc.terms.length acc t with
      | .error e => .error e
      | .ok acc' => go acc' ts
  match go ⟨[], ⟨[], none⟩, 0, none, none, none⟩ lc.terms with
  | .error e => .error e
  | .ok a => .ok (⟨lc.label, a.poly, a.bound, a.hb⟩, a.rand, ⟨lc.label, ⟨a.comm, a.shifted⟩, a.bound⟩)

/-- the constant terms of a combination: the verifier subtracts them from the claimed value -/
def lcConstant (lc : LC.LinComb F) : F :=
  lc.terms.foldr (fun t acc => (match t.2 with | .one => t.1 | .poly _ => 0) + acc) 0

end Marlin
end PCV
