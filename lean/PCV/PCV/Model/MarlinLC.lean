/-
  PCV.Model.MarlinLC — `Marlin::open_combinations` / `check_combinations`
  (`poly-commit/src/marlin/mod.rs`): a labelled linear combination of committed polynomials is turned
  into one labelled polynomial, one state and one commitment, then batch-opened / batch-checked.
-/
import PCV.Model.Marlin
import PCV.Model.LC
namespace PCV
namespace Marlin

variable {F : Type} [Add F] [Mul F] [Sub F] [Neg F] [Zero F] [One F] [DecidableEq F]

/-- `Randomness += (f, other)` of `marlin_pc::Randomness` -/
def Rand.addScaled (a : Rand F) (f : F) (b : Rand F) : Rand F :=
  ⟨padd a.rand (pscale f b.rand),
   match a.shifted with
   | some r1 => some (padd r1 (pscale f (b.shifted.getD [])))
   | none => b.shifted.map fun r => padd [] (pscale f r)⟩

/-- `max` on `Option<usize>` with `Some(_) > None` -/
def maxHiding : Option Nat → Option Nat → Option Nat
  | none, b => b
  | a, none => a
  | some a, some b => some (max a b)

/-- accumulators of the per-combination loop of `open_combinations` -/
structure LCAcc (F : Type) where
  poly : List F
  rand : Rand F
  comm : F
  shifted : Option F
  bound : Option Nat
  hb : Option Nat
  deriving DecidableEq, Repr

/-- `combine_commitments`: add `coeff · comm` (and the shifted part if present) -/
def LCAcc.addComm (a : LCAcc F) (coeff : F) (c : Comm F) : LCAcc F :=
  { a with comm := a.comm + coeff * c.comm,
           shifted := match c.shifted with
             | none => a.shifted
             | some s => some ((a.shifted.getD 0) + coeff * s) }

/-- polynomial, its state, its commitment -/
abbrev Trip' (F : Type) := LPoly F × Rand F × LComm F

/-- one term of a combination on the prover's side.  `numTerms = lc.len()` counts constants too. -/
def lcStep (trips : List (Trip' F)) (numTerms : Nat) (acc : LCAcc F) (term : F × LC.LCTerm) :
    Except Err (LCAcc F) :=
  match term.2 with
  | .one => .ok acc                                  -- constants are skipped by the prover
  | .poly l =>
    match lookupLast (fun (t : Trip' F) => t.1.label) l trips with
    | none => .error .missingPolynomial
    | some (p, st, c) =>
      if numTerms = 1 ∧ p.bound.isSome then
        if term.1 ≠ 1 then .error .abort             -- assert!(coeff.is_one())
        else .ok ({ acc with bound := p.bound, hb := maxHiding acc.hb p.hb,
                              poly := padd acc.poly (pscale term.1 p.poly),
                              rand := acc.rand.addScaled term.1 st }.addComm term.1 c.comm)
      else if p.bound.isSome then .error .equationHasDegreeBounds
      else .ok ({ acc with hb := maxHiding acc.hb p.hb,
                            poly := padd acc.poly (pscale term.1 p.poly),
                            rand := acc.rand.addScaled term.1 st }.addComm term.1 c.comm)

/-- the combination as one (polynomial, state, commitment) triple -/
def combineLC (trips : List (LPoly F × Rand F × LComm F)) (lc : LC.LinComb F) :
    Except Err (LPoly F × Rand F × LComm F) :=
  let rec go (acc : LCAcc F) : List (F × LC.LCTerm) → Except Err (LCAcc F)
    | [] => .ok acc
    | t :: ts =>
      match lcStep trips lc.terms.length acc t with
      | .error e => .error e
      | .ok acc' => go acc' ts
  match go ⟨[], ⟨[], none⟩, 0, none, none, none⟩ lc.terms with
  | .error e => .error e
  | .ok a => .ok (⟨lc.label, a.poly, a.bound, a.hb⟩, a.rand, ⟨lc.label, ⟨a.comm, a.shifted⟩, a.bound⟩)

/-- the constant terms of a combination: the verifier subtracts them from the claimed value -/
def lcConstant (lc : LC.LinComb F) : F :=
  lc.terms.foldr (fun t acc => (match t.2 with | .one => t.1 | .poly _ => 0) + acc) 0

end Marlin
end PCV

namespace PCV
namespace Marlin
variable {F : Type} [Add F] [Mul F] [Sub F] [Neg F] [Zero F] [One F] [DecidableEq F]

/-- combine every linear combination (`lc_polynomials`, `lc_states`, `lc_commitments`) -/
def combineAll (trips : List (Trip' F)) : List (LC.LinComb F) → Except Err (List (Trip' F))
  | [] => .ok []
  | lc :: lcs =>
    match combineLC trips lc with
    | .error e => .error e
    | .ok t =>
      match combineAll trips lcs with
      | .error e => .error e
      | .ok ts => .ok (t :: ts)

/-- `Marlin::open_combinations`: combine, then `batch_open` over the combinations -/
def openCombinations (ck : CK F) (polys : List (LPoly F)) (sts : List (Rand F))
    (comms : List (LComm F)) (lcs : List (LC.LinComb F)) (qs : List (Query F)) (ξs : List F) :
    Except Err (List (KZG.Proof F) × List F) :=
  match combineAll (polys.zip (sts.zip comms)) lcs with
  | .error e => .error e
  | .ok ts => batchOpen ck (ts.map (·.1)) (ts.map (·.2.1)) qs ξs

/-- verifier side of one combination: only commitments are available; the degree-bound policy reads
the commitment's label -/
def combineLCComm (comms : List (LComm F)) (lc : LC.LinComb F) : Except Err (LComm F) :=
  match combineLC (comms.map fun c => ((⟨c.label, [], c.bound, none⟩ : LPoly F), (⟨[], none⟩ : Rand F), c)) lc with
  | .error e => .error e
  | .ok t => .ok t.2.2

def combineAllComm (comms : List (LComm F)) : List (LC.LinComb F) → Except Err (List (LComm F))
  | [] => .ok []
  | lc :: lcs =>
    match combineLCComm comms lc with
    | .error e => .error e
    | .ok t =>
      match combineAllComm comms lcs with
      | .error e => .error e
      | .ok ts => .ok (t :: ts)

/-- subtract the constants of each combination from every claimed value carrying its label -/
def adjustEvals (lcs : List (LC.LinComb F)) (evals : List ((Label × F) × F)) : List ((Label × F) × F) :=
  lcs.foldl (fun evs lc => evs.map fun e => if e.1.1 = lc.label then (e.1, e.2 - lcConstant lc) else e) evals

/-- `Marlin::check_combinations` -/
def checkCombinations (vk : VK F) (comms : List (LComm F)) (lcs : List (LC.LinComb F))
    (qs : List (Query F)) (evals : List ((Label × F) × F)) (πs : List (KZG.Proof F))
    (ξs rs : List F) : Except Err Bool :=
  match combineAllComm comms lcs with
  | .error e => .error e
  | .ok lcComms => batchCheck vk lcComms qs (adjustEvals lcs evals) πs ξs rs

end Marlin
end PCV
