/-
  PCV.Model.Merkle — the Merkle tree of `ark-crypto-primitives 0.5` (`merkle_tree/mod.rs`:
  `MerkleTree::new`, `root`, `generate_proof`, `Path::verify`) over abstract hash functions, as it is
  used by `linear_codes/mod.rs::create_merkle_tree` (leaves padded to a power of two with the default
  leaf).  Core Lean only.
-/
import PCV.Model.Basic
namespace PCV
namespace Merkle

variable {D : Type}

/-- The hash functions of a Merkle `Config`, all on one digest type:
`leaf` = `C::LeafHash::evaluate` (applied to a leaf value), `bottom` =
`TwoToOneHash::evaluate ∘ LeafInnerDigestConverter::convert` (the layer above the leaves),
`inner` = `TwoToOneHash::compress`, `dflt` = `C::Leaf::default()` (the padding leaf). -/
structure Hashes (D : Type) where
  leaf : D → D
  bottom : D → D → D
  inner : D → D → D
  dflt : D

/-- `merkle_tree::Path`: sibling of the leaf, siblings of the on-path inner nodes from the layer
below the root down to the layer above the leaves, and the leaf position. -/
structure Path (D : Type) where
  leafSibling : D
  authPath : List D
  leafIndex : Nat
  deriving DecidableEq, Repr

/-- least `k` with `n ≤ 2^k` (`ark_std::log2`; `2^ceilLog2 n = n.next_power_of_two()`) -/
def ceilLog2 (n : Nat) : Nat := if n ≤ 1 then 0 else Nat.log2 (n - 1) + 1

/-- `leaves.resize(leaves.len().next_power_of_two(), C::Leaf::default())` -/
def padLeaves (dflt : D) (ls : List D) : List D :=
  ls ++ List.replicate (2 ^ ceilLog2 ls.length - ls.length) dflt

/-- one layer of the tree: hash consecutive pairs -/
def pairUp (f : D → D → D) : List D → List D
  | a :: b :: rest => f a b :: pairUp f rest
  | _ => []

/-- position of the sibling (`get_leaf_sibling_hash`, `sibling`) -/
def sibIdx (i : Nat) : Nat := if i % 2 = 0 then i + 1 else i - 1

/-- root of the tree above a layer of `2^d` nodes -/
def rootUp (f : D → D → D) (dflt : D) : Nat → List D → D
  | 0, nodes => nodes.headD dflt
  | d + 1, nodes => rootUp f dflt d (pairUp f nodes)

/-- siblings of the on-path nodes, bottom to top, starting from node `i` of a layer of `2^d` nodes
(`compute_auth_path` before its final `reverse`) -/
def authUp (f : D → D → D) (dflt : D) : Nat → List D → Nat → List D
  | 0, _, _ => []
  | d + 1, nodes, i => getD' nodes (sibIdx i) dflt :: authUp f dflt d (pairUp f nodes) (i / 2)

/-- the loop of `Path::verify`: `select_left_right_child(index, curr, sibling)`, compress, `index >>= 1` -/
def climb (f : D → D → D) : Nat → D → List D → D
  | _, c, [] => c
  | i, c, s :: ss => climb f (i / 2) (if i % 2 = 0 then f c s else f s c) ss

/-- leaf digests of the padded tree (`MerkleTree::new`) -/
def leafDigests (hs : Hashes D) (leaves : List D) : List D := (padLeaves hs.dflt leaves).map hs.leaf

/-- number of sibling hashes in a path = height of the tree above the leaves -/
def depth (leaves : List D) : Nat := ceilLog2 leaves.length

/-- `create_merkle_tree(leaves).root()`.  (`MerkleTree::new` asserts at least two padded leaves,
i.e. `1 ≤ depth leaves`; callers check that.) -/
def merkleRoot (hs : Hashes D) (leaves : List D) : D :=
  rootUp hs.inner hs.dflt (depth leaves - 1) (pairUp hs.bottom (leafDigests hs leaves))

/-- `create_merkle_tree(leaves).generate_proof(i)` -/
def merklePath (hs : Hashes D) (leaves : List D) (i : Nat) : Path D :=
  { leafSibling := getD' (leafDigests hs leaves) (sibIdx i) hs.dflt
    authPath := (authUp hs.inner hs.dflt (depth leaves - 1)
                  (pairUp hs.bottom (leafDigests hs leaves)) (i / 2)).reverse
    leafIndex := i }

/-- the root `Path::verify` recomputes from a leaf value -/
def recomputeRoot (hs : Hashes D) (leaf : D) (p : Path D) : D :=
  climb hs.inner (p.leafIndex / 2)
    (if p.leafIndex % 2 = 0 then hs.bottom (hs.leaf leaf) p.leafSibling
     else hs.bottom p.leafSibling (hs.leaf leaf))
    p.authPath.reverse

/-- `Path::verify(leaf_hash_params, two_to_one_params, root, leaf)` -/
def verifyPath [DecidableEq D] (hs : Hashes D) (root : D) (leaf : D) (p : Path D) : Bool :=
  decide (recomputeRoot hs leaf p = root)

end Merkle
end PCV
