/-
  PCV.Model.DrvC16 — driver requests of property C16 (op names start with "c16.").
-/
import PCV.Model.Wire
import PCV.Model.DrvUtil
namespace PCV
namespace DrvC16

/-- `none` = not an op of this module -/
def handle (p : Nat) (r : Req) : Option (Except String String) :=
  let _ := p
  let _ := r
  none

end DrvC16
end PCV
