/-
  PCV.Model.DrvC16 — driver requests of property C16 (op names start with "c16.").

  Wire forms:
    term      `[coeff, none]` (LCTerm::One) or `[coeff, some([bytes])]` (PolyLabel)
    op        `[0,c,terms]` `+= (c, lc)`   `[1,c,terms]` `-= (c, lc)`   `[2,terms]` `+= lc`
              `[3,terms]` `-= lc`   `[4,c]` `+= c`   `[5,c]` `-= c`   `[6,c]` `*= c`
              `[7,c,optlabel]` `push((c, term))`
    c16.lc    init=terms ops=[op,…] sigma=[[[bytes],v],…]
              → coeffs=[…] labels=[none|some([bytes]),…] value=v spec=v
    c16.succinct  us=[…] z=v → coeffs=[…] len=n value=v horner=v
    c16.qs    polys=[[[bytes],[coeffs]],…] qs=[[[bytes],[bytes],pt],…]
              → labels=[[bytes],…] points=[…] vals=[…]  |  err abort
-/
import PCV.Model.Wire
import PCV.Model.DrvUtil
import PCV.Model.LC
import PCV.Model.Succinct
import PCV.Model.QuerySet
namespace PCV
namespace DrvC16
open Driver

variable {p : Nat}

def asOptLabel (v : Val) : R LC.LCTerm := do
  match ← asOpt v with
  | none => pure .one
  | some l => do pure (.poly (← asNats l))

def asTerm (v : Val) : R (Fp p × LC.LCTerm) := do
  match ← asList v with
  | [c, t] => do pure (← asFe c, ← asOptLabel t)
  | _ => .error "bad-term"

def asTerms (v : Val) : R (List (Fp p × LC.LCTerm)) := do (← asList v).mapM asTerm

def asOp (v : Val) : R (LC.Op (Fp p)) := do
  match ← asList v with
  | [.n 0, c, ts] => do pure (.addScaled (← asFe c) ⟨[], ← asTerms ts⟩)
  | [.n 1, c, ts] => do pure (.subScaled (← asFe c) ⟨[], ← asTerms ts⟩)
  | [.n 2, ts] => do pure (.addLC ⟨[], ← asTerms ts⟩)
  | [.n 3, ts] => do pure (.subLC ⟨[], ← asTerms ts⟩)
  | [.n 4, c] => do pure (.addConst (← asFe c))
  | [.n 5, c] => do pure (.subConst (← asFe c))
  | [.n 6, c] => do pure (.mulConst (← asFe c))
  | [.n 7, c, t] => do pure (.push (← asFe c) (← asOptLabel t))
  | _ => .error "bad-op"

def asSigmaEntry (v : Val) : R (LC.Label × Fp p) := do
  match ← asList v with
  | [l, x] => do pure (← asNats l, ← asFe x)
  | _ => .error "bad-sigma"

/-- the assignment given by an association list; labels not listed evaluate to 0 -/
def sigmaOf (tbl : List (LC.Label × Fp p)) (l : LC.Label) : Fp p :=
  match tbl.find? (fun e => e.1 == l) with
  | some e => e.2
  | none => 0

def vTermLabel : LC.LCTerm → Val
  | .one => .none
  | .poly l => .some (vNats l)

def asPoly (v : Val) : R (QS.Label × List (Fp p)) := do
  match ← asList v with
  | [l, cs] => do pure (← asNats l, ← asFes cs)
  | _ => .error "bad-poly"

def asQuery (v : Val) : R (QS.Label × (QS.Label × Fp p)) := do
  match ← asList v with
  | [l, pl, pt] => do pure (← asNats l, (← asNats pl, ← asFe pt))
  | _ => .error "bad-query"

/-- `Ord for Fp`: compares the canonical representatives -/
def ltFp (a b : Fp p) : Bool := decide (a.v < b.v)

def handleC16 (r : Req) : R String := do
  match r.op with
  | "c16.lc" =>
    let init ← asTerms (p := p) (← need r "init")
    let ops ← (← asList (← need r "ops")).mapM (asOp (p := p))
    let tbl ← (← asList (← need r "sigma")).mapM (asSigmaEntry (p := p))
    let a : LC.LinComb (Fp p) := LC.new [] init
    let res := LC.applyOps a ops
    let σ := sigmaOf tbl
    pure <| okReply [("coeffs", vFes (res.terms.map (·.1))),
      ("labels", .l (res.terms.map (fun ct => vTermLabel ct.2))),
      ("value", vFe (LC.value res σ)),
      ("spec", vFe (LC.specOps σ (LC.value a σ) ops))]
  | "c16.succinct" =>
    let us ← asFes (p := p) (← need r "us")
    let z ← asFe (p := p) (← need r "z")
    let cs := Succinct.computeCoeffs us
    pure <| okReply [("coeffs", vFes cs), ("len", .n cs.length),
      ("value", vFe (Succinct.evaluate us z)), ("horner", vFe (evalPoly cs z))]
  | "c16.qs" =>
    let polys ← (← asList (← need r "polys")).mapM (asPoly (p := p))
    let qs ← (← asList (← need r "qs")).mapM (asQuery (p := p))
    pure <| exceptReply
      (QS.evaluateQuerySet QS.ltLabel (QS.ltKey ltFp) (fun (c : List (Fp p)) x => evalPoly c x)
        polys qs)
      fun m => [("labels", .l (m.map (fun kv => vNats kv.1.1))),
                ("points", vFes (m.map (fun kv => kv.1.2))),
                ("vals", vFes (m.map (fun kv => kv.2)))]
  | _ => .error "unknown-op"

/-- `none` = not an op of this module -/
def handle (p : Nat) (r : Req) : Option (Except String String) :=
  if r.op.startsWith "c16." then some (handleC16 (p := p) r) else none

end DrvC16
end PCV
