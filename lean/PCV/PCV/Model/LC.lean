/-
  PCV.Model.LC — `poly-commit/src/data_structures.rs`: `LCTerm`, `LinearCombination` and every
  operator impl on it (`AddAssign`/`SubAssign` with `(F, &LinearCombination)`, `&LinearCombination`,
  `F`; `MulAssign<F>`; `push`; `new`; `empty`; `is_empty`).  The code keeps the terms as a `Vec` in
  insertion order and NEVER merges terms with equal labels; the model keeps the same list.
  Core Lean only.
-/
import PCV.Model.Poly
namespace PCV
namespace LC

/-- `PolynomialLabel = String`, as its UTF-8 bytes. -/
abbrev Label := List Nat

/-- `enum LCTerm { One, PolyLabel(String) }` -/
inductive LCTerm
  | one
  | poly (l : Label)
  deriving DecidableEq, Repr

/-- `LCTerm::is_one` -/
def LCTerm.isOne : LCTerm → Bool
  | .one => true
  | .poly _ => false

/-- `impl PartialEq<B: Borrow<String>> for LCTerm`: `One` equals no label. -/
def LCTerm.eqLabel : LCTerm → Label → Bool
  | .one, _ => false
  | .poly l, l' => decide (l = l')

/-- `TryInto<PolynomialLabel> for LCTerm` (`Err(())` ↦ `none`) -/
def LCTerm.tryLabel : LCTerm → Option Label
  | .one => none
  | .poly l => some l

/-- `struct LinearCombination<F> { label, terms: Vec<(F, LCTerm)> }` -/
structure LinComb (F : Type) where
  label : Label
  terms : List (F × LCTerm)
  deriving DecidableEq, Repr

variable {F : Type} [Add F] [Mul F] [Sub F] [Neg F] [Zero F] [One F]

/-- `LinearCombination::empty(label)` -/
def empty (label : Label) : LinComb F := ⟨label, []⟩

/-- `LinearCombination::new(label, terms)` (the `Into<LCTerm>` conversion is the identity here) -/
def new (label : Label) (terms : List (F × LCTerm)) : LinComb F := ⟨label, terms⟩

/-- `LinearCombination::is_empty` -/
def isEmpty (a : LinComb F) : Bool := a.terms.isEmpty

/-- `LinearCombination::push(term)`: appended at the end, no merging. -/
def push (a : LinComb F) (term : F × LCTerm) : LinComb F := ⟨a.label, a.terms ++ [term]⟩

/-- one scaled copy of a term of `other`: `(coeff * c, t.clone())` -/
def scaleTerm (coeff : F) (ct : F × LCTerm) : F × LCTerm := (coeff * ct.1, ct.2)

/-- `(-*c, t.clone())` -/
def negTerm (ct : F × LCTerm) : F × LCTerm := (-ct.1, ct.2)

/-- `*c *= coeff` -/
def mulTerm (coeff : F) (ct : F × LCTerm) : F × LCTerm := (ct.1 * coeff, ct.2)

/-- `impl AddAssign<(F, &LinearCombination<F>)>`:
`self.terms.extend(other.terms.iter().map(|(c, t)| (coeff * c, t.clone())))` -/
def addScaled (a : LinComb F) (coeff : F) (other : LinComb F) : LinComb F :=
  ⟨a.label, a.terms ++ other.terms.map (scaleTerm coeff)⟩

/-- `impl SubAssign<(F, &LinearCombination<F>)>`: `(-coeff * c, t.clone())`, i.e. `(-coeff) * c`. -/
def subScaled (a : LinComb F) (coeff : F) (other : LinComb F) : LinComb F :=
  ⟨a.label, a.terms ++ other.terms.map (scaleTerm (-coeff))⟩

/-- `impl AddAssign<&LinearCombination<F>>`: `self.terms.extend(other.terms.iter().cloned())` -/
def addLC (a other : LinComb F) : LinComb F := ⟨a.label, a.terms ++ other.terms⟩

/-- `impl SubAssign<&LinearCombination<F>>`: `(-*c, t.clone())` -/
def subLC (a other : LinComb F) : LinComb F := ⟨a.label, a.terms ++ other.terms.map negTerm⟩

/-- `impl AddAssign<F>`: `self.terms.push((coeff, LCTerm::One))` -/
def addConst (a : LinComb F) (coeff : F) : LinComb F := ⟨a.label, a.terms ++ [(coeff, .one)]⟩

/-- `impl SubAssign<F>`: `self.terms.push((-coeff, LCTerm::One))` -/
def subConst (a : LinComb F) (coeff : F) : LinComb F := ⟨a.label, a.terms ++ [(-coeff, .one)]⟩

/-- `impl MulAssign<F>`: `self.terms.iter_mut().for_each(|(c, _)| *c *= coeff)` -/
def mulConst (a : LinComb F) (coeff : F) : LinComb F := ⟨a.label, a.terms.map (mulTerm coeff)⟩

/-! ### meaning -/

/-- value of one term under an assignment of evaluations, `One ↦ 1` -/
def termVal (σ : Label → F) : LCTerm → F
  | .one => 1
  | .poly l => σ l

/-- `Σ cᵢ · σ(tᵢ)` over the term list -/
def termsValue (σ : Label → F) : List (F × LCTerm) → F
  | [] => 0
  | ct :: rest => ct.1 * termVal σ ct.2 + termsValue σ rest

/-- the value of a linear combination at an assignment of polynomial evaluations -/
def value (a : LinComb F) (σ : Label → F) : F := termsValue σ a.terms

/-! ### operation sequences -/

/-- one public mutation of a `LinearCombination` -/
inductive Op (F : Type)
  | addScaled (c : F) (b : LinComb F)
  | subScaled (c : F) (b : LinComb F)
  | addLC (b : LinComb F)
  | subLC (b : LinComb F)
  | addConst (c : F)
  | subConst (c : F)
  | mulConst (c : F)
  | push (c : F) (t : LCTerm)

def applyOp (a : LinComb F) : Op F → LinComb F
  | .addScaled c b => addScaled a c b
  | .subScaled c b => subScaled a c b
  | .addLC b => addLC a b
  | .subLC b => subLC a b
  | .addConst c => addConst a c
  | .subConst c => subConst a c
  | .mulConst c => mulConst a c
  | .push c t => push a (c, t)

def applyOps (a : LinComb F) : List (Op F) → LinComb F
  | [] => a
  | op :: ops => applyOps (applyOp a op) ops

/-- what one operation is supposed to do to the VALUE `v` of the accumulator -/
def specOp (σ : Label → F) (v : F) : Op F → F
  | .addScaled c b => v + c * value b σ
  | .subScaled c b => v - c * value b σ
  | .addLC b => v + value b σ
  | .subLC b => v - value b σ
  | .addConst c => v + c
  | .subConst c => v - c
  | .mulConst c => v * c
  | .push c t => v + c * termVal σ t

def specOps (σ : Label → F) (v : F) : List (Op F) → F
  | [] => v
  | op :: ops => specOps σ (specOp σ v op) ops

end LC
end PCV
