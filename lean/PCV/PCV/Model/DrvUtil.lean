/-
  PCV.Model.DrvUtil — decoding / encoding helpers shared by all driver modules.
-/
import PCV.Model.Wire
namespace PCV
namespace Driver

variable {p : Nat}

abbrev R := Except String

def need (r : Req) (k : String) : R Val :=
  match r.get? k with
  | some v => .ok v
  | none => .error s!"missing-arg:{k}"

def asNat (v : Val) : R Nat := match v with | .n x => .ok x | _ => .error "expected-nat"
def asFe (v : Val) : R (Fp p) := match v with | .n x => .ok (Fp.ofNat x) | _ => .error "expected-fe"
def asList (v : Val) : R (List Val) := match v with | .l xs => .ok xs | _ => .error "expected-list"
def asFes (v : Val) : R (List (Fp p)) := do let xs ← asList v; xs.mapM asFe
def asNats (v : Val) : R (List Nat) := do let xs ← asList v; xs.mapM asNat
def asOpt (v : Val) : R (Option Val) :=
  match v with | .none => .ok none | .some x => .ok (some x) | _ => .error "expected-option"
def asOptNat (v : Val) : R (Option Nat) := do
  match ← asOpt v with | none => pure none | some x => do let n ← asNat x; pure (some n)
def asOptFe (v : Val) : R (Option (Fp p)) := do
  match ← asOpt v with | none => pure none | some x => do let n ← asFe x; pure (some n)
def asBool (v : Val) : R Bool := do let n ← asNat v; pure (n != 0)
def asFess (v : Val) : R (List (List (Fp p))) := do let xs ← asList v; xs.mapM asFes

def vFe (x : Fp p) : Val := .n x.v
def vFes (xs : List (Fp p)) : Val := .l (xs.map vFe)
def vOptFe (x : Option (Fp p)) : Val := match x with | none => .none | some y => .some (vFe y)
def vBool (b : Bool) : Val := .n (if b then 1 else 0)
def vNats (xs : List Nat) : Val := .l (xs.map .n)

def okReply (kvs : List (String × Val)) : String :=
  " ".intercalate ("ok" :: kvs.map fun (k, v) => k ++ "=" ++ v.render)

def errReply (e : Err) : String := "err " ++ e.name

def exceptReply {α} (x : Except Err α) (f : α → List (String × Val)) : String :=
  match x with
  | .ok a => okReply (f a)
  | .error e => errReply e

end Driver
end PCV
