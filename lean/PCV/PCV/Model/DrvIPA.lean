/-
  PCV.Model.DrvIPA — driver requests of the IPA scheme model (op names start with "ipa.").
-/
import PCV.Model.Wire
import PCV.Model.DrvUtil
namespace PCV
namespace DrvIPA

/-- `none` = not an op of this module -/
def handle (p : Nat) (r : Req) : Option (Except String String) :=
  let _ := p
  let _ := r
  none

end DrvIPA
end PCV
