/-
  PCV.Model.DrvIPA — driver requests `ipa.*` of the inner-product-argument model.
  Every request carries the universal parameters (`key`, `h`, `s`) and the requested degree
  (`supported`); the driver runs the model's `trim` first, so `trim` is exercised by every case.
  A request may override the trimmed key length with `keylen=n` (hand-made keys: D7 witnesses).
-/
import PCV.Model.Wire
import PCV.Model.DrvUtil
import PCV.Model.IPA
import PCV.Model.IPALC
namespace PCV
namespace DrvIPA
open Driver IPA

variable {p : Nat}

def asLabel (v : Val) : R Label := asNats v
def asLabels (v : Val) : R (List Label) := do let xs ← asList v; xs.mapM asLabel
def asOptNats (v : Val) : R (List (Option Nat)) := do let xs ← asList v; xs.mapM asOptNat
def asOptFes (v : Val) : R (List (Option (Fp p))) := do let xs ← asList v; xs.mapM asOptFe

def getTrim (r : Req) : R (Except Err (CK (Fp p) × VK (Fp p))) := do
  let pp : UParams (Fp p) := ⟨← asFes (← need r "key"), ← asFe (← need r "h"), ← asFe (← need r "s")⟩
  let supported ← asNat (← need r "supported")
  pure (trim pp supported)

def getPolys (r : Req) : R (List (LPoly (Fp p))) := do
  let labels ← asLabels (← need r "labels")
  let polys ← asFess (← need r "polys")
  let bounds ← asOptNats (← need r "bounds")
  let hbs ← asOptNats (← need r "hbs")
  pure <| (labels.zip (polys.zip (bounds.zip hbs))).map fun (l, (q, (b, h))) => ⟨l, q, b, h⟩

def getRands (r : Req) : R (List (Rand (Fp p))) := do
  let rs ← asFes (← need r "rands")
  let ss ← asOptFes (← need r "srands")
  pure <| (rs.zip ss).map fun (a, b) => ⟨a, b⟩

def getComms (r : Req) : R (List (LComm (Fp p))) := do
  let labels ← asLabels (← need r "clabels")
  let cs ← asFes (← need r "cs")
  let ss ← asOptFes (← need r "ss")
  let bounds ← asOptNats (← need r "cbounds")
  pure <| (labels.zip (cs.zip (ss.zip bounds))).map fun (l, (c, (s, b))) => ⟨l, ⟨c, s⟩, b⟩

def getProofs (r : Req) : R (List (Proof (Fp p))) := do
  let ls ← asFess (← need r "lss")
  let rs ← asFess (← need r "rss")
  let ks ← asFes (← need r "fcks")
  let cs ← asFes (← need r "pcs")
  let hcs ← asOptFes (← need r "hcs")
  let rands ← asOptFes (← need r "prands")
  pure <| (ls.zip (rs.zip (ks.zip (cs.zip (hcs.zip rands))))).map
    fun (l, (r, (k, (c, (hc, rd))))) => ⟨l, r, k, c, hc, rd⟩

def getProof (r : Req) : R (Proof (Fp p)) := do
  pure ⟨← asFes (← need r "ls"), ← asFes (← need r "rs"), ← asFe (← need r "fck"),
        ← asFe (← need r "pc"), ← asOptFe (← need r "hc"), ← asOptFe (← need r "prand")⟩

def getQueries (r : Req) : R (List (Query (Fp p))) := do
  let ql ← asLabels (← need r "qlabels")
  let pl ← asLabels (← need r "qplabels")
  let pts ← asFes (← need r "qpoints")
  pure <| (ql.zip (pl.zip pts))

def getEvals (r : Req) : R (List ((Label × Fp p) × Fp p)) := do
  let el ← asLabels (← need r "elabels")
  let pts ← asFes (← need r "epoints")
  let vs ← asFes (← need r "evals")
  pure <| (el.zip (pts.zip vs)).map fun (l, (z, v)) => ((l, z), v)

def asNatss (v : Val) : R (List (List Nat)) := do let xs ← asList v; xs.mapM asNats
def asLabelss (v : Val) : R (List (List Label)) := do let xs ← asList v; xs.mapM asLabels

/-- linear combinations: `lclabels`, `lccoeffs`, `lcone` (1 = constant term), `lcterms` (label bytes) -/
def getLCs (r : Req) : R (List (LC.LinComb (Fp p))) := do
  let labels ← asLabels (← need r "lclabels")
  let coeffs ← asFess (← need r "lccoeffs")
  let ones ← asNatss (← need r "lcone")
  let terms ← asLabelss (← need r "lcterms")
  pure <| (labels.zip (coeffs.zip (ones.zip terms))).map fun (l, (cs, (os, ts))) =>
    ⟨l, (cs.zip (os.zip ts)).map fun (c, (o, t)) => (c, if o != 0 then LC.LCTerm.one else LC.LCTerm.poly t)⟩

/-- the outcome class as a label: `ok`, or the name of the error (for requests that compare the
error kind itself: `ipa.lc_kind`) -/
def kindOf {α : Type} (x : Except Err α) : Val :=
  match x with
  | .ok _ => vNats ("ok".toUTF8.toList.map (·.toNat))
  | .error e => vNats (e.name.toUTF8.toList.map (·.toNat))

def vProof (π : Proof (Fp p)) : List (String × Val) :=
  [("ls", vFes π.lVec), ("rs", vFes π.rVec), ("fck", vFe π.finalCommKey), ("pc", vFe π.c),
   ("hc", vOptFe π.hidingComm), ("hcl", .l [vOptFe π.hidingComm]), ("prand", vOptFe π.rand),
   ("nl", .n π.lVec.length), ("nr", .n π.rVec.length)]

def vProofs (πs : List (Proof (Fp p))) : List (String × Val) :=
  [("lss", .l (πs.map fun π => vFes π.lVec)), ("rss", .l (πs.map fun π => vFes π.rVec)),
   ("fcks", vFes (πs.map (·.finalCommKey))), ("pcs", vFes (πs.map (·.c))),
   ("hcs", .l (πs.map fun π => vOptFe π.hidingComm)), ("prands", .l (πs.map fun π => vOptFe π.rand)),
   ("nls", vNats (πs.map (·.lVec.length)))]

/-- a hand-made key: the first `n` elements of the trimmed key (or of the parameters) -/
def overrideKey (r : Req) (ck : CK (Fp p)) : R (CK (Fp p)) := do
  match r.get? "keylen" with
  | none => pure ck
  | some v =>
    let n ← asNat v
    let full ← asFes (p := p) (← need r "key")
    pure { ck with commKey := full.take n }

def handle (p : Nat) (r : Req) : Option (R String) :=
  if !r.op.startsWith "ipa." then none else some do
  let t ← getTrim (p := p) r
  match t with
  | .error e => pure (errReply e)
  | .ok (ck0, vk0) =>
  let ck ← overrideKey r ck0
  let vk ← overrideKey r vk0
  match r.op with
  | "ipa.trim" =>
    pure <| okReply [("key", vFes ck.commKey), ("h", vFe ck.h), ("s", vFe ck.s),
      ("max_degree", .n ck.maxDegree), ("supported", .n (supportedDegree ck)),
      ("vkey", vFes vk.commKey), ("vh", vFe vk.h), ("vs", vFe vk.s)]
  | "ipa.commit" =>
    let polys ← getPolys (p := p) r
    let rng ← asBool (← need r "rng")
    let draws ← asFes (← need r "draws")
    pure <| exceptReply (commit ck polys rng draws) fun (cs, rs, rest) =>
      [("cs", vFes (cs.map (·.comm.comm))), ("ss", .l (cs.map fun c => vOptFe c.comm.shifted)),
       ("rands", vFes (rs.map (·.rand))), ("srands", .l (rs.map fun x => vOptFe x.shifted)),
       ("used", .n (draws.length - rest.length))]
  | "ipa.open" =>
    let polys ← getPolys (p := p) r
    let comms ← getComms (p := p) r
    let rands ← getRands (p := p) r
    let z ← asFe (← need r "z")
    let ξs ← asFes (← need r "xis")
    let ros ← asFes (← need r "ros")
    let rng ← asBool (← need r "rng")
    let draws ← asFes (← need r "draws")
    pure <| exceptReply (IPA.open ck polys comms z rands ξs ros rng draws) fun (π, a, b, c) =>
      vProof π ++ [("used_xi", .n (ξs.length - a.length)), ("used_ro", .n (ros.length - b.length)),
                   ("used_draws", .n (draws.length - c.length))]
  | "ipa.check" =>
    let comms ← getComms (p := p) r
    let z ← asFe (← need r "z")
    let vs ← asFes (← need r "vs")
    let π ← getProof (p := p) r
    let ξs ← asFes (← need r "xis")
    let ros ← asFes (← need r "ros")
    -- what `succinct_check` consumed of the two streams (C11), when it ran through
    let used : List (String × Val) := match succinctCheck vk comms z vs π ξs ros with
      | .ok (_, a, b) => [("used_xi", .n (ξs.length - a.length)), ("used_ro", .n (ros.length - b.length))]
      | .error _ => []
    pure <| exceptReply (check vk comms z vs π ξs ros) fun b => [("b", vBool b)] ++ used
  | "ipa.batch_open" =>
    let polys ← getPolys (p := p) r
    let comms ← getComms (p := p) r
    let rands ← getRands (p := p) r
    let qs ← getQueries (p := p) r
    let ξs ← asFes (← need r "xis")
    let ros ← asFes (← need r "ros")
    let rng ← asBool (← need r "rng")
    let draws ← asFes (← need r "draws")
    pure <| exceptReply (batchOpen ck polys comms rands qs ξs ros rng draws) fun (πs, a, b, c) =>
      vProofs πs ++ [("used_xi", .n (ξs.length - a.length)), ("used_ro", .n (ros.length - b.length)),
                     ("used_draws", .n (draws.length - c.length))]
  | "ipa.batch_check" =>
    let comms ← getComms (p := p) r
    let qs ← getQueries (p := p) r
    let evals ← getEvals (p := p) r
    let πs ← getProofs (p := p) r
    let ξs ← asFes (← need r "xis")
    let ros ← asFes (← need r "ros")
    let rs ← asFes (← need r "rs")
    pure <| exceptReply (batchCheck vk comms qs evals πs ξs ros rs) fun b => [("b", vBool b)]
  | "ipa.open_combinations" =>
    let lcs ← getLCs (p := p) r
    let polys ← getPolys (p := p) r
    let comms ← getComms (p := p) r
    let rands ← getRands (p := p) r
    let qs ← getQueries (p := p) r
    let ξs ← asFes (← need r "xis")
    let ros ← asFes (← need r "ros")
    let rng ← asBool (← need r "rng")
    let draws ← asFes (← need r "draws")
    pure <| exceptReply (openCombinations ck lcs polys comms rands qs ξs ros rng draws) fun (πs, a, b, c) =>
      vProofs πs ++ [("used_xi", .n (ξs.length - a.length)), ("used_ro", .n (ros.length - b.length)),
                     ("used_draws", .n (draws.length - c.length))]
  | "ipa.check_combinations" =>
    let lcs ← getLCs (p := p) r
    let comms ← getComms (p := p) r
    let qs ← getQueries (p := p) r
    let evals ← getEvals (p := p) r
    let πs ← getProofs (p := p) r
    let ξs ← asFes (← need r "xis")
    let ros ← asFes (← need r "ros")
    let rs ← asFes (← need r "rs")
    pure <| exceptReply (checkCombinations vk lcs comms qs evals πs ξs ros rs) fun b => [("b", vBool b)]
  | "ipa.lc_commitments" =>
    -- the combined commitments as `open_combinations` (p…) and `check_combinations` (v…) build them
    let lcs ← getLCs (p := p) r
    let polys ← getPolys (p := p) r
    let comms ← getComms (p := p) r
    let rands ← getRands (p := p) r
    let pc := match combineAllP (polys.zip (rands.zip comms)) lcs with
      | .error e => Except.error e
      | .ok as => constructLabeledCommitments (lcInfo as) (lcFlat as)
    let vc := match combineAllV comms lcs [] with
      | .error e => Except.error e
      | .ok (as, _) => constructLabeledCommitments (lcInfoV as) (lcFlatV as)
    pure <| match pc, vc with
      | .ok a, .ok b =>
        okReply [("pcs", vFes (a.map (·.comm.comm))), ("pss", .l (a.map fun c => vOptFe c.comm.shifted)),
                 ("vcs", vFes (b.map (·.comm.comm))), ("vss", .l (b.map fun c => vOptFe c.comm.shifted))]
      | .error e, _ => errReply e
      | _, .error e => errReply e
  | "ipa.lc_kind" =>
    -- the outcome class (incl. the error kind) of the combination phase of both functions
    let lcs ← getLCs (p := p) r
    let polys ← getPolys (p := p) r
    let comms ← getComms (p := p) r
    let rands ← getRands (p := p) r
    let evals ← getEvals (p := p) r
    let pk := match combineAllP (polys.zip (rands.zip comms)) lcs with
      | .error e => Except.error e
      | .ok as => constructLabeledCommitments (lcInfo as) (lcFlat as)
    let vkd := match combineAllV comms lcs evals with
      | .error e => Except.error e
      | .ok (as, _) => constructLabeledCommitments (lcInfoV as) (lcFlatV as)
    pure <| okReply [("pkind", kindOf pk), ("vkind", kindOf vkd)]
  | _ => .error "unknown-op"

end DrvIPA
end PCV
