/-
  PCV.Model.StreamKZG — `poly-commit/src/streaming_kzg/{mod,time,space}.rs` in exponent form
  (DESIGN §2.1, Appendix A "Streaming KZG").  A group element is its discrete log, an MSM is `dot`
  (truncating to the shorter operand, as `ark-ec` does), a pairing equation `e(A,B)=e(C,D)` is
  `A*B = C*D`.  Core Lean only.  The committers and provers assert that the key has a power for
  every coefficient (fix D24) and answer `.error .abort` otherwise.

  Conventions.  A time-efficient polynomial is a little-endian coefficient list (`&[F]`), a
  space-efficient one is the big-endian stream (`Reverse(coeffs)` in the crate's tests).  The SRS of
  the time key is `powersOfG = [g, τg, τ²g, …]`; the stream key iterates it in reverse.
  `DensePolynomial` values are modelled up to high-order zero coefficients: they only ever reach an
  MSM (which the zeros do not change), `degree()` of a monic polynomial (whose vector is exact), or the
  length assertion of `open_multi_points` / `commit` (where the model takes `pnorm` first).
  The MSM buffer size (`max_msm_buffer`) only chunks a sum (`ChunkedPippenger::add/finalize`) and
  does not occur in the model.
-/
import PCV.Model.Poly
namespace PCV
namespace SKZG

variable {F : Type} [Add F] [Mul F] [Sub F] [Neg F] [Zero F] [One F]

/-! ### keys -/

/-- `time::CommitterKey` -/
structure CK (F : Type) where
  powersOfG : List F
  powersOfG2 : List F
  deriving DecidableEq, Repr

/-- `space::CommitterKeyStream`: `powersOfG` in *stream order* (highest power first). -/
structure CKS (F : Type) where
  powersOfG : List F
  powersOfG2 : List F
  deriving DecidableEq, Repr

/-- `VerifierKey` -/
structure VK (F : Type) where
  powersOfG : List F
  powersOfG2 : List F
  deriving DecidableEq, Repr

/-- `CommitterKey::new(max_degree, max_eval_points, rng)` with the three draws `τ, g, g2` made
explicit: `powers_of_g = g·τⁱ` (`max_degree+1` entries), `powers_of_g2 = g2·τⁱ` for the first
`max_eval_points+1` powers of `τ` (`take` of the same power list). -/
def CK.new (g g2 τ : F) (maxDegree maxEvalPoints : Nat) : CK F :=
  ⟨PCV.powers g τ (maxDegree + 1), PCV.powers g2 τ (min (maxDegree + 1) (maxEvalPoints + 1))⟩

/-- `From<&CommitterKey> for CommitterKeyStream`: `Reverse(ck.powers_of_g)`. -/
def CKS.ofTime (ck : CK F) : CKS F := ⟨ck.powersOfG.reverse, ck.powersOfG2⟩

/-- `From<&CommitterKey> for VerifierKey`: `powers_of_g2[..m+1]`, `powers_of_g[..m]` with
`m = max_eval_points() = powers_of_g2.len() - 1` (underflow / slice out of range abort). -/
def VK.ofTime (ck : CK F) : Except Err (VK F) :=
  if ck.powersOfG2.length = 0 then .error .abort
  else if ck.powersOfG2.length - 1 > ck.powersOfG.length then .error .abort
  else .ok ⟨ck.powersOfG.take (ck.powersOfG2.length - 1), ck.powersOfG2⟩

/-- `From<&CommitterKeyStream> for VerifierKey`: all of `powers_of_g2`; of the G1 stream (decreasing
powers) the last `take = min(max(max_eval_points, 1), len)` elements, reversed into increasing
order (`assert!(len > 0)`; `max_eval_points = powers_of_g2.len().saturating_sub(1)`). -/
def VK.ofSpace (ck : CKS F) : Except Err (VK F) :=
  if ck.powersOfG.length = 0 then .error .abort
  else
    let take := min (max (ck.powersOfG2.length - 1) 1) ck.powersOfG.length
    .ok ⟨(ck.powersOfG.drop (ck.powersOfG.length - take)).reverse, ck.powersOfG2⟩

/-! ### helpers of `mod.rs` -/

/-- `powers(element, len)`: `[1, e, e², …]` (`powers[i] = element * powers[i-1]`). -/
def powersOf (e : F) (len : Nat) : List F := PCV.powers 1 e len

/-- `DensePolynomial::naive_mul` / `Mul` (schoolbook product; `[]` is the zero polynomial). -/
def pmul : List F → List F → List F
  | [], _ => []
  | a :: p, q => padd (pscale a q) (0 :: pmul p q)

/-- `vanishing_polynomial(points)`: `fold(one, |x, y| x.naive_mul(&[-point, 1]))`. -/
def vanishing (pts : List F) : List F := pts.foldl (fun acc pt => pmul acc [-pt, 1]) [1]

/-- the tail of `linear_combination`'s `reduce(|x, y| x + y)` -/
def lcAux : List (List F) → List F → List F → List F
  | p :: ps, c :: cs, acc => lcAux ps cs (padd acc (pscale c p))
  | _, _, acc => acc

/-- `linear_combination(polynomials, challenges)`: `zip`, scale, `reduce`; `None` on an empty zip. -/
def linearCombination : List (List F) → List F → Option (List F)
  | p :: ps, c :: cs => some (lcAux ps cs (pscale c p))
  | _, _ => none

/-! ### time-efficient prover (`time.rs`) -/
namespace Time

/-- `CommitterKey::commit`: `assert!(powers_of_g.len() >= polynomial.len())` (fix D24: the MSM drops
the coefficients that have no power, an oversize polynomial was committed as its truncation), then
`msm(powers_of_g, polynomial)`. -/
def commit (ck : CK F) (p : List F) : Except Err F :=
  if ck.powersOfG.length < p.length then .error .abort
  else .ok (dot ck.powersOfG p)

/-- `batch_commit`: `map(|p| self.commit(p))`, so the first oversize polynomial aborts the batch. -/
def batchCommit (ck : CK F) : List (List F) → Except Err (List F)
  | [] => .ok []
  | p :: ps =>
    match commit ck p with
    | .error e => .error e
    | .ok c =>
      match batchCommit ck ps with
      | .error e => .error e
      | .ok cs => .ok (c :: cs)

/-- The loop of `CommitterKey::open` over `polynomial.iter().rev()`:
`coefficient = c + previous * α; quotient.insert(0, coefficient)`. Returns the vector `quotient`. -/
def openLoop (α : F) : List F → F → List F → List F
  | [], _, quotient => quotient
  | c :: cs, previous, quotient =>
    openLoop α cs (c + previous * α) ((c + previous * α) :: quotient)

/-- The body of `CommitterKey::open` after its assertion: `split_first` of the loop's vector
(`unwrap_or((0, []))`), then the MSM of the tail with `powers_of_g`.  Returns `(evaluation, proof)`. -/
def openBody (ck : CK F) (p : List F) (α : F) : F × F :=
  match openLoop α p.reverse 0 [] with
  | [] => (0, dot ck.powersOfG [])
  | ev :: quotient => (ev, dot ck.powersOfG quotient)

/-- `CommitterKey::open`: `assert!(powers_of_g.len() >= polynomial.len())` (fix D24: the quotient of an
oversize polynomial was committed as its truncation), then the loop and the MSM (`openBody`).
Returns `(evaluation, proof)`. -/
def «open» (ck : CK F) (p : List F) (α : F) : Except Err (F × F) :=
  if ck.powersOfG.length < p.length then .error .abort
  else .ok (openBody ck p α)

/-- `subtract a·(zs) from the first |zs| entries` of a big-endian remainder: one round of the inner
`for` of `divide_with_q_and_r` (`remainder[cur_q_degree + i] -= cur_q_coeff * div_coeff`) and of the
sliding window of `space.rs` (`state[i] -= zeros.coeffs[deg - i - 1] * quotient_coefficient`). -/
def subPrefix (a : F) : List F → List F → List F
  | r :: rs, z :: zs => (r - z * a) :: subPrefix a rs zs
  | rs, _ => rs

/-- The `while` loop of `DenseOrSparsePolynomial::divide_with_q_and_r` on the big-endian remainder:
`k` rounds, each cancelling the leading coefficient `a` with `cur_q_coeff = a * divisor_leading_inv`
against the divisor `lead·X^m + zsBE`.  (The code skips rounds whose leading coefficient is zero;
such a round is the identity here.)  Returns the big-endian quotient and remainder. -/
def divLoop (linv : F) (zsBE : List F) : Nat → List F → List F × List F
  | 0, rem => ([], rem)
  | _+1, [] => ([], [])
  | k+1, a :: rest =>
    let qr := divLoop linv zsBE k (subPrefix (a * linv) rest zsBE)
    ((a * linv) :: qr.1, qr.2)

section Div
variable [DecidableEq F] [Inv F]

/-- `&f / &d` of `ark-poly` (`divide_with_q_and_r`), little-endian in and out: zero dividend,
zero divisor (panics), `deg f < deg d`, otherwise schoolbook long division with
`deg f - deg d + 1` quotient coefficients. -/
def divideWithQAndR (p d : List F) : Except Err (List F × List F) :=
  if pnorm p = [] then .ok ([], [])
  else if pnorm d = [] then .error .abort
  else if (pnorm p).length < (pnorm d).length then .ok ([], pnorm p)
  else
    let dBE := (pnorm d).reverse
    let qr := divLoop (dBE.headD 0)⁻¹ dBE.tail ((pnorm p).length - (pnorm d).length + 1) (pnorm p).reverse
    .ok (pnorm qr.1.reverse, pnorm qr.2.reverse)

/-- `CommitterKey::open_multi_points`: `assert!(powers_of_g.len() >= polynomial.len())` on the
coefficient slice as given (fix D24), then commit (`CommitterKey::commit`, with its own assertion) to
the quotient by the vanishing polynomial. -/
def openMultiPoints (ck : CK F) (p : List F) (pts : List F) : Except Err F :=
  if ck.powersOfG.length < p.length then .error .abort
  else
    match divideWithQAndR p (vanishing pts) with
    | .error e => .error e
    | .ok qr => commit ck qr.1

/-- `CommitterKey::batch_open_multi_points`: `assert!(eval_points.len() < powers_of_g2.len())`,
`etas = powers(eval_chal, n)`, `linear_combination(..).unwrap_or([0])`, `open_multi_points`.
The slice handed to `open_multi_points` is the coefficient vector of a `DensePolynomial` (every
`DensePolynomial` operation of `linear_combination` ends with `truncate_leading_zeros`), so the
length its assertion sees is the one without high-order zeros: `pnorm`. -/
def batchOpenMultiPoints (ck : CK F) (ps : List (List F)) (pts : List F) (η : F) : Except Err F :=
  if ¬ (pts.length < ck.powersOfG2.length) then .error .abort
  else
    match linearCombination ps (powersOf η ps.length) with
    | none => openMultiPoints ck [0] pts
    | some b => openMultiPoints ck (pnorm b) pts

end Div
end Time

/-! ### space-efficient prover (`space.rs`) -/
namespace Space

/-- `CommitterKeyStream::commit`: `assert!(powers_of_g.len() >= polynomial.len())`, then
`msm_chunks` = the MSM of the scalar stream with the base stream skipped by the length difference. -/
def commit (ck : CKS F) (pBE : List F) : Except Err F :=
  if ck.powersOfG.length < pBE.length then .error .abort
  else .ok (dot (ck.powersOfG.drop (ck.powersOfG.length - pBE.length)) pBE)

/-- The loop of `CommitterKeyStream::open` over `scalars.zip(bases)`:
`quotient.add(base, previous); previous = previous * α + scalar`.  Returns `(previous, quotient)`. -/
def openLoop (α : F) : List F → List F → F → F → F × F
  | s :: ss, b :: bs, previous, quotient => openLoop α ss bs (previous * α + s) (quotient + b * previous)
  | _, _, previous, quotient => (previous, quotient)

/-- `CommitterKeyStream::open`: `assert!(powers_of_g.len() >= polynomial.len())` (explicit since fix
D24; before it the refusal was only the `usize` underflow of the skip below, i.e. only with overflow
checks compiled in), then the bases skipped by `powers_of_g.len() - polynomial.len()`. -/
def «open» (ck : CKS F) (pBE : List F) (α : F) : Except Err (F × F) :=
  if ck.powersOfG.length < pBE.length then .error .abort
  else .ok (openLoop α pBE (ck.powersOfG.drop (ck.powersOfG.length - pBE.length)) 0 0)

/-- The `for coefficient in polynomial_iterator` loop of `open_multi_points`: pop the quotient
coefficient, push the next stream coefficient, subtract `q·zeros` from the window, add
`base·q` to the Pippenger accumulator.  Returns `(state, accumulator)`. -/
def mpLoop (zsBE : List F) : List F → List F → List F → F → Except Err (List F × F)
  | state, [], _, acc => .ok (state, acc)
  | state, c :: cs, bases, acc =>
    match state with
    | [] => .error .abort
    | q :: st =>
      match bases with
      | [] => .error .abort
      | b :: bs => mpLoop zsBE (Time.subPrefix q (st ++ [c]) zsBE) cs bs (acc + b * q)

/-- `CommitterKeyStream::open_multi_points`.  `zeros.degree()` is `coeffs.len() - 1` (the vanishing
polynomial is monic, its vector exact); `zeros.coeffs[deg - i - 1]`, `i = 0..m`, is the big-endian
vector without its leading coefficient.  Bases skipped by `len(srs) - len(f) + deg` (underflow
aborts).  The window starts as `missing = m.saturating_sub(len f)` zeros followed by the first
`m - missing` stream items.  Returns the remainder window (big-endian, `m` entries) and the quotient
commitment. -/
def openMultiPoints (ck : CKS F) (pBE : List F) (pts : List F) : Except Err (List F × F) :=
  let zeros := vanishing pts
  let deg := zeros.length - 1
  let missing := pts.length - pBE.length
  if ck.powersOfG.length < pBE.length then .error .abort
  else
    mpLoop zeros.reverse.tail (List.replicate missing 0 ++ pBE.take (pts.length - missing))
      (pBE.drop (pts.length - missing))
      (ck.powersOfG.drop (ck.powersOfG.length - pBE.length + deg)) 0

end Space

/-! ### verifier (`mod.rs`) -/
section Verify
variable [DecidableEq F]

/-- `VerifierKey::verify`: `ep = msm(powers_of_g2, [-α, 1])`, `lhs = C - g·evaluation`,
`e(lhs, g2) == e(proof, ep)`; keys with fewer than two G2 powers or no G1 power are refused first. -/
def verify (vk : VK F) (c α v π : F) : Except Err Bool :=
  -- fewer than two G2 powers (a key made for zero evaluation points) or no G1 power:
  -- `Err(VerificationError)`, a rejection (fix D22; the MSM below truncates silently)
  if vk.powersOfG2.length < 2 ∨ vk.powersOfG.length = 0 then .ok false
  else
  match vk.powersOfG, vk.powersOfG2 with
  | g :: _, g2 :: _ => .ok (decide ((c - g * v) * g2 = π * dot vk.powersOfG2 [-α, 1]))
  | _, _ => .error .abort

variable [Inv F]

/-- `sca_inverse` before inversion, for every point of `rest` (`pre` = the points before it):
`∏_{k ≠ j} (x_j - x_k)` in the order of the loop. -/
def scaAll : List F → List F → List F
  | _, [] => []
  | pre, xj :: post =>
    (pre ++ post).foldl (fun acc xk => acc * (xj - xk)) 1 :: scaAll (pre ++ [xj]) post

/-- `lang`: for every point the product of `[-x_k, 1]`, `k ≠ j`. -/
def langAll : List F → List F → List (List F)
  | _, [] => []
  | pre, xj :: post => vanishing (pre ++ post) :: langAll (pre ++ [xj]) post

/-- `interpolate_poly`: `res += lang[j] * (sca_inverse[j] * y_j)` over `eval_points.zip(evals)`. -/
def interpolateAux : List F → List (List F) → List F → List F → List F
  | s :: ss, l :: ls, y :: ys, acc => interpolateAux ss ls ys (padd acc (pscale (s * y) l))
  | _, _, _, acc => acc

def interpolate (pts evals : List F) : List F :=
  interpolateAux ((scaAll [] pts).map (·⁻¹)) (langAll [] pts) evals []

/-- `VerifierKey::verify_multi_points`.  `sca.inverse().unwrap()` aborts when two points coincide,
`linear_combination(..).unwrap()` when there is no evaluation vector.  The interpolant commitment
is `msm(powers_of_g, i_poly)`; inputs the MSMs would truncate are refused first. -/
def verifyMultiPoints (vk : VK F) (comms pts : List F) (evals : List (List F)) (π η : F) :
    Except Err Bool :=
  -- more points than the key supports, or evaluation tables that do not match commitments and points:
  -- `Err(VerificationError)`, i.e. a rejection (fix D20; the MSMs below truncate silently)
  if pts.length ≥ vk.powersOfG2.length ∨ pts.length > vk.powersOfG.length ∨
      comms.length ≠ evals.length ∨ evals.any (fun e => decide (e.length ≠ pts.length)) then .ok false
  else
  let zeros := dot vk.powersOfG2 (vanishing pts)
  if (scaAll [] pts).any (fun s => decide (s = 0)) then .error .abort
  else
    let etas := powersOf η evals.length
    match linearCombination (evals.map (interpolate pts)) etas with
    | none => .error .abort
    | some iPoly =>
      let iComm := dot vk.powersOfG iPoly
      let fComm := dot comms etas
      match vk.powersOfG2 with
      | [] => .error .abort
      | g2 :: _ => .ok (decide ((fComm - iComm) * g2 = π * zeros))

end Verify

end SKZG
end PCV
