/-
  PCV.Model.DrvLinCode — driver requests of the LinCode scheme model (op names start with "lincode.").
-/
import PCV.Model.Wire
import PCV.Model.DrvUtil
namespace PCV
namespace DrvLinCode

/-- `none` = not an op of this module -/
def handle (p : Nat) (r : Req) : Option (Except String String) :=
  let _ := p
  let _ := r
  none

end DrvLinCode
end PCV
