/-
  PCV.Model.DrvLinCode — driver requests of the linear-code PCS model (`lincode.*`).

  The hash functions are abstract in the model, so the driver works on the algebraic part of the
  transcript: the harness evaluates the real hashes (`Path::verify`, the `leaf_index` comparison) and
  the real encoder, and passes the results as flags / encoded vectors; the driver runs the model's
  `openOne` / `checkAll` on an instance whose hashes are chosen so that `verifyPath` reproduces exactly
  the supplied flags.

  * `lincode.tensor   kind=0|1 point=[..] ncols= nrows=`                       → `a`, `b`
  * `lincode.open_alg kind= point= wf=0|1 nrows= ncols= mat=[[..]] next= ext=[[..]] r=[..] idxbytes=[[..]]`
        → `v`, `wf`, `columns`, `indices`, `leafidx`, `depth`
  * `lincode.check_alg kind= point= wf= ncomm= nval= nproof=` and, per position `i`:
        `nrows_i ncols_i next_i` (commitment), `value_i`, proof `v_i pwf_i cols_i leafok_i pathok_i`,
        transcript `r_i idxbytes_i`, encoder results `ev_i ewf_i` (`none` = the encoder refused)
        → `b` or `err <kind>`
-/
import PCV.Model.Wire
import PCV.Model.DrvUtil
import PCV.Model.LinCode
import PCV.Model.CalcT
import PCV.Model.LinCodeTranscript
import PCV.Model.LinCodeSetup
namespace PCV
namespace DrvLinCode
open Driver LinCode Merkle

variable {p : Nat}

def asNatss (v : Val) : R (List (List Nat)) := do let xs ← asList v; xs.mapM asNats

def asOptFes (v : Val) : R (Option (List (Fp p))) := do
  match ← asOpt v with
  | none => pure none
  | some y => do let l ← asFes y; pure (some l)

def vOptFes (xs : Option (List (Fp p))) : Val :=
  match xs with | none => .none | some l => .some (vFes l)

def getPoint (r : Req) : R (Point (Fp p)) := do
  let kind ← asNat (← need r "kind")
  let pt ← asFes (← need r "point")
  if kind = 0 then
    match pt with
    | [z] => pure (.uni z)
    | _ => .error "univariate-point-must-have-one-entry"
  else pure (.ml pt)

/-- hashes under which `recomputeRoot` returns the path's `leafSibling` (paths without inner nodes) -/
def flagHashes : Hashes Nat := ⟨id, fun a b => a + b, fun a b => a + b, 0⟩

/-- a path that passes the position test iff `leafOk` and verifies against root `1` iff `pathOk` -/
def flagPath (q : Nat) (leafOk pathOk : Bool) : Path Nat :=
  ⟨if pathOk then 1 else 2, [], if leafOk then q else q + 1⟩

def flagPaths (qs : List Nat) (leafOk pathOk : List Bool) : List (Path Nat) :=
  (leafOk.zip pathOk).zipIdx.map fun (lp, j) => flagPath (qs.getD j 0) lp.1 lp.2

/-- encoder table: the harness supplies the real encoder's result on the vectors the verifier
encodes -/
def tableEnc (tbl : List (List (Fp p) × Option (List (Fp p)))) (x : List (Fp p)) :
    Except Err (List (Fp p)) :=
  match tbl.find? (fun e => e.1 == x) with
  | some (_, some w) => .ok w
  | some (_, none) => .error .encodingError
  | none => .error .abort

def key (k : String) (i : Nat) : String := k ++ "_" ++ toString i

def handleLC (r : Req) : R String := do
  match r.op with
  | "lincode.tensor" =>
    let point ← getPoint (p := p) r
    let ncols ← asNat (← need r "ncols")
    let nrows ← asNat (← need r "nrows")
    pure <| exceptReply (tensor point ncols nrows) fun ab => [("a", vFes ab.1), ("b", vFes ab.2)]
  | "lincode.open_alg" =>
    let point ← getPoint (p := p) r
    let wf ← asBool (← need r "wf")
    let nrows ← asNat (← need r "nrows")
    let ncols ← asNat (← need r "ncols")
    let next ← asNat (← need r "next")
    let mat ← asFess (← need r "mat")
    let ext ← asFess (← need r "ext")
    let rr ← asFes (← need r "r")
    let idxbytes ← asNatss (← need r "idxbytes")
    let indices := getIndices next idxbytes
    let pp : Params (Fp p) Nat :=
      { enc := fun _ => .error .abort, dims := fun _ => (nrows, ncols), colHash := fun _ => 0,
        hs := flagHashes, checkWf := wf }
    let st : State (Fp p) Nat := ⟨⟨mat.length, ncols, mat⟩, ⟨ext.length, next, ext⟩, List.replicate next 0⟩
    let c : Comm Nat := ⟨nrows, ncols, next, 0⟩
    pure <| exceptReply (openOne pp point c st ⟨rr, indices⟩) fun π =>
      [("v", vFes π.opening.v), ("wf", vOptFes π.wf),
       ("columns", .l (π.opening.columns.map vFes)), ("indices", vNats indices),
       ("leafidx", vNats (π.opening.paths.map (·.leafIndex))),
       ("depth", vNats (π.opening.paths.map fun q => q.authPath.length + 1))]
  | "lincode.check_alg" =>
    let point ← getPoint (p := p) r
    let wf ← asBool (← need r "wf")
    let ncomm ← asNat (← need r "ncomm")
    let nval ← asNat (← need r "nval")
    let nproof ← asNat (← need r "nproof")
    let comms ← (List.range ncomm).mapM fun i => do
      pure (⟨← asNat (← need r (key "nrows" i)), ← asNat (← need r (key "ncols" i)),
             ← asNat (← need r (key "next" i)), 1⟩ : Comm Nat)
    let vals ← (List.range nval).mapM fun i => do asFe (p := p) (← need r (key "value" i))
    -- transcript outputs: present for the positions the implementation reached
    let oracles ← (List.range (min ncomm nval)).mapM fun i => do
      match r.get? (key "idxbytes" i), comms[i]? with
      | some ib, some c => do
        let rr ← asFes (p := p) (← need r (key "r" i))
        let bytes ← asNatss ib
        pure (some (⟨rr, getIndices c.nExtCols bytes⟩ : Oracle (Fp p)))
      | _, _ => pure none
    -- positions the implementation never reached have no recorded outputs: an empty oracle there
    let os := oracles.map fun o => o.getD ⟨[], []⟩
    let proofs ← (List.range nproof).mapM fun i => do
      let v ← asFes (p := p) (← need r (key "v" i))
      let pwf ← asOptFes (p := p) (← need r (key "pwf" i))
      let cols ← asFess (p := p) (← need r (key "cols" i))
      let leafok ← (← asNats (← need r (key "leafok" i))).mapM fun x => pure (x != 0)
      let pathok ← (← asNats (← need r (key "pathok" i))).mapM fun x => pure (x != 0)
      let qs := match os[i]? with | some o => o.indices | none => []
      pure (⟨⟨flagPaths qs leafok pathok, v, cols⟩, pwf⟩ : Proof (Fp p) Nat)
    let tbl ← (List.range nproof).mapM fun i => do
      let v ← asFes (p := p) (← need r (key "v" i))
      let pwf ← asOptFes (p := p) (← need r (key "pwf" i))
      let ev ← match r.get? (key "ev" i) with
        | some x => asOptFes (p := p) x
        | none => pure none
      let ewf ← match r.get? (key "ewf" i) with
        | some x => asOptFes (p := p) x
        | none => pure none
      pure ([(v, ev)] ++ (match pwf with | some w => [(w, ewf)] | none => []))
    let pp : Params (Fp p) Nat :=
      { enc := tableEnc tbl.flatten, dims := fun _ => (0, 0), colHash := fun _ => 0,
        hs := flagHashes, checkWf := wf }
    pure <| exceptReply (checkAll pp point comms vals proofs os) fun b =>
      [("b", vBool b), ("indices", .l (os.map fun o => vNats o.indices))]
  | _ => .error "unknown-op"


/-! ### `lincode.transcript`: the event log of `open` / `check` / default `batch_open` / `batch_check`

  Digests are byte lists (`D = List Nat`); the commitment's root is the real one (it is absorbed).
  The Merkle hashes are chosen so that `verifyPath` against a commitment holds iff the harness
  found `Path::verify` true (`pathok`), and the paths carry their REAL leaf positions (`leafidx`), so
  the position test of the model is run on the positions the model derives from the replayed oracle.
  `calculate_t` is `CalcT.calcT lam d0 d1 · q hint` with `q` the field modulus; `hints=[[n,t],..]`.

  common args: `kind= wf= lam= d0= d1= hints= sqf=[[..],..] sqb=[[..],..]` (recorded squeeze answers,
  aligned by squeeze number: a field squeeze has `[]` in `sqb` and vice versa)
  `side=0 point= n=` + per polynomial `nrows_i ncols_i next_i root_i mat_i ext_i`        → `log`, `k`
  `side=1 point= ncomm= nval= nproof=` + `nrows_i ncols_i next_i root_i`, `value_i`,
        `v_i pwf_i cols_i leafidx_i pathok_i ev_i ewf_i`                                  → `b`, `log`
  `side=2 n=` + per polynomial `label_i nrows_i ncols_i next_i root_i mat_i ext_i`, `qs=` → `log`, `groups`
  `side=3 ncomm= nproof=` + `label_i nrows_i ncols_i next_i root_i`, `qs= evals= pk=`,
        per proof `v_i pwf_i cols_i leafidx_i pathok_i proot_i ev_i ewf_i`                → `b`, `log`
  Events: `[5,bytes]` root, `[4,vec]` a vector of field elements, `[6,bytes]` index bytes,
  `[10,n]` `squeeze_field_elements(n)`, `[11,n]` `squeeze_bytes(n)`. -/

abbrev Dg := List Nat

def vBytes (bs : List Nat) : Val := .l (bs.map .n)

def vItem : Item (Fp p) Dg → Val
  | .root r => .l [.n 5, vBytes r]
  | .wfVec v => .l [.n 4, vFes v]
  | .pointVec v => .l [.n 4, vFes v]
  | .openVec v => .l [.n 4, vFes v]
  | .idxBytes bs => .l [.n 6, vBytes bs]

def vEv : SpongeEv (Item (Fp p) Dg) → Val
  | .absorb a => vItem a
  | .squeezeField n => .l [.n 10, .n n]
  | .squeezeBytes n => .l [.n 11, .n n]

def vLog (s : TLog (Fp p) Dg) : Val := .l (s.map vEv)

/-- digests are byte lists; a leaf digest is empty, so the bottom layer returns the sibling: the
recomputed root of a depth-one path is its `leafSibling` -/
def tHashes : Hashes Dg := ⟨id, fun a b => if a.isEmpty then b else a, fun a b => if a.isEmpty then b else a, []⟩

/-- a path with its real leaf position that verifies against `root` iff `pathOk` -/
def tPath (root : Dg) (leafIdx : Nat) (pathOk : Bool) : Path Dg :=
  ⟨if pathOk then root else [255], [], leafIdx⟩

def toPoint (kind : Nat) (pt : List (Fp p)) : R (Point (Fp p)) :=
  if kind = 0 then
    match pt with
    | [z] => pure (.uni z)
    | _ => .error "univariate-point-must-have-one-entry"
  else pure (.ml pt)

def ltVecFp : List (Fp p) → List (Fp p) → Bool
  | [], [] => false
  | [], _ :: _ => true
  | _ :: _, [] => false
  | a :: as, b :: bs => decide (a.v < b.v) || (decide (a.v = b.v) && ltVecFp as bs)

/-- `Ord` of the point type (`F` or `Vec<F>`; one request has points of one kind) -/
def ltPoint : Point (Fp p) → Point (Fp p) → Bool
  | .uni a, .uni b => decide (a.v < b.v)
  | .ml a, .ml b => ltVecFp a b
  | .uni _, .ml _ => true
  | .ml _, .uni _ => false

def getTP (r : Req) (tbl : List (List (Fp p) × Option (List (Fp p)))) : R (TParams (Fp p) Dg) := do
  let wf ← asBool (← need r "wf")
  let lam ← asNat (← need r "lam")
  let d0 ← asNat (← need r "d0")
  let d1 ← asNat (← need r "d1")
  let hints ← asNatss (← need r "hints")
  let hintOf (n : Nat) : Nat :=
    match hints.find? (fun h => h.head? == some n) with
    | some h => h.getD 1 0
    | none => 0
  pure { pp := { enc := tableEnc tbl, dims := fun _ => (0, 0), colHash := fun _ => [], hs := tHashes,
                 checkWf := wf },
         tOf := fun n => calcT lam d0 d1 n p (hintOf n) }

def getRO (r : Req) : R (TRO (Fp p) Dg) := do
  let sqf ← asFess (p := p) (← need r "sqf")
  let sqb ← asNatss (← need r "sqb")
  pure (Sponge.replayRO 0 sqf sqb)

def getComm (r : Req) (i : Nat) : R (Comm Dg) := do
  pure ⟨← asNat (← need r (key "nrows" i)), ← asNat (← need r (key "ncols" i)),
        ← asNat (← need r (key "next" i)), ← asNats (← need r (key "root" i))⟩

def getState (r : Req) (i : Nat) (c : Comm Dg) : R (State (Fp p) Dg) := do
  let mat ← asFess (p := p) (← need r (key "mat" i))
  let ext ← asFess (p := p) (← need r (key "ext" i))
  pure ⟨⟨mat.length, c.nCols, mat⟩, ⟨ext.length, c.nExtCols, ext⟩, List.replicate c.nExtCols []⟩

/-- proof `i`; `rootOf` is the root its paths were verified against -/
def getProofT (r : Req) (i : Nat) (root : Dg) : R (Proof (Fp p) Dg) := do
  let v ← asFes (p := p) (← need r (key "v" i))
  let pwf ← asOptFes (p := p) (← need r (key "pwf" i))
  let cols ← asFess (p := p) (← need r (key "cols" i))
  let leafidx ← asNats (← need r (key "leafidx" i))
  let pathok ← (← asNats (← need r (key "pathok" i))).mapM fun x => pure (x != 0)
  pure ⟨⟨(leafidx.zip pathok).map fun (q, ok) => tPath root q ok, v, cols⟩, pwf⟩

def getEncTable (r : Req) (nproof : Nat) : R (List (List (Fp p) × Option (List (Fp p)))) := do
  let tbl ← (List.range nproof).mapM fun i => do
    let v ← asFes (p := p) (← need r (key "v" i))
    let pwf ← asOptFes (p := p) (← need r (key "pwf" i))
    let ev ← match r.get? (key "ev" i) with
      | some x => asOptFes (p := p) x
      | none => pure none
    let ewf ← match r.get? (key "ewf" i) with
      | some x => asOptFes (p := p) x
      | none => pure none
    pure ([(v, ev)] ++ (match pwf with | some w => [(w, ewf)] | none => []))
  pure tbl.flatten

def getQueriesT (kind : Nat) (v : Val) : R (List (TraitDefault.Query (Point (Fp p)))) := do
  let xs ← asList v
  xs.mapM fun q => do
    match ← asList q with
    | [l, pl, pt] => pure (← asNats l, (← asNats pl, ← toPoint kind (← asFes pt)))
    | _ => .error "query-must-be-[label,point_label,point]"

def getEvalsT (kind : Nat) (v : Val) : R (List ((List Nat × Point (Fp p)) × Fp p)) := do
  let xs ← asList v
  xs.mapM fun e => do
    match ← asList e with
    | [l, pt, x] => pure ((← asNats l, ← toPoint kind (← asFes pt)), ← asFe x)
    | _ => .error "evaluation-must-be-[label,point,value]"

def chunksBy {α : Type} : List Nat → List α → List (List α)
  | [], _ => []
  | k :: ks, l => l.take k :: chunksBy ks (l.drop k)

/-- `lincode.setup scheme=0|1|2 s=<two-adicity> degree=`: the defaults `L::setup` installs (univariate
Ligero: 0; multilinear Ligero: 1; Brakedown: 2 — only the degree report), the degree report, and the verdict of `LinearCodePCS::setup`
followed by `trim` -/
def handleSetup (r : Req) : R String := do
  let scheme ← asNat (← need r "scheme")
  let s ← asNat (← need r "s")
  let degree ← asNat (← need r "degree")
  let pp := if scheme = 1 then ligeroSetupML else ligeroSetup
  let realMax := if scheme = 2 then brakedownMaxDegree else ligeroMaxDegree s pp
  match pcsSetup realMax degree with
  | .error e => pure (errReply e)
  | .ok () =>
    match pcsTrim realMax pp with
    | .error e => pure (errReply e)
    | .ok (ck, vk) =>
      pure <| okReply [("max", .n realMax), ("sec", .n ck.secParam), ("rho", .n ck.rhoInv),
        ("wf", vBool ck.checkWf), ("d0", .n vk.distance.1), ("d1", .n vk.distance.2),
        ("same", vBool (ck == vk))]

def handleTranscript (r : Req) : R String := do
  let side ← asNat (← need r "side")
  let kind ← asNat (← need r "kind")
  let ro ← getRO (p := p) r
  match side with
  | 0 =>
    let point ← toPoint kind (← asFes (p := p) (← need r "point"))
    let n ← asNat (← need r "n")
    let tp ← getTP (p := p) r []
    let cs ← (List.range n).mapM fun i => getComm r i
    let sts ← (List.range n).mapM fun i => do getState (p := p) r i (← getComm r i)
    pure <| exceptReply (openAllT ro tp point cs sts []) fun (πs, s) =>
      [("k", .n πs.length), ("log", vLog s),
       ("vs", .l (πs.map fun π => vFes π.opening.v)),
       ("leafidx", .l (πs.map fun π => vNats (π.opening.paths.map (·.leafIndex))))]
  | 1 =>
    let point ← toPoint kind (← asFes (p := p) (← need r "point"))
    let ncomm ← asNat (← need r "ncomm")
    let nval ← asNat (← need r "nval")
    let nproof ← asNat (← need r "nproof")
    let tp ← getTP (p := p) r (← getEncTable (p := p) r nproof)
    let cs ← (List.range ncomm).mapM fun i => getComm r i
    let vals ← (List.range nval).mapM fun i => do asFe (p := p) (← need r (key "value" i))
    let πs ← (List.range nproof).mapM fun i =>
      getProofT (p := p) r i (match cs[i]? with | some c => c.root | none => [])
    pure <| exceptReply (checkAllT ro tp point cs vals πs []) fun (b, s) =>
      [("b", vBool b), ("log", vLog s)]
  | 2 =>
    let n ← asNat (← need r "n")
    let tp ← getTP (p := p) r []
    let cs ← (List.range n).mapM fun i => getComm r i
    let sts ← (List.range n).mapM fun i => do getState (p := p) r i (← getComm r i)
    let labels ← (List.range n).mapM fun i => do asNats (← need r (key "label" i))
    let qs ← getQueriesT (p := p) kind (← need r "qs")
    let polys : List (LPoly (Fp p)) := labels.map fun l => ⟨l, []⟩
    let comms : List (LComm Dg) := (labels.zip cs).map fun (l, c) => ⟨l, c⟩
    pure <| exceptReply
      (TraitDefault.batchOpen ltPoint (fun (x : LPoly (Fp p)) => x.label) (openF ro tp) polys sts comms qs
        ([] : TLog (Fp p) Dg)) fun (πss, s) =>
      [("groups", vNats (πss.map (·.length))), ("log", vLog s)]
  | 3 =>
    let ncomm ← asNat (← need r "ncomm")
    let nproof ← asNat (← need r "nproof")
    let tp ← getTP (p := p) r (← getEncTable (p := p) r nproof)
    let cs ← (List.range ncomm).mapM fun i => getComm r i
    let labels ← (List.range ncomm).mapM fun i => do asNats (← need r (key "label" i))
    let comms : List (LComm Dg) := (labels.zip cs).map fun (l, c) => ⟨l, c⟩
    let qs ← getQueriesT (p := p) kind (← need r "qs")
    let evals ← getEvalsT (p := p) kind (← need r "evals")
    let pk ← asNats (← need r "pk")
    let πs ← (List.range nproof).mapM fun i => do
      getProofT (p := p) r i (← asNats (← need r (key "proot" i)))
    pure <| exceptReply
      (TraitDefault.batchCheck ltPoint (fun (c : LComm Dg) => c.label) (checkF ro tp) comms qs evals
        (chunksBy pk πs) ([] : TLog (Fp p) Dg)) fun (b, s) => [("b", vBool b), ("log", vLog s)]
  | _ => .error "unknown-side"

/-- `none` = not an op of this module -/
def handle (p : Nat) (r : Req) : Option (Except String String) :=
  if r.op == "lincode.transcript" then some (handleTranscript (p := p) r)
  else if r.op == "lincode.setup" then some (handleSetup r)
  else if r.op.startsWith "lincode." then some (handleLC (p := p) r) else none

end DrvLinCode
end PCV
