/-
  PCV.Model.DrvLinCode — driver requests of the linear-code PCS model (`lincode.*`).

  The hash functions are abstract in the model, so the driver works on the algebraic part of the
  transcript: the harness evaluates the real hashes (`Path::verify`, the `leaf_index` comparison) and
  the real encoder, and passes the results as flags / encoded vectors; the driver runs the model's
  `openOne` / `checkAll` on an instance whose hashes are chosen so that `verifyPath` reproduces exactly
  the supplied flags.

  * `lincode.tensor   kind=0|1 point=[..] ncols= nrows=`                       → `a`, `b`
  * `lincode.open_alg kind= point= wf=0|1 nrows= ncols= mat=[[..]] next= ext=[[..]] r=[..] idxbytes=[[..]]`
        → `v`, `wf`, `columns`, `indices`, `leafidx`, `depth`
  * `lincode.check_alg kind= point= wf= ncomm= nval= nproof=` and, per position `i`:
        `nrows_i ncols_i next_i` (commitment), `value_i`, proof `v_i pwf_i cols_i leafok_i pathok_i`,
        transcript `r_i idxbytes_i`, encoder results `ev_i ewf_i` (`none` = the encoder refused)
        → `b` or `err <kind>`
-/
import PCV.Model.Wire
import PCV.Model.DrvUtil
import PCV.Model.LinCode
import PCV.Model.CalcT
namespace PCV
namespace DrvLinCode
open Driver LinCode Merkle

variable {p : Nat}

def asNatss (v : Val) : R (List (List Nat)) := do let xs ← asList v; xs.mapM asNats

def asOptFes (v : Val) : R (Option (List (Fp p))) := do
  match ← asOpt v with
  | none => pure none
  | some y => do let l ← asFes y; pure (some l)

def vOptFes (xs : Option (List (Fp p))) : Val :=
  match xs with | none => .none | some l => .some (vFes l)

def getPoint (r : Req) : R (Point (Fp p)) := do
  let kind ← asNat (← need r "kind")
  let pt ← asFes (← need r "point")
  if kind = 0 then
    match pt with
    | [z] => pure (.uni z)
    | _ => .error "univariate-point-must-have-one-entry"
  else pure (.ml pt)

/-- hashes under which `recomputeRoot` returns the path's `leafSibling` (paths without inner nodes) -/
def flagHashes : Hashes Nat := ⟨id, fun a b => a + b, fun a b => a + b, 0⟩

/-- a path that passes the position test iff `leafOk` and verifies against root `1` iff `pathOk` -/
def flagPath (q : Nat) (leafOk pathOk : Bool) : Path Nat :=
  ⟨if pathOk then 1 else 2, [], if leafOk then q else q + 1⟩

def flagPaths (qs : List Nat) (leafOk pathOk : List Bool) : List (Path Nat) :=
  (leafOk.zip pathOk).zipIdx.map fun (lp, j) => flagPath (qs.getD j 0) lp.1 lp.2

/-- encoder table: the harness supplies the real encoder's result on the vectors the verifier
encodes -/
def tableEnc (tbl : List (List (Fp p) × Option (List (Fp p)))) (x : List (Fp p)) :
    Except Err (List (Fp p)) :=
  match tbl.find? (fun e => e.1 == x) with
  | some (_, some w) => .ok w
  | some (_, none) => .error .encodingError
  | none => .error .abort

def key (k : String) (i : Nat) : String := k ++ "_" ++ toString i

def handleLC (r : Req) : R String := do
  match r.op with
  | "lincode.tensor" =>
    let point ← getPoint (p := p) r
    let ncols ← asNat (← need r "ncols")
    let nrows ← asNat (← need r "nrows")
    pure <| exceptReply (tensor point ncols nrows) fun ab => [("a", vFes ab.1), ("b", vFes ab.2)]
  | "lincode.open_alg" =>
    let point ← getPoint (p := p) r
    let wf ← asBool (← need r "wf")
    let nrows ← asNat (← need r "nrows")
    let ncols ← asNat (← need r "ncols")
    let next ← asNat (← need r "next")
    let mat ← asFess (← need r "mat")
    let ext ← asFess (← need r "ext")
    let rr ← asFes (← need r "r")
    let idxbytes ← asNatss (← need r "idxbytes")
    let indices := getIndices next idxbytes
    let pp : Params (Fp p) Nat :=
      { enc := fun _ => .error .abort, dims := fun _ => (nrows, ncols), colHash := fun _ => 0,
        hs := flagHashes, checkWf := wf }
    let st : State (Fp p) Nat := ⟨⟨mat.length, ncols, mat⟩, ⟨ext.length, next, ext⟩, List.replicate next 0⟩
    let c : Comm Nat := ⟨nrows, ncols, next, 0⟩
    pure <| exceptReply (openOne pp point c st ⟨rr, indices⟩) fun π =>
      [("v", vFes π.opening.v), ("wf", vOptFes π.wf),
       ("columns", .l (π.opening.columns.map vFes)), ("indices", vNats indices),
       ("leafidx", vNats (π.opening.paths.map (·.leafIndex))),
       ("depth", vNats (π.opening.paths.map fun q => q.authPath.length + 1))]
  | "lincode.check_alg" =>
    let point ← getPoint (p := p) r
    let wf ← asBool (← need r "wf")
    let ncomm ← asNat (← need r "ncomm")
    let nval ← asNat (← need r "nval")
    let nproof ← asNat (← need r "nproof")
    let comms ← (List.range ncomm).mapM fun i => do
      pure (⟨← asNat (← need r (key "nrows" i)), ← asNat (← need r (key "ncols" i)),
             ← asNat (← need r (key "next" i)), 1⟩ : Comm Nat)
    let vals ← (List.range nval).mapM fun i => do asFe (p := p) (← need r (key "value" i))
    -- transcript outputs: present for the positions the implementation reached
    let oracles ← (List.range (min ncomm nval)).mapM fun i => do
      match r.get? (key "idxbytes" i), comms[i]? with
      | some ib, some c => do
        let rr ← asFes (p := p) (← need r (key "r" i))
        let bytes ← asNatss ib
        pure (some (⟨rr, getIndices c.nExtCols bytes⟩ : Oracle (Fp p)))
      | _, _ => pure none
    -- positions the implementation never reached have no recorded outputs: an empty oracle there
    let os := oracles.map fun o => o.getD ⟨[], []⟩
    let proofs ← (List.range nproof).mapM fun i => do
      let v ← asFes (p := p) (← need r (key "v" i))
      let pwf ← asOptFes (p := p) (← need r (key "pwf" i))
      let cols ← asFess (p := p) (← need r (key "cols" i))
      let leafok ← (← asNats (← need r (key "leafok" i))).mapM fun x => pure (x != 0)
      let pathok ← (← asNats (← need r (key "pathok" i))).mapM fun x => pure (x != 0)
      let qs := match os[i]? with | some o => o.indices | none => []
      pure (⟨⟨flagPaths qs leafok pathok, v, cols⟩, pwf⟩ : Proof (Fp p) Nat)
    let tbl ← (List.range nproof).mapM fun i => do
      let v ← asFes (p := p) (← need r (key "v" i))
      let pwf ← asOptFes (p := p) (← need r (key "pwf" i))
      let ev ← match r.get? (key "ev" i) with
        | some x => asOptFes (p := p) x
        | none => pure none
      let ewf ← match r.get? (key "ewf" i) with
        | some x => asOptFes (p := p) x
        | none => pure none
      pure ([(v, ev)] ++ (match pwf with | some w => [(w, ewf)] | none => []))
    let pp : Params (Fp p) Nat :=
      { enc := tableEnc tbl.flatten, dims := fun _ => (0, 0), colHash := fun _ => 0,
        hs := flagHashes, checkWf := wf }
    pure <| exceptReply (checkAll pp point comms vals proofs os) fun b =>
      [("b", vBool b), ("indices", .l (os.map fun o => vNats o.indices))]
  | _ => .error "unknown-op"

/-- `none` = not an op of this module -/
def handle (p : Nat) (r : Req) : Option (Except String String) :=
  if r.op.startsWith "lincode." then some (handleLC (p := p) r) else none

end DrvLinCode
end PCV
