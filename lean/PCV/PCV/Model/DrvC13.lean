/-
  PCV.Model.DrvC13 — driver requests of property C13 (op names start with "c13.").
    c13.tspec      lam d0 d1 n q [hint]   -> ok t=some(k)|none          (`tSpec`, the specification)
    c13.calct      lam d0 d1 n q [hint]   -> ok t=k | err invalidParameters   (`calculate_t`)
    c13.bound      lam d0 d1 n q t        -> ok b=0|1
    c13.indices    n bytes=[[..],..]      -> ok idx=[..] nbytes=k
    c13.rs         msg omega len          -> ok cw=[..] len=k
    c13.dimensions N t                    -> ok n=.. m=..
    c13.brakedown  m mext adims bdims start stop amats bmats msg -> ok cw=[..] | err <kind>
-/
import PCV.Model.Wire
import PCV.Model.DrvUtil
import PCV.Model.CalcT
import PCV.Model.RS
import PCV.Model.Dimensions
import PCV.Model.BrakedownEnc
namespace PCV
namespace DrvC13
open Driver LinCode

variable {p : Nat}

def optNat (r : Req) (k : String) (d : Nat) : R Nat :=
  match r.get? k with
  | some v => asNat v
  | none => .ok d

def asPair (v : Val) : R (Nat × Nat) := do
  match ← asNats v with
  | [a, b] => pure (a, b)
  | _ => .error "expected-pair"

def asEntry (v : Val) : R (Nat × Fp p) := do
  match ← asList v with
  | [a, b] => pure (← asNat a, ← asFe b)
  | _ => .error "expected-entry"

def asMat (v : Val) : R (SprsMat (Fp p)) := do
  let cols ← (← asList v).mapM fun c => do (← asList c).mapM asEntry
  pure ⟨cols⟩

def asBParams (r : Req) : R (BParams (Fp p)) := do
  pure {
    m := ← asNat (← need r "m")
    mExt := ← asNat (← need r "mext")
    aDims := ← (← asList (← need r "adims")).mapM asPair
    bDims := ← (← asList (← need r "bdims")).mapM asPair
    start := ← asNats (← need r "start")
    stop := ← asNats (← need r "stop")
    aMats := ← (← asList (← need r "amats")).mapM asMat
    bMats := ← (← asList (← need r "bmats")).mapM asMat }

def vOptNat (x : Option Nat) : Val := match x with | none => .none | some y => .some (.n y)

def handle' (r : Req) : R String := do
  match r.op with
  | "c13.tspec" =>
    let lam ← asNat (← need r "lam"); let d0 ← asNat (← need r "d0"); let d1 ← asNat (← need r "d1")
    let n ← asNat (← need r "n"); let q ← asNat (← need r "q"); let hint ← optNat r "hint" 0
    pure <| okReply [("t", vOptNat (tSpecFast lam d0 d1 n q hint))]
  | "c13.calct" =>
    let lam ← asNat (← need r "lam"); let d0 ← asNat (← need r "d0"); let d1 ← asNat (← need r "d1")
    let n ← asNat (← need r "n"); let q ← asNat (← need r "q"); let hint ← optNat r "hint" 0
    pure <| exceptReply (calcT lam d0 d1 n q hint) fun t => [("t", .n t)]
  | "c13.bound" =>
    let lam ← asNat (← need r "lam"); let d0 ← asNat (← need r "d0"); let d1 ← asNat (← need r "d1")
    let n ← asNat (← need r "n"); let q ← asNat (← need r "q"); let t ← asNat (← need r "t")
    pure <| okReply [("b", vBool (boundHolds lam d0 d1 n q t))]
  | "c13.indices" =>
    let n ← asNat (← need r "n")
    let bytes ← (← asList (← need r "bytes")).mapM asNats
    if n = 0 then pure (errReply .abort)   -- `ind % 0` panics
    else pure <| okReply [("idx", vNats (getIndices n bytes)), ("nbytes", .n (getNumBytes n))]
  | "c13.rs" =>
    let msg ← asFes (p := p) (← need r "msg")
    let ω ← asFe (p := p) (← need r "omega")
    let len ← asNat (← need r "len")
    let cw := rsEncode ω len msg
    pure <| okReply [("cw", vFes cw), ("len", .n cw.length)]
  | "c13.dimensions" =>
    let N ← asNat (← need r "N"); let t ← asNat (← need r "t")
    if t = 0 then pure (errReply .abort)   -- `ceil_div(_, 0)` divides by zero
    else
      let d := computeDimensions N t
      pure <| okReply [("n", .n d.1), ("m", .n d.2)]
  | "c13.brakedown" =>
    let pp ← asBParams (p := p) r
    let msg ← asFes (p := p) (← need r "msg")
    pure <| exceptReply (encode pp msg) fun cw => [("cw", vFes cw), ("len", .n cw.length)]
  | _ => .error "unknown-op"

/-- `none` = not an op of this module -/
def handle (p : Nat) (r : Req) : Option (Except String String) :=
  if r.op.startsWith "c13." then some (handle' (p := p) r) else none

end DrvC13
end PCV
