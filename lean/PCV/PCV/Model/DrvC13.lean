/-
  PCV.Model.DrvC13 — driver requests of property C13 (op names start with "c13.").
-/
import PCV.Model.Wire
import PCV.Model.DrvUtil
namespace PCV
namespace DrvC13

/-- `none` = not an op of this module -/
def handle (p : Nat) (r : Req) : Option (Except String String) :=
  let _ := p
  let _ := r
  none

end DrvC13
end PCV
