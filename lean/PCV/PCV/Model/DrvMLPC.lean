/-
  PCV.Model.DrvMLPC — driver requests `mlpc.*` of the multilinear PST model (`PCV.Model.MLPC`).
  Universal parameters are given either by trapdoor (`nv g h t`: the driver runs the model's `setup`,
  so `setup` is exercised by every such request) or explicitly (`nv g h pg ph mask`).
    mlpc.setup   nv g h t                       -> nv g h mask pg ph (+ pg<i>, ph<i> per table)
    mlpc.tables  c t                            -> tables            (the `eq`-tensor specification)
    mlpc.trim    <pp> supported                 -> ck / vk fields
    mlpc.commit  <pp> supported pnv evals       -> cnv c
    mlpc.open    <pp> supported pnv evals point -> n proofs (+ pi<i>)
    mlpc.check   vnv g h mask cnv c point v proofs -> b          (scalar form, any key)
    mlpc.eval    evals point                    -> v                 (`mleEval`)
-/
import PCV.Model.Wire
import PCV.Model.DrvUtil
import PCV.Model.MLPC
namespace PCV
namespace DrvMLPC
open Driver MLPC

variable {p : Nat}

def vFess (xs : List (List (Fp p))) : Val := .l (xs.map vFes)

/-- numbered fields `k0=… k1=…` -/
def numbered (k : String) (vs : List Val) : List (String × Val) :=
  (List.range vs.length).zip vs |>.map fun (i, v) => (k ++ toString i, v)

def getPP (r : Req) : R (Except Err (UParams (Fp p))) := do
  let nv ← asNat (← need r "nv")
  let g ← asFe (p := p) (← need r "g")
  let h ← asFe (p := p) (← need r "h")
  match r.get? "pg" with
  | some pg =>
    let pg ← asFess (p := p) pg
    let ph ← asFess (p := p) (← need r "ph")
    let mask ← asFes (p := p) (← need r "mask")
    pure (.ok ⟨nv, pg, ph, g, h, mask⟩)
  | none =>
    let t ← asFes (p := p) (← need r "t")
    pure (setup nv g h t)

def ppFields (pp : UParams (Fp p)) : List (String × Val) :=
  [("nv", .n pp.numVars), ("g", vFe pp.g), ("h", vFe pp.h), ("mask", vFes pp.gMask),
   ("pg", vFess pp.powersOfG), ("ph", vFess pp.powersOfH)]
  ++ numbered "pg" (pp.powersOfG.map vFes) ++ numbered "ph" (pp.powersOfH.map vFes)

def handle (p : Nat) (r : Req) : Option (Except String String) :=
  if !r.op.startsWith "mlpc." then none else some do
  match r.op with
  | "mlpc.setup" =>
    let pp ← getPP (p := p) r
    pure <| exceptReply pp ppFields
  | "mlpc.tables" =>
    let c ← asFe (p := p) (← need r "c")
    let t ← asFes (p := p) (← need r "t")
    pure <| okReply ([("tables", vFess (tables c t))] ++ numbered "tb" ((tables c t).map vFes))
  | "mlpc.eval" =>
    let evals ← asFes (p := p) (← need r "evals")
    let point ← asFes (p := p) (← need r "point")
    pure <| okReply [("v", vFe (mleEval evals point))]
  | "mlpc.check" =>
    let vk : VK (Fp p) := ⟨← asNat (← need r "vnv"), ← asFe (← need r "g"), ← asFe (← need r "h"),
      ← asFes (← need r "mask")⟩
    let c : Commitment (Fp p) := ⟨← asNat (← need r "cnv"), ← asFe (← need r "c")⟩
    let point ← asFes (p := p) (← need r "point")
    let v ← asFe (p := p) (← need r "v")
    let proofs ← asFes (p := p) (← need r "proofs")
    pure <| exceptReply (check vk c point v proofs) fun b => [("b", vBool b)]
  | op =>
    let pp ← getPP (p := p) r
    match pp with
    | .error e => pure (errReply e)
    | .ok pp =>
    let supported ← asNat (← need r "supported")
    match trim pp supported with
    | .error e => pure (errReply e)
    | .ok (ck, vk) =>
    match op with
    | "mlpc.trim" =>
      pure <| okReply ([("cknv", .n ck.nv), ("ckg", vFe ck.g), ("ckh", vFe ck.h),
        ("ckpg", vFess ck.powersOfG), ("ckph", vFess ck.powersOfH),
        ("vknv", .n vk.nv), ("vkg", vFe vk.g), ("vkh", vFe vk.h), ("vkmask", vFes vk.gMaskRandom)]
        ++ numbered "ckpg" (ck.powersOfG.map vFes) ++ numbered "ckph" (ck.powersOfH.map vFes))
    | "mlpc.commit" =>
      let pnv ← asNat (← need r "pnv")
      let evals ← asFes (p := p) (← need r "evals")
      pure <| exceptReply (commit ck pnv evals) fun c => [("cnv", .n c.nv), ("c", vFe c.gProduct)]
    | "mlpc.open" =>
      let pnv ← asNat (← need r "pnv")
      let evals ← asFes (p := p) (← need r "evals")
      let point ← asFes (p := p) (← need r "point")
      pure <| exceptReply (MLPC.open ck pnv evals point) fun ps =>
        [("n", .n ps.length), ("proofs", vFes ps)] ++ numbered "pi" (ps.map vFe)
    | _ => .error "unknown-op"

end DrvMLPC
end PCV
