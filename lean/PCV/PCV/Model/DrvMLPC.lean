/-
  PCV.Model.DrvMLPC — driver requests of the MLPC scheme model (op names start with "mlpc.").
-/
import PCV.Model.Wire
import PCV.Model.DrvUtil
namespace PCV
namespace DrvMLPC

/-- `none` = not an op of this module -/
def handle (p : Nat) (r : Req) : Option (Except String String) :=
  let _ := p
  let _ := r
  none

end DrvMLPC
end PCV
