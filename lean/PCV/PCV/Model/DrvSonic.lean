/-
  PCV.Model.DrvSonic — driver requests of the Sonic scheme model (op names start with "sonic.").
-/
import PCV.Model.Wire
import PCV.Model.DrvUtil
namespace PCV
namespace DrvSonic

/-- `none` = not an op of this module -/
def handle (p : Nat) (r : Req) : Option (Except String String) :=
  let _ := p
  let _ := r
  none

end DrvSonic
end PCV
