/-
  PCV.Model.DrvSonic — driver requests `sonic.*`.  Every request carries the universal parameters
  (`pg`, `pgg`, `h`, `beta_h`, `neg_h`) and the trim arguments (`supported`, `shb`, `tbounds`); the
  driver runs the model's `trim` first, so `trim` is exercised by every case.
-/
import PCV.Model.Wire
import PCV.Model.DrvUtil
import PCV.Model.Sonic
import PCV.Model.SonicLC
namespace PCV
namespace DrvSonic
open Driver Sonic
open Marlin (Label LPoly Query)

variable {p : Nat}

def asLabel (v : Val) : R Label := asNats v
def asLabels (v : Val) : R (List Label) := do let xs ← asList v; xs.mapM asLabel
def asOptNats (v : Val) : R (List (Option Nat)) := do let xs ← asList v; xs.mapM asOptNat
def asOptFes (v : Val) : R (List (Option (Fp p))) := do let xs ← asList v; xs.mapM asOptFe

def vOptFes (xs : Option (List (Fp p))) : Val :=
  match xs with | none => .none | some l => .some (vFes l)
def vOptNats (xs : Option (List Nat)) : Val :=
  match xs with | none => .none | some l => .some (vNats l)

def getPP (r : Req) : R (UParams (Fp p)) := do
  pure ⟨← asFes (← need r "pg"), ← asFes (← need r "pgg"), ← asFe (← need r "h"),
        ← asFe (← need r "beta_h"), ← asFes (← need r "neg_h")⟩

def getTrim (r : Req) : R (Except Err (CK (Fp p) × VK (Fp p))) := do
  let pp ← getPP (p := p) r
  let supported ← asNat (← need r "supported")
  let shb ← asNat (← need r "shb")
  let bounds ← (do
    match ← asOpt (← need r "tbounds") with
    | none => pure none
    | some b => do let l ← asNats b; pure (some l) : R (Option (List Nat)))
  pure (trim pp supported shb bounds)

def getPolys (r : Req) : R (List (LPoly (Fp p))) := do
  let labels ← asLabels (← need r "labels")
  let polys ← asFess (← need r "polys")
  let bounds ← asOptNats (← need r "bounds")
  let hbs ← asOptNats (← need r "hbs")
  pure <| (labels.zip (polys.zip (bounds.zip hbs))).map fun (l, (q, (b, h))) => ⟨l, q, b, h⟩

def getComms (r : Req) : R (List (LComm (Fp p))) := do
  let labels ← asLabels (← need r "clabels")
  let cs ← asFes (← need r "cs")
  let bounds ← asOptNats (← need r "cbounds")
  pure <| (labels.zip (cs.zip bounds)).map fun (l, (c, b)) => ⟨l, c, b⟩

def getProofs (r : Req) : R (List (KZG.Proof (Fp p))) := do
  let ws ← asFes (← need r "ws")
  let rvs ← asOptFes (← need r "rvs")
  pure (List.zipWith (fun w rv => ⟨w, rv⟩) ws rvs)

def getQueries (r : Req) : R (List (Query (Fp p))) := do
  let ql ← asLabels (← need r "qlabels")
  let pl ← asLabels (← need r "qplabels")
  let pts ← asFes (← need r "qpoints")
  pure <| (ql.zip (pl.zip pts))

def getEvals (r : Req) : R (List ((Label × Fp p) × Fp p)) := do
  let el ← asLabels (← need r "elabels")
  let pts ← asFes (← need r "epoints")
  let vs ← asFes (← need r "evals")
  pure <| (el.zip (pts.zip vs)).map fun (l, (z, v)) => ((l, z), v)

def asNatss (v : Val) : R (List (List Nat)) := do let xs ← asList v; xs.mapM asNats
def asLabelss (v : Val) : R (List (List Label)) := do let xs ← asList v; xs.mapM asLabels

/-- linear combinations: `lclabels`, `lccoeffs`, `lcone` (1 = constant term), `lcterms` (label bytes) -/
def getLCs (r : Req) : R (List (LC.LinComb (Fp p))) := do
  let labels ← asLabels (← need r "lclabels")
  let coeffs ← asFess (← need r "lccoeffs")
  let ones ← asNatss (← need r "lcone")
  let terms ← asLabelss (← need r "lcterms")
  pure <| (labels.zip (coeffs.zip (ones.zip terms))).map fun (l, (cs, (os, ts))) =>
    ⟨l, (cs.zip (os.zip ts)).map fun (c, (o, t)) => (c, if o != 0 then LC.LCTerm.one else LC.LCTerm.poly t)⟩

/-- the outcome class of a call as label bytes: `answered` or the model's error name
(the C06 policy errors are compared by kind) -/
def kindReply {α} (x : Except Err α) : String :=
  let name := match x with | .ok _ => "answered" | .error e => e.name
  okReply [("kind", vNats (name.toUTF8.toList.map (·.toNat)))]

/-- optional overrides of verifier-key elements (C10's key mutations) -/
def overrideVK (r : Req) (vk : VK (Fp p)) : R (VK (Fp p)) := do
  let fe (k : String) (d : Fp p) : R (Fp p) :=
    match r.get? k with
    | none => pure d
    | some v => asFe v
  let g ← fe "vk_g" vk.g
  let gg ← fe "vk_gamma_g" vk.gammaG
  let h ← fe "vk_h" vk.h
  let bh ← fe "vk_beta_h" vk.betaH
  let negH ← (match r.get? "vk_neg_h" with
    | none => pure vk.negH
    | some v => do
      let xs ← asFes v
      pure (vk.negH.map fun l => (l.zip xs).map fun (e, x) => (e.1, x)) : R (Option (List (Nat × Fp p))))
  pure { vk with g := g, gammaG := gg, h := h, betaH := bh, negH := negH }

/-- numbered fields `k0, k1, …` -/
def numbered (k : String) (vs : List Val) : List (String × Val) :=
  (List.range vs.length).zip vs |>.map fun (i, v) => (k ++ toString i, v)

def vProofs (πs : List (KZG.Proof (Fp p))) : List (String × Val) :=
  [("ws", vFes (πs.map (·.w))), ("rvs", .l (πs.map fun π => vOptFe π.rv))]

def handle (p : Nat) (r : Req) : Option (Except String String) :=
  if !r.op.startsWith "sonic." then none else some do
  let t ← getTrim (p := p) r
  match t with
  | .error e => pure (errReply e)
  | .ok (ck, vk0) =>
  let vk ← overrideVK r vk0
  match r.op with
  | "sonic.trim" =>
    let sg := ck.shiftedGamma.getD []
    let nh := vk.negH.getD []
    pure <| okReply ([("powers", vFes ck.powers), ("gamma", vFes ck.gammaPowers),
      ("shifted", vOptFes ck.shiftedPowers), ("bounds", vOptNats ck.bounds),
      ("max_degree", .n ck.maxDegree), ("ck_supported", .n ck.supportedDegree),
      ("g", vFe vk.g), ("gamma_g", vFe vk.gammaG), ("vh", vFe vk.h), ("vbeta_h", vFe vk.betaH),
      ("supported", .n vk.supported), ("vk_max_degree", .n vk.maxDegree),
      ("sg_bounds", match ck.shiftedGamma with | none => .none | some l => .some (vNats (l.map (·.1)))),
      ("nh_bounds", match vk.negH with | none => .none | some l => .some (vNats (l.map (·.1))))]
      ++ numbered "sg" (sg.map fun e => vFes e.2) ++ numbered "nh" (nh.map fun e => vFe e.2))
  | "sonic.commit" =>
    let polys ← getPolys (p := p) r
    let rng ← asBool (← need r "rng")
    let draws ← asFes (← need r "draws")
    pure <| exceptReply (commit ck polys rng draws) fun (cs, rs, rest) =>
      [("cs", vFes (cs.map (·.comm))), ("cbounds", .l (cs.map fun c => match c.bound with
          | none => .none | some d => .some (.n d))),
       ("rands", .l (rs.map fun x => vFes x)),
       ("used", .n (draws.length - rest.length))]
  | "sonic.open" =>
    let polys ← getPolys (p := p) r
    let rands ← asFess (← need r "rands")
    let z ← asFe (← need r "z")
    let ξs ← asFes (← need r "xis")
    pure <| exceptReply (Sonic.open ck polys z rands ξs) fun (π, rest) =>
      [("w", vFe π.w), ("rv", vOptFe π.rv), ("used", .n (ξs.length - rest.length))]
  | "sonic.check" =>
    let comms ← getComms (p := p) r
    let z ← asFe (← need r "z")
    let vs ← asFes (← need r "vs")
    let π : KZG.Proof (Fp p) := ⟨← asFe (← need r "w"), ← asOptFe (← need r "rv")⟩
    let ξs ← asFes (← need r "xis")
    pure <| exceptReply (check vk comms z vs π ξs) fun (b, rest) =>
      [("b", vBool b), ("used", .n (ξs.length - rest.length)),
       ("defect_zero", vBool (decide (defect vk comms z vs π ξs = 0)))]
  | "sonic.batch_open" =>
    let polys ← getPolys (p := p) r
    let rands ← asFess (← need r "rands")
    let qs ← getQueries (p := p) r
    let ξs ← asFes (← need r "xis")
    pure <| exceptReply (batchOpen ck polys rands qs ξs) fun (πs, rest) =>
      vProofs πs ++ [("used", .n (ξs.length - rest.length))]
  | "sonic.batch_check" =>
    let comms ← getComms (p := p) r
    let qs ← getQueries (p := p) r
    let evals ← getEvals (p := p) r
    let πs ← getProofs (p := p) r
    let ξs ← asFes (← need r "xis")
    let rs ← asFes (← need r "rs")
    pure <| exceptReply (batchCheck vk comms qs evals πs ξs rs) fun b =>
      [("b", vBool b), ("used", .n (match batchCheckT vk comms qs evals πs ξs rs with
        | .ok (_, rest) => ξs.length - rest.length | .error _ => 0))]
  | "sonic.open_combinations" | "sonic.open_combinations_kind" =>
    let polys ← getPolys (p := p) r
    let rands ← asFess (← need r "rands")
    let comms ← getComms (p := p) r
    let lcs ← getLCs (p := p) r
    let qs ← getQueries (p := p) r
    let ξs ← asFes (← need r "xis")
    let res := openCombinations ck polys rands comms lcs qs ξs
    if r.op == "sonic.open_combinations_kind" then pure (kindReply res) else
    -- the combined commitments are reported next to the proofs
    let lcc : List (LComm (Fp p)) := match combineAll (labelMap polys rands comms) lcs with
      | .ok ts => ts.map fun (t : Trip (Fp p)) => t.2.2
      | .error _ => []
    pure <| exceptReply res fun (πs, rest) =>
      vProofs πs ++ [("used", .n (ξs.length - rest.length)), ("lccs", vFes (lcc.map (·.comm))),
        ("lcbounds", .l (lcc.map fun c => match c.bound with | none => .none | some d => .some (.n d)))]
  | "sonic.check_combinations" | "sonic.check_combinations_kind" =>
    let comms ← getComms (p := p) r
    let lcs ← getLCs (p := p) r
    let qs ← getQueries (p := p) r
    let evals ← getEvals (p := p) r
    let πs ← getProofs (p := p) r
    let ξs ← asFes (← need r "xis")
    let rs ← asFes (← need r "rs")
    let res := checkCombinations vk comms lcs qs evals πs ξs rs
    if r.op == "sonic.check_combinations_kind" then pure (kindReply res) else
    let lcc : List (LComm (Fp p)) := match combineAllV comms lcs evals with
      | .ok (cs, _) => cs
      | .error _ => []
    pure <| exceptReply res fun b =>
      [("b", vBool b), ("used", .n (match checkCombinationsT vk comms lcs qs evals πs ξs rs with
        | .ok (_, rest) => ξs.length - rest.length | .error _ => 0)),
       ("lccs", vFes (lcc.map (·.comm))),
       ("lcbounds", .l (lcc.map fun c => match c.bound with | none => .none | some d => .some (.n d)))]
  | _ => .error "unknown-op"

end DrvSonic
end PCV
