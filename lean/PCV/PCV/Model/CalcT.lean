/-
  PCV.Model.CalcT — number and positions of the opened columns of a linear-code proof
  (`poly-commit/src/linear_codes/utils.rs`: `calculate_t`, `get_num_bytes`,
  `get_indices_from_sponge`).  Core Lean only, exact arithmetic in ℕ.

  `calculate_t` itself is f64 code; what is modelled here is the quantity it is meant to compute:
  the least `t` with `2·(1 − d/2)^t + n/q ≤ 2^(−λ)` (`d = d0/d1`, `q` = field size), capped at `n`.
  The f64 code is tied to this specification by the correspondence run of C13.
-/
import PCV.Model.Basic
namespace PCV
namespace LinCode

/-- The soundness bound `2·(1 − d/2)^t + n/q ≤ 2^(−lam)` for `d = d0/d1`, all denominators cleared
(multiply by `(2·d1)^t · q · 2^lam`).  For `d0 ≤ 2·d1`, `0 < d1`, `0 < q` this is equivalent to the
rational inequality (`Proofs/CalcT.lean`, `boundHolds_iff_rat`). -/
def boundHolds (lam d0 d1 n q t : Nat) : Bool :=
  let bt := (2 * d1) ^ t   -- shared: the powers have tens of thousands of bits for small distances
  decide (2 * (2 * d1 - d0) ^ t * q * 2 ^ lam + n * bt * 2 ^ lam ≤ bt * q)

/-- least `k ∈ [t, t + fuel)` with `p k` -/
def findFrom (p : Nat → Bool) : Nat → Nat → Option Nat
  | 0, _ => none
  | fuel + 1, t => if p t then some t else findFrom p fuel (t + 1)

/-- Search cap.  If the bound holds for some `t` at all (with `0 < d0 < 2·d1`, `0 < q`), it holds at
`tCap`: `(2d1/(2d1−d0))^(2d1−1) ≥ (1 + 1/(2d1−1))^(2d1−1) ≥ 2`, hence after
`(2d1−1)·(lam + log₂q + 2)` steps the first term has dropped below `(q − n·2^lam)/(q·2^lam)`
(`Proofs/CalcT.lean`, `bound_at_cap`). -/
def tCap (lam d1 q : Nat) : Nat := 2 * d1 * (lam + Nat.log2 q + 2)

/-- The least `t` satisfying the bound (searched in `[0, tCap]`), `none` when there is none. -/
def tLeast (lam d0 d1 n q : Nat) : Option Nat :=
  findFrom (boundHolds lam d0 d1 n q) (tCap lam d1 q + 1) 0

def capAt (n t : Nat) : Nat := if t < n then t else n

/-- **Specification of `calculate_t`**: the least `t` with the bound, capped at the codeword length
(`Ok(if t < codeword_len { t } else { codeword_len })`); `none` = the code's `Err`. -/
def tSpec (lam d0 d1 n q : Nat) : Option Nat := (tLeast lam d0 d1 n q).map (capAt n)

/-- parameter combinations `calculate_t` refuses before/after looking at the bound:
`distance.1 = 0`, `d = 0` (`log2 1 = 0` is not normal), `d ≥ 2` (`log2` of a non-positive number) -/
def distanceUsable (d0 d1 : Nat) : Bool := decide (0 < d1) && decide (0 < d0) && decide (d0 < 2 * d1)

/-! ### fast evaluation (certified): the driver must answer thousands of requests with `t` in the
thousands, so the linear search of `tLeast` is replaced by candidate + certificate.  A candidate `c`
is accepted iff `bound c ∧ ¬ bound (c−1) ∧ c ≤ tCap`, which pins down `tLeast` by monotonicity
(`tLeastFast_eq`). -/

def certified (p : Nat → Bool) (cap c : Nat) : Bool :=
  decide (c ≤ cap) && p c && (c == 0 || !p (c - 1))

/-- candidates above this size are not evaluated (`(2·d1)^t` would not fit in memory) -/
def hintLimit : Nat := 2 ^ 20

/-- first `2^k·start` (k ≤ fuel) at which `p` holds; never evaluates `p` beyond `cap` -/
def expUp (p : Nat → Bool) (cap : Nat) : Nat → Nat → Nat
  | 0, hi => hi
  | fuel + 1, hi => if cap < hi then hi else if p hi then hi else expUp p cap fuel (2 * hi)

/-- binary search for the boundary in `(lo, hi]` (`p hi`, `¬ p lo` expected) -/
def bisect (p : Nat → Bool) : Nat → Nat → Nat → Nat
  | 0, _, hi => hi
  | fuel + 1, lo, hi =>
    if hi ≤ lo + 1 then hi
    else
      let mid := (lo + hi) / 2
      if p mid then bisect p fuel lo mid else bisect p fuel mid hi

def searchCand (p : Nat → Bool) (cap : Nat) : Nat :=
  if p 0 then 0
  else
    let hi := expUp p cap 64 1
    bisect p 64 (hi / 2) hi

/-- no `t` can exist: the residual `n/q` alone reaches `2^(−lam)`, or the distance is zero
(`noneCert_sound`) -/
def noneCert (lam d0 d1 n q : Nat) : Bool :=
  decide (0 < d1) &&
    (decide (q < n * 2 ^ lam) ||
      (decide (0 < q) && (decide (d0 = 0) || (decide (d0 < 2 * d1) && decide (q ≤ n * 2 ^ lam)))))

def tLeastFast (lam d0 d1 n q hint : Nat) : Option Nat :=
  let p := boundHolds lam d0 d1 n q
  let cap := tCap lam d1 q
  if noneCert lam d0 d1 n q then none
  else if decide (hint ≤ hintLimit) && certified p cap hint then some hint
  else
    let c := searchCand p cap
    if certified p cap c then some c else tLeast lam d0 d1 n q

/-- the cap is active: a `t` exists but `n − 1` openings do not suffice, so `min t n = n`
(certificate for short codewords, where the least `t` itself is expensive to locate) -/
def cappedCert (lam d0 d1 n q : Nat) : Bool :=
  decide (n ≤ hintLimit) && distanceUsable d0 d1 && decide (0 < q) && decide (0 < n) &&
    !noneCert lam d0 d1 n q &&
    !boundHolds lam d0 d1 n q (n - 1)

def tSpecFast (lam d0 d1 n q hint : Nat) : Option Nat :=
  if decide (hint = n) && cappedCert lam d0 d1 n q then some n
  else (tLeastFast lam d0 d1 n q hint).map (capAt n)

/-- Model of `calculate_t::<F>(lam, (d0, d1), n)` with `q = |F|`: `InvalidParameters` for an
unusable distance or when no `t` exists. `hint` only speeds up the evaluation. -/
def calcT (lam d0 d1 n q hint : Nat) : Except Err Nat :=
  if distanceUsable d0 d1 then
    match tSpecFast lam d0 d1 n q hint with
    | some t => .ok t
    | none => .error .invalidParameters
  else .error .invalidParameters

/-! ### positions -/

/-- bit length (`usize::BITS - n.leading_zeros()`) -/
def bitLen : Nat → Nat
  | 0 => 0
  | n + 1 => Nat.log2 (n + 1) + 1

def ceilDiv (x y : Nat) : Nat := (x + y - 1) / y

/-- `ceil_mul(a, (b0, b1))` -/
def ceilMul (a b0 b1 : Nat) : Nat := (a * b0 + b1 - 1) / b1

/-- `get_num_bytes(n)`: bytes squeezed per index -/
def getNumBytes (n : Nat) : Nat := ceilDiv (bitLen n) 8

/-- `bytes.iter().fold(0, |acc, x| (acc << 8) + x) % n` -/
def indexOfBytes (n : Nat) (bytes : List Nat) : Nat :=
  (bytes.foldl (fun acc x => acc * 256 + x) 0) % n

/-- `get_indices_from_sponge(n, t, sponge)` given the `t` squeezed byte strings -/
def getIndices (n : Nat) (squeezes : List (List Nat)) : List Nat :=
  squeezes.map (indexOfBytes n)

/-- The column positions of one opening (`generate_proof` / `check` in `linear_codes/mod.rs`):
`t = calculate_t(λ, d, n_ext_cols)?`, then `t` squeezes of `get_num_bytes(n_ext_cols)` bytes each
(`squeezes` = the byte strings the sponge will return, oracle-passing style), each reduced mod
`n_ext_cols`.  Returns the positions and the unread rest of the stream. -/
def openedPositions (lam d0 d1 nExt q hint : Nat) (squeezes : List (List Nat)) :
    Except Err (List Nat × List (List Nat)) :=
  match calcT lam d0 d1 nExt q hint with
  | .error e => .error e
  | .ok t => .ok (getIndices nExt (squeezes.take t), squeezes.drop t)

end LinCode
end PCV
