/-
  PCV.Model.BrakedownEnc — the Brakedown row encoder
  (`linear_codes/multilinear_brakedown/mod.rs::encode`, `naive_reed_solomon`;
   `linear_codes/utils.rs::SprsMat::row_mul`; tables from `brakedown.rs::BrakedownPCParams::new`).
  The Rust code unrolls the recursion of the paper into three passes over one buffer `cw`:
    1. forward:  for each level `i`, append `cw[startᵢ − rowsᵢ .. startᵢ] · Aᵢ`;
    2. base:     pad to `m_ext`, overwrite `cw[rss..rsoe]` by the evaluations at `1, 2, …` of the
                 polynomial with coefficients `cw[rss..rsie]` (naive Reed–Solomon);
    3. backward: for each level `i` (in the order of the tables), write `cw[startᵢ..endᵢ] · Bᵢ` to
                 `cw[endᵢ .. endᵢ + colsᵢ]`.
  Core Lean only; sparse matrices are abstract (column lists of `(row, value)` entries).
-/
import PCV.Model.RS
namespace PCV
namespace LinCode

variable {F : Type} [Add F] [Mul F] [Sub F] [Neg F] [Zero F] [One F]

/-- `SprsMat` (CSC): for each column the `(row index, value)` pairs of its stored entries -/
structure SprsMat (F : Type) where
  cols : List (List (Nat × F))
  deriving DecidableEq, Repr

/-- one output coordinate of `row_mul`: `Σ v[idx]·x` over the stored entries of the column -/
def colDot (v : List F) (col : List (Nat × F)) : F := lsum (col.map fun e => getD' v e.1 0 * e.2)

/-- `SprsMat::row_mul(v) = v·M` -/
def SprsMat.rowMul (M : SprsMat F) (v : List F) : List F := M.cols.map (colDot v)

/-- every stored row index is `< rows` (otherwise `v[idx]` panics) -/
def SprsMat.fits (M : SprsMat F) (rows : Nat) : Bool :=
  M.cols.all fun col => col.all fun e => decide (e.1 < rows)

/-- the fields of `BrakedownPCParams` the encoder reads (`a_dims`/`b_dims` without the nnz count) -/
structure BParams (F : Type) where
  m : Nat
  mExt : Nat
  aDims : List (Nat × Nat)
  bDims : List (Nat × Nat)
  start : List Nat
  stop : List Nat
  aMats : List (SprsMat F)
  bMats : List (SprsMat F)

/-- `Vec::resize(k, 0)` -/
def padTo (k : Nat) (cw : List F) : List F := cw.take k ++ List.replicate (k - cw.length) 0

/-- `cw[e .. e + src.len()].copy_from_slice(src)` -/
def setSlice (cw : List F) (e : Nat) (src : List F) : List F :=
  cw.take e ++ src ++ cw.drop (e + src.length)

/-- `x, x+1, x+2, …` (`k` entries): the evaluation points of `naive_reed_solomon` for `x = 1` -/
def ptsFrom (x : F) : Nat → List F
  | 0 => []
  | k + 1 => x :: ptsFrom (x + 1) k

/-- `naive_reed_solomon(cw, s, ie, oe)` -/
def naiveRS (cw : List F) (s ie oe : Nat) : List F :=
  setSlice cw s (evalAt (ptsFrom 1 (oe - s)) (slice cw s ie))

/-- forward pass over the levels `(startᵢ, rowsᵢ, Aᵢ)` -/
def fwdPass : List (Nat × Nat × SprsMat F) → List F → List F
  | [], cw => cw
  | (s, an, A) :: rest, cw => fwdPass rest (cw ++ A.rowMul (slice cw (s - an) s))

/-- backward pass over the levels `(startᵢ, endᵢ, Bᵢ)`, in table order -/
def bwdPass : List (Nat × Nat × SprsMat F) → List F → List F
  | [], cw => cw
  | (s, e, B) :: rest, cw => bwdPass rest (setSlice cw e (B.rowMul (slice cw s e)))

def fwdSteps (pp : BParams F) : List (Nat × Nat × SprsMat F) :=
  List.zipWith (fun s (x : (Nat × Nat) × SprsMat F) => (s, x.1.1, x.2)) pp.start (pp.aDims.zip pp.aMats)

def bwdSteps (pp : BParams F) : List (Nat × Nat × SprsMat F) :=
  List.zipWith (fun (se : Nat × Nat) B => (se.1, se.2, B)) (pp.start.zip pp.stop) pp.bMats

def rsStart (pp : BParams F) : Nat := pp.start.getLast?.getD 0
def rsInEnd (pp : BParams F) : Nat := rsStart pp + (pp.aDims.getLast?.getD (0, pp.m)).2
def rsOutEnd (pp : BParams F) : Nat := pp.stop.getLast?.getD pp.mExt

/-- the three passes, without the checks -/
def encodeCore (pp : BParams F) (msg : List F) : List F :=
  let cw := fwdPass (fwdSteps pp) msg
  let cw := padTo pp.mExt cw
  let cw := naiveRS cw (rsStart pp) (rsInEnd pp) (rsOutEnd pp)
  bwdPass (bwdSteps pp) cw

/-! #### index discipline (the places where the Rust code would panic) -/

def fwdOk : List (Nat × Nat × SprsMat F) → Nat → Option Nat
  | [], len => some len
  | (s, an, A) :: rest, len =>
    if an ≤ s ∧ s ≤ len ∧ A.fits an = true then fwdOk rest (len + A.cols.length) else none

def bwdOk (mExt : Nat) : List ((Nat × Nat × SprsMat F) × Nat) → Bool
  | [] => true
  | ((s, e, B), bc) :: rest =>
    decide (s ≤ e ∧ e + bc ≤ mExt ∧ B.cols.length = bc) && B.fits (e - s) && bwdOk mExt rest

/-- the parameter tables are consistent: no slice or index of `encode` is out of range for a
message of length `m` -/
def shapeOk (pp : BParams F) : Bool :=
  decide (pp.start.length ≤ pp.aDims.length ∧ pp.start.length ≤ pp.aMats.length ∧
          min pp.start.length pp.stop.length ≤ pp.bMats.length ∧
          min pp.start.length pp.stop.length ≤ pp.bDims.length) &&
  (fwdOk (fwdSteps pp) pp.m).isSome &&
  decide (rsStart pp ≤ rsInEnd pp ∧ rsInEnd pp ≤ pp.mExt ∧ rsStart pp ≤ rsOutEnd pp ∧
          rsOutEnd pp ≤ pp.mExt) &&
  bwdOk pp.mExt ((bwdSteps pp).zip (pp.bDims.map (·.2)))

/-- `MultilinearBrakedown::encode(msg, pp)`: `EncodingError` for a message of the wrong length,
abort for inconsistent tables, otherwise the codeword (`m_ext` entries, `encodeCore_length`). -/
def encode (pp : BParams F) (msg : List F) : Except Err (List F) :=
  if msg.length ≠ pp.m then .error .encodingError
  else if shapeOk pp then .ok (encodeCore pp msg)
  else .error .abort

end LinCode
end PCV
