/-
  PCV.Model.DrvC19 — driver requests of property C19 (op names start with "c19.").
-/
import PCV.Model.Wire
import PCV.Model.DrvUtil
namespace PCV
namespace DrvC19

/-- `none` = not an op of this module -/
def handle (p : Nat) (r : Req) : Option (Except String String) :=
  let _ := p
  let _ := r
  none

end DrvC19
end PCV
