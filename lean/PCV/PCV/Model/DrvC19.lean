/-
  PCV.Model.DrvC19 — driver requests of property C19 (op names start with "c19.").
    c19.dimensions N t [c] -> ok n=.. m=.. cost=..   (`computeDimensions`, `proofCost N t c n`; c = 2 by default)
    c19.cost       N t c np -> ok cost=..             (`proofCost N t c np` for an alternative row count)
-/
import PCV.Model.Wire
import PCV.Model.DrvUtil
import PCV.Model.Dimensions
namespace PCV
namespace DrvC19
open Driver LinCode

def handle' (r : Req) : R String := do
  match r.op with
  | "c19.dimensions" =>
    let N ← asNat (← need r "N"); let t ← asNat (← need r "t")
    let c ← match r.get? "c" with | some v => asNat v | none => pure 2
    if t = 0 then pure (errReply .abort)
    else
      let d := computeDimensions N t
      pure <| okReply [("n", .n d.1), ("m", .n d.2), ("cost", .n (proofCost N t c d.1))]
  | "c19.cost" =>
    let N ← asNat (← need r "N"); let t ← asNat (← need r "t")
    let c ← asNat (← need r "c"); let np ← asNat (← need r "np")
    if np = 0 then pure (errReply .abort)
    else pure <| okReply [("cost", .n (proofCost N t c np))]
  | _ => .error "unknown-op"

/-- `none` = not an op of this module -/
def handle (p : Nat) (r : Req) : Option (Except String String) :=
  let _ := p
  if r.op = "c19.dimensions" ∨ r.op = "c19.cost" then some (handle' r) else none

end DrvC19
end PCV
