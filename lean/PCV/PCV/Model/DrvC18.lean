/-
  PCV.Model.DrvC18 — driver requests of property C18 (op names start with "c18.").
-/
import PCV.Model.Wire
import PCV.Model.DrvUtil
namespace PCV
namespace DrvC18

/-- `none` = not an op of this module -/
def handle (p : Nat) (r : Req) : Option (Except String String) :=
  let _ := p
  let _ := r
  none

end DrvC18
end PCV
