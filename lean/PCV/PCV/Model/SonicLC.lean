/-
  PCV.Model.SonicLC — SonicKZG10's OWN `open_combinations` / `check_combinations`
  (`poly-commit/src/sonic_pc/mod.rs`), in exponent form.

  Differences to `Marlin::open_combinations` that the model keeps:
  * a combined commitment is ONE group element; it carries a degree bound only when the combination
    has exactly one term (`lc.len() == 1`, constants counted), that term names a degree-bounded
    polynomial and its coefficient is one (`assert!`, otherwise a panic);
  * a degree-bounded polynomial in a combination with any other term is refused with
    `EquationHasDegreeBounds` — by the prover (reading the polynomial's bound) and by the verifier
    (reading the commitment's bound);
  * the prover skips constant terms; the verifier subtracts each constant from every claimed value
    carrying the combination's label (`evaluations.iter_mut()`), term by term;
  * the combined polynomials / states / commitments go through the trait-default `batch_open` and
    Sonic's `batch_check`.
  Also here: `batch_check` / `check_combinations` in a form that returns the challenges the sponge
  still holds (`…T`), so that histories of operations on one sponge can be stated (C11).
-/
import PCV.Model.Sonic
import PCV.Model.LC
namespace PCV
namespace Sonic
open Marlin (Label LPoly Query groupQueries lookupLast lookupEval)

variable {F : Type} [Add F] [Mul F] [Sub F] [Neg F] [Zero F] [One F] [DecidableEq F]

/-- `core::cmp::max` on `Option<usize>` (`Some(_) > None`) -/
def maxHiding : Option Nat → Option Nat → Option Nat
  | none, b => b
  | a, none => a
  | some a, some b => some (max a b)

/-- the per-combination accumulators of `open_combinations`:
`poly`, `degree_bound`, `hiding_bound`, `state` (blinding polynomial), `comm` -/
structure LCAcc (F : Type) where
  poly : List F
  bound : Option Nat
  hb : Option Nat
  rand : List F
  comm : F
  deriving DecidableEq, Repr

/-- `P::zero()`, `None`, `None`, `CommitmentState::empty()`, `G1::zero()` -/
def LCAcc.init : LCAcc F := ⟨[], none, none, [], 0⟩

/-- polynomial, its state, its commitment: one value of `label_map` -/
abbrev Trip (F : Type) := LPoly F × List F × LComm F

/-- `poly += (coeff, cur_poly)`, `state += (coeff, cur_state)`, `comm += curr_comm·coeff`,
`hiding_bound = max(hiding_bound, cur_poly.hiding_bound())` -/
def LCAcc.addTerm (a : LCAcc F) (coeff : F) (t : Trip F) : LCAcc F :=
  { a with hb := maxHiding a.hb t.1.hb,
           poly := padd a.poly (pscale coeff t.1.poly),
           rand := padd a.rand (pscale coeff t.2.1),
           comm := a.comm + coeff * t.2.2.comm }

/-- one term of a combination in the prover's loop
(`for (coeff, label) in lc.iter().filter(|(_, l)| !l.is_one())`); `numTerms = lc.len()` counts the
constant terms too -/
def lcStep (trips : List (Trip F)) (numTerms : Nat) (acc : LCAcc F) (term : F × LC.LCTerm) :
    Except Err (LCAcc F) :=
  match term.2 with
  | .one => .ok acc                                  -- filtered out
  | .poly l =>
    match lookupLast (fun (t : Trip F) => t.1.label) l trips with
    | none => .error .missingPolynomial
    | some t =>
      if numTerms = 1 ∧ t.1.bound.isSome then
        if term.1 ≠ 1 then .error .abort             -- assert!(coeff.is_one(), …)
        else .ok ({ acc with bound := t.1.bound }.addTerm term.1 t)
      else if t.1.bound.isSome then .error .equationHasDegreeBounds
      else .ok (acc.addTerm term.1 t)

/-- the prover's loop over the terms of one combination -/
def lcLoop (trips : List (Trip F)) (numTerms : Nat) : LCAcc F → List (F × LC.LCTerm) →
    Except Err (LCAcc F)
  | acc, [] => .ok acc
  | acc, t :: ts =>
    match lcStep trips numTerms acc t with
    | .error e => .error e
    | .ok acc' => lcLoop trips numTerms acc' ts

/-- one combination as (labelled polynomial, state, labelled commitment):
`lc_polynomials.push(..)`, `lc_states.push(..)`, `lc_commitments` / `lc_info` -/
def combineLC (trips : List (Trip F)) (lc : LC.LinComb F) : Except Err (Trip F) :=
  match lcLoop trips lc.terms.length LCAcc.init lc.terms with
  | .error e => .error e
  | .ok a => .ok (⟨lc.label, a.poly, a.bound, a.hb⟩, a.rand, ⟨lc.label, a.comm, a.bound⟩)

/-- the outer loop `for lc in linear_combinations` of `open_combinations` -/
def combineAll (trips : List (Trip F)) : List (LC.LinComb F) → Except Err (List (Trip F))
  | [] => .ok []
  | lc :: lcs =>
    match combineLC trips lc with
    | .error e => .error e
    | .ok t =>
      match combineAll trips lcs with
      | .error e => .error e
      | .ok ts => .ok (t :: ts)

/-- `label_map`: `polynomials.zip(states).zip(commitments)` keyed by the polynomial's label -/
def labelMap (polys : List (LPoly F)) (sts : List (List F)) (comms : List (LComm F)) :
    List (Trip F) := polys.zip (sts.zip comms)

/-- `SonicKZG10::open_combinations`: combine, then the trait-default `batch_open` over the
combinations (`evals: None`) -/
def openCombinations (ck : CK F) (polys : List (LPoly F)) (sts : List (List F))
    (comms : List (LComm F)) (lcs : List (LC.LinComb F)) (qs : List (Query F)) (ξs : List F) :
    Except Err (List (KZG.Proof F) × List F) :=
  match combineAll (labelMap polys sts comms) lcs with
  | .error e => .error e
  | .ok ts => batchOpen ck (ts.map (·.1)) (ts.map (·.2.1)) qs ξs

/-! ### verifier -/

/-- `for (&(ref label, _), ref mut eval) in evaluations.iter_mut() { if label == &lc_label { **eval -= coeff } }` -/
def subConst (lcLabel : Label) (coeff : F) (evals : List ((Label × F) × F)) :
    List ((Label × F) × F) :=
  evals.map fun e => if e.1.1 = lcLabel then (e.1, e.2 - coeff) else e

/-- the verifier's per-combination accumulators: `combined_comm`, `degree_bound`, and the
(cloned) evaluation map the constants are subtracted from -/
structure VAcc (F : Type) where
  comm : F
  bound : Option Nat
  evals : List ((Label × F) × F)
  deriving DecidableEq, Repr

/-- one term of a combination in the verifier's loop (`for (coeff, label) in lc.iter()`) -/
def lcStepV (comms : List (LComm F)) (lcLabel : Label) (numTerms : Nat) (acc : VAcc F)
    (term : F × LC.LCTerm) : Except Err (VAcc F) :=
  match term.2 with
  | .one => .ok { acc with evals := subConst lcLabel term.1 acc.evals }
  | .poly l =>
    match lookupLast (fun (c : LComm F) => c.label) l comms with
    | none => .error .missingPolynomial
    | some c =>
      if numTerms = 1 ∧ c.bound.isSome then
        if term.1 ≠ 1 then .error .abort             -- assert!(coeff.is_one(), …)
        else .ok { acc with bound := c.bound, comm := acc.comm + term.1 * c.comm }
      else if c.bound.isSome then .error .equationHasDegreeBounds
      else .ok { acc with comm := acc.comm + term.1 * c.comm }

/-- the verifier's loop over the terms of one combination -/
def lcLoopV (comms : List (LComm F)) (lcLabel : Label) (numTerms : Nat) : VAcc F →
    List (F × LC.LCTerm) → Except Err (VAcc F)
  | acc, [] => .ok acc
  | acc, t :: ts =>
    match lcStepV comms lcLabel numTerms acc t with
    | .error e => .error e
    | .ok acc' => lcLoopV comms lcLabel numTerms acc' ts

/-- one combination on the verifier's side: its labelled commitment and the updated evaluations -/
def combineLCV (comms : List (LComm F)) (evals : List ((Label × F) × F)) (lc : LC.LinComb F) :
    Except Err (LComm F × List ((Label × F) × F)) :=
  match lcLoopV comms lc.label lc.terms.length ⟨0, none, evals⟩ lc.terms with
  | .error e => .error e
  | .ok a => .ok (⟨lc.label, a.comm, a.bound⟩, a.evals)

/-- the outer loop `for lc in linear_combinations` of `check_combinations`: the combined
commitments (in order) and the final evaluation map -/
def combineAllV (comms : List (LComm F)) : List (LC.LinComb F) → List ((Label × F) × F) →
    Except Err (List (LComm F) × List ((Label × F) × F))
  | [], evals => .ok ([], evals)
  | lc :: lcs, evals =>
    match combineLCV comms evals lc with
    | .error e => .error e
    | .ok (c, evals') =>
      match combineAllV comms lcs evals' with
      | .error e => .error e
      | .ok (cs, evals'') => .ok (c :: cs, evals'')

/-- `SonicKZG10::check_combinations` (the proof's `evals` field is ignored: `BatchLCProof { proof, .. }`) -/
def checkCombinations (vk : VK F) (comms : List (LComm F)) (lcs : List (LC.LinComb F))
    (qs : List (Query F)) (evals : List ((Label × F) × F)) (πs : List (KZG.Proof F))
    (ξs rs : List F) : Except Err Bool :=
  match combineAllV comms lcs evals with
  | .error e => .error e
  | .ok (lcComms, evals') => batchCheck vk lcComms qs evals' πs ξs rs

/-! ### the verifier's functions, also returning what the sponge still holds

`batch_check` threads `sponge` through `accumulate_elems`; these variants make the same decision as
`batchCheck` / `checkCombinations` (proved in `Proofs/SonicLC.lean`) and expose the unused
challenges, which C11 compares with the prover's. -/

/-- `batchLoop`, also returning the challenges left after the last group -/
def batchLoopT (vk : VK F) : List (Item F) → List (KZG.Proof F) → F → List F → List F →
    CMap F × F × F → Except Err ((CMap F × F × F) × List F)
  | it :: its, π :: πs, ρ, rs, ξs, acc =>
    match accumulate vk it.1 it.2.1 it.2.2 π ξs ρ acc with
    | .error e => .error e
    | .ok (acc', ξs') => batchLoopT vk its πs (rs.headD 0) rs.tail ξs' acc'
  | _, _, _, _, ξs, acc => .ok (acc, ξs)

/-- `SonicKZG10::batch_check`, with the unused challenges -/
def batchCheckT (vk : VK F) (comms : List (LComm F)) (qs : List (Query F))
    (evals : List ((Label × F) × F)) (πs : List (KZG.Proof F)) (ξs rs : List F) :
    Except Err (Bool × List F) :=
  let groups := groupQueries qs
  if πs.length ≠ groups.length then .error .abort
  else
    match gatherGroups comms evals groups with
    | .error e => .error e
    | .ok its =>
      match batchLoopT vk its πs 1 rs ξs ([], 0, 0) with
      | .error e => .error e
      | .ok ((m, W, A), rest) =>
        match checkElems vk m W A with
        | .error e => .error e
        | .ok b => .ok (b, rest)

/-- `SonicKZG10::check_combinations`, with the unused challenges -/
def checkCombinationsT (vk : VK F) (comms : List (LComm F)) (lcs : List (LC.LinComb F))
    (qs : List (Query F)) (evals : List ((Label × F) × F)) (πs : List (KZG.Proof F))
    (ξs rs : List F) : Except Err (Bool × List F) :=
  match combineAllV comms lcs evals with
  | .error e => .error e
  | .ok (lcComms, evals') => batchCheckT vk lcComms qs evals' πs ξs rs

end Sonic
end PCV
