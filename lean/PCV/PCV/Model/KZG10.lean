/-
  PCV.Model.KZG10 — `poly-commit/src/kzg10/mod.rs` in exponent form (DESIGN §2.1, Appendix A).
  A group element is its discrete log; a pairing equation `e(A,B)=e(C,D)` is `A*B = C*D`.
-/
import PCV.Model.Poly
namespace PCV
namespace KZG

variable {F : Type} [Add F] [Mul F] [Sub F] [Neg F] [Zero F] [One F] [DecidableEq F]

/-- `kzg10::Powers` -/
structure Powers (F : Type) where
  g : List F
  gg : List F
  deriving DecidableEq, Repr

/-- `kzg10::VerifierKey` (prepared elements are functions of `h`, `betaH`, see C12) -/
structure VK (F : Type) where
  g : F
  gammaG : F
  h : F
  betaH : F
  deriving DecidableEq, Repr

/-- `kzg10::Proof` -/
structure Proof (F : Type) where
  w : F
  rv : Option F
  deriving DecidableEq, Repr

/-- `DensePolynomial::rand(d, rng)`: `d` draws, then draws until non-zero for the leading
coefficient.  Returns the polynomial and the unused draws; `none` if the stream is too short. -/
def firstNonzero : List F → Option (F × List F)
  | [] => none
  | x :: xs => if x = 0 then firstNonzero xs else some (x, xs)

def randPoly (d : Nat) (draws : List F) : Option (List F × List F) :=
  if draws.length < d then none else
  match firstNonzero (draws.drop d) with
  | none => none
  | some (lead, rest) => some (draws.take d ++ [lead], rest)

def checkDegreeIsTooLarge (degree numPowers : Nat) : Except Err Unit :=
  if degree + 1 > numPowers then .error .tooManyCoefficients else .ok ()

def checkHidingBound (hidingPolyDegree numPowers : Nat) : Except Err Unit :=
  if hidingPolyDegree = 0 then .error .hidingBoundZero
  else if hidingPolyDegree ≥ numPowers then .error .hidingBoundTooLarge
  else .ok ()

/-- the MSM over `powers_of_g[num_leading_zeros..]` -/
def msmSkip (bases : List F) (p : List F) : F :=
  let (nz, cs) := skipLowZeros p
  dot (bases.drop nz) cs

/-- `KZG10::commit`. Returns commitment, blinding polynomial (`[]` = `Randomness::empty`) and the
remaining RNG draws. `rng = false` models `rng: None`. -/
def commit (pw : Powers F) (p : List F) (hb : Option Nat) (rng : Bool) (draws : List F) :
    Except Err (F × List F × List F) :=
  match checkDegreeIsTooLarge (pdeg p) pw.g.length with
  | .error e => .error e
  | .ok () =>
    let c := msmSkip pw.g p
    match hb with
    | none => .ok (c, [], draws)
    | some h =>
      if !rng then .error .missingRng else
      match randPoly (h + 1) draws with
      | none => .error .abort   -- the model's draw list ran out (never happens on the harness' streams)
      | some (r, rest) =>
        match checkHidingBound (pdeg r) pw.gg.length with
        | .error e => .error e
        | .ok () => .ok (c + dot pw.gg r, r, rest)

/-- `KZG10::open` (via `compute_witness_polynomial` and `open_with_witness_polynomial`). -/
def openWith (pw : Powers F) (z : F) (r : List F) (w : List F) (wr : Option (List F)) :
    Except Err (Proof F) :=
  match checkDegreeIsTooLarge (pdeg w) pw.g.length with
  | .error e => .error e
  | .ok () =>
    let W := msmSkip pw.g w
    match wr with
    | none => .ok ⟨W, none⟩
    | some wr => .ok ⟨W + dot pw.gg wr, some (evalPoly r z)⟩

def witness (p : List F) (z : F) (r : List F) : List F × Option (List F) :=
  ((divLin p z).1, if isZeroPoly r then none else some (divLin r z).1)

def «open» (pw : Powers F) (p : List F) (z : F) (r : List F) : Except Err (Proof F) :=
  match checkDegreeIsTooLarge (pdeg p) pw.g.length with
  | .error e => .error e
  | .ok () =>
    let (w, wr) := witness p z r
    openWith pw z r w wr

/-- `random_v` read as a field element (`None` contributes nothing to the equation) -/
def rvVal (rv : Option F) : F := match rv with | none => 0 | some x => x

/-- The defect of `KZG10::check`: `lhs - rhs` of the pairing equation. -/
def defect (vk : VK F) (c z v : F) (π : Proof F) : F :=
  (c - v * vk.g - rvVal π.rv * vk.gammaG) * vk.h
    - π.w * (vk.betaH - z * vk.h)

def check (vk : VK F) (c z v : F) (π : Proof F) : Bool := decide (defect vk c z v π = 0)

/-- One term of `KZG10::batch_check` in the accumulated form of the code:
`total_c += r·(c + z·w)`, `total_w += r·w`, `g_mult += r·v`, `gamma_mult += r·rv`. -/
def batchAcc : List F → List F → List F → List (Proof F) → List F → F → (F × F × F × F)
  | c :: cs, z :: zs, v :: vs, π :: πs, rs, r =>
    let (tc, tw, gm, ggm) := batchAcc cs zs vs πs rs.tail (rs.headD 0)
    (r * (π.w * z + c) + tc, r * π.w + tw, r * v + gm,
      r * rvVal π.rv + ggm)
  | _, _, _, _, _, _ => (0, 0, 0, 0)

/-- `KZG10::batch_check`; `rs` are the verifier's 128-bit randomizers (the first proof uses 1). -/
def batchDefect (vk : VK F) (cs zs vs : List F) (πs : List (Proof F)) (rs : List F) : F :=
  let (tc, tw, gm, ggm) := batchAcc cs zs vs πs rs 1
  (-tw) * vk.betaH + (tc - gm * vk.g - ggm * vk.gammaG) * vk.h

/-- `KZG10::batch_check`: refuses slices of different lengths, otherwise the randomized test. -/
def batchCheck (vk : VK F) (cs zs vs : List F) (πs : List (Proof F)) (rs : List F) :
    Except Err Bool :=
  if cs.length ≠ zs.length ∨ cs.length ≠ vs.length ∨ cs.length ≠ πs.length then
    .error .incorrectInputLength
  else .ok (decide (batchDefect vk cs zs vs πs rs = 0))

end KZG
end PCV
