/-
  PCV.Model.DrvMarlin — driver requests `marlin.*`.  Every request carries the universal parameters
  and the trim arguments; the driver runs the model's `trim` first, so `trim` is exercised by every case.
-/
import PCV.Model.DrvUtil
import PCV.Model.Marlin
import PCV.Model.MarlinLC
namespace PCV
namespace DrvMarlin
open Driver Marlin

variable {p : Nat}

def asLabel (v : Val) : R Label := asNats v
def asLabels (v : Val) : R (List Label) := do let xs ← asList v; xs.mapM asLabel
def asOptNats (v : Val) : R (List (Option Nat)) := do let xs ← asList v; xs.mapM asOptNat
def asOptFes (v : Val) : R (List (Option (Fp p))) := do let xs ← asList v; xs.mapM asOptFe
def asOptFess (v : Val) : R (List (Option (List (Fp p)))) := do
  let xs ← asList v
  xs.mapM fun x => do
    match ← asOpt x with
    | none => pure none
    | some y => do let l ← asFes y; pure (some l)

def asOptFes' (v : Val) : R (Option (List (Fp p))) := do
  match ← asOpt v with
  | none => pure none
  | some y => do let l ← asFes y; pure (some l)

def vOptFes (xs : Option (List (Fp p))) : Val :=
  match xs with | none => .none | some l => .some (vFes l)
def vOptNats (xs : Option (List Nat)) : Val :=
  match xs with | none => .none | some l => .some (vNats l)

def getPP (r : Req) : R (UParams (Fp p)) := do
  pure ⟨← asFes (← need r "pg"), ← asFes (← need r "pgg"), ← asFe (← need r "h"),
        ← asFe (← need r "beta_h")⟩

def getTrim (r : Req) : R (Except Err (CK (Fp p) × VK (Fp p))) := do
  let pp ← getPP (p := p) r
  let supported ← asNat (← need r "supported")
  let shb ← asNat (← need r "shb")
  let bounds ← (do
    match ← asOpt (← need r "tbounds") with
    | none => pure none
    | some b => do let l ← asNats b; pure (some l) : R (Option (List Nat)))
  pure (trim pp supported shb bounds)

def getPolys (r : Req) : R (List (LPoly (Fp p))) := do
  let labels ← asLabels (← need r "labels")
  let polys ← asFess (← need r "polys")
  let bounds ← asOptNats (← need r "bounds")
  let hbs ← asOptNats (← need r "hbs")
  pure <| (labels.zip (polys.zip (bounds.zip hbs))).map fun (l, (q, (b, h))) => ⟨l, q, b, h⟩

def getRands (r : Req) : R (List (Rand (Fp p))) := do
  let rs ← asFess (← need r "rands")
  let ss ← asOptFess (← need r "srands")
  pure <| (rs.zip ss).map fun (a, b) => ⟨a, b⟩

def getComms (r : Req) : R (List (LComm (Fp p))) := do
  let labels ← asLabels (← need r "clabels")
  let cs ← asFes (← need r "cs")
  let ss ← asOptFes (← need r "ss")
  let bounds ← asOptNats (← need r "cbounds")
  pure <| (labels.zip (cs.zip (ss.zip bounds))).map fun (l, (c, (s, b))) => ⟨l, ⟨c, s⟩, b⟩

def getProofs (r : Req) : R (List (KZG.Proof (Fp p))) := do
  let ws ← asFes (← need r "ws")
  let rvs ← asOptFes (← need r "rvs")
  pure (List.zipWith (fun w rv => ⟨w, rv⟩) ws rvs)

def getQueries (r : Req) : R (List (Query (Fp p))) := do
  let ql ← asLabels (← need r "qlabels")
  let pl ← asLabels (← need r "qplabels")
  let pts ← asFes (← need r "qpoints")
  pure <| (ql.zip (pl.zip pts))

def getEvals (r : Req) : R (List ((Label × Fp p) × Fp p)) := do
  let el ← asLabels (← need r "elabels")
  let pts ← asFes (← need r "epoints")
  let vs ← asFes (← need r "evals")
  pure <| (el.zip (pts.zip vs)).map fun (l, (z, v)) => ((l, z), v)

def asNatss (v : Val) : R (List (List Nat)) := do let xs ← asList v; xs.mapM asNats
def asLabelss (v : Val) : R (List (List Label)) := do let xs ← asList v; xs.mapM asLabels

/-- linear combinations: `lclabels`, `lccoeffs`, `lcone` (1 = constant term), `lcterms` (label bytes) -/
def getLCs (r : Req) : R (List (LC.LinComb (Fp p))) := do
  let labels ← asLabels (← need r "lclabels")
  let coeffs ← asFess (← need r "lccoeffs")
  let ones ← asNatss (← need r "lcone")
  let terms ← asLabelss (← need r "lcterms")
  pure <| (labels.zip (coeffs.zip (ones.zip terms))).map fun (l, (cs, (os, ts))) =>
    ⟨l, (cs.zip (os.zip ts)).map fun (c, (o, t)) => (c, if o != 0 then LC.LCTerm.one else LC.LCTerm.poly t)⟩

def vProofs (πs : List (KZG.Proof (Fp p))) : List (String × Val) :=
  [("ws", vFes (πs.map (·.w))), ("rvs", .l (πs.map fun π => vOptFe π.rv))]

def handle (p : Nat) (r : Req) : Option (R String) :=
  if !r.op.startsWith "marlin." then none else
  if r.op == "marlin.rand_add_scaled" then some do
    -- `marlin_pc::Randomness += (f, &other)` on its own (public arithmetic of commitment states)
    let a : Rand (Fp p) := ⟨← asFes (← need r "a"), ← asOptFes' (← need r "as")⟩
    let b : Rand (Fp p) := ⟨← asFes (← need r "b"), ← asOptFes' (← need r "bs")⟩
    let f ← asFe (← need r "f")
    let c := Rand.addScaled a f b
    pure <| okReply [("rand", vFes (pnorm c.rand)), ("srand", vOptFes (c.shifted.map pnorm))]
  else some do
  let t ← getTrim (p := p) r
  match t with
  | .error e => pure (errReply e)
  | .ok (ck, vk) =>
  match r.op with
  | "marlin.trim" =>
    pure <| okReply [("powers", vFes ck.powers), ("shifted", vOptFes ck.shiftedPowers),
      ("gamma", vFes ck.gammaPowers), ("bounds", vOptNats ck.bounds), ("max_degree", .n ck.maxDegree),
      ("g", vFe vk.vk.g), ("gamma_g", vFe vk.vk.gammaG), ("vh", vFe vk.vk.h), ("vbeta_h", vFe vk.vk.betaH),
      ("shift_bounds", match vk.shifts with | none => .none | some l => .some (vNats (l.map (·.1)))),
      ("shift_powers", match vk.shifts with | none => .none | some l => .some (vFes (l.map (·.2)))),
      ("supported", .n vk.supported)]
  | "marlin.commit" =>
    let polys ← getPolys (p := p) r
    let rng ← asBool (← need r "rng")
    let draws ← asFes (← need r "draws")
    pure <| exceptReply (commit ck polys rng draws) fun (cs, rs, rest) =>
      [("cs", vFes (cs.map (·.comm.comm))), ("ss", .l (cs.map fun c => vOptFe c.comm.shifted)),
       ("rands", .l (rs.map fun x => vFes x.rand)), ("srands", .l (rs.map fun x => vOptFes x.shifted)),
       ("used", .n (draws.length - rest.length))]
  | "marlin.open" =>
    let polys ← getPolys (p := p) r
    let rands ← getRands (p := p) r
    let z ← asFe (← need r "z")
    let ξs ← asFes (← need r "xis")
    pure <| exceptReply (Marlin.open ck polys z rands ξs) fun (π, rest) =>
      [("w", vFe π.w), ("rv", vOptFe π.rv), ("used", .n (ξs.length - rest.length))]
  | "marlin.check" =>
    let comms ← getComms (p := p) r
    let z ← asFe (← need r "z")
    let vs ← asFes (← need r "vs")
    let π : KZG.Proof (Fp p) := ⟨← asFe (← need r "w"), ← asOptFe (← need r "rv")⟩
    let ξs ← asFes (← need r "xis")
    pure <| exceptReply (check vk comms z vs π ξs) fun (b, rest) =>
      [("b", vBool b), ("used", .n (ξs.length - rest.length))]
  | "marlin.batch_open" =>
    let polys ← getPolys (p := p) r
    let rands ← getRands (p := p) r
    let qs ← getQueries (p := p) r
    let ξs ← asFes (← need r "xis")
    pure <| exceptReply (batchOpen ck polys rands qs ξs) fun (πs, rest) =>
      vProofs πs ++ [("used", .n (ξs.length - rest.length))]
  | "marlin.batch_check" =>
    let comms ← getComms (p := p) r
    let qs ← getQueries (p := p) r
    let evals ← getEvals (p := p) r
    let πs ← getProofs (p := p) r
    let ξs ← asFes (← need r "xis")
    let rs ← asFes (← need r "rs")
    pure <| exceptReply (batchCheck vk comms qs evals πs ξs rs) fun b => [("b", vBool b)]
  | "marlin.open_combinations" =>
    let polys ← getPolys (p := p) r
    let rands ← getRands (p := p) r
    let comms ← getComms (p := p) r
    let lcs ← getLCs (p := p) r
    let qs ← getQueries (p := p) r
    let ξs ← asFes (← need r "xis")
    pure <| exceptReply (openCombinations ck polys rands comms lcs qs ξs) fun (πs, rest) =>
      vProofs πs ++ [("used", .n (ξs.length - rest.length))]
  | "marlin.check_combinations" =>
    let comms ← getComms (p := p) r
    let lcs ← getLCs (p := p) r
    let qs ← getQueries (p := p) r
    let evals ← getEvals (p := p) r
    let πs ← getProofs (p := p) r
    let ξs ← asFes (← need r "xis")
    let rs ← asFes (← need r "rs")
    pure <| exceptReply (checkCombinations vk comms lcs qs evals πs ξs rs) fun b => [("b", vBool b)]
  | _ => .error "unknown-op"

end DrvMarlin
end PCV
