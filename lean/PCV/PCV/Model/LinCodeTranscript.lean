/-
  PCV.Model.LinCodeTranscript — the transcript view of `poly-commit/src/linear_codes/mod.rs`
  (`LinearCodePCS::open`, `generate_proof`, `LinearCodePCS::check`) and of
  `linear_codes/utils.rs::get_indices_from_sponge`, statement by statement, on a sponge that is its
  own event history (`Model/SpongeEv.lean`).  Every `sponge.absorb(..)`, every
  `squeeze_field_elements(n_rows)` and every `squeeze_bytes(..)` of the code appends its event; the
  values squeezed are the random oracle's at the history.  The algebra (vectors, columns, Merkle
  paths, the verifier's tests) is the untouched `LinCode.openOne` / `LinCode.checkOne`, called with
  the oracle outputs that were squeezed.

  Batch and combination forms are the trait defaults of `lib.rs` (`Model/TraitDefault.lean`)
  instantiated with the functions of this file.  Core Lean only.
-/
import PCV.Model.LinCode
import PCV.Model.CalcT
import PCV.Model.SpongeEv
import PCV.Model.TraitDefault
namespace PCV
namespace LinCode
open Merkle

variable {F : Type} [Add F] [Mul F] [Sub F] [Neg F] [Zero F] [One F]
variable {D : Type}

/-- What the linear-code schemes absorb:
* `root r` — `to_bytes!(&commitment.root)`: the Merkle root of ONE commitment;
* `wfVec v` — `sponge.absorb(&v)`: the well-formedness vector `r·M` (only when
  `check_well_formedness`);
* `pointVec pv` — `L::point_to_vec(point)`;
* `openVec v` — `b·M` (`generate_proof`: `sponge.absorb(&v)`; `check`:
  `sponge.absorb(&proof.opening.v)`);
* `idxBytes bs` — inside `get_indices_from_sponge`: the bytes just squeezed, absorbed back. -/
inductive Item (F D : Type)
  | root (r : D)
  | wfVec (v : List F)
  | pointVec (pv : List F)
  | openVec (v : List F)
  | idxBytes (bs : List Nat)
  deriving DecidableEq, Repr

abbrev TLog (F D : Type) := Sponge.Log (Item F D)
abbrev TRO (F D : Type) := SpongeRO (Item F D) F

/-- the parameters the transcript needs besides `Params`: `calculate_t(sec_param, distance, ·)` as a
function of the codeword length (`Model/CalcT.lean` models it; here it is a parameter) -/
structure TParams (F D : Type) where
  pp : Params F D
  tOf : Nat → Except Err Nat

/-! ### `get_indices_from_sponge` -/

/-- `get_indices_from_sponge(n, t, sponge)`: `t` times `bytes = squeeze_bytes(get_num_bytes(n))`,
`absorb(&bytes)`, `indices.push(fold(bytes) % n)` (`% 0` panics). -/
def getIndicesT (ro : TRO F D) (n : Nat) : Nat → TLog F D → Except Err (List Nat × TLog F D)
  | 0, s => .ok ([], s)
  | t + 1, s =>
    let bs := Sponge.squeezeBytes ro s (getNumBytes n)
    let s1 := Sponge.absorb bs.2 (.idxBytes bs.1)
    if n = 0 then .error .abort
    else
      match getIndicesT ro n t s1 with
      | .error e => .error e
      | .ok (rest, s2) => .ok (indexOfBytes n bs.1 :: rest, s2)

/-! ### `open` -/

/-- the well-formedness block of `open`:
`if ck.check_well_formedness() { r = squeeze_field_elements(n_rows); v = mat.row_mul(&r);
sponge.absorb(&v); Some(v) } else { None }` — returns `r` (empty when the flag is off), the vector
and the sponge -/
def proverWf (ro : TRO F D) (checkWf : Bool) (nRows : Nat) (mat : Mat F) (s : TLog F D) :
    Except Err (List F × Option (List F) × TLog F D) :=
  if checkWf then
    let rs := Sponge.squeezeField ro s nRows
    match mat.rowMul rs.1 with
    | .error e => .error e
    | .ok v => .ok (rs.1, some v, Sponge.absorb rs.2 (.wfVec v))
  else .ok ([], none, s)

/-- One iteration of the loop of `LinearCodePCS::open` with `generate_proof` inlined, on a sponge:
`create_merkle_tree`, `tensor`, absorb the root, the well-formedness block, absorb the point,
`calculate_t(.., ext_mat.m)?`, `v = mat.row_mul(b)`, absorb `v`, `get_indices_from_sponge(ext_mat.m,
t, sponge)`, then columns and paths (`LinCode.openOne` on the squeezed outputs). -/
def openOneT (ro : TRO F D) (tp : TParams F D) (point : Point F) (c : Comm D) (st : State F D)
    (s : TLog F D) : Except Err (Proof F D × TLog F D) :=
  if depth st.leaves = 0 then .error .abort else
  match tensor point c.nCols c.nRows with
  | .error e => .error e
  | .ok ab =>
    let s1 := Sponge.absorb s (.root c.root)
    match proverWf ro tp.pp.checkWf c.nRows st.mat s1 with
    | .error e => .error e
    | .ok (r, _, s2) =>
      let s3 := Sponge.absorb s2 (.pointVec point.toVec)
      match tp.tOf st.extMat.m with
      | .error e => .error e
      | .ok t =>
        match st.mat.rowMul ab.2 with
        | .error e => .error e
        | .ok v =>
          let s4 := Sponge.absorb s3 (.openVec v)
          match getIndicesT ro st.extMat.m t s4 with
          | .error e => .error e
          | .ok (indices, s5) =>
            match openOne tp.pp point c st ⟨r, indices⟩ with
            | .error e => .error e
            | .ok π => .ok (π, s5)

/-- `LinearCodePCS::open`: `commitments.zip(states)` on one sponge -/
def openAllT (ro : TRO F D) (tp : TParams F D) (point : Point F) :
    List (Comm D) → List (State F D) → TLog F D → Except Err (List (Proof F D) × TLog F D)
  | c :: cs, st :: sts, s =>
    match openOneT ro tp point c st s with
    | .error e => .error e
    | .ok (π, s1) =>
      match openAllT ro tp point cs sts s1 with
      | .error e => .error e
      | .ok (πs, s2) => .ok (π :: πs, s2)
  | _, _, s => .ok ([], s)

/-! ### `check` -/

section Check
variable [DecidableEq F] [DecidableEq D]

/-- the well-formedness block of `check` after the presence / length tests (`readWf`):
`r = squeeze_field_elements(n_rows); sponge.absorb(&v)` when the flag is on -/
def verifierWf (ro : TRO F D) (wf : Option (List F)) (nRows : Nat) (s : TLog F D) :
    List F × TLog F D :=
  match wf with
  | some v =>
    let rs := Sponge.squeezeField ro s nRows
    (rs.1, Sponge.absorb rs.2 (.wfVec v))
  | none => ([], s)

/-- One iteration of the loop of `LinearCodePCS::check` on a sponge: `calculate_t(.., n_ext_cols)?`,
the length test of `v`, absorb the root, the well-formedness block, absorb the point and
`proof.opening.v`, `get_indices_from_sponge(n_ext_cols, t, sponge)`, then steps 3–7 and the value
test (`LinCode.checkOne` on the squeezed outputs).  Every `Err` return drops the sponge; the only
`Ok(false)` is the value test at the very end. -/
def checkOneT (ro : TRO F D) (tp : TParams F D) (point : Point F) (c : Comm D) (value : F)
    (π : Proof F D) (s : TLog F D) : Except Err (Bool × TLog F D) :=
  match tp.tOf c.nExtCols with
  | .error e => .error e
  | .ok t =>
    if π.opening.v.length ≠ c.nCols then .error .invalidCommitment else
    let s1 := Sponge.absorb s (.root c.root)
    match readWf tp.pp.checkWf c.nCols π.wf with
    | .error e => .error e
    | .ok wf =>
      let rs := verifierWf ro wf c.nRows s1
      let s3 := Sponge.absorb rs.2 (.pointVec point.toVec)
      let s4 := Sponge.absorb s3 (.openVec π.opening.v)
      match getIndicesT ro c.nExtCols t s4 with
      | .error e => .error e
      | .ok (indices, s5) =>
        match checkOne tp.pp point c value π ⟨rs.1, indices⟩ with
        | .error e => .error e
        | .ok b => .ok (b, s5)

/-- `LinearCodePCS::check`: `commitments.zip(values).enumerate()`, `proof_array[i]` (index panic),
the first `Ok(false)` returns (the later polynomials are not looked at, their events never happen) -/
def checkAllT (ro : TRO F D) (tp : TParams F D) (point : Point F) :
    List (Comm D) → List F → List (Proof F D) → TLog F D → Except Err (Bool × TLog F D)
  | c :: cs, val :: vals, πs, s =>
    match πs with
    | π :: πs' =>
      match checkOneT ro tp point c val π s with
      | .error e => .error e
      | .ok (false, s1) => .ok (false, s1)
      | .ok (true, s1) => checkAllT ro tp point cs vals πs' s1
    | [] => .error .abort
  | _, _, _, s => .ok (true, s)

end Check

/-! ### the Fiat–Shamir transcript of one opening, as a function of what is absorbed -/

/-- the well-formedness vector the verifier uses: the proof's, if the flag is on -/
def usedWf (checkWf : Bool) (wf : Option (List F)) : Option (List F) := if checkWf then wf else none

/-- The transcript of one opening as a function of: the root, the squeeze sizes (`n_rows`, and
`n_ext_cols` with `t`), the absorbed vectors (`wf` if any, the point, `v`), the oracle and the prior
history.  Returns the oracle outputs `(r, indices)` and the sponge.  Columns, Merkle paths and
the claimed value do not occur. -/
def transcriptOne (ro : TRO F D) (nRows nExt t : Nat) (root : D) (wf : Option (List F))
    (pointVec v : List F) (s : TLog F D) : Except Err (List F × List Nat × TLog F D) :=
  let s1 := Sponge.absorb s (.root root)
  let rs : List F × TLog F D :=
    match wf with
    | some w => ((Sponge.squeezeField ro s1 nRows).1,
                 Sponge.absorb (Sponge.squeezeField ro s1 nRows).2 (.wfVec w))
    | none => ([], s1)
  let s3 := Sponge.absorb rs.2 (.pointVec pointVec)
  let s4 := Sponge.absorb s3 (.openVec v)
  match getIndicesT ro nExt t s4 with
  | .error e => .error e
  | .ok (indices, s5) => .ok (rs.1, indices, s5)

/-! ### trait defaults (`lib.rs`) on the linear-code `open` / `check` -/

/-- a labelled polynomial: its coefficient vector (`poly_to_vec`) -/
structure LPoly (F : Type) where
  label : List Nat
  coeffs : List F
  deriving DecidableEq, Repr

/-- a labelled commitment -/
structure LComm (D : Type) where
  label : List Nat
  comm : Comm D
  deriving DecidableEq, Repr

/-- `Self::open` as the defaults call it (`_labeled_polynomials` is not read) -/
def openF (ro : TRO F D) (tp : TParams F D)
    (ts : List ((LPoly F × State F D) × LComm D)) (point : Point F) (s : TLog F D) :
    Except Err (List (Proof F D) × TLog F D) :=
  openAllT ro tp point (ts.map (·.2.comm)) (ts.map (·.1.2)) s

/-- `Self::check` as the defaults call it -/
def checkF [DecidableEq F] [DecidableEq D] (ro : TRO F D) (tp : TParams F D) (cs : List (LComm D))
    (point : Point F) (vs : List F) (πs : List (Proof F D)) (s : TLog F D) :
    Except Err (Bool × TLog F D) :=
  checkAllT ro tp point (cs.map (·.comm)) vs πs s

end LinCode
end PCV
