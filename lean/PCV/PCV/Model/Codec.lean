/-
  PCV.Model.Codec — canonical (de)serialization as `ark-serialize` does it, core only.

  A `Codec α` is the triple (`serialize_with_mode`, `deserialize_with_mode`, `serialized_size`) of one
  type for one fixed `Compress` mode; bytes are naturals `< 256` in a `List Nat`.
  Combinators follow `ark-serialize 0.5`:
    * `usize`   — `impl CanonicalSerialize for usize`: the value as `u64`, 8 bytes little endian;
    * `seq`/`pair` — tuples and derived structs: the fields one after another;
    * `vec`     — `Vec<T>`, `[T]`, `BTreeMap<K,V>` (as `Vec<(K,V)>`): `len as u64` then the elements;
    * `option`  — `Option<T>`: one `bool` byte (0/1; any other byte is `InvalidData`) then the value;
    * `map`     — a struct viewed through an isomorphism with the tuple of its fields;
    * `guard`   — `if let Validate::Yes = validate { result.check()? }`.
  The second half models a *hand-written* struct serializer by the field lists that the translator
  `translators/ser_schema.py` extracts from the Rust source (`Schema`, `structCodec`, `SchemaOK`).
-/
namespace PCV

/-- serializer / deserializer / size function of one type (one `Compress` mode) -/
structure Codec (α : Type) where
  enc : α → List Nat
  dec : List Nat → Option (α × List Nat)
  size : α → Nat

namespace Codec

/-- `k` bytes little endian of `n` (`u64::to_le_bytes` for `k = 8`) -/
def leBytes : Nat → Nat → List Nat
  | 0, _ => []
  | k + 1, n => n % 256 :: leBytes k (n / 256)

/-- value of a little-endian byte string (`u64::from_le_bytes`) -/
def leVal : List Nat → Nat
  | [] => 0
  | b :: bs => b + 256 * leVal bs

/-- `usize` / `u64`: 8 bytes little endian (`serialize_with_mode` of `usize` casts to `u64`);
reading fewer than 8 bytes is `SerializationError::IoError`. -/
def usize : Codec Nat where
  enc n := leBytes 8 n
  dec l := if l.length < 8 then none else some (leVal (l.take 8), l.drop 8)
  size _ := 8

/-- tuples `(A, B)` and two consecutive struct fields -/
def seq {α β : Type} (a : Codec α) (b : Codec β) : Codec (α × β) where
  enc x := a.enc x.1 ++ b.enc x.2
  dec l :=
    match a.dec l with
    | none => none
    | some (x, l') =>
      match b.dec l' with
      | none => none
      | some (y, rest) => some ((x, y), rest)
  size x := a.size x.1 + b.size x.2

/-- `(A, B)` — the same as `seq` (the name used for map entries `(K, V)`) -/
abbrev pair {α β : Type} (a : Codec α) (b : Codec β) : Codec (α × β) := seq a b

/-- the elements of a sequence one after another (no length prefix) -/
def encAll {α : Type} (c : Codec α) : List α → List Nat
  | [] => []
  | x :: xs => c.enc x ++ encAll c xs

def sizeAll {α : Type} (c : Codec α) : List α → Nat
  | [] => 0
  | x :: xs => c.size x + sizeAll c xs

/-- read exactly `n` elements (`for _ in 0..len { T::deserialize_with_mode(..)? }`) -/
def decN {α : Type} (c : Codec α) : Nat → List Nat → Option (List α × List Nat)
  | 0, l => some ([], l)
  | n + 1, l =>
    match c.dec l with
    | none => none
    | some (x, l') =>
      match decN c n l' with
      | none => none
      | some (xs, rest) => some (x :: xs, rest)

/-- `Vec<T>`: `(len as u64)` little endian, then the elements -/
def vec {α : Type} (c : Codec α) : Codec (List α) where
  enc xs := leBytes 8 xs.length ++ encAll c xs
  dec l :=
    match usize.dec l with
    | none => none
    | some (n, l') => decN c n l'
  size xs := 8 + sizeAll c xs

/-- `BTreeMap<K, V>`: length, then `(k, v)` in key order — i.e. the `Vec` of its sorted entries -/
abbrev btreeMap {κ ν : Type} (k : Codec κ) (v : Codec ν) : Codec (List (κ × ν)) := vec (pair k v)

def optEnc {α : Type} (c : Codec α) : Option α → List Nat
  | none => [0]
  | some x => 1 :: c.enc x

def optDec {α : Type} (c : Codec α) : List Nat → Option (Option α × List Nat)
  | [] => none
  | b :: l =>
    if b = 0 then some (none, l)
    else if b = 1 then
      match c.dec l with
      | none => none
      | some (x, rest) => some (some x, rest)
    else none

def optSize {α : Type} (c : Codec α) : Option α → Nat
  | none => 1
  | some x => 1 + c.size x

/-- `Option<T>`: `is_some` as one `bool` byte, then the value if present -/
def option {α : Type} (c : Codec α) : Codec (Option α) where
  enc := optEnc c
  dec := optDec c
  size := optSize c

/-- a struct `β` that is serialized as the value `g b : α` and rebuilt by `f` -/
def map {α β : Type} (c : Codec α) (f : α → β) (g : β → α) : Codec β where
  enc b := c.enc (g b)
  dec l :=
    match c.dec l with
    | none => none
    | some (a, rest) => some (f a, rest)
  size b := c.size (g b)

/-- `Validate::Yes`: the decoded value is refused unless `check` passes -/
def guard {α : Type} (c : Codec α) (chk : α → Bool) : Codec α where
  enc := c.enc
  dec l :=
    match c.dec l with
    | none => none
    | some (a, rest) => if chk a then some (a, rest) else none
  size := c.size

/-- a value of known width `n` kept as its raw bytes (used by the driver to replay layouts) -/
def raw (n : Nat) : Codec (List Nat) where
  enc bs := bs
  dec l := if l.length < n then none else some (l.take n, l.drop n)
  size bs := bs.length

end Codec

/-! ### Hand-written struct serializers as field lists -/

/-- one `let loc = <ty>::deserialize_with_mode(&mut reader, compress, <validate>)?;` -/
structure ReadField where
  /-- the local variable bound -/
  loc : String
  /-- the struct field this local initialises in the `Self { .. }` literal (`""`: none) -/
  field : String
  /-- the type named at the read site, normalised (`""`: inferred from the field) -/
  ty : String
  /-- `true`: the caller's `validate` is passed on; `false`: `Validate::No` (checked afterwards) -/
  passValidate : Bool
  deriving DecidableEq, Repr

/-- What T1 reads off one struct with hand-written `CanonicalSerialize`/`CanonicalDeserialize`. -/
structure Schema where
  /-- declared fields `(name, type)` in declaration order -/
  fields : List (String × String)
  /-- `self.<f>.serialize_with_mode(..)` calls of `serialize_with_mode`, in order -/
  written : List String
  /-- reads of `deserialize_with_mode`, in order -/
  read : List ReadField
  /-- `self.<f>.serialized_size(compress)` summands of `serialized_size` -/
  sized : List String
  /-- `self.<f>.check()?` calls of `Valid::check` -/
  checked : List String
  /-- other fields inspected by `Valid::check` (range comparisons) -/
  inspected : List String
  /-- `(prepared field, local it is rebuilt from)` — from `E::G2Prepared::from(h.clone())`,
  `h.into()`, `beta_h.iter().map(|x| x.clone().into()).collect()` in the deserializer -/
  prepared : List (String × String)
  deriving DecidableEq, Repr

/-- a struct value: its fields by name, in declaration order -/
abbrev Rec (V : Type) := List (String × V)

namespace Rec
variable {V : Type} [Inhabited V]

/-- field access (`default` for a name that is not a field) -/
def get (x : Rec V) (f : String) : V :=
  match x.find? (fun p => p.1 == f) with
  | some p => p.2
  | none => default

end Rec

namespace Schema
variable {V : Type} [Inhabited V]

def fieldNames (s : Schema) : List String := s.fields.map Prod.fst

/-- `serialize_with_mode`: the listed fields one after another -/
def encFields (fc : String → Codec V) (x : Rec V) : List String → List Nat
  | [] => []
  | f :: fs => (fc f).enc (x.get f) ++ encFields fc x fs

/-- `serialized_size`: the sum over the listed fields -/
def sizeFields (fc : String → Codec V) (x : Rec V) : List String → Nat
  | [] => 0
  | f :: fs => (fc f).size (x.get f) + sizeFields fc x fs

/-- `deserialize_with_mode`, first half: the reads in order, binding the locals.  A local is read
with the codec of the field it initialises (the Rust type checker enforces this). -/
def decFields (fc : String → Codec V) : List ReadField → List Nat → Option (Rec V × List Nat)
  | [], l => some ([], l)
  | r :: rs, l =>
    match (fc r.field).dec l with
    | none => none
    | some (v, l') =>
      match decFields fc rs l' with
      | none => none
      | some (env, rest) => some ((r.loc, v) :: env, rest)

/-- the local a prepared field is rebuilt from -/
def preparedFrom (s : Schema) (f : String) : Option String :=
  match s.prepared.find? (fun p => p.1 == f) with
  | some p => some p.2
  | none => none

/-- the read that initialises field `f` -/
def readOf (s : Schema) (f : String) : Option ReadField :=
  s.read.find? (fun r => r.field == f)

/-- value of field `f` in the `Self { .. }` literal: the local that was read for it, or
`prep f` of the local it is rebuilt from -/
def fieldValue (s : Schema) (prep : String → V → V) (env : Rec V) (f : String) : V :=
  match s.readOf f with
  | some r => env.get r.loc
  | none =>
    match s.preparedFrom f with
    | some loc => prep f (env.get loc)
    | none => default

/-- `deserialize_with_mode`, second half: the `Self { .. }` literal -/
def build (s : Schema) (prep : String → V → V) (env : Rec V) : Rec V :=
  s.fieldNames.map (fun f => (f, s.fieldValue prep env f))

/-- The hand-written impl as a codec (`Validate::No`). -/
def structCodec (s : Schema) (fc : String → Codec V) (prep : String → V → V) : Codec (Rec V) where
  enc x := encFields fc x s.written
  dec l :=
    match decFields fc s.read l with
    | none => none
    | some (env, rest) => some (s.build prep env, rest)
  size x := sizeFields fc x s.sized

/-- `Valid::check`: the per-field checks of the `checked` fields -/
def checkAll (s : Schema) (chk : String → V → Bool) (x : Rec V) : Bool :=
  s.checked.all (fun f => chk f (x.get f))

/-- The hand-written impl with `Validate::Yes`. -/
def structCodecV (s : Schema) (fc : String → Codec V) (prep : String → V → V)
    (chk : String → V → Bool) : Codec (Rec V) :=
  Codec.guard (s.structCodec fc prep) (s.checkAll chk)

/-- The local `loc` is the one read for the field named `"prepared_" ++` … i.e. the prepared field
`p` is rebuilt from its own unprepared field. -/
def preparedOwn (s : Schema) (p : String × String) : Bool :=
  match s.read.find? (fun r => r.loc == p.2) with
  | some r => p.1 == "prepared_" ++ r.field
  | none => false

/-- The decidable side condition of `roundtrip_of_schema_agree`:
* field names, written fields and read locals are duplicate-free;
* the fields initialised by the reads, in read order, are exactly the written fields in write order;
* the size is summed over a permutation of the written fields;
* every written field is a declared field, every declared field is either written (and read) or
  a prepared field, never both;
* each prepared field `prepared_X` is rebuilt from the local that was read for field `X`.
(The type named at a read site is not compared with the declared one: the Rust type checker
does that, and a textual comparison would reject right programs.) -/
def SchemaOK (s : Schema) : Bool :=
  decide s.fieldNames.Nodup
  && decide s.written.Nodup
  && decide (s.read.map ReadField.loc).Nodup
  && decide (s.read.map ReadField.field = s.written)
  && s.sized.isPerm s.written
  && s.written.all (fun f => decide (f ∈ s.fieldNames))
  && s.fieldNames.all (fun f => decide (f ∈ s.written) || decide (f ∈ s.prepared.map Prod.fst))
  && s.prepared.all (fun p => decide (p.1 ∈ s.fieldNames) && !decide (p.1 ∈ s.written)
        && s.preparedOwn p)

/-- Validation coverage (informational — not part of C12's statement, so no theorem of Props/C12
depends on it; `translators/ser_schema_selftest.py` reports it): every field that is read with
`Validate::No` is visited by `Valid::check` (`.check()?` or an explicit comparison) unless it is a
`usize`, whose `check` is trivial. -/
def ValidateOK (s : Schema) : Bool :=
  s.read.all (fun r => r.passValidate || decide (r.field ∈ s.checked)
    || decide (r.field ∈ s.inspected) || decide ((r.field, "usize") ∈ s.fields))
  && s.checked.all (fun f => decide (f ∈ s.written))

end Schema
end PCV
