/-
  PCV.Model.Sonic — `poly-commit/src/sonic_pc/{mod.rs,data_structures.rs}` (SonicKZG10) in exponent
  form (DESIGN §2.1, Appendix A).  Group elements of G1, G2, GT are their discrete logs in `F`,
  a pairing is a product, "the multi-pairing is one" is "a sum of products is zero".
  Sponge challenges are an explicit list consumed in order: `1 + n` per `open` / `check`
  (one before the loop, one more after every polynomial; the last one is squeezed but never used).
  `batch_open` is the trait default of `lib.rs` (one `open` per point label, in sorted order).
-/
import PCV.Model.KZG10
import PCV.Model.Marlin
namespace PCV
namespace Sonic
open Marlin (Label LPoly Query groupQueries lookupLast lookupEval sortDedup checkDegreesAndBounds)

variable {F : Type} [Add F] [Mul F] [Sub F] [Neg F] [Zero F] [One F] [DecidableEq F]

/-- `kzg10::UniversalParams` as made by `KZG10::setup(D, produce_g2_powers = true)`:
`powers_of_g` (`D+1`), `powers_of_gamma_g` (dense map `0..=D+1`), `h`, `beta_h`,
`neg_powers_of_h` (dense map `0..=D`, entry `i` is `β^{-i}·h`). -/
structure UParams (F : Type) where
  powers : List F
  gammaPowers : List F
  h : F
  betaH : F
  negPowersH : List F
  deriving DecidableEq, Repr

/-- `sonic_pc::CommitterKey` -/
structure CK (F : Type) where
  powers : List F
  gammaPowers : List F
  shiftedPowers : Option (List F)
  /-- `shifted_powers_of_gamma_g : BTreeMap<usize, Vec<G1>>`, keys ascending -/
  shiftedGamma : Option (List (Nat × List F))
  bounds : Option (List Nat)
  maxDegree : Nat
  deriving DecidableEq, Repr

/-- `sonic_pc::VerifierKey` (prepared elements are functions of `h`, `beta_h`) -/
structure VK (F : Type) where
  g : F
  gammaG : F
  h : F
  betaH : F
  /-- `degree_bounds_and_neg_powers_of_h` -/
  negH : Option (List (Nat × F))
  supported : Nat
  maxDegree : Nat
  deriving DecidableEq, Repr

/-- a `LabeledCommitment<kzg10::Commitment>`: a bounded polynomial has ONE commitment -/
structure LComm (F : Type) where
  label : Label
  comm : F
  bound : Option Nat
  deriving DecidableEq, Repr

/-! ### trim -/

/-- the entries `powers_of_gamma_g[D-d+i]`, `i ≤ shb+1`, `D-d+i < D+2` -/
def gammaWindow (gp : List F) (D shb d : Nat) : List F :=
  (gp.drop (D - d)).take (min (shb + 2) (d + 2))

/-- the degree-bound part of `SonicKZG10::trim`:
`(shifted_powers_of_g, shifted_powers_of_gamma_g, degree_bounds_and_neg_powers_of_h)`;
`bs` is the sorted, deduplicated bound list -/
def trimShifted (pp : UParams F) (D supported shb : Nat) (bs : Option (List Nat)) :
    Except Err (Option (List F) × Option (List (Nat × List F)) × Option (List (Nat × F))) :=
  match bs with
  | none => .ok (none, none, none)
  | some l =>
    if l.isEmpty then .ok (none, none, none)
    else
      let last := l.getLastD 0
      if last > supported then .error .unsupportedBound
      -- `pp.powers_of_gamma_g[&(shift_degree + i)]` / `neg_powers_of_h[&(max_degree - bound)]` panic
      -- on a missing key
      else if l.any (fun d => D - d + min (shb + 2) (d + 2) > pp.gammaPowers.length) then .error .abort
      else if l.any (fun d => D - d ≥ pp.negPowersH.length) then .error .abort
      else
        .ok (some (pp.powers.drop (D - last)),
             some (l.map fun d => (d, gammaWindow pp.gammaPowers D shb d)),
             some (l.map fun d => (d, getD' pp.negPowersH (D - d) 0)))

/-- `SonicKZG10::trim` -/
def trim (pp : UParams F) (supported shb : Nat) (bounds : Option (List Nat)) :
    Except Err (CK F × VK F) :=
  match pp.powers with
  | [] => .error .abort                        -- `max_degree()` = `len - 1` underflows
  | g :: _ =>
    let D := pp.powers.length - 1
    if supported > D then .error .trimTooLarge
    else
      let bs := bounds.map sortDedup
      match trimShifted pp D supported shb bs with
      | .error e => .error e
      | .ok (sp, sg, nh) =>
        if shb + 2 > pp.gammaPowers.length then .error .abort    -- `powers_of_gamma_g[&i]` panics
        else
          .ok (⟨pp.powers.take (supported + 1), pp.gammaPowers.take (shb + 2), sp, sg, bs, D⟩,
               ⟨g, getD' pp.gammaPowers 0 0, pp.h, pp.betaH, nh, supported, D⟩)

/-- `PCCommitterKey::supported_degree` of the committer key: `powers_of_g.len() - 1` -/
def CK.supportedDegree (ck : CK F) : Nat := ck.powers.length - 1

/-- `VerifierKey::get_shift_power` (a binary search on the sorted pair list) -/
def VK.shiftPower (vk : VK F) (bound : Nat) : Option F :=
  match vk.negH with
  | none => none
  | some l => (l.find? (·.1 = bound)).map (·.2)

/-- the G2 partner of an accumulated commitment in `check_elems`:
`h` for unbounded commitments, `β^{-(D-d)}·h` for the bound `d` (if the key has it) -/
def VK.shiftOf (vk : VK F) : Option Nat → Option F
  | none => some vk.h
  | some d => vk.shiftPower d

/-- `shiftOf`, reading a missing bound as `0` (specification level) -/
def VK.shiftD (vk : VK F) (b : Option Nat) : F := (vk.shiftOf b).getD 0

/-! ### commit -/

/-- `CommitterKey::shifted_powers(Some(d)).unwrap()` -/
def shiftedPowersFor (ck : CK F) (d : Nat) : Except Err (KZG.Powers F) :=
  match ck.shiftedPowers, ck.shiftedGamma, ck.bounds with
  | some sp, some sg, some bs =>
    if bs.isEmpty then .error .abort                 -- `.last().unwrap()`
    else if ¬ bs.contains d then .error .abort       -- `assert!(.. contains(&degree_bound))`
    else
      let maxb := bs.getLastD 0
      if d > maxb ∨ maxb - d > sp.length then .error .abort      -- underflow / slice start out of range
      else
        match sg.find? (·.1 = d) with
        | none => .error .abort                      -- `shifted_powers_of_gamma_g[&bound]`
        | some e => .ok ⟨sp.drop (maxb - d), e.2⟩
  | _, _, _ => .error .abort                         -- `.unwrap()` on `None`

/-- the `kzg10::Powers` a polynomial with this bound is committed under -/
def powersFor (ck : CK F) (bound : Option Nat) : Except Err (KZG.Powers F) :=
  match bound with
  | none => .ok ⟨ck.powers, ck.gammaPowers⟩
  | some d => shiftedPowersFor ck d

/-- one polynomial of `SonicKZG10::commit`: commitment, blinding polynomial, unused draws -/
def commitOne (ck : CK F) (p : LPoly F) (rng : Bool) (draws : List F) :
    Except Err (F × List F × List F) :=
  match checkDegreesAndBounds ck.maxDegree ck.bounds p.poly p.bound with
  | .error e => .error e
  | .ok () =>
    match powersFor ck p.bound with
    | .error e => .error e
    | .ok pw =>
      match KZG.checkDegreeIsTooLarge (pdeg p.poly) pw.g.length with
      | .error e => .error e
      | .ok () =>
        if p.hb.isSome ∧ rng = false then .error .abort      -- `OptionalRng` panics when drawn from
        else KZG.commit pw p.poly p.hb true draws

/-- `SonicKZG10::commit` -/
def commit (ck : CK F) : List (LPoly F) → Bool → List F →
    Except Err (List (LComm F) × List (List F) × List F)
  | [], _, draws => .ok ([], [], draws)
  | p :: ps, rng, draws =>
    match commitOne ck p rng draws with
    | .error e => .error e
    | .ok (c, r, draws') =>
      match commit ck ps rng draws' with
      | .error e => .error e
      | .ok (cs, rs, d) => .ok (⟨p.label, c, p.bound⟩ :: cs, r :: rs, d)

/-! ### open -/

/-- the loop of `SonicKZG10::open`.  The head of the challenge list is `curr_challenge`; after each
polynomial the next one is squeezed; at the end the current one is dropped unused.
Returns `(Σ ξⱼ·pⱼ, Σ ξⱼ·rⱼ)` and the unused challenges. -/
def openLoop (ck : CK F) : List (LPoly F) → List (List F) → List F → List F × List F →
    Except Err ((List F × List F) × List F)
  | p :: ps, st :: sts, ξ :: ξs, acc =>
    match checkDegreesAndBounds ck.maxDegree ck.bounds p.poly p.bound with
    | .error e => .error e
    | .ok () => openLoop ck ps sts ξs (padd acc.1 (pscale ξ p.poly), padd acc.2 (pscale ξ st))
  | _, _, _ :: ξs, acc => .ok (acc, ξs)
  | _, _, [], _ => .error .abort                    -- the model's challenge list ran out

/-- `SonicKZG10::open` -/
def «open» (ck : CK F) (ps : List (LPoly F)) (z : F) (sts : List (List F)) (ξs : List F) :
    Except Err (KZG.Proof F × List F) :=
  match openLoop ck ps sts ξs ([], []) with
  | .error e => .error e
  | .ok ((P, R), rest) =>
    match KZG.open ⟨ck.powers, ck.gammaPowers⟩ P z R with
    | .error e => .error e
    | .ok π => .ok (π, rest)

/-! ### check -/

/-- `BTreeMap<Option<usize>, G1>`: `None < Some 0 < Some 1 < …` -/
abbrev CMap (F : Type) := List (Option Nat × F)

def ltB : Option Nat → Option Nat → Bool
  | none, none => false
  | none, some _ => true
  | some _, none => false
  | some a, some b => decide (a < b)

/-- `*map.entry(k).or_insert(zero) += x` -/
def mapAdd (k : Option Nat) (x : F) : CMap F → CMap F
  | [] => [(k, x)]
  | e :: es =>
    if k = e.1 then (e.1, e.2 + x) :: es
    else if ltB k e.1 then (k, x) :: e :: es
    else e :: mapAdd k x es

/-- the commitment side of `check_elems`: `Σ_b C_b · shift(b)`, `none` when a bound has no G2 element
(`UnsupportedDegreeBound`) -/
def pairSum (σ : Option Nat → Option F) : CMap F → Option F
  | [] => some 0
  | e :: es =>
    match σ e.1 with
    | none => none
    | some s =>
      match pairSum σ es with
      | none => none
      | some t => some (e.2 * s + t)

/-- the loop of `accumulate_elems`: per degree bound `Σ ρ·ξⱼ·Cⱼ`, and `Σ ξⱼ·vⱼ` -/
def accLoop (ρ : F) : List (LComm F) → List F → List F → CMap F → F →
    Except Err ((CMap F × F) × List F)
  | c :: cs, v :: vs, ξ :: ξs, m, V =>
    accLoop ρ cs vs ξs (mapAdd c.bound (ρ * (ξ * c.comm)) m) (V + v * ξ)
  | _, _, _ :: ξs, m, V => .ok ((m, V), ξs)
  | _, _, [], _, _ => .error .abort                 -- the model's challenge list ran out

/-- `SonicKZG10::accumulate_elems`; the accumulators are
`(combined_comms, combined_witness, combined_adjusted_witness)`; `ρ = 1` models `randomizer: None` -/
def accumulate (vk : VK F) (cs : List (LComm F)) (z : F) (vs : List F) (π : KZG.Proof F)
    (ξs : List F) (ρ : F) (acc : CMap F × F × F) : Except Err ((CMap F × F × F) × List F) :=
  match accLoop ρ cs vs ξs acc.1 0 with
  | .error e => .error e
  | .ok ((m, V), rest) =>
    .ok ((m, acc.2.1 + ρ * π.w,
          acc.2.2 + ρ * (vk.g * V - π.w * z + KZG.rvVal π.rv * vk.gammaG)), rest)

/-- the pairing product of `check_elems`, as `lhs - rhs` -/
def elemsDefect (vk : VK F) (s W A : F) : F := s - A * vk.h - W * vk.betaH

/-- `SonicKZG10::check_elems` -/
def checkElems (vk : VK F) (m : CMap F) (W A : F) : Except Err Bool :=
  match pairSum vk.shiftOf m with
  | none => .error .unsupportedBound
  | some s => .ok (decide (elemsDefect vk s W A = 0))

/-- `SonicKZG10::check` -/
def check (vk : VK F) (cs : List (LComm F)) (z : F) (vs : List F) (π : KZG.Proof F) (ξs : List F) :
    Except Err (Bool × List F) :=
  match accumulate vk cs z vs π ξs 1 ([], 0, 0) with
  | .error e => .error e
  | .ok ((m, W, A), rest) =>
    match checkElems vk m W A with
    | .error e => .error e
    | .ok b => .ok (b, rest)

/-! ### the verifier's equation, written out (specification level) -/

/-- `Σⱼ ξⱼ·Cⱼ·σ(bⱼ)` over the zip of commitments, values and challenges -/
def linC (σ : Option Nat → F) : List (LComm F) → List F → List F → F
  | c :: cs, _ :: vs, ξ :: ξs => ξ * c.comm * σ c.bound + linC σ cs vs ξs
  | _, _, _ => 0

/-- `Σⱼ ξⱼ·vⱼ` -/
def linV : List (LComm F) → List F → List F → F
  | _ :: cs, v :: vs, ξ :: ξs => ξ * v + linV cs vs ξs
  | _, _, _ => 0

/-- every degree bound met by the loop has a G2 element in the key -/
def boundsOk (σ : Option Nat → Option F) : List (LComm F) → List F → List F → Bool
  | c :: cs, _ :: vs, _ :: ξs => (σ c.bound).isSome && boundsOk σ cs vs ξs
  | _, _, _ => true

/-- the challenges left after the loop (`none`: the list ran out) -/
def restOf : List (LComm F) → List F → List F → Option (List F)
  | _ :: cs, _ :: vs, _ :: ξs => restOf cs vs ξs
  | _, _, _ :: ξs => some ξs
  | _, _, [] => none

/-- **The defect of `SonicKZG10::check`**:
`Σⱼ ξⱼ·Cⱼ·β^{-(D-dⱼ)}·h − (g·Σⱼξⱼvⱼ − z·W + rv·γ)·h − W·β·h` -/
def defect (vk : VK F) (cs : List (LComm F)) (z : F) (vs : List F) (π : KZG.Proof F) (ξs : List F) : F :=
  linC vk.shiftD cs vs ξs
    - (vk.g * linV cs vs ξs - π.w * z + KZG.rvVal π.rv * vk.gammaG) * vk.h - π.w * vk.betaH

/-! ### batch_open (trait default) / batch_check -/

/-- gather the polynomials / states of one group (`poly_st_comm.get(label)`) -/
def gatherPolys (polys : List (LPoly F)) (sts : List (List F)) : List Label →
    Except Err (List (LPoly F) × List (List F))
  | [] => .ok ([], [])
  | l :: ls =>
    match lookupLast (fun (x : LPoly F × List F) => x.1.label) l (polys.zip sts) with
    | none => .error .missingPolynomial
    | some (p, st) =>
      match gatherPolys polys sts ls with
      | .error e => .error e
      | .ok (ps, ss) => .ok (p :: ps, st :: ss)

/-- the trait-default `batch_open` over the groups of the query set -/
def batchOpenGroups (ck : CK F) (polys : List (LPoly F)) (sts : List (List F)) :
    List (Label × (F × List Label)) → List F → Except Err (List (KZG.Proof F) × List F)
  | [], ξs => .ok ([], ξs)
  | g :: gs, ξs =>
    match gatherPolys polys sts g.2.2 with
    | .error e => .error e
    | .ok (ps, ss) =>
      match Sonic.open ck ps g.2.1 ss ξs with
      | .error e => .error e
      | .ok (π, ξs') =>
        match batchOpenGroups ck polys sts gs ξs' with
        | .error e => .error e
        | .ok (πs, rest) => .ok (π :: πs, rest)

/-- `PolynomialCommitment::batch_open` (default of `lib.rs`) -/
def batchOpen (ck : CK F) (polys : List (LPoly F)) (sts : List (List F)) (qs : List (Query F))
    (ξs : List F) : Except Err (List (KZG.Proof F) × List F) :=
  batchOpenGroups ck polys sts (groupQueries qs) ξs

/-- `commitments.get(label)` / `values.get(&(label, point))` for the labels of one group -/
def gatherComms (comms : List (LComm F)) (evals : List ((Label × F) × F)) (z : F) : List Label →
    Except Err (List (LComm F) × List F)
  | [] => .ok ([], [])
  | l :: ls =>
    match lookupLast (fun (c : LComm F) => c.label) l comms with
    | none => .error .missingPolynomial
    | some c =>
      match lookupEval evals l z with
      | none => .error .missingEvaluation
      | some v =>
        match gatherComms comms evals z ls with
        | .error e => .error e
        | .ok (cs, vs) => .ok (c :: cs, v :: vs)

/-- the statement of one point label: commitments, point, values -/
abbrev Item (F : Type) := List (LComm F) × F × List F

/-- the lookups of the `batch_check` loop, for all groups in order (the Rust code interleaves them
with the accumulation; the accumulation cannot fail, so the returned error is the same) -/
def gatherGroups (comms : List (LComm F)) (evals : List ((Label × F) × F)) :
    List (Label × (F × List Label)) → Except Err (List (Item F))
  | [] => .ok []
  | g :: gs =>
    match gatherComms comms evals g.2.1 g.2.2 with
    | .error e => .error e
    | .ok (cs, vs) =>
      match gatherGroups comms evals gs with
      | .error e => .error e
      | .ok rest => .ok ((cs, g.2.1, vs) :: rest)

/-- the accumulation loop of `batch_check` over `zip(groups, proofs)`: the first group is scaled by
`ρ = 1`, later ones by the verifier's `u128` draws `rs` -/
def batchLoop (vk : VK F) : List (Item F) → List (KZG.Proof F) → F → List F → List F →
    CMap F × F × F → Except Err (CMap F × F × F)
  | it :: its, π :: πs, ρ, rs, ξs, acc =>
    match accumulate vk it.1 it.2.1 it.2.2 π ξs ρ acc with
    | .error e => .error e
    | .ok (acc', ξs') => batchLoop vk its πs (rs.headD 0) rs.tail ξs' acc'
  | _, _, _, _, _, acc => .ok acc

/-- `SonicKZG10::batch_check` on already gathered statements -/
def batchCheckItems (vk : VK F) (its : List (Item F)) (πs : List (KZG.Proof F)) (ξs rs : List F) :
    Except Err Bool :=
  match batchLoop vk its πs 1 rs ξs ([], 0, 0) with
  | .error e => .error e
  | .ok (m, W, A) => checkElems vk m W A

/-- `SonicKZG10::batch_check` -/
def batchCheck (vk : VK F) (comms : List (LComm F)) (qs : List (Query F))
    (evals : List ((Label × F) × F)) (πs : List (KZG.Proof F)) (ξs rs : List F) :
    Except Err Bool :=
  let groups := groupQueries qs
  if πs.length ≠ groups.length then .error .abort      -- assert_eq!(proof.len(), query_to_labels_map.len())
  else
    match gatherGroups comms evals groups with
    | .error e => .error e
    | .ok its => batchCheckItems vk its πs ξs rs

end Sonic
end PCV
