/-
  PCV.Model.MVPoly — sparse multivariate polynomials, mirroring `ark_poly::multivariate`
  (`SparseTerm`, `SparsePolynomial`) of ark-poly 0.5.  Core Lean only.

  A term is the list of `(variable, power)` pairs that `SparseTerm` wraps; every term the library
  builds goes through `SparseTerm::new` (`Term.new` below), whose results satisfy `Term.wf`
  (variables strictly increasing, powers positive).  A polynomial is the `terms` vector of
  `SparsePolynomial` (the `num_vars` field is passed separately where the code reads it).
-/
import PCV.Model.Poly
namespace PCV

/-- `SparseTerm(Vec<(usize, usize)>)` -/
abbrev Term := List (Nat × Nat)
/-- `SparsePolynomial::terms : Vec<(F, SparseTerm)>` -/
abbrev MVPoly (F : Type) := List (F × Term)

namespace Term

/-- `Term::degree`: sum of the powers. -/
def degree : Term → Nat
  | [] => 0
  | q :: t => q.2 + degree t

/-- `Term::vars` -/
def vars (t : Term) : List Nat := t.map (·.1)

/-- `Term::is_constant`: `self.len() == 0 || self.degree() == 0` -/
def isConstant (t : Term) : Bool := t.isEmpty || degree t == 0

/-- `term.retain(|(_, pow)| *pow != 0)` -/
def retainNonzero (t : Term) : Term := t.filter (fun q => q.2 != 0)

/-- one step of the stable sort by variable (`sort_by(|(v1,_),(v2,_)| v1.cmp(v2))`) -/
def insertVar (a : Nat × Nat) : Term → Term
  | [] => [a]
  | b :: t => if b.1 < a.1 then b :: insertVar a t else a :: b :: t

def sortVars : Term → Term
  | [] => []
  | a :: t => insertVar a (sortVars t)

/-- `SparseTerm::combine`: sums the powers of adjacent equal variables; `prev` is the last pushed
entry. -/
def combineAux : (Nat × Nat) → Term → Term
  | prev, [] => [prev]
  | prev, q :: t =>
    if prev.1 = q.1 then combineAux (prev.1, prev.2 + q.2) t else prev :: combineAux q t

def combine : Term → Term
  | [] => []
  | q :: t => combineAux q t

/-- `SparseTerm::new` -/
def new (t : Term) : Term :=
  let t' := retainNonzero t
  if t'.length > 1 then combine (sortVars t') else t'

/-- the zipped loop of `SparseTerm::partial_cmp` (equal degrees) -/
def cmpPairs : Term → Term → Ordering
  | c :: t1, o :: t2 =>
    if o.1 = c.1 then (if c.2 ≠ o.2 then compare c.2 o.2 else cmpPairs t1 t2)
    else compare o.1 c.1
  | _, _ => .eq

/-- `SparseTerm::cmp`: total degree first, then weight in the lower-numbered variables. -/
def cmp (a b : Term) : Ordering :=
  if degree a ≠ degree b then compare (degree a) (degree b) else cmpPairs a b

/-- representation invariant of every `SparseTerm::new` result -/
def wf : Term → Bool
  | [] => true
  | [q] => q.2 != 0
  | q :: r :: t => q.2 != 0 && decide (q.1 < r.1) && wf (r :: t)

/-- all variables are `< nv` (`from_coefficients_vec` asserts this) -/
def varsBelow (nv : Nat) (t : Term) : Bool := t.all (fun q => decide (q.1 < nv))

/-- power of variable `i` (the `binary_search_by` of `divide_at_point`; on a `wf` term the first
match is the only one) -/
def find? (i : Nat) : Term → Option Nat
  | [] => none
  | q :: t => if q.1 = i then some q.2 else find? i t

/-- `term_vec[idx] = (i, k)` at the position found by `find?` -/
def setPow (i k : Nat) : Term → Term
  | [] => []
  | q :: t => if q.1 = i then (i, k) :: t else q :: setPow i k t

/-- `term_vec.remove(idx)` at the position found by `find?` -/
def erase (i : Nat) : Term → Term
  | [] => []
  | q :: t => if q.1 = i then t else q :: erase i t

end Term

variable {F : Type} [Add F] [Mul F] [Sub F] [Neg F] [Zero F] [One F]

/-- `Term::evaluate`: `∏ point[var]^power` (a missing coordinate reads as `0`; the library indexes
the point and would panic). -/
def evalTerm : Term → List F → F
  | [], _ => 1
  | q :: t, x => fpow (getD' x q.1 0) q.2 * evalTerm t x

/-- `SparsePolynomial::evaluate` -/
def evalMV : MVPoly F → List F → F
  | [], _ => 0
  | ct :: p, x => ct.1 * evalTerm ct.2 x + evalMV p x

/-- `SparsePolynomial::degree`: maximal total degree of a term, `0` for no terms. -/
def degreeMV : MVPoly F → Nat
  | [] => 0
  | ct :: p => max (Term.degree ct.2) (degreeMV p)

/-- `f · p` as built inside `AddAssign<(F, &Self)>`: `*coeff * f` -/
def scaleMV (f : F) (p : MVPoly F) : MVPoly F := p.map (fun ct => (ct.1 * f, ct.2))

/-- one step of the stable `terms.sort_by(|(_, t1), (_, t2)| t1.cmp(t2))` -/
def insertTerm (a : F × Term) : MVPoly F → MVPoly F
  | [] => [a]
  | b :: l => if Term.cmp b.2 a.2 = .lt then b :: insertTerm a l else a :: b :: l

def sortTerms : MVPoly F → MVPoly F
  | [] => []
  | a :: l => insertTerm a (sortTerms l)

/-- the dedup loop of `from_coefficients_vec`: `prev = (prev.0 + term.0, prev.1)` when the terms
are equal -/
def combineTermsAux : (F × Term) → MVPoly F → MVPoly F
  | prev, [] => [prev]
  | prev, q :: l =>
    if prev.2 = q.2 then combineTermsAux (prev.1 + q.1, prev.2) l else prev :: combineTermsAux q l

def combineTerms : MVPoly F → MVPoly F
  | [] => []
  | q :: l => combineTermsAux q l

section Dec
variable [DecidableEq F]

/-- `remove_zeros` / `retain(|(c, _)| !c.is_zero())` -/
def removeZeros (p : MVPoly F) : MVPoly F := p.filter (fun ct => !decide (ct.1 = 0))

/-- `SparsePolynomial::from_coefficients_vec` (without the `num_vars` assertion, see
`polyVarsBelow`) -/
def fromCoeffs (l : MVPoly F) : MVPoly F := removeZeros (combineTerms (sortTerms l))

/-- `Zero::is_zero`: no terms, or all coefficients zero -/
def isZeroMV (p : MVPoly F) : Bool := p.isEmpty || p.all (fun ct => decide (ct.1 = 0))

/-- the peek/merge loop of `impl Add for &SparsePolynomial`; `fuel ≥ |p| + |q|` -/
def mergeMV : Nat → MVPoly F → MVPoly F → MVPoly F
  | 0, _, _ => []
  | _ + 1, [], q => q
  | _ + 1, p, [] => p
  | n + 1, a :: p, b :: q =>
    if Term.cmp a.2 b.2 = .lt then a :: mergeMV n p (b :: q)
    else if Term.cmp a.2 b.2 = .eq then (a.1 + b.1, a.2) :: mergeMV n p q
    else b :: mergeMV n (a :: p) q

/-- `&p + &q` -/
def addMV (p q : MVPoly F) : MVPoly F := removeZeros (mergeMV (p.length + q.length + 1) p q)

/-- `p += (f, q)` -/
def addScaledMV (p : MVPoly F) (f : F) (q : MVPoly F) : MVPoly F := addMV p (scaleMV f q)

end Dec

def polyVarsBelow (nv : Nat) (p : MVPoly F) : Bool := p.all (fun ct => Term.varsBelow nv ct.2)
def polyWf (p : MVPoly F) : Bool := p.all (fun ct => Term.wf ct.2)

end PCV
