/-
  PCV.Model.HyraxTranscript — the transcript view of `poly-commit/src/hyrax/mod.rs`: `HyraxPC::open`
  and `HyraxPC::check` once more, statement by statement, on a sponge that is its own event history
  (`Model/SpongeEv.lean`).  Every `sponge.absorb(..)` of the code appends an `absorb` event naming
  the absorbed object, the `sponge.squeeze_field_elements(1)[0]` of each loop iteration appends
  `squeezeField 1` and returns the random oracle's value at the history.  The algebra of one
  iteration is the untouched `Hyrax.openOne` / `Hyrax.preCheck` / `Hyrax.postCheck`; the challenge
  they take as an argument is now the squeezed one.

  Batch and combination forms: Hyrax uses the trait defaults of `lib.rs` unchanged, so they are
  `TraitDefault.batchOpen` … instantiated with the functions of this file (section "trait defaults").
  Core Lean only.
-/
import PCV.Model.Hyrax
import PCV.Model.SpongeEv
import PCV.Model.TraitDefault
namespace PCV
namespace Hyrax

variable {F : Type} [Add F] [Mul F] [Sub F] [Neg F] [Zero F] [One F]

/-- What Hyrax absorbs (group elements in exponent form, DESIGN §2.1):
* `key ks h` — `serialize_to_vec!(*ck)` / `serialize_to_vec!(*vk)`: the whole Pedersen key;
* `rowComs T` — `serialize_to_vec!(com.row_coms)`: the row commitments of ONE commitment;
* `point pt` — `sponge.absorb(point)`;
* `comEval x`, `comD x`, `comB x` — the three commitments of the dot-product argument. -/
inductive Item (F : Type)
  | key (ks : List F) (h : F)
  | rowComs (T : List F)
  | point (pt : List F)
  | comEval (x : F)
  | comD (x : F)
  | comB (x : F)
  deriving DecidableEq, Repr

abbrev Log (F : Type) := Sponge.Log (Item F)
abbrev RO (F : Type) := SpongeRO (Item F) F

/-- The six absorbs of one loop iteration of `open` and of `check`, in code order:
"public parameters", "the commitment to the polynomial", "the point", "the commitment to the
evaluation", "the two auxiliary commitments". -/
def absorbIter (s : Log F) (ks : List F) (hh : F) (rowComs point : List F) (ce cd cb : F) : Log F :=
  let s := Sponge.absorb s (.key ks hh)
  let s := Sponge.absorb s (.rowComs rowComs)
  let s := Sponge.absorb s (.point point)
  let s := Sponge.absorb s (.comEval ce)
  let s := Sponge.absorb s (.comD cd)
  Sponge.absorb s (.comB cb)

/-! ### `open` -/

/-- The part of one iteration of `open` between the absorbs of the statement and the absorbs of
the argument's commitments: `com_eval`, `com_d`, `com_b` (`Hyrax.openOne` computes the same three
values; they do not depend on the challenge).  Same refusals, same order. -/
def openComs (ks : List F) (hh : F) (L R : List F) (st : State F) (rEval : F) (d : List F)
    (rD rB : F) : Except Err (F × F × F) :=
  match st.mat.rowMul L with
  | .error e => .error e
  | .ok lt =>
    match key0 ks with
    | none => .error .abort
    | some k0 =>
      if ks.length ≠ d.length then .error .abort
      else .ok (k0 * innerProduct lt R + hh * rEval, dot ks d + hh * rD,
                k0 * innerProduct R d + hh * rB)

/-- The loop of `HyraxPC::open` over `labeled_polynomials.zip(commitments.zip(states))`; an item is
the `OpenItem` of the plain model together with the `row_coms` of its commitment (which `open` reads
only to absorb them).  Returns the proofs, the unused RNG draws and the sponge. -/
def openLoopT (ro : RO F) (ks : List F) (hh : F) (L R : List F) (n dim : Nat) (point : List F) :
    List (OpenItem F × List F) → List F → Log F → Except Err (List (Proof F) × List F × Log F)
  | [], draws, s => .ok ([], draws, s)
  | it :: its, draws, s =>
    if it.1.polyLabel ≠ it.1.comLabel then .error .mismatchedLabels
    else if it.1.nv ≠ n then .error .invalidNumVars          -- `MismatchedNumVars`
    else if draws.length < dim + 3 then .error .abort          -- the model's draw list ran out
    else
      match openComs ks hh L R it.1.st (drawREval draws) (drawD dim draws) (drawRD dim draws)
          (drawRB dim draws) with
      | .error e => .error e
      | .ok (ce, cd, cb) =>
        let s1 := absorbIter s ks hh it.2 point ce cd cb
        let cs2 := Sponge.squeezeOne ro s1                     -- `squeeze_field_elements(1)[0]`
        match openOne ks hh L R it.1.st (drawREval draws) (drawD dim draws) (drawRD dim draws)
            (drawRB dim draws) cs2.1 with
        | .error e => .error e
        | .ok π =>
          match openLoopT ro ks hh L R n dim point its (draws.drop (dim + 3)) cs2.2 with
          | .error e => .error e
          | .ok (πs, rest, s') => .ok (π :: πs, rest, s')

/-- `HyraxPC::open` on a sponge. -/
def openT (ro : RO F) (ks : List F) (hh : F) (items : List (OpenItem F × List F)) (point : List F)
    (draws : List F) (s : Log F) : Except Err (List (Proof F) × List F × Log F) :=
  let n := point.length
  if n % 2 = 1 then .error .invalidNumVars
  else openLoopT ro ks hh (tensorL point) (tensorR point) n (2 ^ (n / 2)) point items draws s

/-! ### `check` -/

section Dec
variable [DecidableEq F]

/-- The loop of `HyraxPC::check`.  An iteration that returns `Ok(false)` at the evaluation
commitment leaves the sponge untouched; one that returns `Ok(false)` at equation (14) or (13) has
absorbed and squeezed; the caller's sponge stays in that state. -/
def checkLoopT (ro : RO F) (ks : List F) (hh : F) (L R : List F) (dim : Nat) (point : List F) :
    List (List F) → List F → List (Proof F) → Log F → Except Err (Bool × Log F)
  | com :: coms, v :: vs, π :: πs, s =>
    match preCheck ks hh dim com v π with
    | .error e => .error e
    | .ok false => .ok (false, s)
    | .ok true =>
      let s1 := absorbIter s ks hh com point π.comEval π.comD π.comB
      let cs2 := Sponge.squeezeOne ro s1
      match postCheck ks hh L R com π cs2.1 with
      | .error e => .error e
      | .ok false => .ok (false, cs2.2)
      | .ok true => checkLoopT ro ks hh L R dim point coms vs πs cs2.2
  | _, _, _, s => .ok (true, s)

/-- `HyraxPC::check` on a sponge. -/
def checkT (ro : RO F) (ks : List F) (hh : F) (coms : List (List F)) (point : List F)
    (values : List F) (proofs : List (Proof F)) (s : Log F) : Except Err (Bool × Log F) :=
  let n := point.length
  if n % 2 = 1 then .error .invalidNumVars
  else if coms.length ≠ proofs.length ∨ values.length ≠ proofs.length then
    .error .incorrectInputLength
  else checkLoopT ro ks hh (tensorL point) (tensorR point) (2 ^ (n / 2)) point coms values proofs s

end Dec

/-! ### what the log and the challenges depend on -/

/-- the components of a proof that are absorbed: `(com_eval, com_d, com_b)` -/
def Proof.absorbed (π : Proof F) : F × F × F := (π.comEval, π.comD, π.comB)

/-- The sponge after `k` complete iterations over commitments `Ts` and absorbed triples `as`
(7 events per iteration) — a function of the key, the commitments, the point and the absorbed proof
components only; the oracle does not enter (nothing squeezed is absorbed). -/
def runLog (ks : List F) (hh : F) (point : List F) : List (List F) → List (F × F × F) → Log F → Log F
  | T :: Ts, a :: as, s =>
    runLog ks hh point Ts as (absorbIter s ks hh T point a.1 a.2.1 a.2.2 ++ [.squeezeField 1])
  | _, _, s => s

/-- the challenges squeezed in those iterations -/
def runChallenges (ro : RO F) (ks : List F) (hh : F) (point : List F) :
    List (List F) → List (F × F × F) → Log F → List F
  | T :: Ts, a :: as, s =>
    let s1 := absorbIter s ks hh T point a.1 a.2.1 a.2.2
    ro.fe s1 0 :: runChallenges ro ks hh point Ts as (s1 ++ [.squeezeField 1])
  | _, _, _ => []

/-! ### trait defaults (`lib.rs`): `batch_open`, `batch_check`, `open_combinations`,
`check_combinations` on Hyrax's `open` / `check` -/

/-- a labelled polynomial as the defaults see it -/
structure LPoly (F : Type) where
  label : List Nat
  poly : MLPoly F
  deriving DecidableEq, Repr

/-- a labelled commitment -/
structure LComm (F : Type) where
  label : List Nat
  rowComs : List F
  deriving DecidableEq, Repr

/-- the prover's `&mut` state: the sponge and the RNG (its unread draws) -/
abbrev PState (F : Type) := Log F × List F

/-- the `(polynomial, state, commitment)` triples a default hands to `open`, as `open` items -/
def toItems (ts : List ((LPoly F × State F) × LComm F)) : List (OpenItem F × List F) :=
  ts.map fun t => (⟨t.1.1.label, t.2.label, t.1.1.poly.nv, t.1.2⟩, t.2.rowComs)

/-- `Self::open` as the defaults call it -/
def openF (ro : RO F) (ks : List F) (hh : F) (ts : List ((LPoly F × State F) × LComm F))
    (point : List F) (σ : PState F) : Except Err (List (Proof F) × PState F) :=
  match openT ro ks hh (toItems ts) point σ.2 σ.1 with
  | .error e => .error e
  | .ok (πs, rest, s') => .ok (πs, (s', rest))

/-- `Self::check` as the defaults call it -/
def checkF [DecidableEq F] (ro : RO F) (ks : List F) (hh : F) (cs : List (LComm F))
    (point : List F) (vs : List F) (πs : List (Proof F)) (s : Log F) : Except Err (Bool × Log F) :=
  checkT ro ks hh (cs.map (·.rowComs)) point vs πs s

end Hyrax
end PCV
