/-
  PCV.Model.QuerySet — `poly-commit/src/lib.rs`, `evaluate_query_set`, over sorted association
  lists (the model of `BTreeMap`).  `QuerySet<T> = BTreeSet<(String, (String, T))>` is iterated in
  its order and handed over as a list; `Evaluations<T, F> = BTreeMap<(String, T), F>`.
  Core Lean only.
-/
import PCV.Model.LC
namespace PCV
namespace QS

abbrev Label := LC.Label

section Map
variable {K V : Type} [DecidableEq K]

/-- `BTreeMap::insert` on a list sorted by `lt`: an existing key is overwritten. -/
def insert (lt : K → K → Bool) (k : K) (v : V) : List (K × V) → List (K × V)
  | [] => [(k, v)]
  | kv :: rest =>
    if k = kv.1 then (k, v) :: rest
    else if lt k kv.1 then (k, v) :: kv :: rest
    else kv :: insert lt k v rest

/-- `BTreeMap::get` -/
def lookup (k : K) : List (K × V) → Option V
  | [] => none
  | kv :: rest => if k = kv.1 then some kv.2 else lookup k rest

/-- `BTreeMap::from_iter`: later duplicates overwrite earlier ones. -/
def fromList (lt : K → K → Bool) : List (K × V) → List (K × V) → List (K × V)
  | [], acc => acc
  | kv :: rest, acc => fromList lt rest (insert lt kv.1 kv.2 acc)

/-- the last entry with key `k` of an (unsorted) list -/
def lastWith (k : K) : List (K × V) → Option V
  | [] => none
  | kv :: rest =>
    match lastWith k rest with
    | some v => some v
    | none => if k = kv.1 then some kv.2 else none

end Map

variable {P Pt F : Type} [DecidableEq Pt]

/-- the key `(label.clone(), point.clone())` of one query `(label, (point_label, point))` -/
def keyOf (q : Label × (Label × Pt)) : Label × Pt := (q.1, q.2.2)

/-- the loop `for (label, (_, point)) in query_set`; `polys.get(label).expect(..)` panics on an
unknown label. -/
def evalLoop (ltK : Label × Pt → Label × Pt → Bool) (evalP : P → Pt → F)
    (pm : List (Label × P)) :
    List (Label × (Label × Pt)) → List ((Label × Pt) × F) → Except Err (List ((Label × Pt) × F))
  | [], acc => .ok acc
  | q :: qs, acc =>
    match lookup q.1 pm with
    | none => .error .abort
    | some p => evalLoop ltK evalP pm qs (insert ltK (keyOf q) (evalP p q.2.2) acc)

/-- `evaluate_query_set(polys, query_set)`; `polys` are `(label, polynomial)` pairs, `evalP` is
`Polynomial::evaluate`, `ltL`/`ltK` the `Ord` of `String` and of `(String, T)`. -/
def evaluateQuerySet (ltL : Label → Label → Bool) (ltK : Label × Pt → Label × Pt → Bool)
    (evalP : P → Pt → F) (polys : List (Label × P)) (qs : List (Label × (Label × Pt))) :
    Except Err (List ((Label × Pt) × F)) :=
  evalLoop ltK evalP (fromList ltL polys []) qs []

/-- `Ord for String`: byte-wise lexicographic -/
def ltLabel : Label → Label → Bool
  | [], [] => false
  | [], _ :: _ => true
  | _ :: _, [] => false
  | a :: as, b :: bs => if a < b then true else if b < a then false else ltLabel as bs

/-- `Ord for (String, T)`: lexicographic, `ltP` is the `Ord` of the point type -/
def ltKey (ltP : Pt → Pt → Bool) (a b : Label × Pt) : Bool :=
  ltLabel a.1 b.1 || (decide (a.1 = b.1) && ltP a.2 b.2)

end QS
end PCV
