/-
  PCV.Model.DrvC12 — driver requests of property C12 (op names start with "c12.").
-/
import PCV.Model.Wire
import PCV.Model.DrvUtil
namespace PCV
namespace DrvC12

/-- `none` = not an op of this module -/
def handle (p : Nat) (r : Req) : Option (Except String String) :=
  let _ := p
  let _ := r
  none

end DrvC12
end PCV
