/-
  PCV.Model.DrvC12 — driver requests of property C12 (op names start with "c12.").

  `c12.layout idx=<i> fields=[[b,…],…]`
      `i` selects the i-th entry of `Generated.SerSchemas.all` (the hand-written impl as T1 read it
      from the current source); `fields` are the encodings of the struct's fields by the real
      library, one byte list per *declared* field in declaration order (`[]` for prepared fields,
      which have no encoding; the model fills them with their own source's bytes).
      Reply: `enc` = what `structCodec` writes (the field encodings in the model's write order),
      `size` = what it reports, `rt` = 1 iff the model's decoder, reading each field with the width
      it was written with, returns the record and the two sentinel bytes appended, `trunc` = 1 iff
      it refuses the encoding with the last byte removed.
  `c12.names idx=<i>` → `n` = number of declared fields, `w` = number of written fields.
-/
import PCV.Model.Wire
import PCV.Model.DrvUtil
import PCV.Model.Codec
import PCV.Generated.SerSchemas
namespace PCV
namespace DrvC12
open Driver

def schemaAt (i : Nat) : Except String Schema :=
  match Generated.SerSchemas.all[i]? with
  | some s => .ok s.2
  | none => .error "no-such-schema"

/-- the record the byte lists describe; a prepared field `prepared_X` holds the bytes of `X` -/
def mkRec (s : Schema) (vals : List (List Nat)) : Rec (List Nat) :=
  let base : Rec (List Nat) := s.fieldNames.zip vals
  base.map fun (f, v) =>
    match s.preparedFrom f with
    | some loc =>
      match s.read.find? (fun r => r.loc == loc) with
      | some r => (f, base.get r.field)
      | none => (f, v)
    | none => (f, v)

def layout (s : Schema) (vals : List (List Nat)) : List (String × Val) :=
  let x := mkRec s vals
  let fc : String → Codec (List Nat) := fun f => Codec.raw (x.get f).length
  let c := s.structCodec fc (fun _ v => v)
  let e := c.enc x
  let rt : Bool :=
    match c.dec (e ++ [171, 205]) with
    | some (y, rest) => decide (y = x) && decide (rest = [171, 205])
    | none => false
  let trunc : Bool :=
    match e with
    | [] => true
    | _ => (c.dec e.dropLast).isNone
  [("enc", vNats e), ("size", .n (c.size x)), ("rt", vBool rt), ("trunc", vBool trunc)]

/-- `none` = not an op of this module -/
def handle (p : Nat) (r : Req) : Option (Except String String) :=
  let _ := p
  match r.op with
  | "c12.layout" => some do
    let i ← asNat (← need r "idx")
    let s ← schemaAt i
    let fs ← asList (← need r "fields")
    let vals ← fs.mapM asNats
    if vals.length ≠ s.fields.length then .error "field-count-mismatch"
    else pure <| okReply (layout s vals)
  | "c12.names" => some do
    let i ← asNat (← need r "idx")
    let s ← schemaAt i
    pure <| okReply [("n", .n s.fields.length), ("w", .n s.written.length)]
  | _ => none

end DrvC12
end PCV
