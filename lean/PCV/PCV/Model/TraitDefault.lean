/-
  PCV.Model.TraitDefault — the trait-default methods of `PolynomialCommitment`
  (`poly-commit/src/lib.rs`): `batch_open`, `batch_check`, `open_combinations`,
  `check_combinations` and the helper `lc_query_set_to_poly_query_set` (`evaluate_query_set` is
  `QS.evaluateQuerySet`).  They are used unchanged by Hyrax and the linear-code schemes.

  The model is generic over the scheme: the scheme's own `open` / `check` are the parameters
  `openF` / `checkF`; everything they read or write by `&mut` (the caller's sponge, the RNG behind
  `OptionalRng`) is ONE abstract state `σ` that is threaded through the calls in call order.

  Conventions (as in `Model/Marlin.lean`, reused by import): labels are byte lists ordered by
  `QS.ltLabel`; a `BTreeMap` built with `collect`/`from_iter` from labelled items is the item list
  itself read with the last-write-wins lookup `Marlin.lookupLast`; an `Evaluations` map is the list
  of its insertions read with `QS.lastWith`; a `QuerySet` (`BTreeSet<(String, (String, T))>`) is the
  strictly sorted duplicate-free list `querySet ltP qs` of the queries the caller inserted;
  `query_to_labels_map` is `Marlin.groupQueries`.  `ltP` is the `Ord` of the point type.
  Core Lean only.
-/
import PCV.Model.Marlin
namespace PCV
namespace TraitDefault

abbrev Label := LC.Label

/-- one element of a `QuerySet<T>`: `(label, (point_label, point))` -/
abbrev Query (Pt : Type) := Label × (Label × Pt)

/-- one entry of `query_to_labels_map`: `(point_label, (point, labels))` -/
abbrev Group (Pt : Type) := Label × (Pt × List Label)

/-! ### `BTreeSet` -/

section Set
variable {α : Type} [DecidableEq α]

/-- `BTreeSet::insert` on a strictly sorted list: an element that is already present is kept. -/
def setInsert (lt : α → α → Bool) (x : α) : List α → List α
  | [] => [x]
  | y :: ys =>
    if x = y then y :: ys
    else if lt x y then x :: y :: ys
    else y :: setInsert lt x ys

/-- `BTreeSet::from_iter` / a sequence of `insert`s -/
def setOfList (lt : α → α → Bool) (xs : List α) : List α :=
  xs.foldl (fun acc x => setInsert lt x acc) []

end Set

section Generic
variable {Pt : Type} [DecidableEq Pt]

/-- `Ord for (String, (String, T))`: lexicographic -/
def ltQuery (ltP : Pt → Pt → Bool) : Query Pt → Query Pt → Bool :=
  QS.ltKey (QS.ltKey ltP)

/-- the `QuerySet` holding the queries `qs` (iteration order of the `BTreeSet`) -/
def querySet (ltP : Pt → Pt → Bool) (qs : List (Query Pt)) : List (Query Pt) :=
  setOfList (ltQuery ltP) qs

/-- `query_to_labels_map` of `batch_open` / `batch_check`: keyed by POINT LABEL, holding the point of
the first query (in set order) with that point label and the `BTreeSet` of polynomial labels. -/
def groups (qset : List (Query Pt)) : List (Group Pt) := Marlin.groupQueries qset

/-! ### `batch_open` -/

section Open
variable {LP S C PF σ : Type}

/-- `labeled_polynomials.zip(states).zip(commitments)`: the shortest list decides the length -/
def polyStComm (polys : List LP) (sts : List S) (comms : List C) : List ((LP × S) × C) :=
  (polys.zip sts).zip comms

/-- the inner loop `for label in labels` of `batch_open`: `poly_st_comm.get(label)` (the map is keyed by
the label of the POLYNOMIAL, later duplicates overwrite), `MissingPolynomial` at the first unknown
label. -/
def gatherOpen (lblP : LP → Label) (trips : List ((LP × S) × C)) :
    List Label → Except Err (List ((LP × S) × C))
  | [] => .ok []
  | l :: ls =>
    match Marlin.lookupLast (fun (t : (LP × S) × C) => lblP t.1.1) l trips with
    | none => .error .missingPolynomial
    | some t =>
      match gatherOpen lblP trips ls with
      | .error e => .error e
      | .ok ts => .ok (t :: ts)

/-- the loop `for (_point_label, (point, labels)) in query_to_labels_map` of `batch_open`: one call of
the scheme's `open` per group, in map order, on the same sponge / RNG; `?` leaves at the first error -/
def batchOpenLoop (lblP : LP → Label)
    (openF : List ((LP × S) × C) → Pt → σ → Except Err (PF × σ))
    (trips : List ((LP × S) × C)) : List (Group Pt) → σ → Except Err (List PF × σ)
  | [], s => .ok ([], s)
  | g :: gs, s =>
    match gatherOpen lblP trips g.2.2 with
    | .error e => .error e
    | .ok ts =>
      match openF ts g.2.1 s with
      | .error e => .error e
      | .ok (π, s1) =>
        match batchOpenLoop lblP openF trips gs s1 with
        | .error e => .error e
        | .ok (πs, s2) => .ok (π :: πs, s2)

/-- default `batch_open` on a `QuerySet` given in set order -/
def batchOpenSet (lblP : LP → Label)
    (openF : List ((LP × S) × C) → Pt → σ → Except Err (PF × σ))
    (polys : List LP) (sts : List S) (comms : List C) (qset : List (Query Pt)) (s : σ) :
    Except Err (List PF × σ) :=
  batchOpenLoop lblP openF (polyStComm polys sts comms) (groups qset) s

/-- default `PolynomialCommitment::batch_open`; `qs` are the queries the caller put into the set -/
def batchOpen (ltP : Pt → Pt → Bool) (lblP : LP → Label)
    (openF : List ((LP × S) × C) → Pt → σ → Except Err (PF × σ))
    (polys : List LP) (sts : List S) (comms : List C) (qs : List (Query Pt)) (s : σ) :
    Except Err (List PF × σ) :=
  batchOpenSet lblP openF polys sts comms (querySet ltP qs) s

end Open

/-! ### `batch_check` -/

section Check
variable {C V PF σ : Type}

/-- the inner loop `for label in labels` of `batch_check`: `commitments.get(label)`
(`MissingPolynomial`), then `evaluations.get(&(label, point))` (`MissingEvaluation`), label by label -/
def gatherCheck (lblC : C → Label) (comms : List C) (evals : List ((Label × Pt) × V)) (z : Pt) :
    List Label → Except Err (List C × List V)
  | [] => .ok ([], [])
  | l :: ls =>
    match Marlin.lookupLast lblC l comms with
    | none => .error .missingPolynomial
    | some c =>
      match QS.lastWith (l, z) evals with
      | none => .error .missingEvaluation
      | some v =>
        match gatherCheck lblC comms evals z ls with
        | .error e => .error e
        | .ok (cs, vs) => .ok (c :: cs, v :: vs)

/-- the loop over `query_to_labels_map.into_iter().zip(proofs)`: `result &= Self::check(..)?` — a
`false` does not stop the loop, an error does -/
def batchCheckLoop (lblC : C → Label)
    (checkF : List C → Pt → List V → PF → σ → Except Err (Bool × σ))
    (comms : List C) (evals : List ((Label × Pt) × V)) :
    List (Group Pt) → List PF → Bool → σ → Except Err (Bool × σ)
  | g :: gs, π :: πs, acc, s =>
    match gatherCheck lblC comms evals g.2.1 g.2.2 with
    | .error e => .error e
    | .ok (cs, vs) =>
      match checkF cs g.2.1 vs π s with
      | .error e => .error e
      | .ok (b, s1) => batchCheckLoop lblC checkF comms evals gs πs (acc && b) s1
  | _, _, acc, s => .ok (acc, s)

/-- default `batch_check` on a `QuerySet` given in set order; `assert_eq!(proofs.len(), ..)` panics -/
def batchCheckSet (lblC : C → Label)
    (checkF : List C → Pt → List V → PF → σ → Except Err (Bool × σ))
    (comms : List C) (qset : List (Query Pt)) (evals : List ((Label × Pt) × V)) (proofs : List PF)
    (s : σ) : Except Err (Bool × σ) :=
  if proofs.length ≠ (groups qset).length then .error .abort
  else batchCheckLoop lblC checkF comms evals (groups qset) proofs true s

/-- default `PolynomialCommitment::batch_check` -/
def batchCheck (ltP : Pt → Pt → Bool) (lblC : C → Label)
    (checkF : List C → Pt → List V → PF → σ → Except Err (Bool × σ))
    (comms : List C) (qs : List (Query Pt)) (evals : List ((Label × Pt) × V)) (proofs : List PF)
    (s : σ) : Except Err (Bool × σ) :=
  batchCheckSet lblC checkF comms (querySet ltP qs) evals proofs s

end Check

/-! ### linear combinations -/

section LCs
variable {F : Type}

/-- the polynomial labels of an equation, in term order: `lc.iter().filter(|(_, l)| !l.is_one())`
followed by `if let LCTerm::PolyLabel(l)` (the coefficient is not looked at) -/
def lcPolyLabels (lc : LC.LinComb F) : List Label :=
  lc.terms.filterMap fun t => t.2.tryLabel

/-- `BTreeMap::from_iter(lcs.map(|lc| (lc.label(), lc)))` then `.get(label)` -/
def lcGet (lcs : List (LC.LinComb F)) (l : Label) : Option (LC.LinComb F) :=
  Marlin.lookupLast (fun (lc : LC.LinComb F) => lc.label) l lcs

/-- `lc_s.values()` of `check_combinations`: the equations in label order, later duplicates of a label
having overwritten earlier ones -/
def lcValues (lcs : List (LC.LinComb F)) : List (LC.LinComb F) :=
  (QS.fromList QS.ltLabel (lcs.map fun lc => (lc.label, lc)) []).map (·.2)

/-- one iteration of the outer loop of `lc_query_set_to_poly_query_set` -/
def lcQueryStep (ltP : Pt → Pt → Bool) (lcs : List (LC.LinComb F)) (acc : List (Query Pt))
    (q : Query Pt) : List (Query Pt) :=
  match lcGet lcs q.1 with
  | none => acc
  | some lc => (lcPolyLabels lc).foldl (fun a l => setInsert (ltQuery ltP) (l, q.2) a) acc

/-- `lc_query_set_to_poly_query_set(linear_combinations, query_set)`: every polynomial label of a
queried equation at that equation's `(point_label, point)`; queries naming no supplied equation are
skipped -/
def lcToPolyQuerySet (ltP : Pt → Pt → Bool) (lcs : List (LC.LinComb F))
    (qset : List (Query Pt)) : List (Query Pt) :=
  qset.foldl (lcQueryStep ltP lcs) []

section Prover
variable {LP S C PF σ : Type}

/-- default `PolynomialCommitment::open_combinations`: `evaluate_query_set` (which panics on an
unknown polynomial label) runs before `batch_open`; the proof carries the values of the
`Evaluations` map in key order. -/
def openCombinations (ltP : Pt → Pt → Bool) (lblP : LP → Label) (evalP : LP → Pt → F)
    (openF : List ((LP × S) × C) → Pt → σ → Except Err (PF × σ))
    (lcs : List (LC.LinComb F)) (polys : List LP) (sts : List S) (comms : List C)
    (qs : List (Query Pt)) (s : σ) : Except Err ((List PF × Option (List F)) × σ) :=
  let pqs := lcToPolyQuerySet ltP lcs (querySet ltP qs)
  match QS.evaluateQuerySet QS.ltLabel (QS.ltKey ltP) evalP (polys.map fun p => (lblP p, p)) pqs with
  | .error e => .error e
  | .ok evs =>
    match batchOpenSet lblP openF polys sts comms pqs s with
    | .error e => .error e
    | .ok (πs, s1) => .ok ((πs, some (evs.map (·.2))), s1)

end Prover

section Verifier
variable [Add F] [Mul F] [Zero F] [One F] [DecidableEq F]

/-- `sorted_by_poly_and_point`: the `BTreeSet` of `(poly_label, point)` of the polynomial query set -/
def evalKeys (ltP : Pt → Pt → Bool) (pqs : List (Query Pt)) : List (Label × Pt) :=
  setOfList (QS.ltKey ltP) (pqs.map QS.keyOf)

/-- `poly_evals = Evaluations::from_iter(sorted_by_poly_and_point.zip(evals))`: a shorter side ends
the pairing -/
def polyEvals (ltP : Pt → Pt → Bool) (pqs : List (Query Pt)) (evs : List F) :
    List ((Label × Pt) × F) :=
  (evalKeys ltP pqs).zip evs

/-- the loop `for (coeff, label) in lc.iter()`: `actual_rhs += coeff * eval`, `eval` being `F::one()`
for `LCTerm::One` and otherwise the transmitted evaluation (`MissingEvaluation` if absent) -/
def lcActual (pe : List ((Label × Pt) × F)) (z : Pt) : List (F × LC.LCTerm) → F → Except Err F
  | [], acc => .ok acc
  | ct :: rest, acc =>
    match ct.2 with
    | .one => lcActual pe z rest (acc + ct.1 * 1)
    | .poly l =>
      match QS.lastWith (l, z) pe with
      | none => .error .missingEvaluation
      | some v => lcActual pe z rest (acc + ct.1 * v)

/-- the loop `for &(ref lc_label, (_, ref point)) in eqn_query_set`: an equation that was not supplied
is `MissingPolynomial`, an absent claimed value `MissingEvaluation`, the first claimed value that
differs from the recomputed one returns `Ok(false)` at once. `ok true` = fall through to `batch_check`. -/
def eqnLoop (lcs : List (LC.LinComb F)) (eqnEvals : List ((Label × Pt) × F))
    (pe : List ((Label × Pt) × F)) : List (Query Pt) → Except Err Bool
  | [] => .ok true
  | q :: rest =>
    match lcGet lcs q.1 with
    | none => .error .missingPolynomial
    | some lc =>
      match QS.lastWith (q.1, q.2.2) eqnEvals with
      | none => .error .missingEvaluation
      | some claimed =>
        match lcActual pe q.2.2 lc.terms 0 with
        | .error e => .error e
        | .ok actual => if claimed ≠ actual then .ok false else eqnLoop lcs eqnEvals pe rest

variable {C PF σ : Type}

/-- default `PolynomialCommitment::check_combinations`; `proof = (πs, evals)` is the `BatchLCProof`,
`evals.clone().unwrap()` panics on `None`. On a wrong claimed value the sponge is not touched. -/
def checkCombinations (ltP : Pt → Pt → Bool) (lblC : C → Label)
    (checkF : List C → Pt → List F → PF → σ → Except Err (Bool × σ))
    (lcs : List (LC.LinComb F)) (comms : List C) (qs : List (Query Pt))
    (eqnEvals : List ((Label × Pt) × F)) (proofs : List PF) (evals : Option (List F)) (s : σ) :
    Except Err (Bool × σ) :=
  let eqs := querySet ltP qs
  let pqs := lcToPolyQuerySet ltP (lcValues lcs) eqs
  match evals with
  | none => .error .abort
  | some evs =>
    let pe := polyEvals ltP pqs evs
    match eqnLoop lcs eqnEvals pe eqs with
    | .error e => .error e
    | .ok false => .ok (false, s)
    | .ok true => batchCheckSet lblC checkF comms pqs pe proofs s

end Verifier
end LCs
end Generic

end TraitDefault
end PCV
