/-
  PCV.Proofs.LinCodeHistory — the linear-code `open` / `check` on a sponge as the `openF` / `checkF`
  of the trait defaults: the per-call hypothesis of `TrHistory.history_lockstep`.
-/
import PCV.Proofs.LinCodeTranscript
import PCV.Proofs.TranscriptHistory

set_option linter.unusedSectionVars false
set_option linter.unusedVariables false

namespace PCV
namespace LinCode
open Merkle
variable {F : Type} [Field F] [DecidableEq F] {D : Type} [DecidableEq D]

/-- the value the honest prover claims for a labelled polynomial (`= Polynomial::evaluate`, see
`C01.lincode_claimed_univariate`, `C01.lincode_claimed_multilinear`) -/
def evalLP (pp : Params F D) (lp : LPoly F) (z : Point F) : F := claimed pp z lp.coeffs

/-- every triple holds the commitment and the state `commit` makes for its polynomial, and the
polynomial is in the domain of the scheme (linear row encoder) -/
def GoodTrips (pp : Params F D) (ts : List ((LPoly F × State F D) × LComm D)) : Prop :=
  ∀ t ∈ ts, HonestTriple pp t.1.1.coeffs t.2.comm t.1.2

/-- **The per-call hypothesis of the history theorem, for the linear-code schemes** (prover and
verifier state are both just the sponge; the relation is equality). -/
theorem openF_checkF_complete (ro : TRO F D) (tp : TParams F D) :
    ∀ (ts : List ((LPoly F × State F D) × LComm D)) (z : Point F) (π : List (Proof F D))
      (sp sp' sv : TLog F D),
      GoodTrips tp.pp ts → sp = sv → openF ro tp ts z sp = .ok (π, sp') →
      ∃ sv', checkF ro tp (ts.map (·.2)) z (ts.map fun t => evalLP tp.pp t.1.1 z) π sv = .ok (true, sv') ∧
        sp' = sv' := by
  intro ts z π sp sp' sv hg hR ho
  subst hR
  refine ⟨sp', ?_, rfl⟩
  unfold openF at ho
  unfold checkF
  have := allT_lockstep ro tp z (ts.map fun t => (t.1.1.coeffs, t.2.comm, t.1.2))
    (by
      intro t ht
      obtain ⟨t0, ht0, rfl⟩ := List.mem_map.1 ht
      exact hg t0 ht0) sp π sp'
    (by simpa [List.map_map, Function.comp_def] using ho)
  simpa [List.map_map, Function.comp_def, evalLP] using this

end LinCode
end PCV
