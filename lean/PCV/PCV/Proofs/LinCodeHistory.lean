/-
  PCV.Proofs.LinCodeHistory — the linear-code `open` / `check` on a sponge as the `openF` / `checkF`
  of the trait defaults: the per-call hypothesis of `TrHistory.history_lockstep`.
-/
import PCV.Proofs.LinCodeTranscript
import PCV.Proofs.TranscriptHistory

set_option linter.unusedSectionVars false
set_option linter.unusedVariables false

namespace PCV
namespace LinCode
open Merkle
variable {F : Type} [Field F] [DecidableEq F] {D : Type} [DecidableEq D] {Pt : Type}

/-- the value the honest prover claims for a labelled polynomial (`= Polynomial::evaluate`, see
`C01.lincode_claimed_univariate`, `C01.lincode_claimed_multilinear`) -/
def evalLP (pp : Params F D) (lp : LPoly F) (z : Point F) : F := claimed pp z lp.coeffs

/-- every triple holds the commitment and the state `commit` makes for its polynomial, the
polynomial is in the domain of the scheme (linear row encoder), and every point `ι z` of the point
type `Pt` the history ranges over has the number of coordinates the width of its matrix asks for
(`PointFits`; needed since fix D23: `open` answers for a point whose `tensor` vector `a` has another
length than `n_cols`, `check` refuses it).  `ι = Point.uni` (the univariate scheme): the last part
holds for every shape, `goodTrips_uni`; any `ι` (multilinear, or `ι = id`): it holds when the widths
are powers of two, `goodTrips_of_pow2`. -/
def GoodTrips (pp : Params F D) (ι : Pt → Point F) (ts : List ((LPoly F × State F D) × LComm D)) :
    Prop :=
  ∀ t ∈ ts, HonestTriple pp t.1.1.coeffs t.2.comm t.1.2 ∧
    ∀ z, PointFits (ι z) (coeffMat pp.dims t.1.1.coeffs).m (coeffMat pp.dims t.1.1.coeffs).n

theorem goodTrips_uni (pp : Params F D) (ts : List ((LPoly F × State F D) × LComm D))
    (h : ∀ t ∈ ts, HonestTriple pp t.1.1.coeffs t.2.comm t.1.2) :
    GoodTrips pp (Point.uni : F → Point F) ts :=
  fun t ht => ⟨h t ht, fun z => pointFits_uni z _ _⟩

theorem goodTrips_of_pow2 (pp : Params F D) (ι : Pt → Point F)
    (ts : List ((LPoly F × State F D) × LComm D))
    (h : ∀ t ∈ ts, HonestTriple pp t.1.1.coeffs t.2.comm t.1.2)
    (hw : ∀ t ∈ ts, 2 ^ ceilLog2 (coeffMat pp.dims t.1.1.coeffs).m = (coeffMat pp.dims t.1.1.coeffs).m) :
    GoodTrips pp ι ts :=
  fun t ht => ⟨h t ht, fun z => pointFits_of_pow2 (ι z) _ _ (hw t ht)⟩

/-- **The per-call hypothesis of the history theorem, for the linear-code schemes** (prover and
verifier state are both just the sponge; the relation is equality). -/
theorem openF_checkF_complete (ro : TRO F D) (tp : TParams F D) (ι : Pt → Point F) :
    ∀ (ts : List ((LPoly F × State F D) × LComm D)) (z : Pt) (π : List (Proof F D))
      (sp sp' sv : TLog F D),
      GoodTrips tp.pp ι ts → sp = sv → openF ro tp ts (ι z) sp = .ok (π, sp') →
      ∃ sv', checkF ro tp (ts.map (·.2)) (ι z) (ts.map fun t => evalLP tp.pp t.1.1 (ι z)) π sv
          = .ok (true, sv') ∧
        sp' = sv' := by
  intro ts z π sp sp' sv hg hR ho
  subst hR
  refine ⟨sp', ?_, rfl⟩
  unfold openF at ho
  unfold checkF
  have := allT_lockstep ro tp (ι z) (ts.map fun t => (t.1.1.coeffs, t.2.comm, t.1.2))
    (by
      intro t ht
      obtain ⟨t0, ht0, rfl⟩ := List.mem_map.1 ht
      exact (hg t0 ht0).1)
    (by
      intro t ht
      obtain ⟨t0, ht0, rfl⟩ := List.mem_map.1 ht
      exact (hg t0 ht0).2 z) sp π sp'
    (by simpa [List.map_map, Function.comp_def] using ho)
  simpa [List.map_map, Function.comp_def, evalLP] using this

end LinCode
end PCV
