/-
  PCV.Proofs.DegreeBound — why the shifted commitment enforces a degree bound.  The verifier's test
  is (through a KZG opening at the challenge point `z`) `s(z) = z^(D−d)·p(z)` for the polynomial `s`
  inside the shifted commitment; `s` has at most `D+1` coefficients because it is committed under the
  `D+1` published powers.  If `deg p > d` then `X^(D−d)·p` has a non-zero coefficient beyond `D`,
  so `s − X^(D−d)·p` is a non-zero polynomial and the test can hold only for the few `z` that are its
  roots — and `z` is drawn after both commitments are fixed.
-/
import PCV.Proofs.RootsCoeff
import PCV.Proofs.PolyMore
set_option linter.unusedSectionVars false

namespace PCV
namespace DegreeBound
variable {F : Type} [Field F] [DecidableEq F]

theorem coeff_eq_getD (p : List F) (i : Nat) : coeff p i = p.getD i 0 := by
  simp [coeff, List.getD_eq_getElem?_getD]

theorem coeff_pshift (k : Nat) (p : List F) (i : Nat) : coeff (pshift k p) (i + k) = coeff p i := by
  induction k generalizing i with
  | zero => simp [pshift]
  | succ k ih =>
    have : pshift (k + 1) p = 0 :: pshift k p := by
      simp [pshift, List.replicate_succ]
    rw [this, ← Nat.add_assoc, coeff_cons_succ]
    exact ih i

theorem coeff_beyond (s : List F) (i : Nat) (h : s.length ≤ i) : coeff s i = 0 := by
  simp [coeff, List.getElem?_eq_none h]

/-- the difference polynomial `s − X^k·p` -/
def diffPoly (s p : List F) (k : Nat) : List F := padd s (pscale (-1) (pshift k p))

theorem eval_diffPoly (s p : List F) (k : Nat) (x : F) :
    evalPoly (diffPoly s p k) x = evalPoly s x - fpow x k * evalPoly p x := by
  unfold diffPoly
  rw [eval_padd, eval_pscale, eval_pshift]; ring

/-- **Degree-bound soundness, the counting step.** `s` fits the key (`≤ D+1` coefficients), `p` has a
non-zero coefficient above `d ≤ D`: the challenge points at which the verifier's relation
`s(z) = z^(D−d)·p(z)` can hold lie in a set of at most `max(|s|, D−d+|p|) − 1` field elements. -/
theorem bound_violation_few_points (s p : List F) (D d : Nat) (hd : d ≤ D)
    (hs : s.length ≤ D + 1) (hp : ∃ i, d < i ∧ coeff p i ≠ 0) :
    ∃ S : Finset F, S.card ≤ max s.length (D - d + p.length) - 1 ∧
      ∀ z, z ∉ S → evalPoly s z ≠ fpow z (D - d) * evalPoly p z := by
  obtain ⟨i, hi, hc⟩ := hp
  have hcoef : ∃ j, (diffPoly s p (D - d)).getD j 0 ≠ 0 := by
    refine ⟨i + (D - d), ?_⟩
    rw [← coeff_eq_getD]
    unfold diffPoly
    rw [padd_coeff, pscale_coeff, coeff_pshift, coeff_beyond s _ (by omega)]
    simpa using hc
  obtain ⟨S, hcard, hS⟩ := Roots.zeros_bounded_of_coeff _ hcoef
  refine ⟨S, le_trans hcard ?_, ?_⟩
  · apply Nat.sub_le_sub_right
    unfold diffPoly
    simp only [padd_len, pscale_len, pshift, List.length_append, List.length_replicate]
    omega
  · intro z hz he
    apply hz
    apply hS
    rw [eval_diffPoly, he, sub_self]

end DegreeBound
end PCV
