/-
  PCV.Proofs.TraitDefaultComplete — the honest default `open_combinations` output is accepted by the
  default `check_combinations` when the scheme's own `open`/`check` pair is complete: what
  `query_to_labels_map` contains, what the derived polynomial query set contains, how the verifier
  re-associates the transmitted evaluations with their `(polynomial, point)` keys.
-/
import PCV.Proofs.TraitDefaultLC
set_option linter.unusedSectionVars false
set_option linter.unusedVariables false

namespace PCV
namespace TraitDefault
open QS (StrictTotal ltLabel ltKey)

/-! ### what `query_to_labels_map` holds -/

section Groups
variable {Pt : Type}

theorem mem_insertLabel (l l' : Label) (ls : List Label) :
    l' ∈ Marlin.insertLabel l ls ↔ l' = l ∨ l' ∈ ls := by
  induction ls with
  | nil => simp [Marlin.insertLabel]
  | cons y ys ih =>
    simp only [Marlin.insertLabel]
    split
    · simp
    · split
      · rename_i h; subst h; simp
      · simp only [List.mem_cons, ih]; tauto

/-- every label of the group was queried under the group's point label, and the group's point is the
point of one of those queries -/
def GroupOK (S : Query Pt → Prop) (g : Group Pt) : Prop :=
  (∀ l ∈ g.2.2, ∃ z, S (l, (g.1, z))) ∧ ∃ l, S (l, (g.1, g.2.1))

theorem groupInsert_ok (S : Query Pt → Prop) (q : Query Pt) (hq : S q) (acc : List (Group Pt))
    (h : ∀ g ∈ acc, GroupOK S g) : ∀ g ∈ Marlin.groupInsert q acc, GroupOK S g := by
  have hnew : GroupOK S (q.2.1, (q.2.2, [q.1])) := by
    refine ⟨fun l hl => ⟨q.2.2, ?_⟩, q.1, hq⟩
    simp only [List.mem_singleton] at hl
    subst hl; exact hq
  induction acc with
  | nil =>
    intro g hg
    simp only [Marlin.groupInsert, List.mem_singleton] at hg
    subst hg; exact hnew
  | cons g0 gs ih =>
    intro g hg
    simp only [Marlin.groupInsert] at hg
    split at hg
    · rcases List.mem_cons.1 hg with rfl | hg
      · exact hnew
      · exact h g hg
    · split at hg
      · rename_i heq
        rcases List.mem_cons.1 hg with rfl | hg
        · obtain ⟨h1, h2⟩ := h g0 List.mem_cons_self
          refine ⟨fun l hl => ?_, h2⟩
          rcases (mem_insertLabel q.1 l g0.2.2).1 hl with rfl | hl
          · exact ⟨q.2.2, by rw [← heq]; exact hq⟩
          · exact h1 l hl
        · exact h g (List.mem_cons_of_mem _ hg)
      · rcases List.mem_cons.1 hg with rfl | hg
        · exact h g List.mem_cons_self
        · exact ih (fun g' hg' => h g' (List.mem_cons_of_mem _ hg')) g hg

theorem foldl_groupInsert_ok (S : Query Pt → Prop) (qs : List (Query Pt)) (hqs : ∀ q ∈ qs, S q)
    (acc : List (Group Pt)) (h : ∀ g ∈ acc, GroupOK S g) :
    ∀ g ∈ qs.foldl (fun acc q => Marlin.groupInsert q acc) acc, GroupOK S g := by
  induction qs generalizing acc with
  | nil => exact h
  | cons q qs ih =>
    simp only [List.foldl_cons]
    exact ih (fun q' hq' => hqs q' (List.mem_cons_of_mem _ hq')) _
      (groupInsert_ok S q (hqs q List.mem_cons_self) acc h)

theorem groups_ok (qset : List (Query Pt)) : ∀ g ∈ groups qset, GroupOK (· ∈ qset) g :=
  foldl_groupInsert_ok (· ∈ qset) qset (fun _ h => h) [] (fun _ h => by cases h)

/-- no point label is used with two different points (otherwise "behaviour is undefined", says the
doc comment of `batch_open`) -/
def ConsistentPoints (qs : List (Query Pt)) : Prop :=
  ∀ q ∈ qs, ∀ q' ∈ qs, q.2.1 = q'.2.1 → q.2.2 = q'.2.2

theorem group_label_query (qset : List (Query Pt)) (hc : ConsistentPoints qset) (g : Group Pt)
    (hg : g ∈ groups qset) (l : Label) (hl : l ∈ g.2.2) : (l, (g.1, g.2.1)) ∈ qset := by
  obtain ⟨h1, l0, h2⟩ := groups_ok qset g hg
  obtain ⟨z, hz⟩ := h1 l hl
  have : z = g.2.1 := hc _ hz _ h2 rfl
  rw [← this]; exact hz

end Groups

/-! ### what the derived polynomial query set holds -/

section PolyQS
variable {Pt : Type} [DecidableEq Pt] {F : Type}

theorem mem_lcPolyLabels (lc : LC.LinComb F) (l : Label) :
    l ∈ lcPolyLabels lc ↔ ∃ c, (c, LC.LCTerm.poly l) ∈ lc.terms := by
  unfold lcPolyLabels
  rw [List.mem_filterMap]
  constructor
  · rintro ⟨⟨c, t⟩, hm, ht⟩
    cases t with
    | one => simp [LC.LCTerm.tryLabel] at ht
    | poly l' =>
      simp only [LC.LCTerm.tryLabel, Option.some.injEq] at ht
      subst ht; exact ⟨c, hm⟩
  · rintro ⟨c, hm⟩; exact ⟨(c, .poly l), hm, rfl⟩

theorem mem_foldl_labels (lt : Query Pt → Query Pt → Bool) (pq : Label × Pt) (ls : List Label)
    (acc : List (Query Pt)) (x : Query Pt) :
    x ∈ ls.foldl (fun a l => setInsert lt (l, pq) a) acc ↔ x ∈ acc ∨ (x.1 ∈ ls ∧ x.2 = pq) := by
  induction ls generalizing acc with
  | nil => simp
  | cons l ls ih =>
    simp only [List.foldl_cons, ih, mem_setInsert, List.mem_cons]
    constructor
    · rintro ((rfl | h) | h)
      · exact Or.inr ⟨Or.inl rfl, rfl⟩
      · exact Or.inl h
      · exact Or.inr ⟨Or.inr h.1, h.2⟩
    · rintro (h | ⟨h1 | h1, h2⟩)
      · exact Or.inl (Or.inr h)
      · exact Or.inl (Or.inl (by rw [← h1, ← h2]))
      · exact Or.inr ⟨h1, h2⟩

theorem mem_lcQueryStep (ltP : Pt → Pt → Bool) (lcs : List (LC.LinComb F)) (acc : List (Query Pt))
    (q x : Query Pt) :
    x ∈ lcQueryStep ltP lcs acc q ↔
      x ∈ acc ∨ ∃ lc, lcGet lcs q.1 = some lc ∧ x.1 ∈ lcPolyLabels lc ∧ x.2 = q.2 := by
  unfold lcQueryStep
  cases h : lcGet lcs q.1 with
  | none => simp
  | some lc => simp [mem_foldl_labels]

theorem mem_foldl_lcQueryStep (ltP : Pt → Pt → Bool) (lcs : List (LC.LinComb F))
    (qset acc : List (Query Pt)) (x : Query Pt) :
    x ∈ qset.foldl (lcQueryStep ltP lcs) acc ↔
      x ∈ acc ∨ ∃ q ∈ qset, ∃ lc, lcGet lcs q.1 = some lc ∧ x.1 ∈ lcPolyLabels lc ∧ x.2 = q.2 := by
  induction qset generalizing acc with
  | nil => simp
  | cons q qs ih =>
    simp only [List.foldl_cons, ih, mem_lcQueryStep, List.mem_cons, exists_eq_or_imp]
    exact or_assoc

/-- **the derived polynomial query set**: `(l, (point_label, point))` is in it iff some queried and
supplied equation mentions the polynomial `l` (with whatever coefficient) and is queried there -/
theorem mem_lcToPolyQuerySet (ltP : Pt → Pt → Bool) (lcs : List (LC.LinComb F))
    (qset : List (Query Pt)) (x : Query Pt) :
    x ∈ lcToPolyQuerySet ltP lcs qset ↔
      ∃ q ∈ qset, ∃ lc, lcGet lcs q.1 = some lc ∧ x.1 ∈ lcPolyLabels lc ∧ x.2 = q.2 := by
  unfold lcToPolyQuerySet
  rw [mem_foldl_lcQueryStep]
  simp

theorem consistent_lcToPolyQuerySet (ltP : Pt → Pt → Bool) (lcs : List (LC.LinComb F))
    (qset : List (Query Pt)) (h : ConsistentPoints qset) :
    ConsistentPoints (lcToPolyQuerySet ltP lcs qset) := by
  intro x hx x' hx' hpl
  obtain ⟨q, hq, _, _, _, h2⟩ := (mem_lcToPolyQuerySet ltP lcs qset x).1 hx
  obtain ⟨q', hq', _, _, _, h2'⟩ := (mem_lcToPolyQuerySet ltP lcs qset x').1 hx'
  rw [h2, h2'] at hpl ⊢
  exact h q hq q' hq' hpl

end PolyQS

/-! ### the transmitted evaluations and their keys -/

section Evals
variable {Pt : Type} [DecidableEq Pt] {F LP : Type}

theorem zip_map_fst_snd {α β : Type} (l : List (α × β)) : (l.map Prod.fst).zip (l.map Prod.snd) = l := by
  induction l with
  | nil => rfl
  | cons x xs ih => simp [ih]

theorem lastWith_eq_lookup {K V : Type} [DecidableEq K] (k : K) (m : List (K × V))
    (hnd : (m.map Prod.fst).Nodup) : QS.lastWith k m = QS.lookup k m := by
  induction m with
  | nil => rfl
  | cons kv rest ih =>
    rw [List.map_cons, List.nodup_cons] at hnd
    simp only [QS.lastWith, QS.lookup, ih hnd.2]
    by_cases h : k = kv.1
    · have hnone : QS.lookup k rest = none := by
        cases hl : QS.lookup k rest with
        | none => rfl
        | some v =>
          exfalso
          have : k ∈ QS.keys rest := (QS.mem_keys_iff_lookup k rest).2 (by rw [hl]; rfl)
          exact hnd.1 (by rw [← h]; exact this)
      rw [hnone, if_pos h]
    · simp only [h, if_false]
      cases QS.lookup k rest <;> rfl

theorem lastWith_map_label (lblP : LP → Label) (polys : List LP) (l : Label) :
    QS.lastWith l (polys.map fun p => (lblP p, p)) = Marlin.lookupLast lblP l polys := by
  induction polys with
  | nil => rfl
  | cons p rest ih =>
    simp only [List.map_cons, QS.lastWith, lookupLast_cons, ih]
    cases Marlin.lookupLast lblP l rest with
    | some y => rfl
    | none =>
      by_cases h : l = lblP p
      · simp [h]
      · have : ¬ lblP p = l := fun h' => h h'.symm
        simp [h, this]

theorem sorted_keys_nodup {K V : Type} [DecidableEq K] (lt : K → K → Bool) (hirr : ∀ a, lt a a = false)
    (m : List (K × V)) (h : QS.Sorted lt m) : (m.map Prod.fst).Nodup := by
  unfold QS.Sorted at h
  rw [List.nodup_iff_pairwise_ne, List.pairwise_map]
  exact h.imp fun {a b} hab heq => by rw [heq, hirr] at hab; cases hab

/-- **`evaluate_query_set`, read back by key**: it succeeds iff every queried label is supplied; its keys
in order are the sorted `(polynomial, point)` set of the query set — so pairing them with the values
in order (what the verifier does) gives the map back; and `(l, z)` maps to the evaluation at `z` of the
polynomial listed last under `l`. -/
theorem evaluateQuerySet_spec (ltP : Pt → Pt → Bool) (hlt : StrictTotal ltP)
    (hirr : ∀ a, ltP a a = false) (lblP : LP → Label) (evalP : LP → Pt → F) (polys : List LP)
    (pqs : List (Query Pt)) (evs : List ((Label × Pt) × F))
    (h : QS.evaluateQuerySet ltLabel (ltKey ltP) evalP (polys.map fun p => (lblP p, p)) pqs = .ok evs) :
    polyEvals ltP pqs (evs.map (·.2)) = evs ∧
    ∀ q ∈ pqs, ∃ p, Marlin.lookupLast lblP q.1 polys = some p ∧
      QS.lastWith (q.1, q.2.2) evs = some (evalP p q.2.2) := by
  unfold QS.evaluateQuerySet at h
  have hltK := QS.strictTotal_ltKey ltP hlt
  obtain ⟨hkeys, hvals, _⟩ := QS.evalLoop_spec (ltKey ltP) evalP _ pqs [] evs h
  have hsorted := QS.evalLoop_sorted (ltKey ltP) hltK evalP _ pqs [] evs List.Pairwise.nil h
  have hnd := sorted_keys_nodup (ltKey ltP) (ltKey_irrefl ltP hirr) evs hsorted
  constructor
  · unfold polyEvals evalKeys
    have : setOfList (ltKey ltP) (pqs.map QS.keyOf) = evs.map Prod.fst := by
      apply sorted_unique (ltKey ltP) hltK (ltKey_irrefl ltP hirr) _ _
        (sorted_setOfList _ hltK _)
      · unfold SortedSet; rw [List.pairwise_map]; exact hsorted
      · intro k
        rw [mem_setOfList, List.mem_map]
        have := hkeys k
        unfold QS.keys at this
        rw [this]
        simp
    rw [this]
    exact zip_map_fst_snd evs
  · intro q hq
    obtain ⟨p, hp, hv⟩ := hvals q hq
    refine ⟨p, ?_, ?_⟩
    · rw [← lastWith_map_label, ← QS.lookup_fromList_nil ltLabel]; exact hp
    · rw [lastWith_eq_lookup _ _ hnd]; exact hv

end Evals

/-! ### the honest combination proof is accepted -/

section Complete
variable {Pt : Type} [DecidableEq Pt] {F : Type} [Field F] [DecidableEq F]
variable {LP S C PF σp σv : Type}

omit [DecidableEq F] in
theorem termsValue_congr (σ τ : Label → F) (terms : List (F × LC.LCTerm))
    (h : ∀ c l, (c, LC.LCTerm.poly l) ∈ terms → σ l = τ l) :
    LC.termsValue σ terms = LC.termsValue τ terms := by
  induction terms with
  | nil => rfl
  | cons ct rest ih =>
    obtain ⟨c, t⟩ := ct
    simp only [LC.termsValue]
    rw [ih fun c' l' hm => h c' l' (List.mem_cons_of_mem _ hm)]
    cases t with
    | one => rfl
    | poly l => simp only [LC.termVal]; rw [h c l List.mem_cons_self]

/-- the true evaluation of the polynomial listed (last) under `l`; `0` if there is none -/
def trueEval (lblP : LP → Label) (evalP : LP → Pt → F) (polys : List LP) (z : Pt) (l : Label) : F :=
  match Marlin.lookupLast lblP l polys with
  | some p => evalP p z
  | none => 0

/-- **Completeness of the default combination opening, relative to the scheme** (statement and
hypotheses: see `C06.default_combinations_complete`). -/
theorem combinations_complete (ltP : Pt → Pt → Bool) (hlt : StrictTotal ltP) (hirr : ∀ a, ltP a a = false)
    (lblP : LP → Label) (lblC : C → Label) (evalP : LP → Pt → F)
    (openF : List ((LP × S) × C) → Pt → σp → Except Err (PF × σp))
    (checkF : List C → Pt → List F → PF → σv → Except Err (Bool × σv))
    (R : σp → σv → Prop) (Good : List ((LP × S) × C) → Prop)
    (hcomplete : ∀ ts z π sp sp' sv, Good ts → R sp sv → openF ts z sp = .ok (π, sp') →
      ∃ sv', checkF (ts.map (·.2)) z (ts.map fun t => evalP t.1.1 z) π sv = .ok (true, sv') ∧ R sp' sv')
    (lcs : List (LC.LinComb F)) (polys : List LP) (sts : List S) (comms vcomms : List C)
    (qs : List (Query Pt)) (ee : List ((Label × Pt) × F))
    (hpts : ConsistentPoints qs)
    (hsupplied : ∀ q ∈ qs, (lcGet lcs q.1).isSome = true)
    (hclaims : ∀ q ∈ qs, ∀ lc, lcGet lcs q.1 = some lc →
      QS.lastWith (q.1, q.2.2) ee = some (LC.termsValue (trueEval lblP evalP polys q.2.2) lc.terms))
    (htrip : ∀ l t, Marlin.lookupLast (fun (t : (LP × S) × C) => lblP t.1.1) l
        (polyStComm polys sts comms) = some t → Marlin.lookupLast lblP l polys = some t.1.1)
    (hgood : ∀ ls ts, gatherOpen lblP (polyStComm polys sts comms) ls = .ok ts → Good ts)
    (hcm : ∀ l t, Marlin.lookupLast (fun (t : (LP × S) × C) => lblP t.1.1) l
        (polyStComm polys sts comms) = some t → Marlin.lookupLast lblC l vcomms = some t.2)
    (sp : σp) (sv : σv) (πs : List PF) (evals : Option (List F)) (sp' : σp) (h0 : R sp sv)
    (ho : openCombinations ltP lblP evalP openF lcs polys sts comms qs sp = .ok ((πs, evals), sp')) :
    ∃ sv', checkCombinations ltP lblC checkF lcs vcomms qs ee πs evals sv = .ok (true, sv') ∧
      R sp' sv' := by
  unfold openCombinations at ho
  simp only at ho
  cases hev : QS.evaluateQuerySet ltLabel (ltKey ltP) evalP (polys.map fun p => (lblP p, p))
      (lcToPolyQuerySet ltP lcs (querySet ltP qs)) with
  | error e => rw [hev] at ho; cases ho
  | ok evs =>
    rw [hev] at ho
    simp only at ho
    cases hbo : batchOpenSet lblP openF polys sts comms (lcToPolyQuerySet ltP lcs (querySet ltP qs)) sp with
    | error e => rw [hbo] at ho; cases ho
    | ok r =>
      obtain ⟨πs', sp1⟩ := r
      rw [hbo] at ho
      simp only [Except.ok.injEq, Prod.mk.injEq] at ho
      obtain ⟨⟨rfl, rfl⟩, rfl⟩ := ho
      obtain ⟨hpe, hvals⟩ := evaluateQuerySet_spec ltP hlt hirr lblP evalP polys _ evs hev
      have hqcons : ConsistentPoints (querySet ltP qs) := fun q hq q' hq' =>
        hpts q ((mem_querySet ltP q qs).1 hq) q' ((mem_querySet ltP q' qs).1 hq')
      have hpcons := consistent_lcToPolyQuerySet ltP lcs _ hqcons
      -- the value stored for a polynomial term of a queried equation
      have hterm : ∀ q ∈ qs, ∀ lc, lcGet lcs q.1 = some lc → ∀ c l, (c, LC.LCTerm.poly l) ∈ lc.terms →
          QS.lastWith (l, q.2.2) evs = some (trueEval lblP evalP polys q.2.2 l) := by
        intro q hq lc hlc c l hm
        have hmem : (l, q.2) ∈ lcToPolyQuerySet ltP lcs (querySet ltP qs) :=
          (mem_lcToPolyQuerySet ltP lcs _ _).2
            ⟨q, (mem_querySet ltP q qs).2 hq, lc, hlc, (mem_lcPolyLabels lc l).2 ⟨c, hm⟩, rfl⟩
        obtain ⟨p, hp, hv⟩ := hvals _ hmem
        simp only at hp hv
        rw [hv]
        unfold trueEval
        rw [hp]
      refine (exists_congr fun sv' => and_congr_left fun _ =>
        (checkCombinations_true_iff ltP lblC checkF lcs vcomms qs ee πs' _ sv sv')).2 ?_
      rw [verifierPolyQuerySet_eq]
      -- the inner batch
      unfold batchOpenSet at hbo
      have hlen := batchOpenLoop_length lblP openF _ _ sp πs' sp1 hbo
      obtain ⟨sv', hloop, hR⟩ := loops_complete lblP lblC evalP openF checkF R Good hcomplete
        (polyStComm polys sts comms) vcomms evs
        (groups (lcToPolyQuerySet ltP lcs (querySet ltP qs)))
        (fun g _ ts h => hgood g.2.2 ts h)
        (fun g _ l _ t h => hcm l t h)
        (fun g hg l hl t ht => by
          have hmem := group_label_query _ hpcons g hg l hl
          obtain ⟨p, hp, hv⟩ := hvals _ hmem
          simp only at hp hv
          rw [htrip l t ht] at hp
          injection hp with hp
          subst hp
          exact hv)
        sp sv πs' sp1 h0 hbo
      refine ⟨sv', ⟨evs.map (·.2), rfl, fun q hq => ?_, ?_⟩, hR⟩
      · rw [hpe]
        cases hlc : lcGet lcs q.1 with
        | none => have := hsupplied q hq; rw [hlc] at this; cases this
        | some lc =>
          refine ⟨lc, hlc, fun t ht l htl => ?_, ?_⟩
          · obtain ⟨c, t'⟩ := t
            simp only at htl
            subst htl
            rw [hterm q hq lc hlc c l ht]; rfl
          · rw [hclaims q hq lc hlc]
            congr 1
            apply termsValue_congr
            intro c l hm
            unfold assign
            rw [hterm q hq lc hlc c l hm]; rfl
      · rw [hpe]
        unfold batchCheckSet
        rw [if_neg (by simpa using hlen)]
        exact hloop

end Complete

end TraitDefault
end PCV
