/-
  PCV.Proofs.Fold — the folded-polynomial iterators of `data_structures.rs` enumerate the
  coefficients of the successive foldings, for every length.

  Method.  `Emits chal st it out` is the big-step semantics of the stack machine shared by both
  iterators (fold the two top entries of equal level, else read one stream item).  The model's
  `Tree.collect` computes it (`collect_of_emits`).  A machine with challenges `u :: us` on a stream
  simulates the machine with challenges `us` on the once-folded stream with all levels shifted by
  one (`sim`), and `init_stack` commutes with that shift (`initStack_even/odd`); induction on the
  challenge list then gives every level.
-/
import PCV.Model.Fold
import Mathlib.Tactic.Ring
import Mathlib.Tactic.LinearCombination
import Mathlib.Algebra.Field.Basic

set_option linter.unusedSectionVars false

namespace PCV
namespace Fold
variable {F : Type} [Field F]

/-! ### big-step semantics of the stack machine -/

inductive Emits (chal : List F) : List (Nat × F) → List F → List (Nat × F) → Prop
  | fold {st it out item st'} (h : foldTop chal st = some (item, st'))
      (k : Emits chal (pushItem chal.length item st') it out) : Emits chal st it (item :: out)
  | read {st x it out} (h : foldTop chal st = none)
      (k : Emits chal (pushItem chal.length (0, x) st) it out) : Emits chal st (x :: it) out
  | done {st} (h : foldTop chal st = none) : Emits chal st [] []

theorem foldTop_length (chal : List F) (st st' : List (Nat × F)) (item : Nat × F)
    (h : foldTop chal st = some (item, st')) : st.length = st'.length + 2 := by
  match st, h with
  | lhs :: rhs :: rest, h =>
    simp only [foldTop] at h
    split at h
    · injection h with h; injection h with _ h2; subst h2; simp
    · cases h

theorem foldTop_level_pos (chal : List F) (st st' : List (Nat × F)) (item : Nat × F)
    (h : foldTop chal st = some (item, st')) : 1 ≤ item.1 := by
  match st, h with
  | lhs :: rhs :: rest, h =>
    simp only [foldTop] at h
    split at h
    · injection h with h; injection h with h1 _; subst h1; simp
    · cases h

theorem pushItem_length_le (d : Nat) (item : Nat × F) (st : List (Nat × F)) :
    (pushItem d item st).length ≤ st.length + 1 := by
  unfold pushItem; split <;> simp

theorem next_fold (chal : List F) (st st' : List (Nat × F)) (item : Nat × F) (it : List F)
    (h : foldTop chal st = some (item, st')) :
    Tree.next chal st it = some (item, it, pushItem chal.length item st') := by
  cases it <;> simp [Tree.next, h]

theorem next_read (chal : List F) (st : List (Nat × F)) (x : F) (it : List F)
    (h : foldTop chal st = none) :
    Tree.next chal st (x :: it) = Tree.next chal (pushItem chal.length (0, x) st) it := by
  simp [Tree.next, h]

theorem next_done (chal : List F) (st : List (Nat × F)) (h : foldTop chal st = none) :
    Tree.next chal st [] = none := by
  simp [Tree.next, h]

theorem collect_read (chal : List F) (st : List (Nat × F)) (x : F) (it : List F) (f : Nat)
    (h : foldTop chal st = none) :
    Tree.collect chal f st (x :: it) = Tree.collect chal f (pushItem chal.length (0, x) st) it := by
  cases f with
  | zero => rfl
  | succ f => simp only [Tree.collect, next_read chal st x it h]

/-- the model's iteration (`fuel` calls of `next`) computes the big-step semantics -/
theorem collect_of_emits (chal : List F) (st : List (Nat × F)) (it : List F) (out : List (Nat × F))
    (h : Emits chal st it out) :
    ∀ f, it.length + st.length < f → Tree.collect chal f st it = out := by
  induction h with
  | @fold st it out item st' h k ih =>
    intro f hf
    cases f with
    | zero => omega
    | succ f =>
      simp only [Tree.collect, next_fold chal st st' item it h]
      rw [ih f (by
        have := foldTop_length chal st st' item h
        have := pushItem_length_le chal.length item st'
        omega)]
  | @read st x it out h k ih =>
    intro f hf
    rw [collect_read chal st x it f h]
    exact ih f (by
      have := pushItem_length_le chal.length (0, x) st
      simp at hf; omega)
  | @done st h =>
    intro f _
    cases f with
    | zero => rfl
    | succ f => simp only [Tree.collect, next_done chal st h]

/-- the machine always terminates -/
theorem emits_total (chal : List F) : ∀ (m : Nat) (st : List (Nat × F)) (it : List F),
    2 * it.length + st.length ≤ m → ∃ out, Emits chal st it out := by
  intro m
  induction m with
  | zero =>
    intro st it h
    have h1 : it = [] := List.length_eq_zero_iff.1 (by omega)
    have h2 : st = [] := List.length_eq_zero_iff.1 (by omega)
    subst h1; subst h2
    exact ⟨[], Emits.done rfl⟩
  | succ m ih =>
    intro st it h
    cases hf : foldTop chal st with
    | some r =>
      obtain ⟨item, st'⟩ := r
      have h1 := foldTop_length chal st st' item hf
      have h2 := pushItem_length_le chal.length item st'
      obtain ⟨out, ho⟩ := ih (pushItem chal.length item st') it (by omega)
      exact ⟨item :: out, Emits.fold hf ho⟩
    | none =>
      cases it with
      | nil => exact ⟨[], Emits.done hf⟩
      | cons x it =>
        have h2 := pushItem_length_le chal.length (0, x) st
        obtain ⟨out, ho⟩ := ih (pushItem chal.length (0, x) st) it (by simp at h; omega)
        exact ⟨out, Emits.read hf ho⟩

/-- the tree iterator's full output is the big-step output from the initial stack -/
theorem toList_eq_of_emits (chal csBE : List F) (out : List (Nat × F))
    (h : Emits chal (initStack csBE.length chal.length) csBE out) : Tree.toList csBE chal = out := by
  unfold Tree.toList
  exact collect_of_emits chal _ _ _ h _ (by omega)

/-! ### levels -/

theorem level_cons (item : Nat × F) (items : List (Nat × F)) (i : Nat) :
    Tree.level (item :: items) i
      = if item.1 = i then item.2 :: Tree.level items i else Tree.level items i := by
  unfold Tree.level
  by_cases h : item.1 = i <;> simp [h]

/-! ### shifting levels by one -/

def lift (st : List (Nat × F)) : List (Nat × F) := st.map (fun e => (e.1 + 1, e.2))

theorem foldTop_lift_none (u : F) (us : List F) (st : List (Nat × F))
    (h : foldTop us st = none) : foldTop (u :: us) (lift st) = none := by
  match st with
  | [] => rfl
  | [_] => rfl
  | lhs :: rhs :: rest =>
    simp only [foldTop, lift, List.map_cons] at h ⊢
    split at h
    · cases h
    · rename_i hne
      rw [if_neg (by simpa using hne)]

theorem foldTop_lift_some (u : F) (us : List F) (st st' : List (Nat × F)) (item : Nat × F)
    (h : foldTop us st = some (item, st')) :
    foldTop (u :: us) (lift st) = some ((item.1 + 1, item.2), lift st') := by
  match st, h with
  | lhs :: rhs :: rest, h =>
    simp only [foldTop, lift, List.map_cons] at h ⊢
    split at h
    · rename_i heq
      injection h with h; injection h with h1 h2
      subst h1; subst h2
      rw [if_pos (by simpa using heq)]
      simp
    · cases h

theorem pushItem_lift (d : Nat) (item : Nat × F) (st : List (Nat × F)) :
    pushItem (d + 1) (item.1 + 1, item.2) (lift st) = lift (pushItem d item st) := by
  unfold pushItem
  by_cases h : item.1 = d
  · simp [h]
  · simp [h, lift]

theorem foldTop_zero_on_lift (chal : List F) (a : F) (st : List (Nat × F)) :
    foldTop chal ((0, a) :: lift st) = none := by
  match st with
  | [] => rfl
  | e :: rest => simp [foldTop, lift]

/-- folding consecutive pairs of a big-endian stream: `rhs·u + lhs` -/
def pairsBE (u : F) : List F → List F
  | a :: b :: rest => (a * u + b) :: pairsBE u rest
  | _ => []

/-- **simulation**: the machine with challenges `u :: us` on an even-length stream `xs`, started
from a shifted stack, emits the pair-folded stream at level 1 and, one level up, exactly what the
machine with challenges `us` emits on the pair-folded stream. -/
theorem sim (u : F) (us : List F) (st' : List (Nat × F)) (ys : List F) (out' : List (Nat × F))
    (h : Emits us st' ys out') :
    ∀ xs, ys = pairsBE u xs → xs.length = 2 * ys.length →
      ∃ out, Emits (u :: us) (lift st') xs out ∧ Tree.level out 1 = ys
        ∧ ∀ i, 1 ≤ i → Tree.level out (i + 1) = Tree.level out' i := by
  induction h with
  | @fold st it out item st'' h k ih =>
    intro xs hxs hlen
    obtain ⟨o, ho, h1, h2⟩ := ih xs hxs hlen
    have hpos := foldTop_level_pos us st st'' item h
    refine ⟨(item.1 + 1, item.2) :: o, ?_, ?_, ?_⟩
    · apply Emits.fold (foldTop_lift_some u us st st'' item h)
      simp only [List.length_cons]
      rw [pushItem_lift]
      exact ho
    · rw [level_cons, if_neg (by simp; omega)]; exact h1
    · intro i hi
      rw [level_cons, level_cons, h2 i hi]
      simp
  | @read st y it out h k ih =>
    intro xs hxs hlen
    match xs, hxs, hlen with
    | [], hxs, _ => simp [pairsBE] at hxs
    | [_], hxs, _ => simp [pairsBE] at hxs
    | a :: b :: xs', hxs, hlen =>
      simp only [pairsBE, List.cons.injEq] at hxs
      obtain ⟨hy, hit⟩ := hxs
      obtain ⟨o, ho, h1, h2⟩ := ih xs' hit (by simp at hlen; omega)
      refine ⟨(1, y) :: o, ?_, ?_, ?_⟩
      · apply Emits.read (foldTop_lift_none u us st h)
        have hp1 : pushItem (u :: us).length (0, a) (lift st) = (0, a) :: lift st := by
          simp [pushItem]
        rw [hp1]
        apply Emits.read (foldTop_zero_on_lift _ a st)
        have hp2 : pushItem (u :: us).length (0, b) ((0, a) :: lift st)
            = (0, b) :: (0, a) :: lift st := by simp [pushItem]
        rw [hp2]
        have hf : foldTop (u :: us) ((0, b) :: (0, a) :: lift st) = some ((1, y), lift st) := by
          simp [foldTop, hy]
        apply Emits.fold hf
        have := pushItem_lift us.length (0, y) st
        simp only [List.length_cons, zero_add] at this ⊢
        rw [this]
        exact ho
      · rw [level_cons, if_pos rfl, h1]
      · intro i hi
        rw [level_cons, if_neg (by simp; omega)]
        exact h2 i hi
  | @done st h =>
    intro xs hxs hlen
    have : xs = [] := List.length_eq_zero_iff.1 (by simpa using hlen)
    subst this
    exact ⟨[], Emits.done (foldTop_lift_none u us st h), rfl, fun i _ => rfl⟩

/-! ### `init_stack` commutes with the shift -/

theorem initStackLoop_zero (i : Nat) (acc : List (Nat × F)) : initStackLoop i 0 acc = acc := by
  induction i generalizing acc with
  | zero => rfl
  | succ i ih =>
    have : ¬ (0 ≥ 2 ^ i) := by have := Nat.two_pow_pos i; omega
    simp only [initStackLoop, if_neg this, ih]

theorem initStackLoop_lift (i delta : Nat) (acc : List (Nat × F)) (h : delta < 2 ^ (i + 1)) :
    initStackLoop (i + 1) delta (lift acc)
      = (if delta % 2 = 1 then [((0 : Nat), (0 : F))] else []) ++ lift (initStackLoop i (delta / 2) acc) := by
  induction i generalizing delta acc with
  | zero =>
    have hd : delta = 0 ∨ delta = 1 := by simp at h; omega
    rcases hd with hd | hd <;> subst hd <;> simp [initStackLoop]
  | succ i ih =>
    have hp : 2 ^ (i + 1) = 2 * 2 ^ i := by rw [pow_succ]; ring
    have hp2 : 2 ^ (i + 1 + 1) = 2 * 2 ^ (i + 1) := by rw [pow_succ]; ring
    rw [initStackLoop]
    by_cases hge : delta ≥ 2 ^ (i + 1)
    · rw [if_pos hge]
      have hl : ((i + 1, (0 : F)) :: lift acc) = lift ((i, 0) :: acc) := by simp [lift]
      rw [hl, ih (delta - 2 ^ (i + 1)) ((i, 0) :: acc) (by omega)]
      have hge' : delta / 2 ≥ 2 ^ i := by omega
      conv_rhs => rw [initStackLoop, if_pos hge']
      have e1 : (delta - 2 ^ (i + 1)) % 2 = delta % 2 := by omega
      have e2 : (delta - 2 ^ (i + 1)) / 2 = delta / 2 - 2 ^ i := by omega
      rw [e1, e2]
    · rw [if_neg hge]
      have hge' : ¬ (delta / 2 ≥ 2 ^ i) := by omega
      conv_rhs => rw [initStackLoop, if_neg hge']
      exact ih delta acc (by omega)

theorem mod_two_mul (k M : Nat) (_hM : 0 < M) : (2 * k) % (2 * M) = 2 * (k % M) :=
  Nat.mul_mod_mul_left 2 k M

theorem mod_two_mul_add_one (k M : Nat) (hM : 0 < M) : (2 * k + 1) % (2 * M) = 2 * (k % M) + 1 := by
  have h1 := Nat.div_add_mod k M
  have h2 := Nat.mod_lt k hM
  have : 2 * k + 1 = (2 * M) * (k / M) + (2 * (k % M) + 1) := by
    have : 2 * M * (k / M) = 2 * (M * (k / M)) := by ring
    rw [this]; omega
  rw [this, Nat.mul_add_mod, Nat.mod_eq_of_lt (by omega)]

theorem initStack_even (k d : Nat) :
    (initStack (2 * k) (d + 1) : List (Nat × F)) = lift (initStack k d) := by
  have hM := Nat.two_pow_pos d
  have hp : 2 ^ (d + 1) = 2 * 2 ^ d := by rw [pow_succ]; ring
  unfold initStack
  rw [hp, mod_two_mul k _ hM]
  have h2 := Nat.mod_lt k hM
  by_cases h0 : k % 2 ^ d = 0
  · simp [h0, lift]
  · rw [if_pos (by omega), if_pos h0]
    have := initStackLoop_lift (F := F) d (2 * 2 ^ d - 2 * (k % 2 ^ d)) [] (by rw [hp]; omega)
    simp only [lift, List.map_nil] at this
    rw [this]
    have e1 : (2 * 2 ^ d - 2 * (k % 2 ^ d)) % 2 = 0 := by omega
    have e2 : (2 * 2 ^ d - 2 * (k % 2 ^ d)) / 2 = 2 ^ d - k % 2 ^ d := by omega
    rw [e1, e2]
    simp [lift]

theorem initStack_odd (k d : Nat) :
    (initStack (2 * k + 1) (d + 1) : List (Nat × F)) = (0, 0) :: lift (initStack (k + 1) d) := by
  have hM := Nat.two_pow_pos d
  have hp : 2 ^ (d + 1) = 2 * 2 ^ d := by rw [pow_succ]; ring
  unfold initStack
  rw [hp, mod_two_mul_add_one k _ hM]
  have h2 := Nat.mod_lt k hM
  rw [if_pos (by omega)]
  have := initStackLoop_lift (F := F) d (2 * 2 ^ d - (2 * (k % 2 ^ d) + 1)) [] (by rw [hp]; omega)
  simp only [lift, List.map_nil] at this
  rw [this]
  have e1 : (2 * 2 ^ d - (2 * (k % 2 ^ d) + 1)) % 2 = 1 := by omega
  have e2 : (2 * 2 ^ d - (2 * (k % 2 ^ d) + 1)) / 2 = 2 ^ d - k % 2 ^ d - 1 := by omega
  rw [e1, e2]
  simp only [if_true, List.singleton_append, List.cons.injEq, true_and]
  -- (k+1) mod 2^d
  have h1 := Nat.div_add_mod k (2 ^ d)
  by_cases hlast : k % 2 ^ d = 2 ^ d - 1
  · have hk : (k + 1) % 2 ^ d = 0 := by
      have : k + 1 = 2 ^ d * (k / 2 ^ d + 1) := by rw [Nat.mul_add, Nat.mul_one]; omega
      rw [this]; exact Nat.mul_mod_right _ _
    have hz : 2 ^ d - k % 2 ^ d - 1 = 0 := by omega
    rw [hz, initStackLoop_zero, if_neg (by omega)]
    rfl
  · have hk : (k + 1) % 2 ^ d = k % 2 ^ d + 1 := by
      have : k + 1 = 2 ^ d * (k / 2 ^ d) + (k % 2 ^ d + 1) := by omega
      rw [this, Nat.mul_add_mod, Nat.mod_eq_of_lt (by omega)]
    rw [if_pos (by omega), hk]
    have : 2 ^ d - k % 2 ^ d - 1 = 2 ^ d - (k % 2 ^ d + 1) := by omega
    rw [this]
    rfl

/-! ### the initial stack cannot be folded -/

theorem initStackLoop_sorted (i delta : Nat) (acc : List (Nat × F))
    (hs : acc.Pairwise (fun a b => a.1 < b.1)) (hge : ∀ e ∈ acc, i ≤ e.1) :
    (initStackLoop i delta acc).Pairwise (fun a b => a.1 < b.1) := by
  induction i generalizing delta acc with
  | zero => exact hs
  | succ i ih =>
    rw [initStackLoop]
    split
    · apply ih
      · rw [List.pairwise_cons]
        exact ⟨fun e he => by have := hge e he; simp; omega, hs⟩
      · intro e he
        rcases List.mem_cons.1 he with he | he
        · rw [he]
        · have := hge e he; omega
    · exact ih _ _ hs (fun e he => by have := hge e he; omega)

theorem foldTop_none_of_sorted (chal : List F) (st : List (Nat × F))
    (hs : st.Pairwise (fun a b => a.1 < b.1)) : foldTop chal st = none := by
  match st with
  | [] => rfl
  | [_] => rfl
  | lhs :: rhs :: rest =>
    have := (List.pairwise_cons.1 hs).1 rhs (by simp)
    simp only [foldTop]
    rw [if_neg (by omega)]

theorem foldTop_initStack (chal : List F) (n d : Nat) : foldTop chal (initStack n d) = none := by
  apply foldTop_none_of_sorted
  unfold initStack
  split
  · exact initStackLoop_sorted _ _ _ List.Pairwise.nil (fun e he => by simp at he)
  · exact List.Pairwise.nil

/-! ### naive folding on the reversed (big-endian) vector -/

theorem pairsBE_append (u : F) (xs : List F) (a b : F) (h : xs.length % 2 = 0) :
    pairsBE u (xs ++ [a, b]) = pairsBE u xs ++ [a * u + b] := by
  match xs, h with
  | [], _ => rfl
  | [_], h => simp at h
  | x :: y :: rest, h =>
    simp only [List.cons_append, pairsBE]
    rw [pairsBE_append u rest a b (by simp at h; omega)]

theorem pairsBE_length (u : F) (xs : List F) (h : xs.length % 2 = 0) :
    xs.length = 2 * (pairsBE u xs).length := by
  match xs, h with
  | [], _ => rfl
  | [_], h => simp at h
  | x :: y :: rest, h =>
    simp only [pairsBE, List.length_cons]
    have := pairsBE_length u rest (by simp at h; omega)
    omega

theorem fold_length (cs : List F) (u : F) : (fold cs u).length = (cs.length + 1) / 2 := by
  match cs with
  | [] => simp [fold]
  | [_] => simp [fold]
  | a :: b :: rest =>
    simp only [fold, List.length_cons]
    rw [fold_length rest u]
    omega

/-- even length: the reversed folding is the pair-folding of the reversed vector; odd length: the
top coefficient is kept and the rest pair-folded -/
theorem fold_reverse (cs : List F) (u : F) :
    (cs.length % 2 = 0 → (fold cs u).reverse = pairsBE u cs.reverse) ∧
    (cs.length % 2 = 1 → ∃ a xs', cs.reverse = a :: xs' ∧ xs'.length % 2 = 0
        ∧ (fold cs u).reverse = a :: pairsBE u xs') := by
  match cs with
  | [] => exact ⟨fun _ => rfl, fun h => by simp at h⟩
  | [a] => exact ⟨fun h => by simp at h, fun _ => ⟨a, [], rfl, rfl, rfl⟩⟩
  | a :: b :: rest =>
    obtain ⟨ih1, ih2⟩ := fold_reverse rest u
    constructor
    · intro h
      have hr : rest.length % 2 = 0 := by simp at h; omega
      simp only [fold, List.reverse_cons, List.append_assoc, List.cons_append, List.nil_append]
      rw [pairsBE_append u rest.reverse b a (by simpa using hr), ih1 hr]
      congr 2; ring
    · intro h
      have hr : rest.length % 2 = 1 := by simp at h; omega
      obtain ⟨t, xs', hx, hxl, hf⟩ := ih2 hr
      refine ⟨t, xs' ++ [b, a], ?_, by simp; omega, ?_⟩
      · simp only [List.reverse_cons, hx, List.append_assoc, List.cons_append, List.nil_append]
      · simp only [fold, List.reverse_cons, hf, List.cons_append]
        rw [pairsBE_append u xs' b a hxl]
        congr 3; ring

/-! ### the tree iterator enumerates the foldings -/

/-- **`FoldedPolynomialTree`**: for every coefficient vector (any length) and every challenge list,
the items of level `i` (`1 ≤ i ≤ depth`), in the order the iterator yields them, are the
coefficients of the `i`-fold folding, highest degree first. -/
theorem tree_level_eq_fold (chal : List F) : ∀ (cs : List F) (i : Nat), 1 ≤ i → i ≤ chal.length →
    Tree.level (Tree.toList cs.reverse chal) i = (foldAll cs (chal.take i)).reverse := by
  induction chal with
  | nil => intro cs i h1 h2; simp at h2; omega
  | cons u us ih =>
    intro cs i h1 h2
    -- the machine for `us` on the once-folded stream
    obtain ⟨out', ho'⟩ := emits_total us _ (initStack (fold cs u).reverse.length us.length)
      (fold cs u).reverse (Nat.le_refl _)
    have hto' := toList_eq_of_emits us (fold cs u).reverse out' ho'
    -- a run of the machine for `u :: us` with the level facts
    have key : ∃ out, Emits (u :: us) (initStack cs.reverse.length (u :: us).length) cs.reverse out
        ∧ Tree.level out 1 = (fold cs u).reverse
        ∧ ∀ j, 1 ≤ j → Tree.level out (j + 1) = Tree.level out' j := by
      obtain ⟨he, hodd⟩ := fold_reverse cs u
      rcases Nat.mod_two_eq_zero_or_one cs.length with hpar | hpar
      · -- even length
        have hk : cs.length = 2 * (cs.length / 2) := by omega
        have hfl : (fold cs u).reverse.length = cs.length / 2 := by
          rw [List.length_reverse, fold_length]; omega
        have hst : (initStack cs.reverse.length (u :: us).length : List (Nat × F))
            = lift (initStack (fold cs u).reverse.length us.length) := by
          rw [List.length_reverse, hfl, List.length_cons]
          conv_lhs => rw [hk]
          exact initStack_even _ _
        rw [hst]
        exact sim u us _ _ _ ho' cs.reverse (he hpar)
          (by rw [hfl, List.length_reverse]; omega)
      · -- odd length: the top coefficient meets the padding zero
        obtain ⟨a, xs', hx, hxl, hf⟩ := hodd hpar
        have hk : cs.length = 2 * (cs.length / 2) + 1 := by omega
        have hfl : (fold cs u).reverse.length = cs.length / 2 + 1 := by
          rw [List.length_reverse, fold_length]; omega
        have hst : (initStack cs.reverse.length (u :: us).length : List (Nat × F))
            = (0, 0) :: lift (initStack (fold cs u).reverse.length us.length) := by
          rw [List.length_reverse, hfl, List.length_cons]
          conv_lhs => rw [hk]
          exact initStack_odd _ _
        rw [hst, hx]
        have ho'' : Emits us (initStack (fold cs u).reverse.length us.length)
            (a :: pairsBE u xs') out' := by rw [← hf]; exact ho'
        have hnone := foldTop_initStack us (fold cs u).reverse.length us.length
        -- the first step of the `us`-machine is a read
        cases ho'' with
        | fold h _ => rw [hnone] at h; cases h
        | read h k =>
          have hys : xs'.length = 2 * (pairsBE u xs').length := pairsBE_length u xs' hxl
          obtain ⟨o, ho, hl1, hl2⟩ := sim u us _ _ _ k xs' rfl hys
          refine ⟨(1, a) :: o, ?_, ?_, ?_⟩
          · apply Emits.read (foldTop_zero_on_lift _ 0 _)
            have hp : pushItem (u :: us).length (0, a)
                ((0, 0) :: lift (initStack (fold cs u).reverse.length us.length))
                = (0, a) :: (0, 0) :: lift (initStack (fold cs u).reverse.length us.length) := by
              simp [pushItem]
            rw [hp]
            have hfo : foldTop (u :: us)
                ((0, a) :: (0, 0) :: lift (initStack (fold cs u).reverse.length us.length))
                = some ((1, a), lift (initStack (fold cs u).reverse.length us.length)) := by
              simp [foldTop]
            apply Emits.fold hfo
            have := pushItem_lift us.length (0, a) (initStack (fold cs u).reverse.length us.length)
            simp only [List.length_cons, zero_add] at this ⊢
            rw [this]
            exact ho
          · rw [level_cons, if_pos rfl, hl1, hf]
          · intro j hj
            rw [level_cons, if_neg (by simp; omega)]
            exact hl2 j hj
    obtain ⟨out, ho, hl1, hl2⟩ := key
    rw [toList_eq_of_emits (u :: us) cs.reverse out ho]
    rcases Nat.eq_or_lt_of_le h1 with h1' | h1'
    · subst h1'
      simpa [foldAll] using hl1
    · obtain ⟨j, rfl⟩ : ∃ j, i = j + 1 := ⟨i - 1, by omega⟩
      rw [hl2 j (by omega), ← hto', ih (fold cs u) j (by omega) (by simp at h2; omega)]
      simp [foldAll]

/-! ### nothing else is emitted -/

theorem foldTop_mem (chal : List F) (st st' : List (Nat × F)) (item : Nat × F)
    (h : foldTop chal st = some (item, st')) :
    (∃ e ∈ st, item.1 = e.1 + 1) ∧ ∀ e ∈ st', e ∈ st := by
  match st, h with
  | lhs :: rhs :: rest, h =>
    simp only [foldTop] at h
    split at h
    · injection h with h; injection h with h1 h2
      subst h1; subst h2
      exact ⟨⟨rhs, by simp, rfl⟩, fun e he => by simp [he]⟩
    · cases h

theorem emits_levels (chal : List F) (st : List (Nat × F)) (it : List F) (out : List (Nat × F))
    (h : Emits chal st it out) (hst : ∀ e ∈ st, e.1 < chal.length) :
    ∀ item ∈ out, 1 ≤ item.1 ∧ item.1 ≤ chal.length := by
  induction h with
  | @fold st it out item st' hf k ih =>
    obtain ⟨⟨e, he, hl⟩, hsub⟩ := foldTop_mem chal st st' item hf
    have hle : item.1 ≤ chal.length := by have := hst e he; omega
    intro x hx
    rcases List.mem_cons.1 hx with hx | hx
    · rw [hx]; exact ⟨foldTop_level_pos chal st st' item hf, hle⟩
    · apply ih _ x hx
      intro e' he'
      unfold pushItem at he'
      split at he'
      · rcases List.mem_cons.1 he' with h1 | h1
        · rw [h1]; omega
        · exact hst e' (hsub e' h1)
      · exact hst e' (hsub e' he')
  | @read st x it out hf k ih =>
    apply ih
    intro e' he'
    unfold pushItem at he'
    split at he'
    · rename_i hne
      rcases List.mem_cons.1 he' with h1 | h1
      · rw [h1]; simp at hne ⊢; omega
      · exact hst e' h1
    · exact hst e' he'
  | done _ => intro x hx; simp at hx

theorem initStackLoop_levels (i delta : Nat) (acc : List (Nat × F)) (d : Nat) (hi : i ≤ d)
    (hacc : ∀ e ∈ acc, e.1 < d) : ∀ e ∈ initStackLoop i delta acc, e.1 < d := by
  induction i generalizing delta acc with
  | zero => exact hacc
  | succ i ih =>
    rw [initStackLoop]
    split
    · apply ih _ _ (by omega)
      intro e he
      rcases List.mem_cons.1 he with h | h
      · rw [h]; simp; omega
      · exact hacc e h
    · exact ih _ _ (by omega) hacc

/-- every item the tree iterator yields has a level in `1..depth` -/
theorem tree_items_levels (chal csBE : List F) :
    ∀ item ∈ Tree.toList csBE chal, 1 ≤ item.1 ∧ item.1 ≤ chal.length := by
  obtain ⟨out, ho⟩ := emits_total chal _ (initStack csBE.length chal.length) csBE (Nat.le_refl _)
  rw [toList_eq_of_emits chal csBE out ho]
  apply emits_levels chal _ _ _ ho
  unfold initStack
  split
  · exact initStackLoop_levels _ _ _ _ (Nat.le_refl _) (fun e he => by simp at he)
  · intro e he; simp at he

/-! ### the stream iterator -/

/-- big-step semantics of `FoldedPolynomialStreamIter` (one constructor per outcome of a round) -/
inductive EmitsS (chal : List F) : List (Nat × F) → List F → List F → Prop
  | push {st it item st' it' out} (h : Stream.stepItem chal st it = some (item, st', it'))
      (hne : item.1 ≠ chal.length) (k : EmitsS chal (item :: st') it' out) : EmitsS chal st it out
  | out {st it item st' it' out} (h : Stream.stepItem chal st it = some (item, st', it'))
      (heq : item.1 = chal.length) (k : EmitsS chal st' it' out) : EmitsS chal st it (item.2 :: out)
  | done {st it} (h : Stream.stepItem chal st it = none) : EmitsS chal st it []

theorem stepItem_measure (chal : List F) (st st' : List (Nat × F)) (it it' : List F)
    (item : Nat × F) (h : Stream.stepItem chal st it = some (item, st', it')) :
    2 * it'.length + st'.length + 2 ≤ 2 * it.length + st.length := by
  cases hf : foldTop chal st with
  | some r =>
    obtain ⟨item0, st0⟩ := r
    simp only [Stream.stepItem, hf, Option.some.injEq, Prod.mk.injEq] at h
    obtain ⟨_, h2, h3⟩ := h
    subst h2; subst h3
    have := foldTop_length chal st st0 item0 hf
    omega
  | none =>
    simp only [Stream.stepItem, hf] at h
    split at h
    · rcases it with _ | ⟨a, _ | ⟨b, it1⟩⟩ <;> simp at h
      obtain ⟨_, h2, h3⟩ := h
      subst h2; subst h3; simp; omega
    · rcases it with _ | ⟨a, it1⟩ <;> simp at h
      obtain ⟨_, h2, h3⟩ := h
      subst h2; subst h3; simp; omega

/-- one call of `next` with enough fuel yields the head of the big-step output -/
theorem nextS_of_emits (chal : List F) (st : List (Nat × F)) (it out : List F)
    (h : EmitsS chal st it out) : ∀ f, 2 * it.length + st.length < f →
      (out = [] → Stream.next chal f st it = none) ∧
      (∀ x out', out = x :: out' → ∃ it' st', Stream.next chal f st it = some (x, it', st')
        ∧ EmitsS chal st' it' out') := by
  induction h with
  | @push st it item st' it' out h hne k ih =>
    intro f hf
    have hm := stepItem_measure chal st st' it it' item h
    cases f with
    | zero => omega
    | succ f =>
      simp only [Stream.next, h, if_pos hne]
      exact ih f (by simp; omega)
  | @out st it item st' it' out h heq k _ =>
    intro f hf
    cases f with
    | zero => omega
    | succ f =>
      simp only [Stream.next, h, if_neg (not_not.2 heq)]
      refine ⟨fun hc => (by cases hc), ?_⟩
      intro x out' hx
      injection hx with hx1 hx2
      subst hx1; subst hx2
      exact ⟨it', st', rfl, k⟩
  | @done st it h =>
    intro f hf
    cases f with
    | zero => omega
    | succ f =>
      simp only [Stream.next, h]
      exact ⟨fun _ => trivial, fun x out' hc => (by cases hc)⟩

theorem collectS_of_emits (chal : List F) (out : List F) : ∀ (st : List (Nat × F)) (it : List F),
    EmitsS chal st it out → ∀ f, out.length < f → Stream.collect chal f st it = out := by
  induction out with
  | nil =>
    intro st it h f hf
    cases f with
    | zero => omega
    | succ f =>
      have := (nextS_of_emits chal st it [] h (2 * it.length + st.length + 1) (by omega)).1 rfl
      simp only [Stream.collect, this]
  | cons x out ih =>
    intro st it h f hf
    cases f with
    | zero => omega
    | succ f =>
      obtain ⟨it', st', hn, hk⟩ :=
        (nextS_of_emits chal st it (x :: out) h (2 * it.length + st.length + 1) (by omega)).2 x out rfl
      simp only [Stream.collect, hn]
      rw [ih st' it' hk f (by simp at hf; omega)]

theorem foldTop_zero_fast (chal : List F) (x : F) (st : List (Nat × F))
    (h : Stream.fastPath st = true) : foldTop chal ((0, x) :: st) = none := by
  match st, h with
  | [], _ => rfl
  | top :: rest, h =>
    simp only [Stream.fastPath, bne_iff_ne, ne_eq] at h
    simp only [foldTop]
    rw [if_neg (by simpa using fun hh => h hh.symm)]

theorem level_length_le (items : List (Nat × F)) (i : Nat) :
    (Tree.level items i).length ≤ items.length := by
  unfold Tree.level
  rw [List.length_map]
  exact List.length_filter_le _ _

/-- for a positive depth the stream iterator yields the top-level items of the tree iterator's run
(its fast path reads two items and folds them at once, `challenges[0] * rhs + lhs`) -/
theorem streamS_of_emits (chal : List F) (hd : 1 ≤ chal.length) : ∀ (m : Nat)
    (st : List (Nat × F)) (it : List F) (out : List (Nat × F)),
    2 * it.length + st.length ≤ m → Emits chal st it out →
      EmitsS chal st it (Tree.level out chal.length) := by
  intro m
  induction m with
  | zero =>
    intro st it out hm h
    have h1 : it = [] := List.length_eq_zero_iff.1 (by omega)
    have h2 : st = [] := List.length_eq_zero_iff.1 (by omega)
    subst h1; subst h2
    cases h with
    | fold h _ => simp [foldTop] at h
    | done h => exact EmitsS.done (by simp [Stream.stepItem, foldTop])
  | succ m ih =>
    intro st it out hm h
    cases h with
    | @fold _ _ out item st' hf k =>
      have hlen := foldTop_length chal st st' item hf
      have hstep : Stream.stepItem chal st it = some (item, st', it) := by
        simp [Stream.stepItem, hf]
      rw [level_cons]
      by_cases heq : item.1 = chal.length
      · rw [if_pos heq]
        have hp : pushItem chal.length item st' = st' := by simp [pushItem, heq]
        rw [hp] at k
        exact EmitsS.out hstep heq (ih _ _ _ (by omega) k)
      · rw [if_neg heq]
        have hp : pushItem chal.length item st' = item :: st' := by simp [pushItem, heq]
        rw [hp] at k
        exact EmitsS.push hstep heq (ih _ _ _ (by simp; omega) k)
    | @read _ x it' _ hf k =>
      have hp : pushItem chal.length (0, x) st = (0, x) :: st := by
        simp [pushItem]; omega
      rw [hp] at k
      by_cases hfast : Stream.fastPath st = true
      · have hz := foldTop_zero_fast chal x st hfast
        cases k with
        | fold h2 _ => rw [hz] at h2; cases h2
        | done _ =>
          exact EmitsS.done (by
            simp only [Stream.stepItem, hf, hfast, Bool.and_true]
            rw [if_pos (by simp; omega)])
        | @read _ y it'' _ _ k2 =>
          have hp2 : pushItem chal.length (0, y) ((0, x) :: st) = (0, y) :: (0, x) :: st := by
            simp [pushItem]; omega
          rw [hp2] at k2
          have hf3 : foldTop chal ((0, y) :: (0, x) :: st)
              = some ((1, x * chal.getD 0 0 + y), st) := by simp [foldTop]
          cases k2 with
          | read h3 _ => rw [hf3] at h3; cases h3
          | done h3 => rw [hf3] at h3; cases h3
          | @fold _ _ out3 item3 st3 h3 k3 =>
            rw [hf3] at h3
            injection h3 with h3; injection h3 with h3a h3b
            subst h3a; subst h3b
            have hstep : Stream.stepItem chal st (x :: y :: it'')
                = some ((1, x * chal.getD 0 0 + y), st, it'') := by
              simp only [Stream.stepItem, hf, hfast, Bool.and_true]
              rw [if_pos (by simp; omega)]
              simp; ring
            rw [level_cons]
            by_cases heq : (1 : Nat) = chal.length
            · rw [if_pos heq]
              have hp3 : pushItem chal.length (1, x * chal.getD 0 0 + y) st = st := by
                simp [pushItem, heq.symm]
              rw [hp3] at k3
              exact EmitsS.out hstep heq (ih _ _ _ (by simp at hm; omega) k3)
            · rw [if_neg heq]
              have hp3 : pushItem chal.length (1, x * chal.getD 0 0 + y) st
                  = (1, x * chal.getD 0 0 + y) :: st := by
                simp [pushItem]; omega
              rw [hp3] at k3
              exact EmitsS.push hstep heq (ih _ _ _ (by simp at hm ⊢; omega) k3)
      · have hstep : Stream.stepItem chal st (x :: it') = some ((0, x), st, it') := by
          simp [Stream.stepItem, hf, hfast]
        exact EmitsS.push hstep (by simp; omega) (ih _ _ _ (by simp at hm ⊢; omega) k)
    | done hf =>
      exact EmitsS.done (by
        simp only [Stream.stepItem, hf]
        split <;> rfl)

/-- depth 0: the stream iterator returns the stream itself -/
theorem streamS_depth_zero (it : List F) : EmitsS ([] : List F) [] it it := by
  induction it with
  | nil => exact EmitsS.done (by simp [Stream.stepItem, foldTop])
  | cons x it ih =>
    have hstep : Stream.stepItem ([] : List F) [] (x :: it) = some ((0, x), [], it) := by
      simp [Stream.stepItem, foldTop]
    exact EmitsS.out hstep rfl ih

/-- **`FoldedPolynomialStream`**: for every coefficient vector (any length) and every challenge
list the iterator yields exactly the coefficients of the full folding, highest degree first. -/
theorem stream_eq_fold (chal cs : List F) :
    Stream.toList cs.reverse chal = (foldAll cs chal).reverse := by
  unfold Stream.toList
  cases chal with
  | nil =>
    have h0 : (initStack cs.reverse.length ([] : List F).length : List (Nat × F)) = [] := by
      simp [initStack, Nat.mod_one]
    rw [h0]
    exact collectS_of_emits [] _ _ _ (streamS_depth_zero cs.reverse) _ (by simp)
  | cons u us =>
    obtain ⟨out, ho⟩ := emits_total (u :: us) _ (initStack cs.reverse.length (u :: us).length)
      cs.reverse (Nat.le_refl _)
    have hS := streamS_of_emits (u :: us) (by simp) _ _ _ _ (Nat.le_refl _) ho
    have hlev := tree_level_eq_fold (u :: us) cs (u :: us).length (by simp) (Nat.le_refl _)
    rw [toList_eq_of_emits (u :: us) cs.reverse out ho, List.take_length] at hlev
    rw [hlev] at hS
    refine collectS_of_emits (u :: us) _ _ _ hS _ ?_
    -- the full folding is not longer than the input
    have : ∀ (us : List F) (cs : List F), (foldAll cs us).length ≤ cs.length := by
      intro us
      induction us with
      | nil => intro cs; simp [foldAll]
      | cons v vs ih =>
        intro cs
        simp only [foldAll]
        have := ih (fold cs v)
        rw [fold_length] at this
        omega
    have := this (u :: us) cs
    simp at this ⊢
    omega

end Fold
end PCV
