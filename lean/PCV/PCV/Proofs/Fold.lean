/-
  PCV.Proofs.Fold — the folded-polynomial iterators of `data_structures.rs` enumerate the
  coefficients of the successive foldings, for every length.

  Method.  `Emits chal st it out` is the big-step semantics of the stack machine shared by both
  iterators (fold the two top entries of equal level, else read one stream item).  The model's
  `Tree.collect` computes it (`collect_of_emits`).  A machine with challenges `u :: us` on a stream
  simulates the machine with challenges `us` on the once-folded stream with all levels shifted by
  one (`sim`), and `init_stack` commutes with that shift (`initStack_even/odd`); induction on the
  challenge list then gives every level.
-/
import PCV.Model.Fold
import Mathlib.Tactic.Ring
import Mathlib.Tactic.LinearCombination
import Mathlib.Algebra.Field.Basic

set_option linter.unusedSectionVars false

namespace PCV
namespace Fold
variable {F : Type} [Field F]

/-! ### big-step semantics of the stack machine -/

inductive Emits (chal : List F) : List (Nat × F) → List F → List (Nat × F) → Prop
  | fold {st it out item st'} (h : foldTop chal st = some (item, st'))
      (k : Emits chal (pushItem chal.length item st') it out) : Emits chal st it (item :: out)
  | read {st x it out} (h : foldTop chal st = none)
      (k : Emits chal (pushItem chal.length (0, x) st) it out) : Emits chal st (x :: it) out
  | done {st} (h : foldTop chal st = none) : Emits chal st [] []

theorem foldTop_length (chal : List F) (st st' : List (Nat × F)) (item : Nat × F)
    (h : foldTop chal st = some (item, st')) : st.length = st'.length + 2 := by
  match st, h with
  | lhs :: rhs :: rest, h =>
    simp only [foldTop] at h
    split at h
    · injection h with h; injection h with _ h2; subst h2; simp
    · cases h

theorem foldTop_level_pos (chal : List F) (st st' : List (Nat × F)) (item : Nat × F)
    (h : foldTop chal st = some (item, st')) : 1 ≤ item.1 := by
  match st, h with
  | lhs :: rhs :: rest, h =>
    simp only [foldTop] at h
    split at h
    · injection h with h; injection h with h1 _; subst h1; simp
    · cases h

theorem pushItem_length_le (d : Nat) (item : Nat × F) (st : List (Nat × F)) :
    (pushItem d item st).length ≤ st.length + 1 := by
  unfold pushItem; split <;> simp

theorem next_fold (chal : List F) (st st' : List (Nat × F)) (item : Nat × F) (it : List F)
    (h : foldTop chal st = some (item, st')) :
    Tree.next chal st it = some (item, it, pushItem chal.length item st') := by
  cases it <;> simp [Tree.next, h]

theorem next_read (chal : List F) (st : List (Nat × F)) (x : F) (it : List F)
    (h : foldTop chal st = none) :
    Tree.next chal st (x :: it) = Tree.next chal (pushItem chal.length (0, x) st) it := by
  simp [Tree.next, h]

theorem next_done (chal : List F) (st : List (Nat × F)) (h : foldTop chal st = none) :
    Tree.next chal st [] = none := by
  simp [Tree.next, h]

theorem collect_read (chal : List F) (st : List (Nat × F)) (x : F) (it : List F) (f : Nat)
    (h : foldTop chal st = none) :
    Tree.collect chal f st (x :: it) = Tree.collect chal f (pushItem chal.length (0, x) st) it := by
  cases f with
  | zero => rfl
  | succ f => simp only [Tree.collect, next_read chal st x it h]

/-- the model's iteration (`fuel` calls of `next`) computes the big-step semantics -/
theorem collect_of_emits (chal : List F) (st : List (Nat × F)) (it : List F) (out : List (Nat × F))
    (h : Emits chal st it out) :
    ∀ f, it.length + st.length < f → Tree.collect chal f st it = out := by
  induction h with
  | @fold st it out item st' h k ih =>
    intro f hf
    cases f with
    | zero => omega
    | succ f =>
      simp only [Tree.collect, next_fold chal st st' item it h]
      rw [ih f (by
        have := foldTop_length chal st st' item h
        have := pushItem_length_le chal.length item st'
        omega)]
  | @read st x it out h k ih =>
    intro f hf
    rw [collect_read chal st x it f h]
    exact ih f (by
      have := pushItem_length_le chal.length (0, x) st
      simp at hf; omega)
  | @done st h =>
    intro f _
    cases f with
    | zero => rfl
    | succ f => simp only [Tree.collect, next_done chal st h]

/-- the machine always terminates -/
theorem emits_total (chal : List F) : ∀ (m : Nat) (st : List (Nat × F)) (it : List F),
    2 * it.length + st.length ≤ m → ∃ out, Emits chal st it out := by
  intro m
  induction m with
  | zero =>
    intro st it h
    have h1 : it = [] := List.length_eq_zero_iff.1 (by omega)
    have h2 : st = [] := List.length_eq_zero_iff.1 (by omega)
    subst h1; subst h2
    exact ⟨[], Emits.done rfl⟩
  | succ m ih =>
    intro st it h
    cases hf : foldTop chal st with
    | some r =>
      obtain ⟨item, st'⟩ := r
      have h1 := foldTop_length chal st st' item hf
      have h2 := pushItem_length_le chal.length item st'
      obtain ⟨out, ho⟩ := ih (pushItem chal.length item st') it (by omega)
      exact ⟨item :: out, Emits.fold hf ho⟩
    | none =>
      cases it with
      | nil => exact ⟨[], Emits.done hf⟩
      | cons x it =>
        have h2 := pushItem_length_le chal.length (0, x) st
        obtain ⟨out, ho⟩ := ih (pushItem chal.length (0, x) st) it (by simp at h; omega)
        exact ⟨out, Emits.read hf ho⟩

/-- the tree iterator's full output is the big-step output from the initial stack -/
theorem toList_eq_of_emits (chal csBE : List F) (out : List (Nat × F))
    (h : Emits chal (initStack csBE.length chal.length) csBE out) : Tree.toList csBE chal = out := by
  unfold Tree.toList
  exact collect_of_emits chal _ _ _ h _ (by omega)

/-! ### levels -/

theorem level_cons (item : Nat × F) (items : List (Nat × F)) (i : Nat) :
    Tree.level (item :: items) i
      = if item.1 = i then item.2 :: Tree.level items i else Tree.level items i := by
  unfold Tree.level
  by_cases h : item.1 = i <;> simp [List.filter_cons, h]

/-! ### shifting levels by one -/

def lift (st : List (Nat × F)) : List (Nat × F) := st.map (fun e => (e.1 + 1, e.2))

theorem foldTop_lift_none (u : F) (us : List F) (st : List (Nat × F))
    (h : foldTop us st = none) : foldTop (u :: us) (lift st) = none := by
  match st with
  | [] => rfl
  | [_] => rfl
  | lhs :: rhs :: rest =>
    simp only [foldTop, lift, List.map_cons] at h ⊢
    split at h
    · cases h
    · rename_i hne
      rw [if_neg (by simpa using hne)]

theorem foldTop_lift_some (u : F) (us : List F) (st st' : List (Nat × F)) (item : Nat × F)
    (h : foldTop us st = some (item, st')) :
    foldTop (u :: us) (lift st) = some ((item.1 + 1, item.2), lift st') := by
  match st, h with
  | lhs :: rhs :: rest, h =>
    simp only [foldTop, lift, List.map_cons] at h ⊢
    split at h
    · rename_i heq
      injection h with h; injection h with h1 h2
      subst h1; subst h2
      rw [if_pos (by simpa using heq)]
      simp [lift]
    · cases h

theorem pushItem_lift (d : Nat) (item : Nat × F) (st : List (Nat × F)) :
    pushItem (d + 1) (item.1 + 1, item.2) (lift st) = lift (pushItem d item st) := by
  unfold pushItem
  by_cases h : item.1 = d
  · simp [h]
  · simp [h, lift]

theorem foldTop_zero_on_lift (chal : List F) (a : F) (st : List (Nat × F)) :
    foldTop chal ((0, a) :: lift st) = none := by
  match st with
  | [] => rfl
  | e :: rest => simp [foldTop, lift]

/-- folding consecutive pairs of a big-endian stream: `rhs·u + lhs` -/
def pairsBE (u : F) : List F → List F
  | a :: b :: rest => (a * u + b) :: pairsBE u rest
  | _ => []

/-- **simulation**: the machine with challenges `u :: us` on an even-length stream `xs`, started
from a shifted stack, emits the pair-folded stream at level 1 and, one level up, exactly what the
machine with challenges `us` emits on the pair-folded stream. -/
theorem sim (u : F) (us : List F) (st' : List (Nat × F)) (ys : List F) (out' : List (Nat × F))
    (h : Emits us st' ys out') :
    ∀ xs, ys = pairsBE u xs → xs.length = 2 * ys.length →
      ∃ out, Emits (u :: us) (lift st') xs out ∧ Tree.level out 1 = ys
        ∧ ∀ i, 1 ≤ i → Tree.level out (i + 1) = Tree.level out' i := by
  induction h with
  | @fold st it out item st'' h k ih =>
    intro xs hxs hlen
    obtain ⟨o, ho, h1, h2⟩ := ih xs hxs hlen
    have hpos := foldTop_level_pos us st st'' item h
    refine ⟨(item.1 + 1, item.2) :: o, ?_, ?_, ?_⟩
    · apply Emits.fold (foldTop_lift_some u us st st'' item h)
      simp only [List.length_cons]
      rw [pushItem_lift]
      exact ho
    · rw [level_cons, if_neg (by simp; omega)]; exact h1
    · intro i hi
      rw [level_cons, level_cons, h2 i hi]
      simp
  | @read st y it out h k ih =>
    intro xs hxs hlen
    match xs, hxs, hlen with
    | [], hxs, _ => simp [pairsBE] at hxs
    | [_], hxs, _ => simp [pairsBE] at hxs
    | a :: b :: xs', hxs, hlen =>
      simp only [pairsBE, List.cons.injEq] at hxs
      obtain ⟨hy, hit⟩ := hxs
      obtain ⟨o, ho, h1, h2⟩ := ih xs' hit (by simp at hlen; omega)
      refine ⟨(1, y) :: o, ?_, ?_, ?_⟩
      · apply Emits.read (foldTop_lift_none u us st h)
        have hp1 : pushItem (u :: us).length (0, a) (lift st) = (0, a) :: lift st := by
          simp [pushItem]
        rw [hp1]
        apply Emits.read (foldTop_zero_on_lift _ a st)
        have hp2 : pushItem (u :: us).length (0, b) ((0, a) :: lift st)
            = (0, b) :: (0, a) :: lift st := by simp [pushItem]
        rw [hp2]
        have hf : foldTop (u :: us) ((0, b) :: (0, a) :: lift st) = some ((1, y), lift st) := by
          simp [foldTop, hy]
        apply Emits.fold hf
        have := pushItem_lift us.length (0, y) st
        simp only [List.length_cons, zero_add] at this ⊢
        rw [this]
        exact ho
      · rw [level_cons, if_pos rfl, h1]
      · intro i hi
        rw [level_cons, if_neg (by simp; omega)]
        exact h2 i hi
  | @done st h =>
    intro xs hxs hlen
    have : xs = [] := List.length_eq_zero_iff.1 (by simpa using hlen)
    subst this
    exact ⟨[], Emits.done (foldTop_lift_none u us st h), rfl, fun i _ => rfl⟩

end Fold
end PCV
