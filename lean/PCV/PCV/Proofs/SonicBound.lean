/-
  PCV.Proofs.SonicBound — soundness of SonicKZG10's degree-bound enforcement against an algebraic
  committer/prover.  A bound-`d` commitment is paired with `β^{-(D−d)}·h`; if the committed polynomial
  `q` (any combination of the published powers) is NOT of the form `X^{D−d}·p` — it has a non-zero
  coefficient below `X^{D−d}` — acceptance makes the trapdoor a root of an explicit non-zero polynomial.
-/
import PCV.Proofs.SonicCheck
import PCV.Proofs.KZG10Extract
import PCV.Proofs.DegreeBound

set_option linter.unusedSectionVars false

namespace PCV
namespace Sonic
variable {F : Type} [Field F] [DecidableEq F]

/-- `ξ·q − X^k·(ξ·v + a·(X − z))` -/
def boundExtract (q a : List F) (z v ξ : F) (k : Nat) : List F :=
  padd (pscale ξ q) (pscale (-1) (pshift k (padd [ξ * v] (KZG.mulLin a z))))

theorem eval_boundExtract (q a : List F) (z v ξ : F) (k : Nat) (x : F) :
    evalPoly (boundExtract q a z v ξ k) x
      = ξ * evalPoly q x - fpow x k * (ξ * v + evalPoly a x * (x - z)) := by
  unfold boundExtract
  simp only [eval_padd, eval_pscale, eval_pshift, KZG.eval_mulLin, evalPoly_cons, evalPoly_nil,
    mul_zero, add_zero]
  ring

/-- below `X^k` the extraction polynomial has the coefficients of `ξ·q` -/
theorem coeff_boundExtract_low (q a : List F) (z v ξ : F) (k i : Nat) (hi : i < k) :
    coeff (boundExtract q a z v ξ k) i = ξ * coeff q i := by
  unfold boundExtract
  rw [padd_coeff, pscale_coeff, pscale_coeff]
  have : coeff (pshift k (padd [ξ * v] (KZG.mulLin a z))) i = 0 := by
    unfold pshift coeff
    rw [List.getElem?_append_left (by simpa using hi)]
    simp [hi]
  rw [this]; ring

/-- the verifier's decision on one bound-`d` commitment of an algebraic prover, at the trapdoor -/
theorem bounded_check_root (vk : VK F) (g β bi h : F) (hb : β * bi = 1) (D d : Nat)
    (hg : vk.g = g) (hh : vk.h = h) (hbh : vk.betaH = β * h)
    (hsp : vk.shiftOf (some d) = some (fpow bi (D - d) * h))
    (hg0 : g ≠ 0) (hh0 : h ≠ 0)
    (l : Marlin.Label) (q a : List F) (z v ξ : F) (ξs rest : List F)
    (hacc : check vk [⟨l, g * evalPoly q β, some d⟩] z [v] ⟨g * evalPoly a β, none⟩ (ξ :: ξs)
      = .ok (true, rest)) :
    evalPoly (boundExtract q a z v ξ (D - d)) β = 0 := by
  obtain ⟨_, _, hdef⟩ := (check_true_iff vk _ z _ _ _ rest).1 hacc
  unfold defect at hdef
  simp only [linC, linV, VK.shiftD, hsp, Option.getD_some, KZG.rvVal, hg, hh, hbh, add_zero,
    zero_mul] at hdef
  rw [eval_boundExtract]
  have hpow : fpow β (D - d) * fpow bi (D - d) = 1 := fpow_mul_inv β bi hb (D - d)
  have : g * h * (ξ * evalPoly q β - fpow β (D - d) * (ξ * v + evalPoly a β * (β - z))) = 0 := by
    have e : g * h * (ξ * evalPoly q β - fpow β (D - d) * (ξ * v + evalPoly a β * (β - z)))
        = fpow β (D - d) * (ξ * (g * evalPoly q β) * (fpow bi (D - d) * h)
            - (g * (ξ * v) - g * evalPoly a β * z) * h - g * evalPoly a β * (β * h))
          + (1 - fpow β (D - d) * fpow bi (D - d)) * (g * h * ξ * evalPoly q β) := by ring
    rw [e, hdef, hpow]; ring
  rcases mul_eq_zero.1 this with h2 | h2
  · rcases mul_eq_zero.1 h2 with h3 | h3
    · exact absurd h3 hg0
    · exact absurd h3 hh0
  · exact h2

/-- **Few bad trapdoors.** If the committed polynomial `q` has a non-zero coefficient below
`X^{D−d}` and `ξ ≠ 0`, the extraction polynomial is non-zero; the trapdoors for which such a
commitment can be accepted under the bound `d` lie in a set of at most `|extraction polynomial| − 1`
elements. -/
theorem bound_forgery_exceptional_set (q a : List F) (z v ξ : F) (k : Nat) (hξ : ξ ≠ 0)
    (hlow : ∃ i, i < k ∧ coeff q i ≠ 0) :
    ∃ S : Finset F, S.card ≤ (boundExtract q a z v ξ k).length - 1 ∧
      ∀ β, evalPoly (boundExtract q a z v ξ k) β = 0 → β ∈ S := by
  obtain ⟨i, hi, hc⟩ := hlow
  apply Roots.zeros_bounded_of_coeff
  refine ⟨i, ?_⟩
  rw [← DegreeBound.coeff_eq_getD, coeff_boundExtract_low q a z v ξ k i hi]
  exact mul_ne_zero hξ hc

end Sonic
end PCV
