/-
  PCV.Proofs.MarlinTrim — `MarlinKZG10::trim` on parameters made from a trapdoor yields the
  well-formed keys `WF` that the completeness proof assumes; sorted/deduplicated bound lists.
-/
import PCV.Proofs.Marlin
set_option linter.unusedSectionVars false

namespace PCV
namespace Marlin
variable {F : Type} [Field F] [DecidableEq F]

theorem mem_insertSorted (x y : Nat) (l : List Nat) : y ∈ insertSorted x l ↔ y = x ∨ y ∈ l := by
  induction l with
  | nil => simp [insertSorted]
  | cons a as ih =>
    simp only [insertSorted]
    split
    · simp
    · split
      · rename_i h1 h2; subst h2; simp
      · simp only [List.mem_cons, ih]; tauto

theorem mem_sortDedup (y : Nat) (l : List Nat) : y ∈ sortDedup l ↔ y ∈ l := by
  induction l with
  | nil => simp [sortDedup]
  | cons a as ih => simp only [sortDedup, mem_insertSorted, ih, List.mem_cons]

theorem sorted_insertSorted (x : Nat) (l : List Nat) (h : l.Pairwise (· < ·)) :
    (insertSorted x l).Pairwise (· < ·) := by
  induction l with
  | nil => simp [insertSorted]
  | cons a as ih =>
    simp only [insertSorted]
    rw [List.pairwise_cons] at h
    split
    · rename_i hlt
      rw [List.pairwise_cons]
      refine ⟨?_, List.pairwise_cons.2 h⟩
      intro y hy
      rcases List.mem_cons.1 hy with rfl | hy
      · exact hlt
      · exact Nat.lt_trans hlt (h.1 y hy)
    · split
      · exact List.pairwise_cons.2 h
      · rename_i h1 h2
        rw [List.pairwise_cons]
        refine ⟨?_, ih h.2⟩
        intro y hy
        rcases (mem_insertSorted x y as).1 hy with rfl | hy
        · omega
        · exact h.1 y hy

theorem sorted_sortDedup (l : List Nat) : (sortDedup l).Pairwise (· < ·) := by
  induction l with
  | nil => simp [sortDedup]
  | cons a as ih => exact sorted_insertSorted a _ ih

theorem le_getLastD_of_sorted (l : List Nat) (h : l.Pairwise (· < ·)) :
    ∀ d ∈ l, d ≤ l.getLastD 0 := by
  induction l with
  | nil => simp
  | cons a as ih =>
    rw [List.pairwise_cons] at h
    intro d hd
    cases as with
    | nil => simp at hd; simp [hd]
    | cons b bs =>
      have hl : (a :: b :: bs).getLastD 0 = (b :: bs).getLastD 0 := by simp [List.getLastD]
      rw [hl]
      rcases List.mem_cons.1 hd with rfl | hd
      · have h1 := h.1 b (by simp)
        have h2 := ih h.2 b (by simp)
        omega
      · exact ih h.2 d hd

theorem find_shift (bs : List Nat) (f : Nat → F) (d : Nat) (hd : d ∈ bs) :
    ((bs.map fun x => (x, f x)).find? (·.1 = d)).map (·.2) = some (f d) := by
  induction bs with
  | nil => simp at hd
  | cons a as ih =>
    simp only [List.map_cons, List.find?_cons]
    by_cases ha : a = d
    · subst ha; simp
    · have : d ∈ as := by
        rcases List.mem_cons.1 hd with h | h
        · exact absurd h.symm ha
        · exact h
      simp only [ha, decide_false]
      exact ih this

/-- universal parameters made by `setup` from the trapdoor `β` (maximum degree `D`) -/
def wfParams (g γ β h : F) (D : Nat) : UParams F :=
  ⟨powers g β (D + 1), powers γ β (D + 2), h, β * h⟩

/-- **C09 (Marlin).** `trim` of well-formed parameters returns well-formed keys: the committer key
holds exactly the first `supported+1` powers and `hiding+2` γ-powers, the shifted window starts at
`D − max(bounds)`, and the verifier key carries `g·β^(D−d)` for exactly the sorted, deduplicated
bounds. -/
theorem trim_wf (g γ β h : F) (D s hb : Nat) (bounds : Option (List Nat)) (ck : CK F) (vk : VK F)
    (ht : trim (wfParams g γ β h D) s hb bounds = .ok (ck, vk)) :
    WF ck vk g γ β h D (s + 1) (hb + 2) ∧ s ≤ D ∧ hb ≤ D ∧
      ck.bounds = bounds.map sortDedup ∧ vk.supported = s ∧ vk.maxDegree = D := by
  unfold trim wfParams at ht
  simp only [powers] at ht
  have hlenp : (g :: powers (β * g) β D).length - 1 = D := by simp [powers_length]
  have hleng : (γ :: β * γ :: powers (β * (β * γ)) β D).length = D + 2 := by simp [powers_length]
  simp only [hlenp, hleng] at ht
  by_cases hs : s > D
  · rw [if_pos hs] at ht; cases ht
  · rw [if_neg hs] at ht
    by_cases hh : hb + 2 > D + 2
    · rw [if_pos hh] at ht; cases ht
    · rw [if_neg hh] at ht
      have hsD : s ≤ D := by omega
      have hhD : hb ≤ D := by omega
      have hp : (g :: powers (β * g) β D).take (s + 1) = powers g β (s + 1) := by
        have := powers_take g β (D + 1) (s + 1)
        simp only [powers] at this
        rw [this]; congr 1; omega
      have hgm : (γ :: β * γ :: powers (β * (β * γ)) β D).take (hb + 2) = powers γ β (hb + 2) := by
        have := powers_take γ β (D + 2) (hb + 2)
        simp only [powers] at this
        rw [this]; congr 1; omega
      cases hbm : bounds.map sortDedup with
      | none =>
        rw [hbm] at ht
        simp only at ht
        injection ht with ht; injection ht with h1 h2
        subst h1; subst h2
        refine ⟨⟨hp, hgm, rfl, rfl, ?_, ?_⟩, hsD, hhD, rfl, rfl, rfl⟩
        · intro bs hb'; cases hb'
        · intro bs hb'; cases hb'
      | some bl =>
        rw [hbm] at ht
        cases bl with
        | nil =>
          simp only at ht
          injection ht with ht; injection ht with h1 h2
          subst h1; subst h2
          refine ⟨⟨hp, hgm, rfl, rfl, ?_, ?_⟩, hsD, hhD, rfl, rfl, rfl⟩
          · intro bs hb' hne; injection hb' with hb'; exact absurd hb'.symm hne
          · intro bs hb' d hd; injection hb' with hb'; rw [← hb'] at hd; simp at hd
        | cons b bs =>
          simp only at ht
          by_cases hlast : (b :: bs).getLastD 0 > D
          · rw [if_pos hlast] at ht; cases ht
          · rw [if_neg hlast] at ht
            injection ht with ht; injection ht with h1 h2
            subst h1; subst h2
            have hsorted : (b :: bs).Pairwise (· < ·) := by
              cases bounds with
              | none => simp at hbm
              | some l =>
                simp only [Option.map_some, Option.some.injEq] at hbm
                rw [← hbm]; exact sorted_sortDedup l
            have hle := le_getLastD_of_sorted (b :: bs) hsorted
            refine ⟨⟨hp, hgm, rfl, rfl, ?_, ?_⟩, hsD, hhD, rfl, rfl, rfl⟩
            · intro bs' hb' _
              injection hb' with hb'
              subst hb'
              have hlD : (b :: bs).getLastD 0 ≤ D := Nat.le_of_not_gt hlast
              refine ⟨?_, hle, hlD⟩
              congr 1
              have := powers_drop g β (D + 1) (D - (b :: bs).getLastD 0)
              simp only [powers] at this
              rw [this]
              have e : D + 1 - (D - (b :: bs).getLastD 0) = (b :: bs).getLastD 0 + 1 := by omega
              rw [e]
            · intro bs' hb' d hd
              injection hb' with hb'
              subst hb'
              unfold VK.shiftPower
              simp only
              rw [find_shift (b :: bs) _ d hd]
              congr 1
              have hdle := hle d hd
              have := powers_getD g β (D + 1) (D - d) (by omega)
              simpa [powers] using this

end Marlin
end PCV
