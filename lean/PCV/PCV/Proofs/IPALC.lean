/-
  PCV.Proofs.IPALC — IPA's own `open_combinations` / `check_combinations` (`PCV.Model.IPALC`):
  * the flat commitment vector is re-read correctly by `construct_labeled_commitments`;
  * a combination of committed polynomials is a committed polynomial (any coefficients, repeated
    labels, constants, mixed hiding; a single bounded term of coefficient one keeps its bound);
  * the verifier's combination loop produces the same commitments and subtracts the constants;
  * completeness of `check_combinations ∘ open_combinations`;
  * the degree-bound policy (refusals of prover and verifier with the code's error);
  * a commitment whose shifted part does not go with its degree bound is refused with
    `InvalidCommitment` by both loops (D26), before it can misalign the flat commitment vector.
-/
import PCV.Model.IPALC
import PCV.Proofs.IPABatch
import PCV.Proofs.IPABatchErr
import PCV.Proofs.PolyMore
import PCV.Proofs.MarlinLC

set_option linter.unusedSectionVars false
set_option linter.unusedVariables false

namespace PCV
namespace IPA
variable {F : Type} [Field F] [DecidableEq F]

/-! ### normal forms -/

theorem pnorm_idem (p : List F) : pnorm (pnorm p) = pnorm p := by
  induction p with
  | nil => rfl
  | cons c cs ih =>
    cases h : pnorm cs with
    | nil =>
      by_cases hc : c = 0
      · simp [pnorm, h, hc]
      · simp [pnorm, h, hc]
    | cons d ds =>
      have h1 : pnorm (c :: cs) = c :: d :: ds := by simp [pnorm, h]
      rw [h1]
      have h2 : pnorm (d :: ds) = d :: ds := by rw [← h]; exact ih
      show (match pnorm (d :: ds) with
        | [] => if c = 0 then [] else [c]
        | cs' => c :: cs') = c :: d :: ds
      rw [h2]

theorem lcAddPoly_norm (acc : List F) (coeff : F) (p : List F) :
    pnorm (lcAddPoly acc coeff p) = lcAddPoly acc coeff p := pnorm_idem _

theorem eval_lcAddPoly (acc : List F) (coeff : F) (p : List F) (z : F) :
    evalPoly (lcAddPoly acc coeff p) z = evalPoly acc z + coeff * evalPoly p z := by
  unfold lcAddPoly; rw [eval_pnorm, eval_padd, eval_pscale]

theorem dot_lcAddPoly (G acc : List F) (coeff : F) (p : List F) :
    dot G (lcAddPoly acc coeff p) = dot G acc + coeff * dot G p := by
  unfold lcAddPoly
  rw [dot_comm, dot_pnorm, dot_comm, dot_padd_right, dot_pscale_right]

theorem lcAddPoly_len (acc : List F) (coeff : F) (p : List F) (n : Nat)
    (h1 : (pnorm acc).length ≤ n) (h2 : (pnorm p).length ≤ n) :
    (pnorm (lcAddPoly acc coeff p)).length ≤ n := by
  rw [lcAddPoly_norm]; unfold lcAddPoly
  exact pnorm_padd_le _ _ _ h1 (pnorm_pscale_le _ _ _ h2)

/-! ### `construct_labeled_commitments` re-reads the flat vector -/

/-- the commitment of one combination, as the code means it -/
def LCAcc.lcomm (a : LCAcc F) : LComm F := ⟨a.label, ⟨a.comm, a.shifted⟩, a.bound⟩
/-- `lc_commitments` after `construct_labeled_commitments`, as the code means it -/
def lcComms (as : List (LCAcc F)) : List (LComm F) := as.map LCAcc.lcomm

def LCAccV.lcomm (a : LCAccV F) : LComm F := ⟨a.label, ⟨a.comm, a.shifted⟩, a.bound⟩
def lcCommsV (as : List (LCAccV F)) : List (LComm F) := as.map LCAccV.lcomm

/-- when every combination has a shifted part exactly if it has a bound, the index walk of
`construct_labeled_commitments` returns each combination's own elements -/
theorem construct_aligned (as : List (LCAcc F))
    (h : ∀ a ∈ as, a.shifted.isSome = a.bound.isSome) :
    constructLabeledCommitments (lcInfo as) (lcFlat as) = .ok (lcComms as) := by
  induction as with
  | nil => rfl
  | cons a as ih =>
    have ha := h a (by simp)
    have ih' := ih (fun b hb => h b (by simp [hb]))
    simp only [lcInfo, List.map_cons, lcFlat, LCAcc.flat, lcComms] at ih' ⊢
    cases hb : a.bound with
    | none =>
      rw [hb] at ha
      have hs : a.shifted = none := by
        cases hx : a.shifted with
        | none => rfl
        | some _ => rw [hx] at ha; simp at ha
      simp only [hs, Option.toList_none, List.cons_append, List.nil_append,
        constructLabeledCommitments]
      rw [ih']
      simp [LCAcc.lcomm, hb, hs]
    | some d =>
      rw [hb] at ha
      cases hx : a.shifted with
      | none => rw [hx] at ha; simp at ha
      | some sc =>
        simp only [Option.toList_some, List.cons_append, List.nil_append,
          constructLabeledCommitments]
        rw [ih']
        simp [LCAcc.lcomm, hb, hx]

theorem construct_alignedV (as : List (LCAccV F))
    (h : ∀ a ∈ as, a.shifted.isSome = a.bound.isSome) :
    constructLabeledCommitments (lcInfoV as) (lcFlatV as) = .ok (lcCommsV as) := by
  induction as with
  | nil => rfl
  | cons a as ih =>
    have ha := h a (by simp)
    have ih' := ih (fun b hb => h b (by simp [hb]))
    simp only [lcInfoV, List.map_cons, lcFlatV, LCAccV.flat, lcCommsV] at ih' ⊢
    cases hb : a.bound with
    | none =>
      rw [hb] at ha
      have hs : a.shifted = none := by
        cases hx : a.shifted with
        | none => rfl
        | some _ => rw [hx] at ha; simp at ha
      simp only [hs, Option.toList_none, List.cons_append, List.nil_append,
        constructLabeledCommitments]
      rw [ih']
      simp [LCAccV.lcomm, hb, hs]
    | some d =>
      rw [hb] at ha
      cases hx : a.shifted with
      | none => rw [hx] at ha; simp at ha
      | some sc =>
        simp only [Option.toList_some, List.cons_append, List.nil_append,
          constructLabeledCommitments]
        rw [ih']
        simp [LCAccV.lcomm, hb, hx]

/-! ### the prover's combination is a committed polynomial -/

/-- every entry of `label_poly_map` is an honest (polynomial, state, commitment) triple in normal
form -/
def TripsOK (ck : CK F) (trips : List (Trip F)) : Prop :=
  ∀ t ∈ trips, Committed ck t.1 t.2.2 t.2.1 ∧ pnorm t.1.poly = t.1.poly

theorem tripsOK_of_all (ck : CK F) :
    ∀ (polys : List (LPoly F)) (comms : List (LComm F)) (sts : List (Rand F)),
      AllCommitted ck polys comms sts → (∀ p ∈ polys, pnorm p.poly = p.poly) →
      TripsOK ck (polys.zip (sts.zip comms)) := by
  intro polys
  induction polys with
  | nil => intro comms sts _ _ t ht; simp at ht
  | cons p ps ih =>
    intro comms sts hall hnf
    cases comms with
    | nil => simp [AllCommitted] at hall
    | cons c cs =>
      cases sts with
      | nil => simp [AllCommitted] at hall
      | cons st sts =>
        obtain ⟨h1, h2⟩ := hall
        intro t ht
        simp only [List.zip_cons_cons, List.mem_cons] at ht
        rcases ht with rfl | ht
        · exact ⟨h1, hnf p (by simp)⟩
        · exact ih cs sts h2 (fun q hq => hnf q (by simp [hq])) t ht

def LCAcc.lpoly (a : LCAcc F) : LPoly F := ⟨a.label, a.poly, a.bound, a.hb⟩
def LCAcc.state (a : LCAcc F) : Rand F := ⟨a.rand, a.srand⟩

/-- the combination is an honest triple: `batch_open` / `batch_check` treat it like any committed
polynomial -/
def LCGood (ck : CK F) (a : LCAcc F) : Prop :=
  Committed ck a.lpoly a.lcomm a.state ∧ pnorm a.poly = a.poly

/-- invariant of the term loop while no bounded polynomial has been met -/
structure InvU (ck : CK F) (a : LCAcc F) : Prop where
  bound : a.bound = none
  shifted : a.shifted = none
  srand : a.srand = none
  comm : a.comm = dot ck.commKey a.poly + ck.s * a.rand
  norm : pnorm a.poly = a.poly
  len : (pnorm a.poly).length ≤ supportedDegree ck + 1
  hid : a.hb.isSome = false → a.rand = 0

theorem invU_init (ck : CK F) (l : Label) : InvU ck (LCAcc.init l : LCAcc F) := by
  refine ⟨rfl, rfl, rfl, ?_, rfl, ?_, fun _ => rfl⟩
  · simp [LCAcc.init]
  · simp [LCAcc.init, pnorm]

theorem maxHb_none (a b : Option Nat) (h : (maxHb a b).isSome = false) : a = none ∧ b = none := by
  cases a <;> cases b <;> simp [maxHb] at h ⊢

/-- facts about an unbounded honest triple -/
theorem committed_unbounded (ck : CK F) (t : Trip F) (hc : Committed ck t.1 t.2.2 t.2.1)
    (hb : t.1.bound = none) :
    t.2.1.shifted = none ∧ t.2.2.comm.shifted = none ∧
    t.2.2.comm.comm = dot ck.commKey t.1.poly + ck.s * t.2.1.rand ∧
    (pnorm t.1.poly).length ≤ supportedDegree ck + 1 ∧ (t.1.hb.isSome = false → t.2.1.rand = 0) := by
  obtain ⟨_, _, hadm, hcomm, hsh, hnh, hh⟩ := hc
  obtain ⟨hdeg, _⟩ := adm_spec _ _ _ hadm
  refine ⟨?_, ?_, hcomm, ?_, fun h => (hnh h).1⟩
  · cases hx : t.1.hb.isSome with
    | false => exact (hnh hx).2
    | true =>
      have := hh hx
      rw [hb] at this
      cases hy : t.2.1.shifted with
      | none => rfl
      | some _ => rw [hy] at this; simp at this
  · rw [hsh, hb]; rfl
  · unfold pdeg at hdeg; omega

theorem addTerm_invU (ck : CK F) (a : LCAcc F) (coeff : F) (t : Trip F) (hi : InvU ck a)
    (hc : Committed ck t.1 t.2.2 t.2.1) (hb : t.1.bound = none) :
    InvU ck (a.addTerm coeff t) ∧ (a.addTerm coeff t).label = a.label ∧
      ∀ z, evalPoly (a.addTerm coeff t).poly z = evalPoly a.poly z + coeff * evalPoly t.1.poly z := by
  obtain ⟨h1, h2, h3, h4, h5⟩ := committed_unbounded ck t hc hb
  refine ⟨⟨hi.bound, ?_, ?_, ?_, ?_, ?_, ?_⟩, rfl, fun z => eval_lcAddPoly _ _ _ z⟩
  · simp only [LCAcc.addTerm, h2, combineShiftedComm]; exact hi.shifted
  · simp only [LCAcc.addTerm, h1, combineShiftedRand]; exact hi.srand
  · simp only [LCAcc.addTerm]
    rw [dot_lcAddPoly, hi.comm, h3]; ring
  · exact lcAddPoly_norm _ _ _
  · exact lcAddPoly_len _ _ _ _ hi.len h4
  · intro hh
    simp only [LCAcc.addTerm] at hh ⊢
    obtain ⟨ha, ht⟩ := maxHb_none _ _ hh
    rw [hi.hid (by rw [ha]; rfl), h5 (by rw [ht]; rfl)]; ring

theorem invU_good (ck : CK F) (a : LCAcc F) (hi : InvU ck a) : LCGood ck a := by
  refine ⟨⟨rfl, rfl, ?_, ?_, ?_, ?_, ?_⟩, hi.norm⟩
  · simp only [LCAcc.lpoly]
    rw [checkDegreesAndBounds_ok_iff]
    refine ⟨?_, ?_⟩
    · have := hi.len; unfold pdeg; omega
    · intro d hd; rw [hi.bound] at hd; cases hd
  · simp only [LCAcc.lcomm, LCAcc.lpoly, LCAcc.state]; exact hi.comm
  · simp only [LCAcc.lcomm, LCAcc.lpoly, hi.bound, hi.shifted]; rfl
  · intro hh
    simp only [LCAcc.lpoly] at hh
    simp only [LCAcc.state]
    exact ⟨hi.hid hh, hi.srand⟩
  · intro _
    simp only [LCAcc.state, LCAcc.lpoly, hi.srand, hi.bound]
    rfl

theorem optVal_combine_none (x : Option F) :
    optVal (combineShiftedRand none x 1) = optVal x := by
  cases x <;> simp [combineShiftedRand, optVal]

/-- a single term of coefficient one over a bounded polynomial keeps bound, shifted commitment and
shifted randomness -/
theorem single_good (ck : CK F) (l : Label) (t : Trip F) (hc : Committed ck t.1 t.2.2 t.2.1)
    (hnf : pnorm t.1.poly = t.1.poly) :
    LCGood ck ({ (LCAcc.init l : LCAcc F) with bound := t.1.bound }.addTerm 1 t) ∧
      ({ (LCAcc.init l : LCAcc F) with bound := t.1.bound }.addTerm 1 t).poly = t.1.poly := by
  have hp : lcAddPoly ([] : List F) 1 t.1.poly = t.1.poly := by
    unfold lcAddPoly
    have : pscale (1 : F) t.1.poly = t.1.poly := by simp [pscale]
    rw [this]
    have : padd ([] : List F) t.1.poly = t.1.poly := by cases t.1.poly <;> rfl
    rw [this, hnf]
  obtain ⟨_, _, hadm, hcomm, hsh, hnh, hh⟩ := hc
  refine ⟨⟨⟨rfl, rfl, ?_, ?_, ?_, ?_, ?_⟩, ?_⟩, ?_⟩
  · simp only [LCAcc.lpoly, LCAcc.addTerm, LCAcc.init, hp]; exact hadm
  · simp only [LCAcc.lcomm, LCAcc.lpoly, LCAcc.state, LCAcc.addTerm, LCAcc.init, hp, hcomm]; ring
  · simp only [LCAcc.lcomm, LCAcc.lpoly, LCAcc.state, LCAcc.addTerm, LCAcc.init, hp, hsh]
    cases hb : t.1.bound with
    | none => simp [combineShiftedComm]
    | some d =>
      simp only [Option.map_some, combineShiftedComm, optVal_combine_none]
      congr 1; ring
  · intro hx
    simp only [LCAcc.lpoly, LCAcc.addTerm, LCAcc.init, maxHb] at hx
    obtain ⟨h1, h2⟩ := hnh hx
    simp only [LCAcc.state, LCAcc.addTerm, LCAcc.init, h1, h2, combineShiftedRand]
    constructor
    · ring
    · trivial
  · intro hx
    simp only [LCAcc.lpoly, LCAcc.addTerm, LCAcc.init, maxHb] at hx
    have := hh hx
    simp only [LCAcc.state, LCAcc.lpoly, LCAcc.addTerm, LCAcc.init]
    rw [← this]
    cases t.2.1.shifted <;> simp [combineShiftedRand]
  · simp only [LCAcc.addTerm, LCAcc.init, hp]; exact hnf
  · simp only [LCAcc.addTerm, LCAcc.init, hp]

/-- the part of a combination's value contributed by its polynomial terms, at the point `z` (labels
resolve like in the code: last entry of `label_poly_map`) -/
def lcPolyValue (trips : List (Trip F)) (z : F) : List (F × LC.LCTerm) → F
  | [] => 0
  | t :: ts =>
    (match t.2 with
     | .one => 0
     | .poly l => match Marlin.lookupLast (fun (t : Trip F) => t.1.label) l trips with
       | none => 0
       | some x => t.1 * evalPoly x.1.poly z) + lcPolyValue trips z ts

/-- what a successful step of the prover's term loop did -/
theorem lcStepP_ok (trips : List (Trip F)) (k : Nat) (acc acc' : LCAcc F) (term : F × LC.LCTerm)
    (h : lcStepP trips k acc term = .ok acc') :
    (term.2 = .one ∧ acc' = acc) ∨
    ∃ l t, term.2 = .poly l ∧ Marlin.lookupLast (fun (t : Trip F) => t.1.label) l trips = some t ∧
      ((k = 1 ∧ t.1.bound.isSome = true ∧ term.1 = 1 ∧
          acc' = { acc with bound := t.1.bound }.addTerm term.1 t) ∨
       (t.1.bound.isSome = false ∧ acc' = acc.addTerm term.1 t)) := by
  unfold lcStepP at h
  cases ht : term.2 with
  | one =>
    rw [ht] at h
    simp only at h
    injection h with h
    exact Or.inl ⟨rfl, h.symm⟩
  | poly l =>
    rw [ht] at h
    simp only at h
    cases hl : Marlin.lookupLast (fun (t : Trip F) => t.1.label) l trips with
    | none => rw [hl] at h; cases h
    | some t =>
      rw [hl] at h
      simp only at h
      refine Or.inr ⟨l, t, rfl, hl, ?_⟩
      by_cases h0 : t.1.bound.isSome ≠ t.2.2.comm.shifted.isSome
      · rw [if_pos h0] at h; cases h
      rw [if_neg h0] at h
      by_cases h1 : k = 1 ∧ t.1.bound.isSome = true
      · rw [if_pos h1] at h
        by_cases h2 : term.1 ≠ 1
        · rw [if_pos h2] at h; cases h
        · rw [if_neg h2] at h
          injection h with h
          exact Or.inl ⟨h1.1, h1.2, not_not.1 h2, h.symm⟩
      · rw [if_neg h1] at h
        by_cases h3 : t.1.bound.isSome = true
        · rw [if_pos h3] at h; cases h
        · rw [if_neg h3] at h
          injection h with h
          exact Or.inr ⟨by simpa using h3, h.symm⟩

/-- the term loop of a combination that is not a single term: no bounded polynomial gets through,
the invariant is kept and the polynomial evaluates to the combination of the evaluations -/
theorem lcLoopP_invU (ck : CK F) (trips : List (Trip F)) (hok : TripsOK ck trips) (k : Nat)
    (hk : k ≠ 1) :
    ∀ (ts : List (F × LC.LCTerm)) (acc acc' : LCAcc F), InvU ck acc →
      lcLoopP trips k acc ts = .ok acc' →
      InvU ck acc' ∧ acc'.label = acc.label ∧
        ∀ z, evalPoly acc'.poly z = evalPoly acc.poly z + lcPolyValue trips z ts := by
  intro ts
  induction ts with
  | nil =>
    intro acc acc' hi h
    simp only [lcLoopP] at h
    injection h with h; subst h
    exact ⟨hi, rfl, fun z => by simp [lcPolyValue]⟩
  | cons t ts ih =>
    intro acc acc' hi h
    simp only [lcLoopP] at h
    split at h
    · cases h
    · rename_i acc1 hstep
      rcases lcStepP_ok trips k acc acc1 t hstep with ⟨h1, h2⟩ | ⟨l, x, h1, hl, h2 | h2⟩
      · rw [h2] at h
        obtain ⟨a, b, c⟩ := ih acc acc' hi h
        refine ⟨a, b, fun z => ?_⟩
        rw [c z]; simp [lcPolyValue, h1]
      · exact absurd h2.1 hk
      · obtain ⟨hb, hacc⟩ := h2
        subst hacc
        have hbn : x.1.bound = none := by
          cases hx : x.1.bound with
          | none => rfl
          | some _ => rw [hx] at hb; simp at hb
        obtain ⟨hmem, _⟩ := Marlin.lookupLast_mem _ l trips x hl
        obtain ⟨i1, i2, i3⟩ := addTerm_invU ck acc t.1 x hi (hok x hmem).1 hbn
        obtain ⟨a, b, c⟩ := ih _ acc' i1 h
        refine ⟨a, by rw [b, i2], fun z => ?_⟩
        rw [c z, i3 z]
        simp only [lcPolyValue, h1, hl]; ring

/-- **a combination of committed polynomials is a committed polynomial** with the combination's
label, whose evaluation is the combination of the evaluations (constants excluded) -/
theorem combineOneP_good (ck : CK F) (trips : List (Trip F)) (hok : TripsOK ck trips)
    (lc : LC.LinComb F) (a : LCAcc F) (h : combineOneP trips lc = .ok a) :
    LCGood ck a ∧ a.label = lc.label ∧ ∀ z, evalPoly a.poly z = lcPolyValue trips z lc.terms := by
  unfold combineOneP at h
  by_cases hk : lc.terms.length = 1
  · rw [hk] at h
    match hts : lc.terms, hk with
    | [t], _ =>
      rw [hts] at h
      simp only [lcLoopP] at h
      split at h
      · cases h
      · rename_i acc1 hstep
        injection h with h; subst h
        rcases lcStepP_ok trips 1 _ acc1 t hstep with ⟨h1, h2⟩ | ⟨l, x, h1, hl, h2 | h2⟩
        · subst h2
          exact ⟨invU_good ck _ (invU_init ck lc.label), rfl, fun z => by simp [lcPolyValue, h1, LCAcc.init]⟩
        · obtain ⟨_, hb, hc1, hacc⟩ := h2
          subst hacc
          obtain ⟨hmem, _⟩ := Marlin.lookupLast_mem _ l trips x hl
          rw [hc1]
          obtain ⟨g, hp⟩ := single_good ck lc.label x (hok x hmem).1 (hok x hmem).2
          refine ⟨g, rfl, fun z => ?_⟩
          rw [hp]; simp [lcPolyValue, h1, hl, hc1]
        · obtain ⟨hb, hacc⟩ := h2
          subst hacc
          have hbn : x.1.bound = none := by
            cases hx : x.1.bound with
            | none => rfl
            | some _ => rw [hx] at hb; simp at hb
          obtain ⟨hmem, _⟩ := Marlin.lookupLast_mem _ l trips x hl
          obtain ⟨i1, i2, i3⟩ := addTerm_invU ck _ t.1 x (invU_init ck lc.label) (hok x hmem).1 hbn
          refine ⟨invU_good ck _ i1, i2, fun z => ?_⟩
          rw [i3 z]; simp [lcPolyValue, h1, hl, LCAcc.init]
  · obtain ⟨a1, a2, a3⟩ := lcLoopP_invU ck trips hok _ hk lc.terms _ a (invU_init ck lc.label) h
    exact ⟨invU_good ck a a1, a2, fun z => by rw [a3 z]; simp [LCAcc.init]⟩

theorem combineAllP_forall (trips : List (Trip F)) :
    ∀ (lcs : List (LC.LinComb F)) (as : List (LCAcc F)), combineAllP trips lcs = .ok as →
      List.Forall₂ (fun lc a => combineOneP trips lc = .ok a) lcs as := by
  intro lcs
  induction lcs with
  | nil =>
    intro as h
    simp only [combineAllP] at h
    injection h with h; subst h
    exact List.Forall₂.nil
  | cons lc lcs ih =>
    intro as h
    simp only [combineAllP] at h
    split at h
    · cases h
    · rename_i a ha
      split at h
      · cases h
      · rename_i as' has
        injection h with h; subst h
        exact List.Forall₂.cons ha (ih as' has)

/-! ### the verifier's loop mirrors the prover's -/

/-- the verifier's view of the prover's per-combination variables -/
def LCAcc.toV (a : LCAcc F) : LCAccV F := ⟨a.label, a.bound, a.comm, a.shifted⟩

/-- what one term does to the claimed values -/
def stepEvals (l : Label) (term : F × LC.LCTerm) (evals : List ((Label × F) × F)) :
    List ((Label × F) × F) :=
  match term.2 with
  | .one => subConstant l term.1 evals
  | .poly _ => evals

/-- what the terms of one combination do to the claimed values -/
def adjustTerms (l : Label) : List (F × LC.LCTerm) → List ((Label × F) × F) → List ((Label × F) × F)
  | [], e => e
  | t :: ts, e => adjustTerms l ts (stepEvals l t e)

/-- what `check_combinations` does to the claimed values: every constant of every combination is
subtracted from every value carrying that combination's label -/
def adjustEvals : List (LC.LinComb F) → List ((Label × F) × F) → List ((Label × F) × F)
  | [], e => e
  | lc :: lcs, e => adjustEvals lcs (adjustTerms lc.label lc.terms e)

/-- prover's and verifier's label lookups agree (the verifier reads the degree bound off the
labelled commitment) -/
def LookupAgree (trips : List (Trip F)) (comms : List (LComm F)) : Prop :=
  ∀ l, (Marlin.lookupLast (fun (t : Trip F) => t.1.label) l trips = none ∧
        Marlin.lookupLast (fun (c : LComm F) => c.label) l comms = none) ∨
    ∃ t, Marlin.lookupLast (fun (t : Trip F) => t.1.label) l trips = some t ∧
      Marlin.lookupLast (fun (c : LComm F) => c.label) l comms = some t.2.2 ∧ t.2.2.bound = t.1.bound

theorem lookupAgree_of_all (ck : CK F) (polys : List (LPoly F)) (comms : List (LComm F))
    (sts : List (Rand F)) (hall : AllCommitted ck polys comms sts)
    (hnf : ∀ p ∈ polys, pnorm p.poly = p.poly) :
    LookupAgree (polys.zip (sts.zip comms)) comms := by
  intro l
  have := lookup_fold ck l polys comms sts none none hall hnf (Or.inl ⟨rfl, rfl⟩)
  unfold Marlin.lookupLast
  rcases this with ⟨h1, h2⟩ | ⟨p, st, c, h1, h2, h3, _⟩
  · exact Or.inl ⟨h1, h2⟩
  · exact Or.inr ⟨(p, st, c), h1, h2, h3.2.1⟩

theorem lcStepP_label (trips : List (Trip F)) (k : Nat) (acc acc' : LCAcc F) (term : F × LC.LCTerm)
    (h : lcStepP trips k acc term = .ok acc') : acc'.label = acc.label := by
  rcases lcStepP_ok trips k acc acc' term h with ⟨_, h2⟩ | ⟨l, x, _, _, h2 | h2⟩
  · rw [h2]
  · rw [h2.2.2.2]; rfl
  · rw [h2.2]; rfl

/-- the verifier's step is the prover's step seen through `toV`, refusals included -/
theorem lcStepV_mirror (trips : List (Trip F)) (comms : List (LComm F)) (hag : LookupAgree trips comms)
    (k : Nat) (acc : LCAcc F) (term : F × LC.LCTerm) (evals : List ((Label × F) × F)) :
    lcStepV comms k (acc.toV, evals) term
      = match lcStepP trips k acc term with
        | .error e => .error e
        | .ok acc' => .ok (acc'.toV, stepEvals acc.label term evals) := by
  unfold lcStepV lcStepP stepEvals
  cases ht : term.2 with
  | one => rfl
  | poly l =>
    simp only
    rcases hag l with ⟨h1, h2⟩ | ⟨t, h1, h2, hbd⟩
    · rw [h1, h2]
    · rw [h1, h2]
      simp only [hbd]
      by_cases c0 : t.1.bound.isSome ≠ t.2.2.comm.shifted.isSome
      · rw [if_pos c0, if_pos c0]
      rw [if_neg c0, if_neg c0]
      by_cases c1 : k = 1 ∧ t.1.bound.isSome = true
      · rw [if_pos c1, if_pos c1]
        by_cases c2 : term.1 ≠ 1
        · rw [if_pos c2, if_pos c2]
        · rw [if_neg c2, if_neg c2]; rfl
      · rw [if_neg c1, if_neg c1]
        by_cases c3 : t.1.bound.isSome = true
        · rw [if_pos c3, if_pos c3]
        · rw [if_neg c3, if_neg c3]; rfl

theorem lcLoopV_mirror (trips : List (Trip F)) (comms : List (LComm F)) (hag : LookupAgree trips comms)
    (k : Nat) :
    ∀ (ts : List (F × LC.LCTerm)) (acc : LCAcc F) (evals : List ((Label × F) × F)),
      lcLoopV comms k (acc.toV, evals) ts
        = match lcLoopP trips k acc ts with
          | .error e => .error e
          | .ok acc' => .ok (acc'.toV, adjustTerms acc.label ts evals) := by
  intro ts
  induction ts with
  | nil => intro acc evals; rfl
  | cons t ts ih =>
    intro acc evals
    simp only [lcLoopV, lcLoopP, lcStepV_mirror trips comms hag k acc t evals]
    cases hstep : lcStepP trips k acc t with
    | error e => rfl
    | ok acc1 =>
      simp only
      rw [ih acc1, lcStepP_label trips k acc acc1 t hstep]
      rfl

/-- **the verifier's combination loop is the prover's seen through `toV`**: the same refusals, the
same commitments, and the claimed values adjusted by the constants -/
theorem combineAllV_mirror (trips : List (Trip F)) (comms : List (LComm F))
    (hag : LookupAgree trips comms) :
    ∀ (lcs : List (LC.LinComb F)) (evals : List ((Label × F) × F)),
      combineAllV comms lcs evals
        = match combineAllP trips lcs with
          | .error e => .error e
          | .ok as => .ok (as.map LCAcc.toV, adjustEvals lcs evals) := by
  intro lcs
  induction lcs with
  | nil => intro evals; rfl
  | cons lc lcs ih =>
    intro evals
    have e : (LCAccV.init lc.label : LCAccV F) = (LCAcc.init lc.label : LCAcc F).toV := rfl
    simp only [combineAllV, combineAllP, combineOneP, e,
      lcLoopV_mirror trips comms hag lc.terms.length lc.terms _ evals]
    cases h1 : lcLoopP trips lc.terms.length (LCAcc.init lc.label) lc.terms with
    | error e => rfl
    | ok a =>
      simp only
      rw [ih]
      cases h2 : combineAllP trips lcs with
      | error e => rfl
      | ok as => rfl

theorem combineAllV_of_P (trips : List (Trip F)) (comms : List (LComm F))
    (hag : LookupAgree trips comms) (lcs : List (LC.LinComb F)) (as : List (LCAcc F))
    (evals : List ((Label × F) × F)) (h : combineAllP trips lcs = .ok as) :
    combineAllV comms lcs evals = .ok (as.map LCAcc.toV, adjustEvals lcs evals) := by
  rw [combineAllV_mirror trips comms hag, h]

/-! ### the adjusted values in closed form -/

/-- the sum of the constant terms of a term list -/
def termsConstant : List (F × LC.LCTerm) → F
  | [] => 0
  | t :: ts => (match t.2 with | .one => t.1 | .poly _ => 0) + termsConstant ts

/-- the constant of a combination -/
def lcConstant (lc : LC.LinComb F) : F := termsConstant lc.terms

/-- the constants of all combinations labelled `l` -/
def constSum : List (LC.LinComb F) → Label → F
  | [], _ => 0
  | lc :: lcs, l => (if lc.label = l then lcConstant lc else 0) + constSum lcs l

theorem bump_bump (e1 e2 : Label × F → F) (evals : List ((Label × F) × F)) :
    bump e2 (bump e1 evals) = bump (fun k => e1 k + e2 k) evals := by
  unfold bump
  rw [List.map_map]
  apply List.map_congr_left
  intro e _
  simp only [Function.comp]
  congr 1; ring

theorem bump_zero (evals : List ((Label × F) × F)) : bump (fun _ => 0) evals = evals := by
  unfold bump
  conv_rhs => rw [← List.map_id evals]
  apply List.map_congr_left
  intro e _
  simp

theorem bump_congr (e1 e2 : Label × F → F) (evals : List ((Label × F) × F)) (h : ∀ k, e1 k = e2 k) :
    bump e1 evals = bump e2 evals := by
  have : e1 = e2 := funext h
  rw [this]

theorem subConstant_eq_bump (l : Label) (c : F) (evals : List ((Label × F) × F)) :
    subConstant l c evals = bump (fun k => if k.1 = l then -c else 0) evals := by
  unfold subConstant bump
  apply List.map_congr_left
  intro e _
  by_cases h : e.1.1 = l
  · simp only [h, if_true]; congr 1; ring
  · simp only [h, if_false]; simp

theorem adjustTerms_eq_bump (l : Label) :
    ∀ (ts : List (F × LC.LCTerm)) (evals : List ((Label × F) × F)),
      adjustTerms l ts evals = bump (fun k => if k.1 = l then -termsConstant ts else 0) evals := by
  intro ts
  induction ts with
  | nil =>
    intro evals
    simp only [adjustTerms, termsConstant, neg_zero, ite_self]
    exact (bump_zero evals).symm
  | cons t ts ih =>
    intro evals
    simp only [adjustTerms]
    rw [ih]
    unfold stepEvals
    cases ht : t.2 with
    | one =>
      simp only
      rw [subConstant_eq_bump, bump_bump]
      apply bump_congr
      intro k
      by_cases h : k.1 = l
      · simp only [h, if_true, termsConstant, ht]; ring
      · simp [h]
    | poly m =>
      simp only
      apply bump_congr
      intro k
      simp [termsConstant, ht]

/-- **the values `batch_check` sees**: claimed value minus the constants of every combination with
that label -/
theorem adjustEvals_eq_bump :
    ∀ (lcs : List (LC.LinComb F)) (evals : List ((Label × F) × F)),
      adjustEvals lcs evals = bump (fun k => -constSum lcs k.1) evals := by
  intro lcs
  induction lcs with
  | nil =>
    intro evals
    simp only [adjustEvals, constSum, neg_zero]
    exact (bump_zero evals).symm
  | cons lc lcs ih =>
    intro evals
    simp only [adjustEvals]
    rw [ih, adjustTerms_eq_bump, bump_bump]
    apply bump_congr
    intro k
    by_cases h : k.1 = lc.label
    · have h' : lc.label = k.1 := h.symm
      simp only [h, constSum, if_true, lcConstant]; ring
    · have h' : ¬ lc.label = k.1 := fun x => h x.symm
      simp only [h, h', constSum, if_false]; ring

/-! ### label lookups over the combinations -/

theorem lookupLast_map {α β : Type} (lbl : β → Label) (f : α → β) (l : Label) (xs : List α) :
    Marlin.lookupLast lbl l (xs.map f) = (Marlin.lookupLast (fun x => lbl (f x)) l xs).map f := by
  unfold Marlin.lookupLast
  rw [List.foldl_map]
  have : ∀ (acc : Option α),
      List.foldl (fun acc y => if lbl (f y) = l then some (f y) else acc) (acc.map f) xs
        = (List.foldl (fun acc x => if lbl (f x) = l then some x else acc) acc xs).map f := by
    induction xs with
    | nil => intro acc; rfl
    | cons x xs ih =>
      intro acc
      simp only [List.foldl_cons]
      by_cases h : lbl (f x) = l
      · simp only [h, if_true]; exact ih (some x)
      · simp only [h, if_false]; exact ih acc
  exact this none

theorem zip_maps {α β γ δ : Type} (f : α → β) (g : α → γ) (h : α → δ) (xs : List α) :
    (xs.map f).zip ((xs.map g).zip (xs.map h)) = xs.map fun a => (f a, g a, h a) := by
  induction xs with
  | nil => rfl
  | cons x xs ih => simp only [List.map_cons, List.zip_cons_cons, ih]

/-- the combination that produced the entry found under a label is the one found under that label -/
theorem lookup_combined (trips : List (Trip F)) (l : Label) :
    ∀ (lcs : List (LC.LinComb F)) (as : List (LCAcc F)),
      combineAllP trips lcs = .ok as → (∀ lc a, combineOneP trips lc = .ok a → a.label = lc.label) →
      ∀ (accx : Option (LC.LinComb F)) (accy : Option (LCAcc F)),
        ((accx = none ∧ accy = none) ∨ ∃ x y, accx = some x ∧ accy = some y ∧ combineOneP trips x = .ok y) →
        let rx := lcs.foldl (fun acc (x : LC.LinComb F) => if x.label = l then some x else acc) accx
        let ry := as.foldl (fun acc (y : LCAcc F) => if y.label = l then some y else acc) accy
        (rx = none ∧ ry = none) ∨ ∃ x y, rx = some x ∧ ry = some y ∧ combineOneP trips x = .ok y := by
  intro lcs
  induction lcs with
  | nil =>
    intro as h _ accx accy hacc
    simp only [combineAllP] at h
    injection h with h; subst h
    simpa using hacc
  | cons lc lcs ih =>
    intro as h hlab accx accy hacc
    simp only [combineAllP] at h
    split at h
    · cases h
    · rename_i a ha
      split at h
      · cases h
      · rename_i as' has
        injection h with h; subst h
        simp only [List.foldl_cons]
        apply ih as' has hlab
        have hl := hlab lc a ha
        by_cases hx : lc.label = l
        · have hy : a.label = l := by rw [hl]; exact hx
          simp only [hx, hy, if_true]
          exact Or.inr ⟨lc, a, rfl, rfl, ha⟩
        · have hy : ¬ a.label = l := by rw [hl]; exact hx
          simp only [hx, hy, if_false]
          exact hacc

theorem combineAllP_mem (trips : List (Trip F)) :
    ∀ (lcs : List (LC.LinComb F)) (as : List (LCAcc F)), combineAllP trips lcs = .ok as →
      ∀ a ∈ as, ∃ lc, lc ∈ lcs ∧ combineOneP trips lc = .ok a := by
  intro lcs
  induction lcs with
  | nil =>
    intro as h a ha
    simp only [combineAllP] at h
    injection h with h; subst h
    simp at ha
  | cons lc lcs ih =>
    intro as h a ha
    simp only [combineAllP] at h
    split at h
    · cases h
    · rename_i a0 ha0
      split at h
      · cases h
      · rename_i as' has
        injection h with h; subst h
        rcases List.mem_cons.1 ha with rfl | ha
        · exact ⟨lc, by simp, ha0⟩
        · obtain ⟨lc', h1, h2⟩ := ih as' has a ha
          exact ⟨lc', by simp [h1], h2⟩

theorem allCommitted_of_good (ck : CK F) :
    ∀ (as : List (LCAcc F)), (∀ a ∈ as, LCGood ck a) →
      AllCommitted ck (lcPolys as) (lcComms as) (lcStates as) := by
  intro as
  induction as with
  | nil => intro _; trivial
  | cons a as ih =>
    intro h
    exact ⟨(h a (by simp)).1, ih (fun b hb => h b (by simp [hb]))⟩

theorem good_aligned (ck : CK F) (a : LCAcc F) (h : LCGood ck a) :
    a.shifted.isSome = a.bound.isSome := by
  obtain ⟨⟨_, _, _, _, hsh, _, _⟩, _⟩ := h
  simp only [LCAcc.lcomm, LCAcc.lpoly] at hsh
  rw [hsh]
  cases a.bound <;> rfl

theorem lcCommsV_toV (as : List (LCAcc F)) : lcCommsV (as.map LCAcc.toV) = lcComms as := by
  unfold lcCommsV lcComms
  rw [List.map_map]
  rfl

/-! ### completeness -/

/-- **Completeness of `check_combinations ∘ open_combinations`** (IPA's own overrides), for every
list of combinations (any coefficients, repeated polynomial labels, constants, single bounded terms,
mixed hiding), every query set (several combinations per point, point labels sharing a value),
all oracle outputs and all verifier randomizers.  The claimed value of a queried combination `l` at
`z` is the value of its polynomial part plus the constants of the combinations labelled `l`
(`= LinearCombination` value when combination labels are distinct, `lc_value_distinct`). -/
theorem lc_complete (ck : CK F) (k : Nat) (hk : ck.commKey.length = 2 ^ k)
    (polys : List (LPoly F)) (comms : List (LComm F)) (sts : List (Rand F))
    (hall : AllCommitted ck polys comms sts) (hnf : ∀ p ∈ polys, pnorm p.poly = p.poly)
    (lcs : List (LC.LinComb F)) (qs : List (Query F)) (evals : List ((Label × F) × F))
    (hev : ∀ g ∈ Marlin.groupQueries qs, ∀ l ∈ g.2.2, ∀ lc,
      Marlin.lookupLast (fun (lc : LC.LinComb F) => lc.label) l lcs = some lc →
      Marlin.lookupEval evals l g.2.1
        = some (lcPolyValue (polys.zip (sts.zip comms)) g.2.1 lc.terms + constSum lcs l))
    (ξs ros rs : List F) (rng : Bool) (draws : List F) (πs : List (Proof F)) (ξr ror dr : List F)
    (ho : openCombinations ck lcs polys comms sts qs ξs ros rng draws = .ok (πs, ξr, ror, dr)) :
    checkCombinations ck lcs comms qs evals πs ξs ros rs = .ok true := by
  have hok := tripsOK_of_all ck polys comms sts hall hnf
  have hag := lookupAgree_of_all ck polys comms sts hall hnf
  unfold openCombinations at ho
  split at ho
  · cases ho
  · rename_i as has
    have hgood : ∀ a ∈ as, LCGood ck a := by
      intro a ha
      obtain ⟨lc, _, hlc⟩ := combineAllP_mem _ lcs as has a ha
      exact (combineOneP_good ck _ hok lc a hlc).1
    have hal : ∀ a ∈ as, a.shifted.isSome = a.bound.isSome := fun a ha => good_aligned ck a (hgood a ha)
    rw [construct_aligned as hal] at ho
    simp only at ho
    unfold checkCombinations
    rw [combineAllV_of_P _ comms hag lcs as evals has]
    simp only
    rw [construct_alignedV (as.map LCAcc.toV) (by
      intro a ha
      obtain ⟨b, hb, rfl⟩ := List.mem_map.1 ha
      exact hal b hb)]
    simp only
    rw [lcCommsV_toV]
    apply batch_complete ck k hk (lcPolys as) (lcComms as) (lcStates as)
      (allCommitted_of_good ck as hgood) _ qs _ _ ξs ros rs rng draws πs ξr ror dr ho
    · intro p hp
      obtain ⟨a, ha, rfl⟩ := List.mem_map.1 hp
      exact (hgood a ha).2
    · intro g hg l hl p st c hlook
      unfold lcPolys lcComms lcStates at hlook
      rw [zip_maps, lookupLast_map] at hlook
      cases hla : Marlin.lookupLast (fun (a : LCAcc F) => a.label) l as with
      | none =>
        have : Marlin.lookupLast (fun x => (fun (x : LPoly F × (Rand F × LComm F)) => x.1.label)
            ((fun (a : LCAcc F) => ((⟨a.label, a.poly, a.bound, a.hb⟩ : LPoly F),
              ((⟨a.rand, a.srand⟩ : Rand F), a.lcomm))) x)) l as = none := hla
        rw [this] at hlook; cases hlook
      | some a =>
        have : Marlin.lookupLast (fun x => (fun (x : LPoly F × (Rand F × LComm F)) => x.1.label)
            ((fun (a : LCAcc F) => ((⟨a.label, a.poly, a.bound, a.hb⟩ : LPoly F),
              ((⟨a.rand, a.srand⟩ : Rand F), a.lcomm))) x)) l as = some a := hla
        rw [this] at hlook
        simp only [Option.map_some] at hlook
        injection hlook with hlook
        injection hlook with hp _
        subst hp
        have hrel := lookup_combined _ l lcs as has
          (fun lc a h => (combineOneP_good ck _ hok lc a h).2.1) none none (Or.inl ⟨rfl, rfl⟩)
        simp only at hrel
        unfold Marlin.lookupLast at hla
        rcases hrel with ⟨_, h2⟩ | ⟨lc, a', h1, h2, h3⟩
        · rw [h2] at hla; cases hla
        · rw [h2] at hla
          injection hla with hla
          subst hla
          have hv := hev g hg l hl lc h1
          rw [adjustEvals_eq_bump, lookupEval_bump, hv]
          simp only [Option.map_some]
          rw [(combineOneP_good ck _ hok lc a' h3).2.2 g.2.1]
          congr 1; ring

/-! ### the value of a combination -/

/-- the assignment "label ↦ evaluation at `z` of the committed polynomial with that label" -/
def evalAssign (trips : List (Trip F)) (z : F) (l : Label) : F :=
  match Marlin.lookupLast (fun (t : Trip F) => t.1.label) l trips with
  | none => 0
  | some x => evalPoly x.1.poly z

/-- `LinearCombination`'s value under "label ↦ evaluation" = polynomial part + constants -/
theorem lc_value_split (trips : List (Trip F)) (z : F) (lc : LC.LinComb F) :
    LC.value lc (evalAssign trips z) = lcPolyValue trips z lc.terms + lcConstant lc := by
  unfold LC.value lcConstant
  generalize lc.terms = ts
  induction ts with
  | nil => simp [LC.termsValue, lcPolyValue, termsConstant]
  | cons t ts ih =>
    simp only [LC.termsValue, lcPolyValue, termsConstant]
    rw [ih]
    cases ht : t.2 with
    | one => simp only [LC.termVal]; ring
    | poly l =>
      simp only [LC.termVal, evalAssign]
      cases hl : Marlin.lookupLast (fun (t : Trip F) => t.1.label) l trips with
      | none => simp
      | some x => simp only; ring

theorem constSum_none (xs : List (LC.LinComb F)) (l : Label) (hno : ∀ y ∈ xs, y.label ≠ l) :
    constSum xs l = 0 := by
  induction xs with
  | nil => rfl
  | cons y ys ih =>
    simp only [constSum]
    rw [if_neg (hno y (by simp)), ih (fun w hw => hno w (by simp [hw]))]; ring

/-- with distinct combination labels the constants subtracted from the values of `lc` are `lc`'s -/
theorem constSum_distinct :
    ∀ (lcs : List (LC.LinComb F)), (lcs.map (·.label)).Nodup → ∀ (l : Label) (lc : LC.LinComb F),
      Marlin.lookupLast (fun (lc : LC.LinComb F) => lc.label) l lcs = some lc →
      constSum lcs l = lcConstant lc := by
  intro lcs hnd l lc hl
  obtain ⟨hmem, hlab⟩ := Marlin.lookupLast_mem _ l lcs lc hl
  clear hl
  induction lcs with
  | nil => simp at hmem
  | cons x xs ih =>
    simp only [List.map_cons, List.nodup_cons] at hnd
    obtain ⟨hx, hxs⟩ := hnd
    simp only [constSum]
    rcases List.mem_cons.1 hmem with rfl | hmem
    · rw [if_pos hlab]
      have : constSum xs l = 0 := by
        have hno : ∀ y ∈ xs, y.label ≠ l := by
          intro y hy hyl
          apply hx
          rw [hlab, ← hyl]
          exact List.mem_map.2 ⟨y, hy, rfl⟩
        exact constSum_none xs l hno
      rw [this]; ring
    · have hxl : ¬ x.label = l := by
        intro hxl
        apply hx
        rw [hxl, ← hlab]
        exact List.mem_map.2 ⟨lc, hmem, rfl⟩
      rw [if_neg hxl, ih hxs hmem]; ring

/-! ### the degree-bound policy -/

/-- a term naming a degree-bounded polynomial -/
def BoundedTerm (trips : List (Trip F)) (t : F × LC.LCTerm) : Prop :=
  ∃ l x, t.2 = .poly l ∧ Marlin.lookupLast (fun (t : Trip F) => t.1.label) l trips = some x ∧
    x.1.bound.isSome = true

/-- a term whose label (if any) is known -/
def Resolves (trips : List (Trip F)) (t : F × LC.LCTerm) : Prop :=
  ∀ l, t.2 = .poly l → ∃ x, Marlin.lookupLast (fun (t : Trip F) => t.1.label) l trips = some x

/-- the entries of `label_poly_map` are well formed: the commitment carries a shifted part exactly
when the polynomial has a degree bound (what `open_combinations` tests before the degree-bound
policy, refusing with `InvalidCommitment` otherwise) -/
def TripsAligned (trips : List (Trip F)) : Prop :=
  ∀ t ∈ trips, t.1.bound.isSome = t.2.2.comm.shifted.isSome

theorem tripsAligned_of_ok (ck : CK F) (trips : List (Trip F)) (hok : TripsOK ck trips) :
    TripsAligned trips := by
  intro t ht
  obtain ⟨⟨_, _, _, _, hsh, _, _⟩, _⟩ := hok t ht
  rw [hsh]
  cases t.1.bound <;> rfl

/-- a term naming an entry whose commitment's shifted part does not go with the degree bound is
refused with `InvalidCommitment`, before the degree-bound policy is looked at -/
theorem lcStepP_malformed (trips : List (Trip F)) (k : Nat) (acc : LCAcc F) (coeff : F) (l : Label)
    (x : Trip F) (hl : Marlin.lookupLast (fun (t : Trip F) => t.1.label) l trips = some x)
    (hbad : x.1.bound.isSome ≠ x.2.2.comm.shifted.isSome) :
    lcStepP trips k acc (coeff, .poly l) = .error .invalidCommitment := by
  unfold lcStepP
  simp only [hl]
  rw [if_pos hbad]

/-- one step: a bounded polynomial (with a well-formed commitment: without the shifted part the
step ends in `InvalidCommitment`, `lcStepP_malformed`) in a combination of `k ≠ 1` terms is refused
with `EquationHasDegreeBounds`; alone it must carry coefficient one (assertion) -/
theorem lcStepP_policy (trips : List (Trip F)) (k : Nat) (acc : LCAcc F) (coeff : F) (l : Label)
    (x : Trip F) (hl : Marlin.lookupLast (fun (t : Trip F) => t.1.label) l trips = some x)
    (hal : x.1.bound.isSome = x.2.2.comm.shifted.isSome)
    (hb : x.1.bound.isSome = true) :
    (k ≠ 1 → lcStepP trips k acc (coeff, .poly l) = .error .equationHasDegreeBounds) ∧
    (k = 1 → coeff ≠ 1 → lcStepP trips k acc (coeff, .poly l) = .error .abort) := by
  constructor
  · intro hk
    unfold lcStepP
    simp only [hl]
    rw [if_neg (not_not.2 hal), if_neg (by intro hx; exact hk hx.1), if_pos hb]
  · intro hk hc
    unfold lcStepP
    simp only [hl]
    rw [if_neg (not_not.2 hal), if_pos ⟨hk, hb⟩, if_pos hc]

theorem lcStepP_unknown (trips : List (Trip F)) (k : Nat) (acc : LCAcc F) (coeff : F) (l : Label)
    (hl : Marlin.lookupLast (fun (t : Trip F) => t.1.label) l trips = none) :
    lcStepP trips k acc (coeff, .poly l) = .error .missingPolynomial := by
  unfold lcStepP; simp only [hl]

/-- the term loop of a combination with `k ≠ 1` terms that names a bounded polynomial (all labels
known, well-formed commitments) ends in `EquationHasDegreeBounds` -/
theorem lcLoopP_mixed (trips : List (Trip F)) (hwf : TripsAligned trips) (k : Nat) (hk : k ≠ 1) :
    ∀ (ts : List (F × LC.LCTerm)) (acc : LCAcc F), (∀ t ∈ ts, Resolves trips t) →
      (∃ t ∈ ts, BoundedTerm trips t) →
      lcLoopP trips k acc ts = .error .equationHasDegreeBounds := by
  intro ts
  induction ts with
  | nil => intro acc _ ⟨t, ht, _⟩; simp at ht
  | cons t ts ih =>
    intro acc hres hex
    simp only [lcLoopP]
    cases ht : t.2 with
    | one =>
      have hstep : lcStepP trips k acc t = .ok acc := by unfold lcStepP; rw [ht]
      rw [hstep]
      simp only
      apply ih acc (fun t' ht' => hres t' (by simp [ht']))
      obtain ⟨t', ht', hb⟩ := hex
      rcases List.mem_cons.1 ht' with rfl | ht'
      · obtain ⟨l, x, h1, _⟩ := hb; rw [ht] at h1; cases h1
      · exact ⟨t', ht', hb⟩
    | poly l =>
      obtain ⟨x, hl⟩ := hres t (by simp) l ht
      have hal := hwf x (Marlin.lookupLast_mem _ l trips x hl).1
      by_cases hb : x.1.bound.isSome = true
      · have : t = (t.1, LC.LCTerm.poly l) := by rw [← ht]
        rw [this, (lcStepP_policy trips k acc t.1 l x hl hal hb).1 hk]
      · have hstep : lcStepP trips k acc t = .ok (acc.addTerm t.1 x) := by
          unfold lcStepP
          rw [ht]
          simp only [hl]
          rw [if_neg (not_not.2 hal), if_neg (by intro hx; exact hb hx.2), if_neg hb]
        rw [hstep]
        simp only
        apply ih _ (fun t' ht' => hres t' (by simp [ht']))
        obtain ⟨t', ht', hb'⟩ := hex
        rcases List.mem_cons.1 ht' with rfl | ht'
        · obtain ⟨l', x', h1, h2, h3⟩ := hb'
          rw [ht] at h1
          injection h1 with h1
          subst h1
          rw [hl] at h2
          injection h2 with h2
          subst h2
          exact absurd h3 hb
        · exact ⟨t', ht', hb'⟩

/-- in-domain side conditions: labels known, well-formed commitments, a single bounded term has
coefficient one — then the term loop answers or refuses with `EquationHasDegreeBounds`, nothing
else -/
theorem lcLoopP_outcomes (trips : List (Trip F)) (hwf : TripsAligned trips) (k : Nat) :
    ∀ (ts : List (F × LC.LCTerm)) (acc : LCAcc F), (∀ t ∈ ts, Resolves trips t) →
      (k = 1 → ∀ t ∈ ts, BoundedTerm trips t → t.1 = 1) →
      (∃ a, lcLoopP trips k acc ts = .ok a) ∨
        lcLoopP trips k acc ts = .error .equationHasDegreeBounds := by
  intro ts
  induction ts with
  | nil => intro acc _ _; exact Or.inl ⟨acc, rfl⟩
  | cons t ts ih =>
    intro acc hres hone
    simp only [lcLoopP]
    have hrest := fun a => ih a (fun t' ht' => hres t' (by simp [ht']))
      (fun hk t' ht' hb => hone hk t' (by simp [ht']) hb)
    cases ht : t.2 with
    | one =>
      have hstep : lcStepP trips k acc t = .ok acc := by unfold lcStepP; rw [ht]
      rw [hstep]; exact hrest acc
    | poly l =>
      obtain ⟨x, hl⟩ := hres t (by simp) l ht
      have hal := hwf x (Marlin.lookupLast_mem _ l trips x hl).1
      unfold lcStepP
      rw [ht]
      simp only [hl]
      rw [if_neg (not_not.2 hal)]
      by_cases c1 : k = 1 ∧ x.1.bound.isSome = true
      · rw [if_pos c1]
        have : t.1 = 1 := hone c1.1 t (by simp) ⟨l, x, ht, hl, c1.2⟩
        rw [if_neg (by simp [this])]
        exact hrest _
      · rw [if_neg c1]
        by_cases c3 : x.1.bound.isSome = true
        · rw [if_pos c3]; exact Or.inr rfl
        · rw [if_neg c3]; exact hrest _

/-- a combination of `≠ 1` terms that names a degree-bounded polynomial -/
def Mixes (trips : List (Trip F)) (lc : LC.LinComb F) : Prop :=
  lc.terms.length ≠ 1 ∧ ∃ t ∈ lc.terms, BoundedTerm trips t

/-- the in-domain side conditions of one combination -/
def LCDomain (trips : List (Trip F)) (lc : LC.LinComb F) : Prop :=
  (∀ t ∈ lc.terms, Resolves trips t) ∧
  (lc.terms.length = 1 → ∀ t ∈ lc.terms, BoundedTerm trips t → t.1 = 1)

theorem combineAllP_mixed (trips : List (Trip F)) (hwf : TripsAligned trips) :
    ∀ (lcs : List (LC.LinComb F)), (∀ lc ∈ lcs, LCDomain trips lc) → (∃ lc ∈ lcs, Mixes trips lc) →
      combineAllP trips lcs = .error .equationHasDegreeBounds := by
  intro lcs
  induction lcs with
  | nil => intro _ ⟨lc, hlc, _⟩; simp at hlc
  | cons lc lcs ih =>
    intro hdom hex
    simp only [combineAllP, combineOneP]
    by_cases hm : Mixes trips lc
    · rw [lcLoopP_mixed trips hwf _ hm.1 lc.terms _ (hdom lc (by simp)).1 hm.2]
    · have htail : ∃ lc' ∈ lcs, Mixes trips lc' := by
        obtain ⟨lc', h1, h2⟩ := hex
        rcases List.mem_cons.1 h1 with rfl | h1
        · exact absurd h2 hm
        · exact ⟨lc', h1, h2⟩
      have hrec := ih (fun x hx => hdom x (by simp [hx])) htail
      rcases lcLoopP_outcomes trips hwf lc.terms.length lc.terms (LCAcc.init lc.label)
          (hdom lc (by simp)).1 (hdom lc (by simp)).2 with ⟨a, ha⟩ | he
      · rw [ha]; simp only; rw [hrec]
      · rw [he]

/-- **Refusal of mixtures, prover**: labels known, single bounded terms with coefficient one, and
some combination mixes a degree-bounded polynomial with other terms (constants count) ⇒
`open_combinations` ends in `EquationHasDegreeBounds`.  `hwf` (every commitment has a shifted part
exactly when its polynomial has a bound) is needed since D26: a malformed entry named before the
mixture — or by the bounded term itself — ends the call in `InvalidCommitment` instead
(`openCombinations_malformed`). -/
theorem openCombinations_mixed (ck : CK F) (lcs : List (LC.LinComb F)) (polys : List (LPoly F))
    (comms : List (LComm F)) (sts : List (Rand F)) (qs : List (Query F)) (ξs ros : List F)
    (rng : Bool) (draws : List F)
    (hwf : TripsAligned (polys.zip (sts.zip comms)))
    (hdom : ∀ lc ∈ lcs, LCDomain (polys.zip (sts.zip comms)) lc)
    (hex : ∃ lc ∈ lcs, Mixes (polys.zip (sts.zip comms)) lc) :
    openCombinations ck lcs polys comms sts qs ξs ros rng draws = .error .equationHasDegreeBounds := by
  unfold openCombinations
  rw [combineAllP_mixed _ hwf lcs hdom hex]

/-- **Refusal of mixtures, verifier** (the commitments are the honest ones of the polynomials) -/
theorem checkCombinations_mixed (ck vk : CK F) (lcs : List (LC.LinComb F)) (polys : List (LPoly F))
    (comms : List (LComm F)) (sts : List (Rand F))
    (hall : AllCommitted ck polys comms sts) (hnf : ∀ p ∈ polys, pnorm p.poly = p.poly)
    (qs : List (Query F)) (evals : List ((Label × F) × F)) (πs : List (Proof F)) (ξs ros rs : List F)
    (hdom : ∀ lc ∈ lcs, LCDomain (polys.zip (sts.zip comms)) lc)
    (hex : ∃ lc ∈ lcs, Mixes (polys.zip (sts.zip comms)) lc) :
    checkCombinations vk lcs comms qs evals πs ξs ros rs = .error .equationHasDegreeBounds := by
  unfold checkCombinations
  rw [combineAllV_mirror _ comms (lookupAgree_of_all ck polys comms sts hall hnf),
    combineAllP_mixed _ (tripsAligned_of_ok ck _ (tripsOK_of_all ck polys comms sts hall hnf)) lcs hdom hex]

/-! ### the verifier's loop, factored: commitments on one side, claimed values on the other -/

/-- the commitment part of one verifier step (it does not read the claimed values) -/
def stepAccV (comms : List (LComm F)) (k : Nat) (a : LCAccV F) (t : F × LC.LCTerm) :
    Except Err (LCAccV F) :=
  match lcStepV comms k (a, []) t with
  | .error e => .error e
  | .ok x => .ok x.1

theorem lcStepV_factor (comms : List (LComm F)) (k : Nat) (a : LCAccV F) (e : List ((Label × F) × F))
    (t : F × LC.LCTerm) :
    lcStepV comms k (a, e) t
      = match stepAccV comms k a t with
        | .error x => .error x
        | .ok a' => .ok (a', stepEvals a.label t e) := by
  unfold stepAccV lcStepV stepEvals
  cases ht : t.2 with
  | one => rfl
  | poly l =>
    simp only
    cases Marlin.lookupLast (fun (c : LComm F) => c.label) l comms with
    | none => rfl
    | some c =>
      simp only
      split
      · rfl
      · split
        · split <;> rfl
        · split <;> rfl

theorem stepAccV_label (comms : List (LComm F)) (k : Nat) (a a' : LCAccV F) (t : F × LC.LCTerm)
    (h : stepAccV comms k a t = .ok a') : a'.label = a.label := by
  unfold stepAccV lcStepV at h
  cases ht : t.2 with
  | one => rw [ht] at h; simp only at h; injection h with h; rw [← h]
  | poly l =>
    rw [ht] at h
    simp only at h
    cases hl : Marlin.lookupLast (fun (c : LComm F) => c.label) l comms with
    | none => rw [hl] at h; cases h
    | some c =>
      rw [hl] at h
      simp only at h
      by_cases c0 : c.bound.isSome ≠ c.comm.shifted.isSome
      · rw [if_pos c0] at h; cases h
      rw [if_neg c0] at h
      by_cases c1 : k = 1 ∧ c.bound.isSome = true
      · rw [if_pos c1] at h
        by_cases c2 : t.1 ≠ 1
        · rw [if_pos c2] at h; cases h
        · rw [if_neg c2] at h
          simp only at h
          injection h with h; rw [← h]; rfl
      · rw [if_neg c1] at h
        by_cases c3 : c.bound.isSome = true
        · rw [if_pos c3] at h; cases h
        · rw [if_neg c3] at h
          simp only at h
          injection h with h; rw [← h]; rfl

def loopAccV (comms : List (LComm F)) (k : Nat) : LCAccV F → List (F × LC.LCTerm) → Except Err (LCAccV F)
  | a, [] => .ok a
  | a, t :: ts =>
    match stepAccV comms k a t with
    | .error e => .error e
    | .ok a' => loopAccV comms k a' ts

theorem lcLoopV_factor (comms : List (LComm F)) (k : Nat) :
    ∀ (ts : List (F × LC.LCTerm)) (a : LCAccV F) (e : List ((Label × F) × F)),
      lcLoopV comms k (a, e) ts
        = match loopAccV comms k a ts with
          | .error x => .error x
          | .ok a' => .ok (a', adjustTerms a.label ts e) := by
  intro ts
  induction ts with
  | nil => intro a e; rfl
  | cons t ts ih =>
    intro a e
    simp only [lcLoopV, loopAccV, lcStepV_factor]
    cases hs : stepAccV comms k a t with
    | error x => rfl
    | ok a' =>
      simp only
      rw [ih, stepAccV_label comms k a a' t hs]
      rfl

/-- the commitment side of `check_combinations`' loop -/
def combineAccV (comms : List (LComm F)) : List (LC.LinComb F) → Except Err (List (LCAccV F))
  | [] => .ok []
  | lc :: lcs =>
    match loopAccV comms lc.terms.length (LCAccV.init lc.label) lc.terms with
    | .error e => .error e
    | .ok a =>
      match combineAccV comms lcs with
      | .error e => .error e
      | .ok as => .ok (a :: as)

/-- **`check_combinations`' loop, factored**: the combined commitments do not depend on the claimed
values, and the values handed to `batch_check` are `adjustEvals` of the claimed ones -/
theorem combineAllV_factor (comms : List (LComm F)) :
    ∀ (lcs : List (LC.LinComb F)) (e : List ((Label × F) × F)),
      combineAllV comms lcs e
        = match combineAccV comms lcs with
          | .error x => .error x
          | .ok as => .ok (as, adjustEvals lcs e) := by
  intro lcs
  induction lcs with
  | nil => intro e; rfl
  | cons lc lcs ih =>
    intro e
    simp only [combineAllV, combineAccV, lcLoopV_factor]
    cases h1 : loopAccV comms lc.terms.length (LCAccV.init lc.label) lc.terms with
    | error x => rfl
    | ok a =>
      simp only
      rw [ih]
      cases h2 : combineAccV comms lcs with
      | error x => rfl
      | ok as => rfl

/-- the commitments `check_combinations` hands to `batch_check` -/
def verifierComms (comms : List (LComm F)) (lcs : List (LC.LinComb F)) : Except Err (List (LComm F)) :=
  match combineAccV comms lcs with
  | .error e => .error e
  | .ok as => constructLabeledCommitments (lcInfoV as) (lcFlatV as)

/-- **`check_combinations` is `batch_check`** on the combined commitments and the adjusted values -/
theorem checkCombinations_eq (vk : VK F) (lcs : List (LC.LinComb F)) (comms : List (LComm F))
    (qs : List (Query F)) (evals : List ((Label × F) × F)) (πs : List (Proof F)) (ξs ros rs : List F) :
    checkCombinations vk lcs comms qs evals πs ξs ros rs
      = match verifierComms comms lcs with
        | .error e => .error e
        | .ok lcC => batchCheck vk lcC qs (adjustEvals lcs evals) πs ξs ros rs := by
  unfold checkCombinations verifierComms
  rw [combineAllV_factor]
  cases combineAccV comms lcs with
  | error e => rfl
  | ok as =>
    simp only
    cases constructLabeledCommitments (lcInfoV as) (lcFlatV as) with
    | error e => rfl
    | ok c => rfl

/-- **master form of every perturbation.** Two statements (combination lists, commitments, claimed
values) whose combined commitments differ by `errC` (per combination label) and whose adjusted values
differ by `errV` (per key): if the first is accepted then — oracle outputs and randomizers held
fixed — the second is accepted iff the defect shift of every point label vanishes. -/
theorem checkCombinations_perturbed (vk : VK F) (lcs lcs' : List (LC.LinComb F))
    (comms comms' : List (LComm F)) (qs : List (Query F)) (evals evals' : List ((Label × F) × F))
    (πs : List (Proof F)) (ξs ros rs : List F) (lcC : List (LComm F))
    (errC : Label → F) (errV : Label × F → F)
    (h1 : verifierComms comms lcs = .ok lcC)
    (h2 : verifierComms comms' lcs' = .ok (bumpComms errC lcC))
    (hV : adjustEvals lcs' evals' = bump errV (adjustEvals lcs evals))
    (hacc : checkCombinations vk lcs comms qs evals πs ξs ros rs = .ok true) :
    checkCombinations vk lcs' comms' qs evals' πs ξs ros rs
      = .ok (allZero (batchErrs vk lcC (adjustEvals lcs evals) errC errV (Marlin.groupQueries qs) πs ξs ros)) := by
  rw [checkCombinations_eq, h1] at hacc
  rw [checkCombinations_eq, h2, hV]
  exact batchCheck_bump vk lcC qs _ πs ξs ros rs errC errV hacc

/-- **a claimed value changed** (any set of claims, by `errV`) -/
theorem lc_values_perturbed (vk : VK F) (lcs : List (LC.LinComb F)) (comms : List (LComm F))
    (qs : List (Query F)) (evals : List ((Label × F) × F)) (πs : List (Proof F)) (ξs ros rs : List F)
    (lcC : List (LComm F)) (errV : Label × F → F) (h1 : verifierComms comms lcs = .ok lcC)
    (hacc : checkCombinations vk lcs comms qs evals πs ξs ros rs = .ok true) :
    checkCombinations vk lcs comms qs (bump errV evals) πs ξs ros rs
      = .ok (allZero (batchErrs vk lcC (adjustEvals lcs evals) (fun _ => 0) errV
          (Marlin.groupQueries qs) πs ξs ros)) := by
  apply checkCombinations_perturbed vk lcs lcs comms comms qs evals _ πs ξs ros rs lcC _ errV h1
    (by rw [bumpComms_zero]; exact h1) _ hacc
  rw [adjustEvals_eq_bump, adjustEvals_eq_bump, bump_bump, bump_bump]
  apply bump_congr
  intro k; ring

/-- two combinations that differ only in the coefficients of their constant terms -/
def SameShape (lc lc' : LC.LinComb F) : Prop :=
  lc'.label = lc.label ∧
  List.Forall₂ (fun (t t' : F × LC.LCTerm) => t'.2 = t.2 ∧ (t.2 ≠ .one → t'.1 = t.1)) lc.terms lc'.terms

theorem stepAccV_shape (comms : List (LComm F)) (k : Nat) (a : LCAccV F) (t t' : F × LC.LCTerm)
    (h : t'.2 = t.2 ∧ (t.2 ≠ .one → t'.1 = t.1)) : stepAccV comms k a t' = stepAccV comms k a t := by
  obtain ⟨h1, h2⟩ := h
  unfold stepAccV lcStepV
  rw [h1]
  cases ht : t.2 with
  | one => rfl
  | poly l => rw [h2 (by rw [ht]; simp)]

theorem loopAccV_shape (comms : List (LComm F)) (k : Nat) :
    ∀ (ts ts' : List (F × LC.LCTerm)),
      List.Forall₂ (fun (t t' : F × LC.LCTerm) => t'.2 = t.2 ∧ (t.2 ≠ .one → t'.1 = t.1)) ts ts' →
      ∀ a, loopAccV comms k a ts' = loopAccV comms k a ts := by
  intro ts ts' h
  induction h with
  | nil => intro a; rfl
  | cons hd _ ih =>
    intro a
    simp only [loopAccV, stepAccV_shape comms k a _ _ hd]
    cases stepAccV comms k a _ with
    | error e => rfl
    | ok a' => exact ih a'

theorem forall₂_length {α β : Type} {R : α → β → Prop} {xs : List α} {ys : List β}
    (h : List.Forall₂ R xs ys) : ys.length = xs.length := by
  induction h with
  | nil => rfl
  | cons _ _ ih => simp [ih]

theorem combineAccV_shape (comms : List (LComm F)) :
    ∀ (lcs lcs' : List (LC.LinComb F)), List.Forall₂ SameShape lcs lcs' →
      combineAccV comms lcs' = combineAccV comms lcs := by
  intro lcs lcs' h
  induction h with
  | nil => rfl
  | cons hd _ ih =>
    obtain ⟨hl, ht⟩ := hd
    simp only [combineAccV, hl, forall₂_length ht, loopAccV_shape comms _ _ _ ht, ih]

/-- **constant terms changed** on the verifier's side (any number of them, in any combinations):
the combined commitments stay, every claimed value of a combination labelled `l` moves by minus
the change of the constants of the combinations labelled `l` -/
theorem lc_constants_perturbed (vk : VK F) (lcs lcs' : List (LC.LinComb F)) (comms : List (LComm F))
    (qs : List (Query F)) (evals : List ((Label × F) × F)) (πs : List (Proof F)) (ξs ros rs : List F)
    (lcC : List (LComm F)) (hs : List.Forall₂ SameShape lcs lcs')
    (h1 : verifierComms comms lcs = .ok lcC)
    (hacc : checkCombinations vk lcs comms qs evals πs ξs ros rs = .ok true) :
    checkCombinations vk lcs' comms qs evals πs ξs ros rs
      = .ok (allZero (batchErrs vk lcC (adjustEvals lcs evals) (fun _ => 0)
          (fun k => -(constSum lcs' k.1 - constSum lcs k.1)) (Marlin.groupQueries qs) πs ξs ros)) := by
  apply checkCombinations_perturbed vk lcs lcs' comms comms qs evals evals πs ξs ros rs lcC _ _ h1
    _ _ hacc
  · rw [bumpComms_zero]
    unfold verifierComms at h1 ⊢
    rw [combineAccV_shape comms lcs lcs' hs]
    exact h1
  · rw [adjustEvals_eq_bump, adjustEvals_eq_bump, bump_bump]
    apply bump_congr
    intro k; ring

/-! ### a coefficient changed -/

/-- shift the unshifted part of the combined commitment -/
def LCAccV.shiftComm (a : LCAccV F) (e : F) : LCAccV F := { a with comm := a.comm + e }

theorem stepAccV_shiftComm (comms : List (LComm F)) (k : Nat) (a : LCAccV F) (e : F)
    (t : F × LC.LCTerm) :
    stepAccV comms k (a.shiftComm e) t
      = match stepAccV comms k a t with
        | .error x => .error x
        | .ok a' => .ok (a'.shiftComm e) := by
  unfold stepAccV lcStepV
  cases ht : t.2 with
  | one => rfl
  | poly l =>
    simp only
    cases Marlin.lookupLast (fun (c : LComm F) => c.label) l comms with
    | none => rfl
    | some c =>
      simp only
      by_cases c0 : c.bound.isSome ≠ c.comm.shifted.isSome
      · rw [if_pos c0, if_pos c0]
      rw [if_neg c0, if_neg c0]
      by_cases c1 : k = 1 ∧ c.bound.isSome = true
      · rw [if_pos c1, if_pos c1]
        by_cases c2 : t.1 ≠ 1
        · rw [if_pos c2, if_pos c2]
        · rw [if_neg c2, if_neg c2]
          simp only [LCAccV.addTerm, LCAccV.shiftComm]
          congr 2; ring
      · rw [if_neg c1, if_neg c1]
        by_cases c3 : c.bound.isSome = true
        · rw [if_pos c3, if_pos c3]
        · rw [if_neg c3, if_neg c3]
          simp only [LCAccV.addTerm, LCAccV.shiftComm]
          congr 2; ring

theorem loopAccV_shiftComm (comms : List (LComm F)) (k : Nat) (e : F) :
    ∀ (ts : List (F × LC.LCTerm)) (a : LCAccV F),
      loopAccV comms k (a.shiftComm e) ts
        = match loopAccV comms k a ts with
          | .error x => .error x
          | .ok a' => .ok (a'.shiftComm e) := by
  intro ts
  induction ts with
  | nil => intro a; rfl
  | cons t ts ih =>
    intro a
    simp only [loopAccV, stepAccV_shiftComm]
    cases stepAccV comms k a t with
    | error x => rfl
    | ok a' => exact ih a'

/-- **a coefficient changed** by `δ` on a term naming the unbounded polynomial `m` (its commitment
`cm` has no shifted part): the combined commitment of that combination moves by `δ·cm` -/
theorem loopAccV_coeff (comms : List (LComm F)) (k : Nat) (m : Label) (cm : LComm F) (c δ : F)
    (hm : Marlin.lookupLast (fun (c : LComm F) => c.label) m comms = some cm)
    (hb : cm.bound = none) (hs : cm.comm.shifted = none) (t2 : List (F × LC.LCTerm)) :
    ∀ (t1 : List (F × LC.LCTerm)) (a : LCAccV F),
      loopAccV comms k a (t1 ++ (c + δ, .poly m) :: t2)
        = match loopAccV comms k a (t1 ++ (c, .poly m) :: t2) with
          | .error x => .error x
          | .ok a' => .ok (a'.shiftComm (cm.comm.comm * δ)) := by
  intro t1
  induction t1 with
  | nil =>
    intro a
    have hstep : ∀ (x : F), stepAccV comms k a (x, .poly m) = .ok (a.addTerm x cm) := by
      intro x
      unfold stepAccV lcStepV
      simp only [hm, hb, hs, Option.isSome_none, ne_eq, not_true_eq_false, Bool.false_eq_true,
        and_false, if_false]
    simp only [List.nil_append, loopAccV, hstep]
    have e : a.addTerm (c + δ) cm = (a.addTerm c cm).shiftComm (cm.comm.comm * δ) := by
      simp only [LCAccV.addTerm, LCAccV.shiftComm, hs, combineShiftedComm]
      congr 1; ring
    rw [e]
    exact loopAccV_shiftComm comms k _ t2 _
  | cons t t1 ih =>
    intro a
    simp only [List.cons_append, loopAccV]
    cases stepAccV comms k a t with
    | error x => rfl
    | ok a' => exact ih a'

theorem termsConstant_poly (t1 t2 : List (F × LC.LCTerm)) (m : Label) (x : F) :
    termsConstant (t1 ++ (x, LC.LCTerm.poly m) :: t2) = termsConstant t1 + termsConstant t2 := by
  induction t1 with
  | nil => simp [termsConstant]
  | cons t ts ih => simp only [List.cons_append, termsConstant, ih]; ring

/-- the single-combination case end to end: see `ipa_lc_coefficient_defect_partial` -/
theorem lc_coefficient_perturbed_single (vk : VK F) (l : Label) (t1 t2 : List (F × LC.LCTerm))
    (m : Label) (cm : LComm F) (c δ : F) (comms : List (LComm F))
    (hm : Marlin.lookupLast (fun (c : LComm F) => c.label) m comms = some cm)
    (hb : cm.bound = none) (hs : cm.comm.shifted = none)
    (qs : List (Query F)) (evals : List ((Label × F) × F)) (πs : List (Proof F)) (ξs ros rs : List F)
    (lcC : List (LComm F))
    (h1 : verifierComms comms [⟨l, t1 ++ (c, .poly m) :: t2⟩] = .ok lcC)
    (hacc : checkCombinations vk [⟨l, t1 ++ (c, .poly m) :: t2⟩] comms qs evals πs ξs ros rs = .ok true) :
    checkCombinations vk [⟨l, t1 ++ (c + δ, .poly m) :: t2⟩] comms qs evals πs ξs ros rs
      = .ok (allZero (batchErrs vk lcC (adjustEvals [⟨l, t1 ++ (c, .poly m) :: t2⟩] evals)
          (fun l' => if l' = l then cm.comm.comm * δ else 0) (fun _ => 0)
          (Marlin.groupQueries qs) πs ξs ros)) := by
  apply checkCombinations_perturbed vk _ _ comms comms qs evals evals πs ξs ros rs lcC _ _ h1 _ _ hacc
  · unfold verifierComms combineAccV at h1 ⊢
    have hlen : (t1 ++ (c + δ, LC.LCTerm.poly m) :: t2).length = (t1 ++ (c, LC.LCTerm.poly m) :: t2).length := by
      simp
    simp only [hlen, loopAccV_coeff comms _ m cm c δ hm hb hs t2 t1]
    cases hl : loopAccV comms (t1 ++ (c, LC.LCTerm.poly m) :: t2).length (LCAccV.init l)
        (t1 ++ (c, LC.LCTerm.poly m) :: t2) with
    | error x => rw [hl] at h1; cases h1
    | ok a =>
      rw [hl] at h1
      simp only [combineAccV] at h1 ⊢
      have hlab : a.label = l := by
        have : ∀ (ts : List (F × LC.LCTerm)) (a0 a1 : LCAccV F),
            loopAccV comms (t1 ++ (c, LC.LCTerm.poly m) :: t2).length a0 ts = .ok a1 → a1.label = a0.label := by
          intro ts
          induction ts with
          | nil => intro a0 a1 h; simp only [loopAccV] at h; injection h with h; rw [h]
          | cons t ts ih =>
            intro a0 a1 h
            simp only [loopAccV] at h
            split at h
            · cases h
            · rename_i a2 h2
              rw [ih a2 a1 h, stepAccV_label comms _ a0 a2 t h2]
        exact this _ _ a hl
      cases hb' : a.bound with
      | none =>
        cases hs' : a.shifted with
        | none =>
          simp only [lcInfoV, lcFlatV, LCAccV.flat, LCAccV.shiftComm, hb', hs', List.map_cons, List.map_nil,
            Option.toList_none, List.append_nil, constructLabeledCommitments] at h1 ⊢
          injection h1 with h1
          subst h1
          simp [bumpComms, bumpC, hlab]
        | some sc =>
          simp only [lcInfoV, lcFlatV, LCAccV.flat, LCAccV.shiftComm, hb', hs', List.map_cons, List.map_nil,
            Option.toList_some, List.append_nil, constructLabeledCommitments] at h1 ⊢
          injection h1 with h1
          subst h1
          simp [bumpComms, bumpC, hlab]
      | some d =>
        cases hs' : a.shifted with
        | none =>
          simp [lcInfoV, lcFlatV, LCAccV.flat, hb', hs', constructLabeledCommitments] at h1
        | some sc =>
          simp only [lcInfoV, lcFlatV, LCAccV.flat, LCAccV.shiftComm, hb', hs', List.map_cons, List.map_nil,
            Option.toList_some, List.append_nil, constructLabeledCommitments] at h1 ⊢
          injection h1 with h1
          subst h1
          simp [bumpComms, bumpC, hlab]
  · have : adjustEvals [(⟨l, t1 ++ (c + δ, LC.LCTerm.poly m) :: t2⟩ : LC.LinComb F)] evals
        = adjustEvals [(⟨l, t1 ++ (c, LC.LCTerm.poly m) :: t2⟩ : LC.LinComb F)] evals := by
      rw [adjustEvals_eq_bump, adjustEvals_eq_bump]
      apply bump_congr
      intro k
      have := termsConstant_poly t1 t2 m
      simp only [constSum, lcConstant, this]
    rw [this]
    exact (bump_zero _).symm

/-! ### an underlying evaluation changed -/

/-- the sum of the coefficients of the terms naming `m` -/
def coeffSum (m : Label) : List (F × LC.LCTerm) → F
  | [] => 0
  | t :: ts => (if t.2 = .poly m then t.1 else 0) + coeffSum m ts

/-- **an underlying evaluation changed**: if the evaluation of the polynomial `m` is off by `δ`, the
value of a combination computed from it is off by `δ` times the coefficients of `m` in it -/
theorem value_shift (lc : LC.LinComb F) (σ : Label → F) (m : Label) (δ : F) :
    LC.value lc (fun l => σ l + if l = m then δ else 0) = LC.value lc σ + δ * coeffSum m lc.terms := by
  unfold LC.value
  generalize lc.terms = ts
  induction ts with
  | nil => simp [LC.termsValue, coeffSum]
  | cons t ts ih =>
    simp only [LC.termsValue, coeffSum, ih]
    cases ht : t.2 with
    | one => simp [LC.termVal]; ring
    | poly l =>
      simp only [LC.termVal]
      by_cases h : l = m
      · subst h; simp; ring
      · have : ¬ (LC.LCTerm.poly l = LC.LCTerm.poly m) := by intro hx; injection hx with hx; exact h hx
        simp [h, this]; ring

/-! ### combination openings reduce to a batch over committed polynomials -/

/-- what `open_combinations` / `check_combinations` hand to `batch_open` / `batch_check`: honest
triples, the same commitments on both sides, and true (adjusted) values -/
theorem lc_reduction (ck : CK F) (polys : List (LPoly F)) (comms : List (LComm F)) (sts : List (Rand F))
    (hall : AllCommitted ck polys comms sts) (hnf : ∀ p ∈ polys, pnorm p.poly = p.poly)
    (lcs : List (LC.LinComb F)) (qs : List (Query F)) (evals : List ((Label × F) × F))
    (hev : ∀ g ∈ Marlin.groupQueries qs, ∀ l ∈ g.2.2, ∀ lc,
      Marlin.lookupLast (fun (lc : LC.LinComb F) => lc.label) l lcs = some lc →
      Marlin.lookupEval evals l g.2.1
        = some (lcPolyValue (polys.zip (sts.zip comms)) g.2.1 lc.terms + constSum lcs l))
    (ξs ros : List F) (rng : Bool) (draws : List F) (πs : List (Proof F)) (ξr ror dr : List F)
    (ho : openCombinations ck lcs polys comms sts qs ξs ros rng draws = .ok (πs, ξr, ror, dr)) :
    ∃ as, verifierComms comms lcs = .ok (lcComms as) ∧
      AllCommitted ck (lcPolys as) (lcComms as) (lcStates as) ∧
      (∀ p ∈ lcPolys as, pnorm p.poly = p.poly) ∧
      TrueEvals (lcPolys as) (lcComms as) (lcStates as) (adjustEvals lcs evals) (Marlin.groupQueries qs) ∧
      batchOpen ck (lcPolys as) (lcComms as) (lcStates as) qs ξs ros rng draws = .ok (πs, ξr, ror, dr) := by
  have hok := tripsOK_of_all ck polys comms sts hall hnf
  have hag := lookupAgree_of_all ck polys comms sts hall hnf
  unfold openCombinations at ho
  split at ho
  · cases ho
  · rename_i as has
    have hgood : ∀ a ∈ as, LCGood ck a := by
      intro a ha
      obtain ⟨lc, _, hlc⟩ := combineAllP_mem _ lcs as has a ha
      exact (combineOneP_good ck _ hok lc a hlc).1
    have hal : ∀ a ∈ as, a.shifted.isSome = a.bound.isSome := fun a ha => good_aligned ck a (hgood a ha)
    rw [construct_aligned as hal] at ho
    simp only at ho
    refine ⟨as, ?_, allCommitted_of_good ck as hgood, ?_, ?_, ho⟩
    · have h1 := combineAllV_of_P _ comms hag lcs as evals has
      rw [combineAllV_factor] at h1
      unfold verifierComms
      cases hc : combineAccV comms lcs with
      | error e => rw [hc] at h1; cases h1
      | ok as' =>
        rw [hc] at h1
        simp only at h1 ⊢
        injection h1 with h1; injection h1 with h1 _
        subst h1
        rw [construct_alignedV (as.map LCAcc.toV) (by
          intro a ha
          obtain ⟨b, hb, rfl⟩ := List.mem_map.1 ha
          exact hal b hb), lcCommsV_toV]
    · intro p hp
      obtain ⟨a, ha, rfl⟩ := List.mem_map.1 hp
      exact (hgood a ha).2
    · intro g hg l hl p st c hlook
      unfold lcPolys lcComms lcStates at hlook
      rw [zip_maps, lookupLast_map] at hlook
      cases hla : Marlin.lookupLast (fun (a : LCAcc F) => a.label) l as with
      | none =>
        have : Marlin.lookupLast (fun x => (fun (x : LPoly F × (Rand F × LComm F)) => x.1.label)
            ((fun (a : LCAcc F) => ((⟨a.label, a.poly, a.bound, a.hb⟩ : LPoly F),
              ((⟨a.rand, a.srand⟩ : Rand F), a.lcomm))) x)) l as = none := hla
        rw [this] at hlook; cases hlook
      | some a =>
        have : Marlin.lookupLast (fun x => (fun (x : LPoly F × (Rand F × LComm F)) => x.1.label)
            ((fun (a : LCAcc F) => ((⟨a.label, a.poly, a.bound, a.hb⟩ : LPoly F),
              ((⟨a.rand, a.srand⟩ : Rand F), a.lcomm))) x)) l as = some a := hla
        rw [this] at hlook
        simp only [Option.map_some] at hlook
        injection hlook with hlook
        injection hlook with hp _
        subst hp
        have hrel := lookup_combined _ l lcs as has
          (fun lc a h => (combineOneP_good ck _ hok lc a h).2.1) none none (Or.inl ⟨rfl, rfl⟩)
        simp only at hrel
        unfold Marlin.lookupLast at hla
        rcases hrel with ⟨_, h2⟩ | ⟨lc, a', h1, h2, h3⟩
        · rw [h2] at hla; cases hla
        · rw [h2] at hla
          injection hla with hla
          subst hla
          have hv := hev g hg l hl lc h1
          rw [adjustEvals_eq_bump, lookupEval_bump, hv]
          simp only [Option.map_some]
          rw [(combineOneP_good ck _ hok lc a' h3).2.2 g.2.1]
          congr 1; ring

/-! ### a commitment whose shifted part does not go with its degree bound (D26)

A commitment WITHOUT degree bound that carries `shifted_comm = Some(_)` (or a bounded one without)
used to pass the term loop: the loop pushed a second element on the flat vector while
`construct_labeled_commitments` reads one element back per unbounded combination, so every later
combination was paired with the wrong element.  Both loops now refuse the term with
`InvalidCommitment`, after the label lookup and before the degree-bound policy. -/

/-- the verifier's step on a term naming a malformed commitment -/
theorem lcStepV_malformed (comms : List (LComm F)) (k : Nat) (st : LCAccV F × List ((Label × F) × F))
    (coeff : F) (l : Label) (c : LComm F)
    (hl : Marlin.lookupLast (fun (c : LComm F) => c.label) l comms = some c)
    (hbad : c.bound.isSome ≠ c.comm.shifted.isSome) :
    lcStepV comms k st (coeff, .poly l) = .error .invalidCommitment := by
  unfold lcStepV
  simp only [hl]
  rw [if_pos hbad]

theorem lcLoopP_append (trips : List (Trip F)) (k : Nat) (ts : List (F × LC.LCTerm)) :
    ∀ (t1 : List (F × LC.LCTerm)) (acc : LCAcc F),
      lcLoopP trips k acc (t1 ++ ts)
        = match lcLoopP trips k acc t1 with
          | .error e => .error e
          | .ok a => lcLoopP trips k a ts := by
  intro t1
  induction t1 with
  | nil => intro acc; rfl
  | cons t t1 ih =>
    intro acc
    simp only [List.cons_append, lcLoopP]
    cases lcStepP trips k acc t with
    | error e => rfl
    | ok a => exact ih a

theorem lcLoopV_append (comms : List (LComm F)) (k : Nat) (ts : List (F × LC.LCTerm)) :
    ∀ (t1 : List (F × LC.LCTerm)) (st : LCAccV F × List ((Label × F) × F)),
      lcLoopV comms k st (t1 ++ ts)
        = match lcLoopV comms k st t1 with
          | .error e => .error e
          | .ok st' => lcLoopV comms k st' ts := by
  intro t1
  induction t1 with
  | nil => intro st; rfl
  | cons t t1 ih =>
    intro st
    simp only [List.cons_append, lcLoopV]
    cases lcStepV comms k st t with
    | error e => rfl
    | ok st' => exact ih st'

/-- the combination loop of the prover stops at the first combination that is refused -/
theorem combineAllP_stops (trips : List (Trip F)) (lc : LC.LinComb F) (post : List (LC.LinComb F))
    (e : Err) (he : combineOneP trips lc = .error e) :
    ∀ (pre : List (LC.LinComb F)) (as : List (LCAcc F)), combineAllP trips pre = .ok as →
      combineAllP trips (pre ++ lc :: post) = .error e := by
  intro pre
  induction pre with
  | nil => intro as _; simp only [List.nil_append, combineAllP, he]
  | cons x pre ih =>
    intro as h
    simp only [combineAllP] at h
    split at h
    · cases h
    · rename_i a ha
      split at h
      · cases h
      · rename_i as' has
        simp only [List.cons_append, combineAllP, ha, ih as' has]

/-- the combination loop of the verifier stops at the first combination that is refused -/
theorem combineAllV_stops (comms : List (LComm F)) (lc : LC.LinComb F) (post : List (LC.LinComb F))
    (e : Err) :
    ∀ (pre : List (LC.LinComb F)) (evals : List ((Label × F) × F)) (as : List (LCAccV F))
      (evals' : List ((Label × F) × F)), combineAllV comms pre evals = .ok (as, evals') →
      lcLoopV comms lc.terms.length (LCAccV.init lc.label, evals') lc.terms = .error e →
      combineAllV comms (pre ++ lc :: post) evals = .error e := by
  intro pre
  induction pre with
  | nil =>
    intro evals as evals' h he
    simp only [combineAllV] at h
    injection h with h; injection h with _ h2
    subst h2
    simp only [List.nil_append, combineAllV, he]
  | cons x pre ih =>
    intro evals as evals' h he
    simp only [combineAllV] at h
    split at h
    · cases h
    · rename_i a ev1 ha
      split at h
      · cases h
      · rename_i as' ev2 has
        injection h with h; injection h with _ h2
        subst h2
        simp only [List.cons_append, combineAllV, ha, ih ev1 as' ev2 has he]

/-- **`open_combinations` refuses a malformed commitment.**  The combinations `pre` pass, the terms
`t1` of the next combination pass, and the next term names an entry whose commitment has a shifted
part without a degree bound on the polynomial (or the reverse): the call ends in
`InvalidCommitment` (whatever follows, whatever the query set and the oracles are). -/
theorem openCombinations_malformed (ck : CK F) (polys : List (LPoly F)) (comms : List (LComm F))
    (sts : List (Rand F)) (pre post : List (LC.LinComb F)) (l : Label) (t1 t2 : List (F × LC.LCTerm))
    (coeff : F) (m : Label) (x : Trip F)
    (hm : Marlin.lookupLast (fun (t : Trip F) => t.1.label) m (polys.zip (sts.zip comms)) = some x)
    (hbad : x.1.bound.isSome ≠ x.2.2.comm.shifted.isSome)
    (as : List (LCAcc F)) (hpre : combineAllP (polys.zip (sts.zip comms)) pre = .ok as)
    (a : LCAcc F)
    (ht1 : lcLoopP (polys.zip (sts.zip comms)) (t1 ++ (coeff, .poly m) :: t2).length (LCAcc.init l) t1 = .ok a)
    (qs : List (Query F)) (ξs ros : List F) (rng : Bool) (draws : List F) :
    openCombinations ck (pre ++ ⟨l, t1 ++ (coeff, .poly m) :: t2⟩ :: post) polys comms sts qs ξs ros rng draws
      = .error .invalidCommitment := by
  unfold openCombinations
  rw [combineAllP_stops _ ⟨l, t1 ++ (coeff, .poly m) :: t2⟩ post .invalidCommitment _ pre as hpre]
  unfold combineOneP
  simp only
  rw [lcLoopP_append, ht1]
  simp only [lcLoopP, lcStepP_malformed _ _ a coeff m x hm hbad]

/-- **`check_combinations` refuses a malformed commitment.**  The combinations `pre` pass, the terms
`t1` of the next combination pass, and the next term names a commitment whose shifted part does not
go with its degree bound: the call ends in `InvalidCommitment` — no claimed value is examined. -/
theorem checkCombinations_malformed (vk : VK F) (comms : List (LComm F))
    (pre post : List (LC.LinComb F)) (l : Label) (t1 t2 : List (F × LC.LCTerm))
    (coeff : F) (m : Label) (cm : LComm F)
    (hm : Marlin.lookupLast (fun (c : LComm F) => c.label) m comms = some cm)
    (hbad : cm.bound.isSome ≠ cm.comm.shifted.isSome)
    (qs : List (Query F)) (evals : List ((Label × F) × F)) (πs : List (Proof F)) (ξs ros rs : List F)
    (as : List (LCAccV F)) (evals' : List ((Label × F) × F))
    (hpre : combineAllV comms pre evals = .ok (as, evals'))
    (st : LCAccV F × List ((Label × F) × F))
    (ht1 : lcLoopV comms (t1 ++ (coeff, .poly m) :: t2).length (LCAccV.init l, evals') t1 = .ok st) :
    checkCombinations vk (pre ++ ⟨l, t1 ++ (coeff, .poly m) :: t2⟩ :: post) comms qs evals πs ξs ros rs
      = .error .invalidCommitment := by
  unfold checkCombinations
  rw [combineAllV_stops comms ⟨l, t1 ++ (coeff, .poly m) :: t2⟩ post .invalidCommitment pre evals as
    evals' hpre]
  simp only
  rw [lcLoopV_append, ht1]
  simp only [lcLoopV, lcStepV_malformed comms _ st coeff m cm hm hbad]

/-- a term naming a malformed entry of `label_poly_map` -/
def MalformedTermP (trips : List (Trip F)) (t : F × LC.LCTerm) : Prop :=
  ∃ l x, t.2 = .poly l ∧ Marlin.lookupLast (fun (t : Trip F) => t.1.label) l trips = some x ∧
    x.1.bound.isSome ≠ x.2.2.comm.shifted.isSome

/-- a term naming a malformed commitment -/
def MalformedTermV (comms : List (LComm F)) (t : F × LC.LCTerm) : Prop :=
  ∃ l c, t.2 = .poly l ∧ Marlin.lookupLast (fun (c : LComm F) => c.label) l comms = some c ∧
    c.bound.isSome ≠ c.comm.shifted.isSome

theorem lcLoopP_malformed_err (trips : List (Trip F)) (k : Nat) :
    ∀ (ts : List (F × LC.LCTerm)) (acc : LCAcc F), (∃ t ∈ ts, MalformedTermP trips t) →
      ∃ e, lcLoopP trips k acc ts = .error e := by
  intro ts
  induction ts with
  | nil => intro acc ⟨t, ht, _⟩; simp at ht
  | cons t ts ih =>
    intro acc hex
    simp only [lcLoopP]
    cases hs : lcStepP trips k acc t with
    | error e => exact ⟨e, rfl⟩
    | ok acc' =>
      simp only
      apply ih
      obtain ⟨t', ht', hb⟩ := hex
      rcases List.mem_cons.1 ht' with rfl | ht'
      · obtain ⟨l, x, h1, h2, h3⟩ := hb
        have : t' = (t'.1, LC.LCTerm.poly l) := by rw [← h1]
        rw [this, lcStepP_malformed trips k acc t'.1 l x h2 h3] at hs
        cases hs
      · exact ⟨t', ht', hb⟩

theorem lcLoopV_malformed_err (comms : List (LComm F)) (k : Nat) :
    ∀ (ts : List (F × LC.LCTerm)) (st : LCAccV F × List ((Label × F) × F)),
      (∃ t ∈ ts, MalformedTermV comms t) → ∃ e, lcLoopV comms k st ts = .error e := by
  intro ts
  induction ts with
  | nil => intro st ⟨t, ht, _⟩; simp at ht
  | cons t ts ih =>
    intro st hex
    simp only [lcLoopV]
    cases hs : lcStepV comms k st t with
    | error e => exact ⟨e, rfl⟩
    | ok st' =>
      simp only
      apply ih
      obtain ⟨t', ht', hb⟩ := hex
      rcases List.mem_cons.1 ht' with rfl | ht'
      · obtain ⟨l, c, h1, h2, h3⟩ := hb
        have : t' = (t'.1, LC.LCTerm.poly l) := by rw [← h1]
        rw [this, lcStepV_malformed comms k st t'.1 l c h2 h3] at hs
        cases hs
      · exact ⟨t', ht', hb⟩

/-- **`open_combinations` never answers over a malformed commitment**: some term of some combination
names a malformed entry ⇒ the call ends in an error (the first refusal met in the code's order) -/
theorem openCombinations_malformed_err (ck : CK F) (lcs : List (LC.LinComb F)) (polys : List (LPoly F))
    (comms : List (LComm F)) (sts : List (Rand F)) (qs : List (Query F)) (ξs ros : List F)
    (rng : Bool) (draws : List F)
    (hex : ∃ lc ∈ lcs, ∃ t ∈ lc.terms, MalformedTermP (polys.zip (sts.zip comms)) t) :
    ∃ e, openCombinations ck lcs polys comms sts qs ξs ros rng draws = .error e := by
  have : ∃ e, combineAllP (polys.zip (sts.zip comms)) lcs = .error e := by
    induction lcs with
    | nil => obtain ⟨lc, hlc, _⟩ := hex; simp at hlc
    | cons lc lcs ih =>
      simp only [combineAllP, combineOneP]
      cases h1 : lcLoopP (polys.zip (sts.zip comms)) lc.terms.length (LCAcc.init lc.label) lc.terms with
      | error e => exact ⟨e, rfl⟩
      | ok a =>
        obtain ⟨lc', hlc', hb⟩ := hex
        rcases List.mem_cons.1 hlc' with rfl | hlc'
        · obtain ⟨e, he⟩ := lcLoopP_malformed_err _ lc'.terms.length lc'.terms (LCAcc.init lc'.label) hb
          rw [he] at h1; cases h1
        · obtain ⟨e, he⟩ := ih ⟨lc', hlc', hb⟩
          exact ⟨e, by simp only [he]⟩
  obtain ⟨e, he⟩ := this
  exact ⟨e, by unfold openCombinations; rw [he]⟩

/-- **`check_combinations` never answers over a malformed commitment**: some term of some combination
names a commitment whose shifted part does not go with its degree bound ⇒ the call ends in an
error, whatever values are claimed and whatever proofs are presented -/
theorem checkCombinations_malformed_err (vk : VK F) (lcs : List (LC.LinComb F)) (comms : List (LComm F))
    (qs : List (Query F)) (evals : List ((Label × F) × F)) (πs : List (Proof F)) (ξs ros rs : List F)
    (hex : ∃ lc ∈ lcs, ∃ t ∈ lc.terms, MalformedTermV comms t) :
    ∃ e, checkCombinations vk lcs comms qs evals πs ξs ros rs = .error e := by
  have : ∃ e, combineAllV comms lcs evals = .error e := by
    induction lcs generalizing evals with
    | nil => obtain ⟨lc, hlc, _⟩ := hex; simp at hlc
    | cons lc lcs ih =>
      simp only [combineAllV]
      cases h1 : lcLoopV comms lc.terms.length (LCAccV.init lc.label, evals) lc.terms with
      | error e => exact ⟨e, rfl⟩
      | ok st =>
        obtain ⟨lc', hlc', hb⟩ := hex
        rcases List.mem_cons.1 hlc' with rfl | hlc'
        · obtain ⟨e, he⟩ := lcLoopV_malformed_err comms lc'.terms.length lc'.terms
            (LCAccV.init lc'.label, evals) hb
          rw [he] at h1; cases h1
        · obtain ⟨e, he⟩ := ih st.2 ⟨lc', hlc', hb⟩
          exact ⟨e, by simp only [he]⟩
  obtain ⟨e, he⟩ := this
  exact ⟨e, by unfold checkCombinations; rw [he]⟩

/-- **what the guard prevents**: in the flat vector a combination without bound that carries a
stray shifted element `s` occupies two positions, `construct_labeled_commitments` reads one back:
the next unbounded combination is paired with `s` instead of its own commitment `c2` -/
theorem construct_misaligned (l1 l2 : Label) (c1 s c2 : F) :
    constructLabeledCommitments (lcInfoV [⟨l1, none, c1, some s⟩, ⟨l2, none, c2, none⟩])
        (lcFlatV [(⟨l1, none, c1, some s⟩ : LCAccV F), ⟨l2, none, c2, none⟩])
      = .ok [⟨l1, ⟨c1, none⟩, none⟩, ⟨l2, ⟨s, none⟩, none⟩] := rfl

end IPA
end PCV
