/-
  PCV.Proofs.LC — the value of a linear combination under every operator of
  `data_structures.rs`, and under operation sequences.
-/
import PCV.Model.LC
import PCV.Proofs.Poly

set_option linter.unusedSectionVars false

namespace PCV
namespace LC
variable {F : Type} [Field F]

@[simp] theorem termsValue_nil (σ : Label → F) : termsValue σ ([] : List (F × LCTerm)) = 0 := rfl

@[simp] theorem termsValue_cons (σ : Label → F) (ct : F × LCTerm) (r : List (F × LCTerm)) :
    termsValue σ (ct :: r) = ct.1 * termVal σ ct.2 + termsValue σ r := rfl

theorem termsValue_append (σ : Label → F) (a b : List (F × LCTerm)) :
    termsValue σ (a ++ b) = termsValue σ a + termsValue σ b := by
  induction a with
  | nil => simp
  | cons ct r ih => simp only [List.cons_append, termsValue_cons, ih]; ring

theorem termsValue_map_scale (σ : Label → F) (c : F) (b : List (F × LCTerm)) :
    termsValue σ (b.map (scaleTerm c)) = c * termsValue σ b := by
  induction b with
  | nil => simp
  | cons ct r ih => simp only [List.map_cons, termsValue_cons, ih, scaleTerm]; ring

theorem termsValue_map_neg (σ : Label → F) (b : List (F × LCTerm)) :
    termsValue σ (b.map negTerm) = - termsValue σ b := by
  induction b with
  | nil => simp
  | cons ct r ih => simp only [List.map_cons, termsValue_cons, ih, negTerm]; ring

theorem termsValue_map_mul (σ : Label → F) (c : F) (b : List (F × LCTerm)) :
    termsValue σ (b.map (mulTerm c)) = termsValue σ b * c := by
  induction b with
  | nil => simp
  | cons ct r ih => simp only [List.map_cons, termsValue_cons, ih, mulTerm]; ring

theorem value_empty (l : Label) (σ : Label → F) : value (empty l : LinComb F) σ = 0 := rfl

theorem value_new (l : Label) (ts : List (F × LCTerm)) (σ : Label → F) :
    value (new l ts) σ = termsValue σ ts := rfl

theorem value_push (a : LinComb F) (c : F) (t : LCTerm) (σ : Label → F) :
    value (push a (c, t)) σ = value a σ + c * termVal σ t := by
  simp [value, push, termsValue_append]

theorem value_addScaled (a b : LinComb F) (c : F) (σ : Label → F) :
    value (addScaled a c b) σ = value a σ + c * value b σ := by
  simp [value, addScaled, termsValue_append, termsValue_map_scale]

theorem value_subScaled (a b : LinComb F) (c : F) (σ : Label → F) :
    value (subScaled a c b) σ = value a σ - c * value b σ := by
  simp only [value, subScaled, termsValue_append, termsValue_map_scale]; ring

theorem value_addLC (a b : LinComb F) (σ : Label → F) :
    value (addLC a b) σ = value a σ + value b σ := by
  simp [value, addLC, termsValue_append]

theorem value_subLC (a b : LinComb F) (σ : Label → F) :
    value (subLC a b) σ = value a σ - value b σ := by
  simp only [value, subLC, termsValue_append, termsValue_map_neg]; ring

theorem value_addConst (a : LinComb F) (c : F) (σ : Label → F) :
    value (addConst a c) σ = value a σ + c := by
  simp [value, addConst, termsValue_append, termVal]

theorem value_subConst (a : LinComb F) (c : F) (σ : Label → F) :
    value (subConst a c) σ = value a σ - c := by
  simp only [value, subConst, termsValue_append, termsValue_cons, termsValue_nil, termVal]; ring

theorem value_mulConst (a : LinComb F) (c : F) (σ : Label → F) :
    value (mulConst a c) σ = value a σ * c := by
  simp [value, mulConst, termsValue_map_mul]

theorem value_applyOp (a : LinComb F) (op : Op F) (σ : Label → F) :
    value (applyOp a op) σ = specOp σ (value a σ) op := by
  cases op with
  | addScaled c b => exact value_addScaled a b c σ
  | subScaled c b => exact value_subScaled a b c σ
  | addLC b => exact value_addLC a b σ
  | subLC b => exact value_subLC a b σ
  | addConst c => exact value_addConst a c σ
  | subConst c => exact value_subConst a c σ
  | mulConst c => exact value_mulConst a c σ
  | push c t => exact value_push a c t σ

theorem value_applyOps (a : LinComb F) (ops : List (Op F)) (σ : Label → F) :
    value (applyOps a ops) σ = specOps σ (value a σ) ops := by
  induction ops generalizing a with
  | nil => rfl
  | cons op ops ih => simp only [applyOps, specOps, ih, value_applyOp]

/-- every operator keeps the label of the left operand -/
theorem label_applyOps (a : LinComb F) (ops : List (Op F)) : (applyOps a ops).label = a.label := by
  induction ops generalizing a with
  | nil => rfl
  | cons op ops ih =>
    simp only [applyOps, ih]
    cases op <;> rfl

/-- no operator other than `*=` touches the existing terms: they stay a prefix (no merging) -/
theorem terms_prefix_applyOp (a : LinComb F) (op : Op F) (h : ∀ c, op ≠ .mulConst c) :
    ∃ ext, (applyOp a op).terms = a.terms ++ ext := by
  cases op with
  | mulConst c => exact absurd rfl (h c)
  | addScaled c b => exact ⟨_, rfl⟩
  | subScaled c b => exact ⟨_, rfl⟩
  | addLC b => exact ⟨_, rfl⟩
  | subLC b => exact ⟨_, rfl⟩
  | addConst c => exact ⟨_, rfl⟩
  | subConst c => exact ⟨_, rfl⟩
  | push c t => exact ⟨_, rfl⟩

/-- `*=` keeps the number and the labels of the terms -/
theorem mulConst_labels (a : LinComb F) (c : F) :
    (mulConst a c).terms.map Prod.snd = a.terms.map Prod.snd := by
  simp [mulConst, mulTerm, List.map_map, Function.comp_def]

end LC
end PCV
