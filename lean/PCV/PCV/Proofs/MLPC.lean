/-
  PCV.Proofs.MLPC — algebra of the multilinear PST model (`PCV.Model.MLPC`):
  * the `eq`-tensor identity `⟨evals, eqTable t⟩ = f̃(t)` (`dot_eqTable`),
  * the quotient identity `f̃(t) − f̃(z) = Σᵢ (tᵢ − zᵢ)·q̃ᵢ(t_{>i})` for the `r/q` recursion of `open`
    (`quot_identity`), for every number of variables,
  * what `open` returns on a well-formed key and the exact defect of `check` on any changed statement,
  * `trim` of well-formed parameters.
  The bit-level proof that `setup` produces well-formed parameters is in `PCV.Proofs.MLPCSetup`.
-/
import PCV.Model.MLPC
import PCV.Proofs.Poly

set_option linter.unusedSectionVars false

namespace PCV
namespace MLPC
variable {F : Type} [Field F]

/-! ### lengths -/

@[simp] theorem weave_length (a : F) (E : List F) : (weave a E).length = 2 * E.length := by
  induction E with
  | nil => rfl
  | cons e es ih => simp only [weave, List.length_cons, ih]; omega

@[simp] theorem eqTable_length (t : List F) : (eqTable t).length = 2 ^ t.length := by
  induction t with
  | nil => rfl
  | cons a ts ih => simp only [eqTable, weave_length, ih, List.length_cons, pow_succ]; omega

@[simp] theorem batchMul_length (c : F) (l : List F) : (batchMul c l).length = l.length := by
  simp [batchMul]

@[simp] theorem tables_length (c : F) (t : List F) : (tables c t).length = t.length := by
  induction t with
  | nil => rfl
  | cons a ts ih => simp [tables, ih]

theorem fixVar_length (z : F) (r : List F) : (fixVar z r).length = r.length / 2 := by
  fun_induction fixVar z r with
  | case1 a b rest ih => simp only [List.length_cons, ih]; omega
  | case2 r h =>
    match r, h with
    | [], _ => simp
    | [_], _ => simp
    | a :: b :: rest, h => exact absurd rfl (h a b rest)

theorem foldStep_snd (z : F) (r : List F) : (foldStep z r).2 = fixVar z r := by
  fun_induction fixVar z r with
  | case1 a b rest ih => simp only [foldStep, ih]; congr 1; ring
  | case2 r h =>
    match r, h with
    | [], _ => rfl
    | [_], _ => rfl
    | a :: b :: rest, h => exact absurd rfl (h a b rest)

theorem foldStep_fst_length (z : F) (r : List F) : (foldStep z r).1.length = r.length / 2 := by
  fun_induction fixVar z r with
  | case1 a b rest ih => simp only [foldStep, List.length_cons, ih]; omega
  | case2 r h =>
    match r, h with
    | [], _ => simp [foldStep]
    | [_], _ => simp [foldStep]
    | a :: b :: rest, h => exact absurd rfl (h a b rest)

theorem half_pow (n : Nat) : 2 ^ (n + 1) / 2 = 2 ^ n := by
  rw [pow_succ]; omega

/-! ### dot products with `eq`-tensors -/

theorem dot_batchMul (c : F) (l m : List F) : dot (batchMul c l) m = c * dot l m := by
  induction l generalizing m with
  | nil => simp [batchMul]
  | cons x xs ih =>
    cases m with
    | nil => simp
    | cons y ys =>
      simp only [batchMul, List.map_cons, dot_cons] at ih ⊢
      rw [ih ys]; ring

/-- folding the lowest variable of the evaluation vector = un-weaving the `eq`-tensor -/
theorem dot_weave_fixVar (a : F) (E r : List F) (h : r.length = 2 * E.length) :
    dot (weave a E) r = dot E (fixVar a r) := by
  induction E generalizing r with
  | nil => simp [weave]
  | cons e es ih =>
    match r, h with
    | [], h => simp at h
    | [_], h => simp at h; omega
    | x :: y :: rest, h =>
      simp only [weave, fixVar, dot_cons]
      rw [ih rest (by simp only [List.length_cons] at h; omega)]
      ring

/-- **eq-tensor identity.** The dot product of the `2^n` hypercube evaluations with the `eq`-tensor
of `t` is the multilinear extension evaluated at `t` (ark-poly's variable order). -/
theorem dot_eqTable (t evals : List F) (h : evals.length = 2 ^ t.length) :
    dot (eqTable t) evals = mleEval evals t := by
  induction t generalizing evals with
  | nil =>
    match evals, h with
    | [e], _ => simp [eqTable, mleEval]
  | cons a ts ih =>
    simp only [eqTable, mleEval]
    rw [dot_weave_fixVar a _ evals (by simp only [eqTable_length, h, List.length_cons, pow_succ]; omega)]
    exact ih _ (by rw [fixVar_length, h, List.length_cons, half_pow])

theorem dot_eqTable' (t evals : List F) (h : evals.length = 2 ^ t.length) :
    dot evals (eqTable t) = mleEval evals t := by
  rw [dot_comm, dot_eqTable t evals h]

/-- `fix(a) = fix(b) + (a − b)·q` under any dot product -/
theorem dot_fixVar_split (E r : List F) (a b : F) :
    dot E (fixVar a r) = dot E (foldStep b r).2 + (a - b) * dot E (foldStep b r).1 := by
  induction E generalizing r with
  | nil => simp
  | cons e es ih =>
    match r with
    | [] => simp [fixVar, foldStep]
    | [_] => simp [fixVar, foldStep]
    | x :: y :: rest =>
      simp only [fixVar, foldStep, dot_cons]
      rw [ih rest]; ring

/-- doubling the quotient evaluations against a woven tensor forgets the woven variable -/
theorem dot_weave_dup (a : F) (E q : List F) : dot (weave a E) (dup q) = dot E q := by
  induction E generalizing q with
  | nil => simp [weave]
  | cons e es ih =>
    cases q with
    | nil => simp [dup]
    | cons x xs => simp only [weave, dup, dot_cons]; rw [ih xs]; ring

/-! ### the quotient identity -/

/-- the quotient evaluation vectors `q_nv, q_{nv−1}, …` that `open` computes -/
def quotients : List F → List F → List (List F)
  | [], _ => []
  | b :: zs, r => (foldStep b r).1 :: quotients zs (foldStep b r).2

/-- `Σᵢ (tᵢ − zᵢ)·q̃ᵢ(t_{i+1}, …)` -/
def quotSum : List F → List F → List (List F) → F
  | a :: ts, b :: zs, q :: qs => (a - b) * mleEval q ts + quotSum ts zs qs
  | _, _, _ => 0

/-- **Quotient identity** of the `r/q` recursion of `MultilinearPC::open`, for every number of
variables: `f̃(t) − f̃(z) = Σᵢ (tᵢ − zᵢ)·q̃ᵢ(t_{>i})`. -/
theorem quot_identity (t z r : List F) (hz : z.length = t.length) (hr : r.length = 2 ^ t.length) :
    mleEval r t - mleEval r z = quotSum t z (quotients z r) := by
  induction t generalizing z r with
  | nil =>
    match z, hz with
    | [], _ => simp [mleEval, quotSum]
  | cons a ts ih =>
    match z, hz with
    | b :: zs, hz =>
      have hlen2 : (foldStep b r).2.length = 2 ^ ts.length := by
        rw [foldStep_snd, fixVar_length, hr, List.length_cons, half_pow]
      have hlen1 : (foldStep b r).1.length = 2 ^ ts.length := by
        rw [foldStep_fst_length, hr, List.length_cons, half_pow]
      have hfa : (fixVar a r).length = 2 ^ ts.length := by
        rw [fixVar_length, hr, List.length_cons, half_pow]
      simp only [mleEval, quotients, quotSum]
      rw [← ih zs (foldStep b r).2 (by simpa using hz) hlen2]
      rw [← dot_eqTable ts _ hfa, dot_fixVar_split _ r a b, dot_eqTable ts _ hlen2,
        dot_eqTable ts _ hlen1, ← foldStep_snd b r]
      ring

/-! ### `open` on a well-formed key -/

/-- what `open` returns on the key of trapdoor `t`: `πᵢ = h·q̃ᵢ(t_{>i})` -/
def proofSpec (h : F) : List F → List F → List F → List F
  | _ :: ts, b :: zs, r => h * mleEval (foldStep b r).1 ts :: proofSpec h ts zs (foldStep b r).2
  | _, _, _ => []

theorem proofSpec_length (h : F) (t z r : List F) (hz : t.length ≤ z.length) :
    (proofSpec h t z r).length = t.length := by
  induction t generalizing z r with
  | nil => simp [proofSpec]
  | cons a ts ih =>
    match z, hz with
    | b :: zs, hz =>
      simp only [proofSpec, List.length_cons]
      rw [ih zs _ (by simpa using hz)]

/-- The prover loop on the tables of trapdoor `t` (surplus point coordinates are ignored). -/
theorem openLoop_wf (h : F) (t z r : List F) (hz : t.length ≤ z.length)
    (hr : r.length = 2 ^ t.length) :
    openLoop t.length (tables h t) r z = .ok (proofSpec h t z r) := by
  induction t generalizing z r with
  | nil => simp [openLoop, proofSpec]
  | cons a ts ih =>
    match z, hz with
    | b :: zs, hz =>
      have hlen2 : (foldStep b r).2.length = 2 ^ ts.length := by
        rw [foldStep_snd, fixVar_length, hr, List.length_cons, half_pow]
      have hlen1 : (foldStep b r).1.length = 2 ^ ts.length := by
        rw [foldStep_fst_length, hr, List.length_cons, half_pow]
      simp only [List.length_cons, openLoop, tables, proofSpec]
      rw [ih zs _ (by simpa using hz) hlen2]
      simp only [eqTable, dot_batchMul, dot_weave_dup, dot_eqTable ts _ hlen1]

/-- too short a point makes the prover abort -/
theorem openLoop_short (hs : List (List F)) (n : Nat) (z r : List F) (hz : z.length < n) :
    openLoop n hs r z = .error .abort := by
  induction n generalizing hs z r with
  | zero => omega
  | succ n ih =>
    match z, hz with
    | [], _ => simp [openLoop]
    | b :: zs, hz =>
      simp only [openLoop]
      cases hs with
      | nil => rfl
      | cons hi hs' =>
        simp only
        rw [ih hs' zs _ (by simpa using hz)]

/-! ### `check` -/

/-- the verifier key of trapdoor `t` -/
def wfVK (g h : F) (t : List F) : VK F := ⟨t.length, g, h, batchMul g t⟩
/-- the committer key of trapdoor `t` -/
def wfCK (g h : F) (t : List F) : CK F := ⟨t.length, tables g t, tables h t, g, h⟩

theorem zipWith_take_right (f : F → F → F) (l m : List F) :
    List.zipWith f l (m.take l.length) = List.zipWith f l m := by
  induction l generalizing m with
  | nil => simp
  | cons x xs ih =>
    cases m with
    | nil => simp
    | cons y ys => simp [ih ys]

theorem pairingLefts_wf (g h : F) (t z : List F) :
    pairingLefts (wfVK g h t) z = List.zipWith (· - ·) (batchMul g t) (batchMul g z) := by
  unfold pairingLefts wfVK
  simp only
  have : (batchMul g t).take t.length = batchMul g t := by
    rw [List.take_of_length_le (by simp)]
  rw [this]
  have := zipWith_take_right (· - ·) (batchMul g t) (batchMul g z)
  simpa using this

/-- `right` of the pairing equation on the honest proof: `g·h·Σᵢ (tᵢ − zᵢ)·q̃ᵢ(t_{>i})` -/
theorem dot_lefts_proofSpec (g h : F) (t z r : List F) (hz : t.length ≤ z.length) :
    dot (List.zipWith (· - ·) (batchMul g t) (batchMul g z)) (proofSpec h t z r)
      = g * h * quotSum t z (quotients z r) := by
  induction t generalizing z r with
  | nil => simp [batchMul, quotSum]
  | cons a ts ih =>
    match z, hz with
    | b :: zs, hz =>
      have := ih zs (foldStep b r).2 (by simpa using hz)
      simp only [batchMul, List.map_cons, List.zipWith_cons_cons, proofSpec, dot_cons, quotients,
        quotSum] at this ⊢
      rw [this]; ring

/-- moving the point by `dz` changes `right` by `−g·⟨dz, π⟩`, whatever the proof list -/
theorem dot_lefts_shift (g : F) (t z dz πs : List F) (hz : z.length = t.length)
    (hdz : dz.length = t.length) :
    dot (List.zipWith (· - ·) (batchMul g t) (batchMul g (List.zipWith (· + ·) z dz))) πs
      = dot (List.zipWith (· - ·) (batchMul g t) (batchMul g z)) πs - g * dot dz πs := by
  induction t generalizing z dz πs with
  | nil =>
    match dz, hdz with
    | [], _ => simp [batchMul]
  | cons a ts ih =>
    match z, hz, dz, hdz with
    | b :: zs, hz, d :: ds, hdz =>
      cases πs with
      | nil => simp
      | cons p ps =>
        have := ih zs ds ps (by simpa using hz) (by simpa using hdz)
        simp only [batchMul, List.map_cons, List.zipWith_cons_cons, dot_cons] at this ⊢
        rw [this]; ring

theorem check_iff_defect [DecidableEq F] (vk : VK F) (c : Commitment F) (z : List F) (v : F)
    (πs : List F) (h1 : z.length = vk.nv) (h2 : vk.nv ≤ vk.gMaskRandom.length)
    (h3 : πs.length = vk.nv) :
    check vk c z v πs = .ok true ↔ defect vk c z v πs = 0 := by
  unfold check
  rw [if_neg (by omega), if_neg (by omega), if_neg (by omega)]
  simp

theorem check_ok_decide [DecidableEq F] (vk : VK F) (c : Commitment F) (z : List F) (v : F)
    (πs : List F) (h1 : z.length = vk.nv) (h2 : vk.nv ≤ vk.gMaskRandom.length)
    (h3 : πs.length = vk.nv) :
    check vk c z v πs = .ok (decide (defect vk c z v πs = 0)) := by
  unfold check
  rw [if_neg (by omega), if_neg (by omega), if_neg (by omega)]

/-- **Exact defect of the honest proof against any statement.**  For the key of trapdoor `t`, the
honest proof `π` for `(evals, z)` and the statement (commitment `g·f̃(t) + dc`, point `z + dz`,
value `f̃(z) + dv`): `Δ = h·(dc − g·dv) + g·⟨dz, π⟩`.  The commitment's `nv` field is irrelevant. -/
theorem honest_defect (g h : F) (t z dz evals : List F) (dc dv : F) (n' : Nat)
    (hz : z.length = t.length) (hdz : dz.length = t.length) (he : evals.length = 2 ^ t.length) :
    defect (wfVK g h t) ⟨n', g * mleEval evals t + dc⟩ (List.zipWith (· + ·) z dz)
        (mleEval evals z + dv) (proofSpec h t z evals)
      = h * (dc - g * dv) + g * dot dz (proofSpec h t z evals) := by
  unfold defect
  rw [pairingLefts_wf, dot_lefts_shift g t z dz _ hz hdz,
    dot_lefts_proofSpec g h t z evals (by omega), ← quot_identity t z evals hz he]
  simp only [wfVK]
  ring

/-! ### `trim` and `commit` on well-formed parameters -/

theorem tables_drop (c : F) (t : List F) (m : Nat) : (tables c t).drop m = tables c (t.drop m) := by
  induction t generalizing m with
  | nil => simp [tables]
  | cons a ts ih =>
    cases m with
    | zero => rfl
    | succ m => simp only [tables, List.drop_succ_cons, ih]

theorem batchMul_drop (c : F) (t : List F) (m : Nat) :
    (batchMul c t).drop m = batchMul c (t.drop m) := by
  simp [batchMul, List.map_drop]

/-- **trim** of well-formed parameters is the well-formed key pair of the trapdoor suffix. -/
theorem trim_wf (g h : F) (t : List F) (s : Nat) (hs : s ≤ t.length) :
    trim (wfParams g h t) s
      = .ok (wfCK g h (t.drop (t.length - s)), wfVK g h (t.drop (t.length - s))) := by
  unfold trim wfParams wfCK wfVK
  simp only [tables_length, batchMul_length]
  rw [if_neg (by omega), if_neg (by omega)]
  simp only [tables_drop, batchMul_drop, List.length_drop]
  have : t.length - (t.length - s) = s := by omega
  rw [this]

theorem trim_refuses (pp : UParams F) (s : Nat) (hs : pp.numVars < s) :
    trim pp s = .error .abort := by
  unfold trim
  rw [if_pos (by omega)]

/-- `commit` with the key of a non-empty trapdoor: `g·f̃(t)`, tagged with the polynomial's `nv` -/
theorem commit_wf (g h a : F) (ts : List F) (evals : List F)
    (he : evals.length = 2 ^ (ts.length + 1)) :
    commit (wfCK g h (a :: ts)) (ts.length + 1) evals
      = .ok ⟨ts.length + 1, g * mleEval evals (a :: ts)⟩ := by
  unfold commit wfCK
  simp only [tables, List.length_cons, ne_eq, not_true_eq_false, if_false]
  rw [dot_batchMul, dot_eqTable (a :: ts) evals (by simpa using he)]

/-- a polynomial whose number of variables differs from the key's is refused by `commit` -/
theorem commit_wrong_nv (ck : CK F) (nv : Nat) (evals : List F) (h : nv ≠ ck.nv) :
    commit ck nv evals = .error .abort := by
  unfold commit; rw [if_pos h]

theorem open_wf (g h : F) (t evals z : List F) (hz : z.length = t.length)
    (he : evals.length = 2 ^ t.length) :
    MLPC.open (wfCK g h t) t.length evals z = .ok (proofSpec h t z evals) := by
  unfold MLPC.open wfCK
  simp only
  rw [if_neg (by simp), if_neg (by simp [hz]), if_neg (by simp [he])]
  exact openLoop_wf h t z evals (by omega) he

/-- **Completeness on a well-formed key**, together with the exact defect of every neighbouring
statement. -/
theorem check_honest_iff [DecidableEq F] (g h : F) (t z dz evals : List F) (dc dv : F) (n' : Nat)
    (hz : z.length = t.length) (hdz : dz.length = t.length) (he : evals.length = 2 ^ t.length) :
    check (wfVK g h t) ⟨n', g * mleEval evals t + dc⟩ (List.zipWith (· + ·) z dz)
        (mleEval evals z + dv) (proofSpec h t z evals) = .ok true
      ↔ h * (dc - g * dv) + g * dot dz (proofSpec h t z evals) = 0 := by
  rw [check_iff_defect, honest_defect g h t z dz evals dc dv n' hz hdz he]
  · simp [wfVK, hz, hdz]
  · simp [wfVK]
  · rw [proofSpec_length h t z evals (by omega)]; rfl

theorem zipWith_add_zero (z : List F) :
    List.zipWith (· + ·) z (List.replicate z.length (0 : F)) = z := by
  induction z with
  | nil => rfl
  | cons a as ih => simp [List.replicate_succ, ih]

theorem dot_replicate_zero (n : Nat) (l : List F) : dot (List.replicate n (0 : F)) l = 0 := by
  induction n generalizing l with
  | zero => simp
  | succ n ih =>
    cases l with
    | nil => simp
    | cons x xs => simp [List.replicate_succ, ih xs]

theorem check_honest [DecidableEq F] (g h : F) (t z evals : List F) (n' : Nat)
    (hz : z.length = t.length) (he : evals.length = 2 ^ t.length) :
    check (wfVK g h t) ⟨n', g * mleEval evals t⟩ z (mleEval evals z) (proofSpec h t z evals)
      = .ok true := by
  have := (check_honest_iff g h t z (List.replicate z.length 0) evals 0 0 n' hz (by simp [hz]) he).2
  simp only [add_zero, zipWith_add_zero, dot_replicate_zero, mul_zero, sub_zero] at this
  exact this trivial

end MLPC
end PCV
