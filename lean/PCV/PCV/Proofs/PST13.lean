/-
  PCV.Proofs.PST13 — algebra of the PST13 model: the quotient decomposition of `divide_at_point`
  is exact, commitments/witnesses made with a well-formed key are the key-defined linear maps,
  honest openings satisfy the pairing equation, the defect of a changed claim is explicit.
-/
import PCV.Model.PST13
import PCV.Proofs.MVPoly

set_option linter.unusedSectionVars false
set_option linter.unusedVariables false

namespace PCV
namespace PST
variable {F : Type} [Field F]

/-! ### single terms -/

theorem find?_mem {i k : Nat} {t : Term} (h : Term.find? i t = some k) : (i, k) ∈ t := by
  induction t with
  | nil => simp [Term.find?] at h
  | cons q t ih =>
    simp only [Term.find?] at h
    split at h
    · rename_i hq
      injection h with h
      have : q = (i, k) := Prod.ext hq h
      simp [this]
    · exact List.mem_cons_of_mem _ (ih h)

theorem find?_none_of_ne {i : Nat} {t : Term} (h : ∀ q ∈ t, q.1 ≠ i) : Term.find? i t = none := by
  induction t with
  | nil => rfl
  | cons q t ih =>
    simp only [Term.find?]
    rw [if_neg (h q (by simp))]
    exact ih (fun r hr => h r (by simp [hr]))

theorem ne_of_find?_none {i : Nat} {t : Term} (h : Term.find? i t = none) : ∀ q ∈ t, q.1 ≠ i := by
  induction t with
  | nil => intro q hq; cases hq
  | cons a t ih =>
    simp only [Term.find?] at h
    split at h
    · cases h
    · rename_i ha
      intro q hq
      rcases List.mem_cons.1 hq with rfl | hq
      · exact ha
      · exact ih h q hq

/-- `t = x_i^k · (t without x_i)` -/
theorem evalTerm_find {i k : Nat} {t : Term} (h : Term.find? i t = some k) (x : List F) :
    evalTerm t x = fpow (getD' x i 0) k * evalTerm (Term.erase i t) x := by
  induction t with
  | nil => simp [Term.find?] at h
  | cons q t ih =>
    simp only [Term.find?] at h
    simp only [Term.erase]
    split at h
    · rename_i hq
      injection h with h
      rw [if_pos hq]
      simp only [evalTerm_cons, hq, h]
    · rename_i hq
      rw [if_neg hq]
      simp only [evalTerm_cons, ih h]; ring

theorem evalTerm_setPow {i k : Nat} {t : Term} (h : Term.find? i t = some k) (j : Nat) (x : List F) :
    evalTerm (Term.setPow i j t) x = fpow (getD' x i 0) j * evalTerm (Term.erase i t) x := by
  induction t with
  | nil => simp [Term.find?] at h
  | cons q t ih =>
    simp only [Term.find?] at h
    simp only [Term.erase, Term.setPow]
    split at h
    · rename_i hq
      rw [if_pos hq, if_pos hq]
      simp only [evalTerm_cons]
    · rename_i hq
      rw [if_neg hq, if_neg hq]
      simp only [evalTerm_cons, ih h]; ring

/-- the `while` loop: `c·X^(k+1)·E = (X − z)·(q(x) + c'·E) + z·c'·E` -/
theorem divPowers_spec {i k0 : Nat} {t : Term} (hf : Term.find? i t = some k0) (zi : F)
    (x : List F) (k : Nat) (c : F) :
    c * fpow (getD' x i 0) (k + 1) * evalTerm (Term.erase i t) x
      = (getD' x i 0 - zi) * (evalMV (divPowers i zi t (k + 1) c).1 x
          + (divPowers i zi t (k + 1) c).2 * evalTerm (Term.erase i t) x)
        + zi * (divPowers i zi t (k + 1) c).2 * evalTerm (Term.erase i t) x := by
  induction k generalizing c with
  | zero =>
    simp only [divPowers, evalMV_nil, fpow_succ, fpow_zero]; ring
  | succ k ih =>
    have := ih (c * zi)
    simp only [divPowers, evalMV_cons, evalTerm_new, evalTerm_setPow hf, fpow_succ] at this ⊢
    linear_combination this

/-- the constant part that `divide_at_point` drops (`if term.is_constant() { continue; }`) -/
def constOf (ct : F × Term) : F := if Term.isConstant ct.2 then ct.1 else 0

def constSum : MVPoly F → F
  | [] => 0
  | ct :: p => constOf ct + constSum p

theorem divTerm_some {i k : Nat} (zi : F) {ct : F × Term} (hc : ¬ Term.isConstant ct.2 = true)
    (hf : Term.find? i ct.2 = some k) :
    divTerm i zi ct = ((divPowers i zi ct.2 k ct.1).1
        ++ [((divPowers i zi ct.2 k ct.1).2, Term.new (Term.erase i ct.2))],
      [(zi * (divPowers i zi ct.2 k ct.1).2, Term.new (Term.erase i ct.2))]) := by
  unfold divTerm
  simp only [hc, hf]
  rfl

theorem divTerm_spec (i : Nat) (zi : F) (ct : F × Term) (x : List F)
    (hpos : ∀ q ∈ ct.2, q.2 ≠ 0) :
    ct.1 * evalTerm ct.2 x
      = constOf ct + (getD' x i 0 - zi) * evalMV (divTerm i zi ct).1 x
          + evalMV (divTerm i zi ct).2 x := by
  unfold constOf
  by_cases hc : Term.isConstant ct.2 = true
  · unfold divTerm
    simp only [hc, if_true, evalMV_nil, Term.isConstant_eval hc]; ring
  · cases hf : Term.find? i ct.2 with
    | none =>
      unfold divTerm
      simp [hc, hf]
    | some k =>
      have hk : k ≠ 0 := hpos (i, k) (find?_mem hf)
      obtain ⟨k', rfl⟩ : ∃ k', k = k' + 1 := ⟨k - 1, by omega⟩
      have h1 := divPowers_spec hf zi x k' ct.1
      have h2 := evalTerm_find hf x
      rw [divTerm_some zi hc hf]
      simp only [evalMV_append, evalMV_cons, evalMV_nil, evalTerm_new, h2, hc]
      simp only [Bool.false_eq_true, if_false]
      linear_combination h1

theorem divTerms_spec (i : Nat) (zi : F) (p : MVPoly F) (x : List F)
    (hpos : ∀ t ∈ termsOf p, ∀ q ∈ t, q.2 ≠ 0) :
    evalMV p x = constSum p + (getD' x i 0 - zi) * evalMV (divTerms i zi p).1 x
        + evalMV (divTerms i zi p).2 x := by
  induction p with
  | nil => simp [constSum, divTerms]
  | cons ct p ih =>
    have h1 := divTerm_spec i zi ct x (hpos ct.2 (by simp [termsOf]))
    have h2 := ih (fun t ht => hpos t (by simp only [termsOf, List.map_cons, List.mem_cons] at ht ⊢; exact Or.inr ht))
    simp only [divTerms, constSum, evalMV_cons, evalMV_append]
    linear_combination h1 + h2

/-! ### where quotient and remainder terms come from -/

theorem mem_divTerms_rem (i : Nat) (zi : F) (p : MVPoly F) (t : Term) :
    t ∈ termsOf (divTerms i zi p).2 →
      ∃ u ∈ termsOf p, (Term.find? i u = none ∧ t = u) ∨
        (∃ k, Term.find? i u = some k ∧ t = Term.new (Term.erase i u)) := by
  induction p with
  | nil => intro h; simp [divTerms, termsOf] at h
  | cons ct p ih =>
    intro h
    simp only [divTerms, termsOf_append, List.mem_append] at h
    rcases h with h | h
    · refine ⟨ct.2, by simp [termsOf], ?_⟩
      unfold divTerm at h
      split at h
      · simp [termsOf] at h
      · split at h
        · rename_i hf
          simp only [termsOf, List.map_cons, List.map_nil, List.mem_singleton] at h
          exact Or.inl ⟨hf, h⟩
        · rename_i k hf
          simp only [termsOf, List.map_cons, List.map_nil, List.mem_singleton] at h
          exact Or.inr ⟨k, hf, h⟩
    · obtain ⟨u, hu, hh⟩ := ih h
      exact ⟨u, by simp only [termsOf, List.map_cons, List.mem_cons] at hu ⊢; exact Or.inr hu, hh⟩

theorem mem_divPowers_term {i : Nat} {zi : F} {u : Term} (k : Nat) (c : F) (t : Term) :
    t ∈ termsOf (divPowers i zi u k c).1 → ∃ j, j + 1 < k ∧ t = Term.new (Term.setPow i (j + 1) u) := by
  induction k using Nat.strongRecOn generalizing c with
  | _ k ih =>
    match k with
    | 0 => intro h; simp [divPowers, termsOf] at h
    | 1 => intro h; simp [divPowers, termsOf] at h
    | k + 2 =>
      intro h
      simp only [divPowers, termsOf, List.map_cons, List.mem_cons] at h
      rcases h with h | h
      · exact ⟨k, by omega, h⟩
      · obtain ⟨j, hj, ht⟩ := ih (k + 1) (by omega) (c * zi) h
        exact ⟨j, by omega, ht⟩

theorem mem_divTerms_quot (i : Nat) (zi : F) (p : MVPoly F) (t : Term) :
    t ∈ termsOf (divTerms i zi p).1 →
      ∃ u ∈ termsOf p, ∃ k, Term.find? i u = some k ∧
        (t = Term.new (Term.erase i u) ∨ ∃ j, j + 1 < k ∧ t = Term.new (Term.setPow i (j + 1) u)) := by
  induction p with
  | nil => intro h; simp [divTerms, termsOf] at h
  | cons ct p ih =>
    intro h
    simp only [divTerms, termsOf_append, List.mem_append] at h
    rcases h with h | h
    · refine ⟨ct.2, by simp [termsOf], ?_⟩
      unfold divTerm at h
      split at h
      · simp [termsOf] at h
      · split at h
        · simp [termsOf] at h
        · rename_i k hf
          refine ⟨k, hf, ?_⟩
          simp only [termsOf_append, List.mem_append] at h
          rcases h with h | h
          · exact Or.inr (mem_divPowers_term k ct.1 t h)
          · simp only [termsOf, List.map_cons, List.map_nil, List.mem_singleton] at h
            exact Or.inl h
    · obtain ⟨u, hu, hh⟩ := ih h
      exact ⟨u, by simp only [termsOf, List.map_cons, List.mem_cons] at hu ⊢; exact Or.inr hu, hh⟩

/-! ### exactness of `divide_at_point` -/

/-- `Σᵢ (xᵢ − zᵢ)·wᵢ(x)`, `i` counting from the given index -/
def quotSum (x z : List F) : Nat → List (MVPoly F) → F
  | _, [] => 0
  | i, w :: ws => (getD' x i 0 - getD' z i 0) * evalMV w x + quotSum x z (i + 1) ws

/-- the terms of the current dividend at step `i`: built by `SparseTerm::new`, only variables
`i ≤ v < nv` -/
def TermsFrom (i nv : Nat) (p : MVPoly F) : Prop :=
  ∀ t ∈ termsOf p, Term.wf t = true ∧ ∀ q ∈ t, i ≤ q.1 ∧ q.1 < nv

/-- a well-formed term over variables `≥ i` that contains `x_i` has it in front -/
theorem head_of_find? {i k : Nat} {t : Term} (hwf : Term.wf t = true) (hge : ∀ q ∈ t, i ≤ q.1)
    (hf : Term.find? i t = some k) : ∃ t', t = (i, k) :: t' := by
  cases t with
  | nil => simp [Term.find?] at hf
  | cons q t' =>
    by_cases hq : q.1 = i
    · simp only [Term.find?, if_pos hq] at hf
      injection hf with hf
      exact ⟨t', by rw [show q = (i, k) from Prod.ext hq hf]⟩
    · exfalso
      have hlt := Term.wf_head_lt hwf
      have hqi := hge q (by simp)
      have : Term.find? i t' = none := find?_none_of_ne (fun r hr => by
        have := hlt r hr; omega)
      simp only [Term.find?, if_neg hq, this] at hf
      cases hf

theorem termsFrom_rem [DecidableEq F] {i nv : Nat} {cur : MVPoly F} (zi : F)
    (h : TermsFrom i nv cur) : TermsFrom (i + 1) nv (fromCoeffs (divTerms i zi cur).2) := by
  intro t ht
  obtain ⟨u, hu, hh⟩ := mem_divTerms_rem i zi cur t (mem_fromCoeffs_term _ t ht)
  obtain ⟨hwf, hv⟩ := h u hu
  rcases hh with ⟨hnone, rfl⟩ | ⟨k, hsome, rfl⟩
  · refine ⟨hwf, fun q hq => ?_⟩
    have := ne_of_find?_none hnone q hq
    have := hv q hq
    omega
  · obtain ⟨t', rfl⟩ := head_of_find? hwf (fun q hq => (hv q hq).1) hsome
    have hwf' := Term.wf_tail hwf
    simp only [Term.erase, if_true, Term.new_of_wf hwf']
    refine ⟨hwf', fun q hq => ?_⟩
    have h1 := Term.wf_head_lt hwf q hq
    have h2 := hv q (List.mem_cons_of_mem _ hq)
    simp only at h1
    omega

theorem evalMV_const_of_nil (p : MVPoly F) (h : ∀ t ∈ termsOf p, t = []) (x y : List F) :
    evalMV p x = evalMV p y := by
  induction p with
  | nil => rfl
  | cons ct p ih =>
    have h1 : ct.2 = [] := h ct.2 (by simp [termsOf])
    have h2 := ih (fun t ht => h t (by simp only [termsOf, List.map_cons, List.mem_cons] at ht ⊢; exact Or.inr ht))
    simp only [evalMV_cons, h1, evalTerm_nil, h2]

theorem divLoop_spec [DecidableEq F] (z x : List F) (n i : Nat) (cur : MVPoly F)
    (h : TermsFrom i (i + n) cur) :
    evalMV cur x - evalMV cur z = quotSum x z i (divLoop z n i cur) := by
  induction n generalizing i cur with
  | zero =>
    simp only [divLoop, quotSum]
    have : ∀ t ∈ termsOf cur, t = [] := by
      intro t ht
      obtain ⟨_, hv⟩ := h t ht
      cases t with
      | nil => rfl
      | cons q t => have := hv q (by simp); omega
    rw [evalMV_const_of_nil cur this x z]; ring
  | succ n ih =>
    have hpos : ∀ t ∈ termsOf cur, ∀ q ∈ t, q.2 ≠ 0 := fun t ht => Term.wf_pos (h t ht).1
    have hx := divTerms_spec i (getD' z i 0) cur x hpos
    have hz := divTerms_spec i (getD' z i 0) cur z hpos
    have hrem := termsFrom_rem (getD' z i 0) h
    rw [show i + (n + 1) = (i + 1) + n by omega] at hrem
    have hrec := ih (i + 1) _ hrem
    simp only [divLoop, quotSum, evalMV_fromCoeffs] at hrec ⊢
    rw [← hrec]
    linear_combination hx - hz

theorem quotSum_replicate_nil (x z : List F) (i n : Nat) :
    quotSum x z i (List.replicate n ([] : MVPoly F)) = 0 := by
  induction n generalizing i with
  | zero => rfl
  | succ n ih => simp [List.replicate_succ, quotSum, ih]

/-- **C15 (a).** `divide_at_point` is exact: for every polynomial whose terms were built by
`SparseTerm::new` over `nv` variables, every point `z` and every `x`,
`p(x) − p(z) = Σᵢ (xᵢ − zᵢ)·wᵢ(x)`. -/
theorem divideAtPoint_exact [DecidableEq F] (nv : Nat) (p : MVPoly F) (z x : List F)
    (hwf : polyWf p = true) (hv : polyVarsBelow nv p = true) :
    evalMV p x - evalMV p z = quotSum x z 0 (divideAtPoint nv p z) := by
  unfold divideAtPoint
  split
  · rename_i hz
    rw [evalMV_of_isZero p hz, evalMV_of_isZero p hz, quotSum_replicate_nil]; ring
  · apply divLoop_spec
    intro t ht
    refine ⟨(polyWf_iff p).1 hwf t ht, fun q hq => ⟨Nat.zero_le _, ?_⟩⟩
    have := (polyVarsBelow_iff nv p).1 hv t ht
    simp only [Term.varsBelow, List.all_eq_true, decide_eq_true_eq] at this
    simpa using this q hq

theorem divLoop_length [DecidableEq F] (z : List F) (n i : Nat) (p : MVPoly F) :
    (divLoop z n i p).length = n := by
  induction n generalizing i p with
  | zero => rfl
  | succ n ih => simp [divLoop, ih]

theorem divideAtPoint_length [DecidableEq F] (nv : Nat) (p : MVPoly F) (z : List F) :
    (divideAtPoint nv p z).length = nv := by
  unfold divideAtPoint
  split
  · simp
  · exact divLoop_length z nv 0 p

end PST
end PCV
