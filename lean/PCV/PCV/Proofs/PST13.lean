/-
  PCV.Proofs.PST13 — algebra of the PST13 model: the quotient decomposition of `divide_at_point`
  is exact, commitments/witnesses made with a well-formed key are the key-defined linear maps,
  honest openings satisfy the pairing equation, the defect of a changed claim is explicit.
-/
import PCV.Model.PST13
import PCV.Proofs.MVPoly

set_option linter.unusedSectionVars false
set_option linter.unusedVariables false

namespace PCV
namespace PST
open PCV.MV
variable {F : Type} [Field F]

/-! ### single terms -/

theorem find?_mem {i k : Nat} {t : Term} (h : Term.find? i t = some k) : (i, k) ∈ t := by
  induction t with
  | nil => simp [Term.find?] at h
  | cons q t ih =>
    simp only [Term.find?] at h
    split at h
    · rename_i hq
      injection h with h
      have : q = (i, k) := Prod.ext hq h
      simp [this]
    · exact List.mem_cons_of_mem _ (ih h)

theorem find?_none_of_ne {i : Nat} {t : Term} (h : ∀ q ∈ t, q.1 ≠ i) : Term.find? i t = none := by
  induction t with
  | nil => rfl
  | cons q t ih =>
    simp only [Term.find?]
    rw [if_neg (h q (by simp))]
    exact ih (fun r hr => h r (by simp [hr]))

theorem ne_of_find?_none {i : Nat} {t : Term} (h : Term.find? i t = none) : ∀ q ∈ t, q.1 ≠ i := by
  induction t with
  | nil => intro q hq; cases hq
  | cons a t ih =>
    simp only [Term.find?] at h
    split at h
    · cases h
    · rename_i ha
      intro q hq
      rcases List.mem_cons.1 hq with rfl | hq
      · exact ha
      · exact ih h q hq

/-- `t = x_i^k · (t without x_i)` -/
theorem evalTerm_find {i k : Nat} {t : Term} (h : Term.find? i t = some k) (x : List F) :
    evalTerm t x = fpow (getD' x i 0) k * evalTerm (Term.erase i t) x := by
  induction t with
  | nil => simp [Term.find?] at h
  | cons q t ih =>
    simp only [Term.find?] at h
    simp only [Term.erase]
    split at h
    · rename_i hq
      injection h with h
      rw [if_pos hq]
      simp only [evalTerm_cons, hq, h]
    · rename_i hq
      rw [if_neg hq]
      simp only [evalTerm_cons, ih h]; ring

theorem evalTerm_setPow {i k : Nat} {t : Term} (h : Term.find? i t = some k) (j : Nat) (x : List F) :
    evalTerm (Term.setPow i j t) x = fpow (getD' x i 0) j * evalTerm (Term.erase i t) x := by
  induction t with
  | nil => simp [Term.find?] at h
  | cons q t ih =>
    simp only [Term.find?] at h
    simp only [Term.erase, Term.setPow]
    split at h
    · rename_i hq
      rw [if_pos hq, if_pos hq]
      simp only [evalTerm_cons]
    · rename_i hq
      rw [if_neg hq, if_neg hq]
      simp only [evalTerm_cons, ih h]; ring

/-- the `while` loop: `c·X^(k+1)·E = (X − z)·(q(x) + c'·E) + z·c'·E` -/
theorem divPowers_spec {i k0 : Nat} {t : Term} (hf : Term.find? i t = some k0) (zi : F)
    (x : List F) (k : Nat) (c : F) :
    c * fpow (getD' x i 0) (k + 1) * evalTerm (Term.erase i t) x
      = (getD' x i 0 - zi) * (evalMV (divPowers i zi t (k + 1) c).1 x
          + (divPowers i zi t (k + 1) c).2 * evalTerm (Term.erase i t) x)
        + zi * (divPowers i zi t (k + 1) c).2 * evalTerm (Term.erase i t) x := by
  induction k generalizing c with
  | zero =>
    simp only [divPowers, evalMV_nil, fpow_succ, fpow_zero]; ring
  | succ k ih =>
    have := ih (c * zi)
    simp only [divPowers, evalMV_cons, evalTerm_new, evalTerm_setPow hf, fpow_succ] at this ⊢
    linear_combination this

/-- the constant part that `divide_at_point` drops (`if term.is_constant() { continue; }`) -/
def constOf (ct : F × Term) : F := if Term.isConstant ct.2 then ct.1 else 0

def constSum : MVPoly F → F
  | [] => 0
  | ct :: p => constOf ct + constSum p

theorem divTerm_some {i k : Nat} (zi : F) {ct : F × Term} (hc : ¬ Term.isConstant ct.2 = true)
    (hf : Term.find? i ct.2 = some k) :
    divTerm i zi ct = ((divPowers i zi ct.2 k ct.1).1
        ++ [((divPowers i zi ct.2 k ct.1).2, Term.new (Term.erase i ct.2))],
      [(zi * (divPowers i zi ct.2 k ct.1).2, Term.new (Term.erase i ct.2))]) := by
  unfold divTerm
  simp only [hc, hf]
  rfl

theorem divTerm_spec (i : Nat) (zi : F) (ct : F × Term) (x : List F)
    (hpos : ∀ q ∈ ct.2, q.2 ≠ 0) :
    ct.1 * evalTerm ct.2 x
      = constOf ct + (getD' x i 0 - zi) * evalMV (divTerm i zi ct).1 x
          + evalMV (divTerm i zi ct).2 x := by
  unfold constOf
  by_cases hc : Term.isConstant ct.2 = true
  · unfold divTerm
    simp only [hc, if_true, evalMV_nil, Term.isConstant_eval hc]; ring
  · cases hf : Term.find? i ct.2 with
    | none =>
      unfold divTerm
      simp [hc, hf]
    | some k =>
      have hk : k ≠ 0 := hpos (i, k) (find?_mem hf)
      obtain ⟨k', rfl⟩ : ∃ k', k = k' + 1 := ⟨k - 1, by omega⟩
      have h1 := divPowers_spec hf zi x k' ct.1
      have h2 := evalTerm_find hf x
      rw [divTerm_some zi hc hf]
      simp only [evalMV_append, evalMV_cons, evalMV_nil, evalTerm_new, h2, hc]
      simp only [Bool.false_eq_true, if_false]
      linear_combination h1

theorem divTerms_spec (i : Nat) (zi : F) (p : MVPoly F) (x : List F)
    (hpos : ∀ t ∈ termsOf p, ∀ q ∈ t, q.2 ≠ 0) :
    evalMV p x = constSum p + (getD' x i 0 - zi) * evalMV (divTerms i zi p).1 x
        + evalMV (divTerms i zi p).2 x := by
  induction p with
  | nil => simp [constSum, divTerms]
  | cons ct p ih =>
    have h1 := divTerm_spec i zi ct x (hpos ct.2 (by simp [termsOf]))
    have h2 := ih (fun t ht => hpos t (by simp only [termsOf, List.map_cons, List.mem_cons] at ht ⊢; exact Or.inr ht))
    simp only [divTerms, constSum, evalMV_cons, evalMV_append]
    linear_combination h1 + h2

/-! ### where quotient and remainder terms come from -/

theorem mem_divTerms_rem (i : Nat) (zi : F) (p : MVPoly F) (t : Term) :
    t ∈ termsOf (divTerms i zi p).2 →
      ∃ u ∈ termsOf p, (Term.find? i u = none ∧ t = u) ∨
        (∃ k, Term.find? i u = some k ∧ t = Term.new (Term.erase i u)) := by
  induction p with
  | nil => intro h; simp [divTerms, termsOf] at h
  | cons ct p ih =>
    intro h
    simp only [divTerms, termsOf_append, List.mem_append] at h
    rcases h with h | h
    · refine ⟨ct.2, by simp [termsOf], ?_⟩
      unfold divTerm at h
      split at h
      · simp [termsOf] at h
      · split at h
        · rename_i hf
          simp only [termsOf, List.map_cons, List.map_nil, List.mem_singleton] at h
          exact Or.inl ⟨hf, h⟩
        · rename_i k hf
          simp only [termsOf, List.map_cons, List.map_nil, List.mem_singleton] at h
          exact Or.inr ⟨k, hf, h⟩
    · obtain ⟨u, hu, hh⟩ := ih h
      exact ⟨u, by simp only [termsOf, List.map_cons, List.mem_cons] at hu ⊢; exact Or.inr hu, hh⟩

theorem mem_divPowers_term {i : Nat} {zi : F} {u : Term} (k : Nat) (c : F) (t : Term) :
    t ∈ termsOf (divPowers i zi u k c).1 → ∃ j, j + 1 < k ∧ t = Term.new (Term.setPow i (j + 1) u) := by
  induction k using Nat.strongRecOn generalizing c with
  | _ k ih =>
    match k with
    | 0 => intro h; simp [divPowers, termsOf] at h
    | 1 => intro h; simp [divPowers, termsOf] at h
    | k + 2 =>
      intro h
      simp only [divPowers, termsOf, List.map_cons, List.mem_cons] at h
      rcases h with h | h
      · exact ⟨k, by omega, h⟩
      · obtain ⟨j, hj, ht⟩ := ih (k + 1) (by omega) (c * zi) h
        exact ⟨j, by omega, ht⟩

theorem mem_divTerms_quot (i : Nat) (zi : F) (p : MVPoly F) (t : Term) :
    t ∈ termsOf (divTerms i zi p).1 →
      ∃ u ∈ termsOf p, ∃ k, Term.find? i u = some k ∧
        (t = Term.new (Term.erase i u) ∨ ∃ j, j + 1 < k ∧ t = Term.new (Term.setPow i (j + 1) u)) := by
  induction p with
  | nil => intro h; simp [divTerms, termsOf] at h
  | cons ct p ih =>
    intro h
    simp only [divTerms, termsOf_append, List.mem_append] at h
    rcases h with h | h
    · refine ⟨ct.2, by simp [termsOf], ?_⟩
      unfold divTerm at h
      split at h
      · simp [termsOf] at h
      · split at h
        · simp [termsOf] at h
        · rename_i k hf
          refine ⟨k, hf, ?_⟩
          simp only [termsOf_append, List.mem_append] at h
          rcases h with h | h
          · exact Or.inr (mem_divPowers_term k ct.1 t h)
          · simp only [termsOf, List.map_cons, List.map_nil, List.mem_singleton] at h
            exact Or.inl h
    · obtain ⟨u, hu, hh⟩ := ih h
      exact ⟨u, by simp only [termsOf, List.map_cons, List.mem_cons] at hu ⊢; exact Or.inr hu, hh⟩

/-! ### exactness of `divide_at_point` -/

/-- `Σᵢ (xᵢ − zᵢ)·wᵢ(x)`, `i` counting from the given index -/
def quotSum (x z : List F) : Nat → List (MVPoly F) → F
  | _, [] => 0
  | i, w :: ws => (getD' x i 0 - getD' z i 0) * evalMV w x + quotSum x z (i + 1) ws

/-- the terms of the current dividend at step `i`: built by `SparseTerm::new`, only variables
`i ≤ v < nv` -/
def TermsFrom (i nv : Nat) (p : MVPoly F) : Prop :=
  ∀ t ∈ termsOf p, Term.wf t = true ∧ ∀ q ∈ t, i ≤ q.1 ∧ q.1 < nv

/-- a well-formed term over variables `≥ i` that contains `x_i` has it in front -/
theorem head_of_find? {i k : Nat} {t : Term} (hwf : Term.wf t = true) (hge : ∀ q ∈ t, i ≤ q.1)
    (hf : Term.find? i t = some k) : ∃ t', t = (i, k) :: t' := by
  cases t with
  | nil => simp [Term.find?] at hf
  | cons q t' =>
    by_cases hq : q.1 = i
    · simp only [Term.find?, if_pos hq] at hf
      injection hf with hf
      exact ⟨t', by rw [show q = (i, k) from Prod.ext hq hf]⟩
    · exfalso
      have hlt := Term.wf_head_lt hwf
      have hqi := hge q (by simp)
      have : Term.find? i t' = none := find?_none_of_ne (fun r hr => by
        have := hlt r hr; omega)
      simp only [Term.find?, if_neg hq, this] at hf
      cases hf

theorem termsFrom_rem [DecidableEq F] {i nv : Nat} {cur : MVPoly F} (zi : F)
    (h : TermsFrom i nv cur) : TermsFrom (i + 1) nv (fromCoeffs (divTerms i zi cur).2) := by
  intro t ht
  obtain ⟨u, hu, hh⟩ := mem_divTerms_rem i zi cur t (mem_fromCoeffs_term _ t ht)
  obtain ⟨hwf, hv⟩ := h u hu
  rcases hh with ⟨hnone, rfl⟩ | ⟨k, hsome, rfl⟩
  · refine ⟨hwf, fun q hq => ?_⟩
    have := ne_of_find?_none hnone q hq
    have := hv q hq
    omega
  · obtain ⟨t', rfl⟩ := head_of_find? hwf (fun q hq => (hv q hq).1) hsome
    have hwf' := Term.wf_tail hwf
    simp only [Term.erase, if_true, Term.new_of_wf hwf']
    refine ⟨hwf', fun q hq => ?_⟩
    have h1 := Term.wf_head_lt hwf q hq
    have h2 := hv q (List.mem_cons_of_mem _ hq)
    simp only at h1
    omega

theorem evalMV_const_of_nil (p : MVPoly F) (h : ∀ t ∈ termsOf p, t = []) (x y : List F) :
    evalMV p x = evalMV p y := by
  induction p with
  | nil => rfl
  | cons ct p ih =>
    have h1 : ct.2 = [] := h ct.2 (by simp [termsOf])
    have h2 := ih (fun t ht => h t (by simp only [termsOf, List.map_cons, List.mem_cons] at ht ⊢; exact Or.inr ht))
    simp only [evalMV_cons, h1, evalTerm_nil, h2]

theorem divLoop_spec [DecidableEq F] (z x : List F) (n i : Nat) (cur : MVPoly F)
    (h : TermsFrom i (i + n) cur) :
    evalMV cur x - evalMV cur z = quotSum x z i (divLoop z n i cur) := by
  induction n generalizing i cur with
  | zero =>
    simp only [divLoop, quotSum]
    have : ∀ t ∈ termsOf cur, t = [] := by
      intro t ht
      obtain ⟨_, hv⟩ := h t ht
      cases t with
      | nil => rfl
      | cons q t => have := hv q (by simp); omega
    rw [evalMV_const_of_nil cur this x z]; ring
  | succ n ih =>
    have hpos : ∀ t ∈ termsOf cur, ∀ q ∈ t, q.2 ≠ 0 := fun t ht => Term.wf_pos (h t ht).1
    have hx := divTerms_spec i (getD' z i 0) cur x hpos
    have hz := divTerms_spec i (getD' z i 0) cur z hpos
    have hrem := termsFrom_rem (getD' z i 0) h
    rw [show i + (n + 1) = (i + 1) + n by omega] at hrem
    have hrec := ih (i + 1) _ hrem
    simp only [divLoop, quotSum, evalMV_fromCoeffs] at hrec ⊢
    rw [← hrec]
    linear_combination hx - hz

theorem quotSum_replicate_nil (x z : List F) (i n : Nat) :
    quotSum x z i (List.replicate n ([] : MVPoly F)) = 0 := by
  induction n generalizing i with
  | zero => rfl
  | succ n ih => simp [List.replicate_succ, quotSum, ih]

/-- **C15 (a).** `divide_at_point` is exact: for every polynomial whose terms were built by
`SparseTerm::new` over `nv` variables, every point `z` and every `x`,
`p(x) − p(z) = Σᵢ (xᵢ − zᵢ)·wᵢ(x)`. -/
theorem divideAtPoint_exact [DecidableEq F] (nv : Nat) (p : MVPoly F) (z x : List F)
    (hwf : polyWf p = true) (hv : polyVarsBelow nv p = true) :
    evalMV p x - evalMV p z = quotSum x z 0 (divideAtPoint nv p z) := by
  unfold divideAtPoint
  split
  · rename_i hz
    rw [evalMV_of_isZero p hz, evalMV_of_isZero p hz, quotSum_replicate_nil]; ring
  · apply divLoop_spec
    intro t ht
    refine ⟨(polyWf_iff p).1 hwf t ht, fun q hq => ⟨Nat.zero_le _, ?_⟩⟩
    have := (polyVarsBelow_iff nv p).1 hv t ht
    simp only [Term.varsBelow, List.all_eq_true, decide_eq_true_eq] at this
    simpa using this q hq

theorem divLoop_length [DecidableEq F] (z : List F) (n i : Nat) (p : MVPoly F) :
    (divLoop z n i p).length = n := by
  induction n generalizing i p with
  | zero => rfl
  | succ n ih => simp [divLoop, ih]

theorem divideAtPoint_length [DecidableEq F] (nv : Nat) (p : MVPoly F) (z : List F) :
    (divideAtPoint nv p z).length = nv := by
  unfold divideAtPoint
  split
  · simp
  · exact divLoop_length z nv 0 p

/-! ### term predicates preserved by the division -/

/-- a predicate on terms that survives dividing out one variable is inherited by every quotient -/
theorem divLoop_terms [DecidableEq F] (P : Term → Prop)
    (hrem : ∀ u i k, P u → Term.find? i u = some k → P (Term.new (Term.erase i u)))
    (hquot : ∀ u i k j, P u → Term.find? i u = some k → j + 1 < k →
      P (Term.new (Term.setPow i (j + 1) u)))
    (z : List F) (n i : Nat) (cur : MVPoly F) (h : ∀ t ∈ termsOf cur, P t) :
    ∀ w ∈ divLoop z n i cur, ∀ t ∈ termsOf w, P t := by
  induction n generalizing i cur with
  | zero => intro w hw; simp [divLoop] at hw
  | succ n ih =>
    intro w hw
    simp only [divLoop, List.mem_cons] at hw
    rcases hw with rfl | hw
    · intro t ht
      obtain ⟨u, hu, k, hf, hh⟩ := mem_divTerms_quot i _ cur t (mem_fromCoeffs_term _ t ht)
      rcases hh with rfl | ⟨j, hj, rfl⟩
      · exact hrem u i k (h u hu) hf
      · exact hquot u i k j (h u hu) hf hj
    · refine ih (i + 1) _ ?_ w hw
      intro t ht
      obtain ⟨u, hu, hh⟩ := mem_divTerms_rem i _ cur t (mem_fromCoeffs_term _ t ht)
      rcases hh with ⟨_, htu⟩ | ⟨k, hf, rfl⟩
      · rw [htu]; exact h u hu
      · exact hrem u i k (h u hu) hf

theorem divideAtPoint_terms [DecidableEq F] (P : Term → Prop)
    (hrem : ∀ u i k, P u → Term.find? i u = some k → P (Term.new (Term.erase i u)))
    (hquot : ∀ u i k j, P u → Term.find? i u = some k → j + 1 < k →
      P (Term.new (Term.setPow i (j + 1) u)))
    (nv : Nat) (p : MVPoly F) (z : List F) (h : ∀ t ∈ termsOf p, P t) :
    ∀ w ∈ divideAtPoint nv p z, ∀ t ∈ termsOf w, P t := by
  unfold divideAtPoint
  split
  · intro w hw t ht
    rw [List.eq_of_mem_replicate hw] at ht
    simp [termsOf] at ht
  · exact divLoop_terms P hrem hquot z nv 0 p h

/-- a predicate that survives dividing out one variable and bounds the variables by `k ≤ |z|`
keeps every `point[i]` of `divide_at_point` in range -/
theorem divIndexOk_of [DecidableEq F] (P : Term → Prop)
    (hrem : ∀ u i k, P u → Term.find? i u = some k → P (Term.new (Term.erase i u)))
    (k : Nat) (hP : ∀ t, P t → ∀ q ∈ t, q.1 < k) (z : List F) (hk : k ≤ z.length)
    (n i : Nat) (cur : MVPoly F) (h : ∀ t ∈ termsOf cur, P t) : divIndexOk z n i cur = true := by
  induction n generalizing i cur with
  | zero => rfl
  | succ n ih =>
    simp only [divIndexOk, Bool.and_eq_true, Bool.or_eq_true, decide_eq_true_eq,
      Bool.not_eq_true']
    refine ⟨?_, ?_⟩
    · by_cases hi : i < z.length
      · exact Or.inl hi
      · right
        rw [List.any_eq_false]
        intro ct hct
        have hmem : ct.2 ∈ termsOf cur := by
          simp only [termsOf, List.mem_map]; exact ⟨ct, hct, rfl⟩
        have hnone : Term.find? i ct.2 = none :=
          find?_none_of_ne (fun q hq => by have := hP ct.2 (h ct.2 hmem) q hq; omega)
        simp [termReads, hnone]
    · refine ih (i + 1) _ ?_
      intro t ht
      obtain ⟨u, hu, hh⟩ := mem_divTerms_rem i _ cur t (mem_fromCoeffs_term _ t ht)
      rcases hh with ⟨_, htu⟩ | ⟨k', hf, rfl⟩
      · rw [htu]; exact h u hu
      · exact hrem u i k' (h u hu) hf

theorem divideOk_of [DecidableEq F] (P : Term → Prop)
    (hrem : ∀ u i k, P u → Term.find? i u = some k → P (Term.new (Term.erase i u)))
    (k : Nat) (hP : ∀ t, P t → ∀ q ∈ t, q.1 < k) (z : List F) (hk : k ≤ z.length)
    (nv : Nat) (p : MVPoly F) (h : ∀ t ∈ termsOf p, P t) : divideOk nv p z = true := by
  unfold divideOk
  rw [divIndexOk_of P hrem k hP z hk nv 0 p h]
  simp

/-- "each monomial is univariate": the shape of blinding polynomials -/
def isUni : Term → Bool
  | [] => true
  | [q] => q.2 != 0
  | _ => false

theorem isUni_wf {t : Term} (h : isUni t = true) : Term.wf t = true := by
  match t with
  | [] => rfl
  | [q] => simpa [isUni, Term.wf] using h
  | _ :: _ :: _ => simp [isUni] at h

theorem isUni_rem (u : Term) (i k : Nat) (hu : isUni u = true) (hf : Term.find? i u = some k) :
    isUni (Term.new (Term.erase i u)) = true := by
  match u with
  | [] => simp [Term.find?] at hf
  | [q] =>
    simp only [Term.find?] at hf
    split at hf
    · rename_i hq; simp [Term.erase, hq, Term.new, Term.retainNonzero, isUni]
    · cases hf
  | _ :: _ :: _ => simp [isUni] at hu

theorem isUni_quot (u : Term) (i k j : Nat) (hu : isUni u = true) (hf : Term.find? i u = some k)
    (hj : j + 1 < k) : isUni (Term.new (Term.setPow i (j + 1) u)) = true := by
  match u with
  | [] => simp [Term.find?] at hf
  | [q] =>
    simp only [Term.find?] at hf
    split at hf
    · rename_i hq
      have hw : Term.wf [(i, j + 1)] = true := by simp [Term.wf]
      simp only [Term.setPow, hq, if_true, Term.new_of_wf hw]
      simp [isUni]
    · cases hf
  | _ :: _ :: _ => simp [isUni] at hu

/-! ### well-formed keys -/

section Keys
variable [DecidableEq F]

/-- The committer key `setup`/`trim` make from the trapdoor `β⃗` and the generators' scalars
`g, γ`: `powers_of_g[t] = g·t(β⃗)` for the monomials `ts`, `powers_of_gamma_g[i][j] = γ·βᵢ^(j+1)`
(`m` entries per row). -/
def wfCK (g γ : F) (β : List F) (ts : List Term) (nv s D m : Nat) : CK F :=
  { powersOfG := ts.map (fun t => (t, g * evalTerm t β))
    gammaG := γ
    powersOfGammaG := (List.range nv).map (fun i => gammaRow γ (getD' β i 0) m 1)
    numVars := nv, supportedDegree := s, maxDegree := D }

/-- the matching verifier key: `beta_h[i] = βᵢ·h` -/
def wfVK (g γ h : F) (β : List F) (nv s D : Nat) : VK F :=
  { g := g, gammaG := γ, h := h, betaH := β.map (fun b => h * b)
    numVars := nv, supportedDegree := s, maxDegree := D }

theorem mapGet_map (f : Term → F) (ts : List Term) (t : Term) (b : F)
    (h : mapGet (ts.map (fun t => (t, f t))) t = some b) : b = f t := by
  induction ts with
  | nil => simp [mapGet] at h
  | cons a ts ih =>
    simp only [List.map_cons, mapGet] at h
    split at h
    · rename_i ha
      injection h with h
      rw [← h, ← ha]
    · exact ih h

theorem mapGet_map_of_mem (f : Term → F) (ts : List Term) (t : Term) (ht : t ∈ ts) :
    mapGet (ts.map (fun t => (t, f t))) t = some (f t) := by
  induction ts with
  | nil => cases ht
  | cons a ts ih =>
    simp only [List.map_cons, mapGet]
    by_cases ha : a = t
    · simp [ha]
    · rw [if_neg ha]
      rcases List.mem_cons.1 ht with h | h
      · exact absurd h.symm ha
      · exact ih h

theorem lookG_wf (g : F) (β : List F) (ts : List Term) (t : Term) (b : F)
    (h : lookG (ts.map (fun t => (t, g * evalTerm t β))) t = .ok b) : b = g * evalTerm t β := by
  unfold lookG at h
  split at h
  · cases h
  · rename_i b' hb
    injection h with h
    rw [← h]
    exact mapGet_map _ ts t b' hb

theorem gammaRow_get (γ β : F) (n : Nat) (cur : F) (j : Nat) (b : F)
    (h : (gammaRow γ β n cur)[j]? = some b) : b = γ * (cur * fpow β (j + 1)) := by
  induction n generalizing cur j with
  | zero => simp [gammaRow] at h
  | succ n ih =>
    cases j with
    | zero =>
      simp only [gammaRow, List.getElem?_cons_zero] at h
      injection h with h
      rw [← h]; simp only [fpow_succ, fpow_zero]; ring
    | succ j =>
      simp only [gammaRow, List.getElem?_cons_succ] at h
      rw [ih _ _ h, fpow_succ β (j + 1)]; ring

theorem gammaBase_wf (γ : F) (β : List F) (nv m : Nat) (t : Term) (b : F) (hu : isUni t = true)
    (h : gammaBase γ ((List.range nv).map (fun i => gammaRow γ (getD' β i 0) m 1)) t = .ok b) :
    b = γ * evalTerm t β := by
  match t with
  | [] =>
    simp only [gammaBase, Term.isConstant, List.isEmpty_nil, Bool.true_or, if_true] at h
    injection h with h
    simp [← h]
  | [q] =>
    have hq : q.2 ≠ 0 := by simpa [isUni] using hu
    have hc : Term.isConstant [q] = false := by
      simp [Term.isConstant, Term.degree, hq]
    simp only [gammaBase, hc, Term.vars, List.map_cons, List.map_nil, List.getElem?_cons_zero,
      Bool.false_eq_true, if_false] at h
    split at h
    · cases h
    · rename_i row hrow
      split at h
      · cases h
      · rename_i b' hb
        injection h with h
        rw [List.getElem?_map] at hrow
        cases hr : (List.range nv)[q.1]? with
        | none => simp [hr] at hrow
        | some v =>
          simp only [hr, Option.map_some, Option.some.injEq] at hrow
          have hv : v = q.1 := by
            rw [List.getElem?_range] at hr
            · injection hr with hr; exact hr.symm
            · by_contra hlt
              rw [List.getElem?_eq_none (by simpa using Nat.le_of_not_lt hlt)] at hr
              cases hr
          rw [← hrow, hv] at hb
          have := gammaRow_get _ _ _ _ _ _ hb
          simp only [Term.degree] at this
          rw [← h, this]
          have hk : q.2 + 0 - 1 + 1 = q.2 := by omega
          rw [hk]
          simp only [evalTerm_cons, evalTerm_nil]; ring
  | _ :: _ :: _ => simp [isUni] at hu

theorem msmBy_spec (look : Term → Except Err F) (c0 : F) (β : List F) (p : MVPoly F) (x : F)
    (hl : ∀ t ∈ termsOf p, ∀ b, look t = .ok b → b = c0 * evalTerm t β)
    (h : msmBy look p = .ok x) : x = c0 * evalMV p β := by
  induction p generalizing x with
  | nil =>
    simp only [msmBy] at h
    injection h with h
    simp [← h]
  | cons ct p ih =>
    simp only [msmBy] at h
    split at h
    · cases h
    · rename_i b hb
      split at h
      · cases h
      · rename_i acc hacc
        injection h with h
        have h1 := hl ct.2 (by simp [termsOf]) b hb
        have h2 := ih acc (fun t ht => hl t (by simp only [termsOf, List.map_cons, List.mem_cons] at ht ⊢; exact Or.inr ht)) hacc
        rw [← h, h1, h2]; simp only [evalMV_cons]; ring

theorem msmAll_spec (look : Term → Except Err F) (c0 : F) (β : List F) (ws : List (MVPoly F))
    (xs : List F)
    (hl : ∀ w ∈ ws, ∀ t ∈ termsOf w, ∀ b, look t = .ok b → b = c0 * evalTerm t β)
    (h : msmAll look ws = .ok xs) : xs = ws.map (fun w => c0 * evalMV w β) := by
  induction ws generalizing xs with
  | nil =>
    simp only [msmAll] at h
    injection h with h
    simp [← h]
  | cons w ws ih =>
    simp only [msmAll] at h
    split at h
    · cases h
    · rename_i x hx
      split at h
      · cases h
      · rename_i xs' hxs
        injection h with h
        have h1 := msmBy_spec look c0 β w x (hl w (by simp)) hx
        have h2 := ih xs' (fun w' hw' => hl w' (by simp [hw'])) hxs
        rw [← h, h1, h2]; rfl

theorem addHiding_spec (look : Term → Except Err F) (c1 : F) (β : List F) (ws : List F)
    (hws : List (MVPoly F)) (xs : List F)
    (hl : ∀ w ∈ hws, ∀ t ∈ termsOf w, ∀ b, look t = .ok b → b = c1 * evalTerm t β)
    (h : addHiding look ws hws = .ok xs) :
    xs = List.zipWith (fun w hw => w + c1 * evalMV hw β) ws hws ∧ ws.length ≤ hws.length := by
  induction ws generalizing hws xs with
  | nil =>
    simp only [addHiding] at h
    injection h with h
    simp [← h]
  | cons w ws ih =>
    cases hws with
    | nil => simp [addHiding] at h
    | cons hw hws =>
      simp only [addHiding] at h
      split at h
      · cases h
      · rename_i x hx
        split at h
        · cases h
        · rename_i xs' hxs
          injection h with h
          have h1 := msmBy_spec look c1 β hw x (hl hw (by simp)) hx
          have h2 := ih hws xs' (fun w' hw' => hl w' (by simp [hw'])) hxs
          rw [← h, h1, h2.1]
          simp only [List.zipWith_cons_cons, List.length_cons]
          have := h2.2
          exact ⟨trivial, by omega⟩

theorem getD'_map_mul (h : F) (β : List F) (j : Nat) :
    getD' (β.map (fun b => h * b)) j 0 = h * getD' β j 0 := by
  unfold getD'
  rw [List.getElem?_map]
  cases β[j]? <;> simp

/-- the right-hand multi-pairing for witnesses `Wᵢ = g·wᵢ(β⃗) + γ·w'ᵢ(β⃗)` -/
theorem rhsSum_zip (g γ h : F) (β z : List F) (j : Nat) (ws hws : List (MVPoly F))
    (hlen : ws.length = hws.length) :
    rhsSum h (β.map (fun b => h * b)) z j
        (List.zipWith (fun w hw => g * evalMV w β + γ * evalMV hw β) ws hws)
      = h * (g * quotSum β z j ws + γ * quotSum β z j hws) := by
  induction ws generalizing j hws with
  | nil =>
    cases hws with
    | nil => simp [rhsSum, quotSum]
    | cons _ _ => simp at hlen
  | cons w ws ih =>
    cases hws with
    | nil => simp at hlen
    | cons hw hws =>
      simp only [List.zipWith_cons_cons, rhsSum, quotSum, getD'_map_mul]
      rw [ih (j + 1) hws (by simpa using hlen)]
      ring

theorem rhsSum_map (g h : F) (β z : List F) (j : Nat) (ws : List (MVPoly F)) :
    rhsSum h (β.map (fun b => h * b)) z j (ws.map (fun w => g * evalMV w β))
      = h * (g * quotSum β z j ws) := by
  induction ws generalizing j with
  | nil => simp [rhsSum, quotSum]
  | cons w ws ih =>
    simp only [List.map_cons, rhsSum, quotSum, getD'_map_mul]
    rw [ih (j + 1)]
    ring

/-! ### the challenge combination (prover) against the accumulation (verifier) -/

theorem checkDegree_ok (s : Nat) (p : MVPoly F) : checkDegree s p = .ok () ↔ ¬ degreeMV p > s := by
  unfold checkDegree; split <;> simp_all

/-- any property of terms shared by the accumulator and the inputs holds for the combination -/
theorem combine_terms (P : Term → Prop) (s : Nat) (pa ra : MVPoly F) (ps rs : List (MVPoly F))
    (ξs : List F) (out : MVPoly F × MVPoly F × List F)
    (h : combine s pa ra ps rs ξs = .ok out)
    (hpa : ∀ t ∈ termsOf pa, P t) (hps : ∀ p ∈ ps, ∀ t ∈ termsOf p, P t) :
    ∀ t ∈ termsOf out.1, P t := by
  induction ps generalizing pa ra rs ξs with
  | nil =>
    simp only [combine] at h
    injection h with h
    rw [← h]; exact hpa
  | cons p ps ih =>
    cases rs with
    | nil =>
      simp only [combine] at h
      injection h with h
      rw [← h]; exact hpa
    | cons r rs =>
      simp only [combine] at h
      split at h
      · cases h
      · cases ξs with
        | nil => simp at h
        | cons ξ ξs =>
          simp only at h
          refine ih _ _ rs ξs h ?_ (fun q hq => hps q (by simp [hq]))
          intro t ht
          rcases mem_addScaledMV_term pa p ξ t ht with ht | ht
          · exact hpa t ht
          · exact hps p (by simp) t ht

theorem combine_terms_r (P : Term → Prop) (s : Nat) (pa ra : MVPoly F) (ps rs : List (MVPoly F))
    (ξs : List F) (out : MVPoly F × MVPoly F × List F)
    (h : combine s pa ra ps rs ξs = .ok out)
    (hra : ∀ t ∈ termsOf ra, P t) (hrs : ∀ r ∈ rs, ∀ t ∈ termsOf r, P t) :
    ∀ t ∈ termsOf out.2.1, P t := by
  induction ps generalizing pa ra rs ξs with
  | nil =>
    simp only [combine] at h
    injection h with h
    rw [← h]; exact hra
  | cons p ps ih =>
    cases rs with
    | nil =>
      simp only [combine] at h
      injection h with h
      rw [← h]; exact hra
    | cons r rs =>
      simp only [combine] at h
      split at h
      · cases h
      · cases ξs with
        | nil => simp at h
        | cons ξ ξs =>
          simp only at h
          refine ih _ _ rs ξs h ?_ (fun q hq => hrs q (by simp [hq]))
          intro t ht
          rcases mem_addScaledMV_term ra r ξ t ht with ht | ht
          · exact hra t ht
          · exact hrs r (by simp) t ht

/-- the commitments `g·p(β⃗) + γ·r(β⃗)` of a list of polynomials with their blinding polynomials -/
def comms (g γ : F) (β : List F) (ps rs : List (MVPoly F)) : List F :=
  List.zipWith (fun p r => g * evalMV p β + γ * evalMV r β) ps rs

/-- **Lock-step of prover and verifier.**  If the prover's loop combines `(ps, rs)` into
`(p̂, r̂)`, the verifier's loop on the commitments and the true values returns
`C = g·p̂(β⃗) + γ·r̂(β⃗)`, `V = p̂(z)` (relative to the accumulators) and leaves the same unused
challenges. -/
theorem combine_accumulate (g γ : F) (β z : List F) (s : Nat) (pa ra : MVPoly F)
    (ps rs : List (MVPoly F)) (ξs : List F) (out : MVPoly F × MVPoly F × List F) (ca va : F)
    (h : combine s pa ra ps rs ξs = .ok out) (hlen : ps.length = rs.length)
    (hpa : ∀ t ∈ termsOf pa, Term.wf t = true) (hra : ∀ t ∈ termsOf ra, Term.wf t = true)
    (hps : ∀ p ∈ ps, ∀ t ∈ termsOf p, Term.wf t = true)
    (hrs : ∀ r ∈ rs, ∀ t ∈ termsOf r, Term.wf t = true) :
    accumulate ca va (comms g γ β ps rs) (ps.map (fun p => evalMV p z)) ξs
      = .ok (ca + (g * (evalMV out.1 β - evalMV pa β) + γ * (evalMV out.2.1 β - evalMV ra β)),
             va + (evalMV out.1 z - evalMV pa z), out.2.2) := by
  induction ps generalizing pa ra rs ξs ca va with
  | nil =>
    simp only [combine] at h
    injection h with h
    simp [← h, comms, accumulate]
  | cons p ps ih =>
    cases rs with
    | nil => simp at hlen
    | cons r rs =>
      simp only [combine] at h
      split at h
      · cases h
      · cases ξs with
        | nil => simp at h
        | cons ξ ξs =>
          simp only at h
          have hp := hps p (by simp)
          have hr := hrs r (by simp)
          have hpa' : ∀ t ∈ termsOf (addScaledMV pa ξ p), Term.wf t = true := by
            intro t ht
            rcases mem_addScaledMV_term pa p ξ t ht with ht | ht
            · exact hpa t ht
            · exact hp t ht
          have hra' : ∀ t ∈ termsOf (addScaledMV ra ξ r), Term.wf t = true := by
            intro t ht
            rcases mem_addScaledMV_term ra r ξ t ht with ht | ht
            · exact hra t ht
            · exact hr t ht
          have := ih _ _ rs ξs (ca + (g * evalMV p β + γ * evalMV r β) * ξ) (va + evalMV p z * ξ) h
            (by simpa using hlen) hpa' hra' (fun q hq => hps q (by simp [hq]))
            (fun q hq => hrs q (by simp [hq]))
          simp only [comms, List.zipWith_cons_cons, List.map_cons, accumulate] at this ⊢
          rw [this]
          simp only [evalMV_addScaledMV _ _ _ _ hpa hp, evalMV_addScaledMV _ _ _ _ hra hr]
          congr 1
          refine Prod.ext ?_ (Prod.ext ?_ rfl)
          · simp only; ring
          · simp only; ring

/-! ### honest openings -/

theorem msmAll_length (look : Term → Except Err F) (ws : List (MVPoly F)) (xs : List F)
    (h : msmAll look ws = .ok xs) : xs.length = ws.length := by
  induction ws generalizing xs with
  | nil => simp only [msmAll] at h; injection h with h; simp [← h]
  | cons w ws ih =>
    simp only [msmAll] at h
    split at h
    · cases h
    · split at h
      · cases h
      · rename_i xs' hxs
        injection h with h
        simp [← h, ih xs' hxs]

theorem resizeTo_length (n : Nat) (ws : List (MVPoly F)) : (resizeTo n ws).length = n := by
  unfold resizeTo
  simp only [List.length_append, List.length_take, List.length_replicate]
  omega

theorem mem_resizeTo (n : Nat) (ws : List (MVPoly F)) (q : MVPoly F) (h : q ∈ resizeTo n ws) :
    q ∈ ws ∨ q = [] := by
  unfold resizeTo at h
  rcases List.mem_append.1 h with h | h
  · exact Or.inl (List.mem_of_mem_take h)
  · exact Or.inr (List.eq_of_mem_replicate h)

theorem quotSum_append (x z : List F) (i : Nat) (a b : List (MVPoly F)) :
    quotSum x z i (a ++ b) = quotSum x z i a + quotSum x z (i + a.length) b := by
  induction a generalizing i with
  | nil => simp [quotSum]
  | cons w a ih =>
    simp only [List.cons_append, quotSum, ih (i + 1), List.length_cons]
    rw [show i + 1 + a.length = i + (a.length + 1) by omega]; ring

/-- padding with zero quotients does not change `Σ (xᵢ − zᵢ)·wᵢ(x)` -/
theorem quotSum_resizeTo (x z : List F) (n : Nat) (ws : List (MVPoly F)) (h : ws.length ≤ n) :
    quotSum x z 0 (resizeTo n ws) = quotSum x z 0 ws := by
  unfold resizeTo
  rw [List.take_of_length_le h, quotSum_append, quotSum_replicate_nil]; ring

theorem resizeTo_terms (P : Term → Prop) (n : Nat) (ws : List (MVPoly F))
    (h : ∀ w ∈ ws, ∀ t ∈ termsOf w, P t) : ∀ w ∈ resizeTo n ws, ∀ t ∈ termsOf w, P t := by
  intro w hw t ht
  rcases mem_resizeTo n ws w hw with hw | rfl
  · exact h w hw t ht
  · simp [termsOf] at ht

/-- an answered `open` passed the index guards: it is the result of `openCore` -/
theorem openCombined_core (ck : CK F) (nvp nvr : Nat) (p r : MVPoly F) (z : List F) (π : Proof F)
    (h : openCombined ck nvp nvr p r z = .ok π) : openCore ck nvp nvr p r z = .ok π := by
  unfold openCombined at h
  split at h
  · cases h
  · split at h
    · cases h
    · exact h

/-- what `open` returns on the combined polynomials `(p̂, r̂)` — declared over `nvp`, `nvr ≤ nv`
variables — under a well-formed key: the verifier's defect on `C = g·p̂(β⃗) + γ·r̂(β⃗)`,
`V = p̂(z)` vanishes, and there is one witness per variable of the key. -/
theorem openCombined_defect (g γ h : F) (β : List F) (ts : List Term) (nv s D m nvp nvr : Nat)
    (p r : MVPoly F) (z : List F) (π : Proof F) (hnvp : nvp ≤ nv) (hnvr : nvr ≤ nv)
    (hp : polyWf p = true) (hpv : polyVarsBelow nvp p = true)
    (hr : polyWf r = true) (hrv : polyVarsBelow nvr r = true)
    (hru : ∀ t ∈ termsOf r, isUni t = true)
    (ho : openCombined (wfCK g γ β ts nv s D m) nvp nvr p r z = .ok π) :
    defectCombined (wfVK g γ h β nv s D) (g * evalMV p β + γ * evalMV r β) (evalMV p z) z π = 0
      ∧ π.w.length = nv := by
  have ho := openCombined_core _ _ _ _ _ _ _ ho
  unfold openCore at ho
  simp only [wfCK] at ho
  split at ho
  · cases ho
  · rename_i w hw
    have hwlen := msmAll_length _ _ _ hw
    rw [resizeTo_length] at hwlen
    have hwspec := msmAll_spec _ g β _ w (fun _ _ t _ b hb => lookG_wf g β ts t b hb) hw
    have hexp := divideAtPoint_exact nvp p z β hp hpv
    rw [← quotSum_resizeTo β z nv _ (by rw [divideAtPoint_length]; exact hnvp)] at hexp
    split at ho
    · rename_i hz
      injection ho with ho
      subst ho
      refine ⟨?_, hwlen⟩
      unfold defectCombined wfVK
      simp only [rvVal]
      rw [hwspec, rhsSum_map, ← hexp, evalMV_of_isZero r hz]
      ring
    · split at ho
      · cases ho
      · rename_i w' hw'
        split at ho
        · cases ho
        · injection ho with ho
          subst ho
          have huq : ∀ q ∈ resizeTo nv (divideAtPoint nvr r z), ∀ t ∈ termsOf q, isUni t = true :=
            resizeTo_terms (fun t => isUni t = true) nv _
              (divideAtPoint_terms (fun t => isUni t = true) isUni_rem isUni_quot nvr r z hru)
          have hspec := addHiding_spec _ γ β w _ w'
            (fun q hq t ht b hb => gammaBase_wf γ β nv m t b (huq q hq t ht) hb) hw'
          have hexr := divideAtPoint_exact nvr r z β hr hrv
          rw [← quotSum_resizeTo β z nv _ (by rw [divideAtPoint_length]; exact hnvr)] at hexr
          have hlen2 : (resizeTo nv (divideAtPoint nvp p z)).length
              = (resizeTo nv (divideAtPoint nvr r z)).length := by
            rw [resizeTo_length, resizeTo_length]
          refine ⟨?_, ?_⟩
          · unfold defectCombined wfVK
            simp only [rvVal]
            rw [hspec.1, hwspec, List.zipWith_map_left, rhsSum_zip _ _ _ _ _ _ _ _ hlen2,
              ← hexp, ← hexr]
            ring
          · simp only
            rw [hspec.1, List.length_zipWith, hwlen, resizeTo_length]
            simp

/-- **Completeness for the challenge-combined list.**  Key well-formed for the trapdoor `β⃗`;
polynomials and blinding polynomials built by the library over `nv` variables (blinding terms
univariate); whenever the prover returns a proof, the verifier accepts the true values under the
same challenges. -/
theorem open_check_complete (g γ h : F) (β : List F) (ts : List Term) (nv s D m nvp nvr : Nat)
    (ps rs : List (MVPoly F)) (z ξs : List F) (π : Proof F)
    (hnvp : nvp ≤ nv) (hnvr : nvr ≤ nv)
    (hlen : ps.length = rs.length)
    (hps : ∀ p ∈ ps, polyWf p = true ∧ polyVarsBelow nvp p = true)
    (hrs : ∀ r ∈ rs, polyWf r = true ∧ polyVarsBelow nvr r = true ∧ ∀ t ∈ termsOf r, isUni t = true)
    (hβ : nv ≤ β.length) (hz : nv ≤ z.length)
    (ho : PST.open (wfCK g γ β ts nv s D m) nvp nvr ps z rs ξs = .ok π) :
    check (wfVK g γ h β nv s D) (comms g γ β ps rs) z (ps.map (fun p => evalMV p z)) π ξs
      = .ok true := by
  unfold PST.open at ho
  split at ho
  · cases ho
  · rename_i c hc
    have hnil : ∀ (P : Term → Prop), ∀ t ∈ termsOf ([] : MVPoly F), P t := by
      intro P t ht; simp [termsOf] at ht
    have hacc := combine_accumulate g γ β z _ [] [] ps rs ξs c 0 0 hc hlen (hnil _) (hnil _)
      (fun p hp => (polyWf_iff p).1 (hps p hp).1) (fun r hr => (polyWf_iff r).1 (hrs r hr).1)
    have h1 := combine_terms (fun t => Term.wf t = true) _ [] [] ps rs ξs c hc (hnil _)
      (fun p hp => (polyWf_iff p).1 (hps p hp).1)
    have h2 := combine_terms (fun t => Term.varsBelow nvp t = true) _ [] [] ps rs ξs c hc (hnil _)
      (fun p hp => (polyVarsBelow_iff nvp p).1 (hps p hp).2)
    have h3 := combine_terms_r (fun t => Term.wf t = true) _ [] [] ps rs ξs c hc (hnil _)
      (fun r hr => (polyWf_iff r).1 (hrs r hr).1)
    have h4 := combine_terms_r (fun t => Term.varsBelow nvr t = true) _ [] [] ps rs ξs c hc (hnil _)
      (fun r hr => (polyVarsBelow_iff nvr r).1 (hrs r hr).2.1)
    have h5 := combine_terms_r (fun t => isUni t = true) _ [] [] ps rs ξs c hc (hnil _)
      (fun r hr => (hrs r hr).2.2)
    obtain ⟨hd, hwl⟩ := openCombined_defect g γ h β ts nv s D m nvp nvr c.1 c.2.1 z π hnvp hnvr
      ((polyWf_iff _).2 h1) ((polyVarsBelow_iff nvp _).2 h2) ((polyWf_iff _).2 h3)
      ((polyVarsBelow_iff nvr _).2 h4) h5 ho
    unfold check
    rw [if_neg (by simp only [wfVK]; omega), hacc]
    simp only [evalMV_nil, sub_zero, zero_add, hd]
    have : ¬ (π.w.length > (wfVK g γ h β nv s D).betaH.length ∨ π.w.length > z.length) := by
      simp only [wfVK, List.length_map, hwl]; omega
    rw [if_neg this]
    simp

/-! ### commit -/

theorem mem_termsOf_zip (a : List F) (b : List Term) (t : Term) (h : t ∈ termsOf (List.zip a b)) :
    t ∈ b := by
  simp only [termsOf, List.mem_map] at h
  obtain ⟨x, hx, rfl⟩ := h
  exact (List.of_mem_zip hx).2

theorem mem_randTerms (d l : Nat) (t : Term) (h : t ∈ randTerms d l) :
    isUni t = true ∧ Term.varsBelow l t = true := by
  simp only [randTerms, List.mem_cons, List.mem_flatMap, List.mem_range, List.mem_map] at h
  rcases h with rfl | ⟨v, hv, j, hj, rfl⟩
  · simp [Term.new, Term.retainNonzero, isUni, Term.varsBelow]
  · have hw : Term.wf [(v, j + 1)] = true := by simp [Term.wf]
    rw [Term.new_of_wf hw]
    simp [isUni, Term.varsBelow, hv]

/-- **C08-style statement for PST13.**  Whatever `commit` returns under a well-formed key is the
key-defined linear map `g·p(β⃗) + γ·r(β⃗)`, and the blinding polynomial has the shape the prover
relies on. -/
theorem commit_spec (g γ : F) (β : List F) (ts : List Term) (nv s D m : Nat) (p : MVPoly F)
    (hb : Option Nat) (rng : Bool) (draws : List F) (c : F) (r : MVPoly F) (rest : List F)
    (h : commit (wfCK g γ β ts nv s D m) p hb rng draws = .ok (c, r, rest)) :
    c = g * evalMV p β + γ * evalMV r β ∧ polyWf r = true ∧ polyVarsBelow nv r = true
      ∧ (∀ t ∈ termsOf r, isUni t = true) ∧ degreeMV p ≤ s := by
  unfold commit at h
  simp only [wfCK] at h
  split at h
  · cases h
  · rename_i hdeg
    have hdeg' : degreeMV p ≤ s := by
      have := (checkDegree_ok s p).1 hdeg; omega
    split at h
    · cases h
    · rename_i c0 hc0
      have hc := msmBy_spec _ g β p c0 (fun t _ b hb => lookG_wf g β ts t b hb) hc0
      split at h
      · injection h with h; injection h with h1 h2; injection h2 with h2 h3
        subst h1; subst h2
        refine ⟨by rw [hc]; simp, rfl, rfl, fun t ht => by simp [termsOf] at ht, hdeg'⟩
      · split at h
        · cases h
        · split at h
          · cases h
          · rename_i rr hrr
            split at h
            · cases h
            · split at h
              · cases h
              · rename_i rc hrc
                injection h with h; injection h with h1 h2; injection h2 with h2 h3
                subst h1; subst h2
                have hterms : ∀ t ∈ termsOf rr.1, isUni t = true ∧ Term.varsBelow nv t = true := by
                  intro t ht
                  unfold randMV at hrr
                  split at hrr
                  · cases hrr
                  · injection hrr with hrr
                    rw [← hrr] at ht
                    exact mem_randTerms _ _ t (mem_termsOf_zip _ _ t (mem_fromCoeffs_term _ t ht))
                have hrc' := msmBy_spec _ γ β rr.1 rc
                  (fun t ht b hb => gammaBase_wf γ β nv m t b (hterms t ht).1 hb) hrc
                refine ⟨by rw [hc, hrc'], ?_, ?_, fun t ht => (hterms t ht).1, hdeg'⟩
                · exact (polyWf_iff _).2 (fun t ht => isUni_wf (hterms t ht).1)
                · exact (polyVarsBelow_iff nv _).2 (fun t ht => (hterms t ht).2)

/-! ### the defect of a changed claim -/

theorem defectCombined_shift (vk : VK F) (C V dC dV : F) (z : List F) (π : Proof F) :
    defectCombined vk (C + dC) (V + dV) z π = defectCombined vk C V z π + (dC - vk.g * dV) * vk.h := by
  unfold defectCombined; ring

theorem check_eq_decide (vk : VK F) (cs z vs : List F) (π : Proof F) (ξs : List F)
    (a : F × F × List F) (hacc : accumulate 0 0 cs vs ξs = .ok a)
    (hnv : π.w.length = vk.numVars)
    (hlen : π.w.length ≤ vk.betaH.length ∧ π.w.length ≤ z.length) :
    check vk cs z vs π ξs = .ok (decide (defect vk cs z vs π ξs = 0)) := by
  unfold check defect
  rw [if_neg (not_not.mpr hnv), hacc]
  simp only
  rw [if_neg (by omega)]

/-- **`check` decides exactly `defect = 0`** (whenever it does not refuse: one witness per key
variable, key and point long enough). -/
theorem check_iff_defect (vk : VK F) (cs z vs : List F) (π : Proof F) (ξs : List F)
    (a : F × F × List F) (hacc : accumulate 0 0 cs vs ξs = .ok a)
    (hnv : π.w.length = vk.numVars)
    (hlen : π.w.length ≤ vk.betaH.length ∧ π.w.length ≤ z.length) :
    check vk cs z vs π ξs = .ok true ↔ defect vk cs z vs π ξs = 0 := by
  rw [check_eq_decide vk cs z vs π ξs a hacc hnv hlen]
  simp

/-- **Shape.** A proof whose witness list has not exactly `num_vars` elements is refused with
`IncorrectInputLength`, whatever else the claim contains — nothing is squeezed, nothing is paired. -/
theorem check_wrong_length (vk : VK F) (cs z vs : List F) (π : Proof F) (ξs : List F)
    (h : π.w.length ≠ vk.numVars) : check vk cs z vs π ξs = .error .incorrectInputLength := by
  unfold check
  rw [if_pos h]

/-- whatever `check` answers, the proof had one witness per key variable -/
theorem check_ok_length (vk : VK F) (cs z vs : List F) (π : Proof F) (ξs : List F) (b : Bool)
    (h : check vk cs z vs π ξs = .ok b) : π.w.length = vk.numVars := by
  by_contra hne
  rw [check_wrong_length vk cs z vs π ξs hne] at h
  cases h

/-- **One polynomial: the verifier's decision on an arbitrary changed claim.**  With
`(c, r)` from `commit` and `π` from `open` at `z`, the check of the claim
`(c + dc, z, p(z) + dv)` decides `(dc − g·dv)·ξ·h = 0`. -/
theorem single_check_eq (g γ h : F) (β : List F) (ts : List Term) (nv s D m nvp nvr : Nat)
    (p : MVPoly F)
    (hb : Option Nat) (rng : Bool) (draws : List F) (c : F) (r : MVPoly F) (rest : List F)
    (z : List F) (ξ : F) (ξs : List F) (π : Proof F) (dc dv : F)
    (hnvp : nvp ≤ nv) (hnvr : nvr ≤ nv)
    (hp : polyWf p = true) (hpv : polyVarsBelow nvp p = true) (hrv' : polyVarsBelow nvr r = true)
    (hβ : nv ≤ β.length) (hz : nv ≤ z.length)
    (hc : commit (wfCK g γ β ts nv s D m) p hb rng draws = .ok (c, r, rest))
    (ho : PST.open (wfCK g γ β ts nv s D m) nvp nvr [p] z [r] (ξ :: ξs) = .ok π) :
    check (wfVK g γ h β nv s D) [c + dc] z [evalMV p z + dv] π (ξ :: ξs)
      = .ok (decide ((dc - g * dv) * ξ * h = 0)) := by
  obtain ⟨hcs, hrw, hrv, hru, _⟩ := commit_spec g γ β ts nv s D m p hb rng draws c r rest hc
  have hcomp := open_check_complete g γ h β ts nv s D m nvp nvr [p] [r] z (ξ :: ξs) π hnvp hnvr rfl
    (fun q hq => by simp only [List.mem_singleton] at hq; subst hq; exact ⟨hp, hpv⟩)
    (fun q hq => by simp only [List.mem_singleton] at hq; subst hq; exact ⟨hrw, hrv', hru⟩)
    hβ hz ho
  simp only [comms, List.zipWith_cons_cons, List.zipWith_nil_right, List.map_cons, List.map_nil,
    ← hcs] at hcomp
  have hnv := check_ok_length _ _ _ _ _ _ _ hcomp
  unfold check at hcomp ⊢
  rw [if_neg (not_not.mpr hnv)] at hcomp ⊢
  simp only [accumulate, zero_add] at hcomp ⊢
  split at hcomp
  · cases hcomp
  · rename_i hl
    rw [if_neg hl]
    injection hcomp with hcomp
    have h0 : defectCombined (wfVK g γ h β nv s D) (c * ξ) (evalMV p z * ξ) z π = 0 := by
      simpa using hcomp
    have : (c + dc) * ξ = c * ξ + dc * ξ := by ring
    rw [this]
    have : (evalMV p z + dv) * ξ = evalMV p z * ξ + dv * ξ := by ring
    rw [this, defectCombined_shift, h0]
    simp only [wfVK, zero_add]
    congr 1
    have hiff : ((dc * ξ - g * (dv * ξ)) * h = 0) ↔ ((dc - g * dv) * ξ * h = 0) := by
      constructor <;> intro hh <;> linear_combination hh
    exact decide_eq_decide.2 hiff

/-! ### trim -/

theorem mapGet_filter (m : List (Term × F)) (s : Nat) (t : Term) :
    mapGet (trimPowers s m) t = if Term.degree t ≤ s then mapGet m t else none := by
  induction m with
  | nil => simp [trimPowers, mapGet]
  | cons kv m ih =>
    unfold trimPowers at ih ⊢
    rw [List.filter_cons]
    by_cases hkt : kv.1 = t
    · subst hkt
      by_cases hk : Term.degree kv.1 ≤ s
      · simp only [hk, decide_true, if_true, mapGet]
      · simp only [hk, decide_false, Bool.false_eq_true, if_false]
        rw [ih]; simp only [hk, if_false]
    · by_cases hk : Term.degree kv.1 ≤ s
      · simp only [hk, decide_true, if_true, mapGet, hkt, if_false]; exact ih
      · simp only [hk, decide_false, Bool.false_eq_true, if_false, mapGet, hkt]; exact ih

/-- **C15 (d).** `trim` keeps exactly the monomials of total degree `≤ supported_degree`, with
their elements unchanged, and hands the verifier the element of the constant monomial. -/
theorem trim_spec (pp : UParams F) (s : Nat) (ck : CK F) (vk : VK F)
    (h : trim pp s = .ok (ck, vk)) :
    s ≤ pp.maxDegree
    ∧ ck.powersOfG = pp.powersOfG.filter (fun kv => decide (Term.degree kv.1 ≤ s))
    ∧ (∀ t, mapGet ck.powersOfG t = if Term.degree t ≤ s then mapGet pp.powersOfG t else none)
    ∧ mapGet pp.powersOfG [] = some vk.g
    ∧ vk.betaH = pp.betaH ∧ vk.h = pp.h ∧ vk.gammaG = pp.gammaG ∧ ck.gammaG = pp.gammaG
    ∧ ck.supportedDegree = s ∧ ck.numVars = pp.numVars := by
  unfold trim at h
  split at h
  · cases h
  · rename_i hs
    split at h
    · cases h
    · split at h
      · cases h
      · rename_i g hg
        injection h with h
        injection h with h1 h2
        subst h1; subst h2
        refine ⟨by omega, rfl, fun t => mapGet_filter _ s t, ?_, rfl, rfl, rfl, rfl, rfl, rfl⟩
        simpa [Term.new, Term.retainNonzero] using hg

/-! ### totality: nothing the key covers is refused -/

theorem Term.wf_iff (t : Term) :
    Term.wf t = true ↔ (∀ q ∈ t, q.2 ≠ 0) ∧ t.Pairwise (fun a b => a.1 < b.1) := by
  induction t with
  | nil => simp [Term.wf]
  | cons a t ih =>
    constructor
    · intro h
      have ht := ih.1 (Term.wf_tail h)
      refine ⟨Term.wf_pos h, List.pairwise_cons.2 ⟨Term.wf_head_lt h, ht.2⟩⟩
    · rintro ⟨hp, hpw⟩
      obtain ⟨h1, h2⟩ := List.pairwise_cons.1 hpw
      exact Term.wf_cons (hp a (by simp)) (ih.2 ⟨fun q hq => hp q (by simp [hq]), h2⟩) h1

theorem erase_sublist (i : Nat) (t : Term) : (Term.erase i t).Sublist t := by
  induction t with
  | nil => exact List.Sublist.refl _
  | cons q t ih =>
    simp only [Term.erase]
    split
    · exact List.sublist_cons_self q t
    · exact ih.cons_cons q

theorem wf_erase (i : Nat) {t : Term} (h : Term.wf t = true) : Term.wf (Term.erase i t) = true := by
  rw [Term.wf_iff] at h ⊢
  exact ⟨fun q hq => h.1 q ((erase_sublist i t).subset hq), h.2.sublist (erase_sublist i t)⟩

theorem degree_erase_le (i : Nat) (t : Term) : Term.degree (Term.erase i t) ≤ Term.degree t := by
  induction t with
  | nil => exact Nat.le_refl _
  | cons q t ih =>
    simp only [Term.erase]
    split
    · simp only [Term.degree]; omega
    · simp only [Term.degree]; omega

theorem setPow_fst (i k : Nat) (t : Term) : (Term.setPow i k t).map Prod.fst = t.map Prod.fst := by
  induction t with
  | nil => rfl
  | cons q t ih =>
    simp only [Term.setPow]
    split
    · rename_i hq; simp [hq]
    · simp [ih]

theorem mem_setPow {i k : Nat} {t : Term} {q : Nat × Nat} (h : q ∈ Term.setPow i k t) :
    q = (i, k) ∨ q ∈ t := by
  induction t with
  | nil => simp [Term.setPow] at h
  | cons a t ih =>
    simp only [Term.setPow] at h
    split at h
    · rcases List.mem_cons.1 h with h | h
      · exact Or.inl h
      · exact Or.inr (List.mem_cons_of_mem _ h)
    · rcases List.mem_cons.1 h with h | h
      · exact Or.inr (by simp [h])
      · rcases ih h with h | h
        · exact Or.inl h
        · exact Or.inr (List.mem_cons_of_mem _ h)

theorem wf_setPow (i k : Nat) (hk : k ≠ 0) {t : Term} (h : Term.wf t = true) :
    Term.wf (Term.setPow i k t) = true := by
  rw [Term.wf_iff] at h ⊢
  refine ⟨fun q hq => ?_, ?_⟩
  · rcases mem_setPow hq with rfl | hq
    · exact hk
    · exact h.1 q hq
  · have h2 : (t.map Prod.fst).Pairwise (· < ·) := List.pairwise_map.2 h.2
    rw [← setPow_fst i k t] at h2
    exact List.pairwise_map.1 h2

theorem degree_setPow {i k0 : Nat} {t : Term} (hf : Term.find? i t = some k0) (k : Nat) :
    Term.degree (Term.setPow i k t) + k0 = Term.degree t + k := by
  induction t with
  | nil => simp [Term.find?] at hf
  | cons q t ih =>
    simp only [Term.find?] at hf
    simp only [Term.setPow]
    split at hf
    · rename_i hq
      injection hf with hf
      rw [if_pos hq]; simp only [Term.degree]; omega
    · rename_i hq
      rw [if_neg hq]; simp only [Term.degree]
      have := ih hf; omega

theorem varsBelow_iff (nv : Nat) (t : Term) : Term.varsBelow nv t = true ↔ ∀ q ∈ t, q.1 < nv := by
  simp [Term.varsBelow]

/-- the monomials a key of supported degree `s` over `nv` variables must contain -/
def Covered (nv s : Nat) (t : Term) : Prop :=
  Term.wf t = true ∧ Term.varsBelow nv t = true ∧ Term.degree t ≤ s

theorem covered_rem (nv s : Nat) (u : Term) (i k : Nat) (hu : Covered nv s u)
    (hf : Term.find? i u = some k) : Covered nv s (Term.new (Term.erase i u)) := by
  obtain ⟨h1, h2, h3⟩ := hu
  rw [Term.new_of_wf (wf_erase i h1)]
  refine ⟨wf_erase i h1, ?_, Nat.le_trans (degree_erase_le i u) h3⟩
  rw [varsBelow_iff] at h2 ⊢
  exact fun q hq => h2 q ((erase_sublist i u).subset hq)

theorem covered_quot (nv s : Nat) (u : Term) (i k j : Nat) (hu : Covered nv s u)
    (hf : Term.find? i u = some k) (hj : j + 1 < k) :
    Covered nv s (Term.new (Term.setPow i (j + 1) u)) := by
  obtain ⟨h1, h2, h3⟩ := hu
  have hw := wf_setPow i (j + 1) (by omega) h1
  rw [Term.new_of_wf hw]
  refine ⟨hw, ?_, ?_⟩
  · rw [varsBelow_iff] at h2 ⊢
    intro q hq
    rcases mem_setPow hq with rfl | hq
    · exact h2 (i, k) (find?_mem hf)
    · exact h2 q hq
  · have := degree_setPow hf (j + 1); omega

/-- the blinding monomials a key with `m` γ-powers per variable can serve -/
def UniCovered (nv m : Nat) (t : Term) : Prop :=
  isUni t = true ∧ Term.varsBelow nv t = true ∧ Term.degree t ≤ m

theorem uniCovered_rem (nv m : Nat) (u : Term) (i k : Nat) (hu : UniCovered nv m u)
    (hf : Term.find? i u = some k) : UniCovered nv m (Term.new (Term.erase i u)) := by
  refine ⟨isUni_rem u i k hu.1 hf, ?_, ?_⟩
  · have hw := isUni_wf hu.1
    rw [Term.new_of_wf (wf_erase i hw)]
    have h2 := hu.2.1
    rw [varsBelow_iff] at h2 ⊢
    exact fun q hq => h2 q ((erase_sublist i u).subset hq)
  · have hw := isUni_wf hu.1
    rw [Term.new_of_wf (wf_erase i hw)]
    exact Nat.le_trans (degree_erase_le i u) hu.2.2

theorem uniCovered_quot (nv m : Nat) (u : Term) (i k j : Nat) (hu : UniCovered nv m u)
    (hf : Term.find? i u = some k) (hj : j + 1 < k) :
    UniCovered nv m (Term.new (Term.setPow i (j + 1) u)) := by
  have hc := covered_quot nv m u i k j ⟨isUni_wf hu.1, hu.2.1, hu.2.2⟩ hf hj
  exact ⟨isUni_quot u i k j hu.1 hf hj, hc.2.1, hc.2.2⟩

theorem msmBy_ok (look : Term → Except Err F) (p : MVPoly F)
    (h : ∀ t ∈ termsOf p, ∃ b, look t = .ok b) : ∃ x, msmBy look p = .ok x := by
  induction p with
  | nil => exact ⟨0, rfl⟩
  | cons ct p ih =>
    obtain ⟨b, hb⟩ := h ct.2 (by simp [termsOf])
    obtain ⟨x, hx⟩ := ih (fun t ht => h t (by simp only [termsOf, List.map_cons, List.mem_cons] at ht ⊢; exact Or.inr ht))
    exact ⟨ct.1 * b + x, by simp only [msmBy, hb, hx]⟩

theorem msmAll_ok (look : Term → Except Err F) (ws : List (MVPoly F))
    (h : ∀ w ∈ ws, ∀ t ∈ termsOf w, ∃ b, look t = .ok b) : ∃ xs, msmAll look ws = .ok xs := by
  induction ws with
  | nil => exact ⟨[], rfl⟩
  | cons w ws ih =>
    obtain ⟨x, hx⟩ := msmBy_ok look w (h w (by simp))
    obtain ⟨xs, hxs⟩ := ih (fun w' hw' => h w' (by simp [hw']))
    exact ⟨x :: xs, by simp only [msmAll, hx, hxs]⟩

theorem addHiding_ok (look : Term → Except Err F) (ws : List F) (hws : List (MVPoly F))
    (hlen : ws.length ≤ hws.length)
    (h : ∀ w ∈ hws, ∀ t ∈ termsOf w, ∃ b, look t = .ok b) :
    ∃ xs, addHiding look ws hws = .ok xs := by
  induction ws generalizing hws with
  | nil => exact ⟨[], rfl⟩
  | cons w ws ih =>
    cases hws with
    | nil => simp at hlen
    | cons hw hws =>
      obtain ⟨x, hx⟩ := msmBy_ok look hw (h hw (by simp))
      obtain ⟨xs, hxs⟩ := ih hws (by simpa using hlen) (fun w' hw' => h w' (by simp [hw']))
      exact ⟨(w + x) :: xs, by simp only [addHiding, hx, hxs]⟩

theorem gammaRow_length (γ β : F) (n : Nat) (cur : F) : (gammaRow γ β n cur).length = n := by
  induction n generalizing cur with
  | zero => rfl
  | succ n ih => simp [gammaRow, ih]

theorem gammaBase_ok (γ : F) (β : List F) (nv m : Nat) (t : Term) (h : UniCovered nv m t) :
    ∃ b, gammaBase γ ((List.range nv).map (fun i => gammaRow γ (getD' β i 0) m 1)) t = .ok b := by
  obtain ⟨hu, hv, hd⟩ := h
  match t with
  | [] => exact ⟨γ, by simp [gammaBase, Term.isConstant]⟩
  | [q] =>
    have hq : q.2 ≠ 0 := by simpa [isUni] using hu
    have hc : Term.isConstant [q] = false := by simp [Term.isConstant, Term.degree, hq]
    have hvq : q.1 < nv := (varsBelow_iff nv [q]).1 hv q (by simp)
    simp only [Term.degree] at hd
    have hrow : ((List.range nv).map (fun i => gammaRow γ (getD' β i 0) m 1))[q.1]?
        = some (gammaRow γ (getD' β q.1 0) m 1) := by
      rw [List.getElem?_map, List.getElem?_range hvq]; rfl
    have hlt : q.2 + 0 - 1 < (gammaRow γ (getD' β q.1 0) m 1).length := by
      rw [gammaRow_length]; omega
    refine ⟨(gammaRow γ (getD' β q.1 0) m 1)[q.2 + 0 - 1], ?_⟩
    simp only [gammaBase, hc, Term.vars, List.map_cons, List.map_nil, List.getElem?_cons_zero,
      Bool.false_eq_true, if_false, hrow, Term.degree, List.getElem?_eq_getElem hlt]
  | _ :: _ :: _ => simp [isUni] at hu

theorem combine_ok (s : Nat) (pa ra : MVPoly F) (ps rs : List (MVPoly F)) (ξs : List F)
    (hdeg : ∀ p ∈ ps, degreeMV p ≤ s) (hξ : ps.length ≤ ξs.length) :
    ∃ out, combine s pa ra ps rs ξs = .ok out := by
  induction ps generalizing pa ra rs ξs with
  | nil => exact ⟨(pa, ra, ξs), by simp only [combine]⟩
  | cons p ps ih =>
    cases rs with
    | nil => exact ⟨(pa, ra, ξs), by simp only [combine]⟩
    | cons r rs =>
      cases ξs with
      | nil => simp at hξ
      | cons ξ ξs =>
        have hd : checkDegree s p = .ok () := (checkDegree_ok s p).2 (by have := hdeg p (by simp); omega)
        obtain ⟨out, hout⟩ := ih (addScaledMV pa ξ p) (addScaledMV ra ξ r) rs ξs
          (fun q hq => hdeg q (by simp [hq])) (by simpa using hξ)
        exact ⟨out, by simp only [combine, hd, hout]⟩

/-- **The prover never refuses what the key covers.**  Key well-formed over a monomial list `ts`
containing every monomial of degree `≤ s` in `nv` variables, `m` γ-powers per variable;
polynomials of degree `≤ s`, blinding polynomials with univariate terms of degree `≤ m`; enough
challenges; a point with `nv` coordinates: `open` returns a proof. -/
theorem open_ok (g γ : F) (β : List F) (ts : List Term) (nv s D m : Nat)
    (hcov : ∀ t, Covered nv s t → t ∈ ts)
    (nvp nvr : Nat) (hnvr : nvr ≤ nv) (ps rs : List (MVPoly F)) (z ξs : List F)
    (hps : ∀ p ∈ ps, polyWf p = true ∧ polyVarsBelow nv p = true ∧ degreeMV p ≤ s)
    (hrs : ∀ r ∈ rs, ∀ t ∈ termsOf r, UniCovered nv m t)
    (hξ : ps.length ≤ ξs.length) (hz : nv ≤ z.length) :
    ∃ π, PST.open (wfCK g γ β ts nv s D m) nvp nvr ps z rs ξs = .ok π := by
  obtain ⟨c, hc⟩ := combine_ok s [] [] ps rs ξs (fun p hp => (hps p hp).2.2) hξ
  have hnil : ∀ (P : Term → Prop), ∀ t ∈ termsOf ([] : MVPoly F), P t := by
    intro P t ht; simp [termsOf] at ht
  have h1 : ∀ t ∈ termsOf c.1, Covered nv s t :=
    combine_terms (Covered nv s) s [] [] ps rs ξs c hc (hnil _) (fun p hp t ht =>
      ⟨(polyWf_iff p).1 (hps p hp).1 t ht, (polyVarsBelow_iff nv p).1 (hps p hp).2.1 t ht,
        Nat.le_trans (degree_le_degreeMV p t ht) (hps p hp).2.2⟩)
  have h2 : ∀ t ∈ termsOf c.2.1, UniCovered nv m t :=
    combine_terms_r (UniCovered nv m) s [] [] ps rs ξs c hc (hnil _) hrs
  have hq1 := resizeTo_terms (Covered nv s) nv _
    (divideAtPoint_terms (Covered nv s) (covered_rem nv s) (covered_quot nv s) nvp c.1 z h1)
  have hq2 := resizeTo_terms (UniCovered nv m) nv _
    (divideAtPoint_terms (UniCovered nv m) (uniCovered_rem nv m) (uniCovered_quot nv m)
      nvr c.2.1 z h2)
  obtain ⟨w, hw⟩ := msmAll_ok (lookG (wfCK g γ β ts nv s D m).powersOfG)
    (resizeTo (wfCK g γ β ts nv s D m).numVars (divideAtPoint nvp c.1 z))
    (fun q hq t ht => ⟨g * evalTerm t β, by
      simp only [wfCK, lookG, mapGet_map_of_mem _ ts t (hcov t (hq1 q hq t ht))]⟩)
  have hwlen := msmAll_length _ _ _ hw
  rw [resizeTo_length] at hwlen
  have hc' : combine (wfCK g γ β ts nv s D m).supportedDegree [] [] ps rs ξs = .ok c := hc
  have hvb : ∀ (P : Term → Prop), (∀ t, P t → Term.varsBelow nv t = true) →
      ∀ t, P t → ∀ q ∈ t, q.1 < nv := fun P hP t ht => (varsBelow_iff nv t).1 (hP t ht)
  have hok1 : divideOk nvp c.1 z = true :=
    divideOk_of (Covered nv s) (covered_rem nv s) nv (hvb _ (fun t ht => ht.2.1)) z hz nvp c.1 h1
  have hok2 : divideOk nvr c.2.1 z = true :=
    divideOk_of (UniCovered nv m) (uniCovered_rem nv m) nv (hvb _ (fun t ht => ht.2.1)) z hz
      nvr c.2.1 h2
  unfold PST.open
  simp only [hc']
  unfold openCombined
  simp only [hok1, hok2, Bool.not_true, Bool.and_false, Bool.false_eq_true, if_false]
  unfold openCore
  simp only [hw]
  split
  · exact ⟨_, rfl⟩
  · obtain ⟨w', hw'⟩ := addHiding_ok
      (gammaBase (wfCK g γ β ts nv s D m).gammaG (wfCK g γ β ts nv s D m).powersOfGammaG) w
      (resizeTo (wfCK g γ β ts nv s D m).numVars (divideAtPoint nvr c.2.1 z))
      (by rw [resizeTo_length, hwlen])
      (fun q hq t ht => gammaBase_ok γ β nv m t (hq2 q hq t ht))
    simp only [hw']
    rw [if_neg (by omega)]
    exact ⟨_, rfl⟩

/-- **The committer never refuses what the key covers**: any polynomial of degree `≤ s` over
`nv` variables; no hiding, or a hiding bound `1 ≤ hb ≤ s` with an RNG (key with `s+1` γ-powers
per variable). -/
theorem commit_ok (g γ : F) (β : List F) (ts : List Term) (nv s D : Nat)
    (hcov : ∀ t, Covered nv s t → t ∈ ts) (p : MVPoly F)
    (hp : polyWf p = true) (hpv : polyVarsBelow nv p = true) (hd : degreeMV p ≤ s)
    (hb : Option Nat) (draws : List F)
    (hhb : ∀ b, hb = some b → 1 ≤ b ∧ b ≤ s ∧ 1 + nv * (b + 1) ≤ draws.length) :
    ∃ out, commit (wfCK g γ β ts nv s D (s + 1)) p hb true draws = .ok out := by
  have hdeg : checkDegree s p = .ok () := (checkDegree_ok s p).2 (by omega)
  obtain ⟨c, hc⟩ := msmBy_ok (lookG (wfCK g γ β ts nv s D (s + 1)).powersOfG) p (fun t ht => ⟨g * evalTerm t β, by
    simp only [wfCK, lookG, mapGet_map_of_mem _ ts t (hcov t ⟨(polyWf_iff p).1 hp t ht,
      (polyVarsBelow_iff nv p).1 hpv t ht, Nat.le_trans (degree_le_degreeMV p t ht) hd⟩)]⟩)
  unfold commit
  simp only [wfCK] at hc ⊢
  simp only [hdeg, hc]
  cases hb with
  | none => exact ⟨_, rfl⟩
  | some b =>
    obtain ⟨hb1, hb2, hb3⟩ := hhb b rfl
    simp only [Bool.not_true, Bool.false_eq_true, if_false]
    have hr : randMV (b + 1) nv draws = some (fromCoeffs (List.zip (draws.take (1 + nv * (b + 1)))
        (randTerms (b + 1) nv)), draws.drop (1 + nv * (b + 1))) := by
      unfold randMV; rw [if_neg (by omega)]
    have hchk : checkHidingBound b (s + 1) = .ok () := by
      unfold checkHidingBound; rw [if_neg (by omega), if_neg (by omega)]
    simp only [hr, hchk]
    have hterms : ∀ t ∈ termsOf (fromCoeffs (List.zip (draws.take (1 + nv * (b + 1)))
        (randTerms (b + 1) nv))), UniCovered nv (s + 1) t := by
      intro t ht
      have hm := mem_termsOf_zip _ _ t (mem_fromCoeffs_term _ t ht)
      refine ⟨(mem_randTerms _ _ t hm).1, (mem_randTerms _ _ t hm).2, ?_⟩
      simp only [randTerms, List.mem_cons, List.mem_flatMap, List.mem_range, List.mem_map] at hm
      rcases hm with rfl | ⟨v, hv, j, hj, rfl⟩
      · simp [Term.new, Term.retainNonzero, Term.degree]
      · have hw : Term.wf [(v, j + 1)] = true := by simp [Term.wf]
        rw [Term.new_of_wf hw]; simp only [Term.degree]; omega
    obtain ⟨rc, hrc⟩ := msmBy_ok (gammaBase γ ((List.range nv).map (fun i =>
      gammaRow γ (getD' β i 0) (s + 1) 1))) _ (fun t ht => gammaBase_ok γ β nv (s + 1) t (hterms t ht))
    simp only [hrc]
    exact ⟨_, rfl⟩

/-! ### trimming a well-formed universal key -/

/-- The universal parameters `setup` publishes for the trapdoor `β⃗` over the monomials `ts`. -/
def wfUP (g γ h : F) (β : List F) (ts : List Term) (nv D : Nat) : UParams F :=
  { powersOfG := ts.map (fun t => (t, g * evalTerm t β))
    gammaG := γ
    powersOfGammaG := (List.range nv).map (fun i => gammaRow γ (getD' β i 0) (D + 1) 1)
    h := h
    betaH := β.map (fun b => h * b)
    numVars := nv
    maxDegree := D }

theorem gammaRow_take (γ β : F) (k n : Nat) (cur : F) (h : k ≤ n) :
    (gammaRow γ β n cur).take k = gammaRow γ β k cur := by
  induction k generalizing n cur with
  | zero => simp [gammaRow]
  | succ k ih =>
    cases n with
    | zero => omega
    | succ n => simp only [gammaRow, List.take_succ_cons, ih n _ (by omega)]

theorem trimRows_wf (γ : F) (β : List F) (s D : Nat) (hs : s ≤ D) (l : List Nat) :
    trimRows s (l.map (fun i => gammaRow γ (getD' β i 0) (D + 1) 1))
      = .ok (l.map (fun i => gammaRow γ (getD' β i 0) (s + 1) 1)) := by
  induction l with
  | nil => rfl
  | cons a l ih =>
    simp only [List.map_cons, trimRows, gammaRow_length, ih]
    rw [if_neg (by omega), gammaRow_take _ _ _ _ _ (by omega)]

theorem trimPowers_wf (g : F) (β : List F) (ts : List Term) (s : Nat) :
    trimPowers s (ts.map (fun t => (t, g * evalTerm t β)))
      = (ts.filter (fun t => decide (Term.degree t ≤ s))).map (fun t => (t, g * evalTerm t β)) := by
  induction ts with
  | nil => rfl
  | cons a ts ih =>
    unfold trimPowers at ih ⊢
    simp only [List.map_cons, List.filter_cons]
    by_cases ha : Term.degree a ≤ s
    · simp only [ha, decide_true, if_true, List.map_cons, ih]
    · simp only [ha, decide_false, Bool.false_eq_true, if_false, ih]

/-- **Trim of a well-formed key** is the well-formed committer key over exactly the monomials of
degree `≤ s` (with `s + 1` γ-powers per variable), and the matching verifier key. -/
theorem trim_wfUP (g γ h : F) (β : List F) (ts : List Term) (nv D s : Nat) (hs : s ≤ D)
    (h0 : [] ∈ ts) :
    trim (wfUP g γ h β ts nv D) s
      = .ok (wfCK g γ β (ts.filter (fun t => decide (Term.degree t ≤ s))) nv s D (s + 1),
             wfVK g γ h β nv s D) := by
  have hnew : Term.new [] = [] := rfl
  have hgt : ¬ s > D := by omega
  unfold trim
  simp only [wfUP, hgt, if_false, trimRows_wf γ β s D hs, hnew,
    mapGet_map_of_mem (fun t => g * evalTerm t β) ts [] h0, trimPowers_wf]
  simp [wfCK, wfVK]

theorem commit_none (ck : CK F) (p : MVPoly F) (rng : Bool) (draws : List F) (c : F) (r : MVPoly F)
    (rest : List F) (h : commit ck p none rng draws = .ok (c, r, rest)) : r = [] ∧ rest = draws := by
  unfold commit at h
  split at h
  · cases h
  · split at h
    · cases h
    · simp only at h
      injection h with h; injection h with h1 h2; injection h2 with h2 h3
      exact ⟨h2.symm, h3.symm⟩

/-- **What a hiding `commit` draws.** If `commit` with hiding bound `hb` succeeds, an RNG was
given, `1 ≤ hb ≤ supported_degree`, exactly `1 + num_vars·(hb+1)` draws were taken from the caller's
stream (the rest is returned untouched), and the blinding polynomial is
`from_coefficients_vec` of those draws against the terms `1, x_v^j` (`v < num_vars`,
`1 ≤ j ≤ hb+1`) in that order. -/
theorem commit_some (ck : CK F) (p : MVPoly F) (hb : Nat) (rng : Bool) (draws : List F) (c : F)
    (r : MVPoly F) (rest : List F) (h : commit ck p (some hb) rng draws = .ok (c, r, rest)) :
    rng = true ∧ 1 ≤ hb ∧ hb ≤ ck.supportedDegree ∧ 1 + ck.numVars * (hb + 1) ≤ draws.length ∧
      r = fromCoeffs (List.zip (draws.take (1 + ck.numVars * (hb + 1))) (randTerms (hb + 1) ck.numVars)) ∧
      rest = draws.drop (1 + ck.numVars * (hb + 1)) := by
  unfold commit at h
  split at h
  · cases h
  · split at h
    · cases h
    · simp only at h
      split at h
      · cases h
      · rename_i hrng
        split at h
        · cases h
        · rename_i rr hrr
          split at h
          · cases h
          · rename_i hchk
            split at h
            · cases h
            · injection h with h; injection h with h1 h2; injection h2 with h2 h3
              unfold randMV at hrr
              split at hrr
              · cases hrr
              · rename_i hlen
                injection hrr with hrr
                unfold checkHidingBound at hchk
                split at hchk
                · cases hchk
                · split at hchk
                  · cases hchk
                  · refine ⟨by simpa using hrng, by omega, by omega, by omega, ?_, ?_⟩
                    · rw [← h2, ← hrr]
                    · rw [← h3, ← hrr]

/-- hiding bound `0` (and any bound above the supported degree) is refused, whatever else is given -/
theorem commit_hiding_refused (ck : CK F) (p : MVPoly F) (hb : Nat) (rng : Bool) (draws : List F)
    (hbad : hb = 0 ∨ ck.supportedDegree < hb) (out : F × MVPoly F × List F) :
    commit ck p (some hb) rng draws ≠ .ok out := by
  intro h
  obtain ⟨c, r, rest⟩ := out
  have := commit_some ck p hb rng draws c r rest h
  omega

theorem addScaled_nil_nil (ξ : F) : addScaledMV ([] : MVPoly F) ξ [] = [] := by
  simp [addScaledMV, addMV, scaleMV, mergeMV, removeZeros]

/-- **`random_v` is the blinding value at the point** (one polynomial): `None` exactly when the
combined blinding polynomial `ξ·r` is zero, else `Some((ξ·r)(z))`; in both cases its value is
`ξ·r(z)`. -/
theorem open_random_v (ck : CK F) (nvp nvr : Nat) (p r : MVPoly F) (z : List F) (ξ : F)
    (ξs : List F) (π : Proof F) (hr : ∀ t ∈ termsOf r, Term.wf t = true)
    (ho : PST.open ck nvp nvr [p] z [r] (ξ :: ξs) = .ok π) :
    π.rv = (if isZeroMV (addScaledMV [] ξ r) then none else some (evalMV (addScaledMV [] ξ r) z))
      ∧ rvVal π.rv = ξ * evalMV r z := by
  have heval : evalMV (addScaledMV ([] : MVPoly F) ξ r) z = ξ * evalMV r z := by
    rw [evalMV_addScaledMV _ _ _ _ (fun t ht => by simp [termsOf] at ht) hr]; simp
  unfold PST.open at ho
  simp only [combine] at ho
  split at ho
  · cases ho
  · rename_i cc hcc
    split at hcc
    · cases hcc
    · injection hcc with hcc
      subst hcc
      have ho := openCombined_core _ _ _ _ _ _ _ ho
      unfold openCore at ho
      split at ho
      · cases ho
      · simp only at ho
        split at ho
        · rename_i hz
          injection ho with ho
          subst ho
          simp only [hz, if_true, rvVal]
          exact ⟨trivial, by rw [← heval, evalMV_of_isZero _ hz]⟩
        · rename_i hz
          split at ho
          · cases ho
          · split at ho
            · cases ho
            · injection ho with ho
              subst ho
              simp only [hz, rvVal, heval]
              simp

/-- what a committer key must contain is what the trimmed specification list contains -/
theorem covered_mem_filter (nv s : Nat) (ts : List Term)
    (hts : ∀ t, Covered nv s t → t ∈ ts) :
    ∀ t, Covered nv s t → t ∈ ts.filter (fun t => decide (Term.degree t ≤ s)) := by
  intro t ht
  simp only [List.mem_filter, decide_eq_true_eq]
  exact ⟨hts t ht, ht.2.2⟩

/-! ### batch_check: the defect is the randomizer-weighted sum of the individual defects -/

/-- `Σₖ wₖ·beta_h[j+k]` -/
def dotB (bH : List F) : Nat → List F → F
  | _, [] => 0
  | j, w :: ws => w * getD' bH j 0 + dotB bH (j + 1) ws

theorem rhsSum_eq (h : F) (bH z : List F) (j : Nat) (w : List F) :
    rhsSum h bH z j w = dotB bH j w - h * wz z j w := by
  induction w generalizing j with
  | nil => simp [rhsSum, dotB, wz]
  | cons a w ih => simp only [rhsSum, dotB, wz, ih (j + 1)]; ring

theorem twSum_addW (bH : List F) (ρ : F) (j : Nat) (tw w : List F) (hlen : tw.length = w.length) :
    twSum bH j (addW ρ tw w) = twSum bH j tw - ρ * dotB bH j w := by
  induction tw generalizing j w with
  | nil =>
    cases w with
    | nil => simp [addW, twSum, dotB]
    | cons _ _ => simp at hlen
  | cons t tw ih =>
    cases w with
    | nil => simp at hlen
    | cons a w =>
      have := ih (j + 1) w (by simpa using hlen)
      simp only [addW, List.zipWith_cons_cons, twSum, dotB] at this ⊢
      rw [this]; ring

theorem twSum_replicate_zero (bH : List F) (j n : Nat) : twSum bH j (List.replicate n (0 : F)) = 0 := by
  induction n generalizing j with
  | zero => rfl
  | succ n ih => simp [List.replicate_succ, twSum, ih]

/-- the defects of the individual checks of the combined claims, with the zip-truncation of the
code -/
def defectsC (vk : VK F) : List F → List (List F) → List F → List (Proof F) → List F
  | c :: cs, z :: zs, v :: vs, π :: πs => defectCombined vk c v z π :: defectsC vk cs zs vs πs
  | _, _, _, _ => []

/-- `Σ ρₖ·dₖ` with `ρ₀ = r`, later randomizers taken from `rs` (missing ones read as 0) -/
def wsum : F → List F → List F → F
  | r, rs, d :: ds => r * d + wsum (rs.headD 0) rs.tail ds
  | _, _, [] => 0

/-- the pairing product `batch_check` evaluates on its accumulators -/
def accVal (vk : VK F) (a : F × List F × F × F) : F :=
  twSum vk.betaH 0 a.2.1 + (a.1 - vk.g * a.2.2.1 - vk.gammaG * a.2.2.2) * vk.h

theorem batchAcc_spec (vk : VK F) (nv : Nat) (cs : List F) (zs : List (List F)) (vs : List F)
    (πs : List (Proof F)) (rs : List F) (ρ : F) (acc : F × List F × F × F)
    (hacc : acc.2.1.length = nv) (hπ : ∀ π ∈ πs, π.w.length = nv) (hz : ∀ z ∈ zs, nv ≤ z.length) :
    ∃ acc', batchAcc nv cs zs vs πs rs ρ acc = .ok acc' ∧
      accVal vk acc' = accVal vk acc + wsum ρ rs (defectsC vk cs zs vs πs) := by
  induction cs generalizing zs vs πs rs ρ acc with
  | nil => exact ⟨acc, by simp [batchAcc], by simp [defectsC, wsum]⟩
  | cons c cs ih =>
    cases zs with
    | nil => exact ⟨acc, by simp [batchAcc], by simp [defectsC, wsum]⟩
    | cons z zs =>
      cases vs with
      | nil => exact ⟨acc, by simp [batchAcc], by simp [defectsC, wsum]⟩
      | cons v vs =>
        cases πs with
        | nil => exact ⟨acc, by simp [batchAcc], by simp [defectsC, wsum]⟩
        | cons π πs =>
          obtain ⟨tc, tw, gm, ggm⟩ := acc
          simp only at hacc
          have hw : π.w.length = nv := hπ π (by simp)
          have hzl : nv ≤ z.length := hz z (by simp)
          have hcond : ¬ (π.w.length < nv ∨ π.w.length > z.length) := by omega
          obtain ⟨acc', h1, h2⟩ := ih zs vs πs rs.tail (rs.headD 0)
            (tc + (wz z 0 π.w + c) * ρ, addW ρ tw π.w, gm + ρ * v, ggm + ρ * rvVal π.rv)
            (by simp only [addW, List.length_zipWith, hacc, hw]; omega)
            (fun p hp => hπ p (by simp [hp])) (fun y hy => hz y (by simp [hy]))
          refine ⟨acc', by simp only [batchAcc, if_neg hcond, h1], ?_⟩
          rw [h2]
          simp only [accVal, defectsC, wsum, defectCombined, rhsSum_eq,
            twSum_addW vk.betaH ρ 0 tw π.w (by rw [hacc, hw])]
          ring

/-- **C05 (PST13).** Whenever `batch_check` does not abort (one proof per point, every proof with
one witness per key variable, points and key long enough), its pairing product is `Σₖ ρₖ·Δₖ`:
`ρ₀ = 1`, `ρₖ` the verifier's randomizers, `Δₖ` the defect of the individual check of claim `k`. -/
theorem batchDefect_eq (vk : VK F) (cs : List F) (zs : List (List F)) (vs : List F)
    (πs : List (Proof F)) (rs : List F) (hlen : πs.length = zs.length)
    (hbh : vk.numVars ≤ vk.betaH.length) (hπ : ∀ π ∈ πs, π.w.length = vk.numVars)
    (hz : ∀ z ∈ zs, vk.numVars ≤ z.length) :
    batchDefect vk cs zs vs πs rs = .ok (wsum 1 rs (defectsC vk cs zs vs πs)) := by
  obtain ⟨acc', h1, h2⟩ := batchAcc_spec vk vk.numVars cs zs vs πs rs 1
    (0, List.replicate vk.numVars 0, 0, 0) (by simp) hπ hz
  have hany : πs.any (fun π => decide (π.w.length ≠ vk.numVars)) = false := by
    rw [List.any_eq_false]
    intro π hπ'
    simp [hπ π hπ']
  unfold batchDefect
  rw [if_neg (by omega), hany]
  simp only [Bool.false_eq_true, if_false]
  rw [if_neg (by omega), h1]
  obtain ⟨tc, tw, gm, ggm⟩ := acc'
  simp only [accVal, twSum_replicate_zero] at h2
  simp only
  rw [h2]; congr 1; ring

theorem wsum_zero (r : F) (rs ds : List F) (h : ∀ d ∈ ds, d = 0) : wsum r rs ds = 0 := by
  induction ds generalizing r rs with
  | nil => rfl
  | cons d ds ih =>
    simp only [wsum]
    rw [h d (by simp), ih _ _ (fun x hx => h x (by simp [hx]))]; ring

theorem getD'_headD_tail (rs : List F) (k : Nat) :
    getD' (rs.headD 0 :: rs.tail) k 0 = getD' rs k 0 := by
  cases rs with
  | nil => cases k <;> simp [getD']
  | cons a t => rfl

/-- one non-zero defect at position `|pre|`: the weighted sum is that defect times its randomizer -/
theorem wsum_single (r : F) (rs pre post : List F) (d : F) (hpre : ∀ x ∈ pre, x = 0)
    (hpost : ∀ x ∈ post, x = 0) :
    wsum r rs (pre ++ d :: post) = getD' (r :: rs) pre.length 0 * d := by
  induction pre generalizing r rs with
  | nil =>
    simp only [List.nil_append, wsum, wsum_zero _ _ post hpost, List.length_nil]
    simp [getD']
  | cons a pre ih =>
    have ha : a = 0 := hpre a (by simp)
    simp only [List.cons_append, wsum, ha, List.length_cons]
    rw [ih _ _ (fun x hx => hpre x (by simp [hx]))]
    have : getD' (r :: rs) (pre.length + 1) 0 = getD' rs pre.length 0 := by simp [getD']
    rw [this]
    have h2 : getD' (rs.headD 0 :: rs.tail) pre.length 0 = getD' rs pre.length 0 :=
      getD'_headD_tail rs pre.length
    rw [h2]; ring

end Keys

end PST
end PCV
