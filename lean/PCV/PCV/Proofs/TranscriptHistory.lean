/-
  PCV.Proofs.TranscriptHistory — histories of operations on ONE sponge for the schemes that use the
  trait defaults of `lib.rs` (Hyrax, Ligero, Brakedown): a history is a list of `open`,
  default `batch_open` and default `open_combinations` calls by a prover whose `&mut` state (sponge,
  RNG) is threaded through them, and the corresponding `check`, `batch_check`, `check_combinations`
  calls by a verifier on its own state.  Generic in the scheme's `open` / `check` (`openF`, `checkF`)
  like `Model/TraitDefault.lean`; the lock-step theorem lifts a per-call completeness-with-state
  hypothesis (`hcomplete`, proved per scheme on its transcript model) to every history by induction.
-/
import PCV.Proofs.TraitDefaultComplete

set_option linter.unusedSectionVars false
set_option linter.unusedVariables false

namespace PCV
namespace TrHistory
open TraitDefault
open QS (StrictTotal)

variable {Pt : Type} [DecidableEq Pt] {F : Type} {LP S C PF σp σv : Type}

/-- one prover operation: `open` on explicit triples at a point; default `batch_open` on a query
list; default `open_combinations` on equations and a query list (both over the committed lists) -/
inductive Op (Pt F LP S C : Type)
  | single (ts : List ((LP × S) × C)) (z : Pt)
  | batch (qs : List (Query Pt))
  | combo (lcs : List (LC.LinComb F)) (qs : List (Query Pt))
  deriving DecidableEq, Repr

/-- what an operation returns: `Proof`, `BatchProof`, `BatchLCProof` -/
inductive OpProof (F PF : Type)
  | single (π : PF)
  | batch (πs : List PF)
  | combo (πs : List PF) (evals : Option (List F))
  deriving DecidableEq, Repr

/-- one verifier operation with its claims: `check` (commitments, point, values), `batch_check`
(queries, evaluations), `check_combinations` (equations, queries, claimed equation values) -/
inductive VOp (Pt F C : Type)
  | single (cs : List C) (z : Pt) (vs : List F)
  | batch (qs : List (Query Pt)) (evals : List ((Label × Pt) × F))
  | combo (lcs : List (LC.LinComb F)) (qs : List (Query Pt)) (ee : List ((Label × Pt) × F))
  deriving DecidableEq, Repr

section Prover
variable (ltP : Pt → Pt → Bool) (lblP : LP → Label) (evalP : LP → Pt → F)
  (openF : List ((LP × S) × C) → Pt → σp → Except Err (PF × σp))
  (polys : List LP) (sts : List S) (comms : List C)

/-- one operation of the prover -/
def proverStep : Op Pt F LP S C → σp → Except Err (OpProof F PF × σp)
  | .single ts z, s =>
    match openF ts z s with
    | .error e => .error e
    | .ok (π, s') => .ok (.single π, s')
  | .batch qs, s =>
    match batchOpen ltP lblP openF polys sts comms qs s with
    | .error e => .error e
    | .ok (πs, s') => .ok (.batch πs, s')
  | .combo lcs qs, s =>
    match openCombinations ltP lblP evalP openF lcs polys sts comms qs s with
    | .error e => .error e
    | .ok ((πs, ev), s') => .ok (.combo πs ev, s')

/-- the prover's history: operations in order on one state; the first refusal ends it -/
def proverRun : List (Op Pt F LP S C) → σp → Except Err (List (OpProof F PF) × σp)
  | [], s => .ok ([], s)
  | op :: ops, s =>
    match proverStep ltP lblP evalP openF polys sts comms op s with
    | .error e => .error e
    | .ok (π, s1) =>
      match proverRun ops s1 with
      | .error e => .error e
      | .ok (πs, s2) => .ok (π :: πs, s2)

end Prover

section Verifier
variable [Add F] [Mul F] [Zero F] [One F] [DecidableEq F]
variable (ltP : Pt → Pt → Bool) (lblC : C → Label)
  (checkF : List C → Pt → List F → PF → σv → Except Err (Bool × σv)) (vcomms : List C)

/-- one operation of the verifier (a proof of another operation's type does not type-check in
Rust; the model refuses it) -/
def verifierStep : VOp Pt F C → OpProof F PF → σv → Except Err (Bool × σv)
  | .single cs z vs, .single π, s => checkF cs z vs π s
  | .batch qs evals, .batch πs, s => batchCheck ltP lblC checkF vcomms qs evals πs s
  | .combo lcs qs ee, .combo πs ev, s => checkCombinations ltP lblC checkF lcs vcomms qs ee πs ev s
  | _, _, _ => .error .abort

/-- the verifier's history: the checks in order on one state; the answer is the conjunction of the
verdicts, a refusal ends the run -/
def verifierRun : List (VOp Pt F C) → List (OpProof F PF) → σv → Except Err (Bool × σv)
  | v :: vs, π :: πs, s =>
    match verifierStep ltP lblC checkF vcomms v π s with
    | .error e => .error e
    | .ok (b, s1) =>
      match verifierRun vs πs s1 with
      | .error e => .error e
      | .ok (b', s2) => .ok (b && b', s2)
  | _, _, s => .ok (true, s)

end Verifier

section Lockstep
variable [Field F] [DecidableEq F]
variable (ltP : Pt → Pt → Bool) (lblP : LP → Label) (lblC : C → Label) (evalP : LP → Pt → F)
  (Good : List ((LP × S) × C) → Prop) (polys : List LP) (sts : List S) (comms vcomms : List C)

/-- The verifier's operation makes the TRUE claims about the prover's operation: the same triples'
commitments / point / true values; the same queries with evaluations that hold the true value for
every queried (label, point); the same equations and queries with the true equation values. -/
def Truthful : Op Pt F LP S C → VOp Pt F C → Prop
  | .single ts z, .single cs z' vs =>
    Good ts ∧ cs = ts.map (·.2) ∧ z' = z ∧ vs = ts.map (fun t => evalP t.1.1 z)
  | .batch qs, .batch qs' evals =>
    qs' = qs ∧ ∀ g ∈ groups (querySet ltP qs), ∀ l ∈ g.2.2, ∀ t,
      Marlin.lookupLast (fun (t : (LP × S) × C) => lblP t.1.1) l (polyStComm polys sts comms) = some t →
      QS.lastWith (l, g.2.1) evals = some (evalP t.1.1 g.2.1)
  | .combo lcs qs, .combo lcs' qs' ee =>
    lcs' = lcs ∧ qs' = qs ∧ ConsistentPoints qs ∧ (∀ q ∈ qs, (lcGet lcs q.1).isSome = true) ∧
      ∀ q ∈ qs, ∀ lc, lcGet lcs q.1 = some lc →
        QS.lastWith (q.1, q.2.2) ee = some (LC.termsValue (trueEval lblP evalP polys q.2.2) lc.terms)
  | _, _ => False

/-- **Lock-step over any history.**  Let the scheme's `open`/`check` pair keep a relation `R`
between prover and verifier state while accepting, on honest triples (`hcomplete`); let every
committed triple be honest and the verifier hold the prover's commitments (`hgood`, `hcm`, `htrip`).
Then for EVERY list of operations with true claims: if the prover answers them all from a state
related to the verifier's, the verifier accepts every proof and the final states are related. -/
theorem history_lockstep (hlt : StrictTotal ltP) (hirr : ∀ a, ltP a a = false)
    (openF : List ((LP × S) × C) → Pt → σp → Except Err (PF × σp))
    (checkF : List C → Pt → List F → PF → σv → Except Err (Bool × σv))
    (R : σp → σv → Prop)
    (hcomplete : ∀ ts z π sp sp' sv, Good ts → R sp sv → openF ts z sp = .ok (π, sp') →
      ∃ sv', checkF (ts.map (·.2)) z (ts.map fun t => evalP t.1.1 z) π sv = .ok (true, sv') ∧ R sp' sv')
    (htrip : ∀ l t, Marlin.lookupLast (fun (t : (LP × S) × C) => lblP t.1.1) l
        (polyStComm polys sts comms) = some t → Marlin.lookupLast lblP l polys = some t.1.1)
    (hgood : ∀ ls ts, gatherOpen lblP (polyStComm polys sts comms) ls = .ok ts → Good ts)
    (hcm : ∀ l t, Marlin.lookupLast (fun (t : (LP × S) × C) => lblP t.1.1) l
        (polyStComm polys sts comms) = some t → Marlin.lookupLast lblC l vcomms = some t.2)
    (ops : List (Op Pt F LP S C)) (vops : List (VOp Pt F C))
    (ht : List.Forall₂ (Truthful ltP lblP evalP Good polys sts comms) ops vops) :
    ∀ (sp : σp) (sv : σv) (πs : List (OpProof F PF)) (sp' : σp), R sp sv →
      proverRun ltP lblP evalP openF polys sts comms ops sp = .ok (πs, sp') →
      ∃ sv', verifierRun ltP lblC checkF vcomms vops πs sv = .ok (true, sv') ∧ R sp' sv' := by
  induction ht with
  | nil =>
    intro sp sv πs sp' h0 hp
    simp only [proverRun, Except.ok.injEq, Prod.mk.injEq] at hp
    obtain ⟨rfl, rfl⟩ := hp
    exact ⟨sv, rfl, h0⟩
  | @cons op vop ops vops h1 _ ih =>
    intro sp sv πs sp' h0 hp
    simp only [proverRun] at hp
    cases hs : proverStep ltP lblP evalP openF polys sts comms op sp with
    | error e => rw [hs] at hp; cases hp
    | ok r =>
      obtain ⟨π, sp1⟩ := r
      rw [hs] at hp
      simp only at hp
      cases hr : proverRun ltP lblP evalP openF polys sts comms ops sp1 with
      | error e => rw [hr] at hp; cases hp
      | ok r2 =>
        obtain ⟨πs', sp2⟩ := r2
        rw [hr] at hp
        simp only [Except.ok.injEq, Prod.mk.injEq] at hp
        obtain ⟨rfl, rfl⟩ := hp
        -- the step
        have step : ∃ sv1, verifierStep ltP lblC checkF vcomms vop π sv = .ok (true, sv1) ∧ R sp1 sv1 := by
          cases op with
          | single ts z =>
            cases vop with
            | single cs z' vs =>
              obtain ⟨hg, hcs, hz, hvs⟩ := h1
              rw [hcs, hz, hvs]
              simp only [proverStep] at hs
              cases ho : openF ts z sp with
              | error e => rw [ho] at hs; cases hs
              | ok r3 =>
                obtain ⟨π0, s0⟩ := r3
                rw [ho] at hs
                simp only [Except.ok.injEq, Prod.mk.injEq] at hs
                obtain ⟨rfl, rfl⟩ := hs
                exact hcomplete ts z π0 sp s0 sv hg h0 ho
            | batch _ _ => exact absurd h1 (by simp [Truthful])
            | combo _ _ _ => exact absurd h1 (by simp [Truthful])
          | batch qs =>
            cases vop with
            | single _ _ _ => exact absurd h1 (by simp [Truthful])
            | combo _ _ _ => exact absurd h1 (by simp [Truthful])
            | batch qs' evals =>
              obtain ⟨rfl, hev⟩ := h1
              simp only [proverStep] at hs
              cases ho : batchOpen ltP lblP openF polys sts comms qs' sp with
              | error e => rw [ho] at hs; cases hs
              | ok r3 =>
                obtain ⟨πs0, s0⟩ := r3
                rw [ho] at hs
                simp only [Except.ok.injEq, Prod.mk.injEq] at hs
                obtain ⟨rfl, rfl⟩ := hs
                simp only [verifierStep]
                unfold batchOpen batchOpenSet at ho
                unfold batchCheck batchCheckSet
                rw [if_neg (by
                  have := batchOpenLoop_length lblP openF _ _ sp πs0 s0 ho
                  simpa using this)]
                exact loops_complete lblP lblC evalP openF checkF R Good hcomplete _ vcomms evals _
                  (fun g _ ts h => hgood g.2.2 ts h) (fun g _ l _ t h => hcm l t h) hev
                  sp sv πs0 s0 h0 ho
          | combo lcs qs =>
            cases vop with
            | single _ _ _ => exact absurd h1 (by simp [Truthful])
            | batch _ _ => exact absurd h1 (by simp [Truthful])
            | combo lcs' qs' ee =>
              obtain ⟨rfl, rfl, hpts, hsup, hcl⟩ := h1
              simp only [proverStep] at hs
              cases ho : openCombinations ltP lblP evalP openF lcs' polys sts comms qs' sp with
              | error e => rw [ho] at hs; cases hs
              | ok r3 =>
                obtain ⟨⟨πs0, ev0⟩, s0⟩ := r3
                rw [ho] at hs
                simp only [Except.ok.injEq, Prod.mk.injEq] at hs
                obtain ⟨rfl, rfl⟩ := hs
                simp only [verifierStep]
                exact combinations_complete ltP hlt hirr lblP lblC evalP openF checkF R Good hcomplete
                  lcs' polys sts comms vcomms qs' ee hpts hsup hcl htrip hgood hcm sp sv πs0 ev0 s0 h0 ho
        obtain ⟨sv1, hv, hR⟩ := step
        obtain ⟨sv2, hv2, hR2⟩ := ih sp1 sv1 πs' sp2 hR hr
        refine ⟨sv2, ?_, hR2⟩
        simp only [verifierRun, hv, hv2, Bool.and_self]

end Lockstep

/-! ### the side conditions, from plain facts about the committed lists -/

section Side
variable (lblP : LP → Label)

/-- `gatherOpen` returns triples of the list it looks in -/
theorem gatherOpen_mem (trips : List ((LP × S) × C)) (ls : List Label) (ts : List ((LP × S) × C))
    (h : gatherOpen lblP trips ls = .ok ts) : ∀ t ∈ ts, t ∈ trips := by
  induction ls generalizing ts with
  | nil =>
    simp only [gatherOpen, Except.ok.injEq] at h
    subst h; simp
  | cons l ls ih =>
    simp only [gatherOpen] at h
    cases hc : Marlin.lookupLast (fun (t : (LP × S) × C) => lblP t.1.1) l trips with
    | none => rw [hc] at h; cases h
    | some t =>
      rw [hc] at h
      simp only at h
      cases hr : gatherOpen lblP trips ls with
      | error e => rw [hr] at h; cases h
      | ok ts' =>
        rw [hr] at h
        simp only [Except.ok.injEq] at h
        subst h
        intro x hx
        rcases List.mem_cons.1 hx with rfl | hx
        · exact (lookupLast_some_mem _ l trips _ hc).1
        · exact ih ts' hr x hx

/-- with three lists of one length the triple found under a label holds the polynomial found under it -/
theorem htrip_of_length (polys : List LP) (sts : List S) (comms : List C)
    (h1 : sts.length = polys.length) (h2 : comms.length = polys.length) :
    ∀ l t, Marlin.lookupLast (fun (t : (LP × S) × C) => lblP t.1.1) l
        (polyStComm polys sts comms) = some t → Marlin.lookupLast lblP l polys = some t.1.1 := by
  induction polys generalizing sts comms with
  | nil => intro l t h; simp [polyStComm, lookupLast_nil] at h
  | cons p ps ih =>
    cases sts with
    | nil => simp at h1
    | cons s ss =>
      cases comms with
      | nil => simp at h2
      | cons c cs =>
        intro l t h
        have e : polyStComm (p :: ps) (s :: ss) (c :: cs) = ((p, s), c) :: polyStComm ps ss cs := rfl
        rw [e, lookupLast_cons] at h
        rw [lookupLast_cons]
        cases hr : Marlin.lookupLast (fun (t : (LP × S) × C) => lblP t.1.1) l (polyStComm ps ss cs) with
        | some t' =>
          rw [hr] at h
          simp only [Option.some.injEq] at h
          subst h
          rw [ih ss cs (by simpa using h1) (by simpa using h2) l t' hr]
        | none =>
          rw [hr] at h
          have hn : Marlin.lookupLast lblP l ps = none := by
            rw [lookupLast_eq_none_iff] at hr ⊢
            intro x hx
            obtain ⟨i, hi, rfl⟩ := List.getElem_of_mem hx
            have hi1 : i < ss.length := by simp at h1; omega
            have hi2 : i < cs.length := by simp at h2; omega
            have := hr ((ps[i], ss[i]), cs[i]) (by
              unfold polyStComm
              rw [List.mem_iff_getElem]
              exact ⟨i, by simp; omega, by simp⟩)
            simpa using this
          rw [hn]
          by_cases hp : lblP p = l
          · simp only [hp, if_true, Option.some.injEq] at h ⊢
            subst h; rfl
          · simp [hp] at h

end Side

end TrHistory
end PCV
