/-
  PCV.Proofs.PST13LCGeneral — MarlinPST13 `check_combinations` on ANY list of combinations and ANY
  query list: the closed form of the pairing product (the randomizer-weighted sum over point-label
  groups of per-point defects, every position of a group entering with its own opening challenge),
  and how the product moves when a claimed value, a constant or a coefficient is changed.
-/
import PCV.Proofs.PST13LC
set_option linter.unusedSectionVars false
set_option linter.unusedVariables false

namespace PCV
namespace PST
open MV
variable {F : Type} [Field F] [DecidableEq F]

/-! ### last-write-wins lookups -/

theorem foldl_lookup_indep {α : Type} (lbl : α → Label) (l : Label) (xs : List α)
    (h : l ∈ xs.map lbl) (acc acc' : Option α) :
    xs.foldl (fun acc x => if lbl x = l then some x else acc) acc
      = xs.foldl (fun acc x => if lbl x = l then some x else acc) acc' := by
  induction xs generalizing acc acc' with
  | nil => cases h
  | cons y ys ih =>
    simp only [List.foldl_cons]
    by_cases hy : lbl y = l
    · simp only [hy, if_true]
    · simp only [hy, if_false]
      simp only [List.map_cons, List.mem_cons] at h
      rcases h with h | h
      · exact absurd h.symm hy
      · exact ih h acc acc'

theorem foldl_lookup_skip {α : Type} (lbl : α → Label) (l : Label) (xs : List α)
    (h : l ∉ xs.map lbl) (acc : Option α) :
    xs.foldl (fun acc x => if lbl x = l then some x else acc) acc = acc := by
  induction xs generalizing acc with
  | nil => rfl
  | cons y ys ih =>
    simp only [List.map_cons, List.mem_cons, not_or] at h
    simp only [List.foldl_cons]
    rw [if_neg (fun hx => h.1 hx.symm)]
    exact ih h.2 acc

theorem foldl_lookup_some {α : Type} (lbl : α → Label) (l : Label) (xs : List α) (acc : Option α)
    (h : l ∈ xs.map lbl ∨ acc.isSome = true) :
    (xs.foldl (fun acc x => if lbl x = l then some x else acc) acc).isSome = true := by
  induction xs generalizing acc with
  | nil =>
    rcases h with h | h
    · cases h
    · exact h
  | cons y ys ih =>
    simp only [List.foldl_cons]
    apply ih
    by_cases hy : lbl y = l
    · right; simp [hy]
    · simp only [hy, if_false]
      rcases h with h | h
      · simp only [List.map_cons, List.mem_cons] at h
        rcases h with h | h
        · exact absurd h.symm hy
        · exact Or.inl h
      · exact Or.inr h

/-- a label that occurs is found -/
theorem lookupLast_some_of_mem {α : Type} (lbl : α → Label) (l : Label) (xs : List α)
    (h : l ∈ xs.map lbl) : ∃ x, Marlin.lookupLast lbl l xs = some x := by
  have := foldl_lookup_some lbl l xs none (Or.inl h)
  unfold Marlin.lookupLast
  cases hx : xs.foldl (fun acc x => if lbl x = l then some x else acc) none with
  | none => rw [hx] at this; cases this
  | some x => exact ⟨x, rfl⟩

/-! ### the commitments the verifier forms for the combinations -/

/-- the labelled commitment `check_combinations` forms for one combination (unbounded inputs) -/
def lcCommOf (comms : List (LComm F)) (lc : LC.LinComb F) : LComm F :=
  ⟨lc.label, ⟨lcCommValue comms lc.terms, none⟩, none⟩

theorem combineAllComm_closed (comms : List (LComm F))
    (hcb : ∀ c ∈ comms, c.bound = none ∧ c.comm.shifted = none) (lcs : List (LC.LinComb F))
    (hk : ∀ lc ∈ lcs, AllKnown comms lc.terms) :
    combineAllComm comms lcs = .ok (lcs.map (lcCommOf comms)) := by
  induction lcs with
  | nil => rfl
  | cons lc lcs ih =>
    simp only [combineAllComm, combineLCComm, lcTermsV_closed comms hcb _ lc.terms (hk lc (by simp)),
      zero_add, ih (fun x hx => hk x (by simp [hx])), List.map_cons, lcCommOf]

/-- **the commitment used for the label `l`**: `Σ coeff·C_label` of the LAST combination labelled
`l` (`lc_commitments` is turned into a `BTreeMap` by label inside `batch_check`); `0` if none -/
def lcCommAt (comms : List (LComm F)) (lcs : List (LC.LinComb F)) (l : Label) : F :=
  match Marlin.lookupLast (fun (lc : LC.LinComb F) => lc.label) l lcs with
  | none => 0
  | some lc => lcCommValue comms lc.terms

/-- **the value used for the label `l` at the point `z`**: the claimed value minus the constants of
EVERY combination labelled `l` (`0` for a missing evaluation) -/
def lcClaimAt (lcs : List (LC.LinComb F)) (evals : Evals F) (l : Label) (z : List F) : F :=
  (lookupEval evals l z).getD 0 - constFor lcs l

/-- `Σⱼ f(lⱼ)·ξⱼ` over the positions of one group (zip-truncating) -/
def posSum (f : Label → F) : List Label → List F → F
  | l :: ls, ξ :: ξs => f l * ξ + posSum f ls ξs
  | _, _ => 0

/-- the combined commitment of one point-label group: `Σⱼ C(lⱼ)·ξⱼ` -/
def groupC (comms : List (LComm F)) (lcs : List (LC.LinComb F)) (ls : List Label) (ξs : List F) : F :=
  posSum (lcCommAt comms lcs) ls ξs

/-- the combined value of one point-label group: `Σⱼ (vⱼ − constants(lⱼ))·ξⱼ` -/
def groupV (lcs : List (LC.LinComb F)) (evals : Evals F) (z : List F) (ls : List Label)
    (ξs : List F) : F :=
  posSum (fun l => lcClaimAt lcs evals l z) ls ξs

/-- the number of opening challenges the groups consume: one per (point label, combination) -/
def numPositions : List (Group F) → Nat
  | [] => 0
  | g :: gs => g.2.2.length + numPositions gs

/-- per point-label group `(combined commitment, point, combined value)`; group `k` reads the
challenges after those of the groups before it -/
def groupTriples (comms : List (LComm F)) (lcs : List (LC.LinComb F)) (evals : Evals F) :
    List (Group F) → List F → List (F × List F × F)
  | [], _ => []
  | g :: gs, ξs =>
    (groupC comms lcs g.2.2 ξs, g.2.1, groupV lcs evals g.2.1 g.2.2 ξs)
      :: groupTriples comms lcs evals gs (ξs.drop g.2.2.length)

/-- **the per-point defects**: for the `k`-th point-label group `(z, [l₁ … lₘ])`, its proof `π` and
its challenges `ξ₁ … ξₘ`:
`((Σⱼ C(lⱼ)·ξⱼ − g·Σⱼ (vⱼ − constants(lⱼ))·ξⱼ − γ·rv)·h − Σᵢ Wᵢ·(βᵢh − zᵢ·h)` -/
def lcGroupDefects (vk : VK F) (comms : List (LComm F)) (lcs : List (LC.LinComb F)) (evals : Evals F) :
    List (Group F) → List (Proof F) → List F → List F
  | g :: gs, π :: πs, ξs =>
    defectCombined vk (groupC comms lcs g.2.2 ξs) (groupV lcs evals g.2.1 g.2.2 ξs) g.2.1 π
      :: lcGroupDefects vk comms lcs evals gs πs (ξs.drop g.2.2.length)
  | _, _, _ => []

theorem lookupLast_lcCommOf (comms : List (LComm F)) (lcs : List (LC.LinComb F)) (l : Label) :
    Marlin.lookupLast (fun (c : LComm F) => c.label) l (lcs.map (lcCommOf comms))
      = (Marlin.lookupLast (fun (lc : LC.LinComb F) => lc.label) l lcs).map (lcCommOf comms) :=
  lookupLast_map (fun (lc : LC.LinComb F) => lc.label) (fun (c : LComm F) => c.label)
    (lcCommOf comms) l lcs (fun _ _ => rfl)

/-- one group: the verifier gathers, label by label, the commitment of the last combination with
that label and the claimed value minus the constants -/
theorem gatherComms_lc (comms : List (LComm F)) (lcs : List (LC.LinComb F)) (evals : Evals F)
    (z : List F) (ls : List Label) (hq : ∀ l ∈ ls, l ∈ lcs.map (·.label))
    (hev : ∀ l ∈ ls, (lookupEval evals l z).isSome = true) :
    ∃ cs, gatherComms (lcs.map (lcCommOf comms)) (adjustEvals lcs evals) z ls
        = .ok (cs, ls.map (fun l => lcClaimAt lcs evals l z))
      ∧ cs.map (·.comm.comm) = ls.map (lcCommAt comms lcs)
      ∧ ∀ c ∈ cs, c.bound = none ∧ c.comm.shifted = none := by
  induction ls with
  | nil => exact ⟨[], rfl, rfl, by intro c hc; cases hc⟩
  | cons l ls ih =>
    obtain ⟨cs, h1, h2, h3⟩ := ih (fun x hx => hq x (by simp [hx])) (fun x hx => hev x (by simp [hx]))
    obtain ⟨lc, hlc⟩ := lookupLast_some_of_mem (fun (lc : LC.LinComb F) => lc.label) l lcs
      (hq l (by simp))
    have hv := hev l (by simp)
    cases hlk : lookupEval evals l z with
    | none => rw [hlk] at hv; cases hv
    | some v =>
      refine ⟨lcCommOf comms lc :: cs, ?_, ?_, ?_⟩
      · simp only [gatherComms, lookupLast_lcCommOf, hlc, Option.map_some, lcCommOf,
          Option.isSome_none, ne_eq, not_true_eq_false, if_false, lookupEval_adjustEvals, hlk, h1,
          List.map_cons, lcClaimAt, Option.getD_some]
      · simp only [List.map_cons, h2, lcCommOf, lcCommAt, hlc]
      · intro c hc
        rcases List.mem_cons.1 hc with rfl | hc
        · exact ⟨rfl, rfl⟩
        · exact h3 c hc

theorem accumulate_posSum (f g : Label → F) (ls : List Label) (ξs : List F) (ca va : F)
    (h : ls.length ≤ ξs.length) :
    accumulate ca va (ls.map f) (ls.map g) ξs
      = .ok (ca + posSum f ls ξs, va + posSum g ls ξs, ξs.drop ls.length) := by
  induction ls generalizing ca va ξs with
  | nil => simp [accumulate, posSum]
  | cons l ls ih =>
    cases ξs with
    | nil => simp at h
    | cons ξ ξs =>
      simp only [List.map_cons, accumulate, posSum, List.length_cons, List.drop_succ_cons]
      rw [ih ξs _ _ (by simpa using h)]
      simp only [Except.ok.injEq, Prod.mk.injEq, and_true]
      constructor <;> ring

/-- **`combine_and_normalize` on combination commitments, in closed form** -/
theorem combineAndNormalize_lc (comms : List (LComm F)) (lcs : List (LC.LinComb F)) (evals : Evals F)
    (groups : List (Group F)) (ξs : List F)
    (hq : ∀ gr ∈ groups, ∀ l ∈ gr.2.2, l ∈ lcs.map (·.label))
    (hev : ∀ gr ∈ groups, ∀ l ∈ gr.2.2, (lookupEval evals l gr.2.1).isSome = true)
    (hξ : numPositions groups ≤ ξs.length) :
    combineAndNormalize (lcs.map (lcCommOf comms)) (adjustEvals lcs evals) groups ξs
      = .ok (groupTriples comms lcs evals groups ξs, ξs.drop (numPositions groups)) := by
  induction groups generalizing ξs with
  | nil => simp [combineAndNormalize, groupTriples, numPositions]
  | cons g gs ih =>
    simp only [numPositions] at hξ
    obtain ⟨cs, h1, h2, h3⟩ := gatherComms_lc comms lcs evals g.2.1 g.2.2 (hq g (by simp))
      (hev g (by simp))
    have hacc : accumulateL 0 0 cs (g.2.2.map (fun l => lcClaimAt lcs evals l g.2.1)) ξs
        = .ok (groupC comms lcs g.2.2 ξs, groupV lcs evals g.2.1 g.2.2 ξs, ξs.drop g.2.2.length) := by
      rw [accumulateL_eq _ _ _ _ _ h3, h2, accumulate_posSum _ _ _ _ _ _ (by omega)]
      simp only [zero_add, groupC, groupV]
    have hrest := ih (ξs.drop g.2.2.length) (fun gr hgr => hq gr (by simp [hgr]))
      (fun gr hgr => hev gr (by simp [hgr])) (by rw [List.length_drop]; omega)
    simp only [combineAndNormalize, h1, hacc, hrest, groupTriples, numPositions, List.drop_drop]

theorem groupTriples_points (comms : List (LComm F)) (lcs : List (LC.LinComb F)) (evals : Evals F)
    (groups : List (Group F)) (ξs : List F) :
    (groupTriples comms lcs evals groups ξs).map (·.2.1) = groups.map (·.2.1) := by
  induction groups generalizing ξs with
  | nil => rfl
  | cons g gs ih => simp only [groupTriples, List.map_cons, ih]

theorem defectsC_groupTriples (vk : VK F) (comms : List (LComm F)) (lcs : List (LC.LinComb F))
    (evals : Evals F) (groups : List (Group F)) (πs : List (Proof F)) (ξs : List F) :
    defectsC vk ((groupTriples comms lcs evals groups ξs).map (·.1))
        ((groupTriples comms lcs evals groups ξs).map (·.2.1))
        ((groupTriples comms lcs evals groups ξs).map (·.2.2)) πs
      = lcGroupDefects vk comms lcs evals groups πs ξs := by
  induction groups generalizing πs ξs with
  | nil => simp [groupTriples, defectsC, lcGroupDefects]
  | cons g gs ih =>
    cases πs with
    | nil => simp [groupTriples, defectsC, lcGroupDefects]
    | cons π πs => simp only [groupTriples, List.map_cons, defectsC, lcGroupDefects, ih]

theorem lcGroupDefects_length (vk : VK F) (comms : List (LComm F)) (lcs : List (LC.LinComb F))
    (evals : Evals F) (groups : List (Group F)) (πs : List (Proof F)) (ξs : List F)
    (h : πs.length = groups.length) :
    (lcGroupDefects vk comms lcs evals groups πs ξs).length = groups.length := by
  induction groups generalizing πs ξs with
  | nil => cases πs <;> simp [lcGroupDefects]
  | cons g gs ih =>
    cases πs with
    | nil => simp at h
    | cons π πs =>
      simp only [lcGroupDefects, List.length_cons, ih πs _ (by simpa using h)]

/-! ### when `check_combinations` does not refuse -/

/-- **No refusal.**  What `check_combinations` needs in order to reach its pairing check, one field
per refusal of the code:
* `unbounded` — no supplied commitment declares a degree bound (else the degree-bound policy, or
  `vk.unwrap()` on `None`, decides);
* `known` — every polynomial term of every combination names a supplied commitment
  (else `MissingPolynomial`);
* `queried` — every label a point-label group asks for is the label of a combination
  (else `MissingPolynomial`);
* `evaluated` — the evaluations hold a value for every (label, point) a group asks for
  (else `MissingEvaluation`);
* `challenges` — one opening challenge per (point label, combination);
* `proofs` — one proof per point label (`assert_eq!`);
* `witnesses`, `key`, `points` — one witness per key variable (else `IncorrectInputLength`), key and
  points long enough (else an out-of-range index). -/
structure LCNoRefusal (vk : VK F) (comms : List (LComm F)) (lcs : List (LC.LinComb F))
    (qs : List (Query F)) (evals : Evals F) (πs : List (Proof F)) (ξs : List F) : Prop where
  unbounded : ∀ c ∈ comms, c.bound = none ∧ c.comm.shifted = none
  known : ∀ lc ∈ lcs, AllKnown comms lc.terms
  queried : ∀ gr ∈ groupQueries qs, ∀ l ∈ gr.2.2, l ∈ lcs.map (·.label)
  evaluated : ∀ gr ∈ groupQueries qs, ∀ l ∈ gr.2.2, (lookupEval evals l gr.2.1).isSome = true
  challenges : numPositions (groupQueries qs) ≤ ξs.length
  proofs : πs.length = (groupQueries qs).length
  witnesses : ∀ π ∈ πs, π.w.length = vk.numVars
  key : vk.numVars ≤ vk.betaH.length
  points : ∀ gr ∈ groupQueries qs, vk.numVars ≤ gr.2.1.length

/-- **(G) any combinations, any query list: what `check_combinations` computes.**  The pairing
product is the randomizer-weighted sum (`ρ₀ = 1`, then the verifier's randomizers) over the
point-label groups of the per-point defects `lcGroupDefects`, and the answer is whether it
vanishes. -/
theorem lc_general_closed (vk : VK F) (comms : List (LComm F)) (lcs : List (LC.LinComb F))
    (qs : List (Query F)) (evals : Evals F) (πs : List (Proof F)) (ξs rs : List F)
    (hn : LCNoRefusal vk comms lcs qs evals πs ξs) :
    checkCombinationsDefect vk comms lcs qs evals πs ξs rs
        = .ok (wsum 1 rs (lcGroupDefects vk comms lcs evals (groupQueries qs) πs ξs))
      ∧ checkCombinations vk comms lcs qs evals πs ξs rs
        = .ok (decide (wsum 1 rs (lcGroupDefects vk comms lcs evals (groupQueries qs) πs ξs) = 0)) := by
  have hcomb := combineAllComm_closed comms hn.unbounded lcs hn.known
  have hcn := combineAndNormalize_lc comms lcs evals (groupQueries qs) ξs hn.queried hn.evaluated
    hn.challenges
  have hbd : batchDefect vk ((groupTriples comms lcs evals (groupQueries qs) ξs).map (·.1))
      ((groupTriples comms lcs evals (groupQueries qs) ξs).map (·.2.1))
      ((groupTriples comms lcs evals (groupQueries qs) ξs).map (·.2.2)) πs rs
      = .ok (wsum 1 rs (lcGroupDefects vk comms lcs evals (groupQueries qs) πs ξs)) := by
    rw [batchDefect_eq vk _ _ _ _ rs
      (by rw [groupTriples_points, List.length_map]; exact hn.proofs) hn.key hn.witnesses
      (by
        intro z hz
        rw [groupTriples_points] at hz
        simp only [List.mem_map] at hz
        obtain ⟨gr, hgr, rfl⟩ := hz
        exact hn.points gr hgr),
      defectsC_groupTriples]
  constructor
  · unfold checkCombinationsDefect batchDefectQ
    rw [hcomb]
    simp only [hcn]
    exact hbd
  · unfold checkCombinations batchCheckQ batchCheck
    rw [hcomb]
    simp only [hcn, hbd]

/-! ### one group with one label is the single-combination defect -/

theorem lcCommAt_single (comms : List (LComm F)) (lc : LC.LinComb F) :
    lcCommAt comms [lc] lc.label = lcCommValue comms lc.terms := by
  simp [lcCommAt, Marlin.lookupLast]

/-- the general per-point defect on one combination queried under one point label is `lcDefect` -/
theorem lcGroupDefects_single (vk : VK F) (comms : List (LComm F)) (lc : LC.LinComb F) (pl : Label)
    (z : List F) (v : F) (π : Proof F) (ξ : F) (ξs : List F) :
    lcGroupDefects vk comms [lc] [((lc.label, z), v)] [(pl, (z, [lc.label]))] [π] (ξ :: ξs)
      = [lcDefect vk comms lc z v π ξ] := by
  simp [lcGroupDefects, groupC, groupV, posSum, lcCommAt_single, lcClaimAt, lookupEval, constFor,
    lcDefect]

/-! ### distinct labels: the commitment and the constants of a label are those of ITS combination -/

theorem lcCommAt_of_nodup (comms : List (LComm F)) (lcs : List (LC.LinComb F))
    (hnd : (lcs.map (·.label)).Nodup) (lc : LC.LinComb F) (hmem : lc ∈ lcs) :
    lcCommAt comms lcs lc.label = lcCommValue comms lc.terms
      ∧ constFor lcs lc.label = lcConst lc.terms := by
  have key : ∀ (acc : Option (LC.LinComb F)),
      lcs.foldl (fun acc x => if x.label = lc.label then some x else acc) acc = some lc
        ∧ constFor lcs lc.label = lcConst lc.terms := by
    induction lcs with
    | nil => cases hmem
    | cons x lcs ih =>
      intro acc
      simp only [List.map_cons, List.nodup_cons] at hnd
      rcases List.mem_cons.1 hmem with rfl | hm
      · simp only [List.foldl_cons, if_true, constFor]
        rw [lookupLast_not_mem lcs _ hnd.1, constFor_not_mem lcs _ hnd.1]
        exact ⟨rfl, by ring⟩
      · have hne : ¬ x.label = lc.label := by
          intro hx
          apply hnd.1
          rw [hx]
          exact List.mem_map.2 ⟨lc, hm, rfl⟩
        simp only [List.foldl_cons, hne, if_false, constFor]
        obtain ⟨h1, h2⟩ := ih hnd.2 hm acc
        exact ⟨h1, by rw [h2]; ring⟩
  obtain ⟨h1, h2⟩ := key none
  refine ⟨?_, h2⟩
  unfold lcCommAt Marlin.lookupLast
  rw [h1]

/-! ### the challenge weight of a label and of an evaluation -/

/-- the sum of the opening challenges at the positions of one group that carry the label `l₀`
(a group lists every label once, so this is the challenge of `l₀` in the group, or `0`) -/
def labelWeight (l₀ : Label) (ls : List Label) (ξs : List F) : F :=
  posSum (fun l => if l = l₀ then 1 else 0) ls ξs

/-- per point-label group: the weight of `l₀`, counted only in groups whose point satisfies `P` -/
def weightsP (l₀ : Label) (P : List F → Bool) : List (Group F) → List F → List F
  | [], _ => []
  | g :: gs, ξs =>
    (if P g.2.1 = true then labelWeight l₀ g.2.2 ξs else 0)
      :: weightsP l₀ P gs (ξs.drop g.2.2.length)

/-- per point-label group: the challenge of the combination label `l₀` (whatever the point) -/
def labelWeights (l₀ : Label) : List (Group F) → List F → List F
  | [], _ => []
  | g :: gs, ξs => labelWeight l₀ g.2.2 ξs :: labelWeights l₀ gs (ξs.drop g.2.2.length)

/-- per point-label group: the challenge of the evaluation `(l₀, z₀)` — groups at other points
(or not asking for `l₀`) contribute `0`; several point labels may share the point `z₀` -/
def evalWeights (l₀ : Label) (z₀ : List F) : List (Group F) → List F → List F
  | [], _ => []
  | g :: gs, ξs =>
    (if g.2.1 = z₀ then labelWeight l₀ g.2.2 ξs else 0) :: evalWeights l₀ z₀ gs (ξs.drop g.2.2.length)

theorem labelWeights_eq (l₀ : Label) (groups : List (Group F)) (ξs : List F) :
    labelWeights l₀ groups ξs = weightsP l₀ (fun _ => true) groups ξs := by
  induction groups generalizing ξs with
  | nil => rfl
  | cons g gs ih => simp only [labelWeights, weightsP, if_true, ih]

theorem evalWeights_eq (l₀ : Label) (z₀ : List F) (groups : List (Group F)) (ξs : List F) :
    evalWeights l₀ z₀ groups ξs = weightsP l₀ (fun z => decide (z = z₀)) groups ξs := by
  induction groups generalizing ξs with
  | nil => rfl
  | cons g gs ih => simp only [evalWeights, weightsP, decide_eq_true_eq, ih]

theorem weightsP_length (l₀ : Label) (P : List F → Bool) (groups : List (Group F)) (ξs : List F) :
    (weightsP l₀ P groups ξs).length = groups.length := by
  induction groups generalizing ξs with
  | nil => rfl
  | cons g gs ih => simp only [weightsP, List.length_cons, ih]

theorem wsum_map_mul (r : F) (rs ws : List F) (k : F) :
    wsum r rs (ws.map (· * k)) = wsum r rs ws * k := by
  induction ws generalizing r rs with
  | nil => simp [wsum]
  | cons w ws ih => simp only [List.map_cons, wsum, ih]; ring

/-! ### how the per-point defects move -/

theorem posSum_shift (f f' : Label → F) (l₀ : Label) (κ : F) (ls : List Label) (ξs : List F)
    (h : ∀ l ∈ ls, f' l = f l + (if l = l₀ then κ else 0)) :
    posSum f' ls ξs = posSum f ls ξs + labelWeight l₀ ls ξs * κ := by
  induction ls generalizing ξs with
  | nil => simp [posSum, labelWeight]
  | cons l ls ih =>
    cases ξs with
    | nil => simp [posSum, labelWeight]
    | cons ξ ξs =>
      have := ih ξs (fun x hx => h x (by simp [hx]))
      simp only [labelWeight] at this ⊢
      simp only [posSum, this, h l (by simp)]
      by_cases hl : l = l₀ <;> simp [hl] <;> ring

theorem posSum_sub_mul (f g : Label → F) (a : F) (ls : List Label) (ξs : List F) :
    posSum f ls ξs - a * posSum g ls ξs = posSum (fun l => f l - a * g l) ls ξs := by
  induction ls generalizing ξs with
  | nil => simp [posSum]
  | cons l ls ih =>
    cases ξs with
    | nil => simp [posSum]
    | cons ξ ξs =>
      simp only [posSum, ← ih ξs]
      ring

theorem defectCombined_congr (vk : VK F) (C V C' V' : F) (z : List F) (π : Proof F) (d : F)
    (h : C' - vk.g * V' = C - vk.g * V + d) :
    defectCombined vk C' V' z π = defectCombined vk C V z π + d * vk.h := by
  unfold defectCombined
  linear_combination vk.h * h

/-- **two statements, one proof list**: if at every position the verifier reads the combined scalar
`C(l) − g·claim(l, z)` moves by `κ` exactly for the label `l₀` at points satisfying `P`, every
per-point defect moves by `(challenge weight of l₀ in that group)·κ·h`. -/
theorem lcGroupDefects_shift (vk : VK F) (comms : List (LComm F)) (lcs lcs' : List (LC.LinComb F))
    (evals evals' : Evals F) (l₀ : Label) (P : List F → Bool) (κ : F) (groups : List (Group F))
    (πs : List (Proof F)) (ξs : List F) (hlen : πs.length = groups.length)
    (h : ∀ gr ∈ groups, ∀ l ∈ gr.2.2,
      lcCommAt comms lcs' l - vk.g * lcClaimAt lcs' evals' l gr.2.1
        = lcCommAt comms lcs l - vk.g * lcClaimAt lcs evals l gr.2.1
          + (if l = l₀ then (if P gr.2.1 = true then κ else 0) else 0)) :
    lcGroupDefects vk comms lcs' evals' groups πs ξs
      = List.zipWith (· + ·) (lcGroupDefects vk comms lcs evals groups πs ξs)
          ((weightsP l₀ P groups ξs).map (· * (κ * vk.h))) := by
  induction groups generalizing πs ξs with
  | nil => cases πs <;> simp [lcGroupDefects, weightsP]
  | cons g gs ih =>
    cases πs with
    | nil => simp at hlen
    | cons π πs =>
      have hrest := ih πs (ξs.drop g.2.2.length) (by simpa using hlen)
        (fun gr hgr => h gr (by simp [hgr]))
      have hpos := posSum_shift (fun l => lcCommAt comms lcs l - vk.g * lcClaimAt lcs evals l g.2.1)
        (fun l => lcCommAt comms lcs' l - vk.g * lcClaimAt lcs' evals' l g.2.1) l₀
        (if P g.2.1 = true then κ else 0) g.2.2 ξs (fun l hl => h g (by simp) l hl)
      have hd := defectCombined_congr vk (groupC comms lcs g.2.2 ξs) (groupV lcs evals g.2.1 g.2.2 ξs)
        (groupC comms lcs' g.2.2 ξs) (groupV lcs' evals' g.2.1 g.2.2 ξs) g.2.1 π
        (labelWeight l₀ g.2.2 ξs * (if P g.2.1 = true then κ else 0))
        (by
          simp only [groupC, groupV]
          rw [posSum_sub_mul, posSum_sub_mul]
          exact hpos)
      simp only [lcGroupDefects, weightsP, List.map_cons, List.zipWith_cons_cons, hrest, hd]
      congr 1
      cases hP : P g.2.1
      · simp only [Bool.false_eq_true, if_false]; ring
      · simp only [if_true]; ring

/-- the same on the pairing product: it moves by `(Σₖ ρₖ·weightₖ)·κ·h` -/
theorem wsum_lcGroupDefects_shift (vk : VK F) (comms : List (LComm F))
    (lcs lcs' : List (LC.LinComb F)) (evals evals' : Evals F) (l₀ : Label) (P : List F → Bool)
    (κ : F) (groups : List (Group F)) (πs : List (Proof F)) (ξs rs : List F)
    (hlen : πs.length = groups.length)
    (h : ∀ gr ∈ groups, ∀ l ∈ gr.2.2,
      lcCommAt comms lcs' l - vk.g * lcClaimAt lcs' evals' l gr.2.1
        = lcCommAt comms lcs l - vk.g * lcClaimAt lcs evals l gr.2.1
          + (if l = l₀ then (if P gr.2.1 = true then κ else 0) else 0)) :
    wsum 1 rs (lcGroupDefects vk comms lcs' evals' groups πs ξs)
      = wsum 1 rs (lcGroupDefects vk comms lcs evals groups πs ξs)
        + wsum 1 rs (weightsP l₀ P groups ξs) * (κ * vk.h) := by
  rw [lcGroupDefects_shift vk comms lcs lcs' evals evals' l₀ P κ groups πs ξs hlen h,
    wsum_add _ _ _ _ (by
      rw [lcGroupDefects_length _ _ _ _ _ _ _ hlen, List.length_map, weightsP_length]),
    wsum_map_mul]

/-! ### a changed claimed value -/

/-- the evaluations with the value claimed for `(l₀, z₀)` moved by `δ` -/
def bumpEval (l₀ : Label) (z₀ : List F) (δ : F) (evals : Evals F) : Evals F :=
  evals.map fun e => if e.1 = (l₀, z₀) then (e.1, e.2 + δ) else e

theorem lookupEval_bumpEval (l₀ : Label) (z₀ : List F) (δ : F) (evals : Evals F) (l : Label)
    (z : List F) :
    lookupEval (bumpEval l₀ z₀ δ evals) l z
      = (lookupEval evals l z).map (fun v => if (l, z) = (l₀, z₀) then v + δ else v) := by
  induction evals with
  | nil => rfl
  | cons e es ih =>
    simp only [bumpEval, List.map_cons] at ih ⊢
    by_cases he : e.1 = (l₀, z₀)
    · simp only [he, if_true, lookupEval]
      by_cases hk : (l₀, z₀) = (l, z)
      · simp [hk]
      · simp only [hk, if_false]; exact ih
    · simp only [he, if_false, lookupEval]
      by_cases hk : e.1 = (l, z)
      · have : ¬ (l, z) = (l₀, z₀) := fun hx => he (hk.trans hx)
        simp [hk, this]
      · simp only [hk, if_false]; exact ih

theorem lcClaimAt_bumpEval (lcs : List (LC.LinComb F)) (l₀ : Label) (z₀ : List F) (δ : F)
    (evals : Evals F) (l : Label) (z : List F) (hs : (lookupEval evals l z).isSome = true) :
    lcClaimAt lcs (bumpEval l₀ z₀ δ evals) l z
      = lcClaimAt lcs evals l z + (if l = l₀ then (if z = z₀ then δ else 0) else 0) := by
  unfold lcClaimAt
  rw [lookupEval_bumpEval]
  cases hv : lookupEval evals l z with
  | none => rw [hv] at hs; cases hs
  | some v =>
    by_cases hl : l = l₀
    · by_cases hz : z = z₀
      · simp [hl, hz]; ring
      · simp [hl, hz]
    · simp [hl]

theorem LCNoRefusal.bumpEval {vk : VK F} {comms : List (LComm F)} {lcs : List (LC.LinComb F)}
    {qs : List (Query F)} {evals : Evals F} {πs : List (Proof F)} {ξs : List F}
    (hn : LCNoRefusal vk comms lcs qs evals πs ξs) (l₀ : Label) (z₀ : List F) (δ : F) :
    LCNoRefusal vk comms lcs qs (PST.bumpEval l₀ z₀ δ evals) πs ξs :=
  { hn with
    evaluated := by
      intro gr hgr l hl
      rw [lookupEval_bumpEval]
      have := hn.evaluated gr hgr l hl
      cases hv : lookupEval evals l gr.2.1 with
      | none => rw [hv] at this; cases this
      | some v => rfl }

/-- **a changed claimed value moves the pairing product** by
`−δ·g·h·Σₖ ρₖ·(challenge of (l₀, z₀) in group k)`. -/
theorem lc_value_shift (vk : VK F) (comms : List (LComm F)) (lcs : List (LC.LinComb F))
    (qs : List (Query F)) (evals : Evals F) (πs : List (Proof F)) (ξs rs : List F)
    (hn : LCNoRefusal vk comms lcs qs evals πs ξs) (l₀ : Label) (z₀ : List F) (δ : F) :
    wsum 1 rs (lcGroupDefects vk comms lcs (bumpEval l₀ z₀ δ evals) (groupQueries qs) πs ξs)
      = wsum 1 rs (lcGroupDefects vk comms lcs evals (groupQueries qs) πs ξs)
        - δ * vk.g * wsum 1 rs (evalWeights l₀ z₀ (groupQueries qs) ξs) * vk.h := by
  rw [wsum_lcGroupDefects_shift vk comms lcs lcs evals (bumpEval l₀ z₀ δ evals) l₀
    (fun z => decide (z = z₀)) (-(vk.g * δ)) (groupQueries qs) πs ξs rs hn.proofs
    (by
      intro gr hgr l hl
      rw [lcClaimAt_bumpEval lcs l₀ z₀ δ evals l gr.2.1 (hn.evaluated gr hgr l hl)]
      by_cases h1 : l = l₀
      · by_cases h2 : gr.2.1 = z₀
        · simp [h1, h2]; ring
        · simp [h1, h2]
      · simp [h1]),
    evalWeights_eq]
  ring

/-! ### a changed combination -/

theorem constFor_append (a b : List (LC.LinComb F)) (l : Label) :
    constFor (a ++ b) l = constFor a l + constFor b l := by
  induction a with
  | nil => simp [constFor]
  | cons x a ih => simp only [List.cons_append, constFor, ih]; ring

/-- replacing one combination by another of the same label: the commitment of a label changes only
for that label, and only if no LATER combination carries it too -/
theorem lcCommAt_replace (comms : List (LComm F)) (pre post : List (LC.LinComb F))
    (x x' : LC.LinComb F) (hl : x'.label = x.label) (l : Label) :
    lcCommAt comms (pre ++ x' :: post) l
      = if x.label = l ∧ l ∉ post.map (·.label) then lcCommValue comms x'.terms
        else lcCommAt comms (pre ++ x :: post) l := by
  unfold lcCommAt Marlin.lookupLast
  simp only [List.foldl_append, List.foldl_cons, hl]
  by_cases h1 : x.label = l
  · simp only [h1, if_true, true_and]
    by_cases h2 : l ∈ post.map (·.label)
    · simp only [h2, not_true_eq_false, if_false]
      rw [foldl_lookup_indep (fun (lc : LC.LinComb F) => lc.label) l post h2 (some x') (some x)]
    · simp only [h2, not_false_eq_true, if_true]
      rw [foldl_lookup_skip (fun (lc : LC.LinComb F) => lc.label) l post h2]
  · simp only [h1, if_false, false_and]

theorem mem_map_replace (pre post : List (LC.LinComb F)) (x x' : LC.LinComb F)
    (hl : x'.label = x.label) :
    (pre ++ x' :: post).map (·.label) = (pre ++ x :: post).map (·.label) := by
  simp [hl]

theorem allKnown_coeff (comms : List (LComm F)) (tp tq : List (F × LC.LCTerm)) (a a' : F)
    (m : Label) (hk : AllKnown comms (tp ++ (a, .poly m) :: tq)) :
    AllKnown comms (tp ++ (a', .poly m) :: tq) := by
  intro t ht l hl
  simp only [List.mem_append, List.mem_cons] at ht
  rcases ht with ht | rfl | ht
  · exact hk t (by simp [ht]) l hl
  · simp only [LC.LCTerm.poly.injEq] at hl
    subst hl
    exact hk (a, .poly m) (by simp) m rfl
  · exact hk t (by simp [ht]) l hl

theorem allKnown_const (comms : List (LComm F)) (tp tq : List (F × LC.LCTerm)) (a a' : F)
    (hk : AllKnown comms (tp ++ (a, .one) :: tq)) :
    AllKnown comms (tp ++ (a', .one) :: tq) := by
  intro t ht l hl
  simp only [List.mem_append, List.mem_cons] at ht
  rcases ht with ht | rfl | ht
  · exact hk t (by simp [ht]) l hl
  · cases hl
  · exact hk t (by simp [ht]) l hl

/-- replacing one combination by one of the same label with known terms keeps the check
refusal-free -/
theorem LCNoRefusal.replace {vk : VK F} {comms : List (LComm F)} {pre post : List (LC.LinComb F)}
    {x : LC.LinComb F} {qs : List (Query F)} {evals : Evals F} {πs : List (Proof F)} {ξs : List F}
    (hn : LCNoRefusal vk comms (pre ++ x :: post) qs evals πs ξs) (x' : LC.LinComb F)
    (hl : x'.label = x.label) (hk : AllKnown comms x'.terms) :
    LCNoRefusal vk comms (pre ++ x' :: post) qs evals πs ξs :=
  { hn with
    known := by
      intro lc hlc
      simp only [List.mem_append, List.mem_cons] at hlc
      rcases hlc with h | rfl | h
      · exact hn.known lc (by simp [h])
      · exact hk
      · exact hn.known lc (by simp [h])
    queried := by
      intro gr hgr l hl'
      rw [mem_map_replace pre post x x' hl]
      exact hn.queried gr hgr l hl' }

/-- **a changed constant moves the pairing product** by
`+δ·g·h·Σₖ ρₖ·(challenge of the combination's label in group k)` — at every point, under every
point label that asks for the label. -/
theorem lc_constant_shift (vk : VK F) (comms : List (LComm F)) (pre post : List (LC.LinComb F))
    (lbl : Label) (tp tq : List (F × LC.LCTerm)) (a δ : F) (evals : Evals F)
    (groups : List (Group F)) (πs : List (Proof F)) (ξs rs : List F)
    (hlen : πs.length = groups.length) :
    wsum 1 rs (lcGroupDefects vk comms (pre ++ ⟨lbl, tp ++ (a + δ, .one) :: tq⟩ :: post) evals
        groups πs ξs)
      = wsum 1 rs (lcGroupDefects vk comms (pre ++ ⟨lbl, tp ++ (a, .one) :: tq⟩ :: post) evals
          groups πs ξs)
        + δ * vk.g * wsum 1 rs (labelWeights lbl groups ξs) * vk.h := by
  rw [wsum_lcGroupDefects_shift vk comms (pre ++ ⟨lbl, tp ++ (a, .one) :: tq⟩ :: post)
    (pre ++ ⟨lbl, tp ++ (a + δ, .one) :: tq⟩ :: post) evals evals lbl (fun _ => true) (vk.g * δ)
    groups πs ξs rs hlen
    (by
      intro gr hgr l hl
      obtain ⟨e1, e2⟩ := const_shift comms tp tq a δ
      rw [lcCommAt_replace comms pre post ⟨lbl, tp ++ (a, .one) :: tq⟩
        ⟨lbl, tp ++ (a + δ, .one) :: tq⟩ rfl l]
      have hc : (if lbl = l ∧ l ∉ post.map (·.label)
            then lcCommValue comms (tp ++ (a + δ, LC.LCTerm.one) :: tq)
            else lcCommAt comms (pre ++ ⟨lbl, tp ++ (a, .one) :: tq⟩ :: post) l)
          = lcCommAt comms (pre ++ ⟨lbl, tp ++ (a, .one) :: tq⟩ :: post) l := by
        by_cases hx : lbl = l ∧ l ∉ post.map (·.label)
        · rw [if_pos hx, e1]
          have := lcCommAt_replace comms pre post ⟨lbl, tp ++ (a, .one) :: tq⟩
            ⟨lbl, tp ++ (a, .one) :: tq⟩ rfl l
          rw [if_pos hx] at this
          exact this.symm
        · rw [if_neg hx]
      rw [hc]
      simp only [lcClaimAt, constFor_append, constFor, e2]
      by_cases h1 : lbl = l
      · have h1' : l = lbl := h1.symm
        simp [h1]; ring
      · have h1' : ¬ l = lbl := fun hx => h1 hx.symm
        simp [h1, h1']),
    labelWeights_eq]
  ring

/-- **a changed coefficient moves the pairing product** by
`+δ·C_m·h·Σₖ ρₖ·(challenge of the combination's label in group k)`, PROVIDED no later combination
carries the same label. -/
theorem lc_coefficient_shift (vk : VK F) (comms : List (LComm F)) (pre post : List (LC.LinComb F))
    (lbl : Label) (hlast : lbl ∉ post.map (·.label)) (tp tq : List (F × LC.LCTerm)) (a δ : F)
    (m : Label) (c : LComm F)
    (hm : Marlin.lookupLast (fun (c : LComm F) => c.label) m comms = some c) (evals : Evals F)
    (groups : List (Group F)) (πs : List (Proof F)) (ξs rs : List F)
    (hlen : πs.length = groups.length) :
    wsum 1 rs (lcGroupDefects vk comms (pre ++ ⟨lbl, tp ++ (a + δ, .poly m) :: tq⟩ :: post) evals
        groups πs ξs)
      = wsum 1 rs (lcGroupDefects vk comms (pre ++ ⟨lbl, tp ++ (a, .poly m) :: tq⟩ :: post) evals
          groups πs ξs)
        + δ * c.comm.comm * wsum 1 rs (labelWeights lbl groups ξs) * vk.h := by
  rw [wsum_lcGroupDefects_shift vk comms (pre ++ ⟨lbl, tp ++ (a, .poly m) :: tq⟩ :: post)
    (pre ++ ⟨lbl, tp ++ (a + δ, .poly m) :: tq⟩ :: post) evals evals lbl (fun _ => true)
    (δ * c.comm.comm) groups πs ξs rs hlen
    (by
      intro gr hgr l hl
      obtain ⟨e1, e2⟩ := coeff_shift comms tp tq a δ m c hm
      rw [lcCommAt_replace comms pre post ⟨lbl, tp ++ (a, .poly m) :: tq⟩
        ⟨lbl, tp ++ (a + δ, .poly m) :: tq⟩ rfl l]
      have h0 := lcCommAt_replace comms pre post ⟨lbl, tp ++ (a, .poly m) :: tq⟩
        ⟨lbl, tp ++ (a, .poly m) :: tq⟩ rfl l
      simp only [lcClaimAt, constFor_append, constFor, e2]
      by_cases h1 : lbl = l
      · subst h1
        rw [if_pos ⟨rfl, hlast⟩] at h0 ⊢
        rw [h0, e1]
        simp
        ring
      · have h1' : ¬ l = lbl := fun hx => h1 hx.symm
        rw [if_neg (fun hx => h1 hx.1)]
        simp [h1']),
    labelWeights_eq]
  ring

/-- **a shadowed combination is not checked**: if a later combination carries the same label, the
terms of the earlier one — coefficients and polynomial labels — do not enter the decision at all
(only its constants do, `constFor`). -/
theorem lcGroupDefects_shadowed (vk : VK F) (comms : List (LComm F)) (pre post : List (LC.LinComb F))
    (x x' : LC.LinComb F) (hl : x'.label = x.label) (hc : lcConst x'.terms = lcConst x.terms)
    (hshadow : x.label ∈ post.map (·.label)) (evals : Evals F) (groups : List (Group F))
    (πs : List (Proof F)) (ξs : List F) :
    lcGroupDefects vk comms (pre ++ x' :: post) evals groups πs ξs
      = lcGroupDefects vk comms (pre ++ x :: post) evals groups πs ξs := by
  have hC : lcCommAt comms (pre ++ x' :: post) = lcCommAt comms (pre ++ x :: post) := by
    funext l
    rw [lcCommAt_replace comms pre post x x' hl l]
    rw [if_neg]
    rintro ⟨h1, h2⟩
    exact h2 (h1 ▸ hshadow)
  have hV : ∀ z, (fun l => lcClaimAt (pre ++ x' :: post) evals l z)
      = (fun l => lcClaimAt (pre ++ x :: post) evals l z) := by
    intro z
    funext l
    simp only [lcClaimAt, constFor_append, constFor, hl, hc]
  induction groups generalizing πs ξs with
  | nil => cases πs <;> simp [lcGroupDefects]
  | cons g gs ih =>
    cases πs with
    | nil => simp [lcGroupDefects]
    | cons π πs => simp only [lcGroupDefects, groupC, groupV, hC, hV, ih]

/-! ### the groups in terms of the query list -/

theorem mem_insertLabel_lc (l x : Label) (ys : List Label) (h : x ∈ Marlin.insertLabel l ys) :
    x = l ∨ x ∈ ys := by
  induction ys with
  | nil => simp only [Marlin.insertLabel, List.mem_singleton] at h; exact Or.inl h
  | cons y ys ih =>
    simp only [Marlin.insertLabel] at h
    split at h
    · rcases List.mem_cons.1 h with h | h
      · exact Or.inl h
      · exact Or.inr h
    · split at h
      · exact Or.inr h
      · rcases List.mem_cons.1 h with h | h
        · exact Or.inr (by simp [h])
        · rcases ih h with h | h
          · exact Or.inl h
          · exact Or.inr (by simp [h])

/-- what a group is made of: its point is the point of a query with its point label, and every
label it lists comes from a query with its point label -/
def GroupFrom (qs : List (Query F)) (gr : Group F) : Prop :=
  (∃ q ∈ qs, q.2.1 = gr.1 ∧ q.2.2 = gr.2.1) ∧ ∀ l ∈ gr.2.2, ∃ q ∈ qs, q.1 = l ∧ q.2.1 = gr.1

theorem GroupFrom.mono {qs qs' : List (Query F)} (h : ∀ q ∈ qs, q ∈ qs') {gr : Group F}
    (hg : GroupFrom qs gr) : GroupFrom qs' gr := by
  obtain ⟨⟨q, hq, h1⟩, h2⟩ := hg
  refine ⟨⟨q, h q hq, h1⟩, fun l hl => ?_⟩
  obtain ⟨q', hq', h3⟩ := h2 l hl
  exact ⟨q', h q' hq', h3⟩

theorem groupInsert_from (seen : List (Query F)) (q : Query F) (gs : List (Group F))
    (h : ∀ gr ∈ gs, GroupFrom seen gr) : ∀ gr ∈ groupInsert q gs, GroupFrom (q :: seen) gr := by
  have hnew : GroupFrom (q :: seen) (q.2.1, (q.2.2, [q.1])) :=
    ⟨⟨q, by simp, rfl, rfl⟩, fun l hl => ⟨q, by simp, by simpa using (List.mem_singleton.1 hl).symm, rfl⟩⟩
  have hold : ∀ gr ∈ gs, GroupFrom (q :: seen) gr :=
    fun gr hgr => (h gr hgr).mono (fun x hx => by simp [hx])
  induction gs with
  | nil =>
    intro gr hgr
    simp only [groupInsert, List.mem_singleton] at hgr
    rw [hgr]; exact hnew
  | cons g gs ih =>
    intro gr hgr
    simp only [groupInsert] at hgr
    split at hgr
    · rcases List.mem_cons.1 hgr with rfl | hgr
      · exact hnew
      · exact hold gr hgr
    · split at hgr
      · rename_i heq
        rcases List.mem_cons.1 hgr with rfl | hgr
        · obtain ⟨hp, hls⟩ := hold g (by simp)
          refine ⟨hp, fun l hl => ?_⟩
          rcases mem_insertLabel_lc _ _ _ hl with rfl | hl
          · exact ⟨q, by simp, rfl, heq⟩
          · exact hls l hl
        · exact hold gr (by simp [hgr])
      · rcases List.mem_cons.1 hgr with rfl | hgr
        · exact hold gr (by simp)
        · exact ih (fun x hx => h x (by simp [hx])) (fun x hx => hold x (by simp [hx])) gr hgr

/-- every point-label group of a query list is made of queries of that list -/
theorem groupQueries_from (qs : List (Query F)) : ∀ gr ∈ groupQueries qs, GroupFrom qs gr := by
  have key : ∀ (rest seen : List (Query F)) (acc : List (Group F)),
      (∀ gr ∈ acc, GroupFrom seen gr) →
      ∀ gr ∈ rest.foldl (fun acc q => groupInsert q acc) acc, GroupFrom (rest.reverse ++ seen) gr := by
    intro rest
    induction rest with
    | nil => intro seen acc h; simpa using h
    | cons q rest ih =>
      intro seen acc h
      simp only [List.foldl_cons, List.reverse_cons, List.append_assoc, List.singleton_append]
      exact ih (q :: seen) (groupInsert q acc) (groupInsert_from seen q acc h)
  intro gr hgr
  have := key qs [] [] (by intro gr hgr; cases hgr) gr hgr
  exact this.mono (fun q hq => by simpa using hq)

/-- **`LCNoRefusal` from the raw query list**: point labels name points consistently, every query
asks for a combination label and has its evaluation, points are long enough. -/
theorem LCNoRefusal.of_queries (vk : VK F) (comms : List (LComm F)) (lcs : List (LC.LinComb F))
    (qs : List (Query F)) (evals : Evals F) (πs : List (Proof F)) (ξs : List F)
    (hcb : ∀ c ∈ comms, c.bound = none ∧ c.comm.shifted = none)
    (hk : ∀ lc ∈ lcs, AllKnown comms lc.terms)
    (hpl : ∀ q ∈ qs, ∀ q' ∈ qs, q.2.1 = q'.2.1 → q.2.2 = q'.2.2)
    (hq : ∀ q ∈ qs, q.1 ∈ lcs.map (·.label))
    (hev : ∀ q ∈ qs, (lookupEval evals q.1 q.2.2).isSome = true)
    (hξ : numPositions (groupQueries qs) ≤ ξs.length)
    (hlen : πs.length = (groupQueries qs).length)
    (hw : ∀ π ∈ πs, π.w.length = vk.numVars) (hbh : vk.numVars ≤ vk.betaH.length)
    (hz : ∀ q ∈ qs, vk.numVars ≤ q.2.2.length) :
    LCNoRefusal vk comms lcs qs evals πs ξs where
  unbounded := hcb
  known := hk
  queried := by
    intro gr hgr l hl
    obtain ⟨q, hq', h1, _⟩ := (groupQueries_from qs gr hgr).2 l hl
    rw [← h1]; exact hq q hq'
  evaluated := by
    intro gr hgr l hl
    obtain ⟨⟨q0, hq0, h0, h0'⟩, hls⟩ := groupQueries_from qs gr hgr
    obtain ⟨q, hq', h1, h2⟩ := hls l hl
    have := hpl q hq' q0 hq0 (h2.trans h0.symm)
    rw [← h1, ← h0', ← this]
    exact hev q hq'
  challenges := hξ
  proofs := hlen
  witnesses := hw
  key := hbh
  points := by
    intro gr hgr
    obtain ⟨⟨q0, hq0, _, h0'⟩, _⟩ := groupQueries_from qs gr hgr
    rw [← h0']; exact hz q0 hq0

/-! ### a decidable form of `AllKnown` (for concrete instances) -/

/-- every polynomial term names a supplied commitment, as a Boolean -/
def allKnownB (comms : List (LComm F)) (terms : List (F × LC.LCTerm)) : Bool :=
  terms.all fun t =>
    match t.2.tryLabel with
    | none => true
    | some l => (Marlin.lookupLast (fun (c : LComm F) => c.label) l comms).isSome

theorem allKnown_of_bool (comms : List (LComm F)) (terms : List (F × LC.LCTerm))
    (h : allKnownB comms terms = true) : AllKnown comms terms := by
  intro t ht l hl
  unfold allKnownB at h
  rw [List.all_eq_true] at h
  have := h t ht
  simp only [hl, LC.LCTerm.tryLabel] at this
  exact this

end PST
end PCV
