/-
  PCV.Proofs.MLPCExtract — what an algebraic forger against the multilinear PST scheme gives away:
  with proof elements `πᵢ = h·aᵢ(t)` (any functions `aᵢ` of the trapdoor the forger can express over the
  published `powers_of_h`) an accepted claim `(C = g·p(t), z, v)` is the identity
  `p(t) − v − Σᵢ (tᵢ − zᵢ)·aᵢ(t) = 0` at the trapdoor, while the same expression at `z` is `p(z) − v`.
-/
import PCV.Proofs.MLPCProps

set_option linter.unusedSectionVars false

namespace PCV
namespace MLPC
variable {F : Type} [Field F] [DecidableEq F]

/-- `Σᵢ (xᵢ − zᵢ)·aᵢ` -/
def linSum : List F → List F → List F → F
  | x :: xs, z :: zs, a :: as => (x - z) * a + linSum xs zs as
  | _, _, _ => 0

theorem linSum_self (z as : List F) : linSum z z as = 0 := by
  induction z generalizing as with
  | nil => cases as <;> rfl
  | cons x xs ih =>
    cases as with
    | nil => rfl
    | cons a as => simp [linSum, ih]

theorem dot_lefts (g h : F) (t z as : List F) :
    dot (List.zipWith (· - ·) (batchMul g t) (batchMul g z)) (as.map (h * ·))
      = g * h * linSum t z as := by
  induction t generalizing z as with
  | nil => simp [batchMul, linSum]
  | cons x xs ih =>
    cases z with
    | nil => simp [batchMul, linSum]
    | cons y ys =>
      cases as with
      | nil => simp [batchMul, linSum]
      | cons a as =>
        have := ih ys as
        simp only [batchMul, List.map_cons, List.zipWith_cons_cons, dot_cons, linSum] at this ⊢
        rw [this]; ring

/-- **Extraction.** Key of trapdoor `t`; commitment `g·P` (`P = p(t)`), proof elements `h·aᵢ`
(`aᵢ = aᵢ(t)`), claimed value `v` at `z`: acceptance is `P − v − Σ (tᵢ − zᵢ)·aᵢ = 0` (for `g, h ≠ 0`). -/
theorem forgery_identity (g h : F) (t z as : List F) (nv : Nat) (P v : F)
    (hz : z.length = t.length) (has : as.length = t.length) (hg : g ≠ 0) (hh : h ≠ 0)
    (hacc : check (wfVK g h t) ⟨nv, g * P⟩ z v (as.map (h * ·)) = .ok true) :
    P - v - linSum t z as = 0 := by
  rw [check_iff_defect _ _ _ _ _ (by simp [wfVK, hz]) (by simp [wfVK, batchMul])
    (by simp [wfVK, has])] at hacc
  unfold defect at hacc
  rw [pairingLefts_wf, dot_lefts] at hacc
  simp only [wfVK] at hacc
  have : g * h * (P - v - linSum t z as) = 0 := by linear_combination hacc
  rcases mul_eq_zero.1 this with h1 | h1
  · rcases mul_eq_zero.1 h1 with h2 | h2
    · exact absurd h2 hg
    · exact absurd h2 hh
  · exact h1

end MLPC
end PCV
