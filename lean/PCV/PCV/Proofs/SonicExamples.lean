/-
  PCV.Proofs.SonicExamples — one concrete SonicKZG10 transcript over `K = ZMod 101`
  (trapdoor β = 2, β⁻¹ = 51, g = 3, γ = 5, h = 7, D = 4), evaluated by `decide`; the non-vacuity
  examples next to the property theorems refer to it.
-/
import PCV.Proofs.SonicCorollaries
import PCV.Props.Examples

namespace PCV
namespace Sonic
namespace Ex
open Marlin (LPoly)

def pp : UParams K := wfPP 3 5 2 51 7 4
def ck : CK K :=
  ⟨[3, 6, 12, 24], [5, 10, 20], some [6, 12, 24, 48], some [(2, [20, 40, 80]), (3, [10, 20, 40])],
   some [2, 3], 4⟩
def vk : VK K := ⟨3, 5, 7, 14, some [(2, 27), (3, 54)], 3, 4⟩
/-- a bounded hiding polynomial, an unbounded one, a bounded non-hiding one -/
def polys : List (LPoly K) :=
  [⟨[112, 48], [1, 2, 3], some 3, some 1⟩, ⟨[112, 49], [4, 0, 1], none, none⟩,
   ⟨[112, 50], [6, 1], some 2, none⟩]
def comms : List (LComm K) :=
  [⟨[112, 48], 27, some 3⟩, ⟨[112, 49], 24, none⟩, ⟨[112, 50], 96, some 2⟩]
def rands : List (List K) := [[7, 0, 9], [], []]
def xis : List K := [11, 13, 17, 19, 23]
def vals : List K := polys.map fun p => evalPoly p.poly 5
def proof : KZG.Proof K := ⟨3, some 27⟩

theorem inv : (2 : K) * 51 = 1 := by decide
theorem trim_eq : trim pp 3 1 (some [3, 2, 3]) = .ok (ck, vk) := by decide
theorem commit_eq : commit ck polys true [7, 0, 9, 4] = .ok (comms, rands, [4]) := by decide
theorem open_eq : Sonic.open ck polys 5 rands xis = .ok (proof, [23]) := by decide
theorem check_eq : check vk comms 5 vals proof xis = .ok (true, [23]) := by decide

end Ex
end Sonic
end PCV
