/-
  PCV.Proofs.LinCodeToy — a tiny concrete instance of the linear-code PCS over `K = ZMod 101` for the
  non-vacuity examples: the repetition code `x ↦ x ++ x`, a toy column hash and toy Merkle hashes
  into `ℕ`, a coefficient matrix of two rows (`2 × 2` for three or four coefficients), and the same
  with the shape frozen at `2 × 2` (`toyFixedPP`, the Brakedown situation).
-/
import PCV.Proofs.LinCodeProto
import PCV.Props.Examples

namespace PCV
namespace LinCode
open Merkle

/-- the repetition code is linear on every message length -/
theorem rep_isLinear {F : Type} [Field F] (m : Nat) : IsLinear (fun x : List F => x ++ x) m (2 * m) where
  add x y hx hy := by
    simp only [vadd]
    rw [List.zipWith_append (by rw [hx, hy])]
  smul c x _ := by simp [vscale]
  len x hx := by simp [hx]; omega

def toyE (x : List K) : List K := x ++ x

def toyHashes : Hashes Nat :=
  ⟨fun d => d + 1, fun a b => 2 * a + 3 * b + 1, fun a b => 5 * a + 7 * b + 2, 0⟩

/-- two rows and, as in Ligero's `compute_dimensions`, `m = ⌈len / 2⌉` columns (`2 × 2` matrices for
three or four coefficients, 4 extended columns; `2 × 1` for the zero polynomial `[0]`), repetition
code, well-formedness flag `wf` -/
def toyPP (wf : Bool) : Params K Nat :=
  { enc := fun x => .ok (toyE x)
    dims := fun len => (2, ceilDiv len 2)
    colHash := fun col => col.foldr (fun x acc => x.val + 101 * acc) 1
    hs := toyHashes
    checkWf := wf }

/-- the same code with the shape frozen at `2 × 2` whatever the polynomial (Brakedown's
`compute_dimensions`: the shape is a constant of the parameters, made for three or four coefficients) -/
def toyFixedPP (wf : Bool) : Params K Nat := { toyPP wf with dims := fun _ => (2, 2) }

theorem toy_width (coeffs : List K) (hfit : 3 ≤ coeffs.length ∧ coeffs.length ≤ 4) :
    ceilDiv (coeffsOrZero coeffs).length 2 = 2 := by
  have hl : (coeffsOrZero coeffs).length = coeffs.length := by
    unfold coeffsOrZero
    cases coeffs with
    | nil => simp at hfit
    | cons x xs => rfl
  rw [hl]
  unfold ceilDiv
  omega

/-- three or four coefficients: the matrix is `2 × 2`, the codewords have length 4 (since fix D25 the
width of the matrix is `⌈len / 2⌉`, so shorter vectors get a `2 × 1` matrix and codewords of length 2) -/
theorem toy_encodes (wf : Bool) (coeffs : List K) (hfit : 3 ≤ coeffs.length ∧ coeffs.length ≤ 4) :
    Encodes (toyPP wf) coeffs toyE 4 where
  lin := by
    have : (coeffMat (toyPP wf).dims coeffs).m = 2 := by
      rw [coeffMat_m]; exact toy_width coeffs hfit
    rw [this]; exact rep_isLinear 2
  enc _ _ := rfl
  rows := by simp [coeffMat_n, toyPP]
  two := by omega
  fits := fitsDims_of_ceilDiv _ _ (fun _ => ⟨by simp [toyPP], rfl⟩)

/-- run `commit`, `open`, `check` of the model on one polynomial -/
def toyRun (wf : Bool) (point : Point K) (coeffs : List K) (o : Oracle K) (value : K) :
    Except Err Bool :=
  match commit (toyPP wf) coeffs with
  | .error e => .error e
  | .ok (c, st) =>
    match openOne (toyPP wf) point c st o with
    | .error e => .error e
    | .ok π => checkOne (toyPP wf) point c value π o

/-- the same run with the proof transformed before it reaches the verifier -/
def toyRunWith (wf : Bool) (point : Point K) (coeffs : List K) (o : Oracle K) (value : K)
    (f : Proof K Nat → Proof K Nat) : Except Err Bool :=
  match commit (toyPP wf) coeffs with
  | .error e => .error e
  | .ok (c, st) =>
    match openOne (toyPP wf) point c st o with
    | .error e => .error e
    | .ok π => checkOne (toyPP wf) point c value (f π) o

example : toyRun true (.uni 5) [1, 2, 3] ⟨[7, 9], [2, 0, 3]⟩ (evalPoly [1, 2, 3] 5) = .ok true := by
  decide

end LinCode
end PCV
