/-
  PCV.Proofs.LinCodeToy — a tiny concrete instance of the linear-code PCS over `K = ZMod 101` for the
  non-vacuity examples: the repetition code `x ↦ x ++ x`, a toy column hash and toy Merkle hashes
  into `ℕ`, a `2 × 2` coefficient matrix.
-/
import PCV.Proofs.LinCodeProto
import PCV.Props.Examples

namespace PCV
namespace LinCode
open Merkle

/-- the repetition code is linear on every message length -/
theorem rep_isLinear {F : Type} [Field F] (m : Nat) : IsLinear (fun x : List F => x ++ x) m (2 * m) where
  add x y hx hy := by
    simp only [vadd]
    rw [List.zipWith_append (by rw [hx, hy])]
  smul c x _ := by simp [vscale]
  len x hx := by simp [hx]; omega

def toyE (x : List K) : List K := x ++ x

def toyHashes : Hashes Nat :=
  ⟨fun d => d + 1, fun a b => 2 * a + 3 * b + 1, fun a b => 5 * a + 7 * b + 2, 0⟩

/-- `2 × 2` matrices, repetition code (4 extended columns), well-formedness flag `wf` -/
def toyPP (wf : Bool) : Params K Nat :=
  { enc := fun x => .ok (toyE x)
    dims := fun _ => (2, 2)
    colHash := fun col => col.foldr (fun x acc => x.val + 101 * acc) 1
    hs := toyHashes
    checkWf := wf }

theorem toy_encodes (wf : Bool) (coeffs : List K) (hfit : coeffs.length ≤ 4) :
    Encodes (toyPP wf) coeffs toyE 4 where
  lin := rep_isLinear 2
  enc _ _ := rfl
  rows := by simp [coeffMat_n, toyPP]
  two := by omega
  fits := by
    unfold fitsDims coeffsOrZero toyPP
    by_cases he : coeffs.isEmpty
    · simp [he]
    · simp [he]; omega

/-- run `commit`, `open`, `check` of the model on one polynomial -/
def toyRun (wf : Bool) (point : Point K) (coeffs : List K) (o : Oracle K) (value : K) :
    Except Err Bool :=
  match commit (toyPP wf) coeffs with
  | .error e => .error e
  | .ok (c, st) =>
    match openOne (toyPP wf) point c st o with
    | .error e => .error e
    | .ok π => checkOne (toyPP wf) point c value π o

/-- the same run with the proof transformed before it reaches the verifier -/
def toyRunWith (wf : Bool) (point : Point K) (coeffs : List K) (o : Oracle K) (value : K)
    (f : Proof K Nat → Proof K Nat) : Except Err Bool :=
  match commit (toyPP wf) coeffs with
  | .error e => .error e
  | .ok (c, st) =>
    match openOne (toyPP wf) point c st o with
    | .error e => .error e
    | .ok π => checkOne (toyPP wf) point c value (f π) o

example : toyRun true (.uni 5) [1, 2, 3] ⟨[7, 9], [2, 0, 3]⟩ (evalPoly [1, 2, 3] 5) = .ok true := by
  decide

end LinCode
end PCV
