/-
  PCV.Proofs.CombInv — the `Combinations` iterator model, for all inputs: every iterator state
  reached from `Combinations::new` is valid (sorted data, strictly increasing in-range positions,
  so no index of the Rust code is out of bounds), each `next` yields a lexicographically larger
  vector, and every output is a sorted selection of `len` entries of the input.
-/
import PCV.Model.Combinations
import Mathlib.Data.List.Lex
import Mathlib.Data.List.Range
import Mathlib.Data.List.Nodup
import Mathlib.Tactic.Ring

namespace PCV
namespace Comb

/-! ### list utilities -/

theorem getD'_append_left {α} (a b : List α) (k : Nat) (d : α) (h : k < a.length) :
    getD' (a ++ b) k d = getD' a k d := by
  unfold getD'; rw [List.getElem?_append_left h]

theorem getD'_append_right {α} (a b : List α) (k : Nat) (d : α) :
    getD' (a ++ b) (a.length + k) d = getD' b k d := by
  unfold getD'; rw [List.getElem?_append_right (by omega)]; simp

theorem getD'_lt {α} (l : List α) (k : Nat) (d : α) (h : k < l.length) : getD' l k d = l[k] := by
  unfold getD'; simp [h]

theorem getD'_mem {α} (l : List α) (k : Nat) (d : α) (h : k < l.length) : getD' l k d ∈ l := by
  rw [getD'_lt l k d h]; exact List.getElem_mem h

/-- in a sorted vector, values are monotone in the index -/
theorem sorted_mono (orig : List Nat) (hs : orig.Pairwise (· ≤ ·)) (i j : Nat) (hij : i ≤ j)
    (hj : j < orig.length) : getD' orig i 0 ≤ getD' orig j 0 := by
  rw [getD'_lt orig i 0 (by omega), getD'_lt orig j 0 hj]
  rcases Nat.lt_or_eq_of_le hij with h | h
  · exact (List.pairwise_iff_getElem.1 hs) i j (by omega) hj h
  · subst h; exact Nat.le_refl _

/-! ### the loops -/

theorem skipEqual_spec (orig : List Nat) (cur : Nat) (fuel i e : Nat) (hie : i < e)
    (he : orig[e]? ≠ some cur) (hf : e - i ≤ fuel) :
    i < skipEqual orig cur fuel i ∧ skipEqual orig cur fuel i ≤ e
      ∧ orig[skipEqual orig cur fuel i]? ≠ some cur := by
  induction fuel generalizing i with
  | zero => omega
  | succ f ih =>
    simp only [skipEqual]
    split
    · rename_i heq
      have hne : i + 1 ≠ e := by intro h; rw [h] at heq; exact he heq
      have := ih (i + 1) (by omega) (by omega)
      exact ⟨by omega, this.2.1, this.2.2⟩
    · rename_i hne
      exact ⟨by omega, by omega, hne⟩

theorem findGreater_spec (orig : List Nat) (val fuel j0 j : Nat)
    (h : findGreater orig val fuel j0 = some j) :
    j0 ≤ j ∧ j < j0 + fuel ∧ val < getD' orig j 0 ∧ ∀ t, j0 ≤ t → t < j → ¬ val < getD' orig t 0 := by
  induction fuel generalizing j0 with
  | zero => simp [findGreater] at h
  | succ f ih =>
    simp only [findGreater] at h
    split at h
    · rename_i hv
      injection h with h; subst h
      exact ⟨Nat.le_refl _, by omega, hv, fun t h1 h2 => by omega⟩
    · rename_i hv
      obtain ⟨h1, h2, h3, h4⟩ := ih (j0 + 1) h
      refine ⟨by omega, by omega, h3, fun t ht1 ht2 => ?_⟩
      rcases Nat.lt_or_eq_of_le ht1 with h | h
      · exact h4 t (by omega) ht2
      · subst h; exact hv

theorem findGreater_some (orig : List Nat) (val fuel j0 e : Nat) (h1 : j0 ≤ e) (h2 : e < j0 + fuel)
    (hv : val < getD' orig e 0) : ∃ j, findGreater orig val fuel j0 = some j := by
  induction fuel generalizing j0 with
  | zero => omega
  | succ f ih =>
    simp only [findGreater]
    split
    · exact ⟨_, rfl⟩
    · rename_i hn
      have : j0 ≠ e := by intro h; subst h; exact hn hv
      exact ih (j0 + 1) (by omega) (by omega)

theorem setRun_append (pre blk : List Nat) (j i : Nat) (h : i ≤ blk.length) :
    setRun (pre ++ blk) pre.length j i = pre ++ ((List.range i).map (j + ·) ++ blk.drop i) := by
  induction i with
  | zero => simp [setRun]
  | succ i ih =>
    have hd : blk.drop i = blk[i] :: blk.drop (i + 1) := List.drop_eq_getElem_cons (by omega)
    simp only [setRun]
    rw [ih (by omega), List.set_append_right _ _ (by omega)]
    congr 1
    rw [List.set_append_right _ _ (by simp)]
    simp only [List.length_map, List.length_range, Nat.add_sub_cancel_left, Nat.sub_self]
    rw [hd, List.range_succ]
    simp only [List.set_cons_zero, List.map_append, List.map_cons, List.map_nil, List.append_assoc,
      List.singleton_append]

theorem resetLoop_spec (c : Comb) (fuel i0 : Nat) (pos' : List Nat)
    (h : resetLoop c fuel i0 = some pos') :
    ∃ i j, i0 ≤ i ∧ i < i0 + fuel ∧
      getD' c.original (getD' c.position (c.len - i) 0) 0 < getD' c.original (c.original.length - i) 0 ∧
      findGreater c.original (getD' c.original (getD' c.position (c.len - i) 0) 0)
        (c.original.length - (getD' c.position (c.len - i) 0 + 1)) (getD' c.position (c.len - i) 0 + 1) = some j ∧
      pos' = setRun c.position (c.len - i) j i := by
  induction fuel generalizing i0 with
  | zero => simp [resetLoop] at h
  | succ f ih =>
    simp only [resetLoop] at h
    split at h
    · rename_i hlt
      split at h
      · rename_i j hj
        injection h with h
        exact ⟨i0, j, Nat.le_refl _, by omega, hlt, hj, h.symm⟩
      · obtain ⟨i, j, h1, h2, h3⟩ := ih (i0 + 1) h
        exact ⟨i, j, by omega, by omega, h3⟩
    · obtain ⟨i, j, h1, h2, h3⟩ := ih (i0 + 1) h
      exact ⟨i, j, by omega, by omega, h3⟩

/-! ### the iterator invariant -/

/-- a valid iterator state: sorted data, `len` strictly increasing in-range positions -/
structure Inv (c : Comb) : Prop where
  sorted : c.original.Pairwise (· ≤ ·)
  posLen : c.position.length = c.len
  lenPos : 1 ≤ c.len
  lenLt : c.len < c.original.length
  incr : c.position.Pairwise (· < ·)
  inRange : ∀ i ∈ c.position, i < c.original.length

theorem lex_of_split (f : Nat → Nat) (pre : List Nat) (a b : Nat) (s1 s2 : List Nat)
    (h : f a < f b) : (pre ++ a :: s1).map f < (pre ++ b :: s2).map f := by
  simp only [List.map_append, List.map_cons]
  exact (List.lt_iff_lex_lt _ _).2 (List.Lex.append_left _ (List.Lex.rel h) _)

/-- one step of a started iterator: the state stays valid and the output grows -/
theorem next_step (c : Comb) (hinv : Inv c) (hst : c.started = true) (v : List Nat) (c' : Comb)
    (h : c.next = (some v, c')) :
    Inv c' ∧ c'.started = true ∧ c'.original = c.original ∧ c'.len = c.len ∧ v = c'.insert
      ∧ c.insert < c'.insert := by
  obtain ⟨hsorted, hposLen, hlenPos, hlenLt, hincr, hrange⟩ := hinv
  unfold next at h
  simp only [hst, Bool.not_true, Bool.false_eq_true, if_false] at h
  split at h
  · -- reset branch
    rename_i hback
    split at h
    · rename_i pos' hreset
      injection h with h1 h2
      injection h1 with h1
      subst h2
      obtain ⟨i, j, hi2, hilen, hlt, hfind, hpos'⟩ := resetLoop_spec c _ _ pos' hreset
      have hi : i ≤ c.len := by omega
      -- split the position vector at len - i
      have hidx : c.len - i < c.position.length := by omega
      obtain ⟨pre, lastpos, suf, hsplit, hprelen⟩ : ∃ pre lastpos suf,
          c.position = pre ++ lastpos :: suf ∧ pre.length = c.len - i := by
        refine ⟨c.position.take (c.len - i), c.position[c.len - i], c.position.drop (c.len - i + 1), ?_, ?_⟩
        · rw [← List.drop_eq_getElem_cons hidx, List.take_append_drop]
        · simp; omega
      have hsuflen : suf.length + 1 = i := by
        have := congrArg List.length hsplit
        simp only [List.length_append, List.length_cons] at this
        omega
      have hlp : getD' c.position (c.len - i) 0 = lastpos := by
        rw [hsplit, ← hprelen]
        simp [getD']
      rw [hlp] at hlt hfind
      obtain ⟨hj1, hj2, hjv, hjmin⟩ := findGreater_spec _ _ _ _ _ hfind
      have hlastR : lastpos < c.original.length := hrange lastpos (by rw [hsplit]; simp)
      -- the bound index: original.length - i carries a larger value, so it lies after lastpos
      have hbound : lastpos < c.original.length - i := by
        by_contra hcon
        have := sorted_mono c.original hsorted (c.original.length - i) lastpos (by omega) hlastR
        omega
      have hjle : j ≤ c.original.length - i := by
        by_contra hcon
        exact hjmin (c.original.length - i) (by omega) (by omega) hlt
      have hnew : pos' = pre ++ (List.range i).map (j + ·) := by
        rw [hpos', hsplit, ← hprelen, setRun_append pre (lastpos :: suf) j i (by simp; omega)]
        rw [List.drop_of_length_le (by simp; omega)]
        simp
      have hpw := (List.pairwise_append.1 (hsplit ▸ hincr))
      refine ⟨⟨hsorted, ?_, hlenPos, hlenLt, ?_, ?_⟩, rfl, rfl, rfl, h1.symm, ?_⟩
      · simp only [hnew, List.length_append, List.length_map, List.length_range]; omega
      · simp only [hnew]
        rw [List.pairwise_append]
        refine ⟨hpw.1, ?_, ?_⟩
        · rw [List.pairwise_map]
          exact List.pairwise_lt_range.imp (fun h => by omega)
        · intro a ha b hb
          simp only [List.mem_map, List.mem_range] at hb
          obtain ⟨t, _, rfl⟩ := hb
          have := hpw.2.2 a ha lastpos (by simp)
          omega
      · intro a ha
        simp only [hnew, List.mem_append, List.mem_map, List.mem_range] at ha
        rcases ha with ha | ⟨t, ht, rfl⟩
        · exact hrange a (by rw [hsplit]; simp [ha])
        · show j + t < c.original.length
          omega
      · simp only [insert, hnew]
        rw [hsplit]
        cases i with
        | zero => omega
        | succ i' =>
          rw [List.range_succ_eq_map]
          simp only [List.map_cons, List.map_map]
          exact lex_of_split _ pre lastpos (j + 0) suf _ (by simpa using hjv)
    · cases h
  · -- bump branch
    rename_i hback
    injection h with h1 h2
    injection h1 with h1
    subst h2
    obtain ⟨init, last, hsplit⟩ : ∃ init last, c.position = init ++ [last] := by
      have hne : c.position ≠ [] := by
        intro h0; rw [h0] at hposLen; simp at hposLen; omega
      exact ⟨c.position.dropLast, c.position.getLast hne, (List.dropLast_append_getLast hne).symm⟩
    have hinitlen : init.length + 1 = c.len := by
      have := congrArg List.length hsplit
      simp only [List.length_append, List.length_cons, List.length_nil] at this
      omega
    have hlast : getD' c.position (c.len - 1) 0 = last := by
      rw [hsplit, show c.len - 1 = init.length + 0 by omega, getD'_append_right]
      simp [getD']
    have hlastR : last < c.original.length := hrange last (by rw [hsplit]; simp)
    have hne : getD' c.original last 0 ≠ getD' c.original (c.original.length - 1) 0 := by
      simpa [backAtMax, hlast] using hback
    have hlt1 : last < c.original.length - 1 := by
      by_contra hcon
      apply hne
      rw [show last = c.original.length - 1 by omega]
    have he : c.original[c.original.length - 1]? ≠ some (getD' c.original last 0) := by
      intro h0
      apply hne
      have : getD' c.original (c.original.length - 1) 0 = (c.original[c.original.length - 1]?).getD 0 := rfl
      rw [this, h0]; rfl
    obtain ⟨hs1, hs2, hs3⟩ := skipEqual_spec c.original (getD' c.original last 0)
      c.original.length last (c.original.length - 1) hlt1 he (by omega)
    have hnew : bump c = init ++ [skipEqual c.original (getD' c.original last 0) c.original.length last] := by
      unfold bump
      simp only [hlast]
      rw [hsplit, show c.len - 1 = init.length by omega, List.set_append_right _ _ (by omega)]
      simp
    have hpw := (List.pairwise_append.1 (hsplit ▸ hincr))
    generalize hr : skipEqual c.original (getD' c.original last 0) c.original.length last = r at *
    have hrR : r < c.original.length := by omega
    have hvlt : getD' c.original last 0 < getD' c.original r 0 := by
      have hle := sorted_mono c.original hsorted last r (by omega) hrR
      have hne' : getD' c.original r 0 ≠ getD' c.original last 0 := by
        intro h0
        apply hs3
        rw [← h0, getD'_lt c.original r 0 hrR, List.getElem?_eq_getElem hrR]
      omega
    refine ⟨⟨hsorted, ?_, hlenPos, hlenLt, ?_, ?_⟩, rfl, rfl, rfl, h1.symm, ?_⟩
    · simp only [hnew, List.length_append, List.length_cons, List.length_nil]; omega
    · simp only [hnew]
      rw [List.pairwise_append]
      refine ⟨hpw.1, by simp, ?_⟩
      intro a ha b hb
      simp only [List.mem_singleton] at hb
      subst hb
      have := hpw.2.2 a ha last (by simp)
      omega
    · intro a ha
      simp only [hnew, List.mem_append, List.mem_singleton] at ha
      rcases ha with ha | rfl
      · exact hrange a (by rw [hsplit]; simp [ha])
      · exact hrR
    · simp only [insert, hnew]
      rw [hsplit]
      exact lex_of_split _ init last _ [] [] hvlt

/-! ### the whole iteration -/

/-- `v` is a selection of `k` entries of `orig` at strictly increasing positions -/
def Good (orig : List Nat) (k : Nat) (v : List Nat) : Prop :=
  ∃ pos : List Nat, pos.Pairwise (· < ·) ∧ (∀ i ∈ pos, i < orig.length) ∧ pos.length = k ∧
    v = pos.map (fun n => getD' orig n 0)

theorem good_insert (c : Comb) (h : Inv c) : Good c.original c.len c.insert :=
  ⟨c.position, h.incr, h.inRange, h.posLen, rfl⟩

theorem collect_started (f : Nat) (c : Comb) (hinv : Inv c) (hst : c.started = true) :
    (collect f c).Pairwise (· < ·) ∧
      ∀ v ∈ collect f c, c.insert < v ∧ Good c.original c.len v := by
  induction f generalizing c with
  | zero => simp [collect]
  | succ f ih =>
    simp only [collect]
    cases hn : c.next with
    | mk o c' =>
      cases o with
      | none => simp
      | some v =>
        obtain ⟨hinv', hst', horig, hlen, hv, hlt⟩ := next_step c hinv hst v c' hn
        obtain ⟨hpw, hall⟩ := ih c' hinv' hst'
        simp only
        refine ⟨List.pairwise_cons.2 ⟨fun w hw => ?_, hpw⟩, fun w hw => ?_⟩
        · rw [hv]; exact (hall w hw).1
        · rcases List.mem_cons.1 hw with rfl | hw
          · rw [hv]
            exact ⟨hlt, by rw [← horig, ← hlen]; exact good_insert c' hinv'⟩
          · have := hall w hw
            exact ⟨lt_trans hlt this.1, by rw [← horig, ← hlen]; exact this.2⟩

theorem insertNat_perm (a : Nat) (l : List Nat) : (insertNat a l).Perm (a :: l) := by
  induction l with
  | nil => exact List.Perm.refl _
  | cons b l ih =>
    simp only [insertNat]
    split
    · exact (List.Perm.cons b ih).trans (List.Perm.swap a b l)
    · exact List.Perm.refl _

theorem sortNat_perm (l : List Nat) : (sortNat l).Perm l := by
  induction l with
  | nil => exact List.Perm.refl _
  | cons a l ih => exact (insertNat_perm a _).trans (List.Perm.cons a ih)

theorem insertNat_sorted (a : Nat) (l : List Nat) (h : l.Pairwise (· ≤ ·)) :
    (insertNat a l).Pairwise (· ≤ ·) := by
  induction l with
  | nil => simp [insertNat]
  | cons b l ih =>
    simp only [insertNat]
    obtain ⟨hb, hl⟩ := List.pairwise_cons.1 h
    split
    · rename_i hlt
      refine List.pairwise_cons.2 ⟨fun x hx => ?_, ih hl⟩
      rcases List.mem_cons.1 ((insertNat_perm a l).mem_iff.1 hx) with rfl | hx
      · omega
      · exact hb x hx
    · rename_i hge
      refine List.pairwise_cons.2 ⟨fun x hx => ?_, h⟩
      rcases List.mem_cons.1 hx with rfl | hx
      · omega
      · have := hb x hx; omega

theorem sortNat_sorted (l : List Nat) : (sortNat l).Pairwise (· ≤ ·) := by
  induction l with
  | nil => simp [sortNat]
  | cons a l ih => exact insertNat_sorted a _ ih

theorem inv_new (original : List Nat) (len : Nat) (c : Comb) (h : Comb.new original len = .ok c) :
    Inv c ∧ c.started = false ∧ c.original = sortNat original ∧ c.len = len := by
  unfold Comb.new at h
  split at h
  · rename_i hc
    injection h with h
    subst h
    have hlen : (sortNat original).length = original.length := (sortNat_perm original).length_eq
    refine ⟨⟨sortNat_sorted original, by simp, hc.2, by simp only; omega, List.pairwise_lt_range, ?_⟩,
      rfl, rfl, rfl⟩
    intro i hi
    simp only [List.mem_range] at hi
    simp only; omega
  · cases h

/-- a selection at increasing positions of a sorted vector is sorted and has `k` entries -/
theorem good_sorted (orig : List Nat) (hs : orig.Pairwise (· ≤ ·)) (k : Nat) (v : List Nat)
    (h : Good orig k v) : v.Pairwise (· ≤ ·) ∧ v.length = k ∧ ∀ x ∈ v, x ∈ orig := by
  obtain ⟨pos, hpw, hr, hl, rfl⟩ := h
  refine ⟨?_, by simpa using hl, ?_⟩
  · rw [List.pairwise_map]
    refine List.Pairwise.imp_of_mem ?_ hpw
    intro a b ha hb hab
    exact sorted_mono orig hs a b (by omega) (hr b hb)
  · intro x hx
    simp only [List.mem_map] at hx
    obtain ⟨n, hn, rfl⟩ := hx
    exact getD'_mem orig n 0 (hr n hn)

/-- **The `Combinations` iterator, all inputs.** Whenever `Combinations::new(original, k)` does
not panic, the collected outputs are strictly increasing in the lexicographic order (hence pairwise
distinct), and each output is a selection of `k` entries of the sorted input at strictly increasing
positions (a sub-multiset of the input), itself sorted. -/
theorem combinations_spec (original : List Nat) (k : Nat) (outs : List (List Nat))
    (h : combinations original k = .ok outs) :
    outs.Pairwise (· < ·) ∧ outs.Nodup ∧
      ∀ v ∈ outs, Comb.Good (sortNat original) k v ∧ v.Pairwise (· ≤ ·) ∧ v.length = k ∧
        ∀ x ∈ v, x ∈ original := by
  unfold combinations at h
  split at h
  · cases h
  · rename_i c hc
    injection h with h
    obtain ⟨hinv, hst, horig, hlen⟩ := Comb.inv_new original k c hc
    have key : outs.Pairwise (· < ·) ∧ ∀ v ∈ outs, Comb.Good (sortNat original) k v := by
      rw [← h]
      generalize 2 ^ original.length = fuel
      cases fuel with
      | zero => simp [Comb.collect]
      | succ f =>
        have hnext : c.next = (some ({ c with started := true } : Comb).insert, { c with started := true }) := by
          unfold Comb.next; simp [hst]
        simp only [Comb.collect, hnext]
        have hinv' : Comb.Inv ({ c with started := true } : Comb) :=
          ⟨hinv.sorted, hinv.posLen, hinv.lenPos, hinv.lenLt, hinv.incr, hinv.inRange⟩
        obtain ⟨hpw, hall⟩ := Comb.collect_started f _ hinv' rfl
        refine ⟨List.pairwise_cons.2 ⟨fun w hw => (hall w hw).1, hpw⟩, fun w hw => ?_⟩
        rcases List.mem_cons.1 hw with rfl | hw
        · have := Comb.good_insert _ hinv'
          rw [← horig, ← hlen]; exact this
        · have := (hall w hw).2
          rw [← horig, ← hlen]; exact this
    refine ⟨key.1, ?_, fun v hv => ?_⟩
    · exact key.1.imp (fun hab => ne_of_lt hab)
    · have hg := key.2 v hv
      obtain ⟨h1, h2, h3⟩ := Comb.good_sorted _ (Comb.sortNat_sorted original) k v hg
      exact ⟨hg, h1, h2, fun x hx => (Comb.sortNat_perm original).mem_iff.1 (h3 x hx)⟩

end Comb
end PCV
