/-
  PCV.Proofs.HyraxSound — special soundness of Hyrax's proof of dot-product (equations (13), (14) and the
  evaluation-commitment test): two accepting transcripts with the same first message and different
  challenges give Pedersen openings of the row combination `T' = ⟨L, row_coms⟩` and of `com_eval` that
  are tied together by `R`; with the third test they pin the claimed value unless a discrete-log
  relation between `com_key[0]` and `h` has been found.
-/
import PCV.Proofs.Hyrax

set_option linter.unusedSectionVars false

namespace PCV
namespace Hyrax
variable {F : Type} [Field F] [DecidableEq F]

/-- scale every entry -/
def vscale (s : F) (v : List F) : List F := v.map (s * ·)
/-- entrywise difference -/
def vsub (a b : List F) : List F := List.zipWith (· - ·) a b

theorem dot_vsub (k a b : List F) (h : a.length = b.length) :
    dot k (vsub a b) = dot k a - dot k b := by
  induction k generalizing a b with
  | nil => simp [vsub]
  | cons x xs ih =>
    cases a with
    | nil =>
      cases b with
      | nil => simp [vsub]
      | cons _ _ => simp at h
    | cons y ys =>
      cases b with
      | nil => simp at h
      | cons w ws =>
        have := ih ys ws (by simpa using h)
        simp only [vsub, List.zipWith_cons_cons, dot_cons] at this ⊢
        rw [this]; ring

theorem dot_vscale (k v : List F) (s : F) : dot k (vscale s v) = s * dot k v := by
  induction k generalizing v with
  | nil => simp [vscale]
  | cons x xs ih =>
    cases v with
    | nil => simp [vscale]
    | cons y ys =>
      have := ih ys
      simp only [vscale, List.map_cons, dot_cons] at this ⊢
      rw [this]; ring

/-- **Special soundness.** Two accepted responses `(z, z_d, z_b)`, `(z', z_d', z_b')` to challenges
`c ≠ c'` for the same first message `(com_eval, com_d, com_b)` (equations (13) and (14) hold for both):
with `w = (z − z')/(c − c')`, `ρ = (z_d − z_d')/(c − c')`, `σ = (z_b − z_b')/(c − c')`
* `⟨L, row_coms⟩ = ⟨com_key, w⟩ + ρ·h` — an opening of the row combination to the vector `w`,
* `com_eval = ⟨R, w⟩·com_key[0] + σ·h` — an opening of the evaluation commitment to `⟨R, w⟩`. -/
theorem special_soundness (ks : List F) (k0 hh : F) (L R T : List F)
    (ce cd cb : F) (z z' : List F) (zd zd' zb zb' re re' c c' : F) (hc : c ≠ c')
    (hlen : z.length = z'.length)
    (h13 : defect13 ks hh L T ⟨ce, cd, cb, z, zd, zb, re⟩ c = 0)
    (h13' : defect13 ks hh L T ⟨ce, cd, cb, z', zd', zb', re'⟩ c' = 0)
    (h14 : defect14 k0 hh R ⟨ce, cd, cb, z, zd, zb, re⟩ c = 0)
    (h14' : defect14 k0 hh R ⟨ce, cd, cb, z', zd', zb', re'⟩ c' = 0) :
    dot T L = dot ks (vscale (c - c')⁻¹ (vsub z z')) + hh * ((zd - zd') * (c - c')⁻¹) ∧
    ce = k0 * dot R (vscale (c - c')⁻¹ (vsub z z')) + hh * ((zb - zb') * (c - c')⁻¹) := by
  have hne : c - c' ≠ 0 := sub_ne_zero.2 hc
  have hi : (c - c') * (c - c')⁻¹ = 1 := mul_inv_cancel₀ hne
  unfold defect13 at h13 h13'
  unfold defect14 innerProduct at h14 h14'
  simp only at h13 h13' h14 h14'
  rw [dot_vscale, dot_vsub ks z z' hlen, dot_vscale, dot_vsub R z z' hlen]
  constructor
  · have : dot T L * (c - c') = dot ks z - dot ks z' + hh * (zd - zd') := by
      linear_combination h13' - h13
    linear_combination (c - c')⁻¹ * this - dot T L * hi
  · have : ce * (c - c') = k0 * (dot R z - dot R z') + hh * (zb - zb') := by
      linear_combination h14' - h14
    linear_combination (c - c')⁻¹ * this - ce * hi

/-- … and with the evaluation-commitment test `com_eval = value·com_key[0] + r_eval·h`: the extracted
vector `w` evaluates to the claimed value, `⟨R, w⟩ = value`, unless
`(⟨R,w⟩ − value)·com_key[0] + (σ − r_eval)·h = 0` is a non-trivial relation between the two generators. -/
theorem value_or_relation (k0 hh : F) (R w : List F) (ce σ value rEval : F)
    (hopen : ce = k0 * dot R w + hh * σ)
    (heval : ce - (k0 * value + hh * rEval) = 0) :
    (dot R w - value) * k0 + (σ - rEval) * hh = 0 := by
  linear_combination heval - hopen

end Hyrax
end PCV
