/-
  PCV.Proofs.CalcT — the number of opened columns: monotonicity of the soundness bound, leastness
  of `tSpec`, justification of the search cap, soundness of the certified fast evaluation, range of
  the derived indices.
-/
import PCV.Model.CalcT
import Mathlib.Tactic.Ring
import Mathlib.Tactic.Linarith
import Mathlib.Tactic.Positivity
import Mathlib.Tactic.FieldSimp
import Mathlib.Algebra.Order.Field.Basic
import Mathlib.Data.Rat.Defs
import Mathlib.Data.Nat.Log

namespace PCV
namespace LinCode

/-! ### the bound -/

theorem boundHolds_iff (lam d0 d1 n q t : Nat) :
    boundHolds lam d0 d1 n q t = true ↔
      2 * (2 * d1 - d0) ^ t * q * 2 ^ lam + n * (2 * d1) ^ t * 2 ^ lam ≤ (2 * d1) ^ t * q := by
  show decide (2 * (2 * d1 - d0) ^ t * q * 2 ^ lam + n * (2 * d1) ^ t * 2 ^ lam ≤ (2 * d1) ^ t * q)
    = true ↔ _
  rw [decide_eq_true_iff]

/-- If the bound holds for `t` openings it holds for `t + 1` (no side condition: in ℕ
`2·d1 − d0 ≤ 2·d1` always). -/
theorem bound_mono (lam d0 d1 n q t : Nat) (h : boundHolds lam d0 d1 n q t = true) :
    boundHolds lam d0 d1 n q (t + 1) = true := by
  rw [boundHolds_iff] at h ⊢
  have hab : 2 * d1 - d0 ≤ 2 * d1 := Nat.sub_le _ _
  have h1 : 2 * (2 * d1 - d0) ^ (t + 1) * q * 2 ^ lam
      ≤ (2 * (2 * d1 - d0) ^ t * q * 2 ^ lam) * (2 * d1) := by
    have : (2 * d1 - d0) ^ (t + 1) ≤ (2 * d1 - d0) ^ t * (2 * d1) := by
      rw [pow_succ]; exact Nat.mul_le_mul_left _ hab
    calc 2 * (2 * d1 - d0) ^ (t + 1) * q * 2 ^ lam
        ≤ 2 * ((2 * d1 - d0) ^ t * (2 * d1)) * q * 2 ^ lam := by
          apply Nat.mul_le_mul_right; apply Nat.mul_le_mul_right; exact Nat.mul_le_mul_left _ this
      _ = (2 * (2 * d1 - d0) ^ t * q * 2 ^ lam) * (2 * d1) := by ring
  have h2 : n * (2 * d1) ^ (t + 1) * 2 ^ lam = (n * (2 * d1) ^ t * 2 ^ lam) * (2 * d1) := by ring
  have h3 : (2 * d1) ^ (t + 1) * q = ((2 * d1) ^ t * q) * (2 * d1) := by ring
  rw [h2, h3]
  calc _ ≤ (2 * (2 * d1 - d0) ^ t * q * 2 ^ lam) * (2 * d1) + n * (2 * d1) ^ t * 2 ^ lam * (2 * d1) :=
        Nat.add_le_add_right h1 _
    _ = (2 * (2 * d1 - d0) ^ t * q * 2 ^ lam + n * (2 * d1) ^ t * 2 ^ lam) * (2 * d1) := by ring
    _ ≤ _ := Nat.mul_le_mul_right _ h

theorem bound_mono_le (lam d0 d1 n q : Nat) {t t' : Nat} (hle : t ≤ t')
    (h : boundHolds lam d0 d1 n q t = true) : boundHolds lam d0 d1 n q t' = true := by
  induction hle with
  | refl => exact h
  | step _ ih => exact bound_mono _ _ _ _ _ _ ih

/-- The cleared-denominator inequality is the rational soundness bound
`2·(1 − d/2)^t + n/q ≤ 2^(−lam)` with `d = d0/d1`. -/
theorem boundHolds_iff_rat (lam d0 d1 n q t : Nat) (hd : d0 ≤ 2 * d1) (hd1 : 0 < d1) (hq : 0 < q) :
    boundHolds lam d0 d1 n q t = true ↔
      (2 : ℚ) * (1 - ((d0 : ℚ) / d1) / 2) ^ t + (n : ℚ) / q ≤ 1 / 2 ^ lam := by
  rw [boundHolds_iff]
  have hd1' : (0 : ℚ) < d1 := by exact_mod_cast hd1
  have hq' : (0 : ℚ) < q := by exact_mod_cast hq
  have hL : (0 : ℚ) < 2 ^ lam := by positivity
  have hbt : (0 : ℚ) < (2 * (d1 : ℚ)) ^ t := by positivity
  have e1 : (1 - ((d0 : ℚ) / d1) / 2) = ((2 * d1 - d0 : ℕ) : ℚ) / (2 * (d1 : ℚ)) := by
    rw [Nat.cast_sub hd]; push_cast; field_simp
  rw [e1, div_pow]
  set A : ℚ := ((2 * d1 - d0 : ℕ) : ℚ) ^ t with hA
  set B : ℚ := (2 * (d1 : ℚ)) ^ t with hB
  have e2 : (2 : ℚ) * (A / B) + (n : ℚ) / q = (2 * A * q + n * B) / (B * q) := by
    field_simp
  rw [e2, div_le_div_iff₀ (by positivity) hL, one_mul]
  have e3 : (2 * A * q + n * B) * 2 ^ lam = 2 * A * q * 2 ^ lam + n * B * 2 ^ lam := by ring
  rw [e3, hA, hB]
  rw [← Nat.cast_le (α := ℚ)]
  push_cast
  rfl

/-! ### bounded search -/

theorem findFrom_some (p : Nat → Bool) (fuel s t : Nat) (h : findFrom p fuel s = some t) :
    s ≤ t ∧ t < s + fuel ∧ p t = true ∧ ∀ k, s ≤ k → k < t → p k = false := by
  induction fuel generalizing s with
  | zero => simp [findFrom] at h
  | succ fuel ih =>
    unfold findFrom at h
    by_cases hp : p s = true
    · rw [if_pos hp] at h
      cases h
      exact ⟨le_refl _, by omega, hp, fun k h1 h2 => by omega⟩
    · rw [if_neg hp] at h
      obtain ⟨h1, h2, h3, h4⟩ := ih (s + 1) h
      refine ⟨by omega, by omega, h3, fun k hk1 hk2 => ?_⟩
      by_cases hks : k = s
      · subst hks; simpa using hp
      · exact h4 k (by omega) hk2

theorem findFrom_none (p : Nat → Bool) (fuel s : Nat) (h : findFrom p fuel s = none) :
    ∀ k, s ≤ k → k < s + fuel → p k = false := by
  induction fuel generalizing s with
  | zero => intro k h1 h2; omega
  | succ fuel ih =>
    unfold findFrom at h
    by_cases hp : p s = true
    · rw [if_pos hp] at h; cases h
    · rw [if_neg hp] at h
      intro k h1 h2
      by_cases hks : k = s
      · subst hks; simpa using hp
      · exact ih (s + 1) h k (by omega) (by omega)

theorem findFrom_of_least (p : Nat → Bool) (fuel s t : Nat) (hs : s ≤ t) (ht : t < s + fuel)
    (hp : p t = true) (hl : ∀ k, s ≤ k → k < t → p k = false) : findFrom p fuel s = some t := by
  cases hf : findFrom p fuel s with
  | none => have := findFrom_none p fuel s hf t hs ht; rw [hp] at this; cases this
  | some t' =>
    obtain ⟨h1, h2, h3, h4⟩ := findFrom_some p fuel s t' hf
    have : ¬ t' < t := fun hlt => by have := hl t' h1 hlt; rw [h3] at this; cases this
    have : ¬ t < t' := fun hlt => by have := h4 t hs hlt; rw [hp] at this; cases this
    congr 1; omega

/-! ### `tLeast` is the least `t` satisfying the bound -/

theorem tLeast_some (lam d0 d1 n q t : Nat) (h : tLeast lam d0 d1 n q = some t) :
    boundHolds lam d0 d1 n q t = true ∧ (∀ k, k < t → boundHolds lam d0 d1 n q k = false) ∧
      t ≤ tCap lam d1 q := by
  obtain ⟨_, h2, h3, h4⟩ := findFrom_some _ _ _ _ h
  exact ⟨h3, fun k hk => h4 k (Nat.zero_le _) hk, by omega⟩

theorem tLeast_none (lam d0 d1 n q : Nat) (h : tLeast lam d0 d1 n q = none) :
    ∀ k, k ≤ tCap lam d1 q → boundHolds lam d0 d1 n q k = false := by
  intro k hk
  exact findFrom_none _ _ _ h k (Nat.zero_le _) (by omega)

/-- a value at which the bound holds but not one step earlier is `tLeast` (by monotonicity) -/
theorem tLeast_of_boundary (lam d0 d1 n q t : Nat) (hcap : t ≤ tCap lam d1 q)
    (hb : boundHolds lam d0 d1 n q t = true)
    (hprev : t = 0 ∨ boundHolds lam d0 d1 n q (t - 1) = false) :
    tLeast lam d0 d1 n q = some t := by
  apply findFrom_of_least _ _ _ _ (Nat.zero_le _) (by omega) hb
  intro k _ hk
  cases hprev with
  | inl h0 => omega
  | inr hp =>
    cases hbk : boundHolds lam d0 d1 n q k with
    | false => rfl
    | true =>
      have := bound_mono_le lam d0 d1 n q (show k ≤ t - 1 by omega) hbk
      rw [hp] at this; cases this

/-! ### the cap is large enough -/

/-- `m·(m+1)^k ≥ (m+k)·m^k` (Bernoulli, cleared of the division) -/
theorem bernoulli_nat (m k : Nat) : (m + k) * m ^ k ≤ m * (m + 1) ^ k := by
  induction k with
  | zero => simp
  | succ k ih =>
    calc (m + (k + 1)) * m ^ (k + 1) ≤ ((m + k) * m ^ k) * (m + 1) := by
          have : (m + (k + 1)) * m ^ (k + 1) = (m * m + k * m + m) * m ^ k := by ring
          rw [this]
          have : (m + k) * m ^ k * (m + 1) = (m * m + k * m + m + k) * m ^ k := by ring
          rw [this]
          exact Nat.mul_le_mul_right _ (by omega)
      _ ≤ (m * (m + 1) ^ k) * (m + 1) := Nat.mul_le_mul_right _ ih
      _ = m * (m + 1) ^ (k + 1) := by ring

/-- `(m+1)^m ≥ 2·m^m` for `m ≥ 1` -/
theorem two_mul_pow_le (m : Nat) (hm : 0 < m) : 2 * m ^ m ≤ (m + 1) ^ m := by
  have h := bernoulli_nat m m
  have : (m + m) * m ^ m = m * (2 * m ^ m) := by ring
  rw [this] at h
  exact Nat.le_of_mul_le_mul_left h hm

/-- for `1 ≤ a < b`: `b^((b−1)·k) ≥ 2^k · a^((b−1)·k)` -/
theorem pow_gap (a b k : Nat) (hab : a < b) (hb1 : 1 < b) :
    2 ^ k * a ^ ((b - 1) * k) ≤ b ^ ((b - 1) * k) := by
  obtain ⟨m, rfl⟩ : ∃ m, b = m + 1 := ⟨b - 1, by omega⟩
  simp only [Nat.add_sub_cancel]
  have hm : 0 < m := by omega
  have h1 : 2 * a ^ m ≤ (m + 1) ^ m :=
    le_trans (Nat.mul_le_mul_left 2 (Nat.pow_le_pow_left (by omega) m)) (two_mul_pow_le m hm)
  calc 2 ^ k * a ^ (m * k) = (2 * a ^ m) ^ k := by rw [mul_pow, pow_mul]
    _ ≤ ((m + 1) ^ m) ^ k := Nat.pow_le_pow_left h1 k
    _ = (m + 1) ^ (m * k) := by rw [pow_mul]

theorem lt_two_pow_log2_succ (q : Nat) : q < 2 ^ (Nat.log2 q + 1) := by
  rw [Nat.log2_eq_log_two]
  exact Nat.lt_pow_succ_log_self (by omega) q

/-- **The search cap is justified.** With a usable distance and `q > 0`, if the bound holds for
some `t` it holds at `tCap`. -/
theorem bound_at_cap (lam d0 d1 n q t : Nat) (hd0 : 0 < d0) (hd : d0 < 2 * d1) (hq : 0 < q)
    (h : boundHolds lam d0 d1 n q t = true) :
    boundHolds lam d0 d1 n q (tCap lam d1 q) = true := by
  have hbpos : 0 < 2 * d1 := by omega
  -- the residual is strictly below 2^-lam
  have hres : n * 2 ^ lam < q := by
    rw [boundHolds_iff] at h
    by_contra hcon
    have hcon : q ≤ n * 2 ^ lam := by omega
    have hapos : 0 < (2 * d1 - d0) ^ t := Nat.pow_pos (by omega)
    have hbt : 0 < (2 * d1) ^ t := Nat.pow_pos hbpos
    have h1 : (2 * d1) ^ t * q ≤ n * (2 * d1) ^ t * 2 ^ lam := by
      calc (2 * d1) ^ t * q ≤ (2 * d1) ^ t * (n * 2 ^ lam) := Nat.mul_le_mul_left _ hcon
        _ = n * (2 * d1) ^ t * 2 ^ lam := by ring
    have h2 : 0 < 2 * (2 * d1 - d0) ^ t * q * 2 ^ lam := by positivity
    omega
  -- bound at (b-1)*K, then monotone up to b*K
  have hT : boundHolds lam d0 d1 n q ((2 * d1 - 1) * (lam + Nat.log2 q + 2)) = true := by
    rw [boundHolds_iff]
    generalize hTdef : (2 * d1 - 1) * (lam + Nat.log2 q + 2) = T
    have hgap := pow_gap (2 * d1 - d0) (2 * d1) (lam + Nat.log2 q + 2) (by omega) (by omega)
    rw [hTdef] at hgap
    have hq2 : 2 * q * 2 ^ lam ≤ 2 ^ (lam + Nat.log2 q + 2) := by
      have := lt_two_pow_log2_succ q
      calc 2 * q * 2 ^ lam ≤ 2 * 2 ^ (Nat.log2 q + 1) * 2 ^ lam := by
            apply Nat.mul_le_mul_right; apply Nat.mul_le_mul_left; omega
        _ = 2 ^ (lam + Nat.log2 q + 2) := by ring
    obtain ⟨S, hS⟩ : ∃ S, q = n * 2 ^ lam + (S + 1) := ⟨q - n * 2 ^ lam - 1, by omega⟩
    have h1 : 2 * (2 * d1 - d0) ^ T * q * 2 ^ lam ≤ (2 * d1) ^ T := by
      calc 2 * (2 * d1 - d0) ^ T * q * 2 ^ lam = (2 * q * 2 ^ lam) * (2 * d1 - d0) ^ T := by ring
        _ ≤ 2 ^ (lam + Nat.log2 q + 2) * (2 * d1 - d0) ^ T := Nat.mul_le_mul_right _ hq2
        _ ≤ (2 * d1) ^ T := hgap
    have h2 : (2 * d1) ^ T * q = n * (2 * d1) ^ T * 2 ^ lam + (2 * d1) ^ T * (S + 1) := by
      rw [hS]; ring
    rw [h2]
    have : (2 * d1) ^ T ≤ (2 * d1) ^ T * (S + 1) := Nat.le_mul_of_pos_right _ (by omega)
    omega
  refine bound_mono_le lam d0 d1 n q ?_ hT
  unfold tCap
  exact Nat.mul_le_mul_right _ (by omega)

/-- `tLeast = none` means that no number of openings reaches the security level. -/
theorem tLeast_none_all (lam d0 d1 n q : Nat) (hd0 : 0 < d0) (hd : d0 < 2 * d1) (hq : 0 < q)
    (h : tLeast lam d0 d1 n q = none) : ∀ t, boundHolds lam d0 d1 n q t = false := by
  intro t
  cases hb : boundHolds lam d0 d1 n q t with
  | false => rfl
  | true =>
    have h1 := bound_at_cap lam d0 d1 n q t hd0 hd hq hb
    have h2 := tLeast_none lam d0 d1 n q h _ (le_refl _)
    rw [h1] at h2; cases h2

/-- **`tLeast` is the least `t` satisfying the bound** (usable distance, `q > 0`). -/
theorem tLeast_eq_some_iff (lam d0 d1 n q t : Nat) (hd0 : 0 < d0) (hd : d0 < 2 * d1) (hq : 0 < q) :
    tLeast lam d0 d1 n q = some t ↔
      boundHolds lam d0 d1 n q t = true ∧ ∀ k, k < t → boundHolds lam d0 d1 n q k = false := by
  constructor
  · intro h; exact ⟨(tLeast_some _ _ _ _ _ _ h).1, (tLeast_some _ _ _ _ _ _ h).2.1⟩
  · rintro ⟨hb, hl⟩
    apply tLeast_of_boundary _ _ _ _ _ _ _ hb
    · rcases Nat.eq_zero_or_pos t with h0 | hpos
      · exact Or.inl h0
      · exact Or.inr (hl _ (by omega))
    · by_contra hgt
      have hcap := bound_at_cap lam d0 d1 n q t hd0 hd hq hb
      have := hl (tCap lam d1 q) (by omega)
      rw [hcap] at this; cases this

/-! ### unusable parameters -/

/-- If the residual `n/q` alone is `≥ 2^(−lam)` (or the distance is `0`) no `t` satisfies the bound. -/
theorem noneCert_sound (lam d0 d1 n q : Nat) (h : noneCert lam d0 d1 n q = true) :
    ∀ t, boundHolds lam d0 d1 n q t = false := by
  intro t
  cases hb : boundHolds lam d0 d1 n q t with
  | false => rfl
  | true =>
    exfalso
    rw [boundHolds_iff] at hb
    unfold noneCert at h
    simp only [Bool.and_eq_true, Bool.or_eq_true, decide_eq_true_eq] at h
    obtain ⟨hd1, hc⟩ := h
    have hbt : 0 < (2 * d1) ^ t := Nat.pow_pos (by omega)
    rcases hc with hlt | ⟨hq, hc⟩
    · have h1 : (2 * d1) ^ t * q < n * (2 * d1) ^ t * 2 ^ lam := by
        calc (2 * d1) ^ t * q < (2 * d1) ^ t * (n * 2 ^ lam) := Nat.mul_lt_mul_of_pos_left hlt hbt
          _ = n * (2 * d1) ^ t * 2 ^ lam := by ring
      omega
    · rcases hc with h0 | ⟨hd, hle⟩
      · subst h0
        simp only [Nat.sub_zero] at hb
        have hL : 0 < 2 ^ lam := Nat.pow_pos (by omega)
        have h1 : (2 * d1) ^ t * q < 2 * (2 * d1) ^ t * q * 2 ^ lam := by
          have hpos : 0 < (2 * d1) ^ t * q := Nat.mul_pos hbt hq
          calc (2 * d1) ^ t * q < 2 * ((2 * d1) ^ t * q) := by omega
            _ = 2 * ((2 * d1) ^ t * q) * 1 := by ring
            _ ≤ 2 * ((2 * d1) ^ t * q) * 2 ^ lam := Nat.mul_le_mul_left _ hL
            _ = 2 * (2 * d1) ^ t * q * 2 ^ lam := by ring
        omega
      · have h1 : (2 * d1) ^ t * q ≤ n * (2 * d1) ^ t * 2 ^ lam := by
          calc (2 * d1) ^ t * q ≤ (2 * d1) ^ t * (n * 2 ^ lam) := Nat.mul_le_mul_left _ hle
            _ = n * (2 * d1) ^ t * 2 ^ lam := by ring
        have h2 : 0 < 2 * (2 * d1 - d0) ^ t * q * 2 ^ lam := by
          have : 0 < (2 * d1 - d0) ^ t := Nat.pow_pos (by omega)
          positivity
        omega

theorem findFrom_eq_none_of_all (p : Nat → Bool) (fuel s : Nat) (h : ∀ k, p k = false) :
    findFrom p fuel s = none := by
  induction fuel generalizing s with
  | zero => rfl
  | succ fuel ih => unfold findFrom; rw [h s]; simpa using ih (s + 1)

/-! ### the certified fast evaluation computes the same function -/

theorem certified_sound (lam d0 d1 n q c : Nat)
    (h : certified (boundHolds lam d0 d1 n q) (tCap lam d1 q) c = true) :
    tLeast lam d0 d1 n q = some c := by
  unfold certified at h
  simp only [Bool.and_eq_true, Bool.or_eq_true, beq_iff_eq, Bool.not_eq_true', decide_eq_true_eq] at h
  exact tLeast_of_boundary _ _ _ _ _ _ h.1.1 h.1.2 h.2

theorem tLeastFast_eq (lam d0 d1 n q hint : Nat) :
    tLeastFast lam d0 d1 n q hint = tLeast lam d0 d1 n q := by
  unfold tLeastFast
  simp only
  split
  · rename_i h
    exact (findFrom_eq_none_of_all _ _ _ (noneCert_sound _ _ _ _ _ h)).symm
  · split
    · rename_i h
      simp only [Bool.and_eq_true] at h
      exact (certified_sound _ _ _ _ _ _ h.2).symm
    · split
      · rename_i h; exact (certified_sound _ _ _ _ _ _ h).symm
      · rfl

theorem capAt_eq_min (n t : Nat) : capAt n t = min t n := by
  unfold capAt; split <;> omega

/-- **`tSpec`**: the reported number is `min t n` for the least `t` satisfying the bound. -/
theorem tSpec_eq_some_iff (lam d0 d1 n q r : Nat) (hd0 : 0 < d0) (hd : d0 < 2 * d1) (hq : 0 < q) :
    tSpec lam d0 d1 n q = some r ↔
      ∃ t, r = min t n ∧ boundHolds lam d0 d1 n q t = true ∧
        ∀ k, k < t → boundHolds lam d0 d1 n q k = false := by
  unfold tSpec
  constructor
  · intro h
    cases ht : tLeast lam d0 d1 n q with
    | none => rw [ht] at h; cases h
    | some t =>
      rw [ht] at h
      simp only [Option.map_some, Option.some.injEq] at h
      exact ⟨t, by rw [← h, capAt_eq_min], (tLeast_eq_some_iff _ _ _ _ _ _ hd0 hd hq).1 ht⟩
  · rintro ⟨t, hr, hb⟩
    rw [(tLeast_eq_some_iff _ _ _ _ _ _ hd0 hd hq).2 hb]
    simp [hr, capAt_eq_min]

/-- `tSpec = none` (the code's `Err`) iff no number of openings reaches the security level. -/
theorem tSpec_eq_none_iff (lam d0 d1 n q : Nat) (hd0 : 0 < d0) (hd : d0 < 2 * d1) (hq : 0 < q) :
    tSpec lam d0 d1 n q = none ↔ ∀ t, boundHolds lam d0 d1 n q t = false := by
  unfold tSpec
  rw [Option.map_eq_none_iff]
  constructor
  · exact tLeast_none_all _ _ _ _ _ hd0 hd hq
  · intro h; exact findFrom_eq_none_of_all _ _ _ h

/-- with a usable distance, a `t` exists iff the residual is strictly below `2^(−lam)` -/
theorem tSpec_isSome_iff (lam d0 d1 n q : Nat) (hd0 : 0 < d0) (hd : d0 < 2 * d1) (hq : 0 < q) :
    (tSpec lam d0 d1 n q).isSome = true ↔ n * 2 ^ lam < q := by
  constructor
  · intro h
    by_contra hcon
    have hn : noneCert lam d0 d1 n q = true := by
      unfold noneCert
      simp only [Bool.and_eq_true, Bool.or_eq_true, decide_eq_true_eq]
      exact ⟨by omega, Or.inr ⟨hq, Or.inr ⟨hd, by omega⟩⟩⟩
    rw [(tSpec_eq_none_iff _ _ _ _ _ hd0 hd hq).2 (noneCert_sound _ _ _ _ _ hn)] at h
    cases h
  · intro h
    cases hs : tSpec lam d0 d1 n q with
    | some _ => rfl
    | none =>
      exfalso
      have hall := (tSpec_eq_none_iff _ _ _ _ _ hd0 hd hq).1 hs
      -- exhibit a t: the cap argument with S ≥ 1
      have hbpos : 0 < 2 * d1 := by omega
      have hgap := pow_gap (2 * d1 - d0) (2 * d1) (lam + Nat.log2 q + 2) (by omega) (by omega)
      generalize (2 * d1 - 1) * (lam + Nat.log2 q + 2) = T at hgap
      have hq2 : 2 * q * 2 ^ lam ≤ 2 ^ (lam + Nat.log2 q + 2) := by
        have := lt_two_pow_log2_succ q
        calc 2 * q * 2 ^ lam ≤ 2 * 2 ^ (Nat.log2 q + 1) * 2 ^ lam := by
              apply Nat.mul_le_mul_right; apply Nat.mul_le_mul_left; omega
          _ = 2 ^ (lam + Nat.log2 q + 2) := by ring
      have hT : boundHolds lam d0 d1 n q T = true := by
        rw [boundHolds_iff]
        obtain ⟨S, hS⟩ : ∃ S, q = n * 2 ^ lam + (S + 1) := ⟨q - n * 2 ^ lam - 1, by omega⟩
        have h1 : 2 * (2 * d1 - d0) ^ T * q * 2 ^ lam ≤ (2 * d1) ^ T := by
          calc 2 * (2 * d1 - d0) ^ T * q * 2 ^ lam = (2 * q * 2 ^ lam) * (2 * d1 - d0) ^ T := by ring
            _ ≤ 2 ^ (lam + Nat.log2 q + 2) * (2 * d1 - d0) ^ T := Nat.mul_le_mul_right _ hq2
            _ ≤ (2 * d1) ^ T := hgap
        have h2 : (2 * d1) ^ T * q = n * (2 * d1) ^ T * 2 ^ lam + (2 * d1) ^ T * (S + 1) := by
          rw [hS]; ring
        rw [h2]
        have : (2 * d1) ^ T ≤ (2 * d1) ^ T * (S + 1) := Nat.le_mul_of_pos_right _ (by omega)
        omega
      rw [hall T] at hT; cases hT

theorem cappedCert_sound (lam d0 d1 n q : Nat) (h : cappedCert lam d0 d1 n q = true) :
    tSpec lam d0 d1 n q = some n := by
  unfold cappedCert distanceUsable at h
  simp only [Bool.and_eq_true, decide_eq_true_eq, Bool.not_eq_true'] at h
  obtain ⟨⟨⟨⟨⟨_hL, ⟨⟨hd1, hd0⟩, hd⟩⟩, hq⟩, hn⟩, hnone⟩, hb⟩ := h
  have hres : n * 2 ^ lam < q := by
    by_contra hcon
    have : noneCert lam d0 d1 n q = true := by
      unfold noneCert
      simp only [Bool.and_eq_true, Bool.or_eq_true, decide_eq_true_eq]
      exact ⟨hd1, Or.inr ⟨hq, Or.inr ⟨hd, by omega⟩⟩⟩
    rw [this] at hnone; cases hnone
  have hsome := (tSpec_isSome_iff lam d0 d1 n q hd0 hd hq).2 hres
  cases hs : tSpec lam d0 d1 n q with
  | none => rw [hs] at hsome; cases hsome
  | some r =>
    obtain ⟨t, hr, hbt, _⟩ := (tSpec_eq_some_iff lam d0 d1 n q r hd0 hd hq).1 hs
    have hge : n ≤ t := by
      by_contra hlt
      have := bound_mono_le lam d0 d1 n q (show t ≤ n - 1 by omega) hbt
      rw [hb] at this; cases this
    rw [hr, Nat.min_eq_right hge]

theorem tSpecFast_eq (lam d0 d1 n q hint : Nat) :
    tSpecFast lam d0 d1 n q hint = tSpec lam d0 d1 n q := by
  unfold tSpecFast
  split
  · rename_i h
    simp only [Bool.and_eq_true] at h
    exact (cappedCert_sound _ _ _ _ _ h.2).symm
  · unfold tSpec; rw [tLeastFast_eq]

/-- the model of `calculate_t` answers `t` exactly when the distance is usable and `tSpec = some t` -/
theorem calcT_ok_iff (lam d0 d1 n q hint t : Nat) :
    calcT lam d0 d1 n q hint = .ok t ↔
      distanceUsable d0 d1 = true ∧ tSpec lam d0 d1 n q = some t := by
  unfold calcT
  rw [tSpecFast_eq]
  split
  · rename_i hu
    cases hs : tSpec lam d0 d1 n q with
    | none => simp
    | some t' =>
      simp only [Option.some.injEq]
      constructor
      · intro h; cases h; exact ⟨hu, rfl⟩
      · intro h; rw [h.2]
  · rename_i hu; simp [hu]

theorem tSpec_le (lam d0 d1 n q r : Nat) (h : tSpec lam d0 d1 n q = some r) : r ≤ n := by
  unfold tSpec at h
  cases ht : tLeast lam d0 d1 n q with
  | none => rw [ht] at h; cases h
  | some t =>
    rw [ht] at h
    simp only [Option.map_some, Option.some.injEq] at h
    rw [← h, capAt_eq_min]; omega

/-! ### positions -/

theorem indexOfBytes_lt (n : Nat) (hn : 0 < n) (bytes : List Nat) : indexOfBytes n bytes < n :=
  Nat.mod_lt _ hn

/-- every derived index is a column of the encoded matrix -/
theorem getIndices_lt (n : Nat) (hn : 0 < n) (sq : List (List Nat)) :
    ∀ i ∈ getIndices n sq, i < n := by
  intro i hi
  unfold getIndices at hi
  rw [List.mem_map] at hi
  obtain ⟨b, _, rfl⟩ := hi
  exact indexOfBytes_lt n hn b

theorem getIndices_length (n : Nat) (sq : List (List Nat)) :
    (getIndices n sq).length = sq.length := by
  simp [getIndices]

/-- an opening reads exactly `t` squeezes and yields `t` positions, all inside the codeword -/
theorem openedPositions_ok (lam d0 d1 nExt q hint : Nat) (sq : List (List Nat))
    (idx : List Nat) (rest : List (List Nat))
    (h : openedPositions lam d0 d1 nExt q hint sq = .ok (idx, rest)) :
    ∃ t, distanceUsable d0 d1 = true ∧ tSpec lam d0 d1 nExt q = some t ∧
      idx = getIndices nExt (sq.take t) ∧ rest = sq.drop t ∧
      (t ≤ sq.length → idx.length = t) ∧ (0 < nExt → ∀ i ∈ idx, i < nExt) := by
  unfold openedPositions at h
  cases hc : calcT lam d0 d1 nExt q hint with
  | error e => rw [hc] at h; cases h
  | ok t =>
    rw [hc] at h
    simp only [Except.ok.injEq, Prod.mk.injEq] at h
    obtain ⟨h1, h2⟩ := h
    obtain ⟨hu, hs⟩ := (calcT_ok_iff _ _ _ _ _ _ _).1 hc
    refine ⟨t, hu, hs, h1.symm, h2.symm, ?_, ?_⟩
    · intro hle; rw [← h1, getIndices_length, List.length_take]; omega
    · intro hn; rw [← h1]; exact getIndices_lt nExt hn _

/-- unusable parameters are reported as an error, never as a number of columns -/
theorem calcT_error_iff (lam d0 d1 n q hint : Nat) :
    (∃ e, calcT lam d0 d1 n q hint = .error e) ↔
      distanceUsable d0 d1 = false ∨ tSpec lam d0 d1 n q = none := by
  unfold calcT
  rw [tSpecFast_eq]
  cases hu : distanceUsable d0 d1 <;> cases hs : tSpec lam d0 d1 n q <;> simp

theorem calcT_error_kind (lam d0 d1 n q hint : Nat) (e : Err)
    (h : calcT lam d0 d1 n q hint = .error e) : e = .invalidParameters := by
  unfold calcT at h
  split at h
  · split at h
    · cases h
    · cases h; rfl
  · cases h; rfl

end LinCode
end PCV
