/-
  PCV.Proofs.MarlinLCShift — shifting claimed values commutes with the verifier's subtraction of the
  combinations' constants, so `batchCheck_shift_iff` carries over to `check_combinations`.
-/
import PCV.Proofs.MarlinBatchShift
import PCV.Proofs.MarlinLCComplete

set_option linter.unusedSectionVars false

namespace PCV
namespace Marlin
variable {F : Type} [Field F] [DecidableEq F]

theorem adjust_shift_comm (δ : Label × F → F) (lcs : List (LC.LinComb F))
    (evals : List ((Label × F) × F)) :
    adjustEvals lcs (shiftEvals δ evals) = shiftEvals δ (adjustEvals lcs evals) := by
  induction lcs generalizing evals with
  | nil => rfl
  | cons lc lcs ih =>
    have step : ∀ ev : List ((Label × F) × F), adjustEvals (lc :: lcs) ev
        = adjustEvals lcs (ev.map fun e => if e.1.1 = lc.label then (e.1, e.2 - lcConstant lc) else e) := by
      intro ev; simp only [adjustEvals, List.foldl_cons]
    rw [step, step, ← ih]
    congr 1
    simp only [shiftEvals, List.map_map]
    apply List.map_congr_left
    intro e _
    simp only [Function.comp]
    by_cases h : e.1.1 = lc.label
    · simp only [h, if_true]
      congr 1; ring
    · simp only [h, if_false]

/-- **Any change of the claimed values of a list of combinations.** From an accepted combination
opening, the same proof with the claimed values shifted by an arbitrary `δ` (per equation label and
point) is accepted iff `h · Σₖ ρₖ · ⟨κₖ, dsₖ⟩ = 0` — the verifier subtracts the same constants either way. -/
theorem checkCombinations_shift_iff (vk : VK F) (comms : List (LComm F)) (lcs : List (LC.LinComb F))
    (qs : List (Query F)) (evals : List ((Label × F) × F)) (δ : Label × F → F)
    (πs : List (KZG.Proof F)) (ξs rs : List F) (lcComms : List (LComm F))
    (trip : List (F × F × F)) (rest : List F)
    (hcc : combineAllComm comms lcs = .ok lcComms)
    (hc : combineGroups vk lcComms (adjustEvals lcs evals) (groupQueries qs) ξs = .ok (trip, rest))
    (hlen : πs.length = trip.length)
    (hacc : checkCombinations vk comms lcs qs evals πs ξs rs = .ok true) :
    checkCombinations vk comms lcs qs (shiftEvals δ evals) πs ξs rs = .ok true ↔
      vk.vk.h * KZG.wsum 1 rs
        (groupShifts vk lcComms (adjustEvals lcs evals) δ (groupQueries qs) ξs) = 0 := by
  unfold checkCombinations at hacc ⊢
  rw [hcc] at hacc ⊢
  simp only at hacc ⊢
  rw [adjust_shift_comm]
  exact batchCheck_shift_iff vk lcComms qs (adjustEvals lcs evals) δ πs ξs rs trip rest hc hlen hacc

end Marlin
end PCV
