/-
  PCV.Proofs.IPABatch — completeness of `batch_check ∘ batch_open` for the IPA model: the prover's
  and the verifier's label lookups pick the same (polynomial, commitment, state) triple, every
  point label's `open`/`succinct_check` pair threads the sponge and the random oracle identically,
  and all final-key defects vanish, so the randomized test passes for every randomizer list.
-/
import PCV.Proofs.IPAVerify

set_option linter.unusedSectionVars false
set_option linter.unusedVariables false

namespace PCV
namespace IPA
variable {F : Type} [Field F] [DecidableEq F]

/-- the relation between the running results of the prover's lookup (over
`polys.zip (sts.zip comms)`) and the verifier's lookup (over `comms`) -/
def LookRel (ck : CK F) (a : Option (LPoly F × (Rand F × LComm F))) (b : Option (LComm F)) : Prop :=
  (a = none ∧ b = none) ∨
  ∃ p st c, a = some (p, st, c) ∧ b = some c ∧ Committed ck p c st ∧ pnorm p.poly = p.poly

theorem lookup_fold (ck : CK F) (l : Label) :
    ∀ (polys : List (LPoly F)) (comms : List (LComm F)) (sts : List (Rand F))
      (a : Option (LPoly F × (Rand F × LComm F))) (b : Option (LComm F)),
      AllCommitted ck polys comms sts → (∀ p ∈ polys, pnorm p.poly = p.poly) → LookRel ck a b →
      LookRel ck
        ((polys.zip (sts.zip comms)).foldl
          (fun acc x => if (fun (x : LPoly F × (Rand F × LComm F)) => x.1.label) x = l then some x else acc) a)
        (comms.foldl (fun acc x => if (fun (c : LComm F) => c.label) x = l then some x else acc) b) := by
  intro polys
  induction polys with
  | nil =>
    intro comms sts a b hall _ hrel
    cases comms with
    | nil => simpa using hrel
    | cons c cs => cases sts <;> simp [AllCommitted] at hall
  | cons p ps ih =>
    intro comms sts a b hall hnf hrel
    cases comms with
    | nil => simp [AllCommitted] at hall
    | cons c cs =>
      cases sts with
      | nil => simp [AllCommitted] at hall
      | cons st sts =>
        obtain ⟨hc1, hcr⟩ := hall
        simp only [List.zip_cons_cons, List.foldl_cons]
        apply ih cs sts _ _ hcr (fun q hq => hnf q (by simp [hq]))
        have hlab : c.label = p.label := hc1.1
        by_cases hl : p.label = l
        · have hl' : c.label = l := by rw [hlab]; exact hl
          simp only [hl, hl', if_true]
          exact Or.inr ⟨p, st, c, rfl, rfl, hc1, hnf p (by simp)⟩
        · have hl' : ¬ c.label = l := by rw [hlab]; exact hl
          simp only [hl, hl', if_false]
          exact hrel

theorem lookup_agree (ck : CK F) (l : Label) (polys : List (LPoly F)) (comms : List (LComm F))
    (sts : List (Rand F)) (hall : AllCommitted ck polys comms sts)
    (hnf : ∀ p ∈ polys, pnorm p.poly = p.poly) (p : LPoly F) (st : Rand F) (c : LComm F)
    (h : Marlin.lookupLast (fun (x : LPoly F × (Rand F × LComm F)) => x.1.label) l
        (polys.zip (sts.zip comms)) = some (p, st, c)) :
    Marlin.lookupLast (fun (c : LComm F) => c.label) l comms = some c ∧ Committed ck p c st ∧
      pnorm p.poly = p.poly := by
  have := lookup_fold ck l polys comms sts none none hall hnf (Or.inl ⟨rfl, rfl⟩)
  unfold Marlin.lookupLast at h ⊢
  rcases this with ⟨h1, _⟩ | ⟨p', st', c', h1, h2, h3, h4⟩
  · rw [h1] at h; cases h
  · rw [h1] at h
    injection h with h; injection h with ha hb; injection hb with hb hc
    subst ha; subst hb; subst hc
    exact ⟨h2, h3, h4⟩

/-- the evaluations handed to the verifier are the true ones for every queried (label, point) -/
def TrueEvals (polys : List (LPoly F)) (comms : List (LComm F)) (sts : List (Rand F))
    (evals : List ((Label × F) × F)) (gs : List (Label × (F × List Label))) : Prop :=
  ∀ g ∈ gs, ∀ l ∈ g.2.2, ∀ p st c,
    Marlin.lookupLast (fun (x : LPoly F × (Rand F × LComm F)) => x.1.label) l
      (polys.zip (sts.zip comms)) = some (p, st, c) →
    Marlin.lookupEval evals l g.2.1 = some (evalPoly p.poly g.2.1)

theorem gather_agree (ck : CK F) (polys : List (LPoly F)) (comms : List (LComm F))
    (sts : List (Rand F)) (evals : List ((Label × F) × F)) (z : F)
    (hall : AllCommitted ck polys comms sts) (hnf : ∀ p ∈ polys, pnorm p.poly = p.poly) :
    ∀ (ls : List Label) ps cs ss,
      (∀ l ∈ ls, ∀ p st c,
        Marlin.lookupLast (fun (x : LPoly F × (Rand F × LComm F)) => x.1.label) l
          (polys.zip (sts.zip comms)) = some (p, st, c) →
        Marlin.lookupEval evals l z = some (evalPoly p.poly z)) →
      gatherPolys polys comms sts ls = .ok (ps, cs, ss) →
      gatherComms comms evals z ls = .ok (cs, ps.map fun p => evalPoly p.poly z) ∧
        AllCommitted ck ps cs ss ∧ ∀ p ∈ ps, pnorm p.poly = p.poly := by
  intro ls
  induction ls with
  | nil =>
    intro ps cs ss _ h
    simp only [gatherPolys] at h
    injection h with h; injection h with h1 h2; injection h2 with h2 h3
    subst h1; subst h2; subst h3
    exact ⟨rfl, trivial, by simp⟩
  | cons l ls ih =>
    intro ps cs ss hev h
    simp only [gatherPolys] at h
    split at h
    · cases h
    · rename_i p st c hlook
      split at h
      · cases h
      · rename_i ps' cs' ss' hrec
        injection h with h; injection h with h1 h2; injection h2 with h2 h3
        subst h1; subst h2; subst h3
        obtain ⟨hlc, hcm, hpn⟩ := lookup_agree ck l polys comms sts hall hnf p st c hlook
        obtain ⟨hg, hall', hnf'⟩ := ih ps' cs' ss' (fun l' hl' => hev l' (by simp [hl'])) hrec
        refine ⟨?_, ⟨hcm, hall'⟩, ?_⟩
        · simp only [gatherComms, hlc, hev l (by simp) p st c hlook, hg, List.map_cons]
        · intro q hq
          rcases List.mem_cons.1 hq with rfl | hq
          · exact hpn
          · exact hnf' q hq

/-- the loop of `batch_check` on the proofs of `batch_open`: every succinct check passes, the
sponge and the random oracle stay in lock-step, every final-key defect is zero -/
theorem batch_groups_complete (ck : CK F) (k : Nat) (hk : ck.commKey.length = 2 ^ k)
    (polys : List (LPoly F)) (comms : List (LComm F)) (sts : List (Rand F))
    (hall : AllCommitted ck polys comms sts) (hnf : ∀ p ∈ polys, pnorm p.poly = p.poly)
    (evals : List ((Label × F) × F)) (rng : Bool) :
    ∀ (gs : List (Label × (F × List Label))) (ξs ros draws : List F) (πs : List (Proof F))
      (ξr ror dr : List F), TrueEvals polys comms sts evals gs →
      batchOpenGroups ck polys comms sts rng gs ξs ros draws = .ok (πs, ξr, ror, dr) →
      πs.length = gs.length ∧
      ∃ uss, batchSuccinct ck comms evals gs πs ξs ros = .ok (some uss) ∧
        ∀ d ∈ defect2s ck uss πs, d = 0 := by
  intro gs
  induction gs with
  | nil =>
    intro ξs ros draws πs ξr ror dr _ h
    simp only [batchOpenGroups] at h
    injection h with h; injection h with h1 _
    subst h1
    exact ⟨rfl, [], by simp [batchSuccinct], by simp [defect2s]⟩
  | cons g gs ih =>
    intro ξs ros draws πs ξr ror dr hev h
    simp only [batchOpenGroups] at h
    split at h
    · cases h
    · rename_i ps cs ss hgather
      split at h
      · cases h
      · rename_i π ξs' ros' draws' hopen
        split at h
        · cases h
        · rename_i πs' a b c hrec
          injection h with h; injection h with h1 _
          subst h1
          obtain ⟨hg, hall', hnf'⟩ := gather_agree ck polys comms sts evals g.2.1 hall hnf g.2.2 ps cs ss
            (fun l hl p st c hlook => hev g (by simp) l hl p st c hlook) hgather
          obtain ⟨hshape, ⟨us, hsc, hd2⟩, _, _⟩ := open_succinct_complete ck k hk ps cs ss hall' hnf'
            g.2.1 ξs ros rng draws π ξs' ros' draws' hopen
          obtain ⟨hlen, uss, hbs, hds⟩ := ih ξs' ros' draws' πs' a b c
            (fun g' hg' => hev g' (by simp [hg'])) hrec
          refine ⟨by simp [hlen], us :: uss, ?_, ?_⟩
          · simp only [batchSuccinct, hshape, Bool.false_eq_true, if_false, hg, hsc, hbs]
          · intro d hd
            simp only [defect2s, List.mem_cons] at hd
            rcases hd with rfl | hd
            · exact hd2
            · exact hds d hd

/-- **Completeness of `batch_check ∘ batch_open`** (trait-default `batch_open`, IPA's own
`batch_check`), for every query set, every randomizer list and all oracle outputs. -/
theorem batch_complete (ck : CK F) (k : Nat) (hk : ck.commKey.length = 2 ^ k)
    (polys : List (LPoly F)) (comms : List (LComm F)) (sts : List (Rand F))
    (hall : AllCommitted ck polys comms sts) (hnf : ∀ p ∈ polys, pnorm p.poly = p.poly)
    (qs : List (Query F)) (evals : List ((Label × F) × F))
    (hev : TrueEvals polys comms sts evals (Marlin.groupQueries qs))
    (ξs ros rs : List F) (rng : Bool) (draws : List F) (πs : List (Proof F)) (ξr ror dr : List F)
    (ho : batchOpen ck polys comms sts qs ξs ros rng draws = .ok (πs, ξr, ror, dr)) :
    batchCheck ck comms qs evals πs ξs ros rs = .ok true := by
  unfold batchOpen at ho
  obtain ⟨hlen, uss, hbs, hds⟩ := batch_groups_complete ck k hk polys comms sts hall hnf evals rng
    _ ξs ros draws πs ξr ror dr hev ho
  rw [batchCheck_of_succinct ck comms qs evals πs ξs ros rs uss hlen hbs, KZG.wsum_zero _ _ _ hds]
  simp

end IPA
end PCV
