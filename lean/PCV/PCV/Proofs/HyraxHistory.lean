/-
  PCV.Proofs.HyraxHistory — Hyrax's `open` / `check` on a sponge as the `openF` / `checkF` of the
  trait defaults: the per-call hypothesis of `TrHistory.history_lockstep` (honest triples: the
  verifier accepts and ends in the prover's sponge state), displaced single proofs.
-/
import PCV.Proofs.HyraxTranscript
import PCV.Proofs.TranscriptHistory

set_option linter.unusedSectionVars false
set_option linter.unusedVariables false

namespace PCV
namespace Hyrax
variable {F : Type} [Field F] [DecidableEq F]

/-- `Polynomial::evaluate` of a labelled polynomial -/
def evalLP (lp : LPoly F) (z : List F) : F := mleEval lp.poly.evals z

/-- every triple holds a commitment and a state that `commit` made for its polynomial -/
def GoodTrips (ks : List F) (hh : F) (ts : List ((LPoly F × State F) × LComm F)) : Prop :=
  ∀ t ∈ ts, ∃ ρs, commitOne ks hh t.1.1.poly ρs = .ok (t.2.rowComs, t.1.2)

/-- prover state and verifier state are related when the sponges are equal -/
def SameSponge (sp : PState F) (sv : Log F) : Prop := sp.1 = sv

theorem honest_toItems (ks : List F) (hh : F) (ts : List ((LPoly F × State F) × LComm F))
    (h : GoodTrips ks hh ts) :
    List.Forall₂ (HonestItem ks hh) (toItems ts) (ts.map (·.1.1.poly)) := by
  induction ts with
  | nil => exact .nil
  | cons t ts ih =>
    simp only [toItems, List.map_cons]
    refine .cons ?_ (ih fun t' ht' => h t' (List.mem_cons_of_mem _ ht'))
    exact h t List.mem_cons_self

/-- **The per-call hypothesis of the history theorem, for Hyrax.** -/
theorem openF_checkF_complete (ro : RO F) (ks : List F) (hh : F) :
    ∀ (ts : List ((LPoly F × State F) × LComm F)) (z : List F) (π : List (Proof F))
      (sp sp' : PState F) (sv : Log F),
      GoodTrips ks hh ts → SameSponge sp sv → openF ro ks hh ts z sp = .ok (π, sp') →
      ∃ sv', checkF ro ks hh (ts.map (·.2)) z (ts.map fun t => evalLP t.1.1 z) π sv = .ok (true, sv') ∧
        SameSponge sp' sv' := by
  intro ts z π sp sp' sv hg hR ho
  unfold openF at ho
  cases h : openT ro ks hh (toItems ts) z sp.2 sp.1 with
  | error e => rw [h] at ho; cases ho
  | ok r =>
    obtain ⟨πs, rest, s'⟩ := r
    rw [h] at ho
    simp only [Except.ok.injEq, Prod.mk.injEq] at ho
    obtain ⟨rfl, rfl⟩ := ho
    have := openT_checkT_lockstep ro ks hh z (toItems ts) (ts.map (·.1.1.poly))
      (honest_toItems ks hh ts hg) sp.2 sp.1 πs rest s' h
    refine ⟨s', ?_, rfl⟩
    unfold checkF
    unfold SameSponge at hR
    rw [← hR]
    have e1 : (toItems ts).map (·.2) = (ts.map (·.2)).map (·.rowComs) := by
      simp [toItems, List.map_map]
    have e2 : (ts.map (·.1.1.poly)).map (fun p => mleEval p.evals z)
        = ts.map (fun t => evalLP t.1.1 z) := by
      simp [List.map_map, evalLP]
    rw [e1, e2] at this
    exact this

/-! ### one displaced proof -/

theorem except_map_fst_ok_true {α : Type} (x : Except Err (Bool × α)) :
    x.map (·.1) = .ok true ↔ ∃ s', x = .ok (true, s') := by
  cases x with
  | error e => simp [Except.map]
  | ok r =>
    obtain ⟨b, s⟩ := r
    simp only [Except.map, Except.ok.injEq, Prod.mk.injEq]
    constructor
    · intro h; exact ⟨s, h, rfl⟩
    · rintro ⟨s', h, _⟩; exact h

/-- a single-polynomial `check` on a sponge is `Hyrax.check` on the one squeezed challenge -/
theorem checkT_single (ro : RO F) (ks : List F) (hh : F) (T point : List F) (v : F) (π : Proof F)
    (s : Log F) :
    (checkT ro ks hh [T] point [v] [π] s).map (·.1)
      = check ks hh [T] point [v] [π]
          [ro.fe (absorbIter s ks hh T point π.comEval π.comD π.comB) 0] := by
  rw [checkT_fst]
  simp [runChallenges, Proof.absorbed]

/-- the challenge an honest single `open` at history `s` used -/
theorem openT_single_inv (ro : RO F) (ks : List F) (hh : F) (it : OpenItem F × List F)
    (point draws : List F) (s : Log F) (π : Proof F) (rest : List F) (s' : Log F)
    (h : openT ro ks hh [it] point draws s = .ok ([π], rest, s')) :
    point.length % 2 = 0 ∧
    openOne ks hh (tensorL point) (tensorR point) it.1.st (drawREval draws)
      (drawD (2 ^ (point.length / 2)) draws) (drawRD (2 ^ (point.length / 2)) draws)
      (drawRB (2 ^ (point.length / 2)) draws)
      (ro.fe (absorbIter s ks hh it.2 point π.comEval π.comD π.comB) 0) = .ok π ∧
    s' = absorbIter s ks hh it.2 point π.comEval π.comD π.comB ++ [.squeezeField 1] := by
  unfold openT at h
  simp only at h
  by_cases hn : point.length % 2 = 1
  · rw [if_pos hn] at h; cases h
  · rw [if_neg hn] at h
    obtain ⟨π', πs', _, _, _, h1, h2, he⟩ := openLoopT_cons_inv ro ks hh _ _ _ _ point it [] draws s _ rest s' h
    simp only [List.cons.injEq] at he
    obtain ⟨rfl, rfl⟩ := he
    simp only [openLoopT, Except.ok.injEq, Prod.mk.injEq] at h2
    exact ⟨by omega, h1, h2.2.2.symm⟩

end Hyrax
end PCV
