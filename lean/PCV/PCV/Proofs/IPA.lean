/-
  PCV.Proofs.IPA — lemma library for the inner-product-argument scheme (`PCV.Model.IPA`):
  list algebra of the folding step, the folding invariant of the halving rounds for every
  power-of-two size, the link to the succinct check polynomial, and completeness.
-/
import PCV.Model.IPA
import PCV.Proofs.Poly
import PCV.Proofs.Succinct
import PCV.Proofs.KZG10
import Mathlib.Tactic.Ring
import Mathlib.Tactic.LinearCombination
import Mathlib.Tactic.FieldSimp
import Mathlib.Algebra.Field.Basic

set_option linter.unusedSectionVars false
set_option linter.unusedVariables false

namespace PCV
namespace IPA
variable {F : Type} [Field F]

/-! ### list algebra -/

theorem dot_padd_right (a p q : List F) : dot a (padd p q) = dot a p + dot a q := by
  induction p generalizing a q with
  | nil => simp [padd]
  | cons x p ih =>
    cases q with
    | nil => simp [padd]
    | cons y q =>
      cases a with
      | nil => simp
      | cons g gs => simp only [padd, dot_cons, ih gs q]; ring

theorem dot_pscale_right (a p : List F) (c : F) : dot a (pscale c p) = c * dot a p := by
  induction p generalizing a with
  | nil => simp [pscale]
  | cons x p ih =>
    cases a with
    | nil => simp
    | cons g gs =>
      have := ih gs
      simp only [pscale, List.map_cons, dot_cons] at this ⊢
      rw [this]; ring

theorem dot_padd_left (p q a : List F) : dot (padd p q) a = dot p a + dot q a := by
  rw [dot_comm, dot_padd_right, dot_comm a p, dot_comm a q]

theorem dot_pscale_left (p a : List F) (c : F) : dot (pscale c p) a = c * dot p a := by
  rw [dot_comm, dot_pscale_right, dot_comm]

/-- splitting both operands at the same index -/
theorem dot_take_drop (a b : List F) (m : Nat) :
    dot a b = dot (a.take m) (b.take m) + dot (a.drop m) (b.drop m) := by
  induction m generalizing a b with
  | zero => simp
  | succ m ih =>
    cases a with
    | nil => simp
    | cons x xs =>
      cases b with
      | nil => simp
      | cons y ys =>
        simp only [List.take_succ_cons, List.drop_succ_cons, dot_cons]
        rw [ih xs ys]; ring

theorem dot_append (a b c d : List F) (h : a.length = c.length) :
    dot (a ++ b) (c ++ d) = dot a c + dot b d := by
  induction a generalizing c with
  | nil =>
    cases c with
    | nil => simp
    | cons y ys => simp at h
  | cons x xs ih =>
    cases c with
    | nil => simp at h
    | cons y ys =>
      simp only [List.cons_append, dot_cons]
      rw [ih ys (by simpa using h)]; ring

theorem dot_replicate_zero_right (a : List F) (n : Nat) : dot a (List.replicate n 0) = 0 := by
  induction n generalizing a with
  | zero => simp
  | succ n ih =>
    cases a with
    | nil => simp
    | cons x xs => simp [List.replicate_succ, ih xs]

theorem dot_append_zeros (a p : List F) (n : Nat) : dot a (p ++ List.replicate n 0) = dot a p := by
  induction p generalizing a with
  | nil => simp [dot_replicate_zero_right]
  | cons x p ih =>
    cases a with
    | nil => simp
    | cons g gs => simp only [List.cons_append, dot_cons, ih gs]

theorem dot_padTo (a p : List F) (n : Nat) : dot a (padTo n p) = dot a p := by
  unfold padTo; exact dot_append_zeros a p _

theorem padTo_length (p : List F) (n : Nat) (h : p.length ≤ n) : (padTo n p).length = n := by
  unfold padTo; simp; omega

theorem evalPoly_append_zeros (p : List F) (n : Nat) (z : F) :
    evalPoly (p ++ List.replicate n 0) z = evalPoly p z := by
  induction p with
  | nil =>
    induction n with
    | zero => rfl
    | succ n ih => simp only [List.nil_append] at ih; simp [List.replicate_succ, ih]
  | cons x p ih => simp only [List.cons_append, evalPoly_cons, ih]

theorem evalPoly_padTo (p : List F) (n : Nat) (z : F) : evalPoly (padTo n p) z = evalPoly p z := by
  unfold padTo; exact evalPoly_append_zeros p _ z

/-- `&comm_key[..deg+1]`: truncating the key to the degree loses nothing -/
theorem dot_take_of_pnorm_le [DecidableEq F] (G p : List F) (m : Nat)
    (h : (pnorm p).length ≤ m) : dot (G.take m) p = dot G p := by
  induction p generalizing G m with
  | nil => simp
  | cons c cs ih =>
    cases G with
    | nil => simp
    | cons g gs =>
      cases m with
      | zero =>
        have hn : pnorm (c :: cs) = [] := List.eq_nil_of_length_eq_zero (by omega)
        obtain ⟨hc, hcs⟩ := pnorm_nil_cons c cs hn
        have h0 : dot gs cs = 0 := by
          rw [dot_comm, ← dot_pnorm, hcs]; simp
        simp [hc, h0]
      | succ m =>
        have hle : (pnorm cs).length ≤ m := by
          by_cases hcs : pnorm cs = []
          · simp [hcs]
          · have : pnorm (c :: cs) = c :: pnorm cs := by
              cases hq : pnorm cs with
              | nil => exact absurd hq hcs
              | cons a as => simp only [pnorm, hq]
            rw [this] at h; simp at h; omega
        simp only [List.take_succ_cons, dot_cons, ih gs m hle]

/-- `&comm_key[k..]`: the shifted window commits to `X^k · p` -/
theorem dot_drop_pshift (G p : List F) (k : Nat) : dot (G.drop k) p = dot G (pshift k p) := by
  induction k generalizing G with
  | zero => simp [pshift]
  | succ k ih =>
    cases G with
    | nil => simp
    | cons g gs =>
      have := ih gs
      simp only [pshift, List.replicate_succ, List.cons_append, List.drop_succ_cons, dot_cons] at this ⊢
      rw [this]; ring

theorem foldAdd_length (u : F) (a b : List F) : (foldAdd u a b).length = a.length := by
  induction a generalizing b with
  | nil => cases b <;> simp [foldAdd]
  | cons x xs ih =>
    cases b with
    | nil => simp [foldAdd]
    | cons y ys => simp [foldAdd, ih]

theorem foldAdd_eq (u : F) (a b : List F) (h : a.length = b.length) :
    foldAdd u a b = padd a (pscale u b) := by
  induction a generalizing b with
  | nil =>
    cases b with
    | nil => rfl
    | cons y ys => simp at h
  | cons x xs ih =>
    cases b with
    | nil => simp at h
    | cons y ys =>
      simp only [foldAdd, pscale, List.map_cons, padd]
      rw [ih ys (by simpa using h)]; rfl

/-- bilinearity of the dot product under the folding step -/
theorem dot_foldAdd (s t : F) (a b x y : List F) (h1 : a.length = b.length)
    (h2 : x.length = y.length) :
    dot (foldAdd s a b) (foldAdd t x y)
      = dot a x + t * dot a y + s * dot b x + s * t * dot b y := by
  rw [foldAdd_eq s a b h1, foldAdd_eq t x y h2]
  simp only [dot_padd_left, dot_padd_right, dot_pscale_left, dot_pscale_right]
  ring

/-! ### the halving rounds -/

/-- `Σ (u⁻¹·L + u·R)` over the rounds -/
def lrSum : List F → List F → List F → F
  | l :: ls, r :: rs, u :: us => l * u⁻¹ + r * u + lrSum ls rs us
  | _, _, _ => 0

theorem take_half_length (l : List F) (k : Nat) (h : l.length = 2 ^ (k + 1)) :
    (l.take (2 ^ k)).length = 2 ^ k ∧ (l.drop (2 ^ k)).length = 2 ^ k := by
  rw [Nat.pow_succ] at h
  constructor
  · rw [List.length_take]; omega
  · rw [List.length_drop]; omega

/-- the key folded by the challenges is the commitment to the check polynomial's coefficients -/
theorem dot_computeCoeffs_cons (G : List F) (u : F) (us : List F) (k : Nat)
    (hus : us.length = k) (hG : G.length = 2 ^ (k + 1)) :
    dot G (Succinct.computeCoeffs (u :: us))
      = dot (foldAdd u (G.take (2 ^ k)) (G.drop (2 ^ k))) (Succinct.computeCoeffs us) := by
  obtain ⟨h1, h2⟩ := take_half_length G k hG
  rw [Succinct.computeCoeffs_cons]
  conv_lhs => rw [← List.take_append_drop (2 ^ k) G]
  rw [dot_append _ _ _ _ (by rw [h1, Succinct.computeCoeffs_length, hus])]
  rw [foldAdd_eq _ _ _ (by rw [h1, h2]), dot_padd_left, dot_pscale_left]
  congr 1
  generalize G.drop (2 ^ k) = b
  generalize Succinct.computeCoeffs us = c
  induction b generalizing c with
  | nil => simp
  | cons x xs ih =>
    cases c with
    | nil => simp
    | cons y ys => simp only [List.map_cons, dot_cons, ih ys]; ring

/-- **The folding invariant**, for every power-of-two size `2^k` and every run of the prover's
loop that does not abort: exactly `k` rounds are made, consuming `k` non-zero challenges `us`;
the final key is `⟨G, coeffs(h_us)⟩`, the final `z`-vector is `⟨zs, coeffs(h_us)⟩`, and
`⟨G, c⟩ + h′⟨c, zs⟩ + Σ(u⁻¹L + uR) = K·c_fin + h′·c_fin·z_fin`. -/
theorem rounds_spec (h' : F) [DecidableEq F] (k : Nat) :
    ∀ (fuel : Nat) (cs zs key ros : List F), k ≤ fuel → cs.length = 2 ^ k → zs.length = 2 ^ k →
      key.length = 2 ^ k →
      ∀ out, rounds h' fuel (2 ^ k) cs zs key ros = .ok out →
      ∃ us c zf K, ros = us ++ out.2.2 ∧ us.length = k ∧ (∀ u ∈ us, u ≠ 0) ∧
        out.1.1.length = k ∧ out.1.2.length = k ∧ out.2.1 = ([c], [zf], [K]) ∧
        K = dot key (Succinct.computeCoeffs us) ∧ zf = dot zs (Succinct.computeCoeffs us) ∧
        dot key cs + h' * dot cs zs + lrSum out.1.1 out.1.2 us = K * c + h' * (c * zf) := by
  induction k with
  | zero =>
    intro fuel cs zs key ros _ hcs hzs hkey out hout
    have hout' : out = (([], []), (cs, zs, key), ros) := by
      cases fuel with
      | zero => simp only [rounds] at hout; injection hout with hout; exact hout.symm
      | succ f => simp [rounds] at hout; exact hout.symm
    subst hout'
    obtain ⟨c, rfl⟩ := List.length_eq_one_iff.1 (by simpa using hcs)
    obtain ⟨zf, rfl⟩ := List.length_eq_one_iff.1 (by simpa using hzs)
    obtain ⟨K, rfl⟩ := List.length_eq_one_iff.1 (by simpa using hkey)
    refine ⟨[], c, zf, K, by simp, rfl, by simp, rfl, rfl, rfl, by simp, by simp, ?_⟩
    simp [lrSum]
  | succ k ih =>
    intro fuel cs zs key ros hfuel hcs hzs hkey out hout
    cases fuel with
    | zero => omega
    | succ f =>
      have hn : ¬ (2 ^ (k + 1) ≤ 1) := by
        have : 0 < 2 ^ k := Nat.pow_pos (by omega)
        rw [Nat.pow_succ]; omega
      have hm : 2 ^ (k + 1) / 2 = 2 ^ k := by rw [Nat.pow_succ]; omega
      unfold rounds at hout
      rw [if_neg hn] at hout
      cases ros with
      | nil => simp at hout
      | cons u ros' =>
        simp only at hout
        by_cases hu : u = 0
        · simp [hu] at hout
        · rw [if_neg hu, hm] at hout
          obtain ⟨hc1, hc2⟩ := take_half_length cs k hcs
          obtain ⟨hz1, hz2⟩ := take_half_length zs k hzs
          obtain ⟨hk1, hk2⟩ := take_half_length key k hkey
          split at hout
          · cases hout
          · rename_i ls rs fin rest hrec
            injection hout with hout
            subst hout
            obtain ⟨us, c, zf, K, hros, huslen, hne, hl, hr, hfin, hK, hzf, heq⟩ :=
              ih f _ _ _ ros' (by omega) (by rw [foldAdd_length, hc1]) (by rw [foldAdd_length, hz1])
                (by rw [foldAdd_length, hk1]) _ hrec
            simp only at hros hl hr hfin heq
            refine ⟨u :: us, c, zf, K, by simp [hros], by simp [huslen], ?_, by simp [hl],
              by simp [hr], hfin, ?_, ?_, ?_⟩
            · intro x hx
              rcases List.mem_cons.1 hx with rfl | hx
              · exact hu
              · exact hne x hx
            · rw [hK, dot_computeCoeffs_cons key u us k huslen hkey]
            · rw [hzf, dot_computeCoeffs_cons zs u us k huslen hzs]
            · simp only [lrSum]
              rw [← heq]
              rw [dot_foldAdd _ _ _ _ _ _ (by rw [hk1, hk2]) (by rw [hc1, hc2]),
                dot_foldAdd _ _ _ _ _ _ (by rw [hc1, hc2]) (by rw [hz1, hz2])]
              rw [dot_take_drop key cs (2 ^ k), dot_take_drop cs zs (2 ^ k)]
              have hinv : u * u⁻¹ = 1 := mul_inv_cancel₀ hu
              rw [dot_comm (List.drop (2 ^ k) key) (List.take (2 ^ k) cs),
                dot_comm (List.take (2 ^ k) key) (List.drop (2 ^ k) cs)]
              linear_combination
                -(dot (List.drop (2 ^ k) key) (List.drop (2 ^ k) cs)
                  + h' * dot (List.drop (2 ^ k) cs) (List.drop (2 ^ k) zs)) * hinv

/-! ### the verifier's view of the rounds -/

theorem verifyRounds_ok [DecidableEq F] (us rest : List F) :
    ∀ (ls rs : List F), ls.length = us.length → rs.length = us.length → (∀ u ∈ us, u ≠ 0) →
      verifyRounds ls rs (us ++ rest) = .ok (us, lrSum ls rs us, rest) := by
  induction us with
  | nil =>
    intro ls rs hl hr _
    have h1 : ls = [] := List.eq_nil_of_length_eq_zero hl
    subst h1
    simp [verifyRounds, lrSum]
  | cons u us ih =>
    intro ls rs hl hr hne
    cases ls with
    | nil => simp at hl
    | cons l ls =>
      cases rs with
      | nil => simp at hr
      | cons r rs =>
        have hu : u ≠ 0 := hne u (by simp)
        simp only [List.cons_append, verifyRounds, if_neg hu]
        rw [ih ls rs (by simpa using hl) (by simpa using hr) (fun x hx => hne x (by simp [hx]))]
        simp [lrSum]

/-! ### sizes -/

theorem clog2Aux_pow (k : Nat) : ∀ (fuel j : Nat), j ≤ k → k - j ≤ fuel →
    clog2Aux (2 ^ k) fuel (2 ^ j) j = k := by
  intro fuel
  induction fuel with
  | zero => intro j hj hf; simp only [clog2Aux]; omega
  | succ f ih =>
    intro j hj hf
    simp only [clog2Aux]
    by_cases hjk : j = k
    · subst hjk; simp
    · have hlt : j < k := by omega
      have : ¬ (2 ^ k ≤ 2 ^ j) := by
        have := Nat.pow_lt_pow_right (a := 2) (by omega) hlt
        omega
      rw [if_neg this]
      have h2 : 2 * 2 ^ j = 2 ^ (j + 1) := by rw [Nat.pow_succ]; omega
      rw [h2]
      exact ih (j + 1) (by omega) (by omega)

/-- `ark_std::log2(2^k) = k` -/
theorem clog2_pow (k : Nat) : clog2 (2 ^ k) = k := by
  unfold clog2
  have := clog2Aux_pow k (2 ^ k) 0 (by omega) (by have := Nat.lt_two_pow_self (n := k); omega)
  simpa using this

theorem nextPow2Aux_pow (n : Nat) : ∀ (fuel j : Nat), ∃ i, nextPow2Aux n fuel (2 ^ j) = 2 ^ i := by
  intro fuel
  induction fuel with
  | zero => intro j; exact ⟨j, rfl⟩
  | succ f ih =>
    intro j
    simp only [nextPow2Aux]
    split
    · exact ⟨j, rfl⟩
    · have h2 : 2 * 2 ^ j = 2 ^ (j + 1) := by rw [Nat.pow_succ]; omega
      rw [h2]; exact ih (j + 1)

theorem nextPow2_pow (n : Nat) : ∃ i, nextPow2 n = 2 ^ i := by
  unfold nextPow2
  have := nextPow2Aux_pow n n 0
  simpa using this

theorem nextPow2Aux_ge (n : Nat) : ∀ (fuel p : Nat), n ≤ p * 2 ^ fuel → n ≤ nextPow2Aux n fuel p := by
  intro fuel
  induction fuel with
  | zero => intro p h; simpa [nextPow2Aux] using h
  | succ f ih =>
    intro p h
    simp only [nextPow2Aux]
    split
    · assumption
    · apply ih
      rw [Nat.pow_succ] at h
      calc n ≤ p * (2 ^ f * 2) := h
        _ = 2 * p * 2 ^ f := by ring

theorem nextPow2_ge (n : Nat) : n ≤ nextPow2 n := by
  unfold nextPow2
  apply nextPow2Aux_ge
  have := Nat.lt_two_pow_self (n := n)
  omega

/-- `trim` produces two identical keys: the prefix of the parameters whose length is the least
power of two above the requested degree -/
theorem trim_spec (pp : UParams F) (supported : Nat) (ck vk : CK F)
    (h : trim pp supported = .ok (ck, vk)) :
    vk = ck ∧ (∃ k, ck.commKey.length = 2 ^ k) ∧
      ck.commKey = pp.commKey.take ck.commKey.length ∧ ck.h = pp.h ∧ ck.s = pp.s ∧
      supported ≤ supportedDegree ck ∧ ck.maxDegree = pp.commKey.length - 1 := by
  unfold trim at h
  split at h
  · cases h
  · rename_i hne
    simp only at h
    split at h
    · cases h
    · rename_i hle
      injection h with h
      injection h with h1 h2
      subst h1; subst h2
      obtain ⟨i, hi⟩ := nextPow2_pow (supported + 1)
      have hge := nextPow2_ge (supported + 1)
      have hpos : 0 < pp.commKey.length := by
        cases hk : pp.commKey with
        | nil => simp [hk] at hne
        | cons a as => simp
      have hlen : (List.take (nextPow2 (supported + 1) - 1 + 1) pp.commKey).length
          = nextPow2 (supported + 1) := by
        rw [List.length_take]; omega
      refine ⟨rfl, ⟨i, by simp only; rw [hlen, hi]⟩, ?_, rfl, rfl, ?_, rfl⟩
      · simp only; rw [hlen]; congr 1; omega
      · unfold supportedDegree; simp only; rw [hlen]; omega

/-! ### commitments -/

/-- an optional randomizer read as a field element -/
def optVal : Option F → F
  | none => 0
  | some x => x

theorem cmCommit_eq (key p : List F) (s : F) (ρ : Option F) :
    cmCommit key p (some s) ρ = dot key p + s * optVal ρ := by
  cases ρ <;> simp [cmCommit, optVal]

/-- what `commit` guarantees about one (polynomial, commitment, state) triple -/
def Committed [DecidableEq F] (ck : CK F) (p : LPoly F) (c : LComm F) (st : Rand F) : Prop :=
  c.label = p.label ∧ c.bound = p.bound ∧
  checkDegreesAndBounds (supportedDegree ck) p.poly p.bound = .ok () ∧
  c.comm.comm = dot ck.commKey p.poly + ck.s * st.rand ∧
  c.comm.shifted = p.bound.map (fun d =>
      dot ck.commKey (pshift (supportedDegree ck - d) p.poly) + ck.s * optVal st.shifted) ∧
  (p.hb.isSome = false → st.rand = 0 ∧ st.shifted = none) ∧
  (p.hb.isSome = true → st.shifted.isSome = p.bound.isSome)

def AllCommitted [DecidableEq F] (ck : CK F) : List (LPoly F) → List (LComm F) → List (Rand F) → Prop
  | [], [], [] => True
  | p :: ps, c :: cs, st :: sts => Committed ck p c st ∧ AllCommitted ck ps cs sts
  | _, _, _ => False

theorem pdeg_succ_ge [DecidableEq F] (p : List F) : (pnorm p).length ≤ pdeg p + 1 := by
  unfold pdeg; omega

theorem plainComm_eq [DecidableEq F] (ck : CK F) (p : List F) (ρ : F) :
    plainComm ck p ρ = dot ck.commKey p + ck.s * ρ := by
  unfold plainComm
  rw [cmCommit_eq, dot_take_of_pnorm_le _ _ _ (pdeg_succ_ge p)]; rfl

theorem shiftedComm_eq [DecidableEq F] (ck : CK F) (p : List F) (d : Nat) (ρs : Option F) :
    shiftedComm ck p d ρs
      = dot ck.commKey (pshift (supportedDegree ck - d) p) + ck.s * optVal ρs := by
  unfold shiftedComm
  rw [cmCommit_eq, dot_drop_pshift]

theorem drawRand_spec [DecidableEq F] (hid bounded rng : Bool) (draws : List F) (st : Rand F)
    (rest : List F) (h : drawRand hid bounded rng draws = .ok (st, rest)) :
    (hid = false → st.rand = 0 ∧ st.shifted = none) ∧
    (hid = true → st.shifted.isSome = bounded) := by
  unfold drawRand at h
  cases hid with
  | false =>
    simp at h
    obtain ⟨h1, _⟩ := h
    subst h1
    simp
  | true =>
    simp only [Bool.not_true, Bool.false_eq_true, if_false] at h
    cases rng with
    | false => simp at h
    | true =>
      simp only [Bool.not_true, Bool.false_eq_true, if_false] at h
      cases draws with
      | nil => simp at h
      | cons ρ ds =>
        simp only at h
        cases bounded with
        | false =>
          simp at h
          obtain ⟨h1, _⟩ := h
          subst h1
          simp
        | true =>
          simp only [Bool.not_true, Bool.false_eq_true, if_false] at h
          cases ds with
          | nil => simp at h
          | cons ρs ds' =>
            simp at h
            obtain ⟨h1, _⟩ := h
            subst h1
            simp

theorem commitOne_spec [DecidableEq F] (ck : CK F) (p : LPoly F) (rng : Bool) (draws : List F)
    (c : Comm F) (st : Rand F) (rest : List F)
    (h : commitOne ck p rng draws = .ok (c, st, rest)) :
    Committed ck p ⟨p.label, c, p.bound⟩ st := by
  unfold commitOne at h
  split at h
  · cases h
  · rename_i hadm
    split at h
    · cases h
    · rename_i st' draws' hdraw
      injection h with h
      injection h with h1 h2
      injection h2 with h2 h3
      subst h2
      obtain ⟨hd1, hd2⟩ := drawRand_spec _ _ _ _ _ _ hdraw
      refine ⟨rfl, rfl, hadm, ?_, ?_, ?_, ?_⟩
      · rw [← h1]; exact plainComm_eq ck p.poly st'.rand
      · rw [← h1]
        simp only
        cases p.bound with
        | none => rfl
        | some d => simp only [Option.map_some]; rw [shiftedComm_eq]
      · intro hh; exact hd1 hh
      · intro hh; exact hd2 hh

theorem commit_spec [DecidableEq F] (ck : CK F) (rng : Bool) :
    ∀ (polys : List (LPoly F)) (draws : List F) (comms : List (LComm F)) (sts : List (Rand F))
      (rest : List F), commit ck polys rng draws = .ok (comms, sts, rest) →
      AllCommitted ck polys comms sts := by
  intro polys
  induction polys with
  | nil =>
    intro draws comms sts rest h
    simp only [commit] at h
    injection h with h; injection h with h1 h2; injection h2 with h2 _
    subst h1; subst h2; trivial
  | cons p ps ih =>
    intro draws comms sts rest h
    simp only [commit] at h
    split at h
    · cases h
    · rename_i c st draws' h1
      split at h
      · cases h
      · rename_i cs' sts' d h2
        injection h with h; injection h with ha hb; injection hb with hb _
        subst ha; subst hb
        exact ⟨commitOne_spec ck p rng draws c st draws' h1, ih draws' cs' sts' d h2⟩

/-! ### prover and verifier combine in lock-step -/

theorem adm_spec [DecidableEq F] (s : Nat) (p : List F) (b : Option Nat)
    (h : checkDegreesAndBounds s p b = .ok ()) :
    pdeg p ≤ s ∧ ∀ d, b = some d → pdeg p ≤ d ∧ d ≤ s := by
  unfold checkDegreesAndBounds at h
  split at h
  · cases h
  · rename_i h1
    refine ⟨by omega, ?_⟩
    intro d hd
    subst hd
    simp only at h
    split at h
    · cases h
    · omega

theorem isZeroPoly_iff [DecidableEq F] (p : List F) : isZeroPoly p = true ↔ pnorm p = [] := by
  unfold isZeroPoly; simp

theorem eval_shiftPoly [DecidableEq F] (ck : CK F) (p : List F) (d : Nat) (z : F) :
    evalPoly (shiftPoly ck p d) z = fpow z (supportedDegree ck - d) * evalPoly p z := by
  unfold shiftPoly
  split
  · rename_i h
    rw [eval_of_pnorm_nil p z ((isZeroPoly_iff p).1 h)]; simp
  · exact eval_pshift _ _ _

theorem dot_shiftPoly [DecidableEq F] (ck : CK F) (G p : List F) (d : Nat) :
    dot G (shiftPoly ck p d) = dot G (pshift (supportedDegree ck - d) p) := by
  unfold shiftPoly
  split
  · rename_i h
    have hz : pnorm p = [] := (isZeroPoly_iff p).1 h
    rw [← dot_drop_pshift G p, dot_comm (G.drop _) p, ← dot_pnorm p, hz]; simp
  · rfl

theorem shiftPoly_length [DecidableEq F] (ck : CK F) (p : List F) (d : Nat)
    (hnf : pnorm p = p) (h1 : pdeg p ≤ d) (h2 : d ≤ supportedDegree ck) :
    (shiftPoly ck p d).length ≤ supportedDegree ck + 1 := by
  unfold shiftPoly
  split
  · simp
  · unfold pshift
    unfold pdeg at h1
    rw [hnf] at h1
    simp only [List.length_append, List.length_replicate]
    omega

theorem step_agree [DecidableEq F] (ck : CK F) (z : F) (p : LPoly F) (c : LComm F) (st : Rand F)
    (ξ ξ' : F) (acc acc1 : OpenAcc F)
    (hcm : Committed ck p c st) (hnf : pnorm p.poly = p.poly)
    (hs : openStep ck p c st ξ ξ' acc = .ok acc1)
    (hI : acc.c = dot ck.commKey acc.p + ck.s * acc.r) (hJ : acc.hid = false → acc.r = 0)
    (hL : acc.p.length ≤ supportedDegree ck + 1) :
    accStep ck z c (evalPoly p.poly z) ξ ξ' acc.c (evalPoly acc.p z)
        = .ok (acc1.c, evalPoly acc1.p z) ∧
      acc1.c = dot ck.commKey acc1.p + ck.s * acc1.r ∧ (acc1.hid = false → acc1.r = 0) ∧
      acc1.p.length ≤ supportedDegree ck + 1 := by
  obtain ⟨hlab, hbd, hadm, hcomm, hsh, hnh, hh⟩ := hcm
  obtain ⟨hdeg, hbnd⟩ := adm_spec _ _ _ hadm
  have hplen : p.poly.length ≤ supportedDegree ck + 1 := by
    unfold pdeg at hdeg; rw [hnf] at hdeg; omega
  unfold openStep at hs
  rw [if_neg (by rw [hlab]; simp), hadm] at hs
  simp only at hs
  unfold accStep
  cases hb : p.bound with
  | none =>
    rw [hb] at hsh hbd hs
    simp only [Option.map_none] at hsh
    rw [hsh, hbd] at hs
    simp only [Option.isSome_none, ne_eq, not_true_eq_false, if_false] at hs
    injection hs with hs
    subst hs
    rw [hbd, hsh]
    simp only [Option.isSome_none, ne_eq, not_true_eq_false, if_false]
    refine ⟨?_, ?_, ?_, ?_⟩
    · rw [eval_padd, eval_pscale]
    · rw [dot_padd_right, dot_pscale_right, hI, hcomm]
      cases hhb : p.hb.isSome with
      | false =>
        obtain ⟨h0, _⟩ := hnh hhb
        simp [h0]; ring
      | true => simp; ring
    · intro hf
      have h1 : acc.hid = false ∧ p.hb.isSome = false := by simpa using hf
      simp [h1.2, hJ h1.1]
    · simp only [padd_len, pscale_len]; omega
  | some d =>
    obtain ⟨hd1, hd2⟩ := hbnd d hb
    rw [hb] at hsh hbd hs
    simp only [Option.map_some] at hsh
    rw [hsh, hbd] at hs
    simp only [Option.isSome_some, ne_eq, not_true_eq_false, if_false] at hs
    rw [hbd, hsh]
    simp only [Option.isSome_some, ne_eq, not_true_eq_false, if_false]
    rw [if_neg (by omega)]
    split at hs
    · cases hs
    · rename_i r2 hr2
      injection hs with hs
      subst hs
      simp only
      have hr2' : r2 = (if p.hb.isSome then acc.r + ξ * st.rand else acc.r)
          + ξ' * (if p.hb.isSome then optVal st.shifted else 0) := by
        unfold addShiftedRand at hr2
        cases hhb : p.hb.isSome with
        | false =>
          rw [hhb] at hr2
          simp at hr2
          simp [hr2]
        | true =>
          rw [hhb] at hr2
          simp only [Bool.not_true, Bool.false_eq_true, if_false] at hr2
          cases hst : st.shifted with
          | none => rw [hst] at hr2; cases hr2
          | some x =>
            rw [hst] at hr2
            injection hr2 with hr2
            simp [optVal, ← hr2]
      refine ⟨?_, ?_, ?_, ?_⟩
      · rw [eval_padd, eval_pscale, eval_padd, eval_pscale, eval_shiftPoly]
        congr 2; ring
      · rw [dot_padd_right, dot_pscale_right, dot_padd_right, dot_pscale_right, dot_shiftPoly,
          hI, hcomm, hr2']
        cases hhb : p.hb.isSome with
        | false =>
          obtain ⟨h0, h1⟩ := hnh hhb
          simp [h0, h1, optVal]; ring
        | true => simp; ring
      · intro hf
        have h1 : acc.hid = false ∧ p.hb.isSome = false := by simpa using hf
        rw [hr2']
        simp [h1.2, hJ h1.1]
      · simp only [padd_len, pscale_len]
        have := shiftPoly_length ck p.poly d hnf hd1 hd2
        omega

theorem loops_agree [DecidableEq F] (ck : CK F) (z : F) :
    ∀ (polys : List (LPoly F)) (comms : List (LComm F)) (sts : List (Rand F)) (cur : F)
      (ξs : List F) (acc acc' : OpenAcc F) (ξrest : List F),
      AllCommitted ck polys comms sts → (∀ p ∈ polys, pnorm p.poly = p.poly) →
      openLoop ck polys comms sts cur ξs acc = .ok (acc', ξrest) →
      acc.c = dot ck.commKey acc.p + ck.s * acc.r → (acc.hid = false → acc.r = 0) →
      acc.p.length ≤ supportedDegree ck + 1 →
      accLoop ck z comms (polys.map fun p => evalPoly p.poly z) cur ξs acc.c (evalPoly acc.p z)
          = .ok ((acc'.c, evalPoly acc'.p z), ξrest) ∧
        acc'.c = dot ck.commKey acc'.p + ck.s * acc'.r ∧ (acc'.hid = false → acc'.r = 0) ∧
        acc'.p.length ≤ supportedDegree ck + 1 := by
  intro polys
  induction polys with
  | nil =>
    intro comms sts cur ξs acc acc' ξrest hall hnf ho hI hJ hL
    simp only [openLoop] at ho
    injection ho with ho; injection ho with h1 h2
    subst h1; subst h2
    simp only [List.map_nil]
    refine ⟨?_, hI, hJ, hL⟩
    cases comms <;> simp [accLoop]
  | cons p ps ih =>
    intro comms sts cur ξs acc acc' ξrest hall hnf ho hI hJ hL
    cases comms with
    | nil => simp [AllCommitted] at hall
    | cons c cs =>
      cases sts with
      | nil => simp [AllCommitted] at hall
      | cons st sts =>
        obtain ⟨hc1, hcr⟩ := hall
        simp only [openLoop] at ho
        split at ho
        · rename_i ξ' ξ'' rest
          split at ho
          · cases ho
          · rename_i acc1 hstep
            obtain ⟨ha, hI1, hJ1, hL1⟩ := step_agree ck z p c st cur ξ' acc acc1 hc1
              (hnf p (by simp)) hstep hI hJ hL
            obtain ⟨hb, hI2, hJ2, hL2⟩ := ih cs sts ξ'' rest acc1 acc' ξrest hcr
              (fun q hq => hnf q (by simp [hq])) ho hI1 hJ1 hL1
            refine ⟨?_, hI2, hJ2, hL2⟩
            simp only [List.map_cons, accLoop, ha]
            exact hb
        · cases ho

/-! ### hiding -/

theorem eval_subConst (p : List F) (z : F) : evalPoly (subConst p (evalPoly p z)) z = 0 := by
  cases p with
  | nil => rfl
  | cons c cs => simp only [subConst, evalPoly_cons]; ring

theorem subConst_length (p : List F) (v : F) : (subConst p v).length = p.length := by
  cases p <;> rfl

theorem hidingStep_spec [DecidableEq F] (ck : CK F) (z : F) (acc acc' : OpenAcc F) (rng : Bool)
    (draws ros ros1 draws' : List F) (hc : Option F) (π : Proof F)
    (h : hidingStep ck z acc rng draws ros = .ok (acc', hc, ros1, draws'))
    (hπ1 : π.hidingComm = hc) (hπ2 : π.rand = if acc.hid then some acc'.r else none)
    (hI : acc.c = dot ck.commKey acc.p + ck.s * acc.r) (hJ : acc.hid = false → acc.r = 0)
    (hL : acc.p.length ≤ supportedDegree ck + 1) :
    hidingAdjust ck π acc.c ros = .ok (acc'.c, ros1) ∧ acc'.c = dot ck.commKey acc'.p ∧
      evalPoly acc'.p z = evalPoly acc.p z ∧ acc'.p.length ≤ supportedDegree ck + 1 := by
  unfold hidingStep at h
  unfold hidingAdjust
  cases hh : acc.hid with
  | false =>
    rw [hh] at h hπ2
    simp only [Bool.not_false, if_true] at h
    injection h with h; injection h with h1 h2; injection h2 with h2 h3; injection h3 with h3 h4
    subst h1; subst h2; subst h3
    simp only [Bool.false_eq_true, if_false] at hπ2
    rw [hπ1, hπ2]
    refine ⟨by simp, ?_, rfl, hL⟩
    rw [hI, hJ hh]; ring
  | true =>
    rw [hh] at h hπ2
    simp only [Bool.not_true, Bool.false_eq_true, if_false] at h
    cases rng with
    | false => simp at h
    | true =>
      simp only [Bool.not_true, Bool.false_eq_true, if_false] at h
      split at h
      · cases h
      · rename_i hp rest hrp
        split at h
        · cases h
        · rename_i ω rest'
          split at h
          · cases h
          · rename_i α ros'
            injection h with h; injection h with h1 h2; injection h2 with h2 h3
            injection h3 with h3 h4
            subst h1; subst h2; subst h3
            simp only [if_true] at hπ2
            rw [hπ1, hπ2]
            have hlen := (KZG.randPoly_length _ _ _ _ hrp).1
            refine ⟨by simp, ?_, ?_, ?_⟩
            · simp only
              rw [dot_padd_right, dot_pscale_right, cmCommit_eq, hI]
              simp only [optVal]; ring
            · simp only
              rw [eval_padd, eval_pscale, eval_subConst]; ring
            · simp only [padd_len, pscale_len, subConst_length]
              omega

/-! ### completeness -/

theorem supported_succ (ck : CK F) (k : Nat) (hk : ck.commKey.length = 2 ^ k) :
    supportedDegree ck + 1 = 2 ^ k := by
  unfold supportedDegree
  have : 0 < 2 ^ k := Nat.pow_pos (by omega)
  omega

/-- **Completeness at the level of `succinct_check`** for every power-of-two key, every list of
polynomials in normal form with their commitments and states as `commit` returns them (degree
bounds and hiding included), every point and all oracle outputs: whenever the prover returns a
proof, it has exactly `k = log₂(s+1)` rounds, `succinct_check` passes on the true values and
leaves the sponge / random oracle where the prover left them, and the final-key defect is zero. -/
theorem open_succinct_complete [DecidableEq F] (ck : CK F) (k : Nat) (hk : ck.commKey.length = 2 ^ k)
    (polys : List (LPoly F)) (comms : List (LComm F)) (sts : List (Rand F))
    (hall : AllCommitted ck polys comms sts) (hnf : ∀ p ∈ polys, pnorm p.poly = p.poly)
    (z : F) (ξs ros : List F) (rng : Bool) (draws : List F) (π : Proof F) (ξr ror dr : List F)
    (ho : IPA.open ck polys comms z sts ξs ros rng draws = .ok (π, ξr, ror, dr)) :
    badShape ck π = false ∧
      (∃ us, succinctCheck ck comms z (polys.map fun p => evalPoly p.poly z) π ξs ros
          = .ok (some us, ξr, ror) ∧ defect2 ck π us = 0) ∧
      π.lVec.length = k ∧ π.rVec.length = k := by
  have hn := supported_succ ck k hk
  unfold IPA.open at ho
  split at ho
  · cases ho
  · rename_i cur ξs'
    split at ho
    · cases ho
    · rename_i acc ξrest hloop
      split at ho
      · cases ho
      · rename_i acc' hc ros1 draws' hhid
        split at ho
        · cases ho
        · rename_i ξ₀ ros2
          simp only at ho
          split at ho
          · cases ho
          · rename_i ls rs fin ros3 hrounds
            split at ho
            · cases ho
            · rename_i π' hmk
              injection ho with ho; injection ho with ho1 ho2
              injection ho2 with ho2 ho3; injection ho3 with ho3 ho4
              subst ho1; subst ho2; subst ho3
              -- the combining loops
              obtain ⟨hacc, hI, hJ, hL⟩ := loops_agree ck z polys comms sts cur ξs'
                ⟨[], 0, 0, false⟩ acc ξrest hall hnf hloop (by simp) (by simp) (by simp)
              -- the rounds
              rw [hn] at hrounds
              obtain ⟨us, c, zf, K, hros, huslen, hne, hl, hr, hfin, hK, hzf, heq⟩ :=
                rounds_spec (ck.h * ξ₀) k (2 ^ k) _ _ _ ros2 (by
                    have := Nat.lt_two_pow_self (n := k); omega)
                  (padTo_length _ _ (by
                    have := (hidingStep_spec ck z acc acc' rng draws ros (ξ₀ :: ros2) draws' hc
                      ⟨[], [], 0, 0, hc, if acc.hid then some acc'.r else none⟩ hhid rfl rfl hI hJ hL).2.2.2
                    omega))
                  (powers_length _ _ _) hk _ hrounds
              simp only at hros hl hr hfin heq
              -- the proof
              unfold mkProof at hmk
              rw [hfin] at hmk
              simp only at hmk
              injection hmk with hmk
              subst hmk
              obtain ⟨hadj, hC, hV, hL'⟩ := hidingStep_spec ck z acc acc' rng draws ros (ξ₀ :: ros2) draws' hc
                ⟨ls, rs, K, c, hc, if acc.hid then some acc'.r else none⟩ hhid rfl rfl hI hJ hL
              have hshape : badShape ck ⟨ls, rs, K, c, hc, if acc.hid then some acc'.r else none⟩
                  = false := by
                unfold badShape
                simp only [hl, hr, hn, clog2_pow]
                simp
              have hacc' : accLoop ck z comms (polys.map fun p => evalPoly p.poly z) cur ξs' 0 0
                  = .ok ((acc.c, evalPoly acc.p z), ξrest) := by
                simpa using hacc
              have hzf' : zf = Succinct.evaluate us z := by
                rw [hzf, dot_comm, dot_powers _ _ _ _ (by
                  rw [Succinct.computeCoeffs_length, huslen]),
                  ← Succinct.evaluate_eq_horner]
                ring
              have hd1 : defect1 ck z ⟨ls, rs, K, c, hc, if acc.hid then some acc'.r else none⟩
                  ⟨acc'.c, evalPoly acc.p z, ξ₀, us, lrSum ls rs us⟩ = 0 := by
                unfold defect1
                simp only
                rw [dot_padTo, dot_powers _ _ _ _ (by rw [padTo_length _ _ (by omega)]),
                  evalPoly_padTo, ← hC, hV] at heq
                rw [← hzf']
                linear_combination heq
              refine ⟨hshape, ⟨us, ?_, ?_⟩, hl, hr⟩
              · unfold succinctCheck succinctRun
                simp only
                rw [hacc']
                simp only
                rw [hadj]
                simp only
                rw [hros, verifyRounds_ok us ros3 ls rs (by omega) (by omega) hne]
                simp only
                rw [hd1]
                simp only [if_true]
              · unfold defect2
                simp only
                rw [hK]; ring

/-- **Completeness of `open`/`check`**: under the same hypotheses `check` accepts the true values. -/
theorem open_check_complete [DecidableEq F] (ck : CK F) (k : Nat) (hk : ck.commKey.length = 2 ^ k)
    (polys : List (LPoly F)) (comms : List (LComm F)) (sts : List (Rand F))
    (hall : AllCommitted ck polys comms sts) (hnf : ∀ p ∈ polys, pnorm p.poly = p.poly)
    (z : F) (ξs ros : List F) (rng : Bool) (draws : List F) (π : Proof F) (ξr ror dr : List F)
    (ho : IPA.open ck polys comms z sts ξs ros rng draws = .ok (π, ξr, ror, dr)) :
    check ck comms z (polys.map fun p => evalPoly p.poly z) π ξs ros = .ok true ∧
      π.lVec.length = k ∧ π.rVec.length = k := by
  obtain ⟨hshape, ⟨us, hsc, hd2⟩, hl, hr⟩ := open_succinct_complete ck k hk polys comms sts hall hnf
    z ξs ros rng draws π ξr ror dr ho
  refine ⟨?_, hl, hr⟩
  unfold check
  rw [hshape, hsc]
  simp [finalKeyOk, hd2]

end IPA
end PCV
